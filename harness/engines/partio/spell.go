package partio

// Partition VALUES handed directly to WriteContents / ReadContents (no Disk, no table lookup) in every spelling the
// gpt package accepts - Start+End (Size 0), Start+Size (End 0), all three fields - plus contradictory ones and MBR,
// hand-built (never stamped: 512-byte defaults) or as gpt.Read / mbr.Read return them (stamped with 512 / 4096)
// and then re-spelled.  The reader supplies fewer bytes than the partition holds, exactly as many, or MORE: by less
// than one chunk and by several chunks.
// Oracle: no WriteAt of the log leaves [start, start+size) - at any time, not only in the final state -, no byte
// outside changes, error iff supplied != size, bytes land where they belong; ReadContents returns exactly the
// partition.  Correspondence: Model/PartDisk.lean partWrite / partReadReqs (driver ops partio.pwrite / pread),
// including the End / Size fields the call leaves on the partition.

import (
	"bytes"
	"fmt"
	"strings"

	"github.com/diskfs/go-diskfs/partition/gpt"
	"github.com/diskfs/go-diskfs/partition/mbr"
	"github.com/diskfs/go-diskfs/partition/part"

	"verif/harness/internal/hx"
	"verif/harness/internal/memdev"
)

// partStr is the `part=` argument of the driver: kind,index,start,end,size,lss,pss as the value holds them NOW.
func partStr(p part.Partition) string {
	switch q := p.(type) {
	case *gpt.Partition:
		return fmt.Sprintf("gpt,%d,%d,%d,%d,%d,%d", q.Index, q.Start, q.End, q.Size, unexportedInt(q, "logicalSectorSize"), unexportedInt(q, "physicalSectorSize"))
	case *mbr.Partition:
		return fmt.Sprintf("mbr,%d,%d,0,%d,%d,%d", q.Index, q.Start, q.Size, unexportedInt(q, "logicalSectorSize"), unexportedInt(q, "physicalSectorSize"))
	}
	return "-"
}

func partioSpell(c *hx.Ctx) {
	r := hx.NewRng(c.Seed*1000003 + 0x5e11)
	n := c.N(500, 15000)
	for i := 0; i < n; i++ {
		id := fmt.Sprintf("sp%d", i)
		seed := r.U64()
		if !c.Want(id) {
			continue
		}
		runSpell(c, id, hx.NewRng(seed))
	}
}

func runSpell(c *hx.Ctx, id string, r *hx.Rng) {
	desc := ""
	defer func() {
		if e := recover(); e != nil {
			c.Fail(id, "-", fmt.Sprintf("panic: %v", e), desc)
		}
	}()
	kind := "gpt"
	if r.Chance(20) {
		kind = "mbr"
	}
	stamped := r.Chance(40)
	g := partGeom{kind: kind, lss: 512, pss: 512}
	if stamped {
		g.lss, g.pss = hx.Pick(r, []int{512, 4096}), hx.Pick(r, []int{512, 4096, 1024})
	}
	boundary := uint64(1<<32) / uint64(g.lss)
	switch r.Intn(5) {
	case 0:
		g.start = boundary - uint64(1+r.Intn(12))
	case 1:
		g.start = boundary*uint64(1+r.Intn(3)) + uint64(r.Intn(5000))
	default:
		g.start = 40 + uint64(r.Intn(4000))
	}
	g.sizeSec = uint64(1 + r.Intn(24))
	size := int64(g.sizeSec) * int64(g.lss)
	startB := int64(g.start) * int64(g.lss)

	var d *memdev.Dev
	var p part.Partition
	if stamped {
		var err error
		d, p, err = mkPart(g)
		if err != nil {
			c.Fail(id, "-", "cannot set up partition: "+err.Error(), fmt.Sprintf("spell kind=%s lss=%d pss=%d startSec=%d sizeSec=%d", kind, g.lss, g.pss, g.start, g.sizeSec))
			return
		}
	} else {
		devSize := startB + size + 64*512 + 1<<20
		d = memdev.New(devSize)
		if kind == "gpt" {
			p = &gpt.Partition{Index: 1 + r.Intn(128), Start: g.start, End: g.start + g.sizeSec - 1, Size: uint64(size), Type: gpt.LinuxFilesystem, Name: "hand"}
		} else {
			p = &mbr.Partition{Index: 1 + r.Intn(4), Type: mbr.Linux, Start: uint32(g.start), Size: uint32(g.sizeSec)}
		}
	}
	// ---- the spelling
	spelling, refuse := "mbr", false
	if q, ok := p.(*gpt.Partition); ok {
		switch r.Intn(10) {
		case 0, 1, 2:
			spelling = "start+end"
			q.Size = 0
		case 3, 4, 5, 6:
			spelling = "start+size"
			q.End = 0
		case 7, 8:
			spelling = "all"
		default:
			spelling, refuse = "bad", true
			switch r.Intn(3) {
			case 0: // Size contradicts End
				q.Size += uint64(g.lss) * uint64(1+r.Intn(3))
			case 1: // Size no multiple of the sector, End unset
				q.End, q.Size = 0, q.Size-uint64(1+r.Intn(g.lss-1))
			default: // End before Start
				q.End = q.Start - 1 - uint64(r.Intn(3))
			}
		}
	}
	// ---- what the reader supplies
	var supplied int64
	supply := ""
	switch r.Intn(8) {
	case 0, 1:
		supply = "under"
		supplied = r.Int63n(size)
	case 2, 3:
		supply = "over.small" // by less than one chunk
		supplied = size + 1 + r.Int63n(int64(g.pss)-1)
	case 4, 5:
		supply = "over.multi" // by several chunks
		supplied = size + int64(2+r.Intn(5))*int64(g.pss) + r.Int63n(int64(g.pss))
	default:
		supply = "exact"
		supplied = size
	}
	data := r.Bytes(int(supplied))
	np := r.Intn(10)
	pieces := make([]int, np)
	for j := range pieces {
		switch r.Intn(4) {
		case 0:
			pieces[j] = 1 + r.Intn(7)
		case 1:
			pieces[j] = g.pss - r.Intn(3)
		default:
			pieces[j] = 1 + r.Intn(g.pss)
		}
	}
	cr := &chunkReader{data: append([]byte(nil), data...), pieces: pieces, eofWithData: r.Bool()}
	handed := partStr(p)
	desc = fmt.Sprintf("spell kind=%s stamped=%v spelling=%s part=[%s] partition=[%d,+%d) supplied=%d (%s) pieces=%s eofWithData=%v",
		kind, stamped, spelling, handed, startB, size, supplied, supply, ints(pieces), cr.eofWithData)

	guardLo, guardHi := startB-16384, startB+size+16384+8*int64(g.pss)
	if guardLo < 0 {
		guardLo = 0
	}
	d.RawWrite(r.Bytes(int(guardHi-guardLo)), guardLo)
	d.ResetLog()
	before := d.Clone()
	sizeSet := true
	if q, ok := p.(*gpt.Partition); ok && q.Size == 0 {
		sizeSet = false
	}

	readCheck := func(sub string, judged bool, ref *memdev.Dev) {
		var out bytes.Buffer
		var reqs []string
		c.Case(id+"/"+sub, "partio.pread", "part="+partStr(p), fmt.Sprintf("dev=%d", d.Size()))
		d.ReadHook = func(off int64, n int) { reqs = append(reqs, fmt.Sprintf("%d:%d", off, n)) }
		rn, rerr := p.ReadContents(d, &out)
		d.ReadHook = nil
		rs := "-"
		if len(reqs) > 0 {
			rs = strings.Join(reqs, ",")
		}
		c.Impl(id+"/"+sub, "rs="+rs, fmt.Sprintf("n=%d", rn))
		switch {
		case len(d.Log) != 0:
			c.Fail(id+"/"+sub+"-o", "-", "ReadContents wrote to the device", desc)
		case !judged:
			// Size never set (one physical chunk is read) or fields that contradict each other: correspondence only
			c.Stat("spell.read.not-judged")
			c.OK(id + "/" + sub + "-o")
		default:
			want := ref.Bytes(startB, int(size))
			if rerr != nil || rn != size || !bytes.Equal(out.Bytes(), want) {
				c.Fail(id+"/"+sub+"-o", "-", fmt.Sprintf("ReadContents returned n=%d len=%d err=%v, want exactly the %d bytes of the partition at %d", rn, out.Len(), rerr, size, startB), desc)
			} else {
				c.OK(id + "/" + sub + "-o")
			}
		}
	}
	// ---- ReadContents on the value as handed
	readCheck("rd0", sizeSet && !refuse, before)

	// ---- WriteContents
	wn, werr := p.WriteContents(d, cr)
	c.Case(id+"/wr", "partio.pwrite", "part="+handed, "chunks="+ints(cr.got))
	if werr != nil && strings.Contains(werr.Error(), "cannot reconcile") {
		c.Impl(id+"/wr", "res=reconcile")
	} else {
		okStr := "0"
		if werr == nil {
			okStr = "1"
		}
		endF, sizeF := uint64(0), uint64(0)
		switch q := p.(type) {
		case *gpt.Partition:
			endF, sizeF = q.End, q.Size
		case *mbr.Partition:
			sizeF = uint64(q.Size)
		}
		c.Impl(id+"/wr", "res=done", "ws="+wlog(d), fmt.Sprintf("total=%d", wn), "ok="+okStr, fmt.Sprintf("end=%d", endF), fmt.Sprintf("size=%d", sizeF))
	}
	var problems []string
	// at any time: every WriteAt of the log lies inside the partition
	for _, e := range d.Log {
		if e.Sync || e.Len == 0 {
			continue
		}
		if refuse || e.Off < startB || e.Off+int64(e.Len) > startB+size {
			problems = append(problems, fmt.Sprintf("WriteAt [%d,%d) leaves the partition [%d,%d)", e.Off, e.Off+int64(e.Len), startB, startB+size))
			break
		}
	}
	if refuse {
		if werr == nil {
			problems = append(problems, "fields that cannot be reconciled, yet WriteContents reported success")
		}
		if off := memdev.DiffOutside(before, d, 0, 0); off >= 0 {
			problems = append(problems, fmt.Sprintf("refused, yet byte %d changed", off))
		}
	} else {
		if (werr == nil) != (supplied == size) {
			problems = append(problems, fmt.Sprintf("err=%v but supplied=%d size=%d", werr, supplied, size))
		}
		if off := memdev.DiffOutside(before, d, startB, startB+size); off >= 0 {
			problems = append(problems, fmt.Sprintf("byte at %d outside partition [%d,%d) changed", off, startB, startB+size))
		}
		if werr == nil && (int64(wn) != size || !bytes.Equal(d.Bytes(startB, int(size)), data)) {
			problems = append(problems, fmt.Sprintf("reported %d bytes written, partition is %d, or its bytes differ from the supplied bytes", wn, size))
		}
		if supplied < size && !bytes.Equal(d.Bytes(startB, int(supplied)), data) {
			problems = append(problems, "short input: leading partition bytes differ from the supplied bytes")
		}
		if supplied > size && int64(wn) > size {
			problems = append(problems, fmt.Sprintf("over-long input: %d bytes reported written into a partition of %d", wn, size))
		}
	}
	if len(d.OutOfRange) > 0 {
		problems = append(problems, fmt.Sprintf("write beyond device: %v", d.OutOfRange))
	}
	if len(problems) > 0 {
		c.Fail(id+"/write", "-", strings.Join(problems, "; "), desc)
	} else {
		c.OK(id + "/write")
	}
	// ---- ReadContents on the value as WriteContents left it (Size / End assigned when it was accepted)
	if !refuse {
		after := d.Clone()
		d.ResetLog()
		readCheck("rd1", true, after)
	}
	c.Stat("spelling=" + spelling)
	c.Stat("supply=" + strings.SplitN(supply, ".", 2)[0])
	c.Stat("spell.supply=" + supply)
	if stamped {
		c.Stat(fmt.Sprintf("spell.stamped/lss%d", g.lss))
	} else {
		c.Stat("spell.hand-built")
	}
	if uint64(startB) >= 1<<32 {
		c.Stat("spell.start>=4GiB")
	}
	c.Distinct(desc)
	if spelling == "start+size" && strings.HasPrefix(supply, "over") {
		c.Sample(desc)
	}
}
