package partio

import (
	"bytes"
	"fmt"
	"io"
	"strings"

	"github.com/diskfs/go-diskfs/backend"
	"github.com/diskfs/go-diskfs/partition/gpt"
	"github.com/diskfs/go-diskfs/partition/mbr"
	"github.com/diskfs/go-diskfs/partition/part"

	"verif/harness/internal/hx"
	"verif/harness/internal/memdev"
)

// Run is the engine entry point.
func Run(c *hx.Ctx) { partio(c) }

// chunkReader returns data in the given piece sizes (a piece is further cut to len(b)).
type chunkReader struct {
	data        []byte
	pieces      []int
	i           int
	eofWithData bool
	got         []int // sizes actually returned (what the model is fed)
}

func (c *chunkReader) Read(b []byte) (int, error) {
	if len(c.data) == 0 {
		return 0, io.EOF
	}
	n := len(b)
	if c.i < len(c.pieces) {
		if c.pieces[c.i] < n {
			n = c.pieces[c.i]
		}
		c.i++
	}
	if n > len(c.data) {
		n = len(c.data)
	}
	copy(b, c.data[:n])
	c.data = c.data[n:]
	c.got = append(c.got, n)
	if len(c.data) == 0 && c.eofWithData {
		return n, io.EOF
	}
	return n, nil
}

type partGeom struct {
	kind           string
	lss, pss       int
	start, sizeSec uint64
}

func wlog(d *memdev.Dev) string {
	var sb strings.Builder
	first := true
	for _, e := range d.Log {
		if e.Sync {
			continue
		}
		if !first {
			sb.WriteByte(',')
		}
		first = false
		fmt.Fprintf(&sb, "%d:%d", e.Off, e.Len)
	}
	if first {
		return "-"
	}
	return sb.String()
}

func ints(xs []int) string {
	if len(xs) == 0 {
		return "-"
	}
	s := make([]string, len(xs))
	for i, x := range xs {
		s[i] = fmt.Sprint(x)
	}
	return strings.Join(s, ",")
}

// mkPart creates the table on a fresh device and returns the partition as the library reads it back.
func mkPart(g partGeom) (*memdev.Dev, part.Partition, error) {
	endByte := (g.start + g.sizeSec) * uint64(g.lss)
	devSize := int64(endByte) + 64*int64(g.lss) + 1<<20
	devSize -= devSize % int64(g.lss)
	d := memdev.New(devSize)
	switch g.kind {
	case "gpt":
		t := &gpt.Table{LogicalSectorSize: g.lss, PhysicalSectorSize: g.pss, ProtectiveMBR: true,
			GUID: "5CA3360B-5DE6-4FCF-B4CE-419CEE433B51",
			Partitions: []*gpt.Partition{{Index: 1, Start: g.start, End: g.start + g.sizeSec - 1, Type: gpt.LinuxFilesystem,
				GUID: "7F8AF2A9-1B1E-4A5E-9D4E-3C0E0A9B8F11", Name: "p"}}}
		if err := t.Write(d, devSize); err != nil {
			return nil, nil, err
		}
		rt, err := gpt.Read(d, g.lss, g.pss)
		if err != nil {
			return nil, nil, err
		}
		if len(rt.Partitions) != 1 {
			return nil, nil, fmt.Errorf("read back %d partitions", len(rt.Partitions))
		}
		d.ResetLog()
		return d, rt.Partitions[0], nil
	default:
		t := &mbr.Table{LogicalSectorSize: g.lss, PhysicalSectorSize: g.pss,
			Partitions: []*mbr.Partition{{Index: 1, Type: mbr.Linux, Start: uint32(g.start), Size: uint32(g.sizeSec)}}}
		if err := t.Write(d, devSize); err != nil {
			return nil, nil, err
		}
		rt, err := mbr.Read(d, g.lss, g.pss)
		if err != nil {
			return nil, nil, err
		}
		d.ResetLog()
		return d, rt.Partitions[0], nil
	}
}

func partio(c *hx.Ctx) {
	// the >= 4 GiB streams (own random stream, oracle only) run beside everything else: ~15 s of CPU in the quick tier
	bigDone := make(chan struct{})
	go func() {
		defer close(bigDone)
		partioBig(c)
	}()
	defer func() { <-bigDone }()
	r := c.Rng
	n := c.N(1500, 60000)
	lssOpts := []int{512, 512, 4096}
	pssOpts := []int{512, 4096, 1024, 512}
	for i := 0; i < n; i++ {
		id := fmt.Sprintf("p%d", i)
		g := partGeom{kind: hx.Pick(r, []string{"gpt", "mbr"}), lss: hx.Pick(r, lssOpts), pss: hx.Pick(r, pssOpts)}
		// start classes: low, just below / at / above the 4 GiB byte boundary, far
		boundary := uint64(1<<32) / uint64(g.lss)
		switch r.Intn(6) {
		case 0, 1:
			g.start = 40 + uint64(r.Intn(3000))
		case 2:
			g.start = boundary - uint64(1+r.Intn(4))
		case 3:
			g.start = boundary + uint64(r.Intn(4))
		case 4:
			g.start = boundary*uint64(2+r.Intn(5)) + uint64(r.Intn(100000))
		default:
			g.start = 40 + uint64(r.Intn(1<<22))
		}
		g.sizeSec = uint64(1 + r.Intn(24))
		if r.Chance(10) {
			g.sizeSec = 1
		}
		if !c.Want(id) {
			continue
		}
		size := int64(g.sizeSec) * int64(g.lss)
		startB := int64(g.start) * int64(g.lss)
		// supplied length: shorter / equal / longer
		var supplied int64
		switch r.Intn(5) {
		case 0:
			supplied = int64(r.Int63n(size))
		case 1:
			supplied = size + 1 + r.Int63n(2*int64(g.pss))
		default:
			supplied = size
		}
		data := r.Bytes(int(supplied))
		np := r.Intn(12)
		pieces := make([]int, np)
		for j := range pieces {
			switch r.Intn(4) {
			case 0:
				pieces[j] = 1 + r.Intn(7)
			case 1:
				pieces[j] = g.pss - r.Intn(3)
			default:
				pieces[j] = 1 + r.Intn(g.pss)
			}
		}
		cr := &chunkReader{data: append([]byte(nil), data...), pieces: pieces, eofWithData: r.Bool()}
		desc := fmt.Sprintf("kind=%s lss=%d pss=%d startSec=%d sizeSec=%d supplied=%d pieces=%s eofWithData=%v",
			g.kind, g.lss, g.pss, g.start, g.sizeSec, supplied, ints(pieces), cr.eofWithData)
		func() {
			defer func() {
				if e := recover(); e != nil {
					c.Fail(id, "-", fmt.Sprintf("panic: %v", e), desc)
				}
			}()
			d, p, err := mkPart(g)
			if err != nil {
				c.Fail(id, "-", "cannot set up partition: "+err.Error(), desc)
				return
			}
			// pre-fill the partition and its surroundings with a pattern so that reads are non-trivial
			guardLo, guardHi := startB-8192, startB+size+8192
			if guardLo < 0 {
				guardLo = 0
			}
			fill := r.Bytes(int(guardHi - guardLo))
			d.RawWrite(fill, guardLo)
			before := d.Clone()
			// ---- ReadContents first
			var out bytes.Buffer
			var reqs []string
			d.ReadHook = func(off int64, n int) { reqs = append(reqs, fmt.Sprintf("%d:%d", off, n)) }
			rn, rerr := p.ReadContents(d, &out)
			d.ReadHook = nil
			c.Case(id+"/rd", "partio.read", fmt.Sprintf("start=%d", startB), fmt.Sprintf("size=%d", size), fmt.Sprintf("pss=%d", g.pss), fmt.Sprintf("dev=%d", d.Size()))
			c.Impl(id+"/rd", "rs="+strings.Join(reqs, ","))
			want := before.Bytes(startB, int(size))
			if rerr != nil || rn != size || !bytes.Equal(out.Bytes(), want) {
				tag := "-"
				c.Fail(id+"/read", tag, fmt.Sprintf("ReadContents returned n=%d len=%d err=%v, want exactly %d bytes of the partition at %d (equalPrefix=%v)",
					rn, out.Len(), rerr, size, startB, bytes.HasPrefix(out.Bytes(), want)), desc)
			} else {
				c.OK(id + "/read")
			}
			if len(d.Log) != 0 {
				c.Fail(id+"/read-nowrite", "-", "ReadContents wrote to the device", desc)
			}
			// ---- WriteContents
			var w backend.WritableFile = d
			wn, werr := p.WriteContents(w, cr)
			// model correspondence: offsets/lengths of every WriteAt, result
			c.Case(id, "partio.write", fmt.Sprintf("start=%d", startB), fmt.Sprintf("size=%d", size), "chunks="+ints(cr.got))
			okStr := "0"
			if werr == nil {
				okStr = "1"
			}
			c.Impl(id, "ws="+wlog(d), fmt.Sprintf("total=%d", wn), "ok="+okStr)
			// direct oracle
			var problems []string
			if (werr == nil) != (supplied == size) {
				problems = append(problems, fmt.Sprintf("err=%v but supplied=%d size=%d", werr, supplied, size))
			}
			if off := memdev.DiffOutside(before, d, startB, startB+size); off >= 0 {
				problems = append(problems, fmt.Sprintf("byte at %d outside partition [%d,%d) changed", off, startB, startB+size))
			}
			if len(d.OutOfRange) > 0 {
				problems = append(problems, fmt.Sprintf("write beyond device: %v", d.OutOfRange))
			}
			if werr == nil {
				if int64(wn) != size {
					problems = append(problems, fmt.Sprintf("reported %d bytes written, partition is %d", wn, size))
				}
				if !bytes.Equal(d.Bytes(startB, int(size)), data) {
					problems = append(problems, "partition bytes differ from supplied bytes")
				}
			} else if supplied < size {
				// everything supplied must have landed at the partition's offset
				if !bytes.Equal(d.Bytes(startB, int(supplied)), data) {
					problems = append(problems, "short input: leading partition bytes differ from supplied bytes")
				}
			}
			if len(problems) > 0 {
				c.Fail(id+"/write", "-", strings.Join(problems, "; "), desc)
			} else {
				c.OK(id + "/write")
			}
			cls := fmt.Sprintf("%s/lss%d/pss%d/", g.kind, g.lss, g.pss)
			switch {
			case uint64(startB) >= 1<<32:
				c.Stat("start>=4GiB")
				cls += "hi"
			default:
				c.Stat("start<4GiB")
				cls += "lo"
			}
			switch {
			case supplied < size:
				c.Stat("supplied<size")
			case supplied == size:
				c.Stat("supplied=size")
			default:
				c.Stat("supplied>size")
			}
			if size%int64(g.pss) != 0 {
				c.Stat("size-not-multiple-of-pss")
			}
			c.Stat("kind=" + g.kind)
			c.Distinct(desc)
			c.Sample(desc)
		}()
	}
	partioCopy(c)
	partioDisk(c)
	partioSpell(c)
}
