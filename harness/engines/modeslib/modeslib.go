// Package modeslib holds helpers shared by the readonly (C11), detect (C12)
// and repro (C14) engines: filesystem-kind tables, creating a populated
// filesystem of any of the six kinds through the public API, reading a tree
// back, partition-table set-up. No oracle lives here.
package modeslib

import (
	"fmt"
	"io"
	"os"
	"path"
	"sort"
	"strings"

	"github.com/diskfs/go-diskfs/disk"
	"github.com/diskfs/go-diskfs/filesystem"
	"github.com/diskfs/go-diskfs/filesystem/iso9660"
	"github.com/diskfs/go-diskfs/filesystem/squashfs"
	"github.com/diskfs/go-diskfs/partition/gpt"
	"github.com/diskfs/go-diskfs/partition/mbr"
)

// Kind is one of the six filesystem kinds, in disk.GetFilesystem's probe order.
type Kind struct {
	Name string
	Type filesystem.Type
}

var Kinds = []Kind{
	{"fat32", filesystem.TypeFat32},
	{"fat16", filesystem.TypeFat16},
	{"fat12", filesystem.TypeFat12},
	{"iso9660", filesystem.TypeISO9660},
	{"squashfs", filesystem.TypeSquashfs},
	{"ext4", filesystem.TypeExt4},
}

func KindByName(n string) (Kind, bool) {
	for _, k := range Kinds {
		if k.Name == n {
			return k, true
		}
	}
	return Kind{}, false
}

func TypeName(t filesystem.Type) string {
	for _, k := range Kinds {
		if k.Type == t {
			return k.Name
		}
	}
	return fmt.Sprintf("type%d", int(t))
}

// HasLabel: kinds whose Create takes a label that Label() reports back.
func HasLabel(k string) bool { return k == "fat12" || k == "fat16" || k == "fat32" || k == "ext4" }

// Staged: kinds that only reach the device on Finalize.
func Staged(k string) bool { return k == "iso9660" || k == "squashfs" }

// File is one entry of a small tree (Dir entries have nil Data).
type File struct {
	Path string // io/fs style, no leading slash
	Dir  bool
	Data []byte
}

// UpperTree: names that survive every filesystem's name rules unchanged
// (8.3 upper case, which iso9660 without Rock Ridge also keeps).
func SmallTree(seedByte byte) []File {
	a := make([]byte, 700)
	for i := range a {
		a[i] = byte(i*7) ^ seedByte
	}
	b := []byte("hello, detect " + string(rune('A'+seedByte%26)) + "\n")
	return []File{
		{Path: "DIR", Dir: true},
		{Path: "A.TXT", Data: b},
		{Path: "DIR/B.BIN", Data: a},
	}
}

// Populate writes the tree through the public API of fs.
func Populate(fs filesystem.FileSystem, tree []File) error {
	for _, f := range tree {
		if f.Dir {
			if err := fs.Mkdir(f.Path); err != nil {
				return fmt.Errorf("mkdir %s: %w", f.Path, err)
			}
			continue
		}
		h, err := fs.OpenFile(f.Path, os.O_CREATE|os.O_RDWR)
		if err != nil {
			return fmt.Errorf("create %s: %w", f.Path, err)
		}
		if len(f.Data) > 0 {
			if _, err := h.Write(f.Data); err != nil {
				h.Close()
				return fmt.Errorf("write %s: %w", f.Path, err)
			}
		}
		if err := h.Close(); err != nil {
			return fmt.Errorf("close %s: %w", f.Path, err)
		}
	}
	return nil
}

// Finalize finalizes staged filesystems (iso9660, squashfs); no-op for the others.
func Finalize(fs filesystem.FileSystem, label string) error {
	switch x := fs.(type) {
	case *iso9660.FileSystem:
		return x.Finalize(iso9660.FinalizeOptions{VolumeIdentifier: label})
	case *squashfs.FileSystem:
		return x.Finalize(squashfs.FinalizeOptions{})
	}
	return nil
}

// MakeFS = CreateFilesystem + Populate + Finalize + Close of the creating object.
func MakeFS(d *disk.Disk, part int, k Kind, label string, tree []File) error {
	fs, err := d.CreateFilesystem(disk.FilesystemSpec{Partition: part, FSType: k.Type, VolumeLabel: label})
	if err != nil {
		return fmt.Errorf("create: %w", err)
	}
	defer fs.Close()
	if err := Populate(fs, tree); err != nil {
		return err
	}
	return Finalize(fs, label)
}

// ReadTree lists every file under root with its content, as "path=hex-free digest" lines sorted.
// names are compared case-insensitively by callers that need it.
func ReadTree(fs filesystem.FileSystem) (map[string][]byte, error) {
	out := map[string][]byte{}
	var walk func(dir string, depth int) error
	walk = func(dir string, depth int) error {
		if depth > 8 {
			return fmt.Errorf("too deep at %s", dir)
		}
		ents, err := fs.ReadDir(dir)
		if err != nil {
			return fmt.Errorf("readdir %s: %w", dir, err)
		}
		for _, e := range ents {
			n := e.Name()
			if n == "." || n == ".." || n == "lost+found" {
				continue
			}
			p := n
			if dir != "." {
				p = path.Join(dir, n)
			}
			if e.IsDir() {
				out[p+"/"] = nil
				if err := walk(p, depth+1); err != nil {
					return err
				}
				continue
			}
			// read exactly the size the directory entry reports, in one Read-sized buffer: this is
			// independent of how a handle behaves when asked for more than remains (property C10)
			fi, err := e.Info()
			if err != nil {
				return fmt.Errorf("info %s: %w", p, err)
			}
			f, err := fs.OpenFile(p, os.O_RDONLY)
			if err != nil {
				return fmt.Errorf("open %s: %w", p, err)
			}
			b := make([]byte, fi.Size())
			_, err = io.ReadFull(f, b)
			f.Close()
			if err != nil && fi.Size() > 0 {
				return fmt.Errorf("read %s: %w", p, err)
			}
			out[p] = b
		}
		return nil
	}
	if err := walk(".", 0); err != nil {
		return out, err
	}
	return out, nil
}

// TreeDiff compares what was written with what was read back (names compared upper-cased,
// iso9660 version suffixes ";1" and trailing dots dropped). Returns "" when equal.
func TreeDiff(want []File, got map[string][]byte) string {
	norm := func(s string) string {
		parts := strings.Split(strings.ToUpper(s), "/")
		for i, p := range parts {
			if j := strings.Index(p, ";"); j >= 0 {
				p = p[:j]
			}
			parts[i] = strings.TrimSuffix(p, ".")
		}
		return strings.Join(parts, "/")
	}
	g := map[string][]byte{}
	for k, v := range got {
		g[norm(k)] = v
	}
	var probs []string
	seen := map[string]bool{}
	for _, f := range want {
		k := norm(f.Path)
		if f.Dir {
			k += "/"
		}
		seen[k] = true
		v, ok := g[k]
		if !ok {
			probs = append(probs, "missing "+k)
			continue
		}
		if !f.Dir && string(v) != string(f.Data) {
			probs = append(probs, fmt.Sprintf("content of %s differs (%d vs %d bytes)", k, len(v), len(f.Data)))
		}
	}
	for k := range g {
		if !seen[k] {
			probs = append(probs, "extra "+k)
		}
	}
	sort.Strings(probs)
	return strings.Join(probs, "; ")
}

// Fixed GUIDs so that nothing in table set-up is random.
const (
	DiskGUID  = "5CA3360B-5DE6-4FCF-B4CE-419CEE433B51"
	PartGUID  = "7F8AF2A9-1B1E-4A5E-9D4E-3C0E0A9B8F11"
	Part2GUID = "0A1B2C3D-4E5F-4A6B-8C7D-9E0F1A2B3C4D"
)

// GPTOne is a GPT with one partition [startSec, startSec+sizeSec).
func GPTOne(startSec, sizeSec uint64) *gpt.Table {
	return &gpt.Table{LogicalSectorSize: 512, PhysicalSectorSize: 512, ProtectiveMBR: true, GUID: DiskGUID,
		Partitions: []*gpt.Partition{{Index: 1, Start: startSec, End: startSec + sizeSec - 1, Type: gpt.LinuxFilesystem,
			GUID: PartGUID, Name: "p1"}}}
}

// MBROne is an MBR with one partition.
func MBROne(startSec, sizeSec uint32) *mbr.Table {
	return &mbr.Table{LogicalSectorSize: 512, PhysicalSectorSize: 512,
		Partitions: []*mbr.Partition{{Index: 1, Type: mbr.Linux, Start: startSec, Size: sizeSec}}}
}
