package fatops

// Directory BYTES of the tree model (lean/DiskfsModel/Model/Fat/TreeImg.lean, `image`): after every
// call of a fat.tree history the raw bytes of every directory of the real image - the root (fixed
// region or chain) first, then every subdirectory in listing order, whole clusters - are digested
// and compared with the serialisation the Lean model gives the same directories (`dimg`).  The
// date/time words of every 8.3 entry are masked (the model carries them as parameters, the driver
// sets them to zero); everything else - names, long-name slots with checksum and order, attribute
// and case bytes, first cluster halves, size, "." and "..", zero padding - is compared bit for bit.

import (
	"encoding/hex"
	"fmt"
	"io"
	"strings"
	"sync"
)

// plainListing renders the raw reader's tree without cluster numbers: names, nesting, sizes and
// content digests (the format of the driver's `specListing`).
func plainListing(rep *rawReport, d io.ReaderAt) string {
	var out []string
	var walk func(n *rawNode, pre string)
	walk = func(n *rawNode, pre string) {
		for _, ch := range n.Children {
			p := ch.Name
			if pre != "" {
				p = pre + "/" + ch.Name
			}
			if ch.IsDir {
				out = append(out, p+"|d")
				walk(ch, p)
			} else {
				out = append(out, fmt.Sprintf("%s|f|%d|%d", p, ch.Size, digestBytes(rep.content(d, ch))))
			}
		}
	}
	walk(rep.Root, "")
	return strings.Join(out, ";")
}

// maskDirTimes zeroes create time/date, access date, modify time/date of every 8.3 entry.
func maskDirTimes(b []byte) []byte {
	out := append([]byte(nil), b...)
	for i := 0; i+32 <= len(out); i += 32 {
		if out[i] == 0 {
			break
		}
		if out[i+11]&0x3F == 0x0F {
			continue
		}
		for _, j := range []int{14, 15, 16, 17, 18, 19, 22, 23, 24, 25} {
			out[i+j] = 0
		}
	}
	return out
}

// rootDirBytes reads the root directory of the image as the raw reader locates it.
func rootDirBytes(rep *rawReport, d io.ReaderAt) []byte {
	if rep.Vol.Kind == 32 {
		return rep.readChain(d, rep.Root.Chain)
	}
	return rd(d, rep.Vol.RootOff, int(rep.Vol.RootBytes))
}

// dirImages lists the masked bytes of every directory: root first, then listing (pre-)order.
func dirImages(rep *rawReport, d io.ReaderAt) [][]byte {
	out := [][]byte{maskDirTimes(rootDirBytes(rep, d))}
	var walk func(n *rawNode)
	walk = func(n *rawNode) {
		for _, ch := range n.Children {
			if ch.IsDir {
				out = append(out, maskDirTimes(rep.readChain(d, ch.Chain)))
				walk(ch)
			}
		}
	}
	walk(rep.Root)
	return out
}

func dirImagesDigest(rep *rawReport, d io.ReaderAt) uint64 {
	var all []byte
	for _, b := range dirImages(rep, d) {
		all = append(all, b...)
	}
	return digestBytes(all)
}

// rootPreHex is the fresh root directory's entries in front of its children (the volume label).
func rootPreHex(v *vol, rep *rawReport) string {
	b := maskDirTimes(rootDirBytes(rep, v.dev))
	n := rootBaseSlots(v, rep) * 32
	if n > len(b) {
		n = len(b)
	}
	return hex.EncodeToString(b[:n])
}

var (
	rootParOnce  sync.Once
	rootParCache = map[int]uint32{}
)

// rootDotDot probes which first cluster the code records in ".." of a child of the root
// (readDirWithMkdir takes the parent's clusterLocation: 0 for the fixed root, the root cluster on
// FAT32): the model takes it as a parameter, so the comparison is bit for bit whichever it is.
func rootDotDot(kind int) uint32 {
	rootParOnce.Do(func() {
		for _, cfg := range []volCfg{{Kind: 12, Size: 64 * kib}, {Kind: 16, Size: 5 * mib}, {Kind: 32, Size: 256 * kib, BS: 512}} {
			v, err := mkVol(cfg)
			if err != nil {
				continue
			}
			if err := safely(func() error { return v.fs.Mkdir("p") }); err != nil {
				continue
			}
			rep := v.raw()
			if rep.Vol == nil || rep.Root == nil {
				continue
			}
			n := rep.find("p")
			if n == nil || len(n.Chain) == 0 {
				continue
			}
			b := rep.readChain(v.dev, n.Chain)
			if len(b) >= 64 && b[32] == '.' && b[33] == '.' {
				rootParCache[cfg.Kind] = uint32(le16(b[32+26:])) | uint32(le16(b[32+20:]))<<16
			}
		}
	})
	return rootParCache[kind]
}
