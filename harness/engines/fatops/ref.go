package fatops

// The reference: a plain in-memory tree of named byte strings. This is the C01 oracle's
// notion of truth; it knows nothing of clusters, 8.3 names or directories on disk.

import (
	"fmt"
	"sort"
	"strings"
)

type refNode struct {
	name     string
	isDir    bool
	data     []byte
	children []*refNode
}

type refTree struct{ root *refNode }

func newRef() *refTree { return &refTree{root: &refNode{isDir: true}} }

func foldName(s string) string {
	b := []byte(s)
	for i, c := range b {
		if c >= 'A' && c <= 'Z' {
			b[i] = c + 32
		}
	}
	return string(b)
}

func sameName(a, b string) bool { return foldName(a) == foldName(b) }

func (n *refNode) child(name string) *refNode {
	for _, c := range n.children {
		if sameName(c.name, name) {
			return c
		}
	}
	return nil
}

func (n *refNode) removeChild(name string) {
	for i, c := range n.children {
		if sameName(c.name, name) {
			n.children = append(n.children[:i:i], n.children[i+1:]...)
			return
		}
	}
}

func splitP(p string) []string {
	var out []string
	for _, s := range strings.Split(p, "/") {
		if s != "" && s != "." {
			out = append(out, s)
		}
	}
	return out
}

// dirOf returns the directory node holding the last component of p, and that component.
func (t *refTree) dirOf(p string) (*refNode, string, string) {
	parts := splitP(p)
	if len(parts) == 0 {
		return nil, "", "invalid"
	}
	cur := t.root
	for _, s := range parts[:len(parts)-1] {
		c := cur.child(s)
		if c == nil {
			return nil, "", "notfound"
		}
		if !c.isDir {
			return nil, "", "notdir"
		}
		cur = c
	}
	return cur, parts[len(parts)-1], ""
}

func (t *refTree) lookup(p string) *refNode {
	cur := t.root
	for _, s := range splitP(p) {
		if !cur.isDir {
			return nil
		}
		cur = cur.child(s)
		if cur == nil {
			return nil
		}
	}
	return cur
}

// expect says whether the reference considers the call possible ("" = yes) without applying it.
// apply performs it. Mkdir creates missing parents (the library's Mkdir is mkdir -p).
func (t *refTree) check(o *op) string {
	switch o.Kind {
	case "mkdir":
		cur := t.root
		for _, s := range splitP(o.Path) {
			c := cur.child(s)
			if c == nil {
				return ""
			}
			if !c.isDir {
				return "notdir"
			}
			cur = c
		}
		return ""
	case "create", "write", "append", "trunc":
		d, name, e := t.dirOf(o.Path)
		if e != "" {
			return e
		}
		c := d.child(name)
		if c == nil {
			if o.Create {
				return ""
			}
			return "notfound"
		}
		if c.isDir {
			return "isdir"
		}
		return ""
	case "rename":
		d, name, e := t.dirOf(o.Path)
		if e != "" {
			return e
		}
		d2, name2, e2 := t.dirOf(o.Path2)
		if e2 != "" {
			return e2
		}
		if d != d2 {
			return "crossdir"
		}
		c := d.child(name)
		if c == nil {
			return "notfound"
		}
		if t2 := d.child(name2); t2 != nil && t2 != c && t2.isDir {
			return "isdir"
		}
		return ""
	case "remove":
		d, name, e := t.dirOf(o.Path)
		if e != "" {
			return e
		}
		c := d.child(name)
		if c == nil {
			return "notfound"
		}
		if c.isDir && len(c.children) > 0 {
			return "notempty"
		}
		return ""
	}
	return "invalid"
}

func spliceBytes(c []byte, off int, p []byte) []byte {
	n := len(c)
	if off+len(p) > n {
		n = off + len(p)
	}
	out := make([]byte, n) // a gap reads as zeros
	copy(out, c)
	copy(out[off:], p)
	return out
}

func (t *refTree) apply(o *op) {
	switch o.Kind {
	case "mkdir":
		cur := t.root
		for _, s := range splitP(o.Path) {
			c := cur.child(s)
			if c == nil {
				c = &refNode{name: s, isDir: true}
				cur.children = append(cur.children, c)
			}
			cur = c
		}
	case "create", "write", "append", "trunc":
		d, name, _ := t.dirOf(o.Path)
		c := d.child(name)
		if c == nil {
			c = &refNode{name: name}
			d.children = append(d.children, c)
		}
		switch o.Kind {
		case "write":
			if len(o.Data) > 0 {
				c.data = spliceBytes(c.data, int(o.Off), o.Data)
			}
		case "append":
			c.data = append(append([]byte(nil), c.data...), o.Data...)
		case "trunc":
			c.data = append([]byte(nil), o.Data...)
		}
	case "rename":
		d, name, _ := t.dirOf(o.Path)
		_, name2, _ := t.dirOf(o.Path2)
		c := d.child(name)
		if t2 := d.child(name2); t2 != nil && t2 != c {
			d.removeChild(name2)
		}
		c.name = name2
	case "remove":
		d, name, _ := t.dirOf(o.Path)
		d.removeChild(name)
	}
}

// view is the canonical description of a tree: sorted lines "path kind size sha".
type viewLine struct {
	path  string
	isDir bool
	data  []byte
}

func (t *refTree) view() []viewLine {
	var out []viewLine
	var walk func(n *refNode, p string)
	walk = func(n *refNode, p string) {
		for _, c := range n.children {
			cp := c.name
			if p != "" {
				cp = p + "/" + c.name
			}
			out = append(out, viewLine{cp, c.isDir, c.data})
			if c.isDir {
				walk(c, cp)
			}
		}
	}
	walk(t.root, "")
	sort.Slice(out, func(i, j int) bool { return out[i].path < out[j].path })
	return out
}

// viewDiff describes the first difference between two views ("" msg = equal).
type viewDiff struct {
	msg  string
	path string
	idx  int // first differing byte of a content mismatch, -1 otherwise
}

func diffViews(want, got []viewLine, what string) viewDiff {
	wm := map[string]viewLine{}
	for _, l := range want {
		wm[l.path] = l
	}
	gm := map[string]viewLine{}
	for _, l := range got {
		if _, dup := gm[l.path]; dup {
			return viewDiff{fmt.Sprintf("%s: %q listed twice", what, l.path), l.path, -1}
		}
		gm[l.path] = l
	}
	for _, l := range want {
		g, ok := gm[l.path]
		if !ok {
			return viewDiff{fmt.Sprintf("%s: %q is missing", what, l.path), l.path, -1}
		}
		if g.isDir != l.isDir {
			return viewDiff{fmt.Sprintf("%s: %q dir=%v, want dir=%v", what, l.path, g.isDir, l.isDir), l.path, -1}
		}
		if !l.isDir && string(g.data) != string(l.data) {
			i, txt := firstDiff(l.data, g.data)
			return viewDiff{fmt.Sprintf("%s: %q has %d bytes, want %d; %s", what, l.path, len(g.data), len(l.data), txt), l.path, i}
		}
	}
	for _, l := range got {
		if _, ok := wm[l.path]; !ok {
			return viewDiff{fmt.Sprintf("%s: unexpected entry %q", what, l.path), l.path, -1}
		}
	}
	return viewDiff{idx: -1}
}

func firstDiff(want, got []byte) (int, string) {
	n := len(want)
	if len(got) < n {
		n = len(got)
	}
	for i := 0; i < n; i++ {
		if want[i] != got[i] {
			return i, fmt.Sprintf("first difference at byte %d (want %02x, got %02x)", i, want[i], got[i])
		}
	}
	return n, fmt.Sprintf("common prefix of %d bytes", n)
}

func (t *refTree) count() (files, dirs int, bytes int64) {
	for _, l := range t.view() {
		if l.isDir {
			dirs++
		} else {
			files++
			bytes += int64(len(l.data))
		}
	}
	return
}
