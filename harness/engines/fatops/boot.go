package fatops

// Boot region: (1) the Lean raw checker (Spec/FatBoot.lean, `fat.bootcheck`) is run on the real
// bytes of freshly created volumes — intact and with single fields of the boot sector, the backup
// boot sector or an FSInfo copy damaged — and its problem codes are compared with the independent
// Go checker's; (2) the Lean encoders of Model/Fat/Boot.lean (`fat.bootenc`) are compared byte for
// byte with the boot sector, its backup and both FSInfo copies that the real Create wrote.

import (
	"encoding/hex"
	"fmt"
	"sort"
	"strings"

	"verif/harness/internal/hx"
)

var bootCodes = map[string]bool{
	"boot-signature": true, "bpb-sector-size": true, "bpb-sectors-per-cluster": true, "bpb-cluster-size": true,
	"bpb-reserved": true, "bpb-fat-count": true, "bpb-fat-size": true, "geometry": true, "fat-type": true,
	"bpb-media": true, "fat-too-small": true, "bpb-fat32-version": true, "bpb-root-cluster": true,
	"backup-boot": true, "fsinfo": true, "bpb-root-entries": true,
}

func bootCodesOf(r *rawReport) string {
	m := map[string]bool{}
	for _, p := range r.Problems {
		if bootCodes[p.Code] {
			m[p.Code] = true
		}
	}
	ks := make([]string, 0, len(m))
	for k := range m {
		ks = append(ks, k)
	}
	sort.Strings(ks)
	if len(ks) == 0 {
		return "-"
	}
	return strings.Join(ks, ",")
}

func (e *eng) corrBoot(r *hx.Rng) {
	c := e.c
	cfgs := []volCfg{
		{Kind: 12, Size: 40 * kib}, {Kind: 12, Size: 1474560, Start: 512}, {Kind: 12, Size: 3*mib + 1536},
		{Kind: 16, Size: 5 * mib, Start: 1 * mib}, {Kind: 16, Size: 40*mib + 512}, {Kind: 16, Size: 33 * mib},
		{Kind: 32, Size: 34*mib + 1536, BS: 512}, {Kind: 32, Size: 64 * mib, BS: 4096, Start: 4096}, {Kind: 32, Size: 82432, BS: 512},
		{Kind: 32, Size: 300 * mib, BS: 0},
	}
	fix32 := 0
	if v, err := mkVol(volCfg{Kind: 32, Size: 82432, BS: 512}); err == nil {
		if rep := v.raw(); rep.Vol != nil && rep.Vol.FatSectors >= 2 {
			fix32 = 1
		}
	}
	// fields worth damaging: (offset inside the sector, what it is)
	bootOffs := []int{11, 12, 13, 14, 16, 17, 19, 21, 22, 32, 34, 36, 42, 44, 48, 50, 510, 511}
	fsOffs := []int{0, 3, 484, 487, 488, 490, 492, 495, 508, 510}
	n := c.N(90, 1200)
	for i := 0; i < n; i++ {
		id := fmt.Sprintf("cb%d", i)
		if !c.Want(id) {
			continue
		}
		func() {
			defer func() {
				if x := recover(); x != nil {
					c.Stat("corr.panic-in-library")
				}
			}()
			cfg := cfgs[i%len(cfgs)]
			v, err := mkVol(cfg)
			if err != nil {
				return
			}
			bps := v.bps()
			// encoders vs the bytes Create wrote (first visit of each configuration)
			if i < len(cfgs) {
				eid := fmt.Sprintf("ce%d", i)
				boot := v.dev.Bytes(cfg.Start, bps)
				if cfg.Kind != 32 {
					boot = boot[:512]
				}
				fs := "-"
				ok := true
				if cfg.Kind == 32 {
					fi := v.dev.Bytes(cfg.Start+int64(bps), bps)
					fs = hex.EncodeToString(fi)
					// both copies of each must be the same bytes
					ok = string(v.dev.Bytes(cfg.Start+6*int64(bps), bps)) == string(boot) &&
						string(v.dev.Bytes(cfg.Start+7*int64(bps), bps)) == string(fi)
				}
				c.Case(eid, "fat.bootenc", kv("kind", cfg.Kind), kv("size", cfg.Size), kv("bs", cfg.BS), kv("fix32", fix32), "serial=0", "label=VERIF      ")
				if ok {
					c.Impl(eid, "boot="+hex.EncodeToString(boot), "fsinfo="+fs)
				} else {
					c.Impl(eid, "copies-differ")
				}
				c.Stat("corr.bootenc")
			}
			dev := v.dev
			what := "intact"
			if i >= len(cfgs) {
				dev = v.dev.Clone()
				sec := int64(0)
				offs := bootOffs
				switch r.Intn(4) {
				case 1:
					if cfg.Kind == 32 {
						sec, what = 6, "backup"
					}
				case 2:
					if cfg.Kind == 32 {
						sec, offs, what = 1, fsOffs, "fsinfo"
					}
				case 3:
					if cfg.Kind == 32 {
						sec, offs, what = 7, fsOffs, "fsinfo-backup"
					}
				}
				if what == "intact" {
					what = "boot"
				}
				off := cfg.Start + sec*int64(bps) + int64(hx.Pick(r, offs))
				old := dev.Bytes(off, 1)[0]
				nb := byte(r.Intn(256))
				switch r.Intn(4) {
				case 0:
					nb = 0
				case 1:
					nb = old ^ (1 << uint(r.Intn(8)))
				case 2:
					nb = 0xFF
				}
				dev.RawWrite([]byte{nb}, off)
				what = fmt.Sprintf("%s@%d:%02x->%02x", what, off-cfg.Start, old, nb)
			}
			rep := rawCheck(dev, cfg.Start, cfg.Size, cfg.Kind, bps)
			img := dev.Bytes(cfg.Start, 8*bps)
			c.Case(id, "fat.bootcheck", kv("kind", cfg.Kind), kv("size", cfg.Size), kv("bps", bps), "hex="+hex.EncodeToString(img))
			c.Impl(id, "codes="+bootCodesOf(rep))
			c.Stat("corr.bootcheck")
			if bootCodesOf(rep) != "-" {
				c.Stat("corr.bootcheck.damaged-detected")
			}
			c.Distinct("bootcheck|" + cfg.String() + "|" + what)
		}()
	}
}
