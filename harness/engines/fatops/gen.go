package fatops

// Generators: bounded-exhaustive short sequences over a small alphabet, seeded random long
// histories, fill / empty / refill cycles (ENOSPC and root-directory exhaustion), live-handle
// histories, name-domain probes, geometry sweep.

import (
	"fmt"
	"io"
	"os"
	"strings"

	"verif/harness/internal/hx"
)

// Run is the engine entry point. Argument prop=C01|C08 selects which property's verdicts are
// emitted (the histories are the same).
func Run(c *hx.Ctx) {
	prop := c.Args["prop"]
	if prop == "" {
		prop = "both"
	}
	e := &eng{c: c, prop: prop}
	e.emptyAsFound = probeEmptyWrite()
	if e.emptyAsFound {
		c.Stat("zero_length_write.as-found(extends-or-panics-past-eof)")
	} else {
		c.Stat("zero_length_write.early-return-present")
	}
	e.dirWriteAsFound = probeWriteToDir()
	e.renameOverDirAsFound = probeRenameOverDir()
	if e.dirWriteAsFound {
		c.Stat("write_to_directory.as-found(writable-handle-for-a-directory)")
	} else {
		c.Stat("write_to_directory.refused")
	}
	e.eqParentAsFound = probeEqParent()
	if e.eqParentAsFound {
		c.Stat("name_equals_parent.as-found(resolved-to-the-parent)")
	} else {
		c.Stat("name_equals_parent.walked")
	}
	if e.renameOverDirAsFound {
		c.Stat("rename_over_directory.as-found(directory-replaced)")
	} else {
		c.Stat("rename_over_directory.refused")
	}
	if c.Args["part"] == "tree" { // development aid: only the tree-model correspondence
		r := c.Rng.Fork()
		e.corrTree(r)
		e.corrDirWrs(r)
		return
	}
	e.zeroLength()
	e.dirTargets()
	e.exhaustive()
	e.random()
	e.fillCycles()
	e.growAfterFree()
	e.rootExhaustion()
	e.liveHandles()
	if prop != "C08" {
		e.nameDomain()
	}
	if prop != "C01" {
		e.geometrySweep()
	}
	e.correspondence()
	e.knownWitnesses()
}

type eng struct {
	c    *hx.Ctx
	prop string
	// File.Write of an empty buffer is not an early return in the tree (finding
	// fat-empty-write-not-noop): past EOF it extends the file, at a cluster boundary at or past EOF
	// it panics. Probed per run; while true, zero-length writes are generated off the trigger only.
	emptyAsFound bool
	// OpenFile hands out a writable handle for a directory (finding fat-write-to-directory) / Rename
	// replaces an existing directory (finding fat-rename-over-directory). Probed per run; while true the
	// calls on the trigger are left to the dedicated witnesses, once false they are generated and
	// judged like every other call (the reference, Spec.step and the tree model refuse them: is a
	// directory).
	dirWriteAsFound      bool
	renameOverDirAsFound bool
	// a path 'x/x' is resolved to the directory x itself (finding fat-name-equals-parent). Probed per
	// run; while true such paths are left to the name-domain histories (names.go), once false they are
	// drawn like every other path.
	eqParentAsFound bool
}

// probeEqParent: OpenFile("same/same", O_CREATE|O_RDWR) in an empty directory "same" creates the
// file same/same once the path is walked by components; as found the call is answered with the
// directory itself (or refused as a writing open of a directory) and nothing is created.
func probeEqParent() (asFound bool) {
	asFound = true
	v, err := mkVol(volCfg{Kind: 12, Size: 64 * kib})
	if err != nil {
		return
	}
	_ = safely(func() error {
		if err := v.fs.Mkdir("same"); err != nil {
			return err
		}
		if f, err := v.fs.OpenFile("same/same", os.O_CREATE|os.O_RDWR); err == nil {
			_ = f.Close()
		}
		des, err := v.fs.ReadDir("same")
		if err != nil {
			return err
		}
		for _, de := range des {
			if de.Name() == "same" && !de.IsDir() {
				asFound = false
			}
		}
		return nil
	})
	return
}

// probeWriteToDir: OpenFile(dir, O_RDWR) succeeds as found; nothing is written through the handle.
func probeWriteToDir() (asFound bool) {
	v, err := mkVol(volCfg{Kind: 12, Size: 64 * kib})
	if err != nil {
		return true
	}
	_ = safely(func() error {
		if err := v.fs.Mkdir("P"); err != nil {
			return err
		}
		f, err := v.fs.OpenFile("P", os.O_RDWR)
		if err == nil {
			asFound = true
			_ = f.Close()
		}
		return nil
	})
	return
}

// probeRenameOverDir: Rename(file, existing directory) succeeds as found.
func probeRenameOverDir() (asFound bool) {
	v, err := mkVol(volCfg{Kind: 12, Size: 64 * kib})
	if err != nil {
		return true
	}
	_ = safely(func() error {
		if err := v.fs.Mkdir("P"); err != nil {
			return err
		}
		f, err := v.fs.OpenFile("f.txt", os.O_CREATE|os.O_RDWR)
		if err != nil {
			return err
		}
		_ = f.Close()
		asFound = v.fs.Rename("f.txt", "P") == nil
		return nil
	})
	return
}

// probeEmptyWrite: Seek(10) + Write(nil) on a new empty file leaves it empty once Write returns
// early for an empty buffer; as found the file is 10 bytes long afterwards.
func probeEmptyWrite() (asFound bool) {
	v, err := mkVol(volCfg{Kind: 12, Size: 4 * mib})
	if err != nil {
		return true
	}
	_ = safely(func() error {
		f, err := v.fs.OpenFile("p.bin", os.O_CREATE|os.O_RDWR)
		if err != nil {
			return err
		}
		if _, err := f.Seek(10, io.SeekStart); err != nil {
			return err
		}
		_, _ = f.Write(nil)
		if st, err := f.Stat(); err == nil && st.Size() != 0 {
			asFound = true
		}
		return f.Close()
	})
	return
}

// zeroTrigger: the inputs on which an empty Write is not a no-op as found (fat-empty-write-not-noop):
// the offset lies past EOF (the file is extended with zeros to the offset), or at/after EOF on a
// positive multiple of the cluster size (clusters[offset/bpc]: index out of range).
func zeroTrigger(size, off int64, bpc int) bool {
	return off > size || (off > 0 && off >= size && off%int64(bpc) == 0)
}

const (
	kib = int64(1024)
	mib = 1024 * kib
	gib = 1024 * mib
)

// volume configurations: FAT type x size class x start offset (0, 512, 1 MiB, beyond 4 GiB) x sector size
func (e *eng) vols(quickOnly bool) []volCfg {
	q := []volCfg{
		{Kind: 12, Size: 1474560, Start: 0, Slack: 0},
		{Kind: 12, Size: 4 * mib, Start: 512, Slack: 1 * mib},
		{Kind: 16, Size: 8 * mib, Start: 1 * mib, Slack: 0},
		{Kind: 32, Size: 4 * mib, Start: 0, BS: 512, Slack: 64 * kib},
		{Kind: 32, Size: 6 * mib, Start: 4*gib + 4096, BS: 4096, Slack: 0},
	}
	if quickOnly || !e.c.Thorough() {
		return q
	}
	return append(q,
		volCfg{Kind: 12, Size: 360 * kib, Start: 4*gib + 4096, Slack: 8 * kib},
		volCfg{Kind: 12, Size: 7 * mib, Start: 0, Slack: 0},
		volCfg{Kind: 12, Size: 15 * mib, Start: 1 * mib, Slack: 0},
		volCfg{Kind: 16, Size: 33 * mib, Start: 512, Slack: 0},
		volCfg{Kind: 16, Size: 129 * mib, Start: 0, Slack: 0},
		volCfg{Kind: 32, Size: 40 * mib, Start: 1 * mib, BS: 0, Slack: 0},
		volCfg{Kind: 32, Size: 261 * mib, Start: 512, BS: 512, Slack: 0},
		volCfg{Kind: 32, Size: 64 * mib, Start: 0, BS: 4096, Slack: 0},
	)
}

// payload is the byte string the Lean driver regenerates from (seed, n): no zero bytes, so a
// hole that reads as stale data or as zeros is unmistakable.
func payload(seed, n int) []byte {
	b := make([]byte, n)
	for i := range b {
		b[i] = byte((seed+i*13)%251 + 1)
	}
	return b
}

// seedOf recovers the seed of a payload (its first byte), 0 for an empty one.
func seedOf(b []byte) int {
	if len(b) == 0 {
		return 0
	}
	return int(b[0]) - 1
}

func pattern(r *hx.Rng, n int) []byte { return payload(r.Intn(251), n) }

func bpcOf(v *vol) int { return v.prevBPC() }

func (v *vol) prevBPC() int {
	_, bpc, _, _, _, _ := v.base.VerifGeom()
	return bpc
}

// ---------------------------------------------------------------- zero-length writes (deepen8)

// zeroLength: Write(nil) / Write([]byte{}) on a new empty file, on a file emptied by O_TRUNC, at
// EOF and inside a non-empty file (also with a size that is a whole number of clusters), through
// O_APPEND, and - once Write returns early for an empty buffer - after a Seek beyond EOF; every one
// of them must change nothing, and the NEXT file / directory created must get clusters nobody
// owns. Tree oracle and raw checker after every step (fullCompare).
func (e *eng) zeroLength() {
	c := e.c
	for vi, cfg := range e.vols(true) {
		for variant := 0; variant < 2; variant++ {
			id := fmt.Sprintf("z%d.%d", vi, variant)
			if !c.Want(id) {
				continue
			}
			v, err := mkVol(cfg)
			if err != nil {
				c.Fail(id, "-", "Create failed: "+err.Error(), cfg.String())
				continue
			}
			h := newHist(c, e.prop, id, v)
			bpc := v.prevBPC()
			isNil := variant == 0
			r := c.Rng
			z := func(kind, p string, off int64, create bool) *op {
				return &op{Kind: kind, Path: p, Off: off, Create: create, Zero: true, Nil: isNil}
			}
			w := func(p string, off int64, n int) *op {
				return &op{Kind: "write", Path: p, Off: off, Data: pattern(r, n), Create: true}
			}
			steps := []*op{
				// a new empty file: its only cluster must stay its own
				z("write", "Z.TXT", 0, true),
				{Kind: "mkdir", Path: "zd"},
				w("zd/N.TXT", 0, bpc+1),
				w("Z.TXT", 0, 10),
				z("write", "Z.TXT", 0, false), // offset 0 of a non-empty file
				// a file emptied by O_TRUNC, then the empty Write through the same handle
				w("T.TXT", 0, 2*bpc+5),
				z("trunc", "T.TXT", 0, false),
				w("N2.TXT", 0, bpc+3),
				w("T.TXT", 0, 7),
				// a one-cluster file emptied by O_TRUNC
				w("T1.TXT", 0, bpc),
				z("trunc", "T1.TXT", 0, false),
				{Kind: "create", Path: "N3.TXT"},
				w("N3.TXT", 0, 2*bpc),
				w("T1.TXT", 0, 3),
				// a non-empty file: at EOF, inside (on and off a cluster boundary), through O_APPEND
				w("F.TXT", 0, 2*bpc+9),
				z("write", "F.TXT", int64(2*bpc+9), false),
				z("write", "F.TXT", int64(bpc), false),
				z("write", "F.TXT", 5, false),
				z("write", "F.TXT", int64(bpc+1), false),
				z("append", "F.TXT", 0, false),
				// a size that is a whole number of clusters: inside, on the boundary between its clusters
				w("K.TXT", 0, 2*bpc),
				z("write", "K.TXT", int64(bpc), false),
				z("write", "K.TXT", int64(2*bpc-1), false),
				// an empty file in a subdirectory, then a sibling directory
				z("write", "zd/E.TXT", 0, true),
				{Kind: "mkdir", Path: "zd/after"},
				w("zd/after/x.bin", 0, bpc+2),
				w("zd/E.TXT", 0, bpc-1),
			}
			if !e.emptyAsFound {
				// (as found these extend the file or panic: finding fat-empty-write-not-noop, replayed as a dedicated witness)
				steps = append(steps,
					z("write", "P.TXT", 10, true),
					z("write", "P.TXT", int64(bpc), false),
					z("write", "P.TXT", int64(3*bpc+1), false),
					z("write", "K.TXT", int64(2*bpc), false),
					z("append", "K.TXT", 0, false),
					z("write", "F.TXT", int64(4*bpc), false),
					w("Q.TXT", 0, bpc+1),
					w("P.TXT", 0, 5),
				)
			}
			for _, o := range steps {
				if !h.step(o) {
					break
				}
			}
			h.closeAll()
			h.emitSpecTie()
			c.Stat("zero-length-histories")
			c.Distinct(fmt.Sprintf("z|%s|%d", cfg, variant))
			if vi == 0 && variant == 0 {
				c.Sample(fmt.Sprintf("zero-length history %s on %s: %s", id, cfg, opsString(h.ops[:min(len(h.ops), 8)])))
			}
		}
	}
}

// ---------------------------------------------------------------- directories as targets (fixers round)

// ontoDirPairs lists (source, target) of the reference where target is an existing directory and
// source another entry of the same parent.
func (h *hist) ontoDirPairs() [][2]string {
	var out [][2]string
	var walk func(n *refNode, p string)
	walk = func(n *refNode, p string) {
		for _, c2 := range n.children {
			if !c2.isDir {
				continue
			}
			for _, c1 := range n.children {
				if c1 != c2 {
					out = append(out, [2]string{joinP(p, c1.name), joinP(p, c2.name)})
				}
			}
			walk(c2, joinP(p, c2.name))
		}
	}
	walk(h.ref.root, "")
	return out
}

// dirTargets: the calls the findings fat-write-to-directory and fat-rename-over-directory are about,
// as ordinary steps of a history (tree oracle, re-opened view, raw checker after every step): a
// write / append / truncating open addressed to a directory (empty, non-empty, nested, grown past
// one cluster) and a rename onto an existing directory (of a file, of an empty and of a non-empty
// directory) must be refused and change nothing; opening a directory for reading, renaming a
// directory to a free name and onto a file, and every call on what lies below the directories go on
// working. While a finding is in the tree its part is left to the dedicated witness.
func (e *eng) dirTargets() {
	c := e.c
	if e.dirWriteAsFound && e.renameOverDirAsFound {
		return
	}
	for vi, cfg := range e.vols(true) {
		id := fmt.Sprintf("dt%d", vi)
		if !c.Want(id) {
			continue
		}
		v, err := mkVol(cfg)
		if err != nil {
			c.Fail(id, "-", "Create failed: "+err.Error(), cfg.String())
			continue
		}
		h := newHist(c, e.prop, id, v)
		bpc := v.prevBPC()
		if bpc > 8192 {
			bpc = 8192
		}
		w := func(p string, off int64, n, seed int, create bool) *op {
			return &op{Kind: "write", Path: p, Off: off, Data: payload(seed, n), Create: create}
		}
		steps := []*op{
			{Kind: "mkdir", Path: "Q/E"},
			w("Q/inside.txt", 0, 200, 3, true),
			w("Q/E/inner.txt", 0, bpc+9, 5, true),
			w("plain.txt", 0, 77, 7, true),
			{Kind: "mkdir", Path: "empty dir"},
		}
		for k := 0; k < 2+bpc/32/3; k++ { // Q grows past one cluster
			steps = append(steps, &op{Kind: "create", Path: fmt.Sprintf("Q/%c long entry name number.dat", 'a'+k%26)})
			if k >= 40 {
				break
			}
		}
		if !e.dirWriteAsFound {
			steps = append(steps,
				w("Q", 0, 200, 11, false),
				w("Q", 0, 200, 11, true),
				w("Q/E", 5, bpc+1, 13, false),
				w("empty dir", 0, 1, 17, true),
				&op{Kind: "append", Path: "Q", Data: payload(19, 40)},
				&op{Kind: "append", Path: "empty dir", Data: payload(23, bpc)},
				&op{Kind: "trunc", Path: "Q"},
				&op{Kind: "trunc", Path: "Q/E", Data: payload(29, 10), Create: true},
				&op{Kind: "trunc", Path: "empty dir", Create: true},
				&op{Kind: "write", Path: "Q", Zero: true},
				&op{Kind: "write", Path: "Q/E", Off: 3, Zero: true, Nil: true},
				w("Q/after.txt", 0, bpc+3, 31, true),
				w("Q/E/inner.txt", 4, 10, 37, false),
				w("empty dir/first.txt", 0, 5, 41, true),
			)
		}
		if !e.renameOverDirAsFound {
			steps = append(steps,
				&op{Kind: "rename", Path: "plain.txt", Path2: "Q"},         // a file onto a non-empty directory
				&op{Kind: "rename", Path: "plain.txt", Path2: "q"},         // in another spelling
				&op{Kind: "rename", Path: "Q/inside.txt", Path2: "Q/E"},    // below the root
				&op{Kind: "mkdir", Path: "other"},                          //
				&op{Kind: "rename", Path: "plain.txt", Path2: "other"},     // a file onto an empty directory
				&op{Kind: "rename", Path: "other", Path2: "Q"},             // an empty directory onto a non-empty one
				&op{Kind: "rename", Path: "Q", Path2: "other"},             // a non-empty directory onto an empty one
				&op{Kind: "rename", Path: "Q", Path2: "Q2"},                // a directory to a free name: as before
				&op{Kind: "rename", Path: "Q2", Path2: "Q"},                //
				&op{Kind: "rename", Path: "plain.txt", Path2: "moved.txt"}, // plain rename: as before
				w("over.txt", 0, 9, 43, true),
				&op{Kind: "rename", Path: "moved.txt", Path2: "over.txt"}, // a file over a file: as before
				&op{Kind: "rename", Path: "other", Path2: "over.txt"},     // a directory over a file: as before (the file is replaced)
				w("Q/E/inner.txt", 0, 3, 47, false),
				&op{Kind: "remove", Path: "over.txt"},
			)
		}
		for _, o := range steps {
			if !h.step(o) {
				break
			}
		}
		h.closeAll()
		// the root directory and read-only opens, outside the history (the reference has no name for the root)
		if !e.dirWriteAsFound && c.Want(id+"/root") {
			var problems []string
			before := v.dev.Hash(cfg.Start, cfg.Start+cfg.Size)
			for _, p := range []string{".", "/", "Q", "/Q/E"} {
				for _, fl := range []int{os.O_RDWR, os.O_WRONLY, os.O_RDWR | os.O_TRUNC, os.O_RDWR | os.O_APPEND, os.O_RDWR | os.O_CREATE} {
					err := safely(func() error {
						f, err := v.fs.OpenFile(p, fl)
						if err == nil {
							_ = f.Close()
						}
						return err
					})
					if err == nil || errClass(err) == "panic" {
						problems = append(problems, fmt.Sprintf("OpenFile(%q, %#x): %v", p, fl, err))
					}
				}
				if err := safely(func() error {
					f, err := v.fs.OpenFile(p, os.O_RDONLY)
					if err == nil {
						_ = f.Close()
					}
					return err
				}); err != nil {
					problems = append(problems, fmt.Sprintf("OpenFile(%q, O_RDONLY): %v", p, err))
				}
			}
			if after := v.dev.Hash(cfg.Start, cfg.Start+cfg.Size); after != before {
				problems = append(problems, "the refused opens changed the image")
			}
			if len(problems) > 0 {
				c.Fail(id+"/root", "-", strings.Join(problems, "; "), cfg.String())
			} else {
				c.OK(id + "/root")
			}
		}
		h.emitSpecTie()
		c.Stat("directory-target-histories")
		c.Distinct(fmt.Sprintf("dt|%s|%v|%v", cfg, e.dirWriteAsFound, e.renameOverDirAsFound))
		if vi == 0 {
			c.Sample(fmt.Sprintf("directory-target history %s on %s: %s", id, cfg, opsString(h.ops[max(0, len(h.ops)-10):])))
		}
	}
}

// ---------------------------------------------------------------- exhaustive

func (e *eng) alphabet(v *vol) []func() *op {
	bpc := v.prevBPC()
	r := e.c.Rng
	a, b := "A.TXT", "longer name.dat"
	return []func() *op{
		func() *op { return &op{Kind: "write", Path: a, Off: 0, Data: pattern(r, 10), Create: true} },
		func() *op { return &op{Kind: "write", Path: a, Off: 0, Data: pattern(r, bpc+1), Create: true} },
		func() *op {
			return &op{Kind: "write", Path: a, Off: int64(bpc) - 3, Data: pattern(r, 10), Create: true}
		},
		func() *op { return &op{Kind: "write", Path: b, Off: 0, Data: pattern(r, bpc+1), Create: true} },
		func() *op { return &op{Kind: "append", Path: a, Data: pattern(r, 10)} },
		func() *op { return &op{Kind: "trunc", Path: a} },
		func() *op { return &op{Kind: "rename", Path: a, Path2: b} },
		func() *op { return &op{Kind: "remove", Path: a} },
		func() *op { return &op{Kind: "remove", Path: b} },
		func() *op { return &op{Kind: "mkdir", Path: "d"} },
		func() *op { return &op{Kind: "write", Path: "d/" + a, Off: 0, Data: pattern(r, 10), Create: true} },
	}
}

func (e *eng) exhaustive() {
	c := e.c
	maxLen := c.N(3, 4)
	for vi, cfg := range e.vols(true)[:4] {
		if vi == 3 && !c.Thorough() {
			maxLen = 3
		}
		n := 0
		var rec func(prefix []int)
		rec = func(prefix []int) {
			if len(prefix) > 0 {
				id := fmt.Sprintf("x%d-%s", vi, intsKey(prefix))
				if c.Want(id) {
					e.runSeq(id, cfg, prefix)
					n++
				}
			}
			if len(prefix) == maxLen {
				return
			}
			for s := 0; s < 11; s++ {
				rec(append(append([]int(nil), prefix...), s))
			}
		}
		// only maximal sequences are run: every prefix is checked step by step inside them
		var run func(prefix []int)
		run = func(prefix []int) {
			if len(prefix) == maxLen {
				id := fmt.Sprintf("x%d-%s", vi, intsKey(prefix))
				if c.Want(id) {
					e.runSeq(id, cfg, prefix)
					n++
				}
				return
			}
			for s := 0; s < 11; s++ {
				run(append(append([]int(nil), prefix...), s))
			}
		}
		_ = rec
		run(nil)
		c.StatN(fmt.Sprintf("exhaustive.fat%d.sequences", cfg.Kind), n)
	}
}

func intsKey(x []int) string {
	s := make([]string, len(x))
	for i, v := range x {
		s[i] = fmt.Sprintf("%x", v)
	}
	return strings.Join(s, "")
}

func (e *eng) runSeq(id string, cfg volCfg, syms []int) {
	v, err := mkVol(cfg)
	if err != nil {
		e.c.Fail(id, "-", "Create failed: "+err.Error(), cfg.String())
		return
	}
	h := newHist(e.c, e.prop, id, v)
	alpha := e.alphabet(v)
	for _, s := range syms {
		if !h.step(alpha[s]()) {
			break
		}
	}
	h.closeAll()
	e.c.Distinct("x|" + cfg.String() + "|" + intsKey(syms))
}

// ---------------------------------------------------------------- random histories

var safeNames = []string{
	"A.TXT", "B", "README.MD", "b.txt", "ReadMe.md", "Makefile", "a long file name with spaces.data",
	"archive.tar.gz", "longfilename1.txt", "longfilename2.txt", "longfilename3.txt", "x", "UPPER.C", "lower.c2",
	"MiXeD CaSe Name.Txt", "name.with.many.dots.ext", "data-1_2.bin", "notes (copy).txt",
}
var safeDirs = []string{"D1", "dir two", "subdirectory-long-name", "s"}

func init() {
	// a 255-character name, the longest legal one
	safeNames = append(safeNames, strings.Repeat("n", 251)+".bin")
}

func sizeClasses(r *hx.Rng, bps, bpc int) int {
	switch r.Intn(12) {
	case 0:
		return 0
	case 1:
		return 1
	case 2:
		return bps - 1
	case 3:
		return bps
	case 4:
		return bps + 1
	case 5:
		return bpc - 1
	case 6:
		return bpc
	case 7:
		return bpc + 1
	case 8:
		return 2 * bpc
	case 9:
		return 3*bpc + 7
	default:
		return 1 + r.Intn(2*bpc+50)
	}
}

type randState struct {
	files []string // paths believed to exist (hints only; the reference decides)
	dirs  []string
}

func (e *eng) randOp(r *hx.Rng, h *hist, st *randState, holePct int) *op {
	bpc := h.v.prevBPC()
	bps := h.v.bps()
	if bpc > 8192 {
		bpc = 8192 + bpc%7 // keep payloads small on big-cluster volumes; boundaries are covered on the small ones
	}
	pickDir := func() string {
		if len(st.dirs) == 0 || r.Chance(40) {
			return ""
		}
		return hx.Pick(r, st.dirs)
	}
	join := func(d, n string) string {
		if d == "" {
			return n
		}
		return d + "/" + n
	}
	existing := func() string {
		// prefer what the reference has
		var fs []string
		for _, l := range h.ref.view() {
			if !l.isDir {
				fs = append(fs, l.path)
			}
		}
		if len(fs) == 0 || r.Chance(8) {
			return join(pickDir(), hx.Pick(r, safeNames))
		}
		return hx.Pick(r, fs)
	}
	// a directory of the reference as the target of a write / append / truncating open: generated
	// once the code refuses it (the draw is skipped while the finding is in the tree)
	dirTarget := func(p string) string {
		if e.dirWriteAsFound || !r.Chance(6) {
			return p
		}
		var ds []string
		for _, l := range h.ref.view() {
			if l.isDir {
				ds = append(ds, l.path)
			}
		}
		if len(ds) == 0 {
			return p
		}
		return hx.Pick(r, ds)
	}
	switch k := r.Intn(100); {
	case k < 8:
		pd := pickDir()
		nm := hx.Pick(r, safeDirs)
		for e.eqParentAsFound && strings.HasSuffix("/"+pd, "/"+nm) {
			nm = hx.Pick(r, safeDirs) // a name equal to its parent's is probed separately (fat-name-equals-parent)
		}
		d := join(pd, nm)
		if strings.Count(d, "/") > 2 {
			d = nm
		}
		st.dirs = append(st.dirs, d)
		return &op{Kind: "mkdir", Path: d}
	case k < 30:
		p := join(pickDir(), hx.Pick(r, safeNames))
		return &op{Kind: "write", Path: p, Off: 0, Data: pattern(r, sizeClasses(r, bps, bpc)), Create: true}
	case k < 48:
		p := dirTarget(existing())
		cur := 0
		if n := h.ref.lookup(p); n != nil {
			cur = len(n.data)
		}
		var off int
		switch r.Intn(4) {
		case 0:
			off = 0
		case 1:
			off = cur // at EOF
		default:
			off = r.Intn(cur + 1) // inside
		}
		if r.Chance(holePct) {
			off = cur + 1 + r.Intn(bpc+3) // past EOF
		}
		if r.Chance(12) && !(e.emptyAsFound && zeroTrigger(int64(cur), int64(off), h.v.prevBPC())) {
			// a zero-length write: nothing may change (off the trigger of fat-empty-write-not-noop while that is in the tree)
			return &op{Kind: "write", Path: p, Off: int64(off), Create: r.Chance(30), Zero: true, Nil: r.Bool()}
		}
		return &op{Kind: "write", Path: p, Off: int64(off), Data: pattern(r, 1+sizeClasses(r, bps, bpc)), Create: r.Chance(30)}
	case k < 60:
		return &op{Kind: "append", Path: dirTarget(existing()), Data: pattern(r, 1+sizeClasses(r, bps, bpc))}
	case k < 70:
		return &op{Kind: "trunc", Path: dirTarget(existing()), Data: pattern(r, sizeClasses(r, bps, bpc)), Create: r.Chance(20)}
	case k < 80:
		if !e.renameOverDirAsFound && r.Chance(12) {
			// onto an existing directory of the same parent (the source a file or another directory):
			// refused, nothing changes (generated once the code refuses it)
			if pairs := h.ontoDirPairs(); len(pairs) > 0 {
				pr := hx.Pick(r, pairs)
				return &op{Kind: "rename", Path: pr[0], Path2: pr[1]}
			}
		}
		p := existing()
		d := ""
		if i := strings.LastIndex(p, "/"); i >= 0 {
			d = p[:i]
		}
		p2 := join(d, hx.Pick(r, safeNames))
		if n := h.ref.lookup(p2); n != nil && n.isDir && e.renameOverDirAsFound {
			p2 = join(d, "renamed.x") // fat-rename-over-directory
		}
		return &op{Kind: "rename", Path: p, Path2: p2}
	case k < 94:
		if r.Chance(25) && len(st.dirs) > 0 {
			return &op{Kind: "remove", Path: hx.Pick(r, st.dirs)}
		}
		return &op{Kind: "remove", Path: existing()}
	case k < 97:
		return &op{Kind: "create", Path: join(pickDir(), hx.Pick(r, safeNames))}
	default:
		// calls that must be refused
		switch r.Intn(3) {
		case 0:
			return &op{Kind: "remove", Path: "no such file.txt"}
		case 1:
			return &op{Kind: "write", Path: "missing dir/x.txt", Data: pattern(r, 5), Create: true}
		default:
			return &op{Kind: "rename", Path: "no such file.txt", Path2: "other.txt"}
		}
	}
}

func (e *eng) random() {
	c := e.c
	nh := c.N(60, 1500)
	nops := c.N(40, 120)
	vols := e.vols(false)
	for i := 0; i < nh; i++ {
		id := fmt.Sprintf("r%d", i)
		r := c.Rng.Fork()
		cfg := vols[i%len(vols)]
		if !c.Want(id) {
			continue
		}
		v, err := mkVol(cfg)
		if err != nil {
			c.Fail(id, "-", "Create failed: "+err.Error(), cfg.String())
			continue
		}
		h := newHist(c, e.prop, id, v)
		st := &randState{}
		holePct := 0
		if i%5 == 4 {
			holePct = 25 // a fifth of the histories also write past EOF
		}
		n := nops
		if cfg.Size > 64*mib {
			n = nops / 4
		}
		for j := 0; j < n; j++ {
			if !h.step(e.randOp(r, h, st, holePct)) {
				break
			}
		}
		h.closeAll()
		h.emitSpecTie()
		f, d, b := h.ref.count()
		c.Stat(fmt.Sprintf("random.fat%d", cfg.Kind))
		c.Stat(fmt.Sprintf("random.start=%d", cfg.Start))
		c.Distinct(fmt.Sprintf("r|%s|%d|%d|%d|%d", cfg, h.nsteps, f, d, b))
		c.Sample(fmt.Sprintf("random history %s on %s: %d steps, final tree %d files / %d dirs / %d bytes; first ops: %s", id, cfg, h.nsteps, f, d, b, opsString(h.ops[:min(len(h.ops), 6)])))
	}
}

// ---------------------------------------------------------------- fill / empty / refill

func (e *eng) fillCycles() {
	c := e.c
	cfgs := []volCfg{
		{Kind: 12, Size: 100 * kib, Start: 512, Slack: 0},
		{Kind: 12, Size: 300 * kib, Start: 0, Slack: 256 * kib},
		{Kind: 32, Size: 128 * kib, Start: 1 * mib, BS: 512, Slack: 0},
	}
	if c.Thorough() {
		cfgs = append(cfgs, volCfg{Kind: 16, Size: 5 * mib, Start: 0, Slack: 0}, volCfg{Kind: 32, Size: 1 * mib, Start: 4*gib + 4096, BS: 4096, Slack: 64 * kib})
	}
	cycles := c.N(3, 50)
	for ci, cfg := range cfgs {
		id := fmt.Sprintf("f%d", ci)
		if !c.Want(id) {
			continue
		}
		v, err := mkVol(cfg)
		if err != nil {
			c.Fail(id, "-", "Create failed: "+err.Error(), cfg.String())
			continue
		}
		h := newHist(c, e.prop, id, v)
		h.fullCompare = false
		bpc := v.prevBPC()
		fileSize := 3*bpc + 5
		if cfg.Kind == 16 {
			fileSize = 200*bpc + 1
		}
		firsts := map[bool]int{} // files that fitted the first time, per location (a subdirectory costs clusters itself)
		first := -1
	cyc:
		for cy := 0; cy < cycles; cy++ {
			made := 0
			inSub := cy%2 == 1 // alternate between the root and a subdirectory
			dir := ""
			if inSub {
				if !h.step(&op{Kind: "mkdir", Path: "sub"}) {
					break
				}
				dir = "sub/"
			}
			for k := 0; k < 100000; k++ {
				before := errCount(h)
				o := &op{Kind: "write", Path: fmt.Sprintf("%sF%04d.DAT", dir, k), Off: 0, Data: pattern(c.Rng, fileSize), Create: true}
				if !h.step(o) {
					break cyc
				}
				if n := h.ref.lookup(o.Path); n == nil || len(n.data) != fileSize {
					// refused (legitimately, or the oracle has already reported it)
					if n != nil && errCount(h) == before {
						_ = before
					}
					break
				}
				made++
			}
			c.Stat("fill.cycles")
			if first < 0 {
				first = made
			}
			if _, ok := firsts[inSub]; !ok {
				firsts[inSub] = made
			}
			// full comparison once the volume is full
			h.fullCompare = true
			h.step(&op{Kind: "check"})
			h.fullCompare = false
			// empty it again
			for _, l := range h.ref.view() {
				if !l.isDir {
					if !h.step(&op{Kind: "remove", Path: l.path}) {
						break cyc
					}
				}
			}
			if inSub {
				if !h.step(&op{Kind: "remove", Path: "sub"}) {
					break
				}
			}
			if made < firsts[inSub] && h.wantTree() && !h.dead {
				c.Fail(fmt.Sprintf("%s/cycle%d", id, cy), "-", fmt.Sprintf("cycle %d stored %d files of %d bytes, the first cycle in the same place stored %d", cy, made, fileSize, firsts[inSub]), h.repro()[:min(len(h.repro()), 600)])
				break
			}
		}
		h.closeAll()
		c.Distinct(fmt.Sprintf("fill|%s|%d", cfg, first))
		c.Sample(fmt.Sprintf("fill/empty/refill on %s: %d files of %d bytes fit; %d steps", cfg, first, fileSize, h.nsteps))
	}
}

// growAfterFree: space released in FRONT of a file's chain must be usable for that file's own growth
// (and for a directory's growth): A at the front, B grown until the volume is full, A removed, B grown again.
func (e *eng) growAfterFree() {
	c := e.c
	cfgs := []volCfg{
		{Kind: 12, Size: 100 * kib, Start: 0, Slack: 0},
		{Kind: 32, Size: 128 * kib, Start: 512, BS: 512, Slack: 0},
	}
	if c.Thorough() {
		cfgs = append(cfgs, volCfg{Kind: 16, Size: 5 * mib, Start: 1 * mib, Slack: 0}, volCfg{Kind: 12, Size: 300 * kib, Start: 4*gib + 4096, Slack: 0})
	}
	for ci, cfg := range cfgs {
		for variant := 0; variant < 2; variant++ {
			id := fmt.Sprintf("g%d.%d", ci, variant)
			if !c.Want(id) {
				continue
			}
			v, err := mkVol(cfg)
			if err != nil {
				c.Fail(id, "-", "Create failed: "+err.Error(), cfg.String())
				continue
			}
			h := newHist(c, e.prop, id, v)
			h.fullCompare = false
			bpc := v.prevBPC()
			aSize := 30*bpc + 3 // well above the oracle's generous estimate of what the later growth needs
			ok := h.step(&op{Kind: "write", Path: "A.BIN", Off: 0, Data: pattern(c.Rng, aSize), Create: true})
			target := "B.BIN"
			if variant == 1 {
				// the growing chain is a directory's: many long-named entries in a subdirectory
				ok = ok && h.step(&op{Kind: "mkdir", Path: "grow"})
				target = "grow/B.BIN"
			}
			ok = ok && h.step(&op{Kind: "write", Path: target, Off: 0, Data: pattern(c.Rng, bpc), Create: true})
			// grow B until the volume refuses
			chunk := 4 * bpc
			if cfg.Kind == 16 {
				chunk = 400 * bpc
			}
			for k := 0; ok && k < 100000; k++ {
				before := len(h.ref.lookup(target).data)
				if !h.step(&op{Kind: "append", Path: target, Data: pattern(c.Rng, chunk)}) {
					ok = false
					break
				}
				if n := h.ref.lookup(target); n == nil || len(n.data) == before {
					if chunk > bpc {
						chunk = bpc // top up cluster by cluster until really full
						continue
					}
					break
				}
			}
			h.fullCompare = true // from here on every step is followed by a raw scan: refusals are judged against it
			ok = ok && h.step(&op{Kind: "remove", Path: "A.BIN"})
			// now A's clusters are free and lie before B's chain end: B must be able to use them
			if ok {
				if variant == 0 {
					ok = h.step(&op{Kind: "append", Path: target, Data: pattern(c.Rng, 5*bpc)})
				} else {
					for k := 0; ok && k < 3*bpc/64; k++ {
						ok = h.step(&op{Kind: "create", Path: fmt.Sprintf("grow/a-long-name-so-that-the-directory-has-to-grow-%03d.txt", k)})
					}
				}
			}
			h.fullCompare = true
			h.step(&op{Kind: "check"})
			h.closeAll()
			c.Stat("grow-after-free")
			c.Distinct(fmt.Sprintf("growfree|%s|%d", cfg, variant))
		}
	}
}

func errCount(h *hist) int { return len(h.reported) }

func (e *eng) rootExhaustion() {
	c := e.c
	cfgs := []volCfg{{Kind: 12, Size: 360 * kib, Start: 0, Slack: 0}}
	if c.Thorough() {
		cfgs = append(cfgs, volCfg{Kind: 16, Size: 8 * mib, Start: 512, Slack: 0})
	}
	for ci, cfg := range cfgs {
		id := fmt.Sprintf("e%d", ci)
		if !c.Want(id) {
			continue
		}
		v, err := mkVol(cfg)
		if err != nil {
			c.Fail(id, "-", "Create failed: "+err.Error(), cfg.String())
			continue
		}
		h := newHist(c, e.prop, id, v)
		h.fullCompare = false
		first := -1
	cyc:
		for cy := 0; cy < c.N(2, 6); cy++ {
			made := 0
			for k := 0; k < 2000; k++ {
				name := fmt.Sprintf("E%03d", k)
				if k%7 == 3 {
					name = fmt.Sprintf("entry with a long name %03d.txt", k) // 3 slots
				}
				if !h.step(&op{Kind: "create", Path: name}) {
					break cyc
				}
				if h.ref.lookup(name) == nil {
					break
				}
				made++
			}
			if first < 0 {
				first = made
			}
			h.fullCompare = true
			h.step(&op{Kind: "check"})
			h.fullCompare = false
			for _, l := range h.ref.view() {
				if !h.step(&op{Kind: "remove", Path: l.path}) {
					break cyc
				}
			}
			if made < first && h.wantTree() && !h.dead {
				c.Fail(fmt.Sprintf("%s/cycle%d", id, cy), "-", fmt.Sprintf("cycle %d: root directory took %d entries, first cycle %d", cy, made, first), cfg.String())
				break
			}
		}
		c.Distinct(fmt.Sprintf("rootfull|%s|%d", cfg, first))
		c.Sample(fmt.Sprintf("root-directory exhaustion on %s: %d entries fit", cfg, first))
	}
}

// ---------------------------------------------------------------- long-lived handles

// Handles that stay open while their directory changes. As found a handle rewrites its parent
// directory from the snapshot taken when it was opened (finding fat-stale-parent-snapshot).
func (e *eng) liveHandles() {
	c := e.c
	n := c.N(12, 200)
	vols := e.vols(true)
	for i := 0; i < n; i++ {
		id := fmt.Sprintf("l%d", i)
		r := c.Rng.Fork()
		if !c.Want(id) {
			continue
		}
		cfg := vols[i%len(vols)]
		v, err := mkVol(cfg)
		if err != nil {
			c.Fail(id, "-", "Create failed: "+err.Error(), cfg.String())
			continue
		}
		h := newHist(c, e.prop, id, v)
		dir := ""
		if r.Bool() {
			h.step(&op{Kind: "mkdir", Path: "hd"})
			dir = "hd/"
		}
		names := []string{"h0.dat", "h1.dat", "h2.dat"}
		open := map[int]bool{}
		for j := 0; j < c.N(14, 40); j++ {
			var o *op
			switch k := r.Intn(10); {
			case k < 3:
				hn := r.Intn(3)
				if i%3 == 0 {
					hn = 0
				}
				if open[hn] {
					o = &op{Kind: "hwrite", H: hn, Data: pattern(r, 1+r.Intn(700))}
				} else {
					o = &op{Kind: "hopen", H: hn, Path: dir + names[hn], Create: true}
					open[hn] = true
				}
			case k < 6:
				hn := r.Intn(3)
				if !open[hn] {
					continue
				}
				o = &op{Kind: "hwrite", H: hn, Data: pattern(r, 1+r.Intn(700))}
			case k < 7:
				hn := r.Intn(3)
				if !open[hn] {
					continue
				}
				o = &op{Kind: "hclose", H: hn}
				open[hn] = false
			case k < 9:
				// a sibling appears or grows while handles are open (i%3==0: never, so those histories are trigger free)
				if i%3 == 0 {
					continue
				}
				o = &op{Kind: "write", Path: fmt.Sprintf("%ssibling%d.txt", dir, r.Intn(3)), Data: pattern(r, 1+r.Intn(300)), Create: true}
			default:
				o = &op{Kind: "mkdir", Path: "elsewhere"}
			}
			if !h.step(o) {
				break
			}
		}
		h.closeAll()
		c.Stat("live-handle-histories")
		c.Distinct(fmt.Sprintf("l|%s|%s", cfg, opsString(h.ops)))
	}
}
