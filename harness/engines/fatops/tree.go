package fatops

// Correspondence of the TREE model (lean/DiskfsModel/Model/Fat/TreeFs.lean, driver op fat.tree)
// with the real code: path-addressed call histories on real FAT12/16/32 volumes (nested mkdir,
// files in subdirectories, directory growth past one cluster, removal that shrinks a directory,
// ENOSPC refusals also inside a multi-cluster subdirectory, root-directory exhaustion, rename
// within a directory).  Per call the outcome class; after every call the whole listing in
// directory order with every node's owned clusters (read from the image by the raw reader),
// every file's size and content digest, and the number of clusters in use; at the end the FAT.
//
// Calls on which a listed finding's trigger fires are not generated (the model refuses them as
// the specification says, the code accepts them): a name equal to its parent directory's
// (fat-name-equals-parent), names with coinciding 8.3 forms (fat-sfn-alias); every handle is
// closed before the next call (fat-stale-parent-snapshot). Write / truncating open of a directory
// (fat-write-to-directory) and rename onto an existing directory (fat-rename-over-directory) are
// generated once the engine's probes see the code refuse them (genDirWrite / genRenameOntoDir):
// the model answers isdir and changes nothing, and so must the code.

import (
	"fmt"
	"io"
	"os"
	"sort"
	"strings"
	"time"

	"verif/harness/internal/hx"
)

func digestBytes(b []byte) uint64 {
	h := uint64(7)
	for _, x := range b {
		h = (h*131 + uint64(x) + 1) % 1000000007
	}
	return h
}

// treeListing renders what the raw reader sees of the image in the driver's format.
func treeListing(rep *rawReport, d io.ReaderAt) string {
	if rep == nil || rep.Root == nil {
		return "?"
	}
	out := []string{"|r|" + u32s(rep.Root.Chain)}
	var walk func(n *rawNode, pre string)
	walk = func(n *rawNode, pre string) {
		for _, ch := range n.Children {
			p := ch.Name
			if pre != "" {
				p = pre + "/" + ch.Name
			}
			if ch.IsDir {
				out = append(out, fmt.Sprintf("%s|d|%s", p, u32s(ch.Chain)))
				walk(ch, p)
			} else {
				out = append(out, fmt.Sprintf("%s|f|%d|%s|%d", p, ch.Size, u32s(ch.Chain), digestBytes(rep.content(d, ch))))
			}
		}
	}
	walk(rep.Root, "")
	return strings.Join(out, ";")
}

// rootBaseSlots counts the 32-byte slots of the fresh root directory (the volume label).
func rootBaseSlots(v *vol, rep *rawReport) int {
	var b []byte
	if rep.Vol.Kind == 32 {
		b = rep.readChain(v.dev, rep.Root.Chain)
	} else {
		b = rd(v.dev, rep.Vol.RootOff, int(rep.Vol.RootBytes))
	}
	n := 0
	for i := 0; i+32 <= len(b) && b[i] != 0; i += 32 {
		n++
	}
	return n
}

type treeRun struct {
	v     *vol
	ops   []string
	res   []string
	steps []string
	used  []string
	dimg  []string // per call: digest of every directory's bytes (time stamps masked)
	nsp   []string // per call: create / mkdir of a new name in an existing directory: 1 = refused for lack of space, 0 = not; "-" otherwise
	rep   *rawReport
	bad   bool // the image stopped being readable: the case is dropped
	// zero-length writes are drawn off the trigger of fat-empty-write-not-noop while that is in the tree
	emptyAsFound bool
	// the code refuses a writing open of a directory / a rename onto an existing directory (probed
	// per run): such calls are drawn too
	genDirWrite      bool
	genRenameOntoDir bool
	// the code walks a path whose last component equals its parent's name like any other (probed
	// per run; as found 'x/x' is taken for the directory x itself: fat-name-equals-parent)
	genEqParent bool
}

func (t *treeRun) isDir(p string) bool {
	n := t.rep.find(p)
	return n != nil && n.IsDir
}
func (t *treeRun) exists(p string) bool { return t.rep.find(p) != nil }

func treeClass(err error) string {
	switch errClass(err) {
	case "ok":
		return "ok"
	case "enospc":
		return "enospc"
	case "rootfull":
		return "rootfull"
	case "panic":
		return "panic"
	}
	return "refused"
}

// do runs one call (token syntax of the driver) on the real volume and records what it did.
func (t *treeRun) do(tok string) string {
	if t.bad {
		return "?"
	}
	f := strings.Split(tok, ":")
	fs := t.v.fs
	// the ENOSPC characterisation (Props/C01 fat_tree_create_enospc_iff / _mkdir_) speaks of a new
	// name in a directory that exists
	applies := false
	if f[0] == "c" || f[0] == "m" {
		dir := ""
		if i := strings.LastIndex(f[1], "/"); i >= 0 {
			dir = f[1][:i]
		}
		applies = (dir == "" || t.isDir(dir)) && !t.exists(f[1])
	}
	err := safely(func() error {
		switch f[0] {
		case "m", "M":
			return fs.Mkdir(f[1])
		case "c":
			h, err := fs.OpenFile(f[1], os.O_CREATE|os.O_RDWR)
			if err != nil {
				return err
			}
			return h.Close()
		case "w":
			var off, ln, seed int
			fmt.Sscan(f[2], &off)
			fmt.Sscan(f[3], &ln)
			fmt.Sscan(f[4], &seed)
			h, err := fs.OpenFile(f[1], os.O_RDWR)
			if err != nil {
				return err
			}
			defer h.Close()
			if _, err := h.Seek(int64(off), io.SeekStart); err != nil {
				return err
			}
			_, err = h.Write(payload(seed, ln))
			return err
		case "t":
			h, err := fs.OpenFile(f[1], os.O_RDWR|os.O_TRUNC)
			if err != nil {
				return err
			}
			return h.Close()
		case "d":
			return fs.Remove(f[1])
		case "r":
			dir := ""
			if i := strings.LastIndex(f[1], "/"); i >= 0 {
				dir = f[1][:i+1]
			}
			return fs.Rename(f[1], dir+f[2])
		}
		return fmt.Errorf("unknown token %q", tok)
	})
	cls := treeClass(err)
	t.ops = append(t.ops, tok)
	t.res = append(t.res, cls)
	switch {
	case !applies:
		t.nsp = append(t.nsp, "-")
	case cls == "enospc":
		t.nsp = append(t.nsp, "1")
	default:
		t.nsp = append(t.nsp, "0")
	}
	t.rep = t.v.raw()
	if t.rep.Vol == nil || t.rep.Root == nil || cls == "panic" {
		t.bad = true
		return cls
	}
	t.steps = append(t.steps, fmt.Sprint(digestStr(treeListing(t.rep, t.v.dev))))
	t.dimg = append(t.dimg, fmt.Sprint(dirImagesDigest(t.rep, t.v.dev)))
	used := 0
	tb := t.v.base.VerifTable()
	for i := uint32(2); i <= tb.MaxCluster(); i++ {
		if tb.ClusterValue(i) != 0 {
			used++
		}
	}
	t.used = append(t.used, fmt.Sprint(used))
	return cls
}

func digestStr(s string) uint64 { return digestBytes([]byte(s)) }

var (
	treeDirs  = []string{"sub", "Deep Directory", "d2"}
	treeFiles = []string{"A.TXT", "b.txt", "Long name one.dat", "C", "readme.md", "another long file name.bin", "third rather long name.text"}
)

func joinP(dir, name string) string {
	if dir == "" {
		return name
	}
	return dir + "/" + name
}

func lastOf(p string) string {
	if i := strings.LastIndex(p, "/"); i >= 0 {
		return p[i+1:]
	}
	return p
}

// dirsOf lists the directories of the current image ("" = root), to at most depth 3.
func (t *treeRun) dirsOf() []string {
	out := []string{""}
	var walk func(n *rawNode, pre string, depth int)
	walk = func(n *rawNode, pre string, depth int) {
		for _, ch := range n.Children {
			if ch.IsDir && depth < 3 {
				p := joinP(pre, ch.Name)
				out = append(out, p)
				walk(ch, p, depth+1)
			}
		}
	}
	walk(t.rep.Root, "", 0)
	return out
}

func (t *treeRun) childrenOf(dir string) []*rawNode {
	n := t.rep.find(dir)
	if dir == "" {
		n = t.rep.Root
	}
	if n == nil {
		return nil
	}
	return n.Children
}

// equalsParent reports a path with two consecutive components of the same name
// (fat-name-equals-parent: the code resolves such a path to the parent directory).
func equalsParent(p string) bool {
	c := splitP(p)
	for i := 1; i < len(c); i++ {
		if sameName(c[i-1], c[i]) {
			return true
		}
	}
	return false
}

// randTok draws one call that triggers no listed finding; "" = draw again.
func (t *treeRun) randTok(r *hx.Rng, bpc int, tight bool) string {
	tok := t.randTok0(r, bpc, tight)
	if f := strings.Split(tok, ":"); len(f) > 1 && equalsParent(f[1]) && !t.genEqParent {
		return ""
	}
	return tok
}

func (t *treeRun) randTok0(r *hx.Rng, bpc int, tight bool) string {
	dirs := t.dirsOf()
	dir := hx.Pick(r, dirs)
	if r.Chance(50) && len(dirs) > 1 {
		dir = dirs[1+r.Intn(len(dirs)-1)] // favour subdirectories
	}
	kids := t.childrenOf(dir)
	pickName := func(pool []string) string {
		for k := 0; k < 8; k++ {
			n := hx.Pick(r, pool)
			if t.genEqParent || !sameName(n, lastOf(dir)) {
				return n
			}
		}
		return ""
	}
	existing := func(wantDir, wantFile bool) string {
		var c []string
		for _, k := range kids {
			if (k.IsDir && wantDir) || (!k.IsDir && wantFile) {
				c = append(c, k.Name)
			}
		}
		if len(c) == 0 {
			return ""
		}
		return hx.Pick(r, c)
	}
	switch k := r.Intn(20); {
	case k < 3: // mkdir of one component (or of an existing one, or where a file is in the way)
		n := pickName(treeDirs)
		if r.Chance(10) {
			n = pickName(treeFiles)
		}
		if n == "" {
			return ""
		}
		return "m:" + joinP(dir, n)
	case k < 4: // mkdir -p over several missing components
		a, b := pickName(treeDirs), hx.Pick(r, treeDirs)
		if a == "" || (sameName(a, b) && !t.genEqParent) {
			return ""
		}
		return "M:" + joinP(joinP(dir, a), b)
	case k < 8:
		n := pickName(treeFiles)
		// O_CREATE on a name that an earlier mkdir turned into a DIRECTORY: the specification opens what
		// exists (ok), the code refuses a directory opened for writing since fix 39c502f (and handed out a
		// writable handle on the directory before it). Both leave the volume unchanged; the outcome class of
		// this one call is not what the tree correspondence is about, so it is not generated (the scripted
		// dirTargets histories judge it on the real code).
		if n == "" || t.isDir(joinP(dir, n)) {
			return ""
		}
		return "c:" + joinP(dir, n)
	case k < 13:
		if t.genDirWrite && r.Chance(8) {
			// a write addressed to a directory: refused, nothing changes
			if dn := existing(true, false); dn != "" {
				return fmt.Sprintf("w:%s:%d:%d:%d", joinP(dir, dn), r.Intn(bpc+1), 1+r.Intn(2*bpc), r.Intn(251))
			}
		}
		n := existing(false, true)
		if n == "" || r.Chance(5) {
			n = pickName(treeFiles) // possibly missing: refused
			if n == "" || t.isDir(joinP(dir, n)) {
				return ""
			}
		}
		var size int
		if x := t.rep.find(joinP(dir, n)); x != nil {
			size = int(x.Size)
		}
		off := r.Intn(size + 1)
		if r.Chance(20) {
			off = size + 1 + r.Intn(bpc)
		}
		ln := 1 + r.Intn(3*bpc)
		if tight && r.Chance(15) {
			ln = int(t.v.cfg.Size) // cannot fit
		}
		if r.Chance(18) {
			// a zero-length write: the model changes nothing; off the trigger of fat-empty-write-not-noop while that is in the tree
			zoff := r.Intn(size + bpc + 1)
			if r.Chance(40) {
				zoff = 0
			}
			if !(t.emptyAsFound && zeroTrigger(int64(size), int64(zoff), bpc)) {
				return fmt.Sprintf("w:%s:%d:0:0", joinP(dir, n), zoff)
			}
		}
		return fmt.Sprintf("w:%s:%d:%d:%d", joinP(dir, n), off, ln, r.Intn(251))
	case k < 14:
		wantDir := t.genDirWrite && r.Chance(30) // a truncating open of a directory: refused
		n := existing(wantDir, !wantDir)
		if n == "" {
			return ""
		}
		return "t:" + joinP(dir, n)
	case k < 17:
		n := existing(true, true)
		if n == "" || r.Chance(8) {
			n = pickName(treeFiles)
			if n == "" {
				return ""
			}
		}
		return "d:" + joinP(dir, n)
	default:
		o := existing(true, true)
		if o == "" {
			return ""
		}
		pool := treeFiles
		if t.isDir(joinP(dir, o)) {
			pool = treeDirs
		}
		n := pickName(pool)
		if t.genRenameOntoDir && r.Chance(15) {
			// onto an existing directory (the source a file or another directory): refused, nothing changes
			if n = existing(true, false); sameName(n, o) {
				return ""
			}
		}
		if n == "" || (t.isDir(joinP(dir, n)) && !t.genRenameOntoDir) {
			return "" // onto a directory: fat-rename-over-directory
		}
		for _, ch := range t.childrenOf(joinP(dir, o)) {
			if sameName(ch.Name, n) && !t.genEqParent {
				return "" // a directory would get the name of one of its children: fat-name-equals-parent below it
			}
		}
		if t.exists(joinP(dir, n)) && needsTail(n) && !t.isDir(joinP(dir, n)) {
			// a rename that REPLACES an entry whose 8.3 form carries a numeric tail gets the tail ~2 in
			// the code (renameEntry scans the entry it is about to drop as a conflict); the model's entry
			// spelling is a function of the name (~1): such calls are left to the oracle histories
			return ""
		}
		if r.Chance(10) {
			n = strings.ToUpper(o) // the same name in another spelling: refused by the code
			if n == o {
				n = strings.ToLower(o)
			}
		}
		return "r:" + joinP(dir, o) + ":" + n
	}
}

// needsTail reports a name whose 8.3 base is cut to six characters plus a numeric tail
// (convertLfnSfn: more than eight valid characters in front of the last dot).
func needsTail(name string) bool {
	base := name
	if i := strings.LastIndex(name, "."); i >= 0 {
		base = name[:i]
	}
	k := 0
	for _, c := range base {
		if c != ' ' && c != '.' {
			k++
		}
	}
	return k > 8
}

// longNames(k) are k names of 3 directory slots each with distinct 8.3 forms.
func longNames(k int) []string {
	out := make([]string, k)
	for i := range out {
		out[i] = fmt.Sprintf("%c%c entry of long name.dat", 'a'+i%26, 'a'+(i/26)%26) // 25 characters
	}
	return out
}

func (e *eng) corrTree(r *hx.Rng) {
	c := e.c
	bounded := allocBoundedByData()
	cfgs := []volCfg{
		{Kind: 12, Size: 40 * kib, Start: 0},
		{Kind: 32, Size: 256 * kib, Start: 512, BS: 512},
		{Kind: 16, Size: 5 * mib, Start: 1 * mib},
		{Kind: 12, Size: 1474560, Start: 512},
		{Kind: 32, Size: 80 * kib, Start: 0, BS: 512},
	}
	n := c.N(30, 500)
	for i := 0; i < n; i++ {
		id := fmt.Sprintf("ctree%d", i)
		if !c.Want(id) {
			// keep the random stream aligned with a full run
			r.Fork()
			continue
		}
		rr := r.Fork()
		func() {
			defer func() {
				if x := recover(); x != nil {
					c.Stat("corr.panic-in-library")
				}
			}()
			cfg := cfgs[i%len(cfgs)]
			v, err := mkVol(cfg)
			if err != nil {
				c.Stat("corr.tree.mkvol-failed")
				return
			}
			rep := v.raw()
			if rep.Vol == nil || rep.Root == nil || len(rep.Orphans) > 0 {
				return
			}
			tb := v.base.VerifTable()
			max := tb.MaxCluster()
			lim := max
			if bounded && uint32(rep.Vol.ClusterCount+2) < lim {
				lim = uint32(rep.Vol.ClusterCount + 2)
			}
			dataStart, bpc, rootDirOffset, rootCap, _, _ := v.base.VerifGeom()
			entries0 := tableNonzero(tb)
			rootChain := u32s(rep.Root.Chain)
			rootBase := rootBaseSlots(v, rep)
			rootPre := rootPreHex(v, rep)
			t := &treeRun{v: v, rep: rep, emptyAsFound: e.emptyAsFound, genDirWrite: !e.dirWriteAsFound, genRenameOntoDir: !e.renameOverDirAsFound, genEqParent: !e.eqParentAsFound}
			free := func() int {
				f := 0
				for cl := uint32(2); cl < lim; cl++ {
					if tb.ClusterValue(cl) == 0 {
						f++
					}
				}
				return f
			}
			// fill leaves exactly `leave` clusters free (one big file in the root directory)
			fill := func(leave int) {
				t.do("c:FILLER.BIN")
				if k := free() - leave; k > 0 {
					t.do(fmt.Sprintf("w:FILLER.BIN:0:%d:%d", k*bpc+1, 17))
				}
			}
			kind := "random"
			switch i % 6 {
			case 1: // a subdirectory grows past one cluster, then shrinks again
				kind = "grow-shrink"
				t.do("m:sub")
				ln := longNames(4 + 16*bpc/512/3)
				for _, nm := range ln {
					t.do("c:sub/" + nm)
				}
				t.do(fmt.Sprintf("w:sub/%s:0:%d:5", ln[1], bpc+7))
				for _, nm := range ln[2:] {
					t.do("d:sub/" + nm)
				}
				t.do("m:sub/Deep Directory")
				t.do("c:sub/Deep Directory/b.txt")
				if t.genDirWrite {
					// writes and truncating opens addressed to a directory: refused (is a directory), nothing changes
					t.do("w:sub:0:10:3")
					t.do(fmt.Sprintf("w:sub/Deep Directory:5:%d:7", bpc+1))
					t.do("t:sub")
					t.do("t:sub/Deep Directory")
					t.do("w:sub:0:0:0")
					t.do("c:sub/C")
				}
				if t.genRenameOntoDir {
					// renames onto an existing directory: of a file, of an empty and of a non-empty directory
					t.do("r:sub/" + ln[0] + ":Deep Directory")
					t.do("m:d2")
					t.do("c:A.TXT")
					t.do("r:A.TXT:sub")
					t.do("r:d2:sub")
					t.do("r:sub:d2")
					t.do("r:A.TXT:d2")
					t.do("c:sub/readme.md")
					t.do("r:sub/Deep Directory:readme.md") // a directory onto a file: the file is replaced, as before
					t.do("c:d2/b.txt")
				}
				if t.genEqParent {
					// names equal to the name of the directory they live in
					t.do("m:same")
					t.do("c:same/other.txt")
					t.do("c:same/same")
					t.do(fmt.Sprintf("w:same/same:0:%d:9", bpc+100))
					t.do("r:same/same:moved")
					t.do("r:same/moved:same")
					t.do("d:same/same")
					t.do("M:same/same/same")
					t.do("c:same/same/same/same")
					t.do("d:same/same/same/same")
					t.do("d:same/same/same")
					t.do("d:same/same")
				}
			case 2: // zero-length writes: on a new empty file, after O_TRUNC, inside / at EOF of a non-empty file; then new files and directories
				kind = "zero-length"
				t.do("c:A.TXT")
				t.do("w:A.TXT:0:0:0")
				t.do("m:sub")
				t.do("c:sub/b.txt")
				t.do("w:sub/b.txt:0:0:0")
				t.do("m:sub/d2")
				t.do(fmt.Sprintf("w:sub/b.txt:0:%d:9", bpc+3))
				t.do("w:A.TXT:0:7:4")
				t.do(fmt.Sprintf("w:sub/b.txt:%d:0:0", bpc+3)) // at EOF
				t.do(fmt.Sprintf("w:sub/b.txt:%d:0:0", bpc))   // on the boundary between its clusters
				t.do("w:sub/b.txt:5:0:0")
				t.do("t:sub/b.txt")
				t.do("w:sub/b.txt:0:0:0") // emptied by O_TRUNC
				t.do("c:C")
				t.do(fmt.Sprintf("w:C:0:%d:11", 2*bpc))
				t.do("w:sub/b.txt:0:3:2")
				t.do(fmt.Sprintf("w:C:%d:0:0", bpc))
				if !e.emptyAsFound {
					t.do(fmt.Sprintf("w:C:%d:0:0", 2*bpc))   // at EOF on a cluster boundary
					t.do(fmt.Sprintf("w:A.TXT:%d:0:0", bpc)) // past EOF
					t.do("w:sub/b.txt:9:0:0")
					t.do("c:readme.md")
					t.do(fmt.Sprintf("w:readme.md:0:%d:1", bpc+1))
				}
			case 3: // ENOSPC inside a multi-cluster subdirectory
				kind = "enospc-subdir"
				spc := bpc / 32              // directory slots per cluster
				k2 := (2*spc - 2) / 3        // three-slot entries that fit into two clusters beside "." and ".."
				if k2 > 45 || free() > 200 { // cluster too large / volume too big for this script at quick sizes
					kind = "random"
					break
				}
				t.do("m:sub")
				t.do("c:small")
				ln := longNames(k2 + 3)
				for _, nm := range ln[:k2] {
					t.do("c:sub/" + nm) // two clusters; the next entry does not fit any more
				}
				fill(0)
				t.do("c:sub/" + ln[k2])                                                            // no cluster for the file
				t.do("m:sub/d2")                                                                   // nor for a directory
				t.do("w:small:0:" + fmt.Sprint(bpc+1) + ":3")                                      // nor to grow a file
				t.do("r:sub/" + ln[0] + ":" + ln[0] + " and a tail that needs two more slots.dat") // nor to grow the directory: nothing changes
				t.do("d:small")                                                                    // one cluster is free again
				t.do("c:sub/" + ln[k2])                                                            // the file gets it, the directory cannot grow: refused, cluster given back
				t.do("m:sub/d2")                                                                   // the same for a directory
				t.do("d:sub/" + ln[1])                                                             // room for one entry
				t.do("c:sub/" + ln[k2])                                                            // accepted
				t.do("c:sub/" + ln[k2+1])                                                          // no cluster
				t.do("d:FILLER.BIN")
				t.do("c:sub/" + ln[k2+1])
				t.do("c:sub/" + ln[k2+2]) // the directory grows to three clusters
			case 5: // the fixed root directory fills up (FAT12/16); FAT32: the root chain grows
				kind = "root-exhaustion"
				if rootCap > 600 {
					kind = "random"
					break
				}
				big := strings.Repeat("x", 244) // 251 characters: 21 slots per entry
				k := 0
				for ; k < 30; k++ {
					if cls := t.do(fmt.Sprintf("c:%c%c %s.dat", 'a'+k%26, 'a'+k/26, big)); cls != "ok" {
						break
					}
				}
				t.do("m:sub")
				t.do("c:C")
				t.do(fmt.Sprintf("d:%c%c %s.dat", 'a', 'a', big))
				t.do("m:sub")
				t.do("c:sub/C")
			}
			if kind == "random" {
				tight := cfg.Size < 100*kib
				if tight && rr.Chance(50) {
					t.do("m:sub")
					fill(1 + rr.Intn(4))
				}
				steps := 6 + rr.Intn(12)
				for tries := 0; len(t.ops) < steps && tries < 200; tries++ {
					if tok := t.randTok(rr, bpc, tight); tok != "" {
						t.do(tok)
					}
				}
			}
			if t.bad || len(t.ops) == 0 {
				c.Stat("corr.tree.dropped")
				return
			}
			final := treeListing(t.rep, v.dev)
			// small volumes: the model re-opens its final image from table + bytes alone (`reopen`, `reopenCheck`);
			// the raw reader's tree (names, nesting, sizes, contents) and its verdict on the chains of the
			// parsed entries are the real side
			reopenCase := cfg.Size <= 300*kib && i%4 != 3
			roCase, roImpl := []string{}, []string{}
			if reopenCase {
				chk := 1
				for _, pr := range t.rep.Problems {
					if strings.HasPrefix(pr.Code, "chain-") || pr.Code == "cross-link" {
						chk = 0
					}
				}
				roCase = []string{"reopen=1"}
				roImpl = []string{"rtree=" + fmt.Sprint(digestStr(plainListing(t.rep, v.dev))), kv("rchk", chk)}
			}
			c.Case(id, "fat.tree", kv("kind", cfg.Kind), kv("max", max), kv("lim", lim), kv("start", cfg.Start), kv("datastart", dataStart),
				kv("bpc", bpc), kv("rootcap", rootCap), kv("rootbase", rootBase), kv("rootoff", rootDirOffset+cfg.Start),
				"rootchain="+rootChain, "entries="+entries0, "rootpre="+rootPre, kv("rootpar", rootDotDot(cfg.Kind)),
				"ops="+strings.Join(t.ops, ","), strings.Join(append(roCase, "hyp=1"), "\t"))
			// hyp: the geometry and the fresh volume meet the hypotheses of the tree theorems (TGeomOk,
			// 64 <= bytes per cluster, TInv and TFit of the initial state) and of the re-opening theorems
			// (ImgParamsOk, NameOk of every name, OpOk of every call), evaluated by the Lean driver;
			// dimg: after every call the bytes of every directory (root first, then listing order; time
			// stamps masked) against the model's `image`
			c.Impl(id, "res="+strings.Join(t.res, ","), "used="+strings.Join(t.used, ","), "steps="+strings.Join(t.steps, ","),
				"final="+final, "table="+tableNonzero(tb), "dimg="+strings.Join(t.dimg, ","), "nsp="+strings.Join(t.nsp, ","), strings.Join(append(roImpl, "hyp=1111"), "\t"))
			c.Stat("corr.tree." + kind)
			for _, cls := range t.res {
				c.Stat("corr.tree.res." + cls)
			}
			c.Distinct("tree|" + cfg.String() + "|" + strings.Join(t.ops, ","))
		}()
	}
}

// corrDirWrs ties WHERE the model's writeDirectoryEntries puts a directory's image (`dirWrs`,
// the fixed root region at rootOff with 32*rootCap bytes) to the real code: a directory tree is
// built, then Chtimes on a child makes the code rewrite that child's parent directory (no
// allocation: the chain already has the clusters the entries need); the WriteAt log of that call,
// merged into maximal byte ranges, is compared with the ranges the model's writeDir changes.
func (e *eng) corrDirWrs(r *hx.Rng) {
	c := e.c
	bounded := allocBoundedByData()
	cfgs := []volCfg{
		{Kind: 12, Size: 40 * kib, Start: 0},
		{Kind: 32, Size: 80 * kib, Start: 512, BS: 512},
		{Kind: 12, Size: 200 * kib, Start: 1024},
		{Kind: 32, Size: 256 * kib, Start: 0, BS: 512},
	}
	for i := 0; i < c.N(12, 120); i++ {
		id := fmt.Sprintf("cdw%d", i)
		rr := r.Fork()
		if !c.Want(id) {
			continue
		}
		func() {
			defer func() {
				if x := recover(); x != nil {
					c.Stat("corr.panic-in-library")
				}
			}()
			cfg := cfgs[i%len(cfgs)]
			v, err := mkVol(cfg)
			if err != nil {
				return
			}
			rep := v.raw()
			if rep.Vol == nil || rep.Root == nil {
				return
			}
			tb := v.base.VerifTable()
			max := tb.MaxCluster()
			lim := max
			if bounded && uint32(rep.Vol.ClusterCount+2) < lim {
				lim = uint32(rep.Vol.ClusterCount + 2)
			}
			dataStart, bpc, rootDirOffset, rootCap, _, _ := v.base.VerifGeom()
			rootBase := rootBaseSlots(v, rep)
			t := &treeRun{v: v, rep: rep}
			t.do("m:sub")
			for _, nm := range longNames(1 + rr.Intn(3*bpc/64)) {
				t.do("c:sub/" + nm)
			}
			t.do("m:sub/Deep Directory")
			t.do("c:sub/Deep Directory/b.txt")
			for _, nm := range longNames(rr.Intn(8)) {
				t.do("c:" + nm)
			}
			t.do("c:C")
			if t.bad {
				return
			}
			dir := []string{"", "sub", "sub/Deep Directory"}[i%3]
			kids := t.childrenOf(dir)
			if len(kids) == 0 {
				return
			}
			var names []string
			for _, k := range kids {
				names = append(names, k.Name)
			}
			chain, base := t.rep.Root.Chain, rootBase
			if dir != "" {
				chain, base = t.rep.find(dir).Chain, 2
			}
			v.dev.ResetLog()
			now := time.Unix(1700000000, 0)
			if err := safely(func() error { return v.fs.Chtimes(joinP(dir, kids[0].Name), now, now, now) }); err != nil {
				c.Stat("corr.dirwrs.chtimes-failed")
				return
			}
			var rs [][2]int64
			for _, ev := range v.dev.Log {
				if !ev.Sync && ev.Len > 0 {
					rs = append(rs, [2]int64{ev.Off, ev.Off + int64(ev.Len)})
				}
			}
			sort.Slice(rs, func(a, b int) bool { return rs[a][0] < rs[b][0] })
			var merged [][2]int64
			for _, x := range rs {
				if n := len(merged); n > 0 && x[0] <= merged[n-1][1] {
					if x[1] > merged[n-1][1] {
						merged[n-1][1] = x[1]
					}
					continue
				}
				merged = append(merged, x)
			}
			ws := make([]string, len(merged))
			for k, x := range merged {
				ws[k] = fmt.Sprintf("%d:%d", x[0], x[1]-x[0])
			}
			c.Case(id, "fat.dirwrs", kv("kind", cfg.Kind), kv("max", max), kv("lim", lim), kv("start", cfg.Start), kv("datastart", dataStart),
				kv("bpc", bpc), kv("rootcap", rootCap), kv("rootbase", rootBase), kv("rootoff", rootDirOffset+cfg.Start),
				"chain="+u32s(chain), kv("base", base), "names="+strings.Join(names, ";"), "entries="+tableNonzero(tb), kv("total", cfg.Start+cfg.Size))
			c.Impl(id, "res=ok", "chain="+u32s(chain), "writes="+strings.Join(ws, ","))
			c.Stat("corr.dirwrs." + []string{"root", "subdir", "nested"}[i%3])
			c.Distinct(fmt.Sprintf("dirwrs|%s|%s|%d", cfg.String(), dir, len(chain)))
		}()
	}
}
