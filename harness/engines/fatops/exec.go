package fatops

// Volumes on memdev, execution of operations through the library's public API,
// the three readers (live filesystem object, re-opened from bytes, raw walker)
// and the per-step oracles for C01 (tree) and C08 (soundness).

import (
	"encoding/hex"
	"errors"
	"fmt"
	"io"
	"os"
	"sort"
	"strings"

	"github.com/diskfs/go-diskfs/filesystem"
	"github.com/diskfs/go-diskfs/filesystem/fat12"
	"github.com/diskfs/go-diskfs/filesystem/fat16"
	"github.com/diskfs/go-diskfs/filesystem/fat32"

	"verif/harness/internal/hx"
	"verif/harness/internal/memdev"
)

type volCfg struct {
	Kind  int
	Size  int64
	Start int64
	BS    int64 // 0 = default
	Slack int64 // device bytes after the volume
}

func (c volCfg) String() string {
	return fmt.Sprintf("fat%d size=%d start=%d bs=%d slack=%d", c.Kind, c.Size, c.Start, c.BS, c.Slack)
}

type vol struct {
	cfg  volCfg
	dev  *memdev.Dev
	fs   filesystem.FileSystem
	base *fat12.FileSystem
}

func safely(f func() error) (err error) {
	defer func() {
		if e := recover(); e != nil {
			err = fmt.Errorf("panic: %v", e)
		}
	}()
	return f()
}

func mkVol(cfg volCfg) (*vol, error) {
	v := &vol{cfg: cfg, dev: memdev.New(cfg.Start + cfg.Size + cfg.Slack)}
	v.dev.KeepData = false
	err := safely(func() error {
		switch cfg.Kind {
		case 12:
			f, err := fat12.Create(v.dev, cfg.Size, cfg.Start, cfg.BS, "VERIF", true)
			if err != nil {
				return err
			}
			v.fs, v.base = f, f
		case 16:
			f, err := fat16.Create(v.dev, cfg.Size, cfg.Start, cfg.BS, "VERIF", true)
			if err != nil {
				return err
			}
			v.fs, v.base = f, f.FileSystem
		default:
			f, err := fat32.Create(v.dev, cfg.Size, cfg.Start, cfg.BS, "VERIF", true)
			if err != nil {
				return err
			}
			v.fs, v.base = f, f.FileSystem
		}
		return nil
	})
	if err != nil {
		return nil, err
	}
	v.dev.ResetLog()
	return v, nil
}

func (v *vol) reopen() (fsys filesystem.FileSystem, base *fat12.FileSystem, err error) {
	err = safely(func() error {
		switch v.cfg.Kind {
		case 12:
			f, e := fat12.Read(v.dev, v.cfg.Size, v.cfg.Start, v.cfg.BS)
			if e != nil {
				return e
			}
			fsys, base = f, f
		case 16:
			f, e := fat16.Read(v.dev, v.cfg.Size, v.cfg.Start, v.cfg.BS)
			if e != nil {
				return e
			}
			fsys, base = f, f.FileSystem
		default:
			f, e := fat32.Read(v.dev, v.cfg.Size, v.cfg.Start, v.cfg.BS)
			if e != nil {
				return e
			}
			fsys, base = f, f.FileSystem
		}
		return nil
	})
	return
}

func (v *vol) bps() int {
	if v.cfg.BS == 0 {
		return 512
	}
	return int(v.cfg.BS)
}

func (v *vol) raw() *rawReport {
	return rawCheck(v.dev, v.cfg.Start, v.cfg.Size, v.cfg.Kind, v.bps())
}

// ---- operations

type op struct {
	Kind   string // mkdir create write append trunc rename remove | hopen hwrite hclose
	Path   string
	Path2  string
	Off    int64
	Data   []byte
	Create bool
	H      int
	Zero   bool // write/append/trunc with no Data: the zero-length Write IS issued (deepen8; otherwise an empty Data means "no Write call")
	Nil    bool // with Zero: Write(nil) instead of Write([]byte{})
}

// zeroTag renders the zero-length marker of an op for repro strings.
func (o *op) zeroTag() string {
	switch {
	case o.Zero && o.Nil:
		return ",Write(nil)"
	case o.Zero:
		return ",Write([]byte{})"
	}
	return ""
}

func (o *op) String() string {
	switch o.Kind {
	case "mkdir", "remove", "create":
		return fmt.Sprintf("%s(%q)", o.Kind, o.Path)
	case "rename":
		return fmt.Sprintf("rename(%q,%q)", o.Path, o.Path2)
	case "write":
		return fmt.Sprintf("write(%q,off=%d,len=%d,create=%v%s)", o.Path, o.Off, len(o.Data), o.Create, o.zeroTag())
	case "append":
		return fmt.Sprintf("append(%q,len=%d%s)", o.Path, len(o.Data), o.zeroTag())
	case "trunc":
		return fmt.Sprintf("trunc(%q,len=%d,create=%v%s)", o.Path, len(o.Data), o.Create, o.zeroTag())
	case "hopen":
		return fmt.Sprintf("hopen(h%d,%q)", o.H, o.Path)
	case "hwrite":
		return fmt.Sprintf("hwrite(h%d,len=%d)", o.H, len(o.Data))
	case "hclose":
		return fmt.Sprintf("hclose(h%d)", o.H)
	}
	return o.Kind
}

func opsString(ops []*op) string {
	s := make([]string, len(ops))
	for i, o := range ops {
		s[i] = o.String()
	}
	return strings.Join(s, " ; ")
}

func errClass(err error) string {
	if err == nil {
		return "ok"
	}
	m := err.Error()
	switch {
	case strings.HasPrefix(m, "panic:"):
		return "panic"
	case strings.Contains(m, "no space left"):
		return "enospc"
	case strings.Contains(m, "root directory"):
		return "rootfull"
	}
	return "other"
}

// readAll reads a file's whole contents with one Read call at offset 0 (size comes from the
// listing); this is how the C01 oracle observes contents.
func readAll(f filesystem.File, size int64) ([]byte, error) {
	buf := make([]byte, size+16)
	if _, err := f.Seek(0, io.SeekStart); err != nil {
		return nil, err
	}
	n, err := f.Read(buf)
	if err != nil && !errors.Is(err, io.EOF) {
		return nil, err
	}
	if n > len(buf) {
		return nil, fmt.Errorf("Read returned n=%d for a buffer of %d", n, len(buf))
	}
	return buf[:n], nil
}

// fsView walks a filesystem object through ReadDir/OpenFile/Read.
func fsView(fsys filesystem.FileSystem) (out []viewLine, err error) {
	err = safely(func() error {
		var walk func(p string, depth int) error
		walk = func(p string, depth int) error {
			if depth > 24 {
				return fmt.Errorf("directory nesting deeper than 24 at %q", p)
			}
			des, e := fsys.ReadDir(p)
			if e != nil {
				return fmt.Errorf("ReadDir(%q): %w", p, e)
			}
			for _, de := range des {
				cp := de.Name()
				if p != "." {
					cp = p + "/" + de.Name()
				}
				if de.IsDir() {
					out = append(out, viewLine{cp, true, nil})
					if e := walk(cp, depth+1); e != nil {
						return e
					}
					continue
				}
				info, e := de.Info()
				if e != nil {
					return e
				}
				f, e := fsys.OpenFile(cp, os.O_RDONLY)
				if e != nil {
					return fmt.Errorf("OpenFile(%q): %w", cp, e)
				}
				data, e := readAll(f, info.Size())
				f.Close()
				if e != nil {
					return fmt.Errorf("read %q: %w", cp, e)
				}
				if int64(len(data)) != info.Size() {
					return fmt.Errorf("%q: listing says %d bytes, Read delivered %d", cp, info.Size(), len(data))
				}
				out = append(out, viewLine{cp, false, data})
			}
			return nil
		}
		return walk(".", 0)
	})
	sort.Slice(out, func(i, j int) bool { return out[i].path < out[j].path })
	return
}

func rawView(r *rawReport, d io.ReaderAt) []viewLine {
	var out []viewLine
	var walk func(n *rawNode, p string, depth int)
	walk = func(n *rawNode, p string, depth int) {
		if depth > 24 {
			return
		}
		for _, c := range n.Children {
			cp := c.Name
			if p != "" {
				cp = p + "/" + c.Name
			}
			if c.IsDir {
				out = append(out, viewLine{cp, true, nil})
				walk(c, cp, depth+1)
			} else {
				out = append(out, viewLine{cp, false, r.content(d, c)})
			}
		}
	}
	if r.Root != nil {
		walk(r.Root, "", 0)
	}
	sort.Slice(out, func(i, j int) bool { return out[i].path < out[j].path })
	return out
}

func (r *rawReport) find(p string) *rawNode {
	n := r.Root
	for _, s := range splitP(p) {
		if n == nil {
			return nil
		}
		var nx *rawNode
		for _, c := range n.Children {
			if sameName(c.Name, s) {
				nx = c
			}
		}
		n = nx
	}
	return n
}

// ---- a history on one volume

type liveHandle struct {
	f        filesystem.File
	node     *refNode
	dir      *refNode
	dirVer   int
	off      int64
	appendTo bool
}

type hist struct {
	c    *hx.Ctx
	prop string // C01 | C08 | both
	id   string
	v    *vol
	ref  *refTree
	ops  []*op // executed so far

	dirVer map[*refNode]int
	hs     map[int]*liveHandle

	prevRaw *rawReport
	// bookkeeping that explains what the known defects do to the image
	expOrphans   map[uint32]bool       // chains of removed / replaced entries (fat-remove-leaks-chain)
	refusedAlloc int                   // refused create/mkdir calls that may have left one cluster behind
	staleFired   bool                  // a handle wrote through a stale parent snapshot
	holes        map[*refNode][2]int64 // file -> byte range that a write past EOF left unwritten (fat-hole-stale-bytes)
	reported     map[string]bool
	fullCompare  bool
	dead         bool // the real state has left the reference: stop comparing trees
	nsteps       int
	c2AtCreate   bool     // the fresh volume already had cluster 2 marked used without an owner
	specLog      []string // the accepted / impossible calls in the Lean driver's op syntax (fat.spec)
	specExp      []int
	specOff      bool
	forceTag     string // name-domain probes: the class of the name under test
}

func newHist(c *hx.Ctx, prop, id string, v *vol) *hist {
	h := &hist{c: c, prop: prop, id: id, v: v, ref: newRef(), dirVer: map[*refNode]int{}, hs: map[int]*liveHandle{},
		expOrphans: map[uint32]bool{}, reported: map[string]bool{}, fullCompare: true, holes: map[*refNode][2]int64{}}
	h.prevRaw = v.raw()
	for _, c := range h.prevRaw.Orphans {
		if c == 2 && v.cfg.Kind != 32 {
			h.c2AtCreate = true // finding fat1216-cluster2-marked-used: present on the fresh volume
		}
	}
	return h
}

func (h *hist) wantTree() bool  { return h.prop == "C01" || h.prop == "both" }
func (h *hist) wantSound() bool { return h.prop == "C08" || h.prop == "both" }

func (h *hist) repro() string {
	return fmt.Sprintf("%s | %s", h.v.cfg, opsString(h.ops))
}

func (h *hist) bump(d *refNode) { h.dirVer[d]++ }

// need returns a generous upper bound of the clusters the call may need.
func (h *hist) need(o *op) int64 {
	bpc := int64(h.prevRaw.Vol.BPC)
	if bpc == 0 {
		return 1
	}
	dirSlack := 3 + (21*32+bpc-1)/bpc
	switch o.Kind {
	case "write", "append", "trunc", "hwrite":
		var old int64
		if n := h.ref.lookup(o.Path); n != nil {
			old = int64(len(n.data))
		}
		nw := o.Off + int64(len(o.Data))
		if o.Kind == "append" {
			nw = old + int64(len(o.Data))
		}
		grow := (nw+bpc-1)/bpc - (old+bpc-1)/bpc
		if grow < 0 {
			grow = 0
		}
		return grow + 1 + dirSlack
	}
	return 1 + dirSlack
}

// refusalOK decides whether refusing a call the reference considers possible is legitimate.
func (h *hist) refusalOK(o *op, err error) (ok bool, tag, why string) {
	cls := errClass(err)
	r := h.prevRaw
	if o.Kind == "rename" {
		a, b := splitP(o.Path), splitP(o.Path2)
		if len(a) > 0 && len(b) > 0 && sameName(a[len(a)-1], b[len(b)-1]) {
			// renaming a name onto itself (or changing only its case) may be refused: nothing changes
			h.c.Stat("rename-onto-itself-refused")
			return true, "", ""
		}
	}
	switch cls {
	case "enospc":
		idealFree := r.FreeFat + int64(len(r.Orphans))
		need := h.need(o)
		if idealFree < need {
			return true, "", ""
		}
		if r.FreeFat < need && len(r.Orphans) > 0 {
			// space exists only as lost clusters
			tag := "-"
			if h.orphansExplained(r) {
				tag = "fat-remove-leaks-chain"
			}
			return false, tag, fmt.Sprintf("%s refused with ENOSPC: %d clusters are free and %d more are lost (marked used, owned by nothing); the call needs at most %d", o, r.FreeFat, len(r.Orphans), need)
		}
		return false, "-", fmt.Sprintf("%s refused with ENOSPC although %d clusters are free (needs at most %d)", o, r.FreeFat, need)
	case "rootfull":
		if r.Vol.Kind == 32 {
			return false, "-", fmt.Sprintf("%s refused: %v on FAT32", o, err)
		}
		used := 0
		if r.Root != nil {
			used = 1 // volume label
			for _, c := range r.Root.Children {
				used += c.Slots
			}
		}
		name := o.Path
		if i := strings.LastIndex(name, "/"); i >= 0 {
			name = name[i+1:]
		}
		if strings.Contains(o.Path, "/") && o.Kind != "mkdir" {
			return false, "-", fmt.Sprintf("%s refused with %v but the target is not in the root directory", o, err)
		}
		if used+(len(name)+12)/13+1 > r.Vol.RootEntries {
			return true, "", ""
		}
		return false, "-", fmt.Sprintf("%s refused with %v although only %d of %d root slots are in use", o, err, used, r.Vol.RootEntries)
	}
	return false, "-", fmt.Sprintf("%s refused: %v", o, err)
}

func (h *hist) orphansExplained(r *rawReport) bool {
	extra := 0
	for _, c := range r.Orphans {
		if h.expOrphans[c] {
			continue
		}
		if c == 2 && h.c2AtCreate {
			continue // reserved at Create (finding fat1216-cluster2-marked-used)
		}
		extra++
	}
	return extra <= h.refusedAlloc
}

// noteRemoved records the chain of an entry that is about to be dropped (remove / rename-over):
// as found the library never releases it.
func (h *hist) noteRemoved(p string) {
	if n := h.prevRaw.find(p); n != nil {
		for _, c := range n.Chain {
			h.expOrphans[c] = true
		}
	}
}

// step executes one operation and evaluates the oracles. It returns false when the history must stop.
func (h *hist) step(o *op) bool {
	h.ops = append(h.ops, o)
	h.nsteps++
	sid := fmt.Sprintf("%s/s%d", h.id, h.nsteps)
	fs := h.v.fs
	var treeProblem, treeTag string
	fail := func(tag, msg string) {
		if treeProblem == "" {
			treeProblem, treeTag = msg, tag
		}
	}
	// one API call = (possibility per the reference, the real call, what it does to the reference)
	call := func(sub *op, real func() error) bool {
		exp := h.ref.check(sub)
		err := safely(real)
		cls := errClass(err)
		h.c.Stat("call." + sub.Kind + "." + cls)
		if cls == "panic" {
			fail("-", fmt.Sprintf("%s: %v", sub, err))
			return false
		}
		if err != nil {
			if exp != "" {
				h.logSpec(sub, false)
			}
			if exp == "" {
				if ok, tag, why := h.refusalOK(sub, err); !ok {
					fail(tag, why)
				} else {
					h.c.Stat("refused-legit." + cls)
				}
				if (sub.Kind == "create" || sub.Kind == "mkdir" || sub.Create) && (cls == "rootfull" || cls == "enospc") {
					h.refusedAlloc += len(splitP(sub.Path))
				}
			}
			return false
		}
		if exp != "" {
			fail("-", fmt.Sprintf("%s was accepted although it cannot succeed (%s)", sub, exp))
			return false
		}
		h.logSpec(sub, true)
		if sub.Kind == "remove" {
			h.noteRemoved(sub.Path)
		}
		if sub.Kind == "write" && len(sub.Data) > 0 {
			if n := h.ref.lookup(sub.Path); n != nil && sub.Off > int64(len(n.data)) {
				h.holes[n] = [2]int64{int64(len(n.data)), sub.Off}
				h.c.Stat("write-past-eof")
			}
		}
		if sub.Kind == "rename" {
			if t := h.ref.lookup(sub.Path2); t != nil && t != h.ref.lookup(sub.Path) {
				h.noteRemoved(sub.Path2)
			}
		}
		if d, _, e := h.ref.dirOf(sub.Path); e == "" && sub.Kind != "mkdir" {
			h.bump(d)
		}
		if sub.Kind == "mkdir" {
			cur := h.ref.root
			for _, s := range splitP(sub.Path) {
				nx := cur.child(s)
				if nx == nil {
					h.bump(cur)
					break
				}
				cur = nx
			}
		}
		h.ref.apply(sub)
		return true
	}
	var handleData []byte
	handleRead := false
	expectLen := func(p string) int64 {
		if n := h.ref.lookup(p); n != nil {
			return int64(len(n.data))
		}
		return 0
	}
	switch o.Kind {
	case "mkdir":
		call(o, func() error { return fs.Mkdir(o.Path) })
	case "remove":
		call(o, func() error { return fs.Remove(o.Path) })
	case "rename":
		call(o, func() error { return fs.Rename(o.Path, o.Path2) })
	case "create":
		call(&op{Kind: "create", Path: o.Path, Create: true}, func() error {
			f, err := fs.OpenFile(o.Path, os.O_CREATE|os.O_RDWR)
			if err != nil {
				return err
			}
			return f.Close()
		})
	case "write", "append", "trunc":
		var f filesystem.File
		flags := os.O_RDWR
		if o.Create {
			flags |= os.O_CREATE
		}
		openSub := &op{Kind: "create", Path: o.Path, Create: o.Create}
		if o.Kind == "append" {
			flags |= os.O_APPEND
		}
		if o.Kind == "trunc" {
			flags |= os.O_TRUNC
			openSub = &op{Kind: "trunc", Path: o.Path, Create: o.Create}
		} else if n := h.ref.lookup(o.Path); n != nil && n.isDir {
			// the target is a directory: the open itself must be refused (is a directory); the
			// specification tie sees the intended write / append, which Spec.step refuses the same way
			openSub = &op{Kind: o.Kind, Path: o.Path, Off: o.Off, Data: o.Data, Zero: o.Zero, Nil: o.Nil}
		}
		if n := h.ref.lookup(o.Path); n != nil && n.isDir {
			h.c.Stat("write-to-directory-attempt." + o.Kind)
		}
		opened := call(openSub, func() error {
			var err error
			f, err = fs.OpenFile(o.Path, flags)
			return err
		})
		if opened && f != nil {
			wr := &op{Kind: o.Kind, Path: o.Path, Off: o.Off, Data: o.Data, Zero: o.Zero, Nil: o.Nil}
			if o.Kind == "trunc" {
				wr = &op{Kind: "write", Path: o.Path, Off: 0, Data: o.Data, Zero: o.Zero, Nil: o.Nil}
			}
			if o.Zero && len(o.Data) == 0 {
				h.c.Stat("zero_length_write")
				h.c.Stat("zero_length_write." + h.zeroClass(o))
			}
			if len(o.Data) > 0 || o.Zero {
				call(wr, func() error {
					if o.Kind == "write" {
						if _, err := f.Seek(o.Off, io.SeekStart); err != nil {
							return err
						}
					}
					buf := o.Data
					if o.Zero && len(o.Data) == 0 {
						buf = []byte{}
						if o.Nil {
							buf = nil
						}
					}
					n, err := f.Write(buf)
					if err == nil && n != len(o.Data) {
						return fmt.Errorf("panic: Write returned n=%d, nil for %d bytes", n, len(o.Data))
					}
					return err
				})
			}
			// read the whole file back through the same handle
			if err := safely(func() error {
				var e error
				handleData, e = readAll(f, expectLen(o.Path))
				return e
			}); err != nil {
				fail("-", fmt.Sprintf("%s: reading back through the same handle: %v", o, err))
			} else {
				handleRead = true
			}
			_ = safely(f.Close)
		}
	case "hopen":
		var f filesystem.File
		sub := &op{Kind: "create", Path: o.Path, Create: o.Create}
		flags := os.O_RDWR
		if o.Create {
			flags |= os.O_CREATE
		}
		if call(sub, func() error {
			var err error
			f, err = fs.OpenFile(o.Path, flags)
			return err
		}) && f != nil {
			d, _, _ := h.ref.dirOf(o.Path)
			h.hs[o.H] = &liveHandle{f: f, node: h.ref.lookup(o.Path), dir: d, dirVer: h.dirVer[d]}
		}
	case "hwrite":
		lh := h.hs[o.H]
		if lh == nil {
			break
		}
		path := h.pathOf(lh.node)
		stale := h.dirVer[lh.dir] != lh.dirVer
		sub := &op{Kind: "write", Path: path, Off: lh.off, Data: o.Data}
		if call(sub, func() error {
			n, err := lh.f.Write(o.Data)
			if err == nil && n != len(o.Data) {
				return fmt.Errorf("panic: Write returned n=%d, nil for %d bytes", n, len(o.Data))
			}
			return err
		}) {
			lh.off += int64(len(o.Data))
			if stale && !h.staleFired {
				h.staleFired = true
				h.c.Stat("stale-parent-trigger")
			}
			// the write itself refreshes nothing: the handle's snapshot stays as old as it was,
			// but it now is what is on disk for this directory
			lh.dirVer = h.dirVer[lh.dir]
		}
	case "hclose":
		if lh := h.hs[o.H]; lh != nil {
			_ = safely(lh.f.Close)
			delete(h.hs, o.H)
		}
	}

	// ---- observe
	raw := h.v.raw()
	// a cluster of a dropped entry that has since been released (free again, or owned by a new
	// entry) is no longer something the remove defect explains
	if raw.Vol != nil {
		for cl := range h.expOrphans {
			if int(cl) < len(raw.Vol.Fat) && raw.Vol.Fat[cl] == 0 {
				delete(h.expOrphans, cl)
			} else if _, owned := raw.Owner[cl]; owned {
				delete(h.expOrphans, cl)
			}
		}
	}
	if h.wantTree() && !h.dead {
		if treeProblem == "" && handleRead {
			want := h.ref.lookup(o.Path)
			if want != nil && string(want.data) != string(handleData) {
				i, txt := firstDiff(want.data, handleData)
				fail(h.tagTree(viewDiff{path: o.Path, idx: i}), fmt.Sprintf("%s: same-handle read-back has %d bytes, want %d; %s", o, len(handleData), len(want.data), txt))
			}
		}
		if treeProblem == "" && h.fullCompare {
			want := h.ref.view()
			live, err := fsView(fs)
			if err != nil {
				fail(h.tagTree(viewDiff{idx: -1}), "live view: "+err.Error())
			} else if d := diffViews(want, live, "live view after "+o.String()); d.msg != "" {
				fail(h.tagTree(d), d.msg)
			}
			if treeProblem == "" {
				if rfs, _, err := h.v.reopen(); err != nil {
					fail("-", fmt.Sprintf("re-opening the image after %s: %v", o, err))
				} else if rv, err := fsView(rfs); err != nil {
					fail(h.tagTree(viewDiff{idx: -1}), "re-opened view: "+err.Error())
				} else if d := diffViews(want, rv, "re-opened view after "+o.String()); d.msg != "" {
					fail(h.tagTree(d), d.msg)
				}
			}
			if treeProblem == "" && !raw.has("boot-signature") && raw.Root != nil {
				if d := diffViews(want, rawView(raw, h.v.dev), "independent raw reader after "+o.String()); d.msg != "" {
					fail(h.tagTree(d), d.msg)
				}
			}
		}
		if treeProblem != "" {
			if treeTag == "-" && h.forceTag != "" {
				treeTag = h.forceTag
			}
			h.c.Fail(sid+"/tree", treeTag, treeProblem, h.repro())
			h.dead = true
		} else {
			h.c.OK(sid + "/tree")
		}
	}
	if h.wantSound() {
		h.judgeSound(sid, raw)
	}
	h.prevRaw = raw
	if h.dead && !h.wantSound() {
		return false
	}
	return !h.reported["-"]
}

// zeroClass names where a zero-length write lands relative to the file as the reference has it
// (after the open of the same op: O_TRUNC has emptied it, O_CREATE has made it).
func (h *hist) zeroClass(o *op) string {
	size := int64(0)
	if n := h.ref.lookup(o.Path); n != nil {
		size = int64(len(n.data))
	}
	off := o.Off
	if o.Kind == "append" {
		off = size
	}
	if o.Kind == "trunc" {
		off = 0
	}
	switch {
	case size == 0 && off == 0:
		return "empty-file-at-0"
	case off > size:
		return "past-eof"
	case off == size:
		return "at-eof"
	}
	return "inside"
}

func (h *hist) pathOf(n *refNode) string {
	var found string
	var walk func(d *refNode, p string) bool
	walk = func(d *refNode, p string) bool {
		if d == n {
			found = p
			return true
		}
		for _, c := range d.children {
			cp := c.name
			if p != "" {
				cp = p + "/" + c.name
			}
			if walk(c, cp) {
				return true
			}
		}
		return false
	}
	walk(h.ref.root, "")
	return found
}

// tagTree names the known defect that explains a tree mismatch, if its trigger fired in this history.
func (h *hist) tagTree(d viewDiff) string {
	if d.idx >= 0 {
		if n := h.ref.lookup(d.path); n != nil {
			if rg, ok := h.holes[n]; ok && int64(d.idx) >= rg[0] && int64(d.idx) < rg[1] {
				return "fat-hole-stale-bytes"
			}
		}
	}
	if h.staleFired {
		return "fat-stale-parent-snapshot"
	}
	if h.prevRaw != nil && h.v != nil {
		// data handed out beyond the data area lands outside the device and reads back as zeros
		r := h.v.raw()
		if r.has("chain-out-of-range") && h.maxClusterExplains(r) {
			return "fat-maxcluster-from-fat-size"
		}
	}
	return "-"
}

func (h *hist) maxClusterExplains(r *rawReport) bool {
	// every out-of-range cluster lies between the end of the data area and the number of
	// entries the FAT has room for: exactly what an allocator bounded by the FAT size hands out
	lim := uint32(r.Vol.ClusterCount + 2)
	nEnt := uint32(len(r.Vol.Fat))
	for _, c := range r.OutOfRange {
		if c < lim || c >= nEnt {
			return false
		}
	}
	return len(r.OutOfRange) > 0 || r.has("fat-entry-beyond-data")
}

func (h *hist) judgeSound(sid string, r *rawReport) {
	if len(r.Problems) == 0 {
		h.c.OK(sid + "/sound")
		return
	}
	// split the problems into those the listed defects explain and the rest
	var unexplained []string
	tags := map[string]string{}
	for _, p := range r.Problems {
		if h.staleFired {
			switch p.Code {
			case "chain-too-short", "chain-not-terminated", "cross-link", "chain-loop", "dot-entry":
				// a directory rewritten from a stale snapshot brings back entries whose size and first
				// cluster no longer match the FAT (their chains were truncated, released or reused since)
				tags["fat-stale-parent-snapshot"] = p.Msg
				continue
			}
		}
		switch p.Code {
		case "orphan-clusters":
			if h.staleFired {
				// siblings erased from the directory by a stale snapshot leave their chains behind
				tags["fat-stale-parent-snapshot"] = p.Msg
				continue
			}
			if !h.orphansExplained(r) {
				unexplained = append(unexplained, p.Code+": "+p.Msg)
				continue
			}
			only2 := len(r.Orphans) == 1 && r.Orphans[0] == 2 && h.c2AtCreate
			leak := false
			for _, c := range r.Orphans {
				if h.expOrphans[c] {
					leak = true
				}
			}
			switch {
			case leak:
				tags["fat-remove-leaks-chain"] = p.Msg
			case only2:
				tags["fat1216-cluster2-marked-used"] = p.Msg
			default:
				tags["fat-refused-create-leaks-cluster"] = p.Msg
			}
			if !only2 && h.c2AtCreate {
				for _, c := range r.Orphans {
					if c == 2 {
						tags["fat1216-cluster2-marked-used"] = p.Msg
					}
				}
			}
		case "chain-out-of-range", "fat-entry-beyond-data":
			if h.maxClusterExplains(r) {
				tags["fat-maxcluster-from-fat-size"] = p.Msg
			} else {
				unexplained = append(unexplained, p.Code+": "+p.Msg)
			}
		case "geometry":
			if r.Vol.Kind == 12 && h.v.cfg.Size >= 5120 && h.v.cfg.Size < 5632 && strings.Contains(p.Msg, "no data area") {
				tags["fat12-create-accepts-zero-cluster-volume"] = p.Msg
			} else {
				unexplained = append(unexplained, p.Code+": "+p.Msg)
			}
		case "fat-too-small":
			bits := int64(r.Vol.Kind)
			holds := r.Vol.FatSectors * int64(r.Vol.BPS) * 8 / bits
			switch {
			case r.Vol.Kind != 32 && holds >= r.Vol.ClusterCount && holds < r.Vol.ClusterCount+2:
				// sectors-per-FAT computed from the cluster count without the two reserved entries
				tags["fat-fatsize-omits-reserved-entries"] = p.Msg
			case r.Vol.Kind == 32 && holds >= r.Vol.ClusterCount && holds < r.Vol.ClusterCount+2:
				tags["fat32-fatsize-omits-reserved-entries"] = p.Msg
			case r.Vol.Kind == 32 && h.v.cfg.Size > 256*gib:
				tags["fat32-geometry-narrow-integers"] = p.Msg
			default:
				unexplained = append(unexplained, p.Code+": "+p.Msg)
			}
		default:
			unexplained = append(unexplained, p.Code+": "+p.Msg)
		}
	}
	if len(unexplained) > 0 {
		h.c.Fail(sid+"/sound", "-", strings.Join(unexplained, "; "), h.repro())
		h.reported["-"] = true
		return
	}
	for tag, msg := range tags {
		if !h.reported[tag] {
			h.reported[tag] = true
			h.c.Fail(sid+"/sound/"+tag, tag, msg, h.repro())
		}
	}
}

// logSpec records a call for the specification tie: calls the reference applied (ok=true) and calls
// both sides consider impossible (ok=false). Calls refused for lack of space are not part of it.
func (h *hist) logSpec(sub *op, ok bool) {
	if h.specOff {
		return
	}
	bad := func(p string) bool { return strings.ContainsAny(p, ",:;|\t") }
	if bad(sub.Path) || bad(sub.Path2) {
		h.specOff = true
		return
	}
	add := func(s string, ok bool) {
		h.specLog = append(h.specLog, s)
		h.specExp = append(h.specExp, b2i(ok))
	}
	switch sub.Kind {
	case "mkdir":
		// Mkdir is mkdir -p: one specification step per missing component
		cur := h.ref.root
		pre := ""
		for _, comp := range splitP(sub.Path) {
			if pre != "" {
				pre += "/"
			}
			pre += comp
			nx := cur.child(comp)
			if nx == nil {
				if ok {
					add("m:"+pre, true)
				}
				// the remaining components are created inside the new directory
				cur = &refNode{isDir: true}
				continue
			}
			if !nx.isDir {
				add("m:"+pre, false)
				return
			}
			cur = nx
		}
	case "create":
		if sub.Create && ok {
			add("c:"+sub.Path, true)
		} else if !ok && sub.Create {
			add("c:"+sub.Path, false)
		}
	case "trunc":
		if ok {
			if sub.Create && h.ref.lookup(sub.Path) == nil {
				add("c:"+sub.Path, true)
			}
			add("t:"+sub.Path, true)
		} else if n := h.ref.lookup(sub.Path); n != nil || !sub.Create {
			add("t:"+sub.Path, false)
		}
	case "write":
		if len(sub.Data) > 0 || sub.Zero {
			add(fmt.Sprintf("w:%s:%d:%d:%d", sub.Path, sub.Off, len(sub.Data), seedOf(sub.Data)), ok)
		}
	case "append":
		add(fmt.Sprintf("a:%s:%d:%d", sub.Path, len(sub.Data), seedOf(sub.Data)), ok)
	case "remove":
		add("d:"+sub.Path, ok)
	case "rename":
		if h.ref.check(sub) == "crossdir" {
			return
		}
		if d1, _, e1 := h.ref.dirOf(sub.Path); e1 == "" {
			if d2, _, e2 := h.ref.dirOf(sub.Path2); e2 == "" && d1 == d2 {
				add("r:"+sub.Path+":"+sub.Path2, ok)
			}
		}
	}
}

// emitSpecTie sends the history to the Lean specification (Spec.step folded over the calls) and
// states what the reference tree holds: the oracle's notion of truth is the Lean spec's.
func (h *hist) emitSpecTie() {
	if h.specOff || len(h.specLog) == 0 || h.prop == "C08" {
		return
	}
	var total int
	var lines []string
	for _, l := range h.ref.view() {
		if l.isDir {
			lines = append(lines, l.path+"|d")
		} else {
			total += len(l.data)
			lines = append(lines, fmt.Sprintf("%s|f|%d|%s", l.path, len(l.data), hex.EncodeToString(l.data)))
		}
	}
	if total > 48*1024 {
		return
	}
	sort.Strings(lines)
	view := "-"
	if len(lines) > 0 {
		view = strings.Join(lines, ";")
	}
	exp := make([]string, len(h.specExp))
	for i, e := range h.specExp {
		exp[i] = fmt.Sprint(e)
	}
	id := h.id + "/spec"
	h.c.Case(id, "fat.spec", "ops="+strings.Join(h.specLog, ","))
	h.c.Impl(id, "res="+strings.Join(exp, ","), "view="+view)
	h.c.Stat("corr.spec-tie")
}

func (h *hist) closeAll() {
	for k, lh := range h.hs {
		_ = safely(lh.f.Close)
		delete(h.hs, k)
	}
}
