package fatops

// Geometry sweep (C08): Create at sizes around every cluster-size-table boundary, with both
// sector sizes for FAT32 and at several start offsets; the raw checker must accept the fresh
// volume and the volume after a few operations.

import (
	"fmt"
)

func (e *eng) geometrySweep() {
	c := e.c
	r := c.Rng.Fork()
	type gs struct {
		kind int
		size int64
		bs   int64
	}
	var cases []gs
	for _, s := range []int64{64 * kib, 360 * kib, 512 * kib, 512*kib + 512, 1474560, 2 * mib, 2*mib + 512, 4 * mib, 4*mib + 512, 8*mib - 512, 8 * mib, 16 * mib, 16*mib + 512, 32 * mib, 32*mib + 512, 64 * mib, 64*mib + 512, 128 * mib} {
		cases = append(cases, gs{12, s, 0})
	}
	for _, s := range []int64{5 * mib, 16 * mib, 32 * mib, 32*mib + 512, 128 * mib, 128*mib + 512, 256 * mib, 256*mib + 512, 512 * mib, 512*mib + 512, 1 * gib, 1*gib + 512, 2 * gib} {
		cases = append(cases, gs{16, s, 512})
	}
	for _, s := range []int64{64 * kib, 1 * mib, 34 * mib, 260 * mib, 260*mib + 512, 1 * gib, 8 * gib, 8*gib + 4096, 16 * gib, 16*gib + 4096, 32 * gib, 32*gib + 4096, 100 * gib} {
		cases = append(cases, gs{32, s, 512}, gs{32, s, 4096})
	}
	// sizes at which the sectors-per-FAT formulas come out short (found by the Lean geometry
	// theorems' counterexamples), and the 10-sector FAT12 volume
	cases = append(cases, gs{32, 82432, 512}, gs{32, (32 + 130*7) * 512, 512}, gs{32, 4329472, 4096}, gs{12, 5120, 0}, gs{12, 5632, 0})
	nrand := c.N(10, 120)
	for i := 0; i < nrand; i++ {
		switch r.Intn(3) {
		case 0:
			cases = append(cases, gs{12, 16*kib + r.Int63n(16*mib)/512*512, 0})
		case 1:
			cases = append(cases, gs{16, 5*mib + r.Int63n(300*mib)/512*512, 0})
		default:
			bs := int64(512)
			if r.Bool() {
				bs = 4096
			}
			cases = append(cases, gs{32, 128*kib + r.Int63n(2*gib)/bs*bs, bs})
		}
	}
	if !c.Thorough() {
		// quick: every boundary of the small kinds, a sample of the expensive ones
		var q []gs
		for i, g := range cases {
			if g.size <= 300*mib || i%4 == 0 {
				q = append(q, g)
			}
		}
		cases = q
	}
	starts := []int64{0, 512, 1 * mib, 4*gib + 4096}
	for i, g := range cases {
		id := fmt.Sprintf("g%d", i)
		if !c.Want(id) {
			continue
		}
		cfg := volCfg{Kind: g.kind, Size: g.size, Start: starts[i%4], BS: g.bs}
		v, err := mkVol(cfg)
		if err != nil {
			// a size the type cannot hold is refused; that is not a soundness matter
			c.Stat("sweep.create-refused")
			c.Note("sweep %s: Create refused: %v", cfg, err)
			continue
		}
		h := newHist(c, "C08", id, v)
		h.fullCompare = false
		h.nsteps = 0
		h.judgeSound(id+"/s0", h.prevRaw)
		if !h.reported["-"] {
			for _, o := range []*op{
				{Kind: "mkdir", Path: "d"},
				{Kind: "write", Path: "d/file one.bin", Data: pattern(r, 3*v.prevBPC()+1), Create: true},
				{Kind: "write", Path: "TOP.TXT", Data: pattern(r, 10), Create: true},
				{Kind: "trunc", Path: "d/file one.bin"},
			} {
				if !h.step(o) {
					break
				}
			}
		}
		c.Stat(fmt.Sprintf("sweep.fat%d", g.kind))
		c.Distinct(fmt.Sprintf("sweep|%s", cfg))
		if h.prevRaw.Vol != nil {
			c.Sample(fmt.Sprintf("geometry %s: %d clusters of %d bytes, FAT %d sectors", cfg, h.prevRaw.Vol.ClusterCount, h.prevRaw.Vol.BPC, h.prevRaw.Vol.FatSectors))
		}
	}
}
