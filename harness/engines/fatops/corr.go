package fatops

// Differential correspondence (D): the same inputs go to the real functions (through the
// public API and the zz_verif_hooks_C01.go wrappers) and, as `case` lines, to the Lean model.

import (
	"encoding/hex"
	"fmt"
	"io"
	"os"
	"sort"
	"strings"

	"github.com/diskfs/go-diskfs/filesystem/fat12"
	"github.com/diskfs/go-diskfs/filesystem/fat16"
	"github.com/diskfs/go-diskfs/filesystem/fat32"

	"verif/harness/internal/hx"
)

func kv(k string, v any) string { return fmt.Sprintf("%s=%v", k, v) }

func u32s(x []uint32) string {
	if len(x) == 0 {
		return "-"
	}
	s := make([]string, len(x))
	for i, v := range x {
		s[i] = fmt.Sprint(v)
	}
	return strings.Join(s, ",")
}

func runes(s string) string {
	if s == "" {
		return "-"
	}
	var out []string
	for _, r := range s {
		out = append(out, fmt.Sprint(int(r)))
	}
	return strings.Join(out, ",")
}

func bytesAsNats(s string) string {
	if s == "" {
		return "-"
	}
	out := make([]string, len(s))
	for i := 0; i < len(s); i++ {
		out[i] = fmt.Sprint(s[i])
	}
	return strings.Join(out, ",")
}

func entriesStr(m map[uint32]uint32) string {
	if len(m) == 0 {
		return "-"
	}
	ks := make([]int, 0, len(m))
	for k := range m {
		ks = append(ks, int(k))
	}
	sort.Ints(ks)
	s := make([]string, len(ks))
	for i, k := range ks {
		s[i] = fmt.Sprintf("%d:%d", k, m[uint32(k)])
	}
	return strings.Join(s, ",")
}

func newTable(kind int, fatID, size uint32) fat12.FATTable {
	switch kind {
	case 12:
		return fat12.VerifNewFat12Table(fatID, size)
	case 16:
		return fat16.VerifNewTable(fatID, size)
	}
	return fat32.VerifNewTable(fatID, size)
}

func tableNonzero(t fat12.FATTable) string {
	m := map[uint32]uint32{}
	for i := uint32(2); i <= t.MaxCluster(); i++ {
		if v := t.ClusterValue(i); v != 0 {
			m[i] = v
		}
	}
	return entriesStr(m)
}

func valBound(kind int) uint32 {
	switch kind {
	case 12:
		return 0xFFF
	case 16:
		return 0xFFFF
	}
	return 0x0FFFFFFF
}

func (e *eng) correspondence() {
	c := e.c
	r := c.Rng.Fork()
	if e.prop != "C08" {
		e.corrTables(r)
		e.corrDir(r)
		e.corrIO(r)
	}
	e.corrChains(r)
	e.corrAllocBoundary(r)
	e.corrZeroWrite(r)
	e.corrSound(r)
	e.corrFlat(r)
	e.corrGeom(r)
	e.corrBoot(r)
	e.corrTree(r)
	e.corrDirWrs(r)
}

// ---- table codecs
func (e *eng) corrTables(r *hx.Rng) {
	c := e.c
	n := c.N(60, 1500)
	for i := 0; i < n; i++ {
		kind := []int{12, 16, 32}[i%3]
		size := uint32(512 * (1 + r.Intn(3)))
		if r.Chance(20) {
			size = uint32(6 + r.Intn(90)) // odd small sizes: the loop bounds of the three encoders differ
		}
		fatID := map[int]uint32{12: 0x0FF8, 16: 0xFFF8, 32: 0x0FFFFFF8}[kind]
		if r.Chance(30) {
			fatID = (fatID &^ 0xFF) | 0xF0
		}
		t := newTable(kind, fatID, size)
		m := map[uint32]uint32{}
		for j := 0; j < r.Intn(40); j++ {
			idx := uint32(2 + r.Intn(int(t.MaxCluster())))
			if idx > t.MaxCluster() {
				continue
			}
			var v uint32
			switch r.Intn(4) {
			case 0:
				v = valBound(kind) // EOC
			case 1:
				v = uint32(2 + r.Intn(int(t.MaxCluster())))
			default:
				v = uint32(r.Intn(int(valBound(kind)))) + 1
			}
			m[idx] = v
			t.SetCluster(idx, v)
		}
		id := fmt.Sprintf("ct%d", i)
		if !c.Want(id) {
			continue
		}
		var b []byte
		if err := safely(func() error { b = t.Bytes(); return nil }); err != nil {
			c.Note("table Bytes() kind=%d size=%d: %v", kind, size, err)
			continue
		}
		c.Case(id, "fat.tbl", kv("kind", kind), kv("size", size), kv("fatid", fatID), "entries="+entriesStr(m))
		c.Impl(id, "bytes="+hx.Hex(b))
		// and back: FromBytes of (possibly perturbed) bytes
		if r.Chance(50) && len(b) > 8 {
			b = append([]byte(nil), b...)
			for j := 0; j < 3; j++ {
				b[8+r.Intn(len(b)-8)] = byte(r.Intn(256))
			}
		}
		id2 := fmt.Sprintf("cr%d", i)
		var back string
		if err := safely(func() error {
			var t2 fat12.FATTable
			if kind == 32 {
				t2 = fat32.VerifTableFromBytes(b)
			} else {
				t2 = newTable(kind, fatID, uint32(len(b)))
				t2.FromBytes(b)
			}
			back = tableNonzero(t2)
			return nil
		}); err == nil {
			c.Case(id2, "fat.tblread", kv("kind", kind), "hex="+hx.Hex(b))
			c.Impl(id2, "entries="+back)
		}
		c.Stat(fmt.Sprintf("corr.table.fat%d", kind))
	}
	for i := 0; i < c.N(80, 2000); i++ {
		id := fmt.Sprintf("cw%d", i)
		b := r.Bytes(3 * (1 + r.Intn(8)))
		maxI := uint32(len(b) * 2 / 3)
		idx := uint32(r.Intn(int(maxI) + 2))
		j := uint32(r.Intn(int(maxI) + 2))
		v := uint32(r.Intn(4096))
		out := fat12.VerifFat12WriteEntry(b, idx, v)
		c.Case(id, "fat.w12", "b="+hx.Hex(b), kv("i", idx), kv("v", v), kv("j", j))
		c.Impl(id, "bytes="+hx.Hex(out), kv("read", fat12.VerifFat12ReadEntry(out, j)))
		c.Stat("corr.fat12-entry")
	}
}

// ---- directory entries, names, dates
func (e *eng) corrDir(r *hx.Rng) {
	c := e.c
	names := append([]string{}, safeNames[:len(safeNames)-1]...)
	names = append(names, "foo+bar.txt", "a b.txt", ".hidden", "x.y.z", "UPPERCASE_LONG_NAME.TXT", "trailing~1.txt", "12345678.123", "123456789.1234", "a.b c", "noext.", "semi;colon")
	for i, nm := range names {
		id := fmt.Sprintf("cs%d", i)
		s, x, l, t := fat12.VerifSfn(nm)
		c.Case(id, "fat.sfn", "name="+runes(nm))
		c.Impl(id, "short="+runes(s), "ext="+runes(x), kv("lfn", b2i(l)), kv("trunc", b2i(t)))
		c.Stat("corr.sfn")
	}
	for i := 0; i < c.N(20, 300); i++ {
		id := fmt.Sprintf("cu%d", i)
		stem := []string{"LONGFI", "ABCDEF", "A~B~C~", "XXXXXX"}[r.Intn(4)]
		ext := []string{"TXT", "", "C"}[r.Intn(3)]
		var shorts, exts, ex []string
		for k := 1; k <= r.Intn(14); k++ {
			if r.Chance(85) {
				cand := fmt.Sprintf("~%d", k)
				s := stem
				if len(s) > 8-len(cand) {
					s = s[:8-len(cand)]
				}
				shorts, exts = append(shorts, s+cand), append(exts, ext)
				ex = append(ex, bytesAsNats(s+cand+ext))
			}
		}
		got := fat12.VerifUniqueShortName(stem, ext, shorts, exts)
		exs := "-"
		if len(ex) > 0 {
			exs = strings.Join(ex, ";")
		}
		c.Case(id, "fat.uniq", "stem="+bytesAsNats(stem), "ext="+bytesAsNats(ext), "existing="+exs)
		c.Impl(id, "short="+bytesAsNats(got))
		c.Stat("corr.uniq")
	}
	for i := 0; i < c.N(40, 600); i++ {
		id := fmt.Sprintf("cd%d", i)
		y, mo, d := 1980+r.Intn(128), 1+r.Intn(12), 1+r.Intn(28)
		h, mi, s := r.Intn(24), r.Intn(60), r.Intn(60)
		dw, tw := fat12.VerifPackDateTime(y, mo, d, h, mi, s)
		by, bmo, bd, bh, bmi, bs := fat12.VerifUnpackDateTime(dw, tw)
		c.Case(id, "fat.date", kv("y", y), kv("mo", mo), kv("d", d), kv("h", h), kv("mi", mi), kv("s", s))
		c.Impl(id, kv("date", dw), kv("time", tw), fmt.Sprintf("back=%d-%d-%dT%d:%d:%d", by, bmo, bd, bh, bmi, bs))
		c.Stat("corr.date")
	}
	// entries: serialise, and parse whole directories
	mk := func() (fat12.VerifEntry, string) {
		nm := hx.Pick(r, names)
		s, x, l, t := fat12.VerifSfn(nm)
		if t {
			s = s[:6] + fmt.Sprintf("~%d", 1+r.Intn(9))
		}
		long := ""
		if l || t {
			long = nm
		}
		if s == "" {
			s = "EMPTY"
		}
		attr := byte([]int{0, 0x20, 0x10, 0x01, 0x21, 0x06}[r.Intn(6)])
		y, mo, d := 1980+r.Intn(120), 1+r.Intn(12), 1+r.Intn(28)
		dw, tw := fat12.VerifPackDateTime(y, mo, d, r.Intn(24), r.Intn(60), r.Intn(60))
		v := fat12.VerifEntry{Short: s, Ext: x, Long: long, Attr: attr, CTime: tw, CDate: dw, ADate: dw, MTime: tw, MDate: dw,
			Cluster: uint32(r.Intn(1 << 28)), Size: uint32(r.U64())}
		args := []string{"short=" + bytesAsNats(v.Short), "ext=" + bytesAsNats(v.Ext), "long=" + runes(v.Long), kv("attr", v.Attr), kv("lcase", 0),
			kv("ctime", v.CTime), kv("cdate", v.CDate), kv("adate", v.ADate), kv("mtime", v.MTime), kv("mdate", v.MDate), kv("cluster", v.Cluster), kv("fsize", v.Size)}
		return v, strings.Join(args, "\t")
	}
	entStr := func(v fat12.VerifEntry) string {
		return fmt.Sprintf("%s/%s/%s/%d/%d/%d/%d/%d/%d/%d/%d/%d", bytesAsNats(v.Short), bytesAsNats(v.Ext), runes(v.Long), v.Attr, v.Lcase,
			v.CTime, v.CDate, v.ADate, v.MTime, v.MDate, v.Cluster, v.Size)
	}
	for i := 0; i < c.N(40, 800); i++ {
		id := fmt.Sprintf("ce%d", i)
		v, args := mk()
		b, err := fat12.VerifEntryBytes(v)
		if err != nil {
			continue
		}
		c.Case(id, "fat.dirent", strings.Split(args, "\t")...)
		c.Impl(id, "bytes="+hx.Hex(b))
		c.Stat("corr.dirent")
		// a directory of several entries, with a deleted slot and trailing zeros
		var dir []byte
		for k := 0; k < 1+r.Intn(5); k++ {
			w, _ := mk()
			if bb, err := fat12.VerifEntryBytes(w); err == nil {
				if r.Chance(15) {
					bb[0] = 0xE5
				}
				dir = append(dir, bb...)
			}
		}
		dir = append(dir, make([]byte, 32*r.Intn(3))...)
		es, err := fat12.VerifParseDir(dir)
		if err != nil {
			continue
		}
		id2 := fmt.Sprintf("cp%d", i)
		ss := make([]string, len(es))
		for k, x := range es {
			ss[k] = entStr(x)
		}
		out := "-"
		if len(ss) > 0 {
			out = strings.Join(ss, ";")
		}
		c.Case(id2, "fat.dirparse", "hex="+hx.Hex(dir))
		c.Impl(id2, kv("n", len(es)), "entries="+out)
		c.Stat("corr.dirparse")
	}
}

func b2i(b bool) int {
	if b {
		return 1
	}
	return 0
}

// ---- chain walk and allocateSpace on real tables
// allocBoundedByData probes which of the two allocator behaviours the tree has (finding
// fat-maxcluster-from-fat-size): asking for one cluster more than the data area holds succeeds
// as found and is refused once the scan stops at the end of the data area.
func allocBoundedByData() bool {
	v, err := mkVol(volCfg{Kind: 12, Size: 64 * kib})
	if err != nil {
		return false
	}
	rep := v.raw()
	if rep.Vol == nil {
		return false
	}
	var aerr error
	if e := safely(func() error {
		_, aerr = v.base.VerifAllocateSpace(uint64(rep.Vol.ClusterCount+1)*uint64(rep.Vol.BPC), 0)
		return nil
	}); e != nil {
		return false
	}
	return aerr != nil
}

func (e *eng) corrChains(r *hx.Rng) {
	c := e.c
	bounded := allocBoundedByData()
	if bounded {
		c.Stat("corr.alloc.bounded-by-data-area")
	}
	cfgs := []volCfg{{Kind: 12, Size: 64 * kib, Start: 0}, {Kind: 16, Size: 5 * mib, Start: 512}, {Kind: 32, Size: 256 * kib, Start: 0, BS: 512}}
	for i := 0; i < c.N(45, 900); i++ {
		func() {
			defer func() {
				if x := recover(); x != nil {
					c.Stat("corr.panic-in-library")
				}
			}()
			cfg := cfgs[i%3]
			v, err := mkVol(cfg)
			if err != nil {
				return
			}
			t := v.base.VerifTable()
			max := t.MaxCluster()
			span := uint32(60)
			if span > max-2 {
				span = max - 2
			}
			// build a few disjoint chains among clusters 3..span (2 is taken on every type), occasionally damaged
			perm := make([]uint32, 0, span)
			for x := uint32(3); x < 3+span && x < max; x++ {
				perm = append(perm, x)
			}
			for k := len(perm) - 1; k > 0; k-- {
				j := r.Intn(k + 1)
				perm[k], perm[j] = perm[j], perm[k]
			}
			var heads []uint32
			pos := 0
			for pos < len(perm) && len(heads) < 4 {
				ln := 1 + r.Intn(6)
				if pos+ln > len(perm) {
					break
				}
				ch := perm[pos : pos+ln]
				pos += ln + r.Intn(3)
				for k := 0; k < ln-1; k++ {
					t.SetCluster(ch[k], ch[k+1])
				}
				t.SetCluster(ch[ln-1], t.EOCMarker())
				heads = append(heads, ch[0])
			}
			if len(heads) == 0 {
				return
			}
			damaged := false
			if r.Chance(15) {
				// a link to a free cluster or out of range (never a cycle: the real walk would not return)
				h0 := heads[r.Intn(len(heads))]
				if r.Bool() {
					t.SetCluster(h0, max+5)
				} else {
					t.SetCluster(h0, 0)
				}
				damaged = true
			}
			entries := tableNonzero(t)
			first := heads[r.Intn(len(heads))]
			if r.Chance(10) {
				first = uint32(r.Intn(int(max) + 3))
				if t.ClusterValue(min32(first, max)) != 0 && !contains32(heads, first) {
					first = heads[0] // mid-chain starts are fine, unknown ones too; keep it simple
				}
			}
			id := fmt.Sprintf("cc%d", i)
			var wl []uint32
			var werr error
			if e := safely(func() error { wl, werr = v.base.VerifGetClusterList(first); return nil }); e == nil {
				res := "err"
				if werr == nil {
					res = "ok=" + u32s(wl)
				}
				c.Case(id, "fat.walk", kv("kind", cfg.Kind), kv("max", max), "entries="+entries, kv("first", first))
				c.Impl(id, res)
				c.Stat("corr.walk")
			}
			if damaged {
				return
			}
			// allocateSpace: new chain, grow, shrink, exact
			_, bpc, _, _, _, _ := v.base.VerifGeom()
			prev := uint32(0)
			if r.Chance(70) {
				prev = heads[r.Intn(len(heads))]
			}
			size := uint64(r.Intn(9 * bpc))
			if prev == 0 && size == 0 {
				size = 1
			}
			if r.Chance(5) {
				size = uint64(max) * uint64(bpc) * 2 // cannot fit
			}
			id2 := fmt.Sprintf("ca%d", i)
			var al []uint32
			var aerr error
			if e := safely(func() error { al, aerr = v.base.VerifAllocateSpace(size, prev); return nil }); e == nil {
				res := "err"
				if aerr == nil {
					res = "ok=" + u32s(al)
				}
				lim := max
				if bounded {
					if rep := v.raw(); rep.Vol != nil && uint32(rep.Vol.ClusterCount+2) < lim {
						lim = uint32(rep.Vol.ClusterCount + 2)
					}
				}
				c.Case(id2, "fat.alloc", kv("kind", cfg.Kind), kv("max", max), kv("lim", lim), kv("bpc", bpc), "entries="+entries, kv("size", size), kv("prev", prev))
				c.Impl(id2, res, "table="+tableNonzero(t))
				c.Stat("corr.alloc")
				c.Distinct(fmt.Sprintf("alloc|%d|%s|%d|%d", cfg.Kind, entries, size, prev))
			}
		}()
	}
}

// corrZeroWrite: File.Write through a real handle against the Lean mirror that takes NO shortcut for an
// empty buffer (Model/Fat/EmptyWrite.lean fileWriteRaw, driver op fat.zwrite): outcome (ok / panic),
// the size the handle reports, the chain, the whole FAT and the non-empty WriteAt calls inside the
// chain. Mostly zero-length writes - Write(nil) and Write([]byte{}) alternate - at every kind of
// offset, the trigger of fat-empty-write-not-noop INCLUDED (the mirror extends / panics exactly as
// the code does; `early` tells it once the code returns early), plus non-empty writes for contrast.
func (e *eng) corrZeroWrite(r *hx.Rng) {
	c := e.c
	bounded := allocBoundedByData()
	cfgs := []volCfg{{Kind: 12, Size: 64 * kib, Start: 0}, {Kind: 16, Size: 5 * mib, Start: 512}, {Kind: 32, Size: 256 * kib, Start: 0, BS: 512}, {Kind: 12, Size: 4 * mib, Start: 1024}}
	for i := 0; i < c.N(48, 900); i++ {
		id := fmt.Sprintf("cz%d", i)
		rr := r.Fork()
		if !c.Want(id) {
			continue
		}
		func() {
			defer func() {
				if x := recover(); x != nil {
					c.Stat("corr.panic-in-library")
				}
			}()
			cfg := cfgs[i%len(cfgs)]
			v, err := mkVol(cfg)
			if err != nil {
				return
			}
			dataStart, bpc, _, _, _, _ := v.base.VerifGeom()
			for k := 0; k < rr.Intn(3); k++ {
				if f, err := v.fs.OpenFile(fmt.Sprintf("pad%d", k), os.O_CREATE|os.O_RDWR); err == nil {
					f.Write(pattern(rr, 1+rr.Intn(2*bpc)))
					f.Close()
				}
			}
			f, err := v.fs.OpenFile("subject.bin", os.O_CREATE|os.O_RDWR)
			if err != nil {
				return
			}
			size := []int{0, 0, 1, bpc - 1, bpc, bpc + 1, 2 * bpc, 2*bpc + 5}[rr.Intn(8)]
			if size > 0 {
				if _, err := f.Write(pattern(rr, size)); err != nil {
					return
				}
			}
			if rr.Chance(40) { // something allocated behind the subject: growth is not contiguous
				if g, err := v.fs.OpenFile("behind", os.O_CREATE|os.O_RDWR); err == nil {
					g.Write(pattern(rr, 1+rr.Intn(bpc)))
					g.Close()
				}
			}
			var off int
			switch rr.Intn(8) {
			case 0:
				off = 0
			case 1:
				off = size
			case 2:
				off = rr.Intn(size + 1)
			case 3:
				off = (rr.Intn(size+1) / bpc) * bpc
			case 4:
				off = size + 1 + rr.Intn(2*bpc)
			case 5:
				off = (size/bpc + 1 + rr.Intn(2)) * bpc // a cluster boundary at or past EOF
			case 6:
				off = bpc
			default:
				off = rr.Intn(size + bpc + 1)
			}
			ln, seed := 0, 0
			if rr.Chance(15) {
				ln, seed = 1+rr.Intn(2*bpc), rr.Intn(251)
			}
			ff := f.(*fat12.File)
			chain, err := ff.GetClusterChain()
			if err != nil {
				return
			}
			t := v.base.VerifTable()
			max := t.MaxCluster()
			lim := max
			if bounded {
				if rep := v.raw(); rep.Vol != nil && uint32(rep.Vol.ClusterCount+2) < lim {
					lim = uint32(rep.Vol.ClusterCount + 2)
				}
			}
			entries := tableNonzero(t)
			if _, err := f.Seek(int64(off), io.SeekStart); err != nil {
				return
			}
			v.dev.ResetLog()
			buf := payload(seed, ln)
			if ln == 0 && i%2 == 0 {
				buf = nil
			}
			var werr error
			perr := safely(func() error { _, werr = f.Write(buf); return nil })
			trig := ln == 0 && zeroTrigger(int64(size), int64(off), bpc)
			early := !e.emptyAsFound
			c.Case(id, "fat.zwrite", kv("kind", cfg.Kind), kv("max", max), kv("lim", lim), kv("start", cfg.Start), kv("datastart", dataStart), kv("bpc", bpc),
				"entries="+entries, "chain="+u32s(chain), kv("size", size), kv("off", off), kv("len", ln), kv("seed", seed), kv("early", b2i(early)))
			switch {
			case perr != nil:
				c.Impl(id, "res=panic")
				c.Stat("corr.zwrite.panic")
			case werr != nil:
				c.Impl(id, "res=refused")
				c.Stat("corr.zwrite.refused")
			default:
				newChain, _ := ff.GetClusterChain()
				st, _ := ff.Stat()
				lo := cfg.Start + int64(dataStart)
				inChain := func(o int64) bool {
					for _, cl := range newChain {
						s := lo + int64(cl-2)*int64(bpc)
						if o >= s && o < s+int64(bpc) {
							return true
						}
					}
					return false
				}
				var ws []string
				for _, ev := range v.dev.Log {
					if !ev.Sync && ev.Len > 0 && inChain(ev.Off) {
						ws = append(ws, fmt.Sprintf("%d:%d", ev.Off, ev.Len))
					}
				}
				wss := "-"
				if len(ws) > 0 {
					wss = strings.Join(ws, ",")
				}
				c.Impl(id, "res=ok", kv("size", st.Size()), "chain="+u32s(newChain), "table="+tableNonzero(t), "ws="+wss, kv("trigger", b2i(trig)))
				c.Stat("corr.zwrite.ok")
			}
			if ln == 0 {
				c.Stat("corr.zwrite.zero-length")
				if trig {
					c.Stat("corr.zwrite.zero-length.on-trigger")
				}
			}
			c.Distinct(fmt.Sprintf("zwrite|%d|%d|%d|%d|%d", cfg.Kind, len(chain), size, off, ln))
			_ = safely(f.Close)
		}()
	}
}

// corrAllocBoundary sweeps allocateSpace's size boundaries on real tables against the Lean mirror
// (fat.alloc): for a chain of L clusters every size in {0, 1, k*bpc-1, k*bpc, k*bpc+1} for k up to
// L+2 - grow, exact, shrink, shrink to exactly one cluster (count = 1) and size 0 (count = 0: the
// code keeps the first cluster, what a zero-length Write on an empty file and nothing else asks for).
func (e *eng) corrAllocBoundary(r *hx.Rng) {
	c := e.c
	bounded := allocBoundedByData()
	cfgs := []volCfg{{Kind: 12, Size: 64 * kib, Start: 0}, {Kind: 16, Size: 5 * mib, Start: 512}, {Kind: 32, Size: 256 * kib, Start: 0, BS: 512}}
	lens := []int{1, 3}
	if c.Thorough() {
		lens = []int{1, 2, 3, 4, 7}
	}
	n := 0
	for ci, cfg := range cfgs {
		for _, L := range lens {
			var sizes []uint64
			probe, err := mkVol(cfg)
			if err != nil {
				continue
			}
			_, bpc, _, _, _, _ := probe.base.VerifGeom()
			sizes = append(sizes, 0, 1)
			for k := 1; k <= L+2; k++ {
				sizes = append(sizes, uint64(k*bpc-1), uint64(k*bpc), uint64(k*bpc+1))
			}
			for _, size := range sizes {
				id := fmt.Sprintf("cab%d-%d-%d", ci, L, size)
				n++
				if !c.Want(id) {
					continue
				}
				func() {
					defer func() {
						if x := recover(); x != nil {
							c.Stat("corr.panic-in-library")
						}
					}()
					v, err := mkVol(cfg)
					if err != nil {
						return
					}
					t := v.base.VerifTable()
					max := t.MaxCluster()
					// a scattered chain of L clusters among 3..40 and a second chain in between (its clusters are not free)
					perm := make([]uint32, 0, 38)
					for x := uint32(3); x < 41 && x < max; x++ {
						perm = append(perm, x)
					}
					for k := len(perm) - 1; k > 0; k-- {
						j := r.Intn(k + 1)
						perm[k], perm[j] = perm[j], perm[k]
					}
					ch, other := perm[:L], perm[L:L+2]
					for k := 0; k < L-1; k++ {
						t.SetCluster(ch[k], ch[k+1])
					}
					t.SetCluster(ch[L-1], t.EOCMarker())
					t.SetCluster(other[0], other[1])
					t.SetCluster(other[1], t.EOCMarker())
					entries := tableNonzero(t)
					var al []uint32
					var aerr error
					if e := safely(func() error { al, aerr = v.base.VerifAllocateSpace(size, ch[0]); return nil }); e != nil {
						c.Stat("corr.alloc-boundary.panic")
						return
					}
					res := "err"
					if aerr == nil {
						res = "ok=" + u32s(al)
					}
					lim := max
					if bounded {
						if rep := v.raw(); rep.Vol != nil && uint32(rep.Vol.ClusterCount+2) < lim {
							lim = uint32(rep.Vol.ClusterCount + 2)
						}
					}
					c.Case(id, "fat.alloc", kv("kind", cfg.Kind), kv("max", max), kv("lim", lim), kv("bpc", bpc), "entries="+entries, kv("size", size), kv("prev", ch[0]))
					c.Impl(id, res, "table="+tableNonzero(t))
					count := int((size + uint64(bpc) - 1) / uint64(bpc))
					switch {
					case count > L:
						c.Stat("corr.alloc-boundary.grow")
					case count == L:
						c.Stat("corr.alloc-boundary.exact")
					case count == 0:
						c.Stat("corr.alloc-boundary.shrink-count0")
					case count == 1:
						c.Stat("corr.alloc-boundary.shrink-count1")
					default:
						c.Stat("corr.alloc-boundary.shrink")
					}
					c.Distinct(fmt.Sprintf("allocb|%d|%d|%d", cfg.Kind, L, size))
				}()
			}
		}
	}
}

func min32(a, b uint32) uint32 {
	if a < b {
		return a
	}
	return b
}
func contains32(l []uint32, x uint32) bool {
	for _, v := range l {
		if v == x {
			return true
		}
	}
	return false
}

// ---- reads and writes through a real handle vs readH / writeH
// probeIO finds out which of the two behaviours of the read clamp (finding fat-read-past-eof) and of
// the gap zero-fill (finding fat-hole-stale-bytes) the tree has, so that the model is run with the
// matching switch positions.
func probeIO() (clamp, zeroHole bool) {
	v, err := mkVol(volCfg{Kind: 12, Size: 4 * mib}) // 1 KiB clusters
	if err != nil {
		return
	}
	_ = safely(func() error {
		f, err := v.fs.OpenFile("p.bin", os.O_CREATE|os.O_RDWR)
		if err != nil {
			return err
		}
		f.Write(payload(7, 700))
		f.Seek(600, io.SeekStart)
		n, _ := f.Read(make([]byte, 4096))
		clamp = n == 100
		// stale bytes in the cluster, then a write past EOF
		f2, err := v.fs.OpenFile("p.bin", os.O_RDWR|os.O_TRUNC)
		if err != nil {
			return err
		}
		f2.Seek(50, io.SeekStart)
		f2.Write([]byte{1})
		f2.Seek(0, io.SeekStart)
		b := make([]byte, 64)
		m, _ := f2.Read(b)
		zeroHole = m == 51 && b[0] == 0 && b[49] == 0
		return nil
	})
	return
}

func (e *eng) corrIO(r *hx.Rng) {
	c := e.c
	cfgs := e.vols(true)
	clampFixed, zeroHole := probeIO()
	if clampFixed {
		c.Stat("corr.read.clamp-present")
	}
	if zeroHole {
		c.Stat("corr.write.zero-fill-present")
	}
	for i := 0; i < c.N(40, 800); i++ {
		cfg := cfgs[i%len(cfgs)]
		func() {
			defer func() {
				if x := recover(); x != nil {
					c.Stat("corr.panic-in-library")
				}
			}()
			v, err := mkVol(cfg)
			if err != nil {
				return
			}
			v.dev.KeepData = false
			dataStart, bpc, _, _, _, _ := v.base.VerifGeom()
			// some fragmentation first
			for k := 0; k < r.Intn(4); k++ {
				if f, err := v.fs.OpenFile(fmt.Sprintf("pad%d", k), os.O_CREATE|os.O_RDWR); err == nil {
					f.Write(pattern(r, 1+r.Intn(2*bpc)))
					f.Close()
				}
			}
			f, err := v.fs.OpenFile("subject.bin", os.O_CREATE|os.O_RDWR)
			if err != nil {
				return
			}
			size := sizeClasses(r, v.bps(), bpc)
			if size > 0 {
				if _, err := f.Write(pattern(r, size)); err != nil {
					return
				}
			}
			ff := f.(*fat12.File)
			chain, err := ff.GetClusterChain()
			if err != nil {
				return
			}
			// ---- write correspondence: offset inside / at EOF (past EOF only when the hole is empty)
			off := r.Intn(size + 1)
			if zeroHole && r.Chance(30) {
				off = size + 1 + r.Intn(2*bpc) // past EOF: the gap is zero-filled through the same chain
			}
			ln := 1 + sizeClasses(r, v.bps(), bpc)
			if _, err := f.Seek(int64(off), io.SeekStart); err != nil {
				return
			}
			v.dev.ResetLog()
			if _, err := f.Write(pattern(r, ln)); err != nil {
				return
			}
			newChain, _ := ff.GetClusterChain()
			var ws []string
			lo := cfg.Start + int64(dataStart)
			inChain := func(o int64) bool {
				for _, cl := range newChain {
					s := lo + int64(cl-2)*int64(bpc)
					if o >= s && o < s+int64(bpc) {
						return true
					}
				}
				return false
			}
			for _, ev := range v.dev.Log {
				if !ev.Sync && ev.Len > 0 && inChain(ev.Off) {
					ws = append(ws, fmt.Sprintf("%d:%d", ev.Off, ev.Len))
				}
			}
			wss := "-"
			if len(ws) > 0 {
				wss = strings.Join(ws, ",")
			}
			id := fmt.Sprintf("cw-io%d", i)
			c.Case(id, "fat.write", kv("start", cfg.Start), kv("datastart", dataStart), kv("bpc", bpc), "chain="+u32s(newChain), kv("oldsize", size), kv("off", off), kv("len", ln), kv("zerohole", b2i(zeroHole)))
			c.Impl(id, "ws="+wss)
			c.Stat("corr.write")
			_ = chain
			// ---- read correspondence on a pattern-filled chain
			if size2 := max(size, off+ln); size2 > 0 {
				for _, cl := range newChain {
					s := lo + int64(cl-2)*int64(bpc)
					b := make([]byte, bpc)
					for k := range b {
						b[k] = byte(((s+int64(k))*7 + 3) % 251)
					}
					v.dev.RawWrite(b, s)
				}
				for k := 0; k < 3; k++ {
					ro := r.Intn(size2 + 2)
					rn := 1 + r.Intn(2*bpc+3)
					if r.Chance(30) {
						ro = (ro / bpc) * bpc
					}
					// the as-found read ignores the file's remaining size when it starts inside a cluster
					// (finding fat-read-past-eof, owner C10): such calls are not part of this correspondence
					if !clampFixed && ro < size2 && ro%bpc != 0 && min(bpc-ro%bpc, rn) > size2-ro {
						c.Stat("corr.read.skipped-clamp-trigger")
						continue
					}
					buf := make([]byte, rn)
					if _, err := f.Seek(int64(ro), io.SeekStart); err != nil {
						continue
					}
					var n int
					var rerr error
					if e := safely(func() error { n, rerr = f.Read(buf); return nil }); e != nil {
						continue
					}
					if n < 0 || n > rn {
						continue
					}
					pos, _ := f.Seek(0, io.SeekCurrent)
					id := fmt.Sprintf("cr-io%d-%d", i, k)
					c.Case(id, "fat.read", kv("start", cfg.Start), kv("datastart", dataStart), kv("bpc", bpc), "chain="+u32s(newChain), kv("size", size2), kv("off", ro), kv("n", rn), kv("clamp", b2i(clampFixed)))
					c.Impl(id, kv("n", n), kv("off", pos), kv("eof", b2i(rerr == io.EOF)), "data="+hex.EncodeToString(buf[:n]))
					c.Stat("corr.read")
					c.Distinct(fmt.Sprintf("read|%d|%d|%d|%d|%d", bpc, len(newChain), size2, ro, rn))
				}
			}
			f.Close()
		}()
	}
}

// ---- the raw checker's cluster-map verdict vs the Lean checker `invB` (sound_iff_inv)
func (e *eng) corrSound(r *hx.Rng) {
	c := e.c
	cfgs := []volCfg{{Kind: 12, Size: 64 * kib, Start: 0}, {Kind: 32, Size: 200 * kib, Start: 512, BS: 512}, {Kind: 16, Size: 5 * mib, Start: 0}}
	for i := 0; i < c.N(24, 400); i++ {
		func() {
			defer func() {
				if x := recover(); x != nil {
					c.Stat("corr.panic-in-library")
				}
			}()
			cfg := cfgs[i%3]
			v, err := mkVol(cfg)
			if err != nil {
				return
			}
			h := newHist(c, "none", fmt.Sprintf("cs-h%d", i), v)
			h.fullCompare = false
			st := &randState{}
			for j := 0; j < 6+r.Intn(10); j++ {
				o := e.randOp(r, h, st, 0)
				_ = safely(func() error { h.quietStep(o); return nil })
			}
			// sometimes damage the FAT directly (both copies) so that the unsound side is exercised too
			if r.Chance(40) {
				rep := v.raw()
				if len(rep.Owner) > 0 && rep.Vol.Kind != 12 {
					var cl []int
					for k := range rep.Owner {
						cl = append(cl, int(k))
					}
					sort.Ints(cl)
					victim := uint32(cl[r.Intn(len(cl))])
					w := int64(2)
					if rep.Vol.Kind == 32 {
						w = 4
					}
					val := []uint32{0, victim, uint32(cl[0]), uint32(rep.Vol.ClusterCount) + 7}[r.Intn(4)]
					b := make([]byte, w)
					for k := int64(0); k < w; k++ {
						b[k] = byte(val >> (8 * k))
					}
					v.dev.RawWrite(b, rep.Vol.FatOff[0]+int64(victim)*w)
					v.dev.RawWrite(b, rep.Vol.FatOff[1]+int64(victim)*w)
				}
			}
			rep := v.raw()
			if rep.Vol == nil || rep.Root == nil {
				return
			}
			lim := rep.Vol.ClusterCount + 2
			ents := map[uint32]uint32{}
			for k := int64(2); k < lim && k < int64(len(rep.Vol.Fat)); k++ {
				if x := rep.Vol.Fat[k]; x != 0 {
					ents[uint32(k)] = x
				}
			}
			var owners []string
			var walk func(n *rawNode)
			walk = func(n *rawNode) {
				for _, ch := range n.Children {
					if ch.First != 0 {
						owners = append(owners, u32s(followRaw(rep.Vol, ch.First)))
					}
					if ch.IsDir {
						walk(ch)
					}
				}
			}
			if rep.Vol.Kind == 32 {
				owners = append(owners, u32s(followRaw(rep.Vol, rep.Vol.RootCluster)))
			}
			walk(rep.Root)
			clusterMapOK := true
			for _, p := range rep.Problems {
				switch p.Code {
				case "chain-out-of-range", "chain-loop", "cross-link", "chain-not-terminated", "orphan-clusters":
					clusterMapOK = false
				}
			}
			id := fmt.Sprintf("cs%d", i)
			os := "-"
			if len(owners) > 0 {
				os = strings.Join(owners, ";")
			}
			c.Case(id, "fat.sound", kv("kind", cfg.Kind), kv("lim", lim), "entries="+entriesStr(ents), "owners="+os)
			c.Impl(id, kv("sound", b2i(clusterMapOK)))
			c.Stat(fmt.Sprintf("corr.sound.%v", clusterMapOK))
		}()
	}
}

// followRaw lists the clusters reached from first by following FAT links (bounded, stops at the
// first value that is not a cluster of the data area); this is the owner list handed to `invB`.
func followRaw(v *rawVol, first uint32) []uint32 {
	var out []uint32
	seen := map[uint32]bool{}
	c := first
	for len(out) < 100000 {
		out = append(out, c)
		if int64(c) < 2 || int64(c) >= int64(len(v.Fat)) || seen[c] {
			break
		}
		seen[c] = true
		n := v.Fat[c]
		if v.eoc(n) || n < 2 || int64(n) > v.ClusterCount+1 {
			break
		}
		c = n
	}
	return out
}

// quietStep executes an operation without emitting verdicts (set-up for correspondence cases).
func (h *hist) quietStep(o *op) {
	p := h.prop
	h.prop = "none"
	defer func() { h.prop = p }()
	h.step(o)
}

// ---- one-directory filesystem model (Model/Fat/FlatFs.lean) vs the real root directory of a
// FAT12/16 volume: same calls, same acceptance, same FAT, same chains, same bytes.
func (e *eng) corrFlat(r *hx.Rng) {
	c := e.c
	names := []string{"A.TXT", "b.txt", "Long name one.dat", "C", "readme.md"}
	cfgs := []volCfg{{Kind: 12, Size: 40 * kib, Start: 0}, {Kind: 12, Size: 1474560, Start: 512}, {Kind: 16, Size: 5 * mib, Start: 1 * mib}}
	for i := 0; i < c.N(30, 600); i++ {
		func() {
			defer func() {
				if x := recover(); x != nil {
					c.Stat("corr.panic-in-library")
				}
			}()
			cfg := cfgs[i%3]
			v, err := mkVol(cfg)
			if err != nil {
				return
			}
			rep := v.raw()
			if rep.Vol == nil || len(rep.Orphans) > 0 {
				return // (a tree that still marks cluster 2 used at Create has a different starting table)
			}
			t := v.base.VerifTable()
			max := t.MaxCluster()
			lim := max
			if allocBoundedByData() && uint32(rep.Vol.ClusterCount+2) < lim {
				lim = uint32(rep.Vol.ClusterCount + 2)
			}
			dataStart, bpc, _, _, _, _ := v.base.VerifGeom()
			var ops []string
			var acc []string
			sizes := map[string]int{}
			n := 4 + r.Intn(14)
			for j := 0; j < n; j++ {
				nm := hx.Pick(r, names)
				var tok string
				var err error
				switch k := r.Intn(10); {
				case k < 2:
					tok = "c:" + nm
					var f interface{ Close() error }
					f, err = v.fs.OpenFile(nm, os.O_CREATE|os.O_RDWR)
					if err == nil {
						f.Close()
					}
				case k < 6:
					if _, ok := sizes[nm]; !ok {
						continue
					}
					off := r.Intn(sizes[nm] + 1)
					if r.Chance(20) {
						off = sizes[nm] + 1 + r.Intn(bpc)
					}
					ln := 1 + r.Intn(3*bpc)
					if cfg.Size < 64*kib && r.Chance(10) {
						ln = int(cfg.Size) // cannot fit
					}
					seed := r.Intn(251)
					if r.Chance(18) {
						// a zero-length write (the model: nothing changes); off the trigger of fat-empty-write-not-noop while that is in the tree
						zoff := r.Intn(sizes[nm] + bpc + 1)
						if r.Chance(40) {
							zoff = 0
						}
						if !(e.emptyAsFound && zeroTrigger(int64(sizes[nm]), int64(zoff), bpc)) {
							off, ln, seed = zoff, 0, 0
							c.Stat("corr.flat.zero-length-write")
						}
					}
					tok = fmt.Sprintf("w:%s:%d:%d:%d", nm, off, ln, seed)
					f, e2 := v.fs.OpenFile(nm, os.O_RDWR)
					if e2 != nil {
						err = e2
						break
					}
					f.Seek(int64(off), io.SeekStart)
					_, err = f.Write(payload(seed, ln))
					f.Close()
				case k < 7:
					tok = "t:" + nm
					f, e2 := v.fs.OpenFile(nm, os.O_RDWR|os.O_TRUNC)
					if e2 != nil {
						err = e2
						break
					}
					f.Close()
				case k < 9:
					tok = "d:" + nm
					err = v.fs.Remove(nm)
				default:
					nm2 := hx.Pick(r, names)
					if sameName(nm, nm2) {
						continue
					}
					tok = "r:" + nm + ":" + nm2
					err = v.fs.Rename(nm, nm2)
				}
				ops = append(ops, tok)
				acc = append(acc, fmt.Sprint(b2i(err == nil)))
				// the listing is the source of truth for sizes
				sizes = map[string]int{}
				if des, e3 := v.fs.ReadDir("."); e3 == nil {
					for _, de := range des {
						if info, e4 := de.Info(); e4 == nil {
							sizes[de.Name()] = int(info.Size())
						}
					}
				}
			}
			if len(ops) == 0 {
				return
			}
			// the real state: FAT, and per file (in directory order) name / size / chain / bytes
			final := v.raw()
			var files []string
			if final.Root != nil {
				for _, ch := range final.Root.Children {
					files = append(files, fmt.Sprintf("%s/%d/%s/%s", ch.Name, ch.Size, u32s(ch.Chain), hex.EncodeToString(final.content(v.dev, ch))))
				}
			}
			fs := "-"
			if len(files) > 0 {
				fs = strings.Join(files, ";")
			}
			id := fmt.Sprintf("cf%d", i)
			c.Case(id, "fat.flat", kv("kind", cfg.Kind), kv("max", max), kv("lim", lim), kv("start", cfg.Start), kv("datastart", dataStart), kv("bpc", bpc), "entries=-", "ops="+strings.Join(ops, ","))
			c.Impl(id, "acc="+strings.Join(acc, ","), "table="+tableNonzero(t), "files="+fs)
			c.Stat("corr.flat")
			c.Distinct("flat|" + cfg.String() + "|" + strings.Join(ops, ","))
		}()
	}
}

// ---- geometry: the three Creates vs mkGeom12/16/32
func (e *eng) corrGeom(r *hx.Rng) {
	c := e.c
	type gs struct {
		kind     int
		size, bs int64
	}
	var cases []gs
	for _, s := range []int64{2047, 2048, 4096, 5120, 5632, 6144, 64 * kib, 512 * kib, 512*kib + 512, 1474560, 2 * mib, 2*mib + 512, 4*mib + 512, 8*mib - 512, 8 * mib, 16*mib + 512, 32*mib + 512, 64*mib + 512, 128 * mib, 128*mib + 512} {
		cases = append(cases, gs{12, s, 0})
	}
	for _, s := range []int64{4095, 4096, 2 * mib, 4 * mib, 5 * mib, 32 * mib, 32*mib + 512, 128*mib + 512, 256*mib + 512, 512*mib + 512, 1*gib + 512, 2 * gib, 2*gib + 512} {
		cases = append(cases, gs{16, s, 512})
	}
	for _, s := range []int64{16 * kib, 48 * kib, 64 * kib, 1 * mib, 260 * mib, 260*mib + 512, 8 * gib, 8*gib + 4096, 16*gib + 4096, 32*gib + 4096, 100 * gib, 256 * gib, 257 * gib, 300 * gib, 2 * 1024 * gib} {
		cases = append(cases, gs{32, s, 512}, gs{32, s, 4096}, gs{32, s, 0})
	}
	for i := 0; i < c.N(60, 2000); i++ {
		switch r.Intn(3) {
		case 0:
			cases = append(cases, gs{12, 2048 + r.Int63n(130*mib), 0})
		case 1:
			cases = append(cases, gs{16, 4096 + r.Int63n(2*gib+mib), 0})
		default:
			cases = append(cases, gs{32, 16*kib + r.Int63n(64*gib), []int64{0, 512, 4096}[r.Intn(3)]})
		}
	}
	// which sectors-per-FAT formula FAT32 Create has (finding fat32-fatsize-omits-reserved-entries):
	// a 161-sector volume gets 1 FAT sector as found and 2 once the reserved entries are counted
	fix32 := 0
	if v, err := mkVol(volCfg{Kind: 32, Size: 82432, BS: 512}); err == nil {
		if rep := v.raw(); rep.Vol != nil && rep.Vol.FatSectors >= 2 {
			fix32 = 1
		}
	}
	for i, g := range cases {
		id := fmt.Sprintf("cg%d", i)
		if !c.Want(id) {
			continue
		}
		if g.kind == 32 && g.size > 40*gib && !c.Thorough() && i%3 != 0 {
			continue
		}
		cfg := volCfg{Kind: g.kind, Size: g.size, BS: g.bs}
		v, err := mkVol(cfg)
		res := "err"
		if err == nil {
			bs := make([]byte, 512)
			v.dev.ReadAt(bs, 0)
			bps, spc := le16(bs[11:]), int(bs[13])
			reserved, rootEnt := le16(bs[14:]), le16(bs[17:])
			total := int64(le16(bs[19:]))
			if total == 0 {
				total = le32(bs[32:])
			}
			fatsec := int64(le16(bs[22:]))
			if fatsec == 0 {
				fatsec = le32(bs[36:])
			}
			rootSec := (int64(rootEnt)*32 + int64(bps) - 1) / int64(bps)
			ds := total - int64(reserved) - 2*fatsec - rootSec
			clusters := int64(0)
			if ds > 0 && spc > 0 {
				clusters = ds / int64(spc)
			}
			res = fmt.Sprintf("bps=%d\tspc=%d\treserved=%d\tfatsectors=%d\trootentries=%d\ttotal=%d\tclusters=%d\tdatastart=%d",
				bps, spc, reserved, fatsec, rootEnt, total, clusters, (int64(reserved)+2*fatsec+rootSec)*int64(bps))
		} else if strings.HasPrefix(err.Error(), "panic:") {
			continue
		}
		c.Case(id, "fat.geom", kv("kind", g.kind), kv("size", g.size), kv("bs", g.bs), kv("fix32", fix32))
		c.Impl(id, strings.Split(res, "\t")...)
		c.Stat(fmt.Sprintf("corr.geom.fat%d", g.kind))
		c.Distinct(fmt.Sprintf("geom|%d|%d|%d", g.kind, g.size, g.bs))
	}
}
