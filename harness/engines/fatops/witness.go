package fatops

// Dedicated replays of listed findings' witnesses (c.Known): each says whether the defect is
// still present exactly as recorded in known_findings.json.

import (
	"fmt"
	"io"
	"os"
)

func (e *eng) knownWitnesses() {
	c := e.c
	if c.Only != "" {
		return
	}
	// fat-remove-leaks-chain: create/remove cycles of a 100 KiB file on a 1.44 MB volume
	if v, err := mkVol(volCfg{Kind: 12, Size: 1474560}); err == nil {
		data := make([]byte, 100*1024)
		for i := range data {
			data[i] = byte(i%250 + 1)
		}
		cycles, failed := 0, ""
		_ = safely(func() error {
			for cycles = 0; cycles < 60; cycles++ {
				f, err := v.fs.OpenFile("big.bin", os.O_CREATE|os.O_RDWR)
				if err != nil {
					failed = err.Error()
					return nil
				}
				if _, err := f.Write(data); err != nil {
					failed = err.Error()
					return nil
				}
				f.Close()
				if err := v.fs.Remove("big.bin"); err != nil {
					failed = err.Error()
					return nil
				}
			}
			return nil
		})
		c.Known("fat-remove-leaks-chain", failed != "" && errClassStr(failed) == "enospc",
			fmt.Sprintf("100 KiB create/remove cycles on a 1.44 MB FAT12 volume: %d cycles completed, then %q", cycles, failed))
	}
	// fat-rename-enospc-truncates-dir: Rename first cuts the parent directory's chain to one cluster
	// and then re-grows it; on a full volume a rename to a longer name cannot re-grow, the call is
	// refused and every entry beyond the directory's first cluster is gone
	if v, err := mkVol(volCfg{Kind: 12, Size: 64 * kib}); err == nil {
		before, after, renErr := -1, -1, ""
		_ = safely(func() error {
			if err := v.fs.Mkdir("/sub"); err != nil {
				return err
			}
			for i := 0; i < 20; i++ {
				f, err := v.fs.OpenFile(fmt.Sprintf("/sub/F%02d.TXT", i), os.O_CREATE|os.O_RDWR)
				if err != nil {
					return err
				}
				f.Close()
			}
			for i := 0; i < 400; i++ {
				f, err := v.fs.OpenFile(fmt.Sprintf("/FILL%03d.BIN", i), os.O_CREATE|os.O_RDWR)
				if err != nil {
					break
				}
				_, err = f.Write(make([]byte, 512))
				f.Close()
				if err != nil {
					break
				}
			}
			if des, err := v.fs.ReadDir("sub"); err == nil {
				before = len(des)
			}
			long := "this is a really long file name that needs many directory slots to be stored on a fat volume, more than a whole cluster of them if we keep going like this for a while and then some more words.txt"
			if err := v.fs.Rename("/sub/F00.TXT", "/sub/"+long); err != nil {
				renErr = err.Error()
			}
			if des, err := v.fs.ReadDir("sub"); err == nil {
				after = len(des)
			}
			return nil
		})
		c.Known("fat-rename-enospc-truncates-dir", renErr != "" && before == 20 && after >= 0 && after < before,
			fmt.Sprintf("full 64 KiB FAT12 volume, /sub with 20 entries (2 clusters): Rename to a 190-character name: error %q, entries %d -> %d", renErr, before, after))
	}
	// fat-read-past-eof (owner C10): 700-byte file, seek 600, 4 KiB buffer
	if e.prop != "C08" {
		if v, err := mkVol(volCfg{Kind: 12, Size: 4 * mib}); err == nil { // 1 KiB clusters
			n := -1
			_ = safely(func() error {
				f, err := v.fs.OpenFile("r.bin", os.O_CREATE|os.O_RDWR)
				if err != nil {
					return err
				}
				f.Write(make([]byte, 700))
				f.Seek(600, io.SeekStart)
				n, _ = f.Read(make([]byte, 4096))
				return nil
			})
			c.Known("fat-read-past-eof", n > 100, fmt.Sprintf("700-byte file, Seek(600), Read into 4096 bytes returned %d bytes (100 remain)", n))
		}
	}
	// fat-empty-write-not-noop: an empty Write after a Seek past EOF extends the file; at EOF of a file of
	// exactly one cluster it panics (index out of range)
	if e.prop != "C08" {
		if v, err := mkVol(volCfg{Kind: 12, Size: 4 * mib}); err == nil { // 1 KiB clusters
			grown, panicked := int64(-1), ""
			_ = safely(func() error {
				f, err := v.fs.OpenFile("a.bin", os.O_CREATE|os.O_RDWR)
				if err != nil {
					return err
				}
				f.Seek(10, io.SeekStart)
				if _, err := f.Write(nil); err != nil {
					return err
				}
				f.Close()
				if des, err := v.fs.ReadDir("."); err == nil {
					for _, de := range des {
						if info, e2 := de.Info(); e2 == nil && de.Name() == "a.bin" {
							grown = info.Size()
						}
					}
				}
				return nil
			})
			if perr := safely(func() error {
				f, err := v.fs.OpenFile("b.bin", os.O_CREATE|os.O_RDWR)
				if err != nil {
					return err
				}
				if _, err := f.Write(make([]byte, v.prevBPC())); err != nil {
					return err
				}
				_, err = f.Write([]byte{})
				return err
			}); perr != nil && errClass(perr) == "panic" {
				panicked = perr.Error()
			}
			c.Known("fat-empty-write-not-noop", grown == 10 && panicked != "",
				fmt.Sprintf("FAT12 4 MiB: new file, Seek(10), Write(nil): listed size %d (want 0); file of exactly one cluster, Write([]byte{}) at EOF: %q", grown, panicked))
		}
	}
	e.writeToDirWitness()
	e.renameOverDirWitness()
	// fat32-geometry-narrow-integers: sectors-per-FAT is a uint16 and wraps above 256 GiB
	if e.prop != "C01" {
		if v, err := mkVol(volCfg{Kind: 32, Size: 300 * gib, BS: 512}); err == nil {
			r := v.raw()
			c.Known("fat32-geometry-narrow-integers", r.has("fat-too-small"), "FAT32 Create of 300 GiB: "+r.String())
		} else {
			c.Known("fat32-geometry-narrow-integers", false, "Create refused: "+err.Error())
		}
	}
}

func errClassStr(s string) string { return errClass(fmt.Errorf("%s", s)) }

// writeToDirWitness replays fat-write-to-directory (C01): OpenFile(dir, O_RDWR) hands out a writable
// handle for a directory and a Write through it lands in the directory's first cluster, over the
// entries stored there.
func (e *eng) writeToDirWitness() {
	if e.prop == "C08" {
		return
	}
	v, err := mkVol(volCfg{Kind: 12, Size: 64 * kib})
	if err != nil {
		return
	}
	openErr, writeErr, listed := "", "", false
	_ = safely(func() error {
		if err := v.fs.Mkdir("Q"); err != nil {
			return err
		}
		f, err := v.fs.OpenFile("Q/inside.txt", os.O_CREATE|os.O_RDWR)
		if err != nil {
			return err
		}
		f.Close()
		h, err := v.fs.OpenFile("Q", os.O_RDWR)
		if err != nil {
			openErr = err.Error()
		} else {
			if _, err := h.Write(payload(3, 200)); err != nil {
				writeErr = err.Error()
			}
			h.Close()
		}
		return nil
	})
	_ = safely(func() error {
		des, err := v.fs.ReadDir("Q")
		if err != nil {
			return err
		}
		for _, de := range des {
			if de.Name() == "inside.txt" {
				listed = true
			}
		}
		return nil
	})
	e.c.Known("fat-write-to-directory", openErr == "" && writeErr == "" && !listed,
		fmt.Sprintf("FAT12 64 KiB: Mkdir(Q), create Q/inside.txt, OpenFile(Q, O_RDWR): %q, Write(200 bytes): %q; ReadDir(Q) lists inside.txt: %v", openErr, writeErr, listed))
}

// renameOverDirWitness replays fat-rename-over-directory: Rename(file, existing directory) drops the
// directory's entry; what lay below it is unreachable (C01) and its clusters stay marked used (C08).
func (e *eng) renameOverDirWitness() {
	v, err := mkVol(volCfg{Kind: 32, Size: 200 * kib, BS: 512})
	if err != nil {
		return
	}
	renErr, dIsDir, innerErr := "not run", false, ""
	_ = safely(func() error {
		if err := v.fs.Mkdir("D/E"); err != nil {
			return err
		}
		for _, p := range []string{"D/E/inner.txt", "plain.txt"} {
			f, err := v.fs.OpenFile(p, os.O_CREATE|os.O_RDWR)
			if err != nil {
				return err
			}
			if _, err := f.Write(payload(5, 700)); err != nil {
				return err
			}
			f.Close()
		}
		renErr = ""
		if err := v.fs.Rename("plain.txt", "D"); err != nil {
			renErr = err.Error()
		}
		return nil
	})
	_ = safely(func() error {
		if des, err := v.fs.ReadDir("."); err == nil {
			for _, de := range des {
				if de.Name() == "D" && de.IsDir() {
					dIsDir = true
				}
			}
		}
		if _, err := v.fs.ReadDir("D/E"); err != nil {
			innerErr = err.Error()
		}
		return nil
	})
	orphans := len(v.raw().Orphans)
	msg := fmt.Sprintf("FAT32 200 KiB: Mkdir(D/E), create D/E/inner.txt and plain.txt, Rename(plain.txt, D): %q; D still a directory: %v; ReadDir(D/E): %q; lost clusters: %d", renErr, dIsDir, innerErr, orphans)
	tree := renErr == "" && !dIsDir && innerErr != ""
	switch e.prop {
	case "C01":
		e.c.Known("fat-rename-over-directory", tree, msg)
	case "C08":
		e.c.Known("fat-rename-over-directory", renErr == "" && orphans > 0, msg)
	default:
		e.c.Known("fat-rename-over-directory", renErr == "" && (tree || orphans > 0), msg)
	}
}
