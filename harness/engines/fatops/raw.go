package fatops

// Independent raw-bytes FAT checker and reader (C08 oracle; second reader for C01).
// It shares no code with the library: the boot sector is parsed by fixed offsets
// (Microsoft FAT specification), the FAT is decoded here, the directory tree is
// walked by raw 32-byte entries.

import (
	"encoding/binary"
	"fmt"
	"io"
	"sort"
	"strings"
	"unicode/utf16"
)

type rawProblem struct {
	Code string // short class name
	Msg  string
}

type rawNode struct {
	Name     string
	Short    string // 8.3 name as stored (NAME.EXT, upper case)
	IsDir    bool
	First    uint32
	Size     uint32
	Chain    []uint32
	Children []*rawNode
	Slots    int // directory slots used (LFN + 1)
}

type rawVol struct {
	Kind         int // 12, 16, 32
	BPS, SPC     int
	Reserved     int
	NFats        int
	RootEntries  int
	TotalSectors int64
	FatSectors   int64
	RootCluster  uint32
	FSInfo, Bk   int
	FatOff       [2]int64
	RootOff      int64
	RootBytes    int64
	DataOff      int64
	ClusterCount int64
	BPC          int
	Fat          []uint32 // every entry the FAT has room for
}

type rawReport struct {
	Vol        *rawVol
	Problems   []rawProblem
	Root       *rawNode
	Owner      map[uint32]string // cluster -> path of its owner
	Orphans    []uint32          // clusters marked used that nothing owns
	Used       int64             // clusters owned by the tree
	OutOfRange []uint32          // cluster numbers found in chains that lie outside the data area
	FreeFat    int64             // entries 2..count+1 that are zero
}

func (r *rawReport) add(code, format string, a ...any) {
	if len(r.Problems) < 40 {
		r.Problems = append(r.Problems, rawProblem{code, fmt.Sprintf(format, a...)})
	}
}

func (r *rawReport) has(code string) bool {
	for _, p := range r.Problems {
		if p.Code == code {
			return true
		}
	}
	return false
}

func (r *rawReport) codes() string {
	m := map[string]bool{}
	for _, p := range r.Problems {
		m[p.Code] = true
	}
	ks := make([]string, 0, len(m))
	for k := range m {
		ks = append(ks, k)
	}
	sort.Strings(ks)
	return strings.Join(ks, ",")
}

func (r *rawReport) String() string {
	var sb strings.Builder
	for i, p := range r.Problems {
		if i > 5 {
			fmt.Fprintf(&sb, "; … %d more", len(r.Problems)-i)
			break
		}
		if i > 0 {
			sb.WriteString("; ")
		}
		sb.WriteString(p.Code + ": " + p.Msg)
	}
	return sb.String()
}

func rd(d io.ReaderAt, off int64, n int) []byte {
	b := make([]byte, n)
	_, _ = d.ReadAt(b, off) // short reads leave zeros
	return b
}

func le16(b []byte) int   { return int(binary.LittleEndian.Uint16(b)) }
func le32(b []byte) int64 { return int64(binary.LittleEndian.Uint32(b)) }

func (v *rawVol) eoc(x uint32) bool {
	switch v.Kind {
	case 12:
		return x >= 0xFF8
	case 16:
		return x >= 0xFFF8
	}
	return x >= 0x0FFFFFF8
}
func (v *rawVol) bad(x uint32) bool {
	switch v.Kind {
	case 12:
		return x == 0xFF7
	case 16:
		return x == 0xFFF7
	}
	return x == 0x0FFFFFF7
}

func (v *rawVol) clusterOff(c uint32) int64 { return v.DataOff + int64(c-2)*int64(v.BPC) }

// rawCheck parses and checks the volume in [start, start+size) of d. wantKind is 12/16/32
// (what was created) and wantBPS the sector size asked for.
func rawCheck(d io.ReaderAt, start, size int64, wantKind, wantBPS int) *rawReport {
	r := &rawReport{Owner: map[uint32]string{}}
	bs := rd(d, start, 512)
	v := &rawVol{}
	r.Vol = v
	if bs[510] != 0x55 || bs[511] != 0xAA {
		r.add("boot-signature", "bytes 510/511 are %02x %02x", bs[510], bs[511])
		return r
	}
	v.BPS = le16(bs[11:])
	v.SPC = int(bs[13])
	v.Reserved = le16(bs[14:])
	v.NFats = int(bs[16])
	v.RootEntries = le16(bs[17:])
	ts16 := le16(bs[19:])
	media := bs[21]
	fs16 := le16(bs[22:])
	ts32 := le32(bs[32:])
	v.TotalSectors = int64(ts16)
	if ts16 == 0 {
		v.TotalSectors = ts32
	}
	okbps := v.BPS == 512 || v.BPS == 1024 || v.BPS == 2048 || v.BPS == 4096
	if !okbps {
		r.add("bpb-sector-size", "bytes per sector %d", v.BPS)
		return r
	}
	if wantBPS != 0 && v.BPS != wantBPS {
		r.add("bpb-sector-size", "bytes per sector %d, volume was created with %d", v.BPS, wantBPS)
	}
	if v.SPC == 0 || v.SPC&(v.SPC-1) != 0 {
		r.add("bpb-sectors-per-cluster", "sectors per cluster %d is not a power of two", v.SPC)
		return r
	}
	if v.BPS*v.SPC > 32768 {
		r.add("bpb-cluster-size", "cluster size %d > 32 KiB", v.BPS*v.SPC)
	}
	if v.Reserved == 0 {
		r.add("bpb-reserved", "reserved sector count 0")
		return r
	}
	if v.NFats != 2 {
		r.add("bpb-fat-count", "%d FATs", v.NFats)
		if v.NFats == 0 {
			return r
		}
	}
	v.FatSectors = int64(fs16)
	if fs16 == 0 {
		v.FatSectors = le32(bs[36:])
	}
	if v.FatSectors == 0 {
		r.add("bpb-fat-size", "FAT size 0")
		return r
	}
	v.BPC = v.BPS * v.SPC
	rootSectors := (int64(v.RootEntries)*32 + int64(v.BPS) - 1) / int64(v.BPS)
	dataSectors := v.TotalSectors - int64(v.Reserved) - int64(v.NFats)*v.FatSectors - rootSectors
	if dataSectors <= 0 {
		r.add("geometry", "no data area: total %d reserved %d fats %dx%d root %d", v.TotalSectors, v.Reserved, v.NFats, v.FatSectors, rootSectors)
		return r
	}
	v.ClusterCount = dataSectors / int64(v.SPC)
	// FAT32 is recognised by its BPB fields (no fixed root, 16-bit FAT size 0); FAT12 and FAT16
	// differ only in the cluster count, which therefore must lie on the right side of 4085.
	switch {
	case v.RootEntries == 0 && fs16 == 0:
		v.Kind = 32
		if v.ClusterCount >= 0x0FFFFFF5 {
			r.add("fat-type", "cluster count %d too large for FAT32", v.ClusterCount)
		}
	case v.ClusterCount < 4085:
		v.Kind = 12
	case v.ClusterCount < 65525:
		v.Kind = 16
	default:
		v.Kind = 16
		r.add("fat-type", "cluster count %d too large for FAT16", v.ClusterCount)
	}
	if v.Kind != wantKind {
		r.add("fat-type", "cluster count %d makes this FAT%d, created as FAT%d", v.ClusterCount, v.Kind, wantKind)
	}
	// geometry must match the range given
	if v.TotalSectors*int64(v.BPS) > size {
		r.add("geometry", "total sectors %d x %d = %d bytes exceed the range of %d bytes", v.TotalSectors, v.BPS, v.TotalSectors*int64(v.BPS), size)
	}
	if size-v.TotalSectors*int64(v.BPS) >= int64(v.BPS) {
		r.add("geometry", "total sectors %d x %d leave %d bytes of the %d-byte range unused", v.TotalSectors, v.BPS, size-v.TotalSectors*int64(v.BPS), size)
	}
	if media != 0xF0 && media < 0xF8 {
		r.add("bpb-media", "media byte %02x", media)
	}
	v.FatOff[0] = start + int64(v.Reserved)*int64(v.BPS)
	v.FatOff[1] = v.FatOff[0] + v.FatSectors*int64(v.BPS)
	v.RootOff = start + (int64(v.Reserved)+int64(v.NFats)*v.FatSectors)*int64(v.BPS)
	v.RootBytes = int64(v.RootEntries) * 32
	v.DataOff = v.RootOff + rootSectors*int64(v.BPS)
	// the FAT must have room for every cluster
	bits := int64(v.Kind)
	if v.FatSectors*int64(v.BPS)*8/bits < v.ClusterCount+2 {
		r.add("fat-too-small", "FAT of %d sectors holds %d entries, %d needed", v.FatSectors, v.FatSectors*int64(v.BPS)*8/bits, v.ClusterCount+2)
	}
	if v.Kind == 32 {
		if v.RootEntries != 0 || fs16 != 0 {
			r.add("bpb-fat32-fields", "root entries %d / 16-bit FAT size %d must be 0 on FAT32", v.RootEntries, fs16)
		}
		v.RootCluster = uint32(le32(bs[44:]))
		v.FSInfo = le16(bs[48:])
		v.Bk = le16(bs[50:])
		if le16(bs[42:]) != 0 {
			r.add("bpb-fat32-version", "version %d", le16(bs[42:]))
		}
		if int64(v.RootCluster) < 2 || int64(v.RootCluster) > v.ClusterCount+1 {
			r.add("bpb-root-cluster", "root cluster %d outside 2..%d", v.RootCluster, v.ClusterCount+1)
			return r
		}
		if v.Bk == 0 || v.Bk >= v.Reserved {
			r.add("backup-boot", "backup boot sector at %d (reserved %d)", v.Bk, v.Reserved)
		} else {
			bk := rd(d, start+int64(v.Bk)*int64(v.BPS), v.BPS)
			pri := rd(d, start, v.BPS)
			if string(bk) != string(pri) {
				r.add("backup-boot", "backup boot sector at sector %d differs from the boot sector", v.Bk)
			}
		}
		if v.FSInfo == 0 || v.FSInfo >= v.Reserved {
			r.add("fsinfo", "FSInfo sector at %d (reserved %d)", v.FSInfo, v.Reserved)
		} else {
			for _, sec := range []int{v.FSInfo, v.Bk + v.FSInfo} {
				if sec >= v.Reserved || (sec != v.FSInfo && v.Bk == 0) {
					continue
				}
				fi := rd(d, start+int64(sec)*int64(v.BPS), 512)
				if le32(fi[0:]) != 0x41615252 || le32(fi[484:]) != 0x61417272 || le32(fi[508:]) != 0xAA550000 {
					r.add("fsinfo", "FSInfo at sector %d: signatures %08x %08x %08x", sec, le32(fi[0:]), le32(fi[484:]), le32(fi[508:]))
					continue
				}
				free, next := le32(fi[488:]), le32(fi[492:])
				if free != 0xFFFFFFFF && free > v.ClusterCount {
					r.add("fsinfo", "FSInfo at sector %d: free count %d > %d clusters", sec, free, v.ClusterCount)
				}
				if next != 0xFFFFFFFF && (next < 2 || next > v.ClusterCount+1) {
					r.add("fsinfo", "FSInfo at sector %d: next-free hint %d outside 2..%d", sec, next, v.ClusterCount+1)
				}
			}
		}
	} else if v.RootEntries == 0 {
		r.add("bpb-root-entries", "root entry count 0 on FAT%d", v.Kind)
		return r
	}

	// ---- the two FAT copies
	fatBytes := v.FatSectors * int64(v.BPS)
	f0 := rd(d, v.FatOff[0], int(fatBytes))
	for c := 1; c < v.NFats && c < 2; c++ {
		f1 := rd(d, v.FatOff[c], int(fatBytes))
		if string(f0) != string(f1) {
			first := 0
			for first < len(f0) && f0[first] == f1[first] {
				first++
			}
			r.add("fat-copies-differ", "FAT copy %d differs from copy 0 at byte %d", c, first)
		}
	}
	nEnt := fatBytes * 8 / bits
	v.Fat = make([]uint32, nEnt)
	for i := int64(0); i < nEnt; i++ {
		switch v.Kind {
		case 12:
			o := i * 3 / 2
			if o+1 >= int64(len(f0)) {
				continue
			}
			w := uint32(f0[o]) | uint32(f0[o+1])<<8
			if i%2 == 0 {
				v.Fat[i] = w & 0xFFF
			} else {
				v.Fat[i] = w >> 4
			}
		case 16:
			v.Fat[i] = uint32(le16(f0[i*2:]))
		default:
			v.Fat[i] = uint32(le32(f0[i*4:])) & 0x0FFFFFFF
		}
	}
	if nEnt >= 2 {
		lowMask := uint32(0xFF)
		if v.Fat[0]&lowMask != uint32(media) {
			r.add("fat-entry0", "FAT[0] = %x does not carry the media byte %02x", v.Fat[0], media)
		}
		if !v.eoc(v.Fat[1]) {
			r.add("fat-entry1", "FAT[1] = %x is not an end-of-chain mark", v.Fat[1])
		}
	}

	// ---- directory tree
	r.Root = &rawNode{Name: "", IsDir: true}
	var rootBytes []byte
	if v.Kind == 32 {
		r.Root.First = v.RootCluster
		ch := r.chain(v.RootCluster, "/", 0, true)
		r.Root.Chain = ch
		rootBytes = r.readChain(d, ch)
	} else {
		rootBytes = rd(d, v.RootOff, int(v.RootBytes))
	}
	r.walkDir(d, r.Root, rootBytes, "", 0)

	// ---- lost clusters
	lim := v.ClusterCount + 2
	for c := int64(2); c < nEnt; c++ {
		x := v.Fat[c]
		if c < lim {
			if x == 0 {
				r.FreeFat++
				continue
			}
			if v.bad(x) {
				continue
			}
			if _, ok := r.Owner[uint32(c)]; !ok {
				r.Orphans = append(r.Orphans, uint32(c))
			}
		} else if x != 0 {
			r.add("fat-entry-beyond-data", "FAT[%d] = %x but the data area ends at cluster %d", c, x, lim-1)
			break
		}
	}
	if len(r.Orphans) > 0 {
		r.add("orphan-clusters", "%d cluster(s) marked used that no file or directory owns, first %v", len(r.Orphans), head32(r.Orphans, 6))
	}
	r.Used = int64(len(r.Owner))
	return r
}

func head32(x []uint32, n int) []uint32 {
	if len(x) > n {
		return x[:n]
	}
	return x
}

// chain follows the chain from first, registering ownership. needBytes = minimum bytes the chain must cover.
func (r *rawReport) chain(first uint32, owner string, needBytes int64, isDir bool) []uint32 {
	v := r.Vol
	var out []uint32
	seen := map[uint32]bool{}
	c := first
	broken := false
	for {
		if int64(c) < 2 || int64(c) > v.ClusterCount+1 {
			r.add("chain-out-of-range", "%s: cluster %d outside 2..%d (position %d of its chain)", owner, c, v.ClusterCount+1, len(out))
			r.OutOfRange = append(r.OutOfRange, c)
			broken = true
			break
		}
		if seen[c] {
			r.add("chain-loop", "%s: chain revisits cluster %d", owner, c)
			broken = true
			break
		}
		seen[c] = true
		if o, dup := r.Owner[c]; dup {
			r.add("cross-link", "cluster %d belongs to both %s and %s", c, o, owner)
			broken = true
			break
		}
		r.Owner[c] = owner
		out = append(out, c)
		if int64(c) >= int64(len(v.Fat)) {
			r.add("chain-out-of-range", "%s: cluster %d has no FAT entry", owner, c)
			break
		}
		n := v.Fat[c]
		if v.eoc(n) {
			break
		}
		if n == 0 || v.bad(n) || n == 1 {
			r.add("chain-not-terminated", "%s: cluster %d points to %x (free/reserved/bad) instead of an end-of-chain mark", owner, c, n)
			broken = true
			break
		}
		c = n
	}
	if !broken && int64(len(out))*int64(v.BPC) < needBytes {
		r.add("chain-too-short", "%s: size %d needs %d clusters, chain has %d", owner, needBytes, (needBytes+int64(v.BPC)-1)/int64(v.BPC), len(out))
	}
	return out
}

func (r *rawReport) readChain(d io.ReaderAt, ch []uint32) []byte {
	v := r.Vol
	out := make([]byte, 0, len(ch)*v.BPC)
	for _, c := range ch {
		out = append(out, rd(d, v.clusterOff(c), v.BPC)...)
	}
	return out
}

func lfnSum(name11 []byte) byte {
	var s byte
	for _, c := range name11 {
		s = (s>>1 | s<<7) + c
	}
	return s
}

func (r *rawReport) walkDir(d io.ReaderAt, dir *rawNode, b []byte, path string, depth int) {
	if depth > 24 {
		r.add("dir-depth", "%s: directory nesting deeper than 24", path)
		return
	}
	type lfnPart struct {
		seq   int
		units []uint16
		sum   byte
	}
	var parts []lfnPart
	for i := 0; i+32 <= len(b); i += 32 {
		e := b[i : i+32]
		if e[0] == 0 {
			break
		}
		if e[0] == 0xE5 {
			parts = nil
			continue
		}
		attr := e[11]
		if attr&0x3F == 0x0F {
			u := make([]uint16, 0, 13)
			for _, rg := range [][2]int{{1, 11}, {14, 26}, {28, 32}} {
				for j := rg[0]; j < rg[1]; j += 2 {
					u = append(u, binary.LittleEndian.Uint16(e[j:]))
				}
			}
			if e[0]&0x40 != 0 {
				parts = nil
			}
			parts = append(parts, lfnPart{int(e[0] & 0x3F), u, e[13]})
			continue
		}
		if attr&0x08 != 0 { // volume label
			parts = nil
			continue
		}
		base := strings.TrimRight(string(e[0:8]), " ")
		ext := strings.TrimRight(string(e[8:11]), " ")
		short := base
		if ext != "" {
			short += "." + ext
		}
		name := ""
		if len(parts) > 0 {
			ok := true
			sum := lfnSum(e[0:11])
			var units []uint16
			for k := len(parts) - 1; k >= 0; k-- { // stored last part first
				if parts[k].seq != len(parts)-k || parts[k].sum != sum {
					ok = false
				}
				units = append(units, parts[k].units...)
			}
			if ok {
				for k, u := range units {
					if u == 0 {
						units = units[:k]
						break
					}
				}
				name = string(utf16.Decode(units))
			} else {
				r.add("lfn-broken", "%s/%s: long-name slots do not belong to the entry (sequence/checksum)", path, short)
			}
		}
		slots := len(parts) + 1
		parts = nil
		if name == "" {
			nb, ne := base, ext
			if e[12]&0x08 != 0 {
				nb = strings.ToLower(nb)
			}
			if e[12]&0x10 != 0 {
				ne = strings.ToLower(ne)
			}
			name = nb
			if ne != "" {
				name += "." + ne
			}
		}
		first := uint32(le16(e[26:])) | uint32(le16(e[20:]))<<16
		size := uint32(le32(e[28:]))
		if base == "." || base == ".." {
			if attr&0x10 == 0 {
				r.add("dot-entry", "%s: %q is not a directory entry", path, base)
			}
			if base == "." && first != dir.First {
				r.add("dot-entry", "%s: '.' points to cluster %d, the directory starts at %d", path, first, dir.First)
			}
			continue
		}
		n := &rawNode{Name: name, Short: short, IsDir: attr&0x10 != 0, First: first, Size: size, Slots: slots}
		p := path + "/" + name
		dir.Children = append(dir.Children, n)
		if n.IsDir {
			if size != 0 {
				r.add("dir-size", "%s: directory entry has size %d", p, size)
			}
			if first == 0 {
				r.add("chain-out-of-range", "%s: directory without a first cluster", p)
				continue
			}
			n.Chain = r.chain(first, p, 1, true)
			if len(n.Chain) > 0 && len(r.Problems) < 40 {
				r.walkDir(d, n, r.readChain(d, n.Chain), p, depth+1)
			}
		} else {
			if first == 0 {
				if size != 0 {
					r.add("chain-too-short", "%s: size %d but no first cluster", p, size)
				}
				continue
			}
			n.Chain = r.chain(first, p, int64(size), false)
		}
	}
}

// content returns the file's bytes as the raw reader sees them.
func (r *rawReport) content(d io.ReaderAt, n *rawNode) []byte {
	b := r.readChain(d, n.Chain)
	if int(n.Size) <= len(b) {
		return b[:n.Size]
	}
	return b
}
