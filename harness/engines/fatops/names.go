package fatops

// Name-domain probes (C01): every legal long/short/case-varied name must be creatable,
// listed with its spelling, readable, and distinct names must stay distinct files.

import (
	"fmt"
	"strings"
	"unicode/utf8"
)

// sfnBasis is this engine's own 8.3 basis-name computation (Microsoft FAT specification:
// upper-case, strip spaces and all but the last dot, replace characters that are illegal in
// short names with '_'), used only to decide whether two names alias in their short form.
func sfnBasis(name string) (base, ext string) {
	conv := func(s string) string {
		var sb strings.Builder
		for _, r := range s {
			switch {
			case r >= 'a' && r <= 'z':
				sb.WriteRune(r - 32)
			case r == ' ' || r == '.':
			case r > 127 || strings.ContainsRune("+,;=[]", r):
				sb.WriteByte('_')
			default:
				sb.WriteRune(r)
			}
		}
		return sb.String()
	}
	i := strings.LastIndex(name, ".")
	if i >= 0 {
		ext = conv(name[i+1:])
		if len(ext) > 3 {
			ext = ext[:3]
		}
		name = name[:i]
	}
	return conv(name), ext
}

func isASCII(s string) bool {
	for _, r := range s {
		if r > 127 {
			return false
		}
	}
	return true
}

// nameClass names the trigger predicate a name (or pair) falls under, "" for the plain domain.
func nameClass(name string) string {
	if !isASCII(name) {
		return "fat-nonascii-name"
	}
	if b, _ := sfnBasis(name); b == "" {
		return "fat-empty-sfn-base"
	}
	return ""
}

func (e *eng) nameDomain() {
	c := e.c
	r := c.Rng.Fork()
	singles := []string{
		"A", "a", "Z.Z", "12345678.123", "abcdefgh.ijk", "ABCDEFGHI", "abcdefghi.txt", "a.b.c.d", "with space.txt",
		"trailing.dot.in.middle.x", "UPPER lower.MiX", "$%'-_@~`!(){}^#&.ok", "semi;colon.txt", "plus+sign.txt", "comma,name.txt",
		"[brackets].txt", "equal=sign", strings.Repeat("L", 255), strings.Repeat("x", 13), strings.Repeat("y", 14), strings.Repeat("z", 26) + ".e",
		"thirteen chars", "name.toolongext", ".hidden", ".gitignore", "...dots", "café.txt", "naïve", "Łódź.txt",
		"日本語.txt", "日本語の名前", "файл.doc", "emoji-free ✓.txt",
	}
	for i := 0; i < c.N(20, 300); i++ {
		n := 1 + r.Intn(40)
		var sb strings.Builder
		for j := 0; j < n; j++ {
			sb.WriteByte("abcXYZ019 ._-()"[r.Intn(15)])
		}
		s := strings.TrimRight(strings.TrimLeft(sb.String(), " "), " .")
		if s == "" || s == "." || s == ".." {
			continue
		}
		singles = append(singles, s)
	}
	cfgs := e.vols(true)
	for i, name := range singles {
		id := fmt.Sprintf("n%d", i)
		if !c.Want(id) {
			continue
		}
		cfg := cfgs[i%3]
		v, err := mkVol(cfg)
		if err != nil {
			c.Fail(id, "-", "Create failed: "+err.Error(), cfg.String())
			continue
		}
		h := newHist(c, "C01", id, v)
		cls := nameClass(name)
		ok := true
		for _, o := range []*op{
			{Kind: "mkdir", Path: "dir"},
			{Kind: "write", Path: "dir/" + name, Data: pattern(r, 1+r.Intn(600)), Create: true},
			{Kind: "mkdir", Path: name},
			{Kind: "write", Path: name + "/inner.txt", Data: pattern(r, 20), Create: true},
			{Kind: "rename", Path: "dir/" + name, Path2: "dir/renamed"},
			{Kind: "rename", Path: "dir/renamed", Path2: "dir/" + name},
			{Kind: "remove", Path: "dir/" + name},
		} {
			if !e.stepTagged(h, o, cls) {
				ok = false
				break
			}
		}
		_ = ok
		c.Stat("names.single")
		if cls != "" {
			c.Stat("names." + cls)
		}
		c.Distinct(fmt.Sprintf("name|%d|%q", utf8.RuneCountInString(name), name))
	}
	// a name equal to the name of the directory it lives in
	for i, cfg := range cfgs[:3] {
		id := fmt.Sprintf("ns%d", i)
		if !c.Want(id) {
			continue
		}
		v, err := mkVol(cfg)
		if err != nil {
			continue
		}
		h := newHist(c, "C01", id, v)
		for _, o := range []*op{
			{Kind: "mkdir", Path: "same"},
			{Kind: "write", Path: "same/other.txt", Data: pattern(r, 50), Create: true},
			{Kind: "write", Path: "same/same", Data: pattern(r, 100), Create: true},
			{Kind: "remove", Path: "same/same"},
			{Kind: "mkdir", Path: "same/same"},
			{Kind: "remove", Path: "same/same"},
		} {
			if !e.stepTagged(h, o, "fat-name-equals-parent") {
				break
			}
		}
		c.Stat("names.equals-parent")
	}
	// pairs of distinct names whose 8.3 forms collide, or where one name is the other's 8.3 form
	pairs := [][2]string{
		{"foo+bar.txt", "foo,bar.txt"}, {"a b.txt", "ab.txt"}, {"foo bar", "FOOBAR"}, {"x;y.dat", "x=y.dat"},
		{"report[1].doc", "report_1_.doc"}, {"name.one.txt", "nameone.txt"}, {"café", "caf_"},
	}
	// and pairs that must simply coexist
	pairs = append(pairs, [2]string{"longfilename-a.txt", "longfilename-b.txt"}, [2]string{"alpha.txt", "alpha.tx"}, [2]string{"Q1", "Q2"})
	for i, p := range pairs {
		id := fmt.Sprintf("np%d", i)
		if !c.Want(id) {
			continue
		}
		v, err := mkVol(cfgs[i%3])
		if err != nil {
			continue
		}
		h := newHist(c, "C01", id, v)
		cls := ""
		b0, e0 := sfnBasis(p[0])
		b1, e1 := sfnBasis(p[1])
		if (b0 == b1 && e0 == e1) && len(b0) <= 8 {
			cls = "fat-sfn-alias"
		}
		if !isASCII(p[0]) || !isASCII(p[1]) {
			cls = "fat-sfn-alias"
		}
		for _, o := range []*op{
			{Kind: "write", Path: p[0], Data: pattern(r, 100), Create: true},
			{Kind: "write", Path: p[1], Data: pattern(r, 200), Create: true},
			{Kind: "append", Path: p[0], Data: pattern(r, 10)},
			{Kind: "remove", Path: p[1]},
			{Kind: "check"},
		} {
			if !e.stepTagged(h, o, cls) {
				break
			}
		}
		c.Stat("names.pair")
	}
}

// stepTagged runs a step; a tree failure of a history whose name falls in a listed class is
// re-emitted under that class's tag.
func (e *eng) stepTagged(h *hist, o *op, cls string) bool {
	h.forceTag = cls
	return h.step(o)
}
