package parsers

import (
	"encoding/binary"
	"fmt"

	"github.com/diskfs/go-diskfs/filesystem/ext4"

	"verif/harness/internal/hx"
)

func direntStr(e ext4.V18DirEntry) string {
	return fmt.Sprintf("%d/%d/%s", e.Inode, e.FileType, hexs(e.Name))
}

// a well-formed linear directory block of n bytes (n multiple of 4, >= 12)
func goodDirBlock(r *hx.Rng, n int) []byte {
	b := make([]byte, n)
	i := 0
	for i < n {
		nl := r.Intn(20)
		if r.Chance(5) {
			nl = 255
		}
		rec := (8 + nl + 3) &^ 3
		if rec < 12 {
			rec = 12
		}
		if i+rec > n || n-(i+rec) < 12 || r.Chance(15) {
			rec = n - i // last entry covers the rest
			if 8+nl > rec {
				nl = rec - 8
			}
		}
		binary.LittleEndian.PutUint32(b[i:], uint32(r.Intn(1<<20)))
		binary.LittleEndian.PutUint16(b[i+4:], uint16(rec))
		b[i+6] = byte(nl)
		b[i+7] = byte(r.Intn(9))
		copy(b[i+8:i+8+nl], r.Bytes(nl))
		i += rec
	}
	return b
}

func runExt4(c *hx.Ctx) {
	r := c.Rng
	// ---- parseDirEntriesLinear -------------------------------------------------------------
	lens := []int{0, 1, 4, 11, 12, 13, 16, 23, 24, 36, 60, 64, 128, 263, 264, 276, 512, 1024}
	n := c.N(900, 40000)
	for k := 0; k < n; k++ {
		id := fmt.Sprintf("xd%d", k)
		ln := hx.Pick(r, lens)
		if c.Thorough() && r.Chance(3) {
			ln = 4096
		}
		var b []byte
		switch r.Intn(7) {
		case 6:
			// unused entries (inode 0): deleted entries and the padding entry of an empty block are legal
			// (every mke2fs image has them); their rec_len must be validated like any other, so it gets
			// the boundary values too: 0, 4, 8, 11, 12, the exact tail, past the end of the block
			m := ln &^ 3
			if m < 12 {
				m = 12
			}
			if r.Chance(25) { // the empty block: one unused entry that covers it
				b = make([]byte, m)
				binary.LittleEndian.PutUint16(b[4:], uint16(m))
			} else {
				b = goodDirBlock(r, m)
			}
			starts := []int{}
			for i := 0; i+12 <= len(b); {
				starts = append(starts, i)
				rl := int(binary.LittleEndian.Uint16(b[i+4:]))
				if rl < 12 {
					break
				}
				i += rl
			}
			for q := 1 + r.Intn(2); q > 0; q-- {
				s := hx.Pick(r, starts)
				binary.LittleEndian.PutUint32(b[s:], 0)
				if r.Chance(30) {
					b[s+6] = 0 // no name either
				}
				rest := len(b) - s
				if r.Chance(70) {
					v := hx.Pick(r, []int{0, 0, 4, 8, 11, 12, rest - 4, rest, rest + 1, rest + 4, rest + 12, 0xFFFF})
					if v < 0 {
						v = 0
					}
					binary.LittleEndian.PutUint16(b[s+4:], uint16(v))
				}
			}
			c.Stat("ext4dir.family=unused-entries")
		case 0: // random bytes
			b = r.Bytes(ln)
		case 1: // random bytes with small rec_len values
			b = r.Bytes(ln)
			for i := 4; i+1 < len(b); i += 4 {
				if r.Bool() {
					binary.LittleEndian.PutUint16(b[i:], uint16(r.Intn(40)))
				}
			}
		default: // valid block, then 0..2 field corruptions
			m := ln &^ 3
			if m < 12 {
				m = 12
			}
			b = goodDirBlock(r, m)
			for q := r.Intn(3); q > 0; q-- {
				// find an entry start by walking
				starts := []int{}
				for i := 0; i+12 <= len(b); {
					starts = append(starts, i)
					rl := int(binary.LittleEndian.Uint16(b[i+4:]))
					if rl < 12 {
						break
					}
					i += rl
				}
				s := hx.Pick(r, starts)
				rest := len(b) - s
				switch r.Intn(3) {
				case 0:
					v := hx.Pick(r, []int{0, 1, 8, 11, 12, 13, rest - 1, rest, rest + 1, rest + 12, 263, 264, 0x7FFF, 0x8000, 0xFFFF, r.Intn(0x10000)})
					binary.LittleEndian.PutUint16(b[s+4:], uint16(v))
				case 1:
					rl := int(binary.LittleEndian.Uint16(b[s+4:]))
					b[s+6] = byte(hx.Pick(r, []int{0, 1, rl - 9, rl - 8, rl - 7, 254, 255, r.Intn(256)}))
				default:
					b[s+r.Intn(12)] = byte(r.Intn(256))
				}
			}
			if r.Chance(20) && len(b) > 0 {
				b = b[:r.Intn(len(b)+1)] // truncated directory data
			}
		}
		// the callee sees b[:nn]; capacity = len(b)
		nn := len(b)
		if r.Chance(25) && nn > 0 {
			nn = r.Intn(nn + 1)
		}
		if !c.Want(id) {
			continue
		}
		buf := append(make([]byte, 0, len(b)), b...)
		o := guard(func() (string, error) {
			es, err := ext4.V18ParseDirEntriesLinear(buf, nn)
			if err != nil {
				return "", err
			}
			s := make([]string, len(es))
			for i, e := range es {
				s[i] = direntStr(e)
			}
			return joinOr(";", s), nil
		})
		c.Case(id, "parsers.ext4dir", "chk=1", "b="+hexs(b), fmt.Sprintf("n=%d", nn))
		c.Impl(id, o.impl())
		desc := fmt.Sprintf("parseDirEntriesLinear n=%d b=%s", nn, hexs(b))
		verdict(c, id, "ext4dir", o, desc)
		if k < 3 {
			c.Sample(desc + " -> " + o.impl())
		}
	}
	// ---- directoryEntryFromBytes (standalone: cap may exceed len) -------------------------
	n = c.N(500, 20000)
	for k := 0; k < n; k++ {
		id := fmt.Sprintf("xe%d", k)
		ln := hx.Pick(r, []int{0, 8, 11, 12, 13, 20, 40, 262, 263, 264, 270, 300, 520})
		b := r.Bytes(ln)
		nn := ln
		if r.Bool() && ln > 0 {
			nn = hx.Pick(r, []int{0, 11, 12, 13, 16, 263, 264, ln - 1, ln, r.Intn(ln + 1)})
			if nn > ln || nn < 0 {
				nn = ln
			}
		}
		if ln > 6 {
			b[6] = byte(hx.Pick(r, []int{0, 1, 4, nn - 9, nn - 8, nn - 7, ln - 8, ln - 7, 254, 255, r.Intn(256)}))
		}
		if !c.Want(id) {
			continue
		}
		buf := append(make([]byte, 0, len(b)), b...)
		o := guard(func() (string, error) {
			e, err := ext4.V18DirectoryEntryFromBytes(buf, nn)
			if err != nil {
				return "", err
			}
			return direntStr(*e), nil
		})
		c.Case(id, "parsers.ext4dirent", "b="+hexs(b), fmt.Sprintf("n=%d", nn))
		c.Impl(id, o.impl())
		c.Stat("ext4dirent=" + o.class)
		// the caller (parseDirEntriesLinear) guarantees 8+b[6] <= len: a panic is a violation only then
		pre := nn >= 12 && 8+int(b[6]) <= nn
		if o.class == "panic" && pre {
			c.Fail(id, "-", "directoryEntryFromBytes panics although the name fits the entry: "+o.msg, hexs(b))
		} else {
			c.OK(id)
		}
		c.Distinct("ext4dirent|" + hexs(b) + fmt.Sprint(nn))
	}
	// ---- parseExtents ------------------------------------------------------------------------
	n = c.N(900, 40000)
	for k := 0; k < n; k++ {
		id := fmt.Sprintf("xx%d", k)
		ln := hx.Pick(r, []int{0, 2, 11, 12, 23, 24, 25, 35, 36, 48, 59, 60, 61, 72, 120, 1024})
		if c.Thorough() && r.Chance(3) {
			ln = 4096
		}
		b := r.Bytes(ln)
		nn := ln
		if r.Chance(25) && ln > 0 {
			nn = hx.Pick(r, []int{23, 24, 36, 60, ln - 1, r.Intn(ln + 1)})
			if nn > ln || nn < 0 {
				nn = ln
			}
		}
		if ln >= 8 && !r.Chance(7) {
			binary.LittleEndian.PutUint16(b[0:], 0xf30a)
			fit := (nn - 12) / 12
			if fit < 0 {
				fit = 0
			}
			capfit := (ln - 12) / 12
			ents := hx.Pick(r, []int{0, 1, 2, 3, 4, 5, fit - 1, fit, fit + 1, capfit, capfit + 1, 340, 341, 0x7FFF, 0xFFFF, r.Intn(0x10000)})
			if ents < 0 {
				ents = 0
			}
			binary.LittleEndian.PutUint16(b[2:], uint16(ents))
			binary.LittleEndian.PutUint16(b[4:], uint16(hx.Pick(r, []int{4, 340, ents, r.Intn(0x10000)})))
			binary.LittleEndian.PutUint16(b[6:], uint16(hx.Pick(r, []int{0, 0, 0, 1, 1, 2, 5, 6, 0xFFFF})))
			// sorted-ish file blocks so that the count arithmetic is exercised with and without wrap
			if r.Bool() {
				fb := uint32(r.Intn(1000))
				for i := 12; i+4 <= ln; i += 12 {
					binary.LittleEndian.PutUint32(b[i:], fb)
					fb += uint32(r.Intn(5000))
				}
			}
		}
		start := uint32(hx.Pick(r, []uint64{0, 1, 1000, 0x7FFFFFFF, 0xFFFFFFFF, r.U64() & 0xFFFFFFFF}))
		count := uint32(hx.Pick(r, []uint64{0, 1, 12, 100000, 0xFFFFFFFF, r.U64() & 0xFFFFFFFF}))
		if !c.Want(id) {
			continue
		}
		buf := append(make([]byte, 0, len(b)), b...)
		o := guard(func() (string, error) {
			nd, err := ext4.V18ParseExtents(buf, nn, 1024, start, count)
			if err != nil {
				return "", err
			}
			kind := "int"
			if nd.Leaf {
				kind = "leaf"
			}
			rows := make([]string, len(nd.FileBlock))
			for i := range nd.FileBlock {
				rows[i] = fmt.Sprintf("%d/%d/%d", nd.FileBlock[i], nd.Count[i], nd.Disk[i])
			}
			return fmt.Sprintf("%s,%d,%d,%d;%s", kind, nd.Depth, nd.Entries, nd.Max, joinOr(";", rows)), nil
		})
		c.Case(id, "parsers.ext4extents", "chk=1", "b="+hexs(b), fmt.Sprintf("n=%d", nn), fmt.Sprintf("start=%d", start), fmt.Sprintf("count=%d", count))
		c.Impl(id, o.impl())
		desc := fmt.Sprintf("parseExtents n=%d start=%d count=%d b=%s", nn, start, count, hexs(b))
		verdict(c, id, "ext4extents", o, desc)
		if k < 2 {
			c.Sample(desc + " -> " + o.impl())
		}
	}
}
