package parsers

import (
	"github.com/diskfs/go-diskfs/filesystem/iso9660"

	"verif/harness/internal/hx"
)

// probe replays the witnesses of the defects found with this model and returns the switches the Lean
// mirror must run with so that the correspondence is exact before and after their repair.
func probe(c *hx.Ctx) cfg {
	g := cfg{er: true, jol: true, wrap: true}
	// iso-susp-er-short: an "ER" system use entry of 4 bytes, version 1
	o := guard(func() (string, error) {
		_, err := iso9660.V18ParseSusp([]byte{'E', 'R', 4, 1}, 4)
		return "", err
	})
	if o.class == "panic" {
		g.er = false
	}
	c.Known("iso-susp-er-short", o.class == "panic", "ER entry of 4 bytes: "+o.class+" "+o.msg)
	// iso-joliet-dirrecord-oob: a Joliet directory of 40 bytes whose first record says 60
	o = guard(func() (string, error) {
		b := make([]byte, 40)
		b[0] = 60
		_, err := iso9660.V18ParseDirEntries(b, 40, 2048, true)
		return "", err
	})
	if o.class == "panic" {
		g.jol = false
	}
	c.Known("iso-joliet-dirrecord-oob", o.class == "panic", "Joliet record of 60 bytes in a 40 byte directory: "+o.class+" "+o.msg)
	// fat32-fatsize-wrap
	o, err := fat32Witness()
	if err != nil {
		c.Fail("setup-fat32-witness", "-", "fat32.Create: "+err.Error(), "")
	} else {
		if o.class == "panic" {
			g.wrap = false
		}
		c.Known("fat32-fatsize-wrap", o.class == "panic", "16 GiB volume, sectors per FAT 2^23: "+o.class+" "+o.msg)
	}
	// iso-joliet-nonbmp-name (C06's finding; here only the switch of the mirror): does the Joliet name
	// decoder join a surrogate pair? A Joliet record named D83D DE00 is U+1F600 under UTF-16
	o = guard(func() (string, error) {
		b := make([]byte, 38)
		b[0], b[32] = 38, 4
		copy(b[33:], []byte{0xd8, 0x3d, 0xde, 0x00})
		des, err := iso9660.V18ParseDirEntries(b, 38, 2048, true)
		if err == nil && len(des) == 1 && des[0].Name == "\U0001F600" {
			g.u16 = true
		}
		return "", err
	})
	c.Stat("cfg.u16=" + b01(g.u16))
	c.Stat("cfg.er=" + b01(g.er))
	c.Stat("cfg.jol=" + b01(g.jol))
	c.Stat("cfg.wrap=" + b01(g.wrap))
	return g
}
