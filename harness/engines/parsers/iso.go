package parsers

import (
	"encoding/binary"
	"fmt"
	"strings"

	"github.com/diskfs/go-diskfs/filesystem/iso9660"

	"verif/harness/internal/hx"
)

func suspStr(s iso9660.V18Susp) string {
	switch s.Kind {
	case "SP":
		return fmt.Sprintf("SP/%d", s.A)
	case "ST":
		return "ST"
	case "ES":
		return fmt.Sprintf("ES/%d", s.A)
	case "ER":
		return fmt.Sprintf("ER/%d/%s/%s/%s", s.A, hexs(s.D1), hexs(s.D2), hexs(s.D3))
	case "PD":
		return fmt.Sprintf("PD/%d", s.A)
	case "CE":
		return fmt.Sprintf("CE/%d/%d/%d", s.A, s.B, s.C)
	case "raw":
		return fmt.Sprintf("raw/%s/%d/%d/%s", hexs(s.Sig), s.A, s.B, hexs(s.D1))
	}
	return "other"
}

func suspList(l []iso9660.V18Susp) string {
	s := make([]string, len(l))
	for i, e := range l {
		s[i] = suspStr(e)
	}
	return joinOr("+", s)
}

func recStr(r iso9660.V18DirRecord, joliet, withDate bool) string {
	nm := hexs([]byte(r.Name))
	if joliet && !r.Self && !r.Parent && r.Name != "" {
		rs := []string{}
		for _, x := range r.Name { // decodes the string rune by rune
			rs = append(rs, fmt.Sprint(int(x)))
		}
		nm = "u" + strings.Join(rs, ",")
	}
	date := "-"
	if withDate {
		date = hexs(r.Date)
	}
	return fmt.Sprintf("%d/%d/%d/%s/%d/%d/%s%s/%s/%s", r.ExtAttr, r.Location, r.Size, date, r.Flags, r.VolSeq, b01(r.Self), b01(r.Parent), nm, suspList(r.Susp))
}

// one system use entry; kind selects signature and how well-formed it is
func genSusp(r *hx.Rng) []byte {
	sigs := []string{"SP", "ST", "ES", "ER", "PD", "CE", "RR", "NM", "PX", "ZZ"}
	sig := hx.Pick(r, sigs)
	if r.Chance(5) {
		sig = string(r.Bytes(2))
	}
	want := map[string]int{"SP": 7, "ST": 4, "ES": 5, "CE": 28}
	size := 4 + r.Intn(12)
	if w, ok := want[sig]; ok && r.Chance(75) {
		size = w
	}
	if sig == "ER" {
		size = hx.Pick(r, []int{4, 5, 6, 7, 8, 9, 12, 20, 8 + r.Intn(30)})
	}
	e := r.Bytes(size)
	copy(e, sig)
	e[2] = byte(size)
	if r.Chance(85) {
		e[3] = 1
	}
	switch sig {
	case "SP":
		if size >= 6 && r.Chance(85) {
			e[4], e[5] = 0xbe, 0xef
		}
	case "ER":
		if size >= 8 {
			room := size - 8
			a := r.Intn(room + 1)
			b := r.Intn(room - a + 1)
			cc := room - a - b
			if r.Chance(20) {
				cc += 1 + r.Intn(3) // does not fit
			}
			if r.Chance(10) {
				a = 255
			}
			e[4], e[5], e[6] = byte(a), byte(b), byte(cc)
		}
	}
	return e
}

func genSuspArea(r *hx.Rng) []byte {
	var b []byte
	for k := r.Intn(4); k > 0; k-- {
		b = append(b, genSusp(r)...)
	}
	switch r.Intn(8) {
	case 0:
		b = append(b, r.Bytes(r.Intn(4))...) // trailing bytes shorter than an entry
	case 1:
		if len(b) > 2 {
			b[2] = byte(hx.Pick(r, []int{0, 3, 4, len(b) - 1, len(b), len(b) + 1, 255})) // first entry's length
		}
	case 2:
		if len(b) > 0 {
			b = b[:r.Intn(len(b)+1)]
		}
	}
	return b
}

// a directory record; ok = well-formed
func genRecord(r *hx.Rng, joliet bool) []byte {
	nl := hx.Pick(r, []int{1, 1, 2, 3, 4, 8, 9, 12, 30})
	name := r.Bytes(nl)
	if nl == 1 && r.Bool() {
		name[0] = byte(r.Intn(3))
	}
	if joliet && r.Chance(30) && nl >= 2 {
		name[0] = 0xD8 // a surrogate code unit
	}
	pad := 0
	if nl%2 == 0 {
		pad = 1
	}
	var su []byte
	if r.Chance(60) {
		su = genSuspArea(r)
	}
	total := 33 + nl + pad + len(su)
	if total > 255 {
		su = su[:255-(33+nl+pad)]
		total = 255
	}
	b := make([]byte, total)
	copy(b, r.Bytes(33))
	b[0] = byte(total)
	b[32] = byte(nl)
	copy(b[33:], name)
	copy(b[33+nl+pad:], su)
	return b
}

func runIso(c *hx.Ctx, g cfg) {
	r := c.Rng
	// ---- parsePathTable ----------------------------------------------------------------------
	n := c.N(700, 30000)
	for k := 0; k < n; k++ {
		id := fmt.Sprintf("ip%d", k)
		var b []byte
		if r.Chance(20) {
			b = r.Bytes(hx.Pick(r, []int{0, 1, 2, 8, 9, 10, 11, 19, 20, 21, 64}))
		} else {
			for q := r.Intn(5); q > 0; q-- {
				nl := hx.Pick(r, []int{1, 1, 2, 3, 8, 31, 255})
				if nl == 255 && !r.Chance(10) {
					nl = 5
				}
				rec := make([]byte, 8+nl+nl%2)
				rec[0] = byte(nl)
				rec[1] = byte(r.Intn(3))
				binary.LittleEndian.PutUint32(rec[2:], uint32(r.U64()))
				binary.LittleEndian.PutUint16(rec[6:], uint16(r.Intn(6)))
				copy(rec[8:], r.Bytes(nl))
				b = append(b, rec...)
			}
			switch r.Intn(6) {
			case 0:
				b = append(b, make([]byte, r.Intn(12))...) // zero padding ends the table
			case 1:
				if len(b) > 0 {
					b = b[:r.Intn(len(b)+1)] // truncated
				}
			case 2:
				if len(b) > 0 {
					b[0] = byte(hx.Pick(r, []int{0, 1, 2, len(b) - 9, len(b) - 8, len(b) - 7, 254, 255})) // first name length
				}
			case 3:
				b = append(b, byte(1+r.Intn(255))) // a lone name-length byte at the end
			}
		}
		nn := len(b)
		if r.Chance(25) && nn > 0 {
			nn = r.Intn(nn + 1)
		}
		if !c.Want(id) {
			continue
		}
		buf := append(make([]byte, 0, len(b)), b...)
		o := guard(func() (string, error) {
			es := iso9660.V18ParsePathTable(buf, nn)
			s := make([]string, len(es))
			for i, e := range es {
				s[i] = fmt.Sprintf("%d/%d/%d/%d/%d/%s", e.NameSize, e.ExtAttr, e.Size, e.Parent, e.Location, hexs(e.Name))
			}
			return joinOr(";", s), nil
		})
		c.Case(id, "parsers.isopath", "chk=1", "b="+hexs(b), fmt.Sprintf("n=%d", nn))
		c.Impl(id, o.impl())
		desc := fmt.Sprintf("parsePathTable n=%d b=%s", nn, hexs(b))
		verdict(c, id, "isopath", o, desc)
		if k < 2 {
			c.Sample(desc + " -> " + o.impl())
		}
	}
	// ---- parseDirectoryEntryExtensions (no handlers) -----------------------------------------------
	n = c.N(900, 40000)
	for k := 0; k < n; k++ {
		id := fmt.Sprintf("is%d", k)
		b := genSuspArea(r)
		if r.Chance(10) {
			b = r.Bytes(r.Intn(40))
		}
		nn := len(b)
		if r.Chance(20) && nn > 0 {
			nn = r.Intn(nn + 1)
		}
		if !c.Want(id) {
			continue
		}
		buf := append(make([]byte, 0, len(b)), b...)
		o := guard(func() (string, error) {
			es, err := iso9660.V18ParseSusp(buf, nn)
			if err != nil {
				return "", err
			}
			return suspList(es), nil
		})
		c.Case(id, "parsers.isosusp", append(g.args(), "b="+hexs(b), fmt.Sprintf("n=%d", nn))...)
		c.Impl(id, o.impl())
		desc := fmt.Sprintf("parseDirectoryEntryExtensions n=%d b=%s", nn, hexs(b))
		verdict(c, id, "isosusp", o, desc)
		if k < 2 {
			c.Sample(desc + " -> " + o.impl())
		}
	}
	// ---- dirEntryFromBytesWithJoliet --------------------------------------------------------------
	n = c.N(900, 40000)
	for k := 0; k < n; k++ {
		id := fmt.Sprintf("ie%d", k)
		joliet := r.Chance(35)
		b := genRecord(r, joliet)
		switch r.Intn(8) {
		case 0:
			b[0] = byte(hx.Pick(r, []int{0, 33, 34, len(b) - 1, len(b) + 1, 255}))
		case 1:
			b[32] = byte(hx.Pick(r, []int{0, 1, len(b) - 34, len(b) - 33, len(b) - 32, 255}))
		case 2:
			b = b[:r.Intn(len(b)+1)]
		case 3:
			b = r.Bytes(hx.Pick(r, []int{0, 33, 34, 35, 60}))
			if len(b) > 0 && r.Bool() {
				b[0] = byte(len(b))
			}
		}
		nn := len(b)
		if r.Chance(15) && nn > 0 {
			nn = r.Intn(nn + 1)
			if r.Bool() && nn > 0 {
				b[0] = byte(nn)
			}
		}
		if !c.Want(id) {
			continue
		}
		buf := append(make([]byte, 0, len(b)), b...)
		o := guard(func() (string, error) {
			rec, err := iso9660.V18DirEntryFromBytes(buf, nn, joliet)
			if err != nil {
				return "", err
			}
			return recStr(*rec, joliet, true), nil
		})
		jl := "joliet=0"
		if joliet {
			jl = "joliet=1"
		}
		c.Case(id, "parsers.isodirent", append(g.args(), jl, "b="+hexs(b), fmt.Sprintf("n=%d", nn))...)
		c.Impl(id, o.impl())
		desc := fmt.Sprintf("dirEntryFromBytesWithJoliet %s n=%d b=%s", jl, nn, hexs(b))
		verdict(c, id, "isodirent", o, desc)
		if k < 2 {
			c.Sample(desc + " -> " + o.impl())
		}
	}
	// ---- parseDirEntries / parseDirEntriesJoliet ---------------------------------------------------
	n = c.N(700, 30000)
	for k := 0; k < n; k++ {
		id := fmt.Sprintf("id%d", k)
		joliet := r.Chance(40)
		bs := hx.Pick(r, []int{2048, 2048, 4096, 8192})
		var b []byte
		for q := r.Intn(5); q > 0; q-- {
			b = append(b, genRecord(r, joliet)...)
			if r.Chance(15) {
				// zero gap up to the next block boundary, then more records
				gap := bs - len(b)%bs
				if len(b)+gap <= 2*bs {
					b = append(b, make([]byte, gap)...)
				}
			}
		}
		switch r.Intn(8) {
		case 0:
			b = append(b, make([]byte, r.Intn(70))...) // zero tail (skipped block-wise)
		case 1:
			if len(b) > 0 {
				b = b[:r.Intn(len(b)+1)] // last record cut
			}
		case 2:
			if len(b) > 0 {
				b[0] = byte(hx.Pick(r, []int{0, 1, 33, 34, len(b) - 1, len(b), len(b) + 1, 255}))
			}
		case 3:
			b = append(b, byte(34+r.Intn(200))) // a lone length byte at the end
		case 4:
			b = append(b, r.Bytes(r.Intn(50))...)
		}
		nn := len(b)
		if r.Chance(20) && nn > 0 {
			nn = r.Intn(nn + 1)
		}
		if !c.Want(id) {
			continue
		}
		buf := append(make([]byte, 0, len(b)), b...)
		o := guard(func() (string, error) {
			recs, err := iso9660.V18ParseDirEntries(buf, nn, int64(bs), joliet)
			if err != nil {
				return "", err
			}
			s := make([]string, len(recs))
			for i, x := range recs {
				s[i] = recStr(x, joliet, false)
			}
			return joinOr(";", s), nil
		})
		jl := "joliet=0"
		if joliet {
			jl = "joliet=1"
		}
		c.Case(id, "parsers.isodir", append(g.args(), jl, fmt.Sprintf("bs=%d", bs), "b="+hexs(b), fmt.Sprintf("n=%d", nn))...)
		c.Impl(id, o.impl())
		desc := fmt.Sprintf("parseDirEntries %s bs=%d n=%d b=%s", jl, bs, nn, hexs(b))
		verdict(c, id, "isodir", o, desc)
		if k < 2 {
			c.Sample(desc + " -> " + o.impl())
		}
	}
}
