package parsers

import (
	"encoding/binary"
	"fmt"

	"github.com/diskfs/go-diskfs/filesystem/fat12"
	"github.com/diskfs/go-diskfs/filesystem/fat16"
	"github.com/diskfs/go-diskfs/filesystem/fat32"

	"verif/harness/internal/hx"
	"verif/harness/internal/memdev"
)

type bpb struct {
	bps, spc, res, nfat, spf, root, total uint32
}

func (p bpb) args() []string {
	return []string{fmt.Sprintf("bps=%d", p.bps), fmt.Sprintf("spc=%d", p.spc), fmt.Sprintf("res=%d", p.res),
		fmt.Sprintf("nfat=%d", p.nfat), fmt.Sprintf("spf=%d", p.spf), fmt.Sprintf("root=%d", p.root), fmt.Sprintf("total=%d", p.total)}
}

func (p bpb) meta() uint64 {
	if p.bps == 0 {
		return 0
	}
	return uint64(p.res) + uint64(p.nfat)*uint64(p.spf) + (uint64(p.root)*32+uint64(p.bps)-1)/uint64(p.bps)
}

// fat32Witness: a 16 GiB (sparse) volume whose sectors-per-FAT field is 2^23: 2^23 * 512 wraps to 0 in uint32
func fat32Witness() (o outcome, err error) {
	size := int64(64 << 20)
	d := memdev.New(size)
	d.KeepData = false
	if _, err := fat32.Create(d, size, 0, 512, "WRAP", false); err != nil {
		return o, err
	}
	big := int64(16) << 30
	d2 := memdev.New(big)
	d2.KeepData = false
	d2.RawWrite(d.Bytes(0, 1<<20), 0) // boot sector, FSIS, backup: the first MiB is plenty
	bs := d2.Bytes(0, 512)
	binary.LittleEndian.PutUint32(bs[36:40], 1<<23) // sectors per FAT
	binary.LittleEndian.PutUint32(bs[32:36], 0)     // total sectors: unknown (a 16 GiB volume would say 2^25)
	d2.RawWrite(bs, 0)
	o = guard(func() (string, error) {
		_, err := fat32.Read(d2, big, 0, 512)
		return "", err
	})
	return o, nil
}

func runFat(c *hx.Ctx, g cfg) {
	r := c.Rng
	u32s := func(special ...uint32) uint32 {
		if r.Chance(70) {
			return hx.Pick(r, special)
		}
		switch r.Intn(3) {
		case 0:
			return uint32(r.Intn(300))
		case 1:
			return uint32(r.Intn(70000))
		}
		return uint32(r.U64())
	}
	gen := func() bpb {
		return bpb{
			bps:   u32s(0, 1, 256, 511, 512, 513, 1024, 2048, 4096, 4097, 8192, 32768, 65535),
			spc:   u32s(0, 1, 2, 3, 4, 8, 16, 64, 127, 128, 129, 255, 256),
			res:   u32s(0, 1, 2, 32, 65535),
			nfat:  u32s(0, 1, 2, 3, 255),
			spf:   u32s(0, 1, 9, 12, 256, 65535, 65536, 1<<23, 0xFFFFFFFF),
			root:  u32s(0, 1, 16, 17, 224, 512, 65535),
			total: u32s(0, 1, 100, 2880, 65535, 65536, 1<<20, 0xFFFFFFFF),
		}
	}
	// ---- CheckGeometry (exported) on arbitrary arguments ------------------------------------------
	n := c.N(1500, 60000)
	for k := 0; k < n; k++ {
		id := fmt.Sprintf("fg%d", k)
		p := gen()
		if r.Chance(40) {
			// a plausible geometry, then one field moved: reaches the later checks
			p = bpb{bps: hx.Pick(r, []uint32{512, 1024, 2048, 4096}), spc: 1 << uint(r.Intn(8)), res: uint32(1 + r.Intn(40)),
				nfat: uint32(1 + r.Intn(3)), spf: uint32(1 + r.Intn(3000)), root: uint32(r.Intn(600)), total: 0}
			p.total = uint32(p.meta()) + uint32(hx.Pick(r, []int{-1, 0, 1, 2, 5000, 100000}))
			if r.Chance(15) {
				p.total = 0
			}
		}
		mb := int64(p.meta() * uint64(p.bps))
		size := hx.Pick(r, []int64{0, -1, 1, 512, mb - 1, mb, mb + 1, 1474560, 1 << 30, 1 << 62, int64(r.U64() >> 1)})
		if !c.Want(id) {
			continue
		}
		o := guard(func() (string, error) {
			return "", fat12.CheckGeometry(p.bps, p.spc, p.res, p.nfat, p.spf, p.root, p.total, size)
		})
		res := "ok"
		if o.class != "ok" {
			res = o.class
		}
		c.Case(id, "parsers.fatgeom", append(p.args(), fmt.Sprintf("size=%d", size))...)
		c.Impl(id, res)
		desc := fmt.Sprintf("CheckGeometry %+v size=%d", p, size)
		verdict(c, id, "fatgeom", o, desc)
		if k < 2 {
			c.Sample(desc + " -> " + res)
		}
	}
	// ---- fat12.Read / fat16.Read on a real image whose BPB fields are patched ----------------------
	type base struct {
		kind int
		size int64
		img  []byte
	}
	var bases []base
	{
		size := int64(1474560)
		d := memdev.New(size)
		d.KeepData = false
		if _, err := fat12.Create(d, size, 0, 512, "P12", true); err != nil {
			c.Fail("setup12", "-", "fat12.Create: "+err.Error(), "")
			return
		}
		bases = append(bases, base{12, size, d.Bytes(0, int(size))})
		size = int64(8 << 20)
		d = memdev.New(size)
		d.KeepData = false
		if _, err := fat16.Create(d, size, 0, 512, "P16", true); err != nil {
			c.Fail("setup16", "-", "fat16.Create: "+err.Error(), "")
			return
		}
		bases = append(bases, base{16, size, d.Bytes(0, int(size))})
	}
	n = c.N(500, 12000)
	for k := 0; k < n; k++ {
		id := fmt.Sprintf("fr%d", k)
		bs0 := bases[k%2]
		raw := append([]byte(nil), bs0.img[:512]...)
		cur := bpb{bps: uint32(binary.LittleEndian.Uint16(raw[11:])), spc: uint32(raw[13]), res: uint32(binary.LittleEndian.Uint16(raw[14:])),
			nfat: uint32(raw[16]), root: uint32(binary.LittleEndian.Uint16(raw[17:])), spf: uint32(binary.LittleEndian.Uint16(raw[22:]))}
		t16 := uint32(binary.LittleEndian.Uint16(raw[19:]))
		t32 := binary.LittleEndian.Uint32(raw[32:])
		baseTotal := t32
		if baseTotal == 0 {
			baseTotal = t16
		}
		// 1..2 fields replaced by boundary values
		for q := 1 + r.Intn(2); q > 0; q-- {
			switch r.Intn(8) {
			case 0:
				cur.bps = hx.Pick(r, []uint32{0, 256, 512, 513, 1024, 2048, 4096, 8192, 32768, 65535})
			case 1:
				cur.spc = hx.Pick(r, []uint32{0, 1, 2, 3, 4, 8, 16, 32, 64, 128, 129, 255})
			case 2:
				cur.res = hx.Pick(r, []uint32{0, 1, 2, 7, 32, 1000, 65535})
			case 3:
				cur.nfat = hx.Pick(r, []uint32{0, 1, 2, 3, 4, 255})
			case 4:
				cur.spf = hx.Pick(r, []uint32{0, 1, 2, cur.spf - 1, cur.spf + 1, 64, 300, 65535})
			case 5:
				cur.root = hx.Pick(r, []uint32{0, 1, 15, 16, 17, 224, 512, 4096, 65535})
			case 6:
				t16 = hx.Pick(r, []uint32{0, 1, 40, 2879, 2880, 2881, 20000, 65535})
				if r.Bool() {
					t32 = 0
				}
			default:
				t32 = hx.Pick(r, []uint32{0, 1, 40, baseTotal - 1, baseTotal, baseTotal + 1, 4 * baseTotal, 1 << 24, 0xFFFFFFFF})
			}
		}
		cur.total = t32
		if t32 == 0 {
			cur.total = t16
		}
		if !c.Want(id) {
			continue
		}
		binary.LittleEndian.PutUint16(raw[11:], uint16(cur.bps))
		raw[13] = byte(cur.spc)
		binary.LittleEndian.PutUint16(raw[14:], uint16(cur.res))
		raw[16] = byte(cur.nfat)
		binary.LittleEndian.PutUint16(raw[17:], uint16(cur.root))
		binary.LittleEndian.PutUint16(raw[19:], uint16(t16))
		binary.LittleEndian.PutUint16(raw[22:], uint16(cur.spf))
		binary.LittleEndian.PutUint32(raw[32:], t32)
		dev := memdev.New(bs0.size)
		dev.KeepData = false
		dev.RawWrite(bs0.img, 0)
		dev.RawWrite(raw, 0)
		o := guard(func() (string, error) {
			var f *fat12.FileSystem
			if bs0.kind == 12 {
				x, err := fat12.Read(dev, bs0.size, 0, 512)
				if err != nil {
					return "", err
				}
				f = x
			} else {
				x, err := fat16.Read(dev, bs0.size, 0, 512)
				if err != nil {
					return "", err
				}
				f = x.FileSystem
			}
			ds, bpc, rootOff, _, _, _ := f.VerifGeom()
			return fmt.Sprintf("%d,%d,%d,%d", ds, bpc, f.VerifTable().Size(), rootOff), nil
		})
		c.Case(id, "parsers.fatread", append(append([]string{fmt.Sprintf("kind=%d", bs0.kind), "chk=1"}, cur.args()...), fmt.Sprintf("size=%d", bs0.size))...)
		c.Impl(id, o.impl())
		desc := fmt.Sprintf("fat%d.Read %+v t16=%d t32=%d size=%d", bs0.kind, cur, t16, t32, bs0.size)
		verdict(c, id, "fatread", o, desc)
		if k < 2 {
			c.Sample(desc + " -> " + o.impl())
		}
	}
}

// runFat32: the part of fat32.Read between the boot sector parse and the FAT reads, observed through the
// real Read on a real image with patched BPB fields. Read can also fail for reasons the mirror does not
// cover (FSIS, FAT copies that differ): such cases are counted, not compared.
func runFat32(c *hx.Ctx, g cfg) {
	r := c.Rng
	size := int64(64 << 20)
	d := memdev.New(size)
	d.KeepData = false
	if _, err := fat32.Create(d, size, 0, 512, "P32", false); err != nil {
		c.Fail("setup32", "-", "fat32.Create: "+err.Error(), "")
		return
	}
	head := d.Bytes(0, 2<<20)
	n := c.N(120, 3000)
	for k := 0; k < n; k++ {
		id := fmt.Sprintf("f3%d", k)
		raw := append([]byte(nil), head[:512]...)
		cur := bpb{bps: uint32(binary.LittleEndian.Uint16(raw[11:])), spc: uint32(raw[13]), res: uint32(binary.LittleEndian.Uint16(raw[14:])),
			nfat: uint32(raw[16]), spf: binary.LittleEndian.Uint32(raw[36:]), total: binary.LittleEndian.Uint32(raw[32:])}
		devSize := size
		if r.Chance(40) {
			devSize = int64(16) << 30
		}
		for q := r.Intn(3); q > 0; q-- {
			switch r.Intn(6) {
			case 0:
				cur.bps = hx.Pick(r, []uint32{0, 256, 512, 1024, 4096, 8192})
			case 1:
				cur.spc = hx.Pick(r, []uint32{0, 1, 3, 8, 128, 255})
			case 2:
				cur.res = hx.Pick(r, []uint32{0, 1, 32, 33, 65535})
			case 3:
				cur.nfat = hx.Pick(r, []uint32{0, 1, 2, 3})
			case 4:
				cur.spf = hx.Pick(r, []uint32{0, 1, cur.spf - 1, cur.spf + 1, 4096, 1 << 21, 1<<21 + 1, 1 << 23, 1<<23 + 1, 1 << 24, 0xFFFFFFFF})
			default:
				cur.total = hx.Pick(r, []uint32{0, 1, 2050, cur.total - 1, cur.total + 1, 1 << 25, 0xFFFFFFFF})
			}
		}
		if uint64(cur.spf)*uint64(cur.bps) > 1<<26 && uint64(cur.spf)*uint64(cur.bps) <= 1<<30 {
			continue // a FAT of 64 MiB..1 GiB would really be allocated twice: too slow for a test run
		}
		if !c.Want(id) {
			continue
		}
		binary.LittleEndian.PutUint16(raw[11:], uint16(cur.bps))
		raw[13] = byte(cur.spc)
		binary.LittleEndian.PutUint16(raw[14:], uint16(cur.res))
		raw[16] = byte(cur.nfat)
		binary.LittleEndian.PutUint32(raw[36:], cur.spf)
		binary.LittleEndian.PutUint32(raw[32:], cur.total)
		dev := memdev.New(devSize)
		dev.KeepData = false
		dev.RawWrite(head, 0)
		dev.RawWrite(raw, 0)
		o := guard(func() (string, error) {
			x, err := fat32.Read(dev, devSize, 0, 512)
			if err != nil {
				return "", err
			}
			_, bpc, _, _, f1, f2 := x.VerifGeom()
			return fmt.Sprintf("%d,%d,%d,%d", x.VerifTable().Size(), f1, f2, bpc), nil
		})
		desc := fmt.Sprintf("fat32.Read %+v size=%d", cur, devSize)
		geomErr := fat12.CheckGeometry(cur.bps, cur.spc, cur.res, cur.nfat, cur.spf, 0, cur.total, devSize) != nil
		tooBig := g.wrap && uint64(cur.spf)*uint64(cur.bps) > 1<<30
		if o.class == "err" && !geomErr && !tooBig {
			c.Stat("fat32read=other-err")
			c.OK(id)
			continue
		}
		c.Case(id, "parsers.fat32geom", append(append([]string{"chk=1", "wrap=" + b01(g.wrap)}, cur.args()...), fmt.Sprintf("size=%d", devSize))...)
		c.Impl(id, o.impl())
		verdict(c, id, "fat32read", o, desc)
	}
}
