// Package parsers is the C18 correspondence engine for the panic-aware Lean mirrors of the parsers that
// walk untrusted on-disk structures (lean/DiskfsModel/Model/Parsers.lean): ext4 linear directory blocks
// and extent nodes, FAT CheckGeometry and the Read arithmetic behind it, iso9660 path tables, directory
// records and system use areas, squashfs metadata reads, fragment reads and the id-table lookup.
// Every case runs the REAL function (through the zz_verif_hooks_C18b.go wrappers) under recover() on
// random, adversarial and boundary-length byte strings and emits the outcome class (ok / err / panic)
// with the canonical parsed value; the Lean driver vd-parsers answers the same question from the model.
// Property oracle on the real code: no panic on any input (the standalone entry decoder is excused when
// its caller-established precondition does not hold).
package parsers

import (
	"fmt"
	"runtime/debug"
	"strings"
	"time"

	"verif/harness/internal/hx"
)

// outcome of one guarded call into the library
type outcome struct {
	class string // ok | err | panic
	val   string // canonical value when ok
	msg   string // error or panic text
	stack string
}

func (o outcome) impl() string {
	if o.class == "ok" {
		return "ok:" + o.val
	}
	return o.class
}

// callDeadline bounds one call into the library. The calls take microseconds; a call that has not come
// back after this long (on however busy a machine) is in an endless loop. It cannot be stopped: the
// engine reports the case and ends (stopEngine), so that the verdict comes at once and with the input.
const callDeadline = 30 * time.Second

// stopEngine is the panic value that unwinds the generators after a call that did not return.
type stopEngine struct{}

func guard(f func() (string, error)) outcome {
	ch := make(chan outcome, 1)
	go func() {
		var o outcome
		defer func() {
			if e := recover(); e != nil {
				o = outcome{class: "panic", msg: fmt.Sprint(e), stack: string(debug.Stack())}
			}
			ch <- o
		}()
		v, err := f()
		if err != nil {
			o = outcome{class: "err", msg: err.Error()}
			return
		}
		o = outcome{class: "ok", val: v}
	}()
	t := time.NewTimer(callDeadline)
	defer t.Stop()
	select {
	case o := <-ch:
		return o
	case <-t.C:
		return outcome{class: "timeout", msg: fmt.Sprintf("the call did not return within %v", callDeadline)}
	}
}

func hexs(b []byte) string { return hx.Hex(b) }

func joinOr(sep string, l []string) string {
	if len(l) == 0 {
		return "-"
	}
	return strings.Join(l, sep)
}

func b01(b bool) string {
	if b {
		return "1"
	}
	return "0"
}

// known defects found with this model: switch = as-found (false) / repaired (true), probed on the real code
type cfg struct {
	er, jol, wrap bool
	u16           bool // the Joliet name decoder is UTF-16 (iso-joliet-nonbmp-name repaired)
}

func (g cfg) args() []string {
	return []string{"er=" + b01(g.er), "jol=" + b01(g.jol), "u16=" + b01(g.u16)}
}

// knownTag maps a panic to the listed finding that explains it (innermost library function + error class).
func knownTag(o outcome) string {
	if o.class != "panic" {
		return "-"
	}
	switch {
	case strings.Contains(o.stack, "parseSystemUseExtensionExtensionsReference") && strings.Contains(o.msg, "index out of range"):
		return "iso-susp-er-short"
	case strings.Contains(o.stack, "parseDirEntriesJoliet") && strings.Contains(o.msg, "slice bounds out of range") &&
		!strings.Contains(o.stack, "dirEntryFromBytesWithJoliet"):
		return "iso-joliet-dirrecord-oob"
	case strings.Contains(o.stack, "fat32.tableFromBytes") && strings.Contains(o.msg, "slice bounds out of range"):
		return "fat32-fatsize-wrap"
	}
	return "-"
}

// verdict: the property oracle for one case (no panic), plus evidence bookkeeping
func verdict(c *hx.Ctx, id, op string, o outcome, desc string) {
	c.Stat(op + "=" + o.class)
	if o.class == "timeout" {
		// termination is part of the property: report this input now; the goroutine inside the library
		// spins on, so nothing more can be run in this process
		c.Fail(id, "-", op+": "+o.msg+" (endless loop)", desc)
		panic(stopEngine{})
	}
	if o.class == "panic" {
		c.Fail(id, knownTag(o), op+": panic: "+o.msg, desc)
	} else {
		c.OK(id)
	}
	if o.class != "ok" || len(o.val) > 1 {
		c.Distinct(op + "|" + desc)
	}
}

func Run(c *hx.Ctx) {
	defer func() {
		if e := recover(); e != nil {
			if _, ok := e.(stopEngine); ok {
				c.Note("parsers: stopped after a call into the library that did not return; the remaining cases were not run")
				return
			}
			panic(e)
		}
	}()
	g := probe(c)
	runExt4(c)
	runFat(c, g)
	runFat32(c, g)
	runIso(c, g)
	runSqfs(c)
}
