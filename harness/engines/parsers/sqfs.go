package parsers

import (
	"bytes"
	"fmt"
	"strings"

	"github.com/diskfs/go-diskfs/filesystem/squashfs"

	"verif/harness/internal/hx"
	"verif/harness/internal/memdev"
)

func runSqfs(c *hx.Ctx) {
	r := c.Rng
	// ---- readMetadata -------------------------------------------------------------------------
	n := c.N(900, 40000)
	for k := 0; k < n; k++ {
		id := fmt.Sprintf("sm%d", k)
		first := r.Intn(6)
		dev := r.Bytes(first)
		var starts, lens []int
		for q := 1 + r.Intn(4); q > 0; q-- {
			ln := hx.Pick(r, []int{0, 1, 2, 5, 17, 40})
			hdr := ln | 0x8000
			if r.Chance(8) {
				hdr = ln // "compressed": no compressor given, an error
			}
			if r.Chance(6) {
				hdr = 0x8000 | hx.Pick(r, []int{ln + 1, ln + 50, 0x7FFF}) // announces more than follows (matters for the last block)
			}
			starts = append(starts, len(dev)-first)
			lens = append(lens, ln)
			dev = append(dev, byte(hdr), byte(hdr>>8))
			dev = append(dev, r.Bytes(ln)...)
		}
		if r.Chance(15) {
			dev = dev[:r.Intn(len(dev)+1)]
		}
		if r.Chance(10) {
			dev = append(dev, r.Bytes(r.Intn(5))...)
		}
		bi := r.Intn(len(starts))
		boff := starts[bi]
		if r.Chance(10) {
			boff = r.Intn(len(dev) + 4)
		}
		off := hx.Pick(r, []int{0, 0, 1, lens[bi] - 1, lens[bi], lens[bi] + 1, 0xFFFF, r.Intn(50)})
		if off < 0 {
			off = 0
		}
		total := 0
		for _, l := range lens[bi:] {
			total += l
		}
		size := hx.Pick(r, []int{0, 1, lens[bi], lens[bi] + 1, total, total + 1, total + 100, r.Intn(120)})
		if !c.Want(id) {
			continue
		}
		o := guard(func() (string, error) {
			b, err := squashfs.V18ReadMetadata(bytes.NewReader(dev), int64(first), uint32(boff), uint16(off), size)
			if err != nil {
				return "", err
			}
			return hexs(b), nil
		})
		c.Case(id, "parsers.sqmeta", "chk=1", "dev="+hexs(dev), fmt.Sprintf("first=%d", first), fmt.Sprintf("boff=%d", boff), fmt.Sprintf("off=%d", off), fmt.Sprintf("size=%d", size))
		c.Impl(id, o.impl())
		desc := fmt.Sprintf("readMetadata first=%d boff=%d off=%d size=%d dev=%s", first, boff, off, size, hexs(dev))
		verdict(c, id, "sqmeta", o, desc)
		if k < 2 {
			c.Sample(desc + " -> " + o.impl())
		}
	}
	// ---- parseFragmentEntry ----------------------------------------------------------------------
	n = c.N(300, 10000)
	for k := 0; k < n; k++ {
		id := fmt.Sprintf("se%d", k)
		b := r.Bytes(hx.Pick(r, []int{0, 8, 11, 12, 15, 16, 17, 32}))
		if len(b) >= 12 {
			b[11] = byte(hx.Pick(r, []int{0, 1, 2, 3, 0xFE, 0xFF, r.Intn(256)}))
		}
		nn := len(b)
		if r.Chance(25) && nn > 0 {
			nn = hx.Pick(r, []int{15, 16, r.Intn(nn + 1)})
			if nn > len(b) {
				nn = len(b)
			}
		}
		if !c.Want(id) {
			continue
		}
		buf := append(make([]byte, 0, len(b)), b...)
		o := guard(func() (string, error) {
			st, sz, cp, err := squashfs.V18ParseFragmentEntry(buf, nn)
			if err != nil {
				return "", err
			}
			return fmt.Sprintf("%d/%d/%s", st, sz, b01(cp)), nil
		})
		c.Case(id, "parsers.sqfragentry", "b="+hexs(b), fmt.Sprintf("n=%d", nn))
		c.Impl(id, o.impl())
		verdict(c, id, "sqfragentry", o, fmt.Sprintf("parseFragmentEntry n=%d b=%s", nn, hexs(b)))
	}
	// ---- readFragment ------------------------------------------------------------------------------
	n = c.N(900, 40000)
	for k := 0; k < n; k++ {
		id := fmt.Sprintf("sf%d", k)
		dl := hx.Pick(r, []int{1, 8, 33, 100})
		dev := r.Bytes(dl)
		nf := r.Intn(4)
		starts := make([]uint64, nf)
		sizes := make([]uint32, nf)
		comp := make([]bool, nf)
		for i := 0; i < nf; i++ {
			st := r.Intn(dl + 1)
			starts[i] = uint64(st)
			sizes[i] = uint32(hx.Pick(r, []int{0, 1, dl - st, dl - st, dl - st, dl - st + 1, r.Intn(dl - st + 1)}))
			if r.Chance(6) {
				starts[i] = hx.Pick(r, []uint64{uint64(dl), uint64(dl) + 1, 1 << 63, 1<<63 - 1, 1<<64 - 1})
			}
			comp[i] = r.Chance(6)
		}
		index := uint32(hx.Pick(r, []int{0, 0, 1, nf - 1, nf, nf + 1, 1 << 30}))
		if nf == 0 && r.Bool() {
			index = 0
		}
		var avail int
		if int(index) < nf {
			avail = int(sizes[index])
		}
		offset := uint32(hx.Pick(r, []int{0, 0, 1, avail - 1, avail, avail + 1, 1 << 31}))
		if int32(offset) < 0 && offset != 1<<31 {
			offset = 0
		}
		room := avail - int(offset)
		fsize := hx.Pick(r, []int64{-1, 0, 1, int64(room) - 1, int64(room), int64(room) + 1, 1 << 40, -1 << 40, int64(r.Intn(avail + 2))})
		if !c.Want(id) {
			continue
		}
		md := memdev.New(int64(dl))
		md.KeepData = false
		md.RawWrite(dev, 0)
		o := guard(func() (string, error) {
			b, err := squashfs.V18ReadFragment(md, starts, sizes, comp, index, offset, fsize)
			if err != nil {
				return "", err
			}
			return fmt.Sprintf("%s/%d", hexs(b), sizes[index]), nil
		})
		ss, zs, cs := make([]string, nf), make([]string, nf), make([]string, nf)
		for i := 0; i < nf; i++ {
			ss[i], zs[i], cs[i] = fmt.Sprint(starts[i]), fmt.Sprint(sizes[i]), b01(comp[i])
		}
		c.Case(id, "parsers.sqfrag", "chk=1", "dev="+hexs(dev), "starts="+joinOr(",", ss), "sizes="+joinOr(",", zs), "comp="+joinOr(",", cs),
			fmt.Sprintf("index=%d", index), fmt.Sprintf("off=%d", offset), fmt.Sprintf("fsize=%d", fsize))
		c.Impl(id, o.impl())
		desc := fmt.Sprintf("readFragment index=%d off=%d fsize=%d frags=%s/%s/%s dev=%s", index, offset, fsize, strings.Join(ss, ","), strings.Join(zs, ","), strings.Join(cs, ","), hexs(dev))
		verdict(c, id, "sqfrag", o, desc)
		if k < 2 {
			c.Sample(desc + " -> " + o.impl())
		}
	}
	// ---- id table lookup ---------------------------------------------------------------------------
	n = c.N(300, 10000)
	for k := 0; k < n; k++ {
		id := fmt.Sprintf("si%d", k)
		ni := r.Intn(5)
		ids := make([]uint32, ni)
		is := make([]string, ni)
		for i := range ids {
			ids[i] = uint32(r.U64())
			is[i] = fmt.Sprint(ids[i])
		}
		pick := func() uint16 { return uint16(hx.Pick(r, []int{0, 1, ni - 1, ni, ni + 1, 0xFFFF, r.Intn(6)})) }
		u, gi := pick(), pick()
		if !c.Want(id) {
			continue
		}
		o := guard(func() (string, error) {
			a, b, err := squashfs.V18IDLookup(ids, u, gi)
			if err != nil {
				return "", err
			}
			return fmt.Sprintf("%d/%d", a, b), nil
		})
		c.Case(id, "parsers.sqid", "chk=1", "ids="+joinOr(",", is), fmt.Sprintf("uid=%d", u), fmt.Sprintf("gid=%d", gi))
		c.Impl(id, o.impl())
		verdict(c, id, "sqid", o, fmt.Sprintf("id lookup ids=%v uid=%d gid=%d", ids, u, gi))
	}
}
