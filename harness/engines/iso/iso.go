// Package iso is the C06 engine: generated workspace trees are written into an ISO9660 image by the
// real library (Create + Mkdir/OpenFile/Write + Finalize) on an in-memory device; the property is
// then evaluated on the real result by (1) the library's own reader (Read + directory walk +
// ReadFile) and (2) an independent ISO9660 reader (indep.go).
package iso

import (
	"fmt"
	"io"
	iofs "io/fs"
	"os"
	"path/filepath"
	"sort"
	"strings"
	"unicode/utf16"

	"github.com/diskfs/go-diskfs/filesystem/iso9660"

	"verif/harness/internal/hx"
	"verif/harness/internal/memdev"
)

type cfg struct {
	rr, joliet, deep bool
	bs               int64
	start            int64
	collide          bool // generator may produce names that collide after 8.3 mapping
	dirty            int  // 0: fresh zero-filled device; 1: every byte 0xFF before Create; 2: a position-dependent non-zero pattern (dirty.go)
}

func (c cfg) exactNames() bool { return c.rr || c.joliet }

func (c cfg) String() string {
	s := fmt.Sprintf("rr=%v joliet=%v deep=%v bs=%d start=%d", c.rr, c.joliet, c.deep, c.bs, c.start)
	if c.dirty != 0 {
		s += fmt.Sprintf(" dirty=%d", c.dirty)
	}
	return s
}

const (
	tagStart  = "iso-start-ignored"
	tagBS     = "iso-blocksize-descriptors"
	tagPT     = "iso-pathtable-off-by-one"
	tagZero   = "iso-extra-zero-block"
	tagJSub   = "iso-joliet-subdir-extent"
	tagDots   = "iso-name-dots-trimmed"
	tagJDots  = "iso-joliet-name-dots-trimmed"
	tagCE     = "iso-rr-continuation-aliased"
	tagReloc  = "iso-rr-relocation-broken"
	tagNMCont = "iso-rr-name-continuation"
	tagJLong  = "iso-joliet-name-overflow"
	tagOpenEq = "iso-openfile-name-equals-dir"
	tagNoFind = "-"
)

// built is the outcome of Create + populate + Finalize.
type built struct {
	dev      *memdev.Dev
	size     int64
	err      error
	panicked bool
}

func safely(f func() error) (err error, panicked bool) {
	defer func() {
		if r := recover(); r != nil {
			err = fmt.Errorf("panic: %v", r)
			panicked = true
		}
	}()
	return f(), false
}

// refused collects the paths OpenFile would not create during the current build (see tagOpenEq)
var refused []string

func populate(fsys *iso9660.FileSystem, n *node, p string) error {
	for _, k := range n.kids {
		kp := join(p, k.name)
		if k.dir {
			if err := fsys.Mkdir(kp); err != nil {
				return fmt.Errorf("Mkdir %q: %v", kp, err)
			}
			if err := populate(fsys, k, kp); err != nil {
				return err
			}
			continue
		}
		f, err := fsys.OpenFile(kp, os.O_CREATE|os.O_RDWR)
		if err != nil {
			// recorded defect: OpenFile takes "x/x" for a directory. Note it and put the file into the
			// workspace directly so that the rest of the tree is still checked.
			if strings.Contains(err.Error(), "cannot open directory") && baseOf(parentOf(kp)) == k.name {
				refused = append(refused, kp)
				if werr := os.WriteFile(filepath.Join(fsys.Workspace(), filepath.FromSlash(kp)), k.data, 0o644); werr != nil {
					return werr
				}
				continue
			}
			return fmt.Errorf("OpenFile %q: %v", kp, err)
		}
		for off := 0; off < len(k.data); {
			n := len(k.data) - off
			if n > 1<<20 {
				n = 1 << 20
			}
			w, err := f.Write(k.data[off : off+n])
			if err != nil {
				f.Close()
				return fmt.Errorf("Write %q: %v", kp, err)
			}
			off += w
		}
		if err := f.Close(); err != nil {
			return fmt.Errorf("Close %q: %v", kp, err)
		}
	}
	return nil
}

func build(root *node, c cfg) built {
	d, f, bytes := root.count()
	est := int64(64)*c.bs + bytes + int64(f+d+2)*(c.bs+600) + int64(d+1)*3*c.bs
	size := est + 4<<20
	size -= size % c.bs
	dev := memdev.New(c.start + size + 1<<20)
	if c.dirty != 0 {
		prefill(dev, c.dirty)
	}
	b := built{dev: dev, size: size}
	refused = nil
	b.err, b.panicked = safely(func() error {
		fsys, err := iso9660.Create(dev, size, c.start, c.bs, "")
		if err != nil {
			return fmt.Errorf("Create: %v", err)
		}
		if err := populate(fsys, root, "."); err != nil {
			fsys.Close()
			return err
		}
		if err := fsys.Finalize(iso9660.FinalizeOptions{RockRidge: c.rr, Joliet: c.joliet, DeepDirectories: c.deep, VolumeIdentifier: "VERIF"}); err != nil {
			fsys.Close()
			return fmt.Errorf("Finalize: %v", err)
		}
		return nil
	})
	return b
}

// libWalk lists the image through the library: ReadDir recursively (so that one unreadable
// directory does not hide the rest) and ReadFile for contents. dirErr maps directories whose
// listing failed to the error.
func libWalk(fsys *iso9660.FileSystem) (v view, dirErr map[string]error, listing map[string][]string) {
	v = view{}
	dirErr = map[string]error{}
	listing = map[string][]string{}
	var rec func(p string, depth int)
	rec = func(p string, depth int) {
		if depth > 40 {
			dirErr[p] = fmt.Errorf("nesting deeper than 40")
			return
		}
		var des []iofs.DirEntry
		err, _ := safely(func() error {
			var e error
			des, e = fsys.ReadDir(p)
			return e
		})
		if err != nil {
			dirErr[p] = err
			return
		}
		for _, de := range des {
			listing[p] = append(listing[p], de.Name())
		}
		for _, de := range des {
			kp := join(p, de.Name())
			if _, dup := v[kp]; dup {
				dirErr[p] = fmt.Errorf("name %q listed twice", de.Name())
				continue
			}
			if de.IsDir() {
				v[kp] = vEnt{dir: true}
				rec(kp, depth+1)
				continue
			}
			var data []byte
			err, _ := safely(func() error {
				var e error
				data, e = fsys.ReadFile(kp)
				return e
			})
			if err != nil {
				v[kp] = vEnt{size: -1, sum: "ReadFile: " + err.Error()}
				continue
			}
			info, ierr := de.Info()
			if ierr == nil && info.Size() != int64(len(data)) {
				v[kp] = vEnt{size: -1, sum: fmt.Sprintf("Info().Size()=%d but ReadFile returned %d bytes", info.Size(), len(data))}
				continue
			}
			v[kp] = vEnt{size: int64(len(data)), sum: sum(data)}
		}
	}
	rec(".", 0)
	return
}

// fsWalkDir cross-checks the same through fs.WalkDir (the io/fs view).
func fsWalkDir(fsys *iso9660.FileSystem) (view, error) {
	v := view{}
	var werr error
	err, _ := safely(func() error {
		return iofs.WalkDir(fsys, ".", func(p string, d iofs.DirEntry, err error) error {
			if err != nil {
				werr = fmt.Errorf("WalkDir at %q: %v", p, err)
				return err
			}
			if p == "." {
				return nil
			}
			if d.IsDir() {
				v[p] = vEnt{dir: true}
				return nil
			}
			f, err := fsys.Open(p)
			if err != nil {
				werr = fmt.Errorf("Open %q: %v", p, err)
				return err
			}
			data, err := io.ReadAll(f)
			f.Close()
			if err != nil {
				werr = fmt.Errorf("read %q: %v", p, err)
				return err
			}
			v[p] = vEnt{size: int64(len(data)), sum: sum(data)}
			return nil
		})
	})
	if werr != nil {
		return v, werr
	}
	return v, err
}

func indepView(r rdr, base int64, bs int, t iTree) (view, error) {
	v := view{}
	for _, e := range t.ents {
		if _, dup := v[e.path]; dup {
			return nil, fmt.Errorf("path %q appears twice", e.path)
		}
		if e.isDir {
			v[e.path] = vEnt{dir: true}
			continue
		}
		b, err := readFull(r, base+int64(e.loc)*int64(bs), int(e.size))
		if err != nil {
			return nil, fmt.Errorf("file %q: %v", e.path, err)
		}
		v[e.path] = vEnt{size: int64(e.size), sum: sum(b)}
	}
	return v, nil
}

// buggyPTLookup predicts what a path-table lookup returns when the index of the matched record is
// used 0-based where the parent numbers are 1-based and the name looked for stays the first path
// component (the recorded defect iso-pathtable-off-by-one).
func buggyPTLookup(recs []ptRec, p string) uint32 {
	parts := strings.Split(p, "/")
	if p == "." || p == "" {
		return recs[0].loc
	}
	level := uint16(1)
	current := parts[0] // never advanced by the code under test
	for i, e := range recs {
		if e.parent == level && e.name == current {
			level = uint16(i)
			if len(parts) > 1 {
				parts = parts[1:]
			} else {
				return e.loc
			}
		}
	}
	return 0
}

type located struct {
	img       *iImage
	base      int64
	firstDesc int64
	stride    int64
}

// locate finds the image on the device: first where the standard and the caller say it must be,
// then at the places the recorded defects put it.
func locate(dev *memdev.Dev, c cfg) (*located, []string) {
	var notes []string
	bases := []int64{c.start}
	if c.start != 0 {
		bases = append(bases, 0)
	}
	type dp struct{ first, stride int64 }
	dps := []dp{{16 * 2048, 2048}}
	if c.bs != 2048 {
		dps = append(dps, dp{16 * c.bs, c.bs})
	}
	for _, d := range dps {
		for _, b := range bases {
			img, err := indepRead(dev, b, d.first, d.stride, 0)
			if err == nil {
				return &located{img, b, d.first, d.stride}, notes
			}
			notes = append(notes, fmt.Sprintf("image at byte %d, descriptors at +%d step %d: %v", b, d.first, d.stride, err))
		}
	}
	return nil, notes
}

func maxWriteEnd(dev *memdev.Dev) (end int64, lastOff int64, lastLen int, lastZero bool) {
	for _, e := range dev.Log {
		if e.Sync {
			continue
		}
		if e.Off+int64(e.Len) > end {
			end = e.Off + int64(e.Len)
			lastOff, lastLen = e.Off, e.Len
			lastZero = true
			for _, x := range e.Data {
				if x != 0 {
					lastZero = false
					break
				}
			}
		}
	}
	return
}

type caseResult struct {
	loc *located
	b   built
}

// checkCase runs one (tree, configuration) and evaluates every clause of the property.
func checkCase(c *hx.Ctx, id string, root *node, cf cfg) *caseResult {
	repro := fmt.Sprintf("%s tree{%s}", cf, root.describe())
	c.Stat(fmt.Sprintf("cfg.rr=%v,joliet=%v", cf.rr, cf.joliet))
	c.Stat(fmt.Sprintf("cfg.bs=%d", cf.bs))
	if cf.start != 0 {
		c.Stat("cfg.start=nonzero")
	} else {
		c.Stat("cfg.start=0")
	}
	b := build(root, cf)
	if b.panicked {
		c.Fail(id+"/build", tagNoFind, b.err.Error(), repro)
		return nil
	}
	if b.err != nil {
		// rejections the format forces: names with an empty base without Rock Ridge; nesting deeper
		// than 8 without DeepDirectories and without Rock Ridge
		msg := b.err.Error()
		switch {
		case !cf.rr && root.hasEmptyBase() && (strings.Contains(msg, "invalid filename") || strings.Contains(msg, "invalid directory")):
			c.Stat("rejected.empty-base-name")
			c.OK(id + "/build")
		case !cf.rr && !cf.deep && root.maxDepth() > 8 && strings.Contains(msg, "deeper than 8"):
			c.Stat("rejected.too-deep")
			c.OK(id + "/build")
		default:
			c.Fail(id+"/build", tagNoFind, "Finalize refused a tree it should accept: "+msg, repro)
		}
		return nil
	}
	if len(refused) > 0 {
		c.Fail(id+"/build", tagOpenEq, fmt.Sprintf("OpenFile(%q, O_CREATE) in the workspace: cannot open directory ... as file (the file has the name of its directory); %d such file(s) were put into the workspace directly", refused[0], len(refused)), repro)
	} else {
		c.OK(id + "/build")
	}
	dev := b.dev
	exp := expectedView(root)

	// ---- clause: an independent reader finds the image where it was asked to be -----------------
	loc, notes := locate(dev, cf)
	if loc == nil {
		c.Fail(id+"/indep", tagNoFind, "independent reader finds no ISO9660 image: "+strings.Join(notes, " ; "), repro)
		return nil
	}
	img := loc.img
	if loc.base != cf.start {
		c.Fail(id+"/placed", tagStart, fmt.Sprintf("image requested at byte %d was written at byte %d (%s)", cf.start, loc.base, notes[0]), repro)
	} else {
		c.OK(id + "/placed")
	}
	if loc.firstDesc != 16*2048 {
		tag := tagNoFind
		if cf.bs != 2048 && loc.firstDesc == 16*cf.bs && loc.stride == cf.bs {
			tag = tagBS
		}
		c.Fail(id+"/desc", tag, fmt.Sprintf("volume descriptors are at byte %d step %d of the image, not at sector 16 (byte 32768) in consecutive 2048-byte sectors", loc.firstDesc, loc.stride), repro)
	} else {
		c.OK(id + "/desc")
	}
	if int64(img.bs) != cf.bs {
		c.Fail(id+"/indep", tagNoFind, fmt.Sprintf("PVD says block size %d, created with %d", img.bs, cf.bs), repro)
		return nil
	}
	if img.hasRR != cf.rr || img.hasJoliet != cf.joliet {
		c.Fail(id+"/indep", tagNoFind, fmt.Sprintf("image has RockRidge=%v Joliet=%v, asked for %v/%v", img.hasRR, img.hasJoliet, cf.rr, cf.joliet), repro)
		return nil
	}
	volBytes := int64(img.volBlocks) * int64(img.bs)
	relocated := cf.rr && !cf.deep && root.maxDepth() > 8
	inAlias := func(p string) bool {
		for q := parentOf(p); ; q = parentOf(q) {
			if img.pvd.aliasDirs[q] {
				return true
			}
			if q == "." {
				return false
			}
		}
	}
	dropAlias := func(v view) view {
		o := view{}
		for k, e := range v {
			if !inAlias(k) {
				o[k] = e
			}
		}
		return o
	}
	// directories holding a name of more than 110 UCS-2 units: its Joliet record would be longer than 255 bytes
	jOver := map[string]bool{}
	if cf.joliet {
		for k := range exp {
			if len(utf16.Encode([]rune(baseOf(k)))) > 110 {
				jOver[parentOf(k)] = true
			}
		}
	}
	dropJOver := func(v view) view {
		o := view{}
		for k, e := range v {
			in := false
			for q := parentOf(k); ; q = parentOf(q) {
				if jOver[q] {
					in = true
				}
				if q == "." {
					break
				}
			}
			if !in {
				o[k] = e
			}
		}
		return o
	}
	indepTag := tagNoFind
	indepErr := func() error {
		if img.pvdErr != nil {
			// recorded defect: a directory below a relocated one is recorded 16 bytes too short
			if relocated && strings.Contains(img.pvdErr.Error(), "crosses a block boundary or overruns") {
				indepTag = tagReloc
			}
			return img.pvdErr
		}
		// same files, by name and content
		pv, err := indepView(dev, loc.base, img.bs, img.pvd)
		if err != nil {
			return err
		}
		if cf.rr {
			if err := cmpExact(exp, pv); err != nil {
				// recorded defect: all continuation areas of one directory are written to the same place
				if len(img.pvd.aliasDirs) > 0 && cmpExact(dropAlias(exp), dropAlias(pv)) == nil {
					indepTag = tagCE
					return fmt.Errorf("primary tree (Rock Ridge names): %v [records of %d director(y/ies) share one continuation area]", err, len(img.pvd.aliasDirs))
				}
				return fmt.Errorf("primary tree (Rock Ridge names): %v", err)
			}
		} else if err := cmpMangled(root, pv); err != nil {
			return fmt.Errorf("primary tree (8.3 names): %v", err)
		}
		// identifiers pairwise distinct within every directory, names distinct below every path-table parent
		// (relocated trees: the path table follows the moved layout, a recorded defect covers them)
		if err := checkIdents("primary tree", img.pvd, img.ptLRecs, !relocated); err != nil {
			return err
		}
		// extents inside the volume and pairwise disjoint
		if err := checkExtents(img.extents(), volBytes); err != nil {
			return err
		}
		// path tables list exactly the directories, L and M forms agree
		if len(img.ptLRecs) != len(img.pvd.dirs) {
			return fmt.Errorf("L path table has %d records for %d directories", len(img.ptLRecs), len(img.pvd.dirs))
		}
		if fmt.Sprint(img.ptLRecs) != fmt.Sprint(img.ptMRecs) {
			return fmt.Errorf("L and M path tables differ")
		}
		dirAt := map[uint32]bool{}
		for _, d := range img.pvd.dirs {
			dirAt[d.loc] = true
		}
		for i, r := range img.ptLRecs {
			if !dirAt[r.loc] {
				return fmt.Errorf("path table record %d (%q) points at block %d which is no directory", i+1, r.name, r.loc)
			}
			if int(r.parent) < 1 || int(r.parent) > len(img.ptLRecs) || (i > 0 && int(r.parent) > i) {
				return fmt.Errorf("path table record %d (%q) has parent number %d", i+1, r.name, r.parent)
			}
		}
		return nil
	}()
	if indepErr != nil {
		c.Fail(id+"/indep", indepTag, "independent reader: "+indepErr.Error(), repro)
	} else {
		c.OK(id + "/indep")
	}

	// ---- clause: the Joliet tree holds the same files under their exact names --------------------
	lastExact := lastFileExact(img)
	if cf.joliet {
		jerr, jtag := func() (error, string) {
			if img.svdErr != nil && len(jOver) > 0 && !(lastExact && allZero(dev.Bytes(loc.base+int64(img.jRootLoc)*cf.bs, int(cf.bs)))) {
				return fmt.Errorf("%v [a name of more than 110 characters makes the record longer than 255 bytes]", img.svdErr), tagJLong
			}
			if img.svdErr != nil {
				// recorded defect: the zero block written after a last file of exactly k blocks lands on
				// the Joliet root directory, which follows the file area
				if lastExact && strings.Contains(img.svdErr.Error(), "directory .:") && allZero(dev.Bytes(loc.base+int64(img.jRootLoc)*cf.bs, int(cf.bs))) {
					return fmt.Errorf("%v (the Joliet root directory block %d is all zero: overwritten by the padding block of the last file)", img.svdErr, img.jRootLoc), tagZero
				}
				return img.svdErr, tagNoFind
			}
			jv, err := indepView(dev, loc.base, img.bs, img.svd)
			if err != nil {
				return err, tagNoFind
			}
			if err := cmpExact(exp, jv); err != nil {
				// recorded defect: the length byte of a Joliet record wraps for names longer than 110 characters
				if len(jOver) > 0 && cmpExact(dropJOver(exp), dropJOver(jv)) == nil {
					return fmt.Errorf("Joliet tree: %v [a name of more than 110 characters makes the record longer than 255 bytes]", err), tagJLong
				}
				// recorded defect: the Joliet tree is built after Rock Ridge relocation and shows the moved layout
				if relocated && relocShape(err) {
					return fmt.Errorf("Joliet tree: %v [the Joliet tree shows the Rock Ridge relocated layout]", err), tagReloc
				}
				return fmt.Errorf("Joliet tree: %v", err), tagNoFind
			}
			if err := checkIdents("Joliet tree", img.svd, img.jptLRecs, !relocated); err != nil {
				return err, tagNoFind
			}
			if img.jVolBlocks != img.volBlocks {
				return fmt.Errorf("Joliet descriptor says %d blocks, primary %d", img.jVolBlocks, img.volBlocks), tagNoFind
			}
			if len(img.jMismatch) > 0 {
				// recorded defect: subdirectory records of the Joliet tree carry the extent of the primary
				// tree's directory. Everything else was checked above by following the Joliet path table.
				return fmt.Errorf("Joliet subdirectory records point outside the Joliet tree: %s (%d in all)", img.jMismatch[0], len(img.jMismatch)), tagJSub
			}
			return nil, ""
		}()
		if jerr != nil {
			c.Fail(id+"/joliet", jtag, "independent reader: "+jerr.Error(), repro)
		} else {
			c.OK(id + "/joliet")
		}
	}

	// ---- clause: Finalize writes nothing past the volume it declares ------------------------------
	end, lastOff, lastLen, lastZero := maxWriteEnd(dev)
	if end > loc.base+volBytes {
		tag := tagNoFind
		if lastZero && int64(lastLen) == cf.bs && lastOff == loc.base+volBytes && end == loc.base+volBytes+cf.bs {
			tag = tagZero
		}
		c.Fail(id+"/inside", tag, fmt.Sprintf("volume is %d blocks (%d bytes) but a write of %d bytes (all zero: %v) went to byte %d of the image", img.volBlocks, volBytes, lastLen, lastZero, lastOff-loc.base), repro)
	} else {
		c.OK(id + "/inside")
	}

	// ---- clause: the library reads back the same tree ----------------------------------------------
	rdev := dev
	rbase := cf.start
	if loc.base != cf.start || loc.firstDesc != 16*2048 {
		// a recorded defect moved the image or its descriptors: check the rest on a copy in which the
		// descriptors sit where Read looks for them
		rdev = dev.Clone()
		rbase = loc.base
		if loc.firstDesc != 16*2048 {
			for i := 0; i < img.nDesc; i++ {
				rdev.RawWrite(dev.Bytes(loc.base+loc.firstDesc+int64(i)*loc.stride, 2048), loc.base+16*2048+int64(i)*2048)
			}
		}
		c.Stat("lib.read-on-adjusted-copy")
	}
	var fsys *iso9660.FileSystem
	err, _ := safely(func() error {
		var e error
		fsys, e = iso9660.Read(rdev, b.size, rbase, cf.bs)
		return e
	})
	if err != nil {
		c.Fail(id+"/lib", tagNoFind, "Read: "+err.Error(), repro)
		return &caseResult{loc, b}
	}
	lv, dirErr, listing := libWalk(fsys)
	libErr, tag := func() (error, string) {
		var cmp error
		if cf.exactNames() {
			cmp = cmpExact(exp, lv)
		} else {
			cmp = cmpMangled(root, lv)
		}
		if cmp == nil && len(dirErr) == 0 {
			return nil, ""
		}
		first := cmp
		for _, p := range sortedKeys(dirErr) {
			first = fmt.Errorf("ReadDir %q: %v", p, dirErr[p])
			break
		}
		if cf.rr && len(img.pvd.aliasDirs) > 0 && len(dirErr) == 0 && cmpExact(dropAlias(exp), dropAlias(lv)) == nil {
			return fmt.Errorf("%v [records of %d director(y/ies) share one continuation area]", first, len(img.pvd.aliasDirs)), tagCE
		}
		if relocated && len(dirErr) == 0 && relocShape(first) {
			return fmt.Errorf("%v [the placeholder of a relocated directory is listed as a file]", first), tagReloc
		}
		if cf.rr && len(img.pvd.aliasDirs) > 0 && len(dirErr) > 0 {
			ok := true
			for p := range dirErr {
				if !img.pvd.aliasDirs[p] {
					ok = false
				}
			}
			if ok && cmpExact(dropAlias(exp), dropAlias(lv)) == nil {
				return fmt.Errorf("%v [records of %d director(y/ies) share one continuation area]", first, len(img.pvd.aliasDirs)), tagCE
			}
		}
		if relocated && len(dirErr) > 0 {
			ok := true
			for _, e := range dirErr {
				if !strings.Contains(e.Error(), "slice bounds out of range") && !strings.Contains(e.Error(), "invalid directory entry") {
					ok = false
				}
			}
			if ok {
				return fmt.Errorf("%v [a directory below a relocated one is recorded shorter than its records]", first), tagReloc
			}
		}
		// recorded defect: a Rock Ridge name longer than 249 bytes is stored as several NM entries, of
		// which the reader uses only the first
		if cf.rr && len(dirErr) == 0 {
			e4 := view{}
			changed := false
			for k, v := range exp {
				nk := k
				if b := baseOf(k); len(b) > 249 {
					nk = join(parentOf(k), b[:249])
					changed = true
				}
				e4[nk] = v
			}
			if changed && len(e4) == len(exp) && cmpExact(dropAlias(e4), dropAlias(lv)) == nil {
				return fmt.Errorf("%v [names longer than 249 bytes come back cut to their first NM entry]", first), tagNMCont
			}
		}
		// recorded defect: Name() strips a leading dot, a trailing dot and a trailing ";1" from file
		// names even when the name comes from Rock Ridge / Joliet
		if cf.exactNames() && len(dirErr) == 0 {
			e3 := view{}
			changed := false
			for k, v := range exp {
				nk := k
				if !v.dir {
					nb := strings.TrimPrefix(strings.TrimSuffix(strings.TrimSuffix(baseOf(k), ";1"), "."), ".")
					if nb != baseOf(k) {
						changed = true
						nk = join(parentOf(k), nb)
					}
				}
				e3[nk] = v
			}
			if changed && len(e3) == len(exp) && cmpExact(e3, lv) == nil {
				if cf.joliet && !cf.rr {
					// recorded defect: the repair of iso-name-dots-trimmed exempts Rock Ridge names only; a
					// Joliet name (the real name as well) still loses a trailing dot
					return fmt.Errorf("%v [Joliet file names come back with a trailing dot removed]", first), tagJDots
				}
				return fmt.Errorf("%v [file names come back with leading/trailing dots removed]", first), tagDots
			}
		}
		// recorded defect: Joliet record length overflow
		if cf.joliet && !cf.rr && len(jOver) > 0 {
			allIn := true
			for p := range dirErr {
				if !jOver[p] {
					allIn = false
				}
			}
			if allIn && cmpExact(dropJOver(exp), dropJOver(lv)) == nil {
				return fmt.Errorf("%v [a name of more than 110 characters makes the Joliet record longer than 255 bytes]", first), tagJLong
			}
		}
		// recorded defect: Joliet root wiped by the padding block of the last file
		if cf.joliet && !cf.rr && lastExact && len(exp) > 0 && allZero(dev.Bytes(loc.base+int64(img.jRootLoc)*cf.bs, int(cf.bs))) {
			return fmt.Errorf("%v [the Joliet root directory block was overwritten with zeros]", first), tagZero
		}
		// is this exactly what the path-table defect predicts? (only without Rock Ridge: with it the
		// path table is not consulted)
		if cf.rr {
			return first, tagNoFind
		}
		// what the library resolves names against, seen through the independent reader
		recs := img.ptLRecs
		dirLoc := map[string]uint32{}
		kidsOf := map[string][]string{}
		var ref view
		if cf.joliet {
			recs = img.jptLRecs
			dirLoc = ptPaths(recs)
			for k := range exp {
				kidsOf[parentOf(k)] = append(kidsOf[parentOf(k)], baseOf(k))
			}
			ref = exp
		} else {
			for _, d := range img.pvd.dirs {
				dirLoc[d.path] = d.loc
			}
			for _, e := range img.pvd.ents {
				kidsOf[parentOf(e.path)] = append(kidsOf[parentOf(e.path)], baseOf(e.path))
			}
			var rerr error
			if ref, rerr = indepView(dev, loc.base, img.bs, img.pvd); rerr != nil {
				return fmt.Errorf("%v (independent view unavailable: %v)", first, rerr), tagNoFind
			}
		}
		byLoc := map[uint32]string{}
		var dirPaths []string
		for p, l := range dirLoc {
			byLoc[l] = p
			if p != "." {
				dirPaths = append(dirPaths, p)
			}
		}
		sort.Strings(dirPaths)
		affectedDirs := map[string]bool{}
		for _, p := range dirPaths {
			got := buggyPTLookup(recs, p)
			if got != dirLoc[p] && !(got == 0 && !cf.joliet) {
				affectedDirs[p] = true
			}
		}
		under := func(p string) bool {
			for q := parentOf(p); q != "."; q = parentOf(q) {
				if affectedDirs[q] {
					return true
				}
			}
			return false
		}
		affected := 0
		for _, lp := range dirPaths {
			if !affectedDirs[lp] || under(lp) {
				continue
			}
			affected++
			got := buggyPTLookup(recs, lp)
			if got == 0 {
				if e, bad := dirErr[lp]; !bad || !strings.Contains(e.Error(), "could not find Joliet directory") {
					return fmt.Errorf("%v (and %q is not failing the way the path-table defect predicts)", first, lp), tagNoFind
				}
				continue
			}
			wrong := byLoc[got]
			wantNames := append([]string(nil), kidsOf[wrong]...)
			sort.Strings(wantNames)
			g := append([]string(nil), listing[lp]...)
			sort.Strings(g)
			if _, bad := dirErr[lp]; bad || fmt.Sprint(g) != fmt.Sprint(wantNames) {
				return fmt.Errorf("%v (and %q does not show the listing of %q as the path-table defect predicts)", first, lp, wrong), tagNoFind
			}
		}
		if affected == 0 {
			return first, tagNoFind
		}
		// outside the affected directories everything must be right
		e2, l2 := view{}, view{}
		for k, v := range ref {
			if !under(k) {
				e2[k] = v
			}
		}
		for k, v := range lv {
			if !under(k) {
				l2[k] = v
			}
		}
		if err := cmpExact(e2, l2); err != nil {
			return fmt.Errorf("outside the directories hit by the path-table defect: %v", err), tagNoFind
		}
		return fmt.Errorf("%v [%d director(y/ies) resolved through the path table with a 0-based parent number]", first, affected), tagPT
	}()
	if libErr != nil {
		c.Fail(id+"/lib", tag, "library view differs from the workspace: "+libErr.Error(), repro)
	} else {
		// the io/fs view must agree with it
		wv, werr := fsWalkDir(fsys)
		if werr != nil {
			c.Fail(id+"/lib", tagNoFind, werr.Error(), repro)
		} else if err := cmpExact(lv, wv); err != nil {
			c.Fail(id+"/lib", tagNoFind, "fs.WalkDir view differs from ReadDir/ReadFile view: "+err.Error(), repro)
		} else {
			c.OK(id + "/lib")
		}
	}
	d, f, by := root.count()
	c.Distinct(fmt.Sprintf("%s|%d|%d|%d|%d", cf, d, f, by, root.maxDepth()))
	return &caseResult{loc, b}
}

func sortedKeys(m map[string]error) []string {
	k := make([]string, 0, len(m))
	for x := range m {
		k = append(k, x)
	}
	sort.Strings(k)
	return k
}

func allZero(b []byte) bool {
	for _, x := range b {
		if x != 0 {
			return false
		}
	}
	return true
}

// lastFileExact: the file laid out last (highest extent end) has a size that is a multiple of the
// block size (the trigger of iso-extra-zero-block). Zero-length files share their block number
// with what follows them; the order among files ending at the same block is not observable, so
// any of them qualifying counts.
func lastFileExact(img *iImage) bool {
	var maxEnd int64 = -1
	for _, e := range img.pvd.ents {
		if !e.isDir {
			if end := int64(e.loc) + blocksOf(e.size, img.bs); end > maxEnd {
				maxEnd = end
			}
		}
	}
	for _, e := range img.pvd.ents {
		if !e.isDir && int64(e.loc)+blocksOf(e.size, img.bs) == maxEnd && int(e.size)%img.bs == 0 {
			return true
		}
	}
	return false
}

// relocShape: the first difference is at a directory of depth 9 (the one Rock Ridge moves) or
// an extra entry in the root (where it is moved to).
func relocShape(err error) bool {
	msg := err.Error()
	i := strings.IndexByte(msg, '"')
	if i < 0 {
		return false
	}
	j := strings.IndexByte(msg[i+1:], '"')
	if j < 0 {
		return false
	}
	p := msg[i+1 : i+1+j]
	n := strings.Count(p, "/") + 1
	return n >= 8 || (n == 1 && strings.Contains(msg, "unexpected entry"))
}
