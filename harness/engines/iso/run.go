package iso

import (
	"fmt"
	"strings"
	"syscall"

	"verif/harness/internal/hx"
)

// Run is the engine entry point.
func Run(c *hx.Ctx) {
	// Finalize keeps every source file open until it returns
	var rl syscall.Rlimit
	if syscall.Getrlimit(syscall.RLIMIT_NOFILE, &rl) == nil && rl.Cur < rl.Max {
		rl.Cur = rl.Max
		_ = syscall.Setrlimit(syscall.RLIMIT_NOFILE, &rl)
	}
	boundary(c)
	dirDotted(c)
	dirtyCases(c)
	random(c)
	correspondence(c)
	bigFiles(c)
	nonBMP(c)
}

type shape struct {
	name string
	mk   func(r *hx.Rng, cf cfg) *node
	only func(cf cfg) bool // nil = all configurations
	deep bool              // needs DeepDirectories unless Rock Ridge relocates
}

func shapes(c *hx.Ctx) []shape {
	many := c.N(150, 600)
	big := c.N(2<<20+5, 9<<20+17)
	return []shape{
		{name: "empty", mk: func(r *hx.Rng, cf cfg) *node { return mkdir(".") }},
		{name: "sizes", mk: func(r *hx.Rng, cf cfg) *node {
			root := mkdir(".")
			bs := int(cf.bs)
			for i, sz := range []int{0, 1, bs - 1, bs, bs + 1, 2 * bs, 3*bs - 1, 0, bs} {
				root.add(mkfile(r, fmt.Sprintf("s%d.bin", i), fmt.Sprintf("s%d", i), sz))
			}
			return root
		}},
		{name: "lastexact", mk: func(r *hx.Rng, cf cfg) *node {
			// the file laid out last is an exact multiple of the block size
			root := mkdir(".")
			root.add(mkfile(r, "a.bin", "a", 100))
			root.add(mkfile(r, "z.bin", "z", int(cf.bs)*2))
			return root
		}},
		{name: "lastpartial", mk: func(r *hx.Rng, cf cfg) *node {
			root := mkdir(".")
			root.add(mkfile(r, "a.bin", "a", int(cf.bs)))
			root.add(mkfile(r, "z.bin", "z", 100))
			return root
		}},
		{name: "bigfile", mk: func(r *hx.Rng, cf cfg) *node {
			root := mkdir(".")
			root.add(mkfile(r, "big.dat", "big", big))
			root.add(mkfile(r, "tail.txt", "tail", 10))
			return root
		}},
		{name: "manyfiles", mk: func(r *hx.Rng, cf cfg) *node {
			root := mkdir(".")
			d := root.add(mkdir("many"))
			for i := 0; i < many; i++ {
				d.add(mkfile(r, fmt.Sprintf("f%04d.t", i), fmt.Sprintf("m%d", i), i%7))
			}
			root.add(mkfile(r, "after.txt", "after", 33))
			return root
		}},
		{name: "manydirs", mk: func(r *hx.Rng, cf cfg) *node {
			root := mkdir(".")
			for i := 0; i < many/2; i++ {
				d := root.add(mkdir(fmt.Sprintf("d%04d", i)))
				if i%3 == 0 {
					d.add(mkfile(r, "x", fmt.Sprintf("md%d", i), 5))
				}
			}
			return root
		}},
		{name: "depth8", mk: func(r *hx.Rng, cf cfg) *node {
			root := mkdir(".")
			n := root
			for i := 0; i < 7; i++ { // root + 7 = depth 8
				n.add(mkfile(r, fmt.Sprintf("l%d.txt", i), fmt.Sprintf("l%d", i), 10+i))
				n = n.add(mkdir(fmt.Sprintf("lv%d", i)))
			}
			n.add(mkfile(r, "bottom.txt", "bottom", 99))
			return root
		}},
		{name: "depth12", deep: true, mk: func(r *hx.Rng, cf cfg) *node {
			root := mkdir(".")
			n := root
			for i := 0; i < 11; i++ {
				n.add(mkfile(r, fmt.Sprintf("l%d.txt", i), fmt.Sprintf("l%d", i), 10+i))
				n = n.add(mkdir(fmt.Sprintf("lv%d", i)))
			}
			n.add(mkfile(r, "bottom.txt", "bottom", 99))
			return root
		}},
		{name: "collide", mk: func(r *hx.Rng, cf cfg) *node {
			root := mkdir(".")
			for i := 0; i < 12; i++ { // twelve files that all truncate to LONGFILE.TXT: two digits needed
				root.add(mkfile(r, fmt.Sprintf("longfilename%02d.txt", i), fmt.Sprintf("c%d", i), 20+i))
			}
			root.add(mkfile(r, "longfil0.txt", "taken0", 7)) // occupies a candidate name
			root.add(mkfile(r, "LONGFI01.TXT", "taken1", 8))
			root.add(mkfile(r, "Readme.TXT", "r1", 11))
			root.add(mkfile(r, "README.txt", "r2", 12))
			root.add(mkfile(r, "readme.txt", "r3", 13))
			root.add(mkfile(r, "readme", "r4", 14))
			root.add(mkfile(r, "README", "r5", 15))
			d1 := root.add(mkdir("directoryone"))
			d1.add(mkfile(r, "in1", "in1", 3))
			d2 := root.add(mkdir("directorytwo"))
			d2.add(mkfile(r, "in2", "in2", 4))
			root.add(mkdir("Mixed.Case-dir")).add(mkfile(r, "a b.c d", "sp", 5))
			root.add(mkfile(r, "sp ace.t+t", "sp2", 6))
			root.add(mkfile(r, "sp_ace.t_t", "sp3", 6))
			return root
		}},
		{name: "samename", mk: func(r *hx.Rng, cf cfg) *node {
			// equally named directories under different parents (path-table lookups)
			root := mkdir(".")
			for _, top := range []string{"aa", "bb", "cc"} {
				d := root.add(mkdir(top))
				x := d.add(mkdir("x"))
				x.add(mkfile(r, "who.txt", "who-"+top, 10))
				y := x.add(mkdir("y"))
				y.add(mkfile(r, "deep.txt", "deep-"+top, 11))
			}
			root.add(mkdir("x")).add(mkfile(r, "who.txt", "who-root", 9))
			return root
		}},
		{name: "ptwrong", mk: func(r *hx.Rng, cf cfg) *node {
			// "bb/cc" is looked up in the path table as a "bb" whose parent is record 2 = "a0": a0/bb
			root := mkdir(".")
			root.add(mkdir("a0")).add(mkdir("bb")).add(mkfile(r, "one.txt", "one", 10))
			root.add(mkdir("bb")).add(mkdir("cc")).add(mkfile(r, "two.txt", "two", 20))
			return root
		}},
		{name: "nested2", mk: func(r *hx.Rng, cf cfg) *node {
			root := mkdir(".")
			root.add(mkdir("top")).add(mkdir("sub")).add(mkfile(r, "f.txt", "n2", 10))
			return root
		}},
		{name: "longnames", only: func(cf cfg) bool { return cf.exactNames() }, mk: func(r *hx.Rng, cf cfg) *node {
			root := mkdir(".")
			for _, n := range []int{9, 30, 31, 37, 60, 64} {
				root.add(mkfile(r, strings.Repeat("n", n-4)+fmt.Sprintf(".%03d", n), fmt.Sprintf("ln%d", n), n))
			}
			d := root.add(mkdir(strings.Repeat("D", 40)))
			d.add(mkfile(r, "Mixed Case with spaces.and.dots", "mc", 12))
			d.add(mkfile(r, "ünïcödé.txt", "uni", 13))
			return root
		}},
		{name: "rrlong", only: func(cf cfg) bool { return cf.rr && !cf.joliet }, mk: func(r *hx.Rng, cf cfg) *node {
			// names long enough to need continuation areas
			root := mkdir(".")
			sub := root.add(mkdir("sub"))
			sub.add(mkfile(r, "short.txt", "short", 5))
			for _, n := range []int{100, 130, 180, 230, 250} {
				sub.add(mkfile(r, strings.Repeat("r", n), fmt.Sprintf("rl%d", n), n))
			}
			root.add(mkdir("one")).add(mkfile(r, strings.Repeat("q", 200), "q200", 200))
			return root
		}},
		{name: "samedir", mk: func(r *hx.Rng, cf cfg) *node {
			// a file named like the directory it is in
			root := mkdir(".")
			d := root.add(mkdir("data"))
			d.add(mkfile(r, "data", "dd", 12))
			d.add(mkfile(r, "other", "do", 13))
			return root
		}},
		{name: "jlong", only: func(cf cfg) bool { return cf.joliet }, mk: func(r *hx.Rng, cf cfg) *node {
			// Joliet names beyond the format's 64 characters; at 111 the record length no longer fits a byte
			root := mkdir(".")
			for _, n := range []int{65, 100, 110, 111, 120} {
				root.add(mkfile(r, strings.Repeat("j", n-4)+fmt.Sprintf(".%03d", n), fmt.Sprintf("jl%d", n), n))
			}
			return root
		}},
		{name: "rrname250", only: func(cf cfg) bool { return cf.rr && !cf.joliet }, mk: func(r *hx.Rng, cf cfg) *node {
			// one record with a continuation area in its directory: no aliasing; the name needs two NM entries
			root := mkdir(".")
			root.add(mkdir("solo")).add(mkfile(r, strings.Repeat("w", 250), "w250", 25))
			return root
		}},
		{name: "rrlongroot", only: func(cf cfg) bool { return cf.rr && !cf.joliet }, mk: func(r *hx.Rng, cf cfg) *node {
			root := mkdir(".")
			root.add(mkfile(r, strings.Repeat("r", 180), "rl180", 180))
			root.add(mkfile(r, "other.txt", "other", 18))
			return root
		}},
		{name: "dotfiles", mk: func(r *hx.Rng, cf cfg) *node {
			root := mkdir(".")
			root.add(mkfile(r, ".profile", "dot", 10))
			root.add(mkfile(r, "plain.txt", "plain", 10))
			return root
		}},
	}
}

func configs(c *hx.Ctx) []cfg {
	var out []cfg
	for _, bs := range []int64{2048, 4096, 8192} {
		for _, start := range []int64{0, 1 << 20} {
			for m := 0; m < 4; m++ {
				out = append(out, cfg{rr: m&1 != 0, joliet: m&2 != 0, bs: bs, start: start})
			}
		}
	}
	return out
}

func boundary(c *hx.Ctx) {
	cfgs := configs(c)
	for si, sh := range shapes(c) {
		for _, cf := range cfgs {
			if sh.only != nil && !sh.only(cf) {
				continue
			}
			// quick tier: every shape under the four modes at (2048, start 0); the core shapes also under
			// four mixed configurations, the others under one of them; the thorough tier runs the full matrix
			if !c.Thorough() {
				primary := cf.bs == 2048 && cf.start == 0
				mode := b2i(cf.rr) + 2*b2i(cf.joliet)
				secondary := (mode == 0 && cf.bs == 4096 && cf.start == 0) || (mode == 1 && cf.bs == 8192 && cf.start != 0) ||
					(mode == 2 && cf.bs == 2048 && cf.start != 0) || (mode == 3 && cf.bs == 4096 && cf.start != 0)
				core := sh.name == "sizes" || sh.name == "collide" || sh.name == "samename" || sh.name == "lastexact" || sh.name == "ptwrong"
				heavy := sh.name == "bigfile" || sh.name == "manyfiles" || sh.name == "manydirs"
				switch {
				case primary:
				case secondary && core:
				case secondary && !heavy && mode == si%4:
				default:
					continue
				}
			}
			cf.collide = sh.name == "collide"
			variants := []bool{false}
			if sh.deep {
				variants = []bool{false, true}
			}
			for _, deep := range variants {
				cf.deep = deep
				id := fmt.Sprintf("b/%s/rr%v-j%v-bs%d-s%d-deep%v", sh.name, b2i(cf.rr), b2i(cf.joliet), cf.bs, cf.start, b2i(deep))
				if !c.Want(id) {
					continue
				}
				r := hx.NewRng(c.Seed*1000003 + uint64(len(id)))
				root := sh.mk(r, cf)
				c.Stat("shape." + sh.name)
				checkCase(c, id, root, cf)
				c.Sample(id + " " + root.describe())
			}
		}
	}
}

func b2i(b bool) int {
	if b {
		return 1
	}
	return 0
}

func random(c *hx.Ctx) {
	n := c.N(45, 1500)
	cfgs := configs(c)
	for i := 0; i < n; i++ {
		id := fmt.Sprintf("r/%d", i)
		r := c.Rng.Fork()
		if !c.Want(id) {
			continue
		}
		cf := hx.Pick(r, cfgs)
		cf.collide = r.Chance(30)
		maxDepth := 2 + r.Intn(6)
		if r.Chance(8) {
			maxDepth = 9 + r.Intn(3)
			cf.deep = r.Bool()
		}
		maxKids := hx.Pick(r, []int{3, 6, 12, 40})
		if maxDepth > 5 && maxKids > 6 {
			maxKids = 6
		}
		root := randTree(r, maxDepth, maxKids, hx.Pick(r, []int{100, 5000, 70000}), cf)
		c.Stat("shape.random")
		checkCase(c, id, root, cf)
	}
}
