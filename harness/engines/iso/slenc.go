package iso

// Correspondence for the SL ENCODER model (Lean Model/Iso/SymlinkEnc.lean, theorems sl_roundtrip /
// sl_refused): rockRidgeSymlink.Bytes on generated targets byte for byte against `slBytes`, what the
// real parser + ReadLink make of a record carrying those entries against `readLink (parseAll …)`, and
// the target the component records spell (`slRender`).  Oracle on the real code: a target in normal
// form (no empty component, no trailing slash, no backslash) comes back byte for byte.

import (
	"bytes"
	"fmt"
	"strings"

	"github.com/diskfs/go-diskfs/filesystem/iso9660"

	"verif/harness/internal/hx"
	"verif/harness/internal/memdev"
)

// slUni: does the encoder split the target at backslashes too (universalizePath; recorded finding
// iso-rr-symlink-backslash)?
func slUni() bool {
	return bytes.Equal(iso9660.VerifC06SLBytes(`a\b`), iso9660.VerifC06SLBytes(`a/b`))
}

func slTarget(r *hx.Rng) (t string, normal bool) {
	normal = true
	var parts []string
	total := hx.Pick(r, []int{1, 5, 40, 120, 240, 247, 250, 260, 500, 900, 1400})
	for l := 0; l < total; {
		var p string
		switch r.Intn(10) {
		case 0:
			p = ".."
		case 1:
			p = "."
		case 2: // at the limits of one SL entry: a component record of 247..250 bytes
			p = strings.Repeat("k", hx.Pick(r, []int{244, 245, 246, 247, 248}))
		default:
			n := 1 + r.Intn(hx.Pick(r, []int{3, 12, 60, 200}))
			b := make([]byte, n)
			for i := range b {
				b[i] = "abcdefghijklmnopqrstuvwxyz0189_-. \xc3\xa9"[r.Intn(36)]
			}
			if r.Chance(4) { // a backslash: an ordinary character of a POSIX name (finding iso-rr-symlink-backslash)
				b[r.Intn(n)] = '\\'
				normal = false
			}
			p = string(b)
		}
		parts = append(parts, p)
		l += len(p) + 1
	}
	sep := "/"
	t = strings.Join(parts, sep)
	switch r.Intn(10) {
	case 0, 1, 2:
		t = "/" + t
	case 3:
		t = t + "/"
		normal = false
	case 4:
		if len(parts) > 1 {
			t = strings.Join(parts, "//")
			normal = false
		}
	case 5:
		if r.Chance(30) {
			t = "/"
		}
	}
	return t, normal
}

func slCases(c *hx.Ctx, r *hx.Rng) {
	uni := 0
	if slUni() {
		uni = 1
		c.Stat("sl.backslash-as-found")
	}
	n := c.N(200, 5000)
	for i := 0; i < n; i++ {
		id := fmt.Sprintf("d/slenc/%d", i)
		rr := r.Fork()
		if !c.Want(id) {
			continue
		}
		target, normal := slTarget(rr)
		if i == 0 {
			target, normal = "/", true
		}
		if i == 1 {
			target, normal = "../"+strings.Repeat("q", 248), true
		}
		var blob []byte
		err, _ := safely(func() error { blob = iso9660.VerifC06SLBytes(target); return nil })
		if err != nil {
			c.Fail(id, tagNoFind, fmt.Sprintf("rockRidgeSymlink.Bytes panics on the target %q: %v", target, err), "")
			continue
		}
		// a record carrying the entries (continuation areas on a device of 4096-byte blocks)
		base, berr := iso9660.VerifDirRecordBytes("LINK.;1", false, false, false, 77, 0, 2024, 5, 6, 7, 8, 9, 0)
		if berr != nil {
			continue
		}
		const bs = 4096
		ce := []uint32{50, 51, 52, 53}
		as, aerr := iso9660.VerifC06Assemble([]string{"s" + target}, 254-len(base), bs, ce)
		if aerr != nil {
			c.Stat("sl.writer-refused")
			continue
		}
		rec := append(append([]byte{}, base...), as[0]...)
		if len(rec)%2 != 0 {
			rec = append(rec, 0)
		}
		rec[0] = byte(len(rec))
		dev := memdev.New(64 * bs)
		for j := 1; j < len(as); j++ {
			dev.RawWrite(as[j], int64(ce[j-1])*bs)
		}
		var v *iso9660.VerifC06Rec
		perr, _ := safely(func() error {
			var e error
			v, e = iso9660.VerifC06Record(rec, dev, bs)
			return e
		})
		rt := "err"
		if perr == nil && v != nil {
			rt = "none"
			if v.HasTarget {
				rt = hexOrDash([]byte(v.Target))
			}
		}
		c.Case(id, "iso.slenc", "t="+hexOrDash([]byte(target)), fmt.Sprintf("uni=%d", uni))
		c.Impl(id, "b="+hexOrDash(blob), "rt="+rt, "norm="+rt, "ok=1")
		c.Stat("corr.slenc")
		c.Distinct(fmt.Sprintf("slenc|%d|%d|%v", len(target), len(blob), normal))
		switch {
		case !normal:
			c.Stat("sl.not-normal-form") // empty components / trailing slash are not representable; backslash: finding of C19
		case perr != nil || v == nil || !v.HasTarget || v.Target != target:
			c.Fail(id+"/roundtrip", tagNoFind, fmt.Sprintf("symlink target %q (%d bytes) in normal form does not come back: %q %v", target, len(target), rt, perr), "")
		default:
			c.OK(id + "/roundtrip")
		}
	}
}
