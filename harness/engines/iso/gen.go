package iso

import (
	"crypto/sha256"
	"encoding/hex"
	"fmt"
	"sort"
	"strings"

	"verif/harness/internal/hx"
)

// node is one entry of a generated workspace tree.
type node struct {
	name string
	dir  bool
	data []byte
	kids []*node
}

func (n *node) add(k *node) *node { n.kids = append(n.kids, k); return k }

func mkdir(name string) *node { return &node{name: name, dir: true} }

// fileData makes content that is unique per (tag) and of exactly n bytes.
func fileData(r *hx.Rng, tag string, n int) []byte {
	if n == 0 {
		return []byte{}
	}
	b := r.Bytes(n)
	copy(b, []byte("<"+tag+">"))
	return b
}

func mkfile(r *hx.Rng, name, tag string, size int) *node {
	return &node{name: name, data: fileData(r, tag, size)}
}

func sum(b []byte) string {
	h := sha256.Sum256(b)
	return hex.EncodeToString(h[:8])
}

type vEnt struct {
	dir  bool
	size int64
	sum  string
}

func (v vEnt) String() string {
	if v.dir {
		return "dir"
	}
	return fmt.Sprintf("file(%d,%s)", v.size, v.sum)
}

// view maps io/fs-style paths (root excluded) to what is there.
type view map[string]vEnt

func expectedView(root *node) view {
	v := view{}
	var rec func(n *node, p string)
	rec = func(n *node, p string) {
		for _, k := range n.kids {
			kp := join(p, k.name)
			if k.dir {
				v[kp] = vEnt{dir: true}
				rec(k, kp)
			} else {
				v[kp] = vEnt{size: int64(len(k.data)), sum: sum(k.data)}
			}
		}
	}
	rec(root, ".")
	return v
}

func (v view) children(p string) []string {
	var out []string
	for k := range v {
		if parentOf(k) == p {
			out = append(out, baseOf(k))
		}
	}
	sort.Strings(out)
	return out
}

func parentOf(p string) string {
	i := strings.LastIndexByte(p, '/')
	if i < 0 {
		return "."
	}
	return p[:i]
}

func baseOf(p string) string {
	i := strings.LastIndexByte(p, '/')
	return p[i+1:]
}

func cmpExact(exp, got view) error {
	keys := make([]string, 0, len(exp))
	for k := range exp {
		keys = append(keys, k)
	}
	sort.Strings(keys)
	for _, k := range keys {
		g, ok := got[k]
		if !ok {
			return fmt.Errorf("%q (%v) is missing", k, exp[k])
		}
		if g != exp[k] {
			return fmt.Errorf("%q is %v, expected %v", k, g, exp[k])
		}
	}
	gk := make([]string, 0, len(got))
	for k := range got {
		gk = append(gk, k)
	}
	sort.Strings(gk)
	for _, k := range gk {
		if _, ok := exp[k]; !ok {
			return fmt.Errorf("unexpected entry %q (%v)", k, got[k])
		}
	}
	return nil
}

// ---- the documented plain-ISO9660 name rule, implemented independently ------------------------
// upper-case; split at the first dot; every character outside A-Z 0-9 _ becomes _; base at most
// 8 characters, extension (files only) at most 3; directories carry no extension. Colliding names
// get a numeric suffix replacing the end of the base (xorriso's scheme), which one gets which
// number is not specified.

func upRune(c rune) rune {
	switch {
	case c >= 'a' && c <= 'z':
		return c - 32
	case c == 0x131: // dotless i upper-cases to I
		return 'I'
	case c == 0x17f: // long s upper-cases to S
		return 'S'
	}
	return c
}

func cleanPart(s string) string {
	var sb strings.Builder
	for _, c := range s {
		c = upRune(c)
		if (c >= 'A' && c <= 'Z') || (c >= '0' && c <= '9') || c == '_' {
			sb.WriteRune(c)
		} else {
			sb.WriteByte('_')
		}
	}
	return sb.String()
}

func mangle(name string, isDir bool) (base, ext string) {
	b, e, _ := strings.Cut(name, ".")
	base = cleanPart(b)
	ext = cleanPart(e)
	if len(base) > 8 {
		base = base[:8]
	}
	if len(ext) > 3 {
		ext = ext[:3]
	}
	if isDir {
		ext = ""
	}
	return
}

func shownPlain(base, ext string) string {
	if ext == "" {
		return base
	}
	return base + "." + ext
}

// plainCandidate: may an entry that was `name` in the workspace be shown as `got` in a plain image?
func plainCandidate(name string, isDir bool, got string) bool {
	base, ext := mangle(name, isDir)
	gb, ge, _ := strings.Cut(got, ".")
	if ge != ext {
		return false
	}
	if gb == base {
		return true
	}
	if len(gb) > 8 || len(gb) == 0 {
		return false
	}
	// gb = prefix(base, 8-d) + d digits, for some d in 1..7
	for d := 1; d <= 7 && d <= len(gb); d++ {
		digits := gb[len(gb)-d:]
		ok := true
		for _, c := range digits {
			if c < '0' || c > '9' {
				ok = false
			}
		}
		if !ok {
			break
		}
		pre := base
		if len(pre) > 8-d {
			pre = pre[:8-d]
		}
		if gb[:len(gb)-d] == pre {
			return true
		}
	}
	return false
}

// cmpMangled checks that `got` is the tree under an injective renaming that follows the rule.
func cmpMangled(root *node, got view) error {
	memo := map[string]error{}
	var matchDir func(n *node, p string) error
	matchDir = func(n *node, p string) error {
		key := fmt.Sprintf("%p|%s", n, p)
		if e, ok := memo[key]; ok {
			return e
		}
		names := got.children(p)
		var res error
		defer func() { memo[key] = res }()
		if len(names) != len(n.kids) {
			res = fmt.Errorf("directory %q has %d entries %v, the workspace directory has %d", p, len(names), trunc(names), len(n.kids))
			return res
		}
		// compat[i] = indices of image names that original kid i may be
		adj := make([][]int, len(n.kids))
		for i, k := range n.kids {
			for j, nm := range names {
				if !plainCandidate(k.name, k.dir, nm) {
					continue
				}
				g := got[join(p, nm)]
				if g.dir != k.dir {
					continue
				}
				if k.dir {
					if matchDir(k, join(p, nm)) != nil {
						continue
					}
				} else if g.size != int64(len(k.data)) || g.sum != sum(k.data) {
					continue
				}
				adj[i] = append(adj[i], j)
			}
			if len(adj[i]) == 0 {
				var why string
				b, e := mangle(k.name, k.dir)
				want := shownPlain(b, e)
				if g, ok := got[join(p, want)]; ok {
					why = fmt.Sprintf("; image has %q = %v", want, g)
					if k.dir && g.dir {
						why += fmt.Sprintf(" (%v)", matchDir(k, join(p, want)))
					}
				}
				res = fmt.Errorf("in %q nothing corresponds to workspace entry %q (expected name %q or a numbered variant, %s)%s; image names: %v",
					p, k.name, want, kindOf(k), why, trunc(names))
				return res
			}
		}
		// perfect matching (Kuhn)
		matchOf := make([]int, len(names))
		for i := range matchOf {
			matchOf[i] = -1
		}
		var try func(i int, seen []bool) bool
		try = func(i int, seen []bool) bool {
			for _, j := range adj[i] {
				if seen[j] {
					continue
				}
				seen[j] = true
				if matchOf[j] < 0 || try(matchOf[j], seen) {
					matchOf[j] = i
					return true
				}
			}
			return false
		}
		for i := range n.kids {
			if !try(i, make([]bool, len(names))) {
				res = fmt.Errorf("in %q the image names %v cannot be assigned one-to-one to the workspace entries (stuck at %q)", p, trunc(names), n.kids[i].name)
				return res
			}
		}
		return nil
	}
	return matchDir(root, ".")
}

func kindOf(k *node) string {
	if k.dir {
		return "directory"
	}
	return fmt.Sprintf("file of %d bytes %s", len(k.data), sum(k.data))
}

func trunc(s []string) []string {
	if len(s) > 12 {
		return append(append([]string{}, s[:12]...), fmt.Sprintf("…(%d)", len(s)))
	}
	return s
}

// ---- tree shapes -----------------------------------------------------------------------------

func (n *node) count() (dirs, files int, bytes int64) {
	for _, k := range n.kids {
		if k.dir {
			d, f, b := k.count()
			dirs += 1 + d
			files += f
			bytes += b
		} else {
			files++
			bytes += int64(len(k.data))
		}
	}
	return
}

func (n *node) maxDepth() int { // root alone = 1
	m := 0
	for _, k := range n.kids {
		if k.dir {
			if d := k.maxDepth(); d > m {
				m = d
			}
		}
	}
	return m + 1
}

func (n *node) hasNestedDir() bool {
	for _, k := range n.kids {
		if k.dir {
			for _, kk := range k.kids {
				if kk.dir {
					return true
				}
			}
			if k.hasNestedDir() {
				return true
			}
		}
	}
	return false
}

// hasEmptyBase: some name mangles to an empty base (dot files): plain ISO9660 cannot name it.
func (n *node) hasEmptyBase() bool {
	for _, k := range n.kids {
		if b, _ := mangle(k.name, k.dir); b == "" {
			return true
		}
		if k.dir && k.hasEmptyBase() {
			return true
		}
	}
	return false
}

func (n *node) describe() string {
	d, f, b := n.count()
	return fmt.Sprintf("dirs=%d files=%d bytes=%d depth=%d", d, f, b, n.maxDepth())
}

var nameAlphabet = []string{"a", "b", "c", "x", "Y", "Z", "0", "7", "_", "-", "e", "N"}

func randName(r *hx.Rng, long bool, exact bool) string {
	n := 1 + r.Intn(7)
	if long {
		n = 9 + r.Intn(22)
	}
	var sb strings.Builder
	for i := 0; i < n; i++ {
		c := hx.Pick(r, nameAlphabet)
		if !exact && c == "-" {
			c = "q"
		}
		sb.WriteString(c)
	}
	return sb.String()
}

// randTree: random tree with unique names per directory; exact=false keeps names inside the
// character set that survives the plain mapping unchanged apart from case.
func randTree(r *hx.Rng, maxDepth, maxKids, maxFile int, c cfg) *node {
	root := mkdir(".")
	serial := 0
	var fill func(n *node, depth int)
	fill = func(n *node, depth int) {
		k := r.Intn(maxKids + 1)
		if serial > 1200 {
			k = 0
		}
		used := map[string]bool{}
		usedUp := map[string]bool{}
		for i := 0; i < k; i++ {
			long := r.Chance(25)
			nm := randName(r, long, c.exactNames())
			isDir := depth < maxDepth && r.Chance(30)
			if !isDir && r.Chance(70) {
				nm += "." + hx.Pick(r, []string{"txt", "c", "TXT", "data", "h", "tar.gz", "Md"})
			}
			if used[nm] {
				continue
			}
			if !c.collide {
				// without collisions: keep mangled names distinct too
				b, e := mangle(nm, isDir)
				key := b
				if e != "" {
					key = b + "." + e
				}
				if usedUp[key] {
					continue
				}
				usedUp[key] = true
			}
			used[nm] = true
			serial++
			if isDir {
				fill(n.add(mkdir(nm)), depth+1)
			} else {
				var sz int
				switch r.Intn(8) {
				case 0:
					sz = 0
				case 1:
					sz = int(c.bs)
				case 2:
					sz = int(c.bs) * (1 + r.Intn(3))
				case 3:
					sz = int(c.bs) - 1
				case 4:
					sz = int(c.bs) + 1
				default:
					sz = r.Intn(maxFile + 1)
				}
				n.add(mkfile(r, nm, fmt.Sprintf("f%d", serial), sz))
			}
		}
	}
	fill(root, 1)
	return root
}
