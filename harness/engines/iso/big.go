package iso

// Files of 4 GiB and more (thorough tier only): the directory record has a 32-bit size field and the
// writer knows no multi-extent files. What Finalize does with such a file is recorded here.

import (
	"fmt"
	"os"
	"path/filepath"

	"github.com/diskfs/go-diskfs/backend"
	"github.com/diskfs/go-diskfs/filesystem/iso9660"

	"verif/harness/internal/hx"
	"verif/harness/internal/memdev"
)

const tagBig = "iso-file-4gib-size-wraps"

// quietDev: a memdev whose writes are not logged (Finalize copies a file in 2048-byte chunks: two
// million WriteAt calls for 4 GiB)
type quietDev struct{ *memdev.Dev }

func (q quietDev) Writable() (backend.WritableFile, error) { return quietW{q.Dev}, nil }

type quietW struct{ *memdev.Dev }

func (w quietW) WriteAt(p []byte, off int64) (int, error) { w.Dev.RawWrite(p, off); return len(p), nil }

// bigFileWitness finalizes a workspace holding one sparse file of `size` bytes and reports the size
// its directory record shows.
func bigFileWitness(size int64) (recSize uint32, volBlocks uint32, err error) {
	dev := quietDev{memdev.New(size + 64<<20)}
	var fsys *iso9660.FileSystem
	err, _ = safely(func() error {
		var e error
		fsys, e = iso9660.Create(dev, size+32<<20, 0, 2048, "")
		if e != nil {
			return e
		}
		f, e := fsys.OpenFile("big.bin", os.O_CREATE|os.O_RDWR)
		if e != nil {
			return e
		}
		f.Close()
		if e = os.Truncate(filepath.Join(fsys.Workspace(), "big.bin"), size); e != nil {
			return e
		}
		return fsys.Finalize(iso9660.FinalizeOptions{VolumeIdentifier: "BIG"})
	})
	if err != nil {
		return 0, 0, err
	}
	loc, _ := locate(dev.Dev, cfg{bs: 2048})
	if loc == nil || loc.img.pvdErr != nil {
		return 0, 0, fmt.Errorf("image not readable by the independent reader")
	}
	for _, e := range loc.img.pvd.ents {
		if !e.isDir {
			return e.size, loc.img.volBlocks, nil
		}
	}
	return 0, 0, fmt.Errorf("no file record found")
}

func bigFiles(c *hx.Ctx) {
	if !c.Thorough() || !c.Want("w/bigfile") {
		return
	}
	// 4 GiB - 1: the largest size the record can hold
	if sz, vol, err := bigFileWitness(1<<32 - 1); err != nil || sz != 1<<32-1 {
		c.Fail("w/bigfile/max", tagNoFind, fmt.Sprintf("a file of 4 GiB - 1 bytes is recorded with size %d (volume %d blocks): %v", sz, vol, err), "")
	} else {
		c.OK("w/bigfile/max")
		c.Stat("bigfile.4gib-1")
	}
	// 4 GiB + 5: Finalize accepts it, copies all of it, and records the size modulo 2^32
	sz, vol, err := bigFileWitness(1<<32 + 5)
	c.Stat("bigfile.4gib+5")
	c.Known(tagBig, err == nil && sz == 5, fmt.Sprintf("a file of 4 GiB + 5 bytes: Finalize returns %v, the volume has %d blocks, the directory record says %d bytes", err, vol, sz))
}
