package iso

// The dirty-device regime: Finalize onto a device that already holds NON-ZERO bytes everywhere (a
// recycled image file, a used partition, erased flash reading 0xFF). The property says the image
// contains EXACTLY the tree, so nothing a reader looks at may depend on what the device held before:
// every clause of checkCase is evaluated on such a device (library reader, fs.WalkDir, independent
// reader against the workspace tree), with trees whose files carry zero runs that cover whole copy
// chunks of Finalize (a writer that leaves zero chunks "sparse" shows the old bytes there), plus the
// clause <id>/dirty:
//   - every byte a reader is sent to by the image's own structures was WRITTEN by Finalize (it lies in
//     the union of the logged WriteAt ranges): the system area (32768 bytes, which must read as zero:
//     Finalize has no system-area input, an old boot sector / partition table must not survive), every
//     volume descriptor sector, every directory extent and continuation area, both path tables (and
//     the Joliet ones) in their recorded length, every file extent in its recorded length;
//   - the unused tail of the last block of every directory extent is zero (ECMA-119 6.8.1.1: unused
//     byte positions after the last record of a sector are (00); readers that take directories
//     block-wise see those bytes);
//   - no byte outside the volume changed.
// NOT demanded (unreferenced padding is free): the bytes after a path table / continuation area up to
// the end of its block, the rest of a block that holds a 2048-byte descriptor when the block size is
// larger, the tail of a file's last block (Finalize zero-fills it; the oracle does not insist).

import (
	"fmt"
	"hash/crc32"
	"os"
	"path/filepath"
	"sort"
	"strings"

	"verif/harness/internal/hx"
	"verif/harness/internal/memdev"
)

// fillByte is what the device holds at byte off before Create: never zero.
func fillByte(mode int, off int64) byte {
	if mode == 1 {
		return 0xFF
	}
	return byte(1 + (off*7+(off>>11)*13+(off>>16))%255)
}

func prefill(dev *memdev.Dev, mode int) {
	const chunk = 1 << 16
	buf := make([]byte, chunk)
	for off := int64(0); off < dev.Size(); off += chunk {
		n := int64(chunk)
		if off+n > dev.Size() {
			n = dev.Size() - off
		}
		for i := int64(0); i < n; i++ {
			buf[i] = fillByte(mode, off+i)
		}
		dev.RawWrite(buf[:n], off)
	}
}

// zfile: a file whose content is built from runs; 'z' runs are zero, 'r' runs random non-zero-ish bytes.
func zfile(r *hx.Rng, name string, runs ...int) *node {
	var data []byte
	for i, n := range runs {
		if n < 0 { // zero run of -n bytes
			data = append(data, make([]byte, -n)...)
			continue
		}
		b := r.Bytes(n)
		for j := range b {
			if b[j] == 0 {
				b[j] = byte(1 + (i+j)%200)
			}
		}
		data = append(data, b...)
	}
	if data == nil {
		data = []byte{}
	}
	return &node{name: name, data: data}
}

func dirtyShapes() []shape {
	return []shape{
		{name: "zerofiles", mk: func(r *hx.Rng, cf cfg) *node {
			bs := int(cf.bs)
			root := mkdir(".")
			add := func(d *node) {
				d.add(zfile(r, "z1.bin", -2048))                   // one all-zero chunk
				d.add(zfile(r, "z3.bin", -3*2048))                 // k chunks, nothing else
				d.add(zfile(r, "zblk.bin", -2*bs))                 // whole blocks of zero
				d.add(zfile(r, "mid.bin", 2048, -2*2048, 100))     // zero run in the middle, chunk aligned
				d.add(zfile(r, "tail.bin", 2048, -(2048 + 500)))   // zero tail: a whole chunk and a partial one
				d.add(zfile(r, "head.bin", -2048, 10))             // zero head
				d.add(zfile(r, "small.bin", -100))                 // a short all-zero file (one partial chunk)
				d.add(zfile(r, "unal.bin", 1000, -4096, 1000))     // unaligned zero run that still covers chunk [2048,4096)
				d.add(zfile(r, "dense.bin", 3*2048+7))             // no zero run at all
				d.add(zfile(r, "empty.bin"))                       // nothing
				d.add(zfile(r, "last.bin", bs-1, -(bs + 1), 1, 5)) // zero run across a block boundary, not chunk aligned
			}
			add(root)
			add(root.add(mkdir("sub")))
			return root
		}},
		{name: "zerodirs", mk: func(r *hx.Rng, cf cfg) *node {
			// directories of more than one block (zero fill between records at block ends), nested and empty
			// directories, names long enough for Rock Ridge continuation areas, all next to zero-run files
			root := mkdir(".")
			many := root.add(mkdir("many"))
			for i := 0; i < 70; i++ {
				if i%9 == 0 {
					many.add(zfile(r, fmt.Sprintf("file%03d.dat", i), -2048))
				} else {
					many.add(zfile(r, fmt.Sprintf("file%03d.dat", i), i%5))
				}
			}
			root.add(mkdir("hollow"))
			n := root
			for i := 0; i < 4; i++ {
				n = n.add(mkdir(fmt.Sprintf("lv%d", i)))
				n.add(zfile(r, "z.bin", -2048, 3))
			}
			if cf.rr && !cf.joliet {
				root.add(mkdir("solo")).add(zfile(r, strings.Repeat("w", 180), -2048, 25))
			}
			if cf.exactNames() {
				root.add(zfile(r, "Mixed Case name with spaces.and.dots", 12, -4096))
			}
			return root
		}},
	}
}

// zeroize gives a share of the files of a random tree zero runs that cover whole copy chunks.
func zeroize(r *hx.Rng, n *node) {
	for _, k := range n.kids {
		if k.dir {
			zeroize(r, k)
			continue
		}
		if len(k.data) == 0 || !r.Chance(60) {
			continue
		}
		switch r.Intn(4) {
		case 0: // all zero
			for i := range k.data {
				k.data[i] = 0
			}
		case 1: // zero tail from a chunk boundary
			from := (r.Intn(len(k.data)/2048+1) * 2048)
			for i := from; i < len(k.data); i++ {
				k.data[i] = 0
			}
		case 2: // one aligned chunk
			from := (r.Intn(len(k.data)/2048+1) * 2048)
			for i := from; i < len(k.data) && i < from+2048; i++ {
				k.data[i] = 0
			}
		default: // a random run
			from := r.Intn(len(k.data))
			ln := 1 + r.Intn(3*2048)
			for i := from; i < len(k.data) && i < from+ln; i++ {
				k.data[i] = 0
			}
		}
	}
}

func dirtyCases(c *hx.Ctx) {
	type dcfg struct {
		mode  int
		bs    int64
		fill  int
		start int64
	}
	for si, sh := range dirtyShapes() {
		var list []dcfg
		if c.Thorough() {
			for _, bs := range []int64{2048, 4096, 8192} {
				for m := 0; m < 4; m++ {
					for fill := 1; fill <= 2; fill++ {
						list = append(list, dcfg{m, bs, fill, 0})
						if bs == 2048 {
							list = append(list, dcfg{m, bs, fill, 1 << 20})
						}
					}
				}
			}
		} else if si == 0 {
			for m := 0; m < 4; m++ {
				list = append(list, dcfg{m, 2048, 1, 0}, dcfg{m, 2048, 2, 0})
			}
			// inside a partition: the start offset is honoured through a SubStorage window
			list = append(list, dcfg{0, 4096, 1, 0}, dcfg{3, 8192, 2, 0}, dcfg{1, 2048, 2, 1 << 20}, dcfg{2, 2048, 1, 1 << 20})
		} else {
			for m := 0; m < 4; m++ {
				list = append(list, dcfg{m, 2048, 1 + (m+int(c.Seed))%2, 0})
			}
			list = append(list, dcfg{1, 4096, 2, 0})
		}
		for _, dc := range list {
			cf := cfg{rr: dc.mode&1 != 0, joliet: dc.mode&2 != 0, bs: dc.bs, dirty: dc.fill, start: dc.start}
			id := fmt.Sprintf("z/%s/rr%v-j%v-bs%d-fill%d", sh.name, b2i(cf.rr), b2i(cf.joliet), cf.bs, cf.dirty)
			if cf.start != 0 {
				id += fmt.Sprintf("-s%d", cf.start)
			}
			if !c.Want(id) {
				continue
			}
			r := hx.NewRng(c.Seed*1000033 + uint64(len(id)) + uint64(dc.fill))
			root := sh.mk(r, cf)
			c.Stat("shape." + sh.name)
			runDirty(c, id, root, cf)
			c.Sample(id + " " + root.describe())
		}
	}
	// seeded random trees with zero runs
	n := c.N(6, 200)
	for i := 0; i < n; i++ {
		id := fmt.Sprintf("z/r/%d", i)
		r := c.Rng.Fork()
		if !c.Want(id) {
			continue
		}
		cf := cfg{bs: hx.Pick(r, []int64{2048, 2048, 4096, 8192}), dirty: 1 + r.Intn(2)}
		m := r.Intn(4)
		cf.rr, cf.joliet = m&1 != 0, m&2 != 0
		root := randTree(r, 1+r.Intn(4), hx.Pick(r, []int{3, 8, 20}), hx.Pick(r, []int{3000, 20000}), cf)
		zeroize(r, root)
		c.Stat("shape.random-zero-runs")
		runDirty(c, id, root, cf)
	}
}

func runDirty(c *hx.Ctx, id string, root *node, cf cfg) {
	c.Stat("dirty_device")
	c.Stat(fmt.Sprintf("dirty_device.fill=%d", cf.dirty))
	res := checkCase(c, id, root, cf)
	if res == nil || res.loc == nil {
		return
	}
	repro := fmt.Sprintf("%s tree{%s} (device pre-filled, see dirty.go fillByte)", cf, root.describe())
	if err := dirtyOracle(res, cf); err != nil {
		c.Fail(id+"/dirty", tagNoFind, "image on a device that held non-zero bytes: "+err.Error(), repro)
	} else {
		c.OK(id + "/dirty")
	}
	// the model on the image of a dirty device: the pure reader of reader_finds_layout_any_device must
	// return the independent reader's view from these bytes, and the model's write list must be the
	// logged one (plain images at byte 0 only, as in imageCases)
	img := res.loc.img
	volBytes := int64(img.volBlocks) * cf.bs
	if cf.rr || cf.joliet || volBytes >= 1<<20 || res.loc.base != 0 || img.pvdErr != nil {
		return
	}
	tag := strings.ReplaceAll(strings.TrimPrefix(id, "z/"), "/", "-")
	idRd, idLog := "d/zreadp/"+tag, "d/zwlog/"+tag
	if !c.Want(idRd) && !c.Want(idLog) {
		return
	}
	p := filepath.Join(c.Scratch, "zimg-"+tag+".iso")
	if err := os.WriteFile(p, res.b.dev.Bytes(0, int(volBytes)), 0o644); err != nil {
		return
	}
	if c.Want(idRd) {
		var vs []string
		pe := append([]iEnt(nil), img.pvd.ents...)
		sort.Slice(pe, func(a, b int) bool { return pe[a].isoPath < pe[b].isoPath })
		for _, e := range pe {
			if e.isDir {
				vs = append(vs, fmt.Sprintf("%s|d|%d|%d", e.isoPath, e.loc, e.size))
			} else {
				vs = append(vs, fmt.Sprintf("%s|f|%d|%d|%d", e.isoPath, e.loc, e.size, crc32.ChecksumIEEE(res.b.dev.Bytes(int64(e.loc)*cf.bs, int(e.size)))))
			}
		}
		c.Case(idRd, "iso.readp", "path="+p, fmt.Sprintf("first=%d", res.loc.firstDesc))
		c.Impl(idRd, fmt.Sprintf("bs=%d", img.bs), fmt.Sprintf("vol=%d", img.volBlocks), fmt.Sprintf("ptS=%d", img.ptSize), fmt.Sprintf("ptL=%d", img.ptL),
			fmt.Sprintf("ptM=%d", img.ptM), fmt.Sprintf("root=%d:%d", img.rootLoc, img.rootSize), "v="+strings.Join(vs, ";"))
		c.Stat("corr.purereader-dirty")
	}
	if c.Want(idLog) {
		wlogCase(c, idLog, p, res.b, res.loc)
	}
}

type span struct{ lo, hi int64 }

// written: the union of the logged WriteAt ranges, as sorted disjoint spans.
func written(dev *memdev.Dev) []span {
	var s []span
	for _, e := range dev.Log {
		if !e.Sync && e.Len > 0 {
			s = append(s, span{e.Off, e.Off + int64(e.Len)})
		}
	}
	sort.Slice(s, func(i, j int) bool { return s[i].lo < s[j].lo })
	var out []span
	for _, x := range s {
		if n := len(out); n > 0 && x.lo <= out[n-1].hi {
			if x.hi > out[n-1].hi {
				out[n-1].hi = x.hi
			}
			continue
		}
		out = append(out, x)
	}
	return out
}

// firstGap: the first byte of [lo,hi) that no write covered, or -1.
func firstGap(w []span, lo, hi int64) int64 {
	if lo >= hi {
		return -1
	}
	i := sort.Search(len(w), func(i int) bool { return w[i].hi > lo })
	if i == len(w) || w[i].lo > lo {
		return lo
	}
	if w[i].hi >= hi {
		return -1
	}
	return w[i].hi // spans are disjoint and not adjacent-merged only when there is a gap
}

func dirtyOracle(res *caseResult, cf cfg) error {
	dev, img, base := res.b.dev, res.loc.img, res.loc.base
	bs := int64(img.bs)
	w := written(dev)
	type ref struct {
		what   string
		lo, hi int64
	}
	refs := []ref{{"system area", 0, 16 * 2048}}
	for i := 0; i < img.nDesc; i++ {
		at := res.loc.firstDesc + int64(i)*res.loc.stride
		refs = append(refs, ref{fmt.Sprintf("volume descriptor %d", i), at, at + 2048})
	}
	addTree := func(kind string, t iTree) {
		for _, d := range t.dirs {
			refs = append(refs, ref{kind + "directory " + d.path, int64(d.loc) * bs, int64(d.loc)*bs + int64(d.size)})
			for _, a := range d.ceAreas {
				refs = append(refs, ref{kind + "continuation area of " + d.path, a[0], a[1]})
			}
		}
		for _, e := range t.ents {
			if !e.isDir {
				refs = append(refs, ref{kind + "file " + e.path, int64(e.loc) * bs, int64(e.loc)*bs + int64(e.size)})
			}
		}
	}
	addTree("", img.pvd)
	refs = append(refs, ref{"L path table", int64(img.ptL) * bs, int64(img.ptL)*bs + int64(img.ptSize)},
		ref{"M path table", int64(img.ptM) * bs, int64(img.ptM)*bs + int64(img.ptSize)})
	if img.hasJoliet {
		addTree("Joliet ", img.svd)
		refs = append(refs, ref{"Joliet L path table", int64(img.jptL) * bs, int64(img.jptL)*bs + int64(img.jptSize)},
			ref{"Joliet M path table", int64(img.jptM) * bs, int64(img.jptM)*bs + int64(img.jptSize)})
	}
	for _, r := range refs {
		if g := firstGap(w, base+r.lo, base+r.hi); g >= 0 {
			return fmt.Errorf("%s occupies bytes [%d,%d) of the image but Finalize never wrote byte %d: it still holds what the device held before (0x%02x)",
				r.what, r.lo, r.hi, g-base, dev.Bytes(g, 1)[0])
		}
	}
	if !allZero(dev.Bytes(base, 16*2048)) {
		return fmt.Errorf("the system area (sectors 0-15) is not zero")
	}
	// unused bytes after the last record of a directory sector
	for _, t := range []iTree{img.pvd, img.svd} {
		for _, d := range t.dirs {
			end := int64(d.loc)*bs + int64(d.size)
			if rem := end % bs; rem != 0 {
				if !allZero(dev.Bytes(base+end, int(bs-rem))) {
					return fmt.Errorf("directory %s: the %d bytes after its last record up to the end of the block are not zero (old device contents)", d.path, bs-rem)
				}
			}
		}
	}
	// nothing outside the volume changed
	volEnd := base + int64(img.volBlocks)*bs
	const chunk = 1 << 16
	for _, rg := range [][2]int64{{0, base}, {volEnd, dev.Size()}} {
		for off := rg[0]; off < rg[1]; off += chunk {
			n := int64(chunk)
			if off+n > rg[1] {
				n = rg[1] - off
			}
			for i, x := range dev.Bytes(off, int(n)) {
				if x != fillByte(cf.dirty, off+int64(i)) {
					return fmt.Errorf("byte %d of the device, outside the volume [%d,%d), changed from 0x%02x to 0x%02x", off+int64(i), base, volEnd, fillByte(cf.dirty, off+int64(i)), x)
				}
			}
		}
	}
	return nil
}
