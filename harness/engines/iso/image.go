package iso

// Correspondence for the whole-image model (Lean Model/Iso/Image.lean) on real PLAIN images
// (no Rock Ridge, no Joliet): the primary volume descriptor codec, the pure reader that
// `reader_finds_layout` is about, and the model's own ENCODING of the image (directory extents,
// PVD, placement) against the bytes the library wrote.

import (
	"encoding/binary"
	"fmt"
	"hash/crc32"
	"os"
	"path/filepath"
	"sort"
	"strings"

	"verif/harness/internal/hx"
)

func imageCases(c *hx.Ctx, i int, cf cfg, b built, loc *located) {
	img := loc.img
	volBytes := int64(img.volBlocks) * cf.bs
	if cf.rr || cf.joliet || volBytes >= 1<<20 || loc.base != 0 {
		return
	}
	idPvd, idRd, idEnc, idLog := fmt.Sprintf("d/pvd/%d", i), fmt.Sprintf("d/readp/%d", i), fmt.Sprintf("d/encimg/%d", i), fmt.Sprintf("d/wlog/%d", i)
	if !c.Want(idPvd) && !c.Want(idRd) && !c.Want(idEnc) && !c.Want(idLog) {
		return
	}
	pvd := b.dev.Bytes(loc.firstDesc, 2048)
	if c.Want(idPvd) {
		c.Case(idPvd, "iso.pvd", "b="+hx.Hex(pvd))
		c.Impl(idPvd, fmt.Sprintf("vol=%d", img.volBlocks), fmt.Sprintf("set=%d", binary.LittleEndian.Uint16(pvd[120:])), fmt.Sprintf("seq=%d", binary.LittleEndian.Uint16(pvd[124:])),
			fmt.Sprintf("bs=%d", img.bs), fmt.Sprintf("ptS=%d", img.ptSize), fmt.Sprintf("ptL=%d", img.ptL), fmt.Sprintf("ptM=%d", img.ptM),
			fmt.Sprintf("root=%d:%d", img.rootLoc, img.rootSize), "re=1")
		c.Stat("corr.pvd")
	}
	p := filepath.Join(c.Scratch, fmt.Sprintf("pimg-%d.iso", i))
	if err := os.WriteFile(p, b.dev.Bytes(0, int(volBytes)), 0o644); err != nil {
		return
	}
	if c.Want(idRd) {
		var vs []string
		pe := append([]iEnt(nil), img.pvd.ents...)
		sort.Slice(pe, func(a, b int) bool { return pe[a].isoPath < pe[b].isoPath })
		for _, e := range pe {
			if e.isDir {
				vs = append(vs, fmt.Sprintf("%s|d|%d|%d", e.isoPath, e.loc, e.size))
			} else {
				vs = append(vs, fmt.Sprintf("%s|f|%d|%d|%d", e.isoPath, e.loc, e.size, crc32.ChecksumIEEE(b.dev.Bytes(int64(e.loc)*cf.bs, int(e.size)))))
			}
		}
		c.Case(idRd, "iso.readp", "path="+p, fmt.Sprintf("first=%d", loc.firstDesc))
		c.Impl(idRd, fmt.Sprintf("bs=%d", img.bs), fmt.Sprintf("vol=%d", img.volBlocks), fmt.Sprintf("ptS=%d", img.ptSize), fmt.Sprintf("ptL=%d", img.ptL),
			fmt.Sprintf("ptM=%d", img.ptM), fmt.Sprintf("root=%d:%d", img.rootLoc, img.rootSize), "v="+strings.Join(vs, ";"))
		c.Stat("corr.purereader")
	}
	if c.Want(idEnc) {
		dirs := append([]iDir(nil), img.pvd.dirs...)
		sort.Slice(dirs, func(a, b int) bool { return dirs[a].loc < dirs[b].loc })
		var ds []string
		for _, d := range dirs {
			n := blocksOf(d.size, int(cf.bs)) * cf.bs
			ds = append(ds, fmt.Sprintf("%d:%d", d.loc, crc32.ChecksumIEEE(b.dev.Bytes(int64(d.loc)*cf.bs, int(n)))))
		}
		n := len(img.pvd.ents) + 1
		walk := "skipped"
		fileBytes := 0
		for _, e := range img.pvd.ents {
			if !e.isDir {
				fileBytes += int(e.size)
			}
		}
		if n <= 12 && fileBytes <= 6000 {
			walk = "1"
		}
		c.Case(idEnc, "iso.encimg", "path="+p, fmt.Sprintf("first=%d", loc.firstDesc))
		c.Impl(idEnc, fmt.Sprintf("n=%d", n), "d="+strings.Join(ds, ","), fmt.Sprintf("pvd=%d", crc32.ChecksumIEEE(pvd)), "placed=1", "hyp=1", "walk="+walk)
		c.Stat("corr.encimage")
	}
	if c.Want(idLog) {
		wlogCase(c, idLog, p, b, loc)
	}
}

// wlogCase: the WriteAt log of the real Finalize (offset:length of every call, in order) against the
// calls the model issues (ImageIn.writesGo: one per 2048-byte copy chunk, the fill of the last block,
// one per directory extent, ...), the volume size the model computes against the PVD's, and that
// every write lies inside it.
func wlogCase(c *hx.Ctx, id, path string, b built, loc *located) {
	var ws []string
	for _, e := range b.dev.Log {
		if e.Sync || e.Len == 0 {
			continue
		}
		ws = append(ws, fmt.Sprintf("%d:%d", e.Off, e.Len))
	}
	c.Case(id, "iso.wlog", "path="+path, fmt.Sprintf("first=%d", loc.firstDesc))
	c.Impl(id, fmt.Sprintf("n=%d", len(ws)), fmt.Sprintf("vol=%d", loc.img.volBlocks), fmt.Sprintf("pvdvol=%d", loc.img.volBlocks), "inside=1", "w="+strings.Join(ws, ","))
	c.Stat("corr.writelog")
}
