package iso

// Joliet names with code points beyond the Basic Multilingual Plane (witness family w/joliet-nonbmp).
//
// The random and boundary trees keep to names that the two-bytes-per-rune codec of the code as found
// handles (BMP only); this family is the dedicated replay of the recorded finding
// iso-joliet-nonbmp-name and, once the codec is UTF-16, the place where such names are generated and
// judged: an independent reader (which decodes UTF-16 with surrogate pairs, as every operating system
// does) must find every file of the Joliet tree under its exact name, and the library must list the
// names and open the files under their own names with the right bytes.

import (
	"fmt"
	"io"
	"os"

	"github.com/diskfs/go-diskfs/filesystem/iso9660"

	"verif/harness/internal/hx"
)

const tagNonBMP = "iso-joliet-nonbmp-name"

// cutBMP is what a codec writing two bytes per rune and reading two bytes per rune makes of a name.
func cutBMP(s string) string {
	rs := []rune(s)
	for i, r := range rs {
		if r > 0xffff {
			r &= 0xffff
			if 0xd800 <= r && r <= 0xdfff {
				r = 0xfffd
			}
			rs[i] = r
		}
	}
	return string(rs)
}

func cutView(v view) view {
	o := view{}
	for k, e := range v {
		o[cutBMP(k)] = e
	}
	return o
}

func nonBMP(c *hx.Ctx) {
	cfgs := []cfg{
		{joliet: true, bs: 2048, start: 0},
		{joliet: true, bs: 2048, start: 1 << 20},
		{joliet: true, rr: true, bs: 2048, start: 0},
	}
	shown, ran := false, false
	detail := ""
	for i, cf := range cfgs {
		id := fmt.Sprintf("w/joliet-nonbmp/%d", i)
		if !c.Want(id) {
			continue
		}
		ran = true
		r := hx.NewRng(c.Seed*1000003 + uint64(0xb3f+i))
		root := mkdir(".")
		first := "a\U0001F600.txt" // the name of the recorded witness
		root.add(mkfile(r, first, "smile", 700+r.Intn(3000)))
		root.add(mkfile(r, "plain.txt", "plain", 10))
		root.add(mkfile(r, "s\U0001D800.txt", "sw", 5)) // low 16 bits fall into the surrogate range
		// further names: random code points of planes 1, 2 and 16 between BMP characters
		for j := 0; j < 3; j++ {
			nm := ""
			for k := 0; k < 2+r.Intn(5); k++ {
				switch r.Intn(4) {
				case 0:
					nm += string(rune(0x10000 + r.Intn(0xfffe)))
				case 1:
					nm += string(rune(0x20000 + r.Intn(0xa6df)))
				case 2:
					nm += string(rune(0x100000 + r.Intn(0xfffe)))
				default:
					nm += string(rune('a' + r.Intn(26)))
				}
			}
			root.add(mkfile(r, fmt.Sprintf("%s%d.bin", nm, j), fmt.Sprintf("rnd%d", j), 1+r.Intn(5000)))
		}
		d := root.add(mkdir("d\U0001D11E"))
		d.add(mkfile(r, "x\U0001F389y.bin", "party", 2049))
		d.add(mkfile(r, "ü.txt", "uml", 3))
		repro := fmt.Sprintf("%s tree{%s} (./check C06 quick --only %s)", cf, root.describe(), id)
		c.Stat("shape.joliet-nonbmp")
		b := build(root, cf)
		if b.err != nil {
			c.Fail(id+"/build", tagNoFind, b.err.Error(), repro)
			continue
		}
		loc, notes := locate(b.dev, cf)
		if loc == nil || !loc.img.hasJoliet {
			c.Fail(id+"/build", tagNoFind, fmt.Sprintf("independent reader finds no Joliet image: %v", notes), repro)
			continue
		}
		c.OK(id + "/build")
		img := loc.img
		exp := expectedView(root)
		cut := cutView(exp)

		// ---- clause: the Joliet tree, read independently, holds every file under its exact name ----
		var jerr error
		if img.svdErr != nil {
			jerr = img.svdErr
		} else if jv, err := indepView(b.dev, loc.base, img.bs, img.svd); err != nil {
			jerr = err
		} else if err := cmpExact(exp, jv); err != nil {
			jerr = err
			if cmpExact(cut, jv) == nil {
				// trigger (a code point beyond the BMP) and symptom (exactly its low 16 bits are on the disk)
				jerr = fmt.Errorf("%v [every code point beyond the BMP is written with its low 16 bits only]", err)
				c.Fail(id+"/joliet", tagNonBMP, "independent reader, Joliet tree: "+jerr.Error(), repro)
				shown = true
				detail += fmt.Sprintf("[%s/joliet: %v] ", id, jerr)
				jerr = nil
				goto lib
			}
		}
		if jerr != nil {
			c.Fail(id+"/joliet", tagNoFind, "independent reader, Joliet tree: "+jerr.Error(), repro)
		} else {
			c.OK(id + "/joliet")
			detail += fmt.Sprintf("[%s/joliet: exact names] ", id)
		}
	lib:
		// ---- clause: the library lists the names and opens the files under their own names ---------
		var fsys *iso9660.FileSystem
		err, _ := safely(func() error {
			var e error
			fsys, e = iso9660.Read(b.dev, b.size, cf.start, cf.bs)
			return e
		})
		if err != nil {
			c.Fail(id+"/lib", tagNoFind, "Read: "+err.Error(), repro)
			continue
		}
		lv, dirErr, _ := libWalk(fsys)
		var lerr error
		ltag := tagNoFind
		switch {
		case len(dirErr) > 0:
			lerr = fmt.Errorf("ReadDir fails: %v", dirErr)
		case cmpExact(exp, lv) != nil:
			lerr = cmpExact(exp, lv)
			if !cf.rr && cmpExact(cut, lv) == nil {
				ltag = tagNonBMP
				lerr = fmt.Errorf("%v [the library lists the low 16 bits of every code point beyond the BMP]", lerr)
			}
		default:
			// open under the own name
			var got []byte
			oerr, _ := safely(func() error {
				f, e := fsys.OpenFile(first, os.O_RDONLY)
				if e != nil {
					return e
				}
				defer f.Close()
				got, e = io.ReadAll(f)
				return e
			})
			want := root.kids[0].data
			if oerr != nil {
				lerr = fmt.Errorf("OpenFile(%q): %v", first, oerr)
			} else if string(got) != string(want) {
				lerr = fmt.Errorf("OpenFile(%q) returns %d bytes, not the %d bytes of the file", first, len(got), len(want))
			}
		}
		if lerr != nil {
			c.Fail(id+"/lib", ltag, "library view: "+lerr.Error(), repro)
			if ltag == tagNonBMP {
				shown = true
				detail += fmt.Sprintf("[%s/lib: %v] ", id, lerr)
			}
		} else {
			c.OK(id + "/lib")
			detail += fmt.Sprintf("[%s/lib: exact names, %q opens] ", id, first)
		}
		c.Distinct(id)
		c.Sample(id + " " + root.describe())
	}
	if ran {
		c.Known(tagNonBMP, shown, detail)
	}
}
