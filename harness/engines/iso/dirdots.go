package iso

// Name-collision regime for DIRECTORIES (stat key dir_dotted_collision).
//
// A directory's ISO9660 identifier is its 8-character short name alone: what follows the first dot
// of the host name is dropped (finalizeFileInfo.Name, path table records). Sibling directories whose
// names agree up to the first dot (after truncation to 8 characters) and differ only behind it
// therefore map to the same identifier and have to go through collision resolution just like
// `directoryone` / `directorytwo` do. The trees here are made of such siblings, of directories and
// files sharing a base name, and of names with dots at the start / end / doubled, in all four
// option combinations. On top of the clauses checkCase evaluates for every tree (the library's own
// reader reaches every directory by its path and lists the right children, an independent reader
// finds the same tree) the identifiers stored in every directory and the names below every parent
// of the path table must be pairwise distinct in the primary AND the Joliet tree, whatever names
// the reader would show (checkIdents, evaluated for every case of the engine).

import (
	"fmt"
	"sort"
	"strings"

	"verif/harness/internal/hx"
)

// dottedBase: name of the entry up to its first dot, mapped and truncated like an identifier.
func dottedBase(name string) string {
	b, _ := mangle(name, true)
	return b
}

// dirDotGroups counts, over all directories of the tree, the groups of two or more sibling
// DIRECTORIES with different host names but the same identifier base, at least one of them dotted.
func dirDotGroups(n *node) int {
	g := map[string][]string{}
	total := 0
	for _, k := range n.kids {
		if k.dir {
			g[dottedBase(k.name)] = append(g[dottedBase(k.name)], k.name)
			total += dirDotGroups(k)
		}
	}
	for _, names := range g {
		dotted := false
		for _, nm := range names {
			if strings.Contains(nm, ".") {
				dotted = true
			}
		}
		if len(names) > 1 && dotted {
			total++
		}
	}
	return total
}

// fillDir gives a directory content that tells it from every other one: a file named after the tag
// and a subdirectory holding another file, so that "reached the wrong directory" shows as wrong
// children and wrong bytes.
func fillDir(r *hx.Rng, d *node, tag string) *node {
	d.add(mkfile(r, "in_"+tag+".txt", "in-"+tag, 10+len(tag)))
	d.add(mkdir("sub")).add(mkfile(r, "deep.txt", "deep-"+tag, 20+len(tag)))
	return d
}

type dotTree struct {
	name string
	mk   func(r *hx.Rng) *node
}

func dotTrees(c *hx.Ctx) []dotTree {
	ts := []dotTree{
		{"pairs", func(r *hx.Rng) *node {
			root := mkdir(".")
			for i, nm := range []string{"conf.d", "conf.bak", "v1.0", "v1.1", "a.b.c", "a.b.d", "longdirectoryname.one", "longdirectoryname.two"} {
				fillDir(r, root.add(mkdir(nm)), fmt.Sprintf("p%d", i))
			}
			root.add(mkfile(r, "plain.txt", "plain", 9))
			return root
		}},
		{"two", func(r *hx.Rng) *node { // the smallest instance
			root := mkdir(".")
			root.add(mkdir("conf.d")).add(mkfile(r, "one.txt", "one", 5))
			root.add(mkdir("conf.bak")).add(mkfile(r, "two.txt", "two", 6))
			return root
		}},
		{"withfiles", func(r *hx.Rng) *node { // directories and files sharing a base
			root := mkdir(".")
			fillDir(r, root.add(mkdir("conf.d")), "cd")
			fillDir(r, root.add(mkdir("conf.bak")), "cb")
			root.add(mkfile(r, "conf", "cf", 11))
			root.add(mkfile(r, "conf.txt", "ct", 12))
			root.add(mkfile(r, "Conf.D", "cD", 13)) // a FILE whose extension is the directory's
			fillDir(r, root.add(mkdir("CONF")), "CC")
			fillDir(r, root.add(mkdir("longdirectoryname.one")), "l1")
			root.add(mkfile(r, "longdirectoryname.one.txt", "l1f", 14))
			root.add(mkfile(r, "longdire", "l8", 15))
			return root
		}},
		{"plainvsdotted", func(r *hx.Rng) *node { // undotted sibling + dotted ones, occupied candidates
			root := mkdir(".")
			for i, nm := range []string{"data", "data.1", "data.2", "DATA.old", "data0", "dat00"} {
				fillDir(r, root.add(mkdir(nm)), fmt.Sprintf("v%d", i))
			}
			return root
		}},
		{"nested", func(r *hx.Rng) *node { // the colliding pair sits below colliding pairs (path table parents)
			root := mkdir(".")
			top := root.add(mkdir("top"))
			for i, nm := range []string{"ver.1", "ver.2"} {
				v := top.add(mkdir(nm))
				v.add(mkfile(r, "which.txt", fmt.Sprintf("which%d", i), 10+i))
				for j, sn := range []string{"x.y", "x.z", "x"} {
					fillDir(r, v.add(mkdir(sn)), fmt.Sprintf("n%d%d", i, j))
				}
			}
			fillDir(r, root.add(mkdir("top.level")), "tl")
			return root
		}},
		{"trailing", func(r *hx.Rng) *node { // dots at the end / doubled / several
			root := mkdir(".")
			for i, nm := range []string{"trail.", "trail.x", "trail", "mid..dle", "mid.dle", "e.", "e..", "e.f.g.h"} {
				fillDir(r, root.add(mkdir(nm)), fmt.Sprintf("t%d", i))
			}
			root.add(mkfile(r, "trail.y", "ty", 8))
			return root
		}},
		{"many", func(r *hx.Rng) *node { // twelve directories on one base: two digits needed
			root := mkdir(".")
			for i := 0; i < 12; i++ {
				root.add(mkdir(fmt.Sprintf("release.%d", i))).add(mkfile(r, "v.txt", fmt.Sprintf("rel%d", i), 4+i))
			}
			root.add(mkdir("releas00")).add(mkfile(r, "taken.txt", "taken", 3))
			return root
		}},
		{"jdotfile", func(r *hx.Rng) *node { // a FILE ending in a dot beside a directory ending in one (witness of iso-joliet-name-dots-trimmed)
			root := mkdir(".")
			root.add(mkfile(r, "notes.", "nd", 9))
			root.add(mkdir("dir.")).add(mkfile(r, "inner.", "id", 10))
			root.add(mkfile(r, "plain.txt", "pl", 11))
			return root
		}},
		{"leading", func(r *hx.Rng) *node { // dots at the start: no base at all, only Rock Ridge can name them
			root := mkdir(".")
			root.add(mkdir(".git")).add(mkfile(r, "config", "gitc", 7))
			root.add(mkdir(".github")).add(mkfile(r, "config", "ghc", 8))
			root.add(mkdir("x")).add(mkfile(r, "f", "xf", 2))
			return root
		}},
	}
	n := c.N(6, 120)
	for i := 0; i < n; i++ {
		i := i
		ts = append(ts, dotTree{fmt.Sprintf("rand%d", i), func(r *hx.Rng) *node {
			stems := []string{"conf", "v1", "a.b", "longdirectoryname", "Data", "x", "lib_2", "rel-ease"}
			tails := []string{"", ".d", ".bak", ".0", ".1", ".c", ".d.old", ".", ".one", ".two", ".D"}
			var fill func(n *node, depth int)
			serial := 0
			fill = func(n *node, depth int) {
				used := map[string]bool{}
				k := 2 + r.Intn(6)
				pick := []string{hx.Pick(r, stems), hx.Pick(r, stems)}
				for j := 0; j < k; j++ {
					nm := hx.Pick(r, pick) + hx.Pick(r, tails)
					if used[nm] {
						continue
					}
					used[nm] = true
					serial++
					if r.Chance(70) {
						d := n.add(mkdir(nm))
						d.add(mkfile(r, "id.txt", fmt.Sprintf("id%d", serial), 5+serial%40))
						if depth < 3 && r.Chance(35) {
							fill(d, depth+1)
						}
					} else {
						// FILES ending in a dot are the witness of a recorded defect (jdotfile below), not this regime's matter
						if strings.HasSuffix(nm, ".") {
							nm += "f"
						}
						if used[nm] {
							continue
						}
						used[nm] = true
						n.add(mkfile(r, nm, fmt.Sprintf("f%d", serial), r.Intn(3000)))
					}
				}
			}
			root := mkdir(".")
			fill(root, 1)
			return root
		}})
	}
	return ts
}

func dirDotted(c *hx.Ctx) {
	for _, t := range dotTrees(c) {
		for m := 0; m < 4; m++ {
			cf := cfg{rr: m&1 != 0, joliet: m&2 != 0, bs: 2048, collide: true}
			if c.Thorough() && strings.HasPrefix(t.name, "rand") {
				cf.bs = []int64{2048, 4096, 8192}[(m+len(t.name))%3]
			}
			id := fmt.Sprintf("n/%s/rr%d-j%d", t.name, b2i(cf.rr), b2i(cf.joliet))
			if !c.Want(id) {
				continue
			}
			// the same tree in all four modes
			root := t.mk(hx.NewRng(c.Seed*7919 + uint64(len(t.name))*131 + uint64(t.name[len(t.name)-1])))
			c.Stat("dir_dotted_collision")
			if g := dirDotGroups(root); g > 0 {
				c.StatN("dir_dotted_collision.groups", g)
			}
			c.Stat("shape.dirdots." + strings.TrimRight(t.name, "0123456789"))
			checkCase(c, id, root, cf)
			if m == 0 {
				c.Sample(id + " " + root.describe() + " top=" + strings.Join(kidNames(root), ","))
			}
		}
	}
}

func kidNames(n *node) []string {
	var out []string
	for _, k := range n.kids {
		nm := k.name
		if k.dir {
			nm += "/"
		}
		out = append(out, nm)
	}
	sort.Strings(out)
	return out
}

// checkIdents: within every directory the stored identifiers are pairwise distinct - as stored and
// also after dropping the version and an empty extension (CONF and CONF.;1 name the same thing to
// a plain reader) - and below one parent number the path table holds no name twice. The primary
// tree is checked through its raw identifiers in every mode: with Rock Ridge the names a reader
// shows come from NM entries and hide a duplicate identifier.
func checkIdents(what string, t iTree, recs []ptRec, checkPT bool) error {
	type key struct{ dir, id string }
	seen := map[key]string{}
	for _, e := range t.ents {
		p := parentOf(e.path)
		for _, id := range []string{e.ident, baseOf(e.isoPath)} {
			k := key{p, id}
			if other, dup := seen[k]; dup && other != e.path {
				return fmt.Errorf("%s: directory %q holds the identifier %q twice (for %q and for %q)", what, p, id, baseOf(other), baseOf(e.path))
			}
			seen[k] = e.path
		}
	}
	if !checkPT {
		return nil
	}
	type pk struct {
		par  uint16
		name string
	}
	pseen := map[pk]int{}
	for i, r := range recs {
		if i == 0 {
			continue
		}
		k := pk{r.parent, r.name}
		if j, dup := pseen[k]; dup {
			return fmt.Errorf("%s: path table records %d and %d both name %q below parent number %d", what, j+1, i+1, r.name, r.parent)
		}
		pseen[k] = i
	}
	return nil
}
