package iso

// An independent ISO9660 reader (ECMA-119) that shares no code with go-diskfs: it starts at
// sector 16, finds the primary volume descriptor, and walks directory records. It also decodes
// Rock Ridge NM/CE/CL/RE (enough to recover names and relocated directories) and, when a Joliet
// supplementary descriptor is present, walks that tree as well. Every both-endian field is
// checked for agreement of its two halves.

import (
	"encoding/binary"
	"fmt"
	"io"
	"sort"
	"unicode/utf16"
)

type rdr interface {
	ReadAt(p []byte, off int64) (int, error)
}

type iEnt struct {
	path    string // path made of the names this reader shows (RR name if present, else the ISO identifier, decoded)
	isoPath string // path made of raw ISO identifiers (directories) / identifiers without ";1" (files)
	ident   string // raw identifier of the last component, as stored
	isDir   bool
	loc     uint32
	size    uint32
	recLen  int
}

type iDir struct {
	path    string
	isoPath string
	loc     uint32
	size    uint32
	recLens []int      // record lengths in order (incl. self and parent)
	nCE     int        // records that carry a continuation pointer
	ceLocs  []uint32   // distinct continuation blocks referenced from this directory's records
	ceAreas [][2]int64 // byte ranges [lo,hi) (relative to the image) of the continuation areas its records point at
}

type iTree struct {
	ents []iEnt
	dirs []iDir
	// aliasDirs: directories in which two records point at the same continuation area
	aliasDirs map[string]bool
}

type iImage struct {
	bs          int
	volBlocks   uint32
	ptSize      uint32
	ptL, ptM    uint32
	rootLoc     uint32
	rootSize    uint32
	hasRR       bool
	pvd         iTree
	hasJoliet   bool
	jVolBlocks  uint32
	jptSize     uint32
	jptL, jptM  uint32
	jRootLoc    uint32
	jRootSize   uint32
	svd         iTree
	pvdErr      error    // the primary tree could not be walked completely
	svdErr      error    // the Joliet tree could not be walked
	jMismatch   []string // Joliet subdirectory records whose extent differs from the Joliet path table
	nDesc       int
	ptLRecs     []ptRec
	ptMRecs     []ptRec
	jptLRecs    []ptRec
	descStride  int64
	firstDescAt int64
}

type ptRec struct {
	name   string
	loc    uint32
	parent uint16
}

func both32(b []byte) (uint32, error) {
	l := binary.LittleEndian.Uint32(b[0:4])
	m := binary.BigEndian.Uint32(b[4:8])
	if l != m {
		return 0, fmt.Errorf("both-endian 32-bit field halves differ: %d vs %d", l, m)
	}
	return l, nil
}

func both16(b []byte) (uint16, error) {
	l := binary.LittleEndian.Uint16(b[0:2])
	m := binary.BigEndian.Uint16(b[2:4])
	if l != m {
		return 0, fmt.Errorf("both-endian 16-bit field halves differ: %d vs %d", l, m)
	}
	return l, nil
}

func readFull(r rdr, off int64, n int) ([]byte, error) {
	b := make([]byte, n)
	k, err := r.ReadAt(b, off)
	if k != n {
		if err == nil || err == io.EOF {
			err = fmt.Errorf("short read %d of %d at %d", k, n, off)
		}
		return nil, err
	}
	return b, nil
}

// indepRead parses the image that starts at byte `base` of r. Descriptor i is expected at
// base+firstDesc+i*stride (the standard says firstDesc = 16*2048, stride = 2048).
func indepRead(r rdr, base, firstDesc, stride int64, limit int64) (*iImage, error) {
	img := &iImage{descStride: stride, firstDescAt: firstDesc}
	var pvd, svd []byte
	for i := 0; ; i++ {
		if i > 64 {
			return nil, fmt.Errorf("no volume descriptor set terminator within 64 descriptors")
		}
		b, err := readFull(r, base+firstDesc+int64(i)*stride, 2048)
		if err != nil {
			return nil, fmt.Errorf("descriptor %d: %v", i, err)
		}
		if string(b[1:6]) != "CD001" {
			return nil, fmt.Errorf("descriptor %d at %d: standard identifier is %q, not CD001", i, firstDesc+int64(i)*stride, b[1:6])
		}
		img.nDesc++
		if b[0] == 255 {
			break
		}
		if b[0] == 1 && pvd == nil {
			pvd = b
		}
		if b[0] == 2 && b[88] == 0x25 && b[89] == 0x2f && (b[90] == 0x40 || b[90] == 0x43 || b[90] == 0x45) {
			svd = b
		}
	}
	if pvd == nil {
		return nil, fmt.Errorf("no primary volume descriptor")
	}
	parseVD := func(b []byte) (bs uint16, vol, pts, ptl, ptm, rloc, rsize uint32, err error) {
		if vol, err = both32(b[80:88]); err != nil {
			return
		}
		if bs, err = both16(b[128:132]); err != nil {
			return
		}
		if pts, err = both32(b[132:140]); err != nil {
			return
		}
		ptl = binary.LittleEndian.Uint32(b[140:144])
		ptm = binary.BigEndian.Uint32(b[148:152])
		root := b[156:190]
		if root[0] != 34 {
			err = fmt.Errorf("root record length %d, not 34", root[0])
			return
		}
		if rloc, err = both32(root[2:10]); err != nil {
			return
		}
		if rsize, err = both32(root[10:18]); err != nil {
			return
		}
		if root[25]&2 == 0 {
			err = fmt.Errorf("root record is not flagged as a directory")
		}
		return
	}
	bs, vol, pts, ptl, ptm, rloc, rsize, err := parseVD(pvd)
	if err != nil {
		return nil, fmt.Errorf("PVD: %v", err)
	}
	if bs != 2048 && bs != 4096 && bs != 8192 && bs != 1024 && bs != 512 {
		return nil, fmt.Errorf("PVD: logical block size %d", bs)
	}
	img.bs, img.volBlocks, img.ptSize, img.ptL, img.ptM, img.rootLoc, img.rootSize = int(bs), vol, pts, ptl, ptm, rloc, rsize
	w := &walker{r: r, base: base, bs: int64(bs), limit: limit, seen: map[uint32]bool{}}
	// does the root's "." record carry SUSP "SP"?
	if rb, err := readFull(r, base+int64(rloc)*int64(bs), 256); err == nil && rb[0] >= 34 {
		su := rb[34:rb[0]]
		if len(su) >= 7 && su[0] == 'S' && su[1] == 'P' && su[4] == 0xBE && su[5] == 0xEF {
			img.hasRR = true
			w.rr = true
		}
	}
	if err := w.walk(".", ".", rloc, rsize, 0); err != nil {
		img.pvdErr = fmt.Errorf("PVD tree: %v", err)
	}
	img.pvd = iTree{ents: w.ents, dirs: w.dirs, aliasDirs: w.aliasDirs}
	if img.ptLRecs, err = readPT(r, base+int64(ptl)*int64(bs), int(pts), false, false); err != nil {
		return nil, fmt.Errorf("L path table: %v", err)
	}
	if img.ptMRecs, err = readPT(r, base+int64(ptm)*int64(bs), int(pts), true, false); err != nil {
		return nil, fmt.Errorf("M path table: %v", err)
	}
	if svd != nil {
		img.hasJoliet = true
		jbs, jvol, jpts, jptl, jptm, jrloc, jrsize, err := parseVD(svd)
		if err != nil {
			return nil, fmt.Errorf("SVD: %v", err)
		}
		if jbs != bs {
			return nil, fmt.Errorf("SVD block size %d differs from PVD %d", jbs, bs)
		}
		img.jVolBlocks, img.jptSize, img.jptL, img.jptM, img.jRootLoc, img.jRootSize = jvol, jpts, jptl, jptm, jrloc, jrsize
		if img.jptLRecs, err = readPT(r, base+int64(jptl)*int64(bs), int(jpts), false, true); err != nil {
			return nil, fmt.Errorf("Joliet L path table: %v", err)
		}
		jw := &walker{r: r, base: base, bs: int64(bs), limit: limit, joliet: true, seen: map[uint32]bool{}, ptLoc: ptPaths(img.jptLRecs)}
		if err := jw.walk(".", ".", jrloc, jrsize, 0); err != nil {
			img.svdErr = fmt.Errorf("Joliet tree: %v", err)
		}
		img.svd = iTree{ents: jw.ents, dirs: jw.dirs}
		img.jMismatch = jw.mismatch
	}
	return img, nil
}

func readPT(r rdr, off int64, size int, big, joliet bool) ([]ptRec, error) {
	b, err := readFull(r, off, size)
	if err != nil {
		return nil, err
	}
	var out []ptRec
	for i := 0; i < len(b); {
		n := int(b[i])
		if n == 0 {
			return nil, fmt.Errorf("zero-length identifier inside the path table at %d", i)
		}
		if i+8+n > len(b) {
			return nil, fmt.Errorf("path table record at %d overruns the table", i)
		}
		var loc uint32
		var par uint16
		if big {
			loc = binary.BigEndian.Uint32(b[i+2 : i+6])
			par = binary.BigEndian.Uint16(b[i+6 : i+8])
		} else {
			loc = binary.LittleEndian.Uint32(b[i+2 : i+6])
			par = binary.LittleEndian.Uint16(b[i+6 : i+8])
		}
		nb := b[i+8 : i+8+n]
		name := string(nb)
		if joliet && n > 1 {
			name = ucs2(nb)
		}
		out = append(out, ptRec{name: name, loc: loc, parent: par})
		i += 8 + n
		if n%2 == 1 {
			i++
		}
	}
	return out, nil
}

func ucs2(b []byte) string {
	u := make([]uint16, 0, len(b)/2)
	for i := 0; i+1 < len(b); i += 2 {
		u = append(u, uint16(b[i])<<8|uint16(b[i+1]))
	}
	return string(utf16.Decode(u))
}

type walker struct {
	r      rdr
	base   int64
	bs     int64
	limit  int64
	rr     bool
	joliet bool
	ents   []iEnt
	dirs   []iDir
	seen   map[uint32]bool
	// ptLoc, when set, maps directory paths to the extent the path table gives them; a
	// subdirectory record that disagrees is noted in mismatch and the path table is followed
	ptLoc     map[string]uint32
	mismatch  []string
	aliasDirs map[string]bool
}

// ptPaths reconstructs the path of every path-table record.
func ptPaths(recs []ptRec) map[string]uint32 {
	out := map[string]uint32{}
	paths := make([]string, len(recs))
	for i, r := range recs {
		if i == 0 {
			paths[i] = "."
		} else if int(r.parent) >= 1 && int(r.parent) <= i {
			paths[i] = join(paths[r.parent-1], r.name)
		} else {
			paths[i] = "?"
		}
		out[paths[i]] = r.loc
	}
	return out
}

type suspInfo struct {
	name    string
	hasNM   bool
	cl      uint32
	re      bool
	ceBlks  map[uint32]bool
	symlink bool
	cePtr   [2]uint32 // first continuation pointer (block, offset)
	hasCE   bool
	ceAreas [][2]int64
}

// parseSUSP walks the system use area of one record, following CE continuation areas.
func (w *walker) parseSUSP(su []byte, info *suspInfo, depth int) error {
	if depth > 16 {
		return fmt.Errorf("continuation chain longer than 16")
	}
	var ceLoc, ceOff, ceLen uint32
	haveCE := false
	for i := 0; i+4 <= len(su); {
		if su[i] == 0 {
			break // padding
		}
		l := int(su[i+2])
		if l < 4 || i+l > len(su) {
			return fmt.Errorf("SUSP entry %q with length %d overruns its area (%d left)", su[i:i+2], l, len(su)-i)
		}
		sig := string(su[i : i+2])
		d := su[i+4 : i+l]
		switch sig {
		case "NM":
			if len(d) < 1 {
				return fmt.Errorf("NM without flags")
			}
			info.name += string(d[1:])
			info.hasNM = true
		case "CE":
			if len(d) != 24 {
				return fmt.Errorf("CE length %d", l)
			}
			var err error
			if ceLoc, err = both32(d[0:8]); err != nil {
				return err
			}
			if ceOff, err = both32(d[8:16]); err != nil {
				return err
			}
			if ceLen, err = both32(d[16:24]); err != nil {
				return err
			}
			haveCE = true
		case "CL":
			loc, err := both32(d[0:8])
			if err != nil {
				return err
			}
			info.cl = loc
		case "RE":
			info.re = true
		case "SL":
			info.symlink = true
		case "ST":
			i = len(su)
			continue
		}
		i += l
	}
	if haveCE {
		if depth == 0 {
			info.cePtr, info.hasCE = [2]uint32{ceLoc, ceOff}, true
		}
		off := int64(ceLoc)*w.bs + int64(ceOff)
		if w.limit > 0 && off+int64(ceLen) > w.limit {
			return fmt.Errorf("continuation area at block %d (+%d, %d bytes) lies outside the volume", ceLoc, ceOff, ceLen)
		}
		b, err := readFull(w.r, w.base+off, int(ceLen))
		if err != nil {
			return fmt.Errorf("continuation area: %v", err)
		}
		if info.ceBlks == nil {
			info.ceBlks = map[uint32]bool{}
		}
		info.ceBlks[ceLoc] = true
		info.ceAreas = append(info.ceAreas, [2]int64{off, off + int64(ceLen)})
		return w.parseSUSP(b, info, depth+1)
	}
	return nil
}

func join(p, n string) string {
	if p == "." {
		return n
	}
	return p + "/" + n
}

func (w *walker) walk(p, isoP string, loc, size uint32, depth int) error {
	if depth > 64 {
		return fmt.Errorf("directory nesting deeper than 64 at %s", p)
	}
	if w.seen[loc] {
		return fmt.Errorf("directory extent %d reached twice (at %s)", loc, p)
	}
	w.seen[loc] = true
	if size == 0 {
		return fmt.Errorf("directory %s: size 0", p)
	}
	if w.limit > 0 && int64(loc)*w.bs+int64(size) > w.limit {
		return fmt.Errorf("directory %s: extent [%d,+%d bytes) lies outside the volume", p, loc, size)
	}
	b, err := readFull(w.r, w.base+int64(loc)*w.bs, int(size))
	if err != nil {
		return fmt.Errorf("directory %s: %v", p, err)
	}
	d := iDir{path: p, isoPath: isoP, loc: loc, size: size}
	ce := map[uint32]bool{}
	type sub struct {
		p, isoP   string
		loc, size uint32
	}
	var subs []sub
	idx := 0
	names := map[string]bool{}
	cePtrs := map[[2]uint32]bool{}
	for i := 0; i < len(b); {
		l := int(b[i])
		if l == 0 {
			i += int(w.bs) - i%int(w.bs)
			continue
		}
		if l < 34 || i+l > len(b) || (i%int(w.bs))+l > int(w.bs) {
			return fmt.Errorf("directory %s: record at byte %d has length %d (crosses a block boundary or overruns)", p, i, l)
		}
		rec := b[i : i+l]
		d.recLens = append(d.recLens, l)
		eloc, err := both32(rec[2:10])
		if err != nil {
			return fmt.Errorf("directory %s record %d: %v", p, idx, err)
		}
		esize, err := both32(rec[10:18])
		if err != nil {
			return fmt.Errorf("directory %s record %d: %v", p, idx, err)
		}
		if _, err := both16(rec[28:32]); err != nil {
			return fmt.Errorf("directory %s record %d: %v", p, idx, err)
		}
		nl := int(rec[32])
		if 33+nl > l {
			return fmt.Errorf("directory %s record %d: identifier length %d overruns record length %d", p, idx, nl, l)
		}
		id := rec[33 : 33+nl]
		isDir := rec[25]&2 != 0
		suStart := 33 + nl
		if nl%2 == 0 {
			suStart++
		}
		var info suspInfo
		if w.rr && suStart < l {
			serr := w.parseSUSP(rec[suStart:l], &info, 0)
			for k := range info.ceBlks {
				ce[k] = true
			}
			d.ceAreas = append(d.ceAreas, info.ceAreas...)
			aliased := false
			if info.hasCE {
				d.nCE++
				if cePtrs[info.cePtr] {
					aliased = true
					if w.aliasDirs == nil {
						w.aliasDirs = map[string]bool{}
					}
					w.aliasDirs[p] = true
				}
				cePtrs[info.cePtr] = true
			}
			if serr != nil && !aliased {
				return fmt.Errorf("directory %s record %d: %v", p, idx, serr)
			}
			if aliased {
				info.hasNM = false // whatever the shared area held belongs to another record
			}
		}
		switch {
		case idx == 0:
			if !(nl == 1 && id[0] == 0) {
				return fmt.Errorf("directory %s: first record is not the self entry", p)
			}
			if eloc != loc || esize != size {
				return fmt.Errorf("directory %s: self record says extent %d size %d, parent said %d size %d", p, eloc, esize, loc, size)
			}
		case idx == 1:
			if !(nl == 1 && id[0] == 1) {
				return fmt.Errorf("directory %s: second record is not the parent entry", p)
			}
		default:
			if nl == 1 && (id[0] == 0 || id[0] == 1) {
				return fmt.Errorf("directory %s: extra self/parent record at index %d", p, idx)
			}
			ident := string(id)
			var shown, isoName string
			if w.joliet {
				ident = ucs2(id)
				shown, isoName = ident, ident
			} else {
				isoName = ident
				if !isDir {
					if len(isoName) > 2 && isoName[len(isoName)-2:] == ";1" {
						isoName = isoName[:len(isoName)-2]
					} else {
						return fmt.Errorf("directory %s: file identifier %q lacks the ;1 version", p, ident)
					}
					if len(isoName) > 0 && isoName[len(isoName)-1] == '.' {
						isoName = isoName[:len(isoName)-1]
					}
				}
				shown = isoName
				if info.hasNM {
					shown = info.name
				}
			}
			if info.re {
				// a relocated directory, listed here only physically: its logical place is where the CL entry is
				i += l
				idx++
				continue
			}
			if names[shown] {
				return fmt.Errorf("directory %s: name %q appears twice", p, shown)
			}
			names[shown] = true
			if info.cl != 0 {
				// placeholder for a relocated directory: read the target's self record for its size
				sb, err := readFull(w.r, w.base+int64(info.cl)*w.bs, 34)
				if err != nil {
					return fmt.Errorf("directory %s: relocated child %q: %v", p, shown, err)
				}
				csize, err := both32(sb[10:18])
				if err != nil {
					return err
				}
				w.ents = append(w.ents, iEnt{path: join(p, shown), isoPath: join(isoP, isoName), ident: ident, isDir: true, loc: info.cl, size: csize, recLen: l})
				subs = append(subs, sub{join(p, shown), join(isoP, isoName), info.cl, csize})
			} else {
				if isDir && w.ptLoc != nil {
					if pl, ok := w.ptLoc[join(p, shown)]; ok && pl != eloc {
						w.mismatch = append(w.mismatch, fmt.Sprintf("%s: record says block %d, path table says %d", join(p, shown), eloc, pl))
						if sb, err := readFull(w.r, w.base+int64(pl)*w.bs, 34); err == nil {
							if sz, err := both32(sb[10:18]); err == nil {
								eloc, esize = pl, sz
							}
						}
					}
				}
				w.ents = append(w.ents, iEnt{path: join(p, shown), isoPath: join(isoP, isoName), ident: ident, isDir: isDir, loc: eloc, size: esize, recLen: l})
				if isDir {
					subs = append(subs, sub{join(p, shown), join(isoP, isoName), eloc, esize})
				} else if w.limit > 0 && !info.symlink && int64(eloc)*w.bs+int64(esize) > w.limit {
					return fmt.Errorf("file %s: extent [%d,+%d bytes) lies outside the volume", join(p, shown), eloc, esize)
				}
			}
		}
		i += l
		idx++
	}
	if idx < 2 {
		return fmt.Errorf("directory %s: fewer than two records", p)
	}
	for k := range ce {
		d.ceLocs = append(d.ceLocs, k)
	}
	sort.Slice(d.ceLocs, func(i, j int) bool { return d.ceLocs[i] < d.ceLocs[j] })
	w.dirs = append(w.dirs, d)
	for _, s := range subs {
		if err := w.walk(s.p, s.isoP, s.loc, s.size, depth+1); err != nil {
			return err
		}
	}
	return nil
}

// extent is a block range used by something in the image.
type extent struct {
	what   string
	lo, hi int64 // bytes, relative to the image start
}

func blocksOf(size uint32, bs int) int64 {
	return (int64(size) + int64(bs) - 1) / int64(bs)
}

// extents lists every area the image uses: system area + descriptors, directories (+continuation
// blocks, as a run directly after the directory), path tables, files, Joliet structures.
func (img *iImage) extents() []extent {
	bs := int64(img.bs)
	var ex []extent
	ex = append(ex, extent{"descriptors", img.firstDescAt, img.firstDescAt + int64(img.nDesc-1)*img.descStride + 2048})
	for _, d := range img.pvd.dirs {
		ex = append(ex, extent{"dir " + d.path, int64(d.loc) * bs, int64(d.loc)*bs + int64(d.size)})
		for _, c := range d.ceLocs {
			ex = append(ex, extent{"continuation block of " + d.path, int64(c) * bs, int64(c)*bs + bs})
		}
	}
	ptb := blocksOf(img.ptSize, img.bs) * bs
	ex = append(ex, extent{"L path table", int64(img.ptL) * bs, int64(img.ptL)*bs + ptb})
	ex = append(ex, extent{"M path table", int64(img.ptM) * bs, int64(img.ptM)*bs + ptb})
	for _, e := range img.pvd.ents {
		if !e.isDir && e.size > 0 {
			ex = append(ex, extent{"file " + e.path, int64(e.loc) * bs, int64(e.loc)*bs + blocksOf(e.size, img.bs)*bs})
		}
	}
	if img.hasJoliet {
		for _, d := range img.svd.dirs {
			ex = append(ex, extent{"joliet dir " + d.path, int64(d.loc) * bs, int64(d.loc)*bs + int64(d.size)})
		}
		jb := blocksOf(img.jptSize, img.bs) * bs
		ex = append(ex, extent{"joliet L path table", int64(img.jptL) * bs, int64(img.jptL)*bs + jb})
		ex = append(ex, extent{"joliet M path table", int64(img.jptM) * bs, int64(img.jptM)*bs + jb})
	}
	return ex
}

// checkExtents: all inside [0, volume) and pairwise non-overlapping.
func checkExtents(ex []extent, volBytes int64) error {
	s := append([]extent(nil), ex...)
	sort.Slice(s, func(i, j int) bool {
		if s[i].lo != s[j].lo {
			return s[i].lo < s[j].lo
		}
		return s[i].hi < s[j].hi
	})
	for i, e := range s {
		if e.lo < 0 || e.hi > volBytes || e.lo > e.hi {
			return fmt.Errorf("%s occupies [%d,%d) outside the volume of %d bytes", e.what, e.lo, e.hi, volBytes)
		}
		if i > 0 && e.lo < s[i-1].hi {
			return fmt.Errorf("%s [%d,%d) overlaps %s [%d,%d)", e.what, e.lo, e.hi, s[i-1].what, s[i-1].lo, s[i-1].hi)
		}
	}
	return nil
}
