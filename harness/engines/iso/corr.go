package iso

// Correspondence cases: the same inputs go to the real code (through the verif hooks or the real
// Finalize) and to the Lean model driver (vd-iso); the canonical result lines must be equal.

import (
	"encoding/hex"
	"fmt"
	"hash/crc32"
	"os"
	"path/filepath"
	"sort"
	"strings"

	"github.com/diskfs/go-diskfs/filesystem/iso9660"

	"verif/harness/internal/hx"
)

func cps(s string) string {
	r := []rune(s)
	if len(r) == 0 {
		return "-"
	}
	p := make([]string, len(r))
	for i, c := range r {
		p[i] = fmt.Sprint(int(c))
	}
	return strings.Join(p, ",")
}

func nmStr(short, ext string) string { return cps(short) + "." + cps(ext) }

var corrAlphabet = []rune("abcxyzABCXYZ0189_-. +~éßıſ€")

func corrName(r *hx.Rng) string {
	n := r.Intn(16)
	if r.Chance(20) {
		n = 8 + r.Intn(5)
	}
	var sb strings.Builder
	for i := 0; i < n; i++ {
		sb.WriteRune(hx.Pick(r, corrAlphabet))
	}
	return sb.String()
}

func correspondence(c *hx.Ctx) {
	defer func() {
		if p := recover(); p != nil {
			c.Fail("d/panic", tagNoFind, fmt.Sprintf("panic in the library during the correspondence run: %v", p), "")
		}
	}()
	r := c.Rng.Fork()
	// ---- calculateShortnameExtension ------------------------------------------------------------
	fixed := []string{"", "a", "readme.txt", "README.TXT", "longfilename.extension", "a.b.c", ".hidden", "trailing.", "..", "x.tar.gz",
		"exactly8.ext", "ninechars.e", "sp ace.t t", "ünïcödé.txt", "ıſ.ıſ", "A_B-C.D+E", "12345678.123", "123456789.1234",
		// names of directories with dots (the regime dir_dotted_collision): the function is the same for both kinds
		"conf.d", "conf.bak", "v1.0", "v1.1", "a.b.d", "longdirectoryname.one", "longdirectoryname.two", ".git", "e..", "trail.", "mid..dle"}
	n := c.N(300, 20000)
	for i := 0; i < n+len(fixed); i++ {
		id := fmt.Sprintf("d/short/%d", i)
		var name string
		if i < len(fixed) {
			name = fixed[i]
		} else {
			name = corrName(r)
		}
		if !c.Want(id) {
			continue
		}
		s, e := iso9660.VerifShortnameExtension(name)
		c.Case(id, "iso.short", "n="+cps(name))
		c.Impl(id, "s="+cps(s), "e="+cps(e))
		c.Stat("corr.short")
	}
	// ---- collision resolution with an explicit group order ---------------------------------------
	n = c.N(250, 12000)
	for i := 0; i < n; i++ {
		id := fmt.Sprintf("d/resolve/%d", i)
		rr := r.Fork()
		if !c.Want(id) {
			continue
		}
		// a few stems, each with several variants that truncate to the same 8.3 name, plus names that
		// already look like candidates
		var names []string
		var isDir []bool
		seen := map[string]bool{}
		add := func(nm string, d bool) {
			if nm == "" || seen[nm] || strings.HasPrefix(nm, ".") {
				return
			}
			seen[nm] = true
			names = append(names, nm)
			isDir = append(isDir, d)
		}
		stems := 1 + rr.Intn(3)
		for s := 0; s < stems; s++ {
			stem := hx.Pick(rr, []string{"longfilename", "abcdefgh", "ab", "LONGFILE", "report_final", "x"})
			ext := hx.Pick(rr, []string{"", ".txt", ".TXT", ".c", ".longext"})
			k := 1 + rr.Intn(5)
			if rr.Chance(10) {
				k = 11 + rr.Intn(3)
			}
			for j := 0; j < k; j++ {
				v := stem
				switch rr.Intn(4) {
				case 0:
					v = strings.ToUpper(stem)
				case 1:
					v = stem + fmt.Sprint(j)
				case 2:
					v = stem + strings.Repeat("z", j)
				}
				// directories too carry dotted names: their entry has no extension whatever follows the dot
				add(v+ext, rr.Chance(30) && (ext == "" || rr.Bool()))
			}
			// occupy candidate names
			if rr.Chance(50) {
				b := strings.ToUpper(stem)
				if len(b) > 7 {
					b = b[:7]
				}
				add(b+fmt.Sprint(rr.Intn(3))+ext, false)
			}
		}
		if len(names) == 0 {
			continue
		}
		// order: a random permutation of all indices (groups are addressed by any member)
		order := make([]int, len(names))
		for j := range order {
			order[j] = j
		}
		for j := len(order) - 1; j > 0; j-- {
			k := rr.Intn(j + 1)
			order[j], order[k] = order[k], order[j]
		}
		// each group once: keep the first index of every group in this order
		shorts, exts, err := iso9660.VerifResolve(names, isDir, order)
		res := "r=err"
		if err == nil {
			p := make([]string, len(shorts))
			for j := range shorts {
				p[j] = nmStr(shorts[j], exts[j])
			}
			res = "r=" + strings.Join(p, ";")
		}
		np := make([]string, len(names))
		ds := make([]byte, len(names))
		for j, nm := range names {
			np[j] = cps(nm)
			ds[j] = '0'
			if isDir[j] {
				ds[j] = '1'
			}
		}
		os_ := make([]string, len(order))
		for j, o := range order {
			os_[j] = fmt.Sprint(o)
		}
		c.Case(id, "iso.resolve", "names="+strings.Join(np, "|"), "dirs="+string(ds), "order="+strings.Join(os_, ","))
		c.Impl(id, res)
		c.Stat("corr.resolve")
		c.Distinct("resolve|" + strings.Join(names, "/"))
	}
	// ---- the real walkTree on a real directory: some order of the groups explains its result -------
	n = c.N(25, 600)
	for i := 0; i < n; i++ {
		id := fmt.Sprintf("d/walk/%d", i)
		rr := r.Fork()
		if !c.Want(id) {
			continue
		}
		dir, err := os.MkdirTemp(c.Scratch, "walk")
		if err != nil {
			continue
		}
		var names []string
		var isDir []bool
		seen := map[string]bool{}
		k := 2 + rr.Intn(7)
		for j := 0; j < k; j++ {
			stem := hx.Pick(rr, []string{"longfilename", "LONGFILENAME", "longfile", "another_long_name", "short"})
			nm := stem + hx.Pick(rr, []string{"", "1", "22", "_x"}) + hx.Pick(rr, []string{"", ".txt", ".TXT"})
			if seen[nm] {
				continue
			}
			seen[nm] = true
			d := !strings.Contains(nm, ".") && rr.Chance(30)
			if d {
				os.Mkdir(filepath.Join(dir, nm), 0o755)
			} else {
				os.WriteFile(filepath.Join(dir, nm), []byte("x"), 0o644)
			}
		}
		paths, dirs, shorts, exts, err := iso9660.VerifWalkTree(dir)
		os.RemoveAll(dir)
		if err != nil {
			continue
		}
		var got []string
		for j, p := range paths {
			if p == "." {
				continue
			}
			names = append(names, p)
			isDir = append(isDir, dirs[j])
			got = append(got, nmStr(shorts[j], exts[j]))
		}
		np := make([]string, len(names))
		ds := make([]byte, len(names))
		for j, nm := range names {
			np[j] = cps(nm)
			ds[j] = '0'
			if isDir[j] {
				ds[j] = '1'
			}
		}
		c.Case(id, "iso.walk", "names="+strings.Join(np, "|"), "dirs="+string(ds), "got="+strings.Join(got, ";"))
		c.Impl(id, "match=1")
		c.Stat("corr.walk")
	}
	// ---- the real walkTree + Name() on directories with DOTTED DIRECTORY names -------------------------
	// the collision key walkTree groups by, the sibling table resolveCollisionGroup consults and the
	// identifier Name() emits must be the model's: a directory enters with (SHORT, no extension) and is
	// written as SHORT, so conf.d / conf.bak are one group and leave it with different identifiers
	n = c.N(80, 2500)
	for i := 0; i < n; i++ {
		id := fmt.Sprintf("d/walkid/%d", i)
		rr := r.Fork()
		if !c.Want(id) {
			continue
		}
		dir, err := os.MkdirTemp(c.Scratch, "walkid")
		if err != nil {
			continue
		}
		seen := map[string]bool{}
		stems := []string{hx.Pick(rr, []string{"conf", "v1", "a.b", "longdirectoryname", "Data", "x"}), hx.Pick(rr, []string{"conf", "CONF", "longdirectoryname_2", "lib-2", "v1"})}
		k := 2 + rr.Intn(8)
		if i < 4 { // fixed witnesses first
			k = 0
			for _, nm := range [][]string{{"conf.d", "conf.bak"}, {"v1.0", "v1.1", "v1"}, {"a.b.c", "a.b.d"}, {"longdirectoryname.one", "longdirectoryname.two"}}[i] {
				os.Mkdir(filepath.Join(dir, nm), 0o755)
			}
			os.WriteFile(filepath.Join(dir, "conf"), []byte("x"), 0o644)
			os.WriteFile(filepath.Join(dir, "conf.txt"), []byte("x"), 0o644)
		}
		for j := 0; j < k; j++ {
			nm := hx.Pick(rr, stems) + hx.Pick(rr, []string{"", ".d", ".bak", ".0", ".1", ".c", ".txt", ".TXT", ".one", ".two", ".", ".d.old"})
			if seen[nm] {
				continue
			}
			seen[nm] = true
			if rr.Chance(65) {
				os.Mkdir(filepath.Join(dir, nm), 0o755)
			} else {
				os.WriteFile(filepath.Join(dir, nm), []byte("x"), 0o644)
			}
		}
		paths, dirs, shorts, exts, idents, err := iso9660.VerifC06WalkIdents(dir)
		os.RemoveAll(dir)
		if err != nil {
			continue
		}
		var np, got, ids []string
		var ds []byte
		dotted, dup := 0, ""
		identSeen := map[string]string{}
		for j, p := range paths {
			if p == "." {
				continue
			}
			np = append(np, cps(p))
			got = append(got, nmStr(shorts[j], exts[j]))
			ids = append(ids, cps(idents[j]))
			if dirs[j] {
				ds = append(ds, '1')
				if strings.Contains(p, ".") {
					dotted++
				}
			} else {
				ds = append(ds, '0')
			}
			if o, ok := identSeen[idents[j]]; ok && dup == "" {
				dup = fmt.Sprintf("%q and %q both get the identifier %q", o, p, idents[j])
			}
			identSeen[idents[j]] = p
		}
		c.Case(id, "iso.walkid", "names="+strings.Join(np, "|"), "dirs="+string(ds), "got="+strings.Join(got, ";"), "ids="+strings.Join(ids, "|"))
		c.Impl(id, "match=1", "ids=1", "distinct=1")
		c.Stat("corr.walkid")
		if dotted > 0 {
			c.Stat("corr.walkid.dotted-dirs")
		}
		c.Distinct("walkid|" + strings.Join(paths, "/"))
		if dup != "" {
			c.Fail(id+"/distinct", tagNoFind, "walkTree + Name(): "+dup, strings.Join(paths, " "))
		} else {
			c.OK(id + "/distinct")
		}
	}
	// ---- calculateBlocks ---------------------------------------------------------------------------
	for i := 0; i < c.N(100, 3000); i++ {
		id := fmt.Sprintf("d/blocks/%d", i)
		bs := hx.Pick(r, []int64{2048, 4096, 8192})
		size := int64(r.Intn(5)) * bs
		switch r.Intn(3) {
		case 0:
			size += int64(r.Intn(int(bs)))
		case 1:
			size = r.Int63n(1 << 33)
		}
		if !c.Want(id) {
			continue
		}
		c.Case(id, "iso.blocks", fmt.Sprintf("size=%d", size), fmt.Sprintf("bs=%d", bs))
		c.Impl(id, fmt.Sprintf("n=%d", iso9660.VerifCalculateBlocks(size, bs)))
	}
	// ---- directory record and path table codecs ---------------------------------------------------
	for i := 0; i < c.N(150, 5000); i++ {
		id := fmt.Sprintf("d/rec/%d", i)
		rr := r.Fork()
		if !c.Want(id) {
			continue
		}
		isDir := rr.Bool()
		self, parent := false, false
		name := strings.ToUpper(strings.Repeat("N", 1+rr.Intn(8)))
		if isDir {
			switch rr.Intn(4) {
			case 0:
				self = true
			case 1:
				parent = true
			}
		} else {
			name += "." + strings.Repeat("E", rr.Intn(4)) + ";1"
		}
		loc, size := uint32(rr.U64()), uint32(rr.U64())
		if rr.Chance(30) {
			loc, size = uint32(rr.Intn(100000)), uint32(rr.Intn(1<<20))
		}
		y, mo, d, h, mi, s := 1970+rr.Intn(130), 1+rr.Intn(12), 1+rr.Intn(28), rr.Intn(24), rr.Intn(60), rr.Intn(60)
		tz := rr.Intn(97) - 48
		b, err := iso9660.VerifDirRecordBytes(name, isDir, self, parent, loc, size, y, mo, d, h, mi, s, tz)
		if err != nil {
			continue
		}
		nb := []byte(name)
		if self {
			nb = []byte{0}
		}
		if parent {
			nb = []byte{1}
		}
		flags := 0
		if isDir {
			flags = 2
		}
		date := []byte{byte(y - 1900), byte(mo), byte(d), byte(h), byte(mi), byte(s), byte(int8(tz))}
		c.Case(id, "iso.rec", fmt.Sprintf("loc=%d", loc), fmt.Sprintf("size=%d", size), fmt.Sprintf("flags=%d", flags), "name="+hex.EncodeToString(nb), "date="+hex.EncodeToString(date))
		c.Impl(id, "b="+hex.EncodeToString(b))
		// and the other direction
		pn, pd, ps, pp, pl, psz, pdate, err := iso9660.VerifDirRecordParse(b)
		if err == nil {
			id2 := id + "p"
			gn := []byte(pn)
			if ps {
				gn = []byte{0}
			}
			if pp {
				gn = []byte{1}
			}
			gf := 0
			if pd {
				gf = 2
			}
			c.Case(id2, "iso.recparse", "b="+hex.EncodeToString(b))
			c.Impl(id2, fmt.Sprintf("loc=%d", pl), fmt.Sprintf("size=%d", psz), fmt.Sprintf("flags=%d", gf), "name="+hex.EncodeToString(gn), "date="+hex.EncodeToString(pdate))
		}
		c.Stat("corr.rec")
	}
	for i := 0; i < c.N(60, 2000); i++ {
		id := fmt.Sprintf("d/pt/%d", i)
		rr := r.Fork()
		if !c.Want(id) {
			continue
		}
		k := 1 + rr.Intn(12)
		var names []string
		var locs []uint32
		var pars []uint16
		var recs []string
		for j := 0; j < k; j++ {
			nm := strings.Repeat("D", 1+rr.Intn(9))
			if j == 0 {
				nm = "\x00"
			}
			names = append(names, nm)
			locs = append(locs, uint32(rr.U64()))
			pars = append(pars, uint16(1+rr.Intn(j+1)))
			recs = append(recs, fmt.Sprintf("%s:%d:%d", hex.EncodeToString([]byte(nm)), locs[j], pars[j]))
		}
		l, m := iso9660.VerifPathTableBytes(names, locs, pars)
		c.Case(id, "iso.pt", "recs="+strings.Join(recs, ";"))
		c.Impl(id, "l="+hex.EncodeToString(l), "m="+hex.EncodeToString(m), "back=1")
		c.Stat("corr.pt")
	}
	// ---- layout numbers and the Lean reader on real images -------------------------------------------
	layoutCases(c, r)
	composeCases(c, r.Fork())
	// ---- reading side: system use areas (NM / SL / CE), UCS-2 names, path table lookup ----------------
	suspCases(c, r)
	// ---- the SL encoder --------------------------------------------------------------------------------
	slCases(c, r.Fork())
}

func layoutCases(c *hx.Ctx, r *hx.Rng) {
	n := c.N(24, 400)
	for i := 0; i < n; i++ {
		id := fmt.Sprintf("d/layout/%d", i)
		rr := r.Fork()
		if !c.Want(id) && !c.Want(fmt.Sprintf("d/read/%d", i)) && !c.Want(fmt.Sprintf("d/pvd/%d", i)) && !c.Want(fmt.Sprintf("d/readp/%d", i)) && !c.Want(fmt.Sprintf("d/encimg/%d", i)) && !c.Want(fmt.Sprintf("d/wlog/%d", i)) && !c.Want(fmt.Sprintf("d/compose/%d", i)) && !c.Want(fmt.Sprintf("d/ptwalk/%d", i)) && !c.Want(fmt.Sprintf("d/svd/%d", i)) {
			continue
		}
		// start 0 only: where the image lands for other starts is a recorded defect, not layout arithmetic
		cf := cfg{bs: hx.Pick(rr, []int64{2048, 2048, 4096, 8192}), collide: rr.Chance(30)}
		switch rr.Intn(4) {
		case 1:
			cf.rr = true
		case 2:
			cf.rr, cf.joliet = true, true
		}
		root := randTree(rr, 1+rr.Intn(4), hx.Pick(rr, []int{3, 8, 30}), hx.Pick(rr, []int{50, 3000, 20000}), cf)
		if i == 0 {
			root = mkdir(".")
		}
		if i == 1 { // a directory spanning several blocks
			root = mkdir(".")
			for j := 0; j < 130; j++ {
				root.add(mkfile(rr, fmt.Sprintf("file%03d.dat", j), fmt.Sprint(j), j))
			}
		}
		if !cf.rr && root.hasEmptyBase() {
			continue
		}
		d, f, _ := root.count()
		if d+f > 260 {
			continue
		}
		b := build(root, cf)
		if b.err != nil {
			continue
		}
		loc, _ := locate(b.dev, cf)
		if loc == nil || loc.img.pvdErr != nil || loc.img.svdErr != nil || len(loc.img.pvd.aliasDirs) > 0 {
			continue
		}
		img := loc.img
		// entries: root first, then in the order the independent reader met them (parents first)
		type ent struct {
			path  string
			par   int
			ident string
			isDir bool
			size  uint32
			rl    int
			jlen  int
			loc   uint32
		}
		ents := []ent{{path: ".", isDir: true, loc: img.rootLoc}}
		idx := map[string]int{".": 0}
		for _, e := range img.pvd.ents {
			jl := 0
			if cf.rr {
				jl = 2 * len([]rune(baseOf(e.path)))
			}
			idx[e.path] = len(ents)
			ents = append(ents, ent{path: e.path, par: idx[parentOf(e.path)], ident: e.ident, isDir: e.isDir, size: e.size, rl: e.recLen, jlen: jl, loc: e.loc})
		}
		dirBy := map[string]iDir{}
		for _, dd := range img.pvd.dirs {
			dirBy[dd.path] = dd
		}
		jdirBy := map[string]iDir{}
		for _, dd := range img.svd.dirs {
			jdirBy[dd.path] = dd
		}
		var es, ds, fs, js []string
		for k, e := range ents {
			ce, sl, pl := 0, 0, 0
			if e.isDir {
				dd := dirBy[e.path]
				ce = dd.nCE
				if len(dd.recLens) >= 2 {
					sl, pl = dd.recLens[0], dd.recLens[1]
				}
				ds = append(ds, fmt.Sprintf("%d:%d:%d", k, dd.loc, dd.size))
				if cf.joliet {
					jd := jdirBy[e.path]
					js = append(js, fmt.Sprintf("%d:%d:%d", k, jd.loc, jd.size))
				}
			} else {
				fs = append(fs, fmt.Sprintf("%d:%d", k, e.loc))
			}
			kind := "f"
			if e.isDir {
				kind = "d"
			}
			sz := e.size
			if e.isDir {
				sz = 0
			}
			es = append(es, fmt.Sprintf("%d:%s:%s:%d:%d:%d:%d:%d:%d", e.par, hx.Hex([]byte(e.ident)), kind, sz, e.rl, e.jlen, ce, sl, pl))
		}
		if c.Want(id) {
			c.Case(id, "iso.layout", fmt.Sprintf("bs=%d", cf.bs), fmt.Sprintf("joliet=%d", b2i(cf.joliet)), fmt.Sprintf("rr=%d", b2i(cf.rr)), "ents="+strings.Join(es, ";"))
			impl := []string{fmt.Sprintf("total=%d", img.volBlocks), fmt.Sprintf("ptS=%d", img.ptSize), fmt.Sprintf("ptL=%d", img.ptL), fmt.Sprintf("ptM=%d", img.ptM),
				"d=" + strings.Join(ds, ","), "f=" + strings.Join(fs, ",")}
			if cf.joliet {
				impl = append(impl, fmt.Sprintf("jptS=%d", img.jptSize), fmt.Sprintf("jptL=%d", img.jptL), fmt.Sprintf("jptM=%d", img.jptM), "jd="+strings.Join(js, ","))
			}
			c.Impl(id, impl...)
			c.Stat("corr.layout")
			c.Distinct("layout|" + cf.String() + "|" + root.describe())
		}
		imageCases(c, i, cf, b, loc) // whole-image model: PVD codec, pure reader, the model's own encoding of the image
		composeCase(c, i, cf, root, b, loc) // workspace-to-image composition: names, layout, encodings from the workspace alone
		ptwalkCase(c, i, img)               // path table: well formed, lookup of every directory's path = its extent
		svdCase(c, i, cf, b, loc)           // supplementary (Joliet) descriptor codec
		// the Lean reader on the real bytes (plain trees: it knows nothing of Rock Ridge names)
		id2 := fmt.Sprintf("d/read/%d", i)
		volBytes := int64(img.volBlocks) * cf.bs
		if !cf.rr && !cf.joliet && volBytes < 3<<20 && c.Want(id2) {
			p := filepath.Join(c.Scratch, fmt.Sprintf("img-%d.iso", i))
			if err := os.WriteFile(p, b.dev.Bytes(0, int(volBytes)), 0o644); err == nil {
				var vs []string
				pe := append([]iEnt(nil), img.pvd.ents...)
				sort.Slice(pe, func(a, b int) bool { return pe[a].isoPath < pe[b].isoPath })
				for _, e := range pe {
					if e.isDir {
						vs = append(vs, fmt.Sprintf("%s|d|%d|%d", e.isoPath, e.loc, e.size))
					} else {
						data := b.dev.Bytes(int64(e.loc)*cf.bs, int(e.size))
						vs = append(vs, fmt.Sprintf("%s|f|%d|%d|%d", e.isoPath, e.loc, e.size, crc32.ChecksumIEEE(data)))
					}
				}
				c.Case(id2, "iso.read", "path="+p, "base=0", fmt.Sprintf("first=%d", loc.firstDesc), fmt.Sprintf("stride=%d", loc.stride))
				c.Impl(id2, fmt.Sprintf("bs=%d", img.bs), fmt.Sprintf("vol=%d", img.volBlocks), fmt.Sprintf("ptS=%d", img.ptSize), fmt.Sprintf("ptL=%d", img.ptL),
					fmt.Sprintf("ptM=%d", img.ptM), fmt.Sprintf("root=%d:%d", img.rootLoc, img.rootSize), "v="+strings.Join(vs, ";"))
				c.Stat("corr.leanreader")
			}
		}
	}
}
