package iso

// Correspondence for the reading side of the model (Lean Model/Iso/Susp.lean): system use areas with
// NM / SL / CE entries (writer dirEntryExtensionsToBytes, reader parseDirEntry + GetFilename +
// ReadLink), the UCS-2 codec of Joliet names and the path table lookup; through the hooks of
// zz_verif_hooks_C06b.go and on the directory records of real Rock Ridge images. Plus the oracle
// "a name / a symlink target written into a record comes back unchanged" on the real code.

import (
	"encoding/binary"
	"encoding/hex"
	"fmt"
	"os"
	"path/filepath"
	"sort"
	"strings"

	"github.com/diskfs/go-diskfs/filesystem/iso9660"

	"verif/harness/internal/hx"
	"verif/harness/internal/memdev"
)

const tagCEOver = "iso-rr-ce-record-overflow"

func hexOrDash(b []byte) string {
	if len(b) == 0 {
		return "-"
	}
	return hex.EncodeToString(b)
}

// ceAsFound: does dirEntryExtensionsToBytes append the CE entry without having kept room for it
// (the recorded finding iso-rr-ce-record-overflow)? Three extensions of 100 bytes, 210 bytes of room.
func ceAsFound() bool {
	raw := func() string { return "r" + string(append([]byte{'Z', 'Z', 100, 1}, make([]byte, 96)...)) }
	as, err := iso9660.VerifC06Assemble([]string{raw(), raw(), raw()}, 210, 2048, []uint32{50, 51})
	return err == nil && len(as) > 0 && len(as[0]) > 210
}

func rawEntry(r *hx.Rng) []byte {
	n := 4 + r.Intn(60)
	if r.Chance(10) {
		n = 200 + r.Intn(55)
	}
	b := append([]byte{hx.Pick(r, []byte{'Z', 'Y', 'A'}), hx.Pick(r, []byte{'Z', 'Q', 'B'}), byte(n), 1}, r.Bytes(n-4)...)
	return b
}

var suspNameLens = []int{1, 8, 30, 100, 130, 200, 248, 249, 250, 251, 400, 498, 499, 600, 760}

func suspName(r *hx.Rng) string {
	n := hx.Pick(r, suspNameLens)
	if r.Chance(40) {
		n = 1 + r.Intn(300)
	}
	b := make([]byte, n)
	for i := range b {
		b[i] = "abcdefghijklmnopqrstuvwxyzABCXYZ0189_-. +~"[r.Intn(42)]
	}
	return string(b)
}

func suspTarget(r *hx.Rng) string {
	var parts []string
	total := hx.Pick(r, []int{5, 40, 120, 240, 247, 250, 260, 500, 900})
	for l := 0; l < total; {
		var p string
		switch r.Intn(8) {
		case 0:
			p = ".."
		case 1:
			p = "."
		default:
			n := 1 + r.Intn(hx.Pick(r, []int{3, 12, 60, 200}))
			b := make([]byte, n)
			for i := range b {
				b[i] = "abcdefghijklmnopqrstuvwxyz0189_-"[r.Intn(32)]
			}
			p = string(b)
			if p == "." || p == ".." {
				p = "x"
			}
		}
		parts = append(parts, p)
		l += len(p) + 1
	}
	t := strings.Join(parts, "/")
	if r.Chance(30) {
		t = "/" + t
	}
	return t
}

// areaTable follows the CE entries of a system use area on dev and lists every continuation area.
func areaTable(dev rdr, base, bs int64, area []byte, depth int, out *[]string) {
	if depth > 70 {
		return
	}
	for i := 0; i+3 < len(area); {
		l := int(area[i+2])
		if l < 4 || i+l > len(area) {
			return
		}
		if area[i] == 'C' && area[i+1] == 'E' && l == 28 {
			loc := binary.LittleEndian.Uint32(area[i+4:])
			off := binary.LittleEndian.Uint32(area[i+12:])
			ln := binary.LittleEndian.Uint32(area[i+20:])
			if ln > 1<<16 {
				return
			}
			b, err := readFull(dev, base+int64(loc)*bs+int64(off), int(ln))
			if err != nil {
				return
			}
			*out = append(*out, fmt.Sprintf("%d:%d:%s", loc, off, hexOrDash(b)))
			areaTable(dev, base, bs, b, depth+1, out)
		}
		i += l
	}
}

func suspImpl(v *iso9660.VerifC06Rec, err error) []string {
	if err != nil {
		return []string{"err"}
	}
	nm, tg := "none", "none"
	if v.HasName {
		nm = hexOrDash([]byte(v.Name))
	}
	if v.HasTarget {
		tg = hexOrDash([]byte(v.Target))
	}
	return []string{"sigs=" + strings.Join(v.Sigs, ","), "name=" + nm, "target=" + tg}
}

// recordArea: the system use area of a directory record (everything behind the identifier and its pad byte)
func recordArea(rec []byte) []byte {
	nl := int(rec[32])
	st := 33 + nl
	if nl > 1 && nl%2 == 0 {
		st++
	}
	if st > len(rec) {
		return nil
	}
	return rec[st:]
}

func suspCases(c *hx.Ctx, r *hx.Rng) {
	asFound := ceAsFound()
	reserve := "reserve=1"
	if asFound {
		reserve = "reserve=0"
	}
	// ---- witness of the recorded finding --------------------------------------------------------
	if c.Want("w/rr-ce-overflow") {
		rep, msg := ceOverflowWitness(c)
		c.Known(tagCEOver, rep, msg)
	}
	// ---- writer: dirEntryExtensionsToBytes -------------------------------------------------------
	n := c.N(150, 4000)
	for i := 0; i < n; i++ {
		id := fmt.Sprintf("d/asm/%d", i)
		rr := r.Fork()
		if !c.Want(id) {
			continue
		}
		var specs, exts []string
		k := 1 + rr.Intn(6)
		for j := 0; j < k; j++ {
			switch rr.Intn(5) {
			case 0:
				nm := suspName(rr)
				specs = append(specs, "n"+nm)
				exts = append(exts, "n:"+hexOrDash([]byte(nm)))
			case 1:
				t := suspTarget(rr)
				specs = append(specs, "s"+t)
				exts = append(exts, "b:"+hexOrDash(iso9660.VerifC06SLBytes(t)))
			default:
				e := rawEntry(rr)
				specs = append(specs, "r"+string(e))
				exts = append(exts, "b:"+hexOrDash(e))
			}
		}
		bs := hx.Pick(rr, []int64{2048, 2048, 4096, 300, 120})
		max := hx.Pick(rr, []int{254 - 34, 254 - 48, 120, 60, int(bs)})
		nce := rr.Intn(6)
		var ce []uint32
		var ces []string
		for j := 0; j < nce; j++ {
			ce = append(ce, uint32(40+j*3+rr.Intn(2)))
			ces = append(ces, fmt.Sprint(ce[j]))
		}
		as, err := iso9660.VerifC06Assemble(specs, max, bs, ce)
		res := "err"
		if err == nil {
			over := false
			p := make([]string, len(as))
			for j, a := range as {
				p[j] = hexOrDash(a)
				lim := int(bs)
				if j == 0 {
					lim = max
				}
				if len(a) > lim {
					over = true
				}
			}
			if over {
				// the trigger of the recorded finding: an area longer than its room
				c.Stat("corr.asm-overflow-skipped")
				continue
			}
			res = "a=" + strings.Join(p, ";")
		}
		cs := "-"
		if len(ces) > 0 {
			cs = strings.Join(ces, ",")
		}
		c.Case(id, "iso.asm", "exts="+strings.Join(exts, "|"), fmt.Sprintf("max=%d", max), fmt.Sprintf("bs=%d", bs), "ce="+cs, reserve)
		c.Impl(id, res)
		c.Stat("corr.asm")
	}
	// ---- reader: a record made by the real writer, its continuation areas on a device --------------
	n = c.N(120, 3000)
	for i := 0; i < n; i++ {
		id := fmt.Sprintf("d/susp/%d", i)
		rr := r.Fork()
		if !c.Want(id) {
			continue
		}
		name := suspName(rr)
		target := ""
		specs := []string{}
		for j := rr.Intn(3); j > 0; j-- {
			specs = append(specs, "r"+string(rawEntry(rr)))
		}
		specs = append(specs, "n"+name)
		if rr.Chance(50) {
			target = suspTarget(rr)
			specs = append(specs, "s"+target)
		}
		if rr.Chance(30) {
			specs = append(specs, "r"+string(rawEntry(rr)))
		}
		bs := hx.Pick(rr, []int64{2048, 2048, 4096, 300, 512}) // 300 and 512: chains of several continuation areas
		ident := strings.Repeat("N", 2+rr.Intn(11)) + ";1"
		base, err := iso9660.VerifDirRecordBytes(ident, false, false, false, 77, 1234, 2024, 5, 6, 7, 8, 9, 0)
		if err != nil {
			continue
		}
		max := 254 - len(base)
		ce := []uint32{50, 51, 52, 53, 54, 55, 56, 57}
		as, err := iso9660.VerifC06Assemble(specs, max, bs, ce)
		if err != nil {
			c.Stat("susp.writer-refused") // a symlink target that needs more than one continuation block (recorded for C19)
			continue
		}
		over := len(as[0]) > max
		for _, a := range as[1:] {
			if int64(len(a)) > bs {
				over = true
			}
		}
		if over {
			// trigger of iso-rr-ce-record-overflow: the record is longer than 255 bytes, or a continuation
			// area is longer than its block and the next area is written over its CE entry
			c.Stat("corr.susp-overflow-skipped")
			continue
		}
		rec := append(append([]byte{}, base...), as[0]...)
		if len(rec)%2 != 0 {
			rec = append(rec, 0)
		}
		rec[0] = byte(len(rec))
		dev := memdev.New(64 * bs)
		for j := 1; j < len(as); j++ {
			dev.RawWrite(as[j], int64(ce[j-1])*bs)
		}
		var tbl []string
		areaTable(dev, 0, bs, recordArea(rec), 0, &tbl)
		var v *iso9660.VerifC06Rec
		perr, _ := safely(func() error {
			var e error
			v, e = iso9660.VerifC06Record(rec, dev, bs)
			return e
		})
		c.Case(id, "iso.susp", "area="+hexOrDash(recordArea(rec)), "ce="+strings.Join(tbl, ";"))
		c.Impl(id, suspImpl(v, perr)...)
		c.Stat("corr.susp")
		c.Stat(fmt.Sprintf("susp.areas=%d", len(as)-1))
		c.Distinct(fmt.Sprintf("susp|%d|%d|%d", len(name), len(target), len(as)))
		// oracle on the real code: the name and the target come back as they went in
		switch {
		case perr != nil:
			c.Fail(id+"/roundtrip", tagNoFind, fmt.Sprintf("record with a name of %d bytes and a target of %d bytes (%d continuation areas) cannot be read back: %v", len(name), len(target), len(as)-1, perr), "")
		case !v.HasName || v.Name != name:
			c.Fail(id+"/roundtrip", tagNoFind, fmt.Sprintf("name of %d bytes comes back as %q (%d bytes)", len(name), v.Name, len(v.Name)), "")
		case target == "" && v.HasTarget:
			c.Fail(id+"/roundtrip", tagNoFind, fmt.Sprintf("a record without SL entry has the link target %q", v.Target), "")
		case target != "" && (!v.HasTarget || v.Target != target):
			c.Fail(id+"/roundtrip", tagNoFind, fmt.Sprintf("symlink target %q (%d bytes) comes back as %q", target, len(target), v.Target), "")
		default:
			c.OK(id + "/roundtrip")
		}
	}
	// ---- reader: every directory record of real Rock Ridge images ----------------------------------
	suspImages(c, r)
	// ---- UCS-2 ------------------------------------------------------------------------------------------
	n = c.N(120, 3000)
	for i := 0; i < n; i++ {
		id := fmt.Sprintf("d/ucs2/%d", i)
		rr := r.Fork()
		if !c.Want(id) {
			continue
		}
		k := rr.Intn(40)
		runes := make([]rune, k)
		cps := make([]string, k)
		for j := range runes {
			switch rr.Intn(6) {
			case 0:
				runes[j] = rune(0x4e00 + rr.Intn(0x5000))
			case 1:
				runes[j] = rune(0xa0 + rr.Intn(0x700))
			case 2:
				runes[j] = rune(0x10000 + rr.Intn(0xffff)) // beyond the BMP: cut to 16 bits by the code as found (recorded finding iso-joliet-nonbmp-name), a surrogate pair once repaired; the model follows Generated.Iso.jolietUtf16
			case 3:
				runes[j] = rune(0xe000 + rr.Intn(0x1ff0))
			default:
				runes[j] = rune(0x20 + rr.Intn(0x5f))
			}
			cps[j] = fmt.Sprint(int(runes[j]))
		}
		raw := rr.Bytes(rr.Intn(50))
		enc := iso9660.VerifC06UCS2Enc(string(runes))
		dec := []rune(iso9660.VerifC06UCS2Dec(raw))
		ds := make([]string, len(dec))
		for j, x := range dec {
			ds[j] = fmt.Sprint(int(x))
		}
		dj, cj := "-", "-"
		if len(ds) > 0 {
			dj = strings.Join(ds, ",")
		}
		if len(cps) > 0 {
			cj = strings.Join(cps, ",")
		}
		c.Case(id, "iso.ucs2", "cps="+cj, "b="+hexOrDash(raw))
		c.Impl(id, "enc="+hexOrDash(enc), "dec="+dj)
		c.Stat("corr.ucs2")
	}
	// ---- path table lookup ------------------------------------------------------------------------------
	n = c.N(150, 4000)
	for i := 0; i < n; i++ {
		id := fmt.Sprintf("d/ptlookup/%d", i)
		rr := r.Fork()
		if !c.Want(id) {
			continue
		}
		// a tree in path table order (level by level, parents before children), sometimes damaged
		type pr struct {
			name   string
			loc    uint32
			parent uint16
			path   string
		}
		recs := []pr{{"\x00", 18, 1, "."}}
		level := []int{0}
		for depth := 0; depth < 1+rr.Intn(4) && len(recs) < 40; depth++ {
			var next []int
			for _, p := range level {
				used := map[string]bool{}
				for k := rr.Intn(4); k > 0; k-- {
					nm := hx.Pick(rr, []string{"A", "B", "AA", "BB", "CC", "X", "DIR1", "LONGNAME"})
					if used[nm] {
						continue
					}
					used[nm] = true
					recs = append(recs, pr{nm, uint32(20 + len(recs)), uint16(p + 1), join(recs[p].path, nm)})
					next = append(next, len(recs)-1)
				}
			}
			level = next
		}
		if rr.Chance(15) && len(recs) > 2 { // damage: a parent number that points forward or nowhere
			recs[1+rr.Intn(len(recs)-1)].parent = uint16(rr.Intn(len(recs) + 3))
		}
		var path string
		switch rr.Intn(6) {
		case 0:
			path = hx.Pick(rr, []string{".", "", "/", "A/B/CC/X", "NOPE", "A//B"})
		case 1:
			path = recs[rr.Intn(len(recs))].path + "/" + hx.Pick(rr, []string{"A", "ZZ"})
		default:
			path = recs[rr.Intn(len(recs))].path
		}
		names := make([]string, len(recs))
		locs := make([]uint32, len(recs))
		pars := make([]uint16, len(recs))
		rs := make([]string, len(recs))
		for j, e := range recs {
			names[j], locs[j], pars[j] = e.name, e.loc, e.parent
			rs[j] = fmt.Sprintf("%s:%d:%d", hex.EncodeToString([]byte(e.name)), e.loc, e.parent)
		}
		var parts []string
		for _, p := range strings.Split(path, "/") {
			if p != "" {
				parts = append(parts, hex.EncodeToString([]byte(p)))
			}
		}
		got := iso9660.VerifC06PTLookup(names, locs, pars, path)
		c.Case(id, "iso.ptlookup", "recs="+strings.Join(rs, ";"), "path="+strings.Join(parts, "/"))
		c.Impl(id, fmt.Sprintf("loc=%d", got))
		c.Stat("corr.ptlookup")
	}
}

// suspImages: the real Finalize with Rock Ridge; every record of every directory is read by the real
// parseDirEntry and by the model from the same bytes.
func suspImages(c *hx.Ctx, r *hx.Rng) {
	n := c.N(3, 40)
	for i := 0; i < n; i++ {
		idp := fmt.Sprintf("d/suspimg/%d", i)
		rr := r.Fork()
		if !c.Want(idp) {
			continue
		}
		cf := cfg{rr: true, bs: hx.Pick(rr, []int64{2048, 2048, 4096}), joliet: i%3 == 2}
		var root *node
		if i == 0 {
			root = mkdir(".")
			sub := root.add(mkdir("sub"))
			for _, ln := range []int{5, 100, 180, 230, 250, 251, 400, 600} {
				sub.add(mkfile(rr, strings.Repeat("r", ln), fmt.Sprintf("si%d", ln), 10))
			}
			root.add(mkfile(rr, strings.Repeat("q", 200), "q", 3))
		} else {
			root = randTree(rr, 1+rr.Intn(3), hx.Pick(rr, []int{3, 8, 20}), 300, cf)
		}
		b := build(root, cf)
		if b.err != nil {
			continue
		}
		loc, _ := locate(b.dev, cf)
		if loc == nil || loc.img.pvdErr != nil {
			continue
		}
		img := loc.img
		dirs := append([]iDir(nil), img.pvd.dirs...)
		sort.Slice(dirs, func(a, b int) bool { return dirs[a].loc < dirs[b].loc })
		k := 0
		for _, d := range dirs {
			ext := b.dev.Bytes(loc.base+int64(d.loc)*cf.bs, int(d.size))
			for p := 0; p < len(ext); {
				l := int(ext[p])
				if l == 0 {
					p += int(cf.bs) - p%int(cf.bs)
					continue
				}
				if p+l > len(ext) || l < 34 {
					break
				}
				rec := ext[p : p+l]
				p += l
				id := fmt.Sprintf("%s/%d", idp, k)
				k++
				if k > c.N(120, 400) {
					break
				}
				var tbl []string
				areaTable(b.dev, loc.base, cf.bs, recordArea(rec), 0, &tbl)
				var v *iso9660.VerifC06Rec
				sub := subDev{b.dev, loc.base}
				perr, _ := safely(func() error {
					var e error
					v, e = iso9660.VerifC06Record(rec, sub, cf.bs)
					return e
				})
				c.Case(id, "iso.susp", "area="+hexOrDash(recordArea(rec)), "ce="+strings.Join(tbl, ";"))
				c.Impl(id, suspImpl(v, perr)...)
				c.Stat("corr.susp-image-record")
			}
		}
	}
}

// subDev shows a memdev from byte base on (images written at a non-zero start).
type subDev struct {
	*memdev.Dev
	base int64
}

func (s subDev) ReadAt(p []byte, off int64) (int, error) { return s.Dev.ReadAt(p, off+s.base) }

// ceOverflowWitness replays the witness of iso-rr-ce-record-overflow: a Rock Ridge symlink with a name
// of 120 bytes. Reproduced = Finalize succeeds and the directory cannot be listed (or lacks an entry).
func ceOverflowWitness(c *hx.Ctx) (bool, string) {
	bs := int64(2048)
	size := int64(8 << 20)
	dev := memdev.New(size)
	var names []string
	err, _ := safely(func() error {
		fsys, err := iso9660.Create(dev, size, 0, bs, "")
		if err != nil {
			return fmt.Errorf("Create: %v", err)
		}
		ws := fsys.Workspace()
		if err := os.Symlink("some/target/file.txt", filepath.Join(ws, strings.Repeat("n", 120))); err != nil {
			return fmt.Errorf("symlink in the workspace: %v", err)
		}
		if err := os.WriteFile(filepath.Join(ws, "zlast.txt"), []byte("hello"), 0o644); err != nil {
			return err
		}
		if err := fsys.Finalize(iso9660.FinalizeOptions{RockRidge: true, VolumeIdentifier: "VERIF"}); err != nil {
			return fmt.Errorf("Finalize: %v", err)
		}
		rfs, err := iso9660.Read(dev, size, 0, bs)
		if err != nil {
			return fmt.Errorf("Read: %v", err)
		}
		des, err := rfs.ReadDir(".")
		if err != nil {
			return fmt.Errorf("ReadDir: %v", err)
		}
		for _, d := range des {
			names = append(names, d.Name())
		}
		return nil
	})
	if err != nil {
		if strings.Contains(err.Error(), "ReadDir") {
			return true, "root directory with a symlink named 120 x 'n': " + err.Error()
		}
		return false, "witness could not be built: " + err.Error()
	}
	sort.Strings(names)
	if len(names) == 2 && names[0] == strings.Repeat("n", 120) && names[1] == "zlast.txt" {
		return false, "root directory with a symlink named 120 x 'n' lists both entries"
	}
	return true, fmt.Sprintf("root directory with a symlink named 120 x 'n' lists %d entries %v", len(names), trunc(names))
}
