package iso

// Correspondence for the WORKSPACE-TO-IMAGE composition (Lean Model/Iso/Compose.lean, theorem
// workspace_roundtrip): the model gets the workspace alone (host names, kinds, sizes, dates, in the
// order filepath.WalkDir delivers them) and must compute what the real Finalize put on the device:
// every identifier (8.3 mapping + collision resolution), every location and size, the bytes of every
// directory extent, of both path tables and of the primary volume descriptor (CRC), the volume size.

import (
	"encoding/binary"
	"fmt"
	"hash/crc32"
	"sort"
	"strconv"
	"strings"

	"github.com/diskfs/go-diskfs/filesystem/iso9660"

	"verif/harness/internal/hx"
)

type wEnt struct {
	par int
	n   *node
}

type cRec struct {
	ident     []byte
	loc, size uint32
	date      []byte
	isDir     bool
}

// flattenWorkspace lists the workspace in WalkDir order: a directory, then its children sorted by
// name, each directory followed by what it holds.
func flattenWorkspace(root *node) []wEnt {
	var ents []wEnt
	var flat func(n *node, par int)
	flat = func(n *node, par int) {
		idx := len(ents)
		ents = append(ents, wEnt{par, n})
		kids := append([]*node(nil), n.kids...)
		sort.Slice(kids, func(a, b int) bool { return kids[a].name < kids[b].name })
		for _, k := range kids {
			flat(k, idx)
		}
	}
	flat(root, 0)
	return ents
}

func plainRecords(data []byte, bs int) []cRec {
	var out []cRec
	for pos := 0; pos < len(data); {
		l := int(data[pos])
		if l == 0 {
			pos = (pos/bs + 1) * bs
			continue
		}
		if l < 34 || pos+l > len(data) {
			return nil
		}
		r := data[pos : pos+l]
		nl := int(r[32])
		if 33+nl > l {
			return nil
		}
		out = append(out, cRec{ident: append([]byte(nil), r[33:33+nl]...), loc: binary.LittleEndian.Uint32(r[2:]), size: binary.LittleEndian.Uint32(r[10:]),
			date: append([]byte(nil), r[18:25]...), isDir: r[25]&2 != 0})
		pos += l
	}
	return out
}

func composeCase(c *hx.Ctx, i int, cf cfg, root *node, b built, loc *located) {
	id := fmt.Sprintf("d/compose/%d", i)
	img := loc.img
	if !c.Want(id) || cf.rr || cf.joliet || loc.base != 0 || int64(img.volBlocks)*cf.bs >= 1<<20 {
		return
	}
	bs := int(cf.bs)
	ents := flattenWorkspace(root)
	total := 0
	for _, e := range ents {
		total += len(e.n.data)
	}
	if len(ents) > 80 || total > 200000 {
		return
	}
	kids := make([][]int, len(ents))
	for k := 1; k < len(ents); k++ {
		kids[ents[k].par] = append(kids[ents[k].par], k)
	}
	// more than four colliding groups in one directory: the model would have to try too many orders
	for d := range ents {
		groups := map[string]int{}
		for _, k := range kids[d] {
			s, e := iso9660.VerifShortnameExtension(ents[k].n.name)
			if ents[k].n.dir {
				e = ""
			}
			groups[s+"."+e]++
		}
		multi := 0
		for _, n := range groups {
			if n > 1 {
				multi++
			}
		}
		if multi > 4 {
			return
		}
	}
	pvd := b.dev.Bytes(loc.firstDesc, 2048)
	info := make([]cRec, len(ents))
	info[0] = cRec{ident: []byte{0}, loc: img.rootLoc, size: img.rootSize, date: append([]byte(nil), pvd[156+18:156+25]...), isDir: true}
	ok := true
	var assign func(d int)
	assign = func(d int) {
		recs := plainRecords(b.dev.Bytes(int64(info[d].loc)*cf.bs, int(info[d].size)), bs)
		if len(recs) != len(kids[d])+2 {
			ok = false
			return
		}
		for j, k := range kids[d] {
			info[k] = recs[j+2]
			if info[k].isDir != ents[k].n.dir {
				ok = false
				return
			}
			if info[k].isDir {
				assign(k)
			}
		}
	}
	assign(0)
	if !ok {
		c.Fail(id, "-", "the records of the image do not line up with the workspace in WalkDir order", root.describe())
		return
	}
	var es, ds, fs []string
	for k, e := range ents {
		var cps []string
		for _, r := range e.n.name {
			cps = append(cps, strconv.Itoa(int(r)))
		}
		name := "-"
		if k > 0 && len(cps) > 0 {
			name = strings.Join(cps, ",")
		}
		kind, sz := "f", len(e.n.data)
		if e.n.dir {
			kind, sz = "d", 0
		}
		es = append(es, fmt.Sprintf("%d:%s:%s:%d:%s:%s", e.par, name, kind, sz, hx.Hex(info[k].date), hx.Hex(info[k].ident)))
		if e.n.dir {
			n := blocksOf(info[k].size, bs) * cf.bs
			ds = append(ds, fmt.Sprintf("%d:%s:%d:%d:%d", k, hexLower(info[k].ident), info[k].loc, info[k].size, crc32.ChecksumIEEE(b.dev.Bytes(int64(info[k].loc)*cf.bs, int(n)))))
		} else {
			fs = append(fs, fmt.Sprintf("%d:%s:%d:%d", k, hexLower(info[k].ident), info[k].loc, info[k].size))
		}
	}
	walk := "skipped"
	if len(ents) <= 8 && total <= 3000 {
		walk = "1"
	}
	c.Case(id, "iso.compose", fmt.Sprintf("bs=%d", bs), "sys="+hx.Hex(pvd[8:40]), "vol="+hx.Hex(pvd[40:72]), "tail="+hx.Hex(pvd[190:2048]), "ents="+strings.Join(es, ";"))
	c.Impl(id, "names=1", fmt.Sprintf("total=%d", img.volBlocks), fmt.Sprintf("vol=%d", img.volBlocks), "d="+strings.Join(ds, ","), "f="+strings.Join(fs, ","),
		fmt.Sprintf("ptL=%d:%d", img.ptL, crc32.ChecksumIEEE(b.dev.Bytes(int64(img.ptL)*cf.bs, int(img.ptSize)))),
		fmt.Sprintf("ptM=%d:%d", img.ptM, crc32.ChecksumIEEE(b.dev.Bytes(int64(img.ptM)*cf.bs, int(img.ptSize)))),
		fmt.Sprintf("ptS=%d", img.ptSize), fmt.Sprintf("pvd=%d", crc32.ChecksumIEEE(pvd)), "ok=1", "walk="+walk)
	c.Stat("corr.compose")
}

// composeCases: further images for iso.compose only - the boundary shapes that matter for names and
// layout (8.3 collisions incl. occupied candidates and mixed case, depth 8, exact-multiple sizes) and
// random plain trees, half of them with colliding names, at block sizes 2048 / 4096 / 8192.
func composeCases(c *hx.Ctx, r *hx.Rng) {
	var trees []*node
	var cfs []cfg
	for _, sh := range shapes(c) {
		switch sh.name {
		case "empty", "sizes", "lastexact", "collide", "depth8":
			cf := cfg{bs: 2048, collide: true}
			if sh.name == "sizes" {
				cf.bs = 4096
			}
			trees = append(trees, sh.mk(r.Fork(), cf))
			cfs = append(cfs, cf)
		}
	}
	n := c.N(16, 300)
	for i := 0; i < n; i++ {
		rr := r.Fork()
		cf := cfg{bs: hx.Pick(rr, []int64{2048, 2048, 4096, 8192}), collide: rr.Chance(50)}
		trees = append(trees, randTree(rr, 1+rr.Intn(5), hx.Pick(rr, []int{3, 6, 12}), hx.Pick(rr, []int{50, 3000}), cf))
		cfs = append(cfs, cf)
	}
	// directories with dotted names (regime dir_dotted_collision): the model must reproduce their identifiers
	// - SHORT alone, colliding siblings numbered - and everything laid out from them
	for _, t := range dotTrees(c) {
		switch t.name {
		case "two", "pairs", "withfiles", "plainvsdotted", "nested", "trailing":
			trees = append(trees, t.mk(r.Fork()))
			cfs = append(cfs, cfg{bs: 2048, collide: true})
		}
	}
	for i, root := range trees {
		k := 1000 + i
		if (!c.Want(fmt.Sprintf("d/compose/%d", k)) && !c.Want(fmt.Sprintf("d/ptwalk/%d", k))) || root.hasEmptyBase() {
			continue
		}
		b := build(root, cfs[i])
		if b.err != nil {
			continue
		}
		loc, _ := locate(b.dev, cfs[i])
		if loc == nil || loc.img.pvdErr != nil {
			continue
		}
		composeCase(c, k, cfs[i], root, b, loc)
		ptwalkCase(c, k, loc.img)
		c.Distinct("compose|" + cfs[i].String() + "|" + root.describe())
	}
}

// ptwalkCase: the primary path table of a real image is well formed (PtWF of theorem
// pathtable_lookup_is_walk) and looking up the path of every directory - the names of its chain of
// ancestors - returns that directory's extent: in the model (ptLookup) and in the real getLocation.
func ptwalkCase(c *hx.Ctx, i int, img *iImage) {
	id := fmt.Sprintf("d/ptwalk/%d", i)
	recs := img.ptLRecs
	if !c.Want(id) || len(recs) == 0 || len(recs) > 400 {
		return
	}
	names := make([]string, len(recs))
	locs := make([]uint32, len(recs))
	pars := make([]uint16, len(recs))
	rs := make([]string, len(recs))
	for j, e := range recs {
		names[j], locs[j], pars[j] = e.name, e.loc, e.parent
		rs[j] = fmt.Sprintf("%s:%d:%d", hx.Hex([]byte(e.name)), e.loc, e.parent)
	}
	c.Case(id, "iso.ptwalk", "recs="+strings.Join(rs, ";"))
	c.Impl(id, "wf=1", fmt.Sprintf("n=%d", len(recs)), fmt.Sprintf("hit=%d", len(recs)-1))
	c.Stat("corr.ptwalk")
	bad := ""
	for j := 1; j < len(recs) && bad == ""; j++ {
		var parts []string
		for k, fuel := j+1, len(recs)+1; k >= 2 && k <= len(recs) && fuel > 0; k, fuel = int(recs[k-1].parent), fuel-1 {
			parts = append([]string{recs[k-1].name}, parts...)
		}
		p := strings.Join(parts, "/")
		var got uint32
		err, _ := safely(func() error { got = iso9660.VerifC06PTLookup(names, locs, pars, p); return nil })
		if err != nil || got != recs[j].loc {
			bad = fmt.Sprintf("path table lookup of %q gives extent %d, the record of that directory says %d (%v)", p, got, recs[j].loc, err)
		}
	}
	if bad != "" {
		c.Fail(id+"/real", tagNoFind, bad, "")
	} else {
		c.OK(id + "/real")
	}
}

// svdCase: the supplementary (Joliet) descriptor of a real image against the model's decoder, and the
// model's encoder must give the very same 2048 bytes again (theorem svd_roundtrip).
func svdCase(c *hx.Ctx, i int, cf cfg, b built, loc *located) {
	id := fmt.Sprintf("d/svd/%d", i)
	img := loc.img
	if !c.Want(id) || !cf.joliet || !img.hasJoliet {
		return
	}
	for k := 0; k < 8; k++ {
		d := b.dev.Bytes(loc.base+loc.firstDesc+int64(k)*loc.stride, 2048)
		if d[0] == 255 {
			return
		}
		if d[0] != 2 {
			continue
		}
		c.Case(id, "iso.svd", "b="+hx.Hex(d))
		c.Impl(id, fmt.Sprintf("flags=%d", d[7]), "joliet=1", fmt.Sprintf("vol=%d", img.jVolBlocks), fmt.Sprintf("set=%d", binary.LittleEndian.Uint16(d[120:])),
			fmt.Sprintf("seq=%d", binary.LittleEndian.Uint16(d[124:])), fmt.Sprintf("bs=%d", img.bs), fmt.Sprintf("ptS=%d", img.jptSize),
			fmt.Sprintf("ptL=%d", img.jptL), fmt.Sprintf("ptM=%d", img.jptM), fmt.Sprintf("root=%d:%d", img.jRootLoc, img.jRootSize), "re=1")
		c.Stat("corr.svd")
		return
	}
}

func hexLower(b []byte) string {
	const digits = "0123456789abcdef"
	out := make([]byte, 0, 2*len(b))
	for _, x := range b {
		out = append(out, digits[x>>4], digits[x&15])
	}
	return string(out)
}
