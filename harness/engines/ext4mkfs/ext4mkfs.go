// Package ext4mkfs is the Create clause of property C05: every parameter set ext4.Create accepts must give an
// image that e2fsck -f -n accepts (and still does after a few operations), a refusal is fine, a panic is not.
// The layout numbers of every accepted image (read back from the superblock and group descriptors by an
// independent parser) are compared with the Lean mkfs arithmetic.
package ext4mkfs

import (
	"fmt"
	"os"
	"path/filepath"
	"runtime"
	"strings"
	"sync"

	x "verif/harness/engines/ext4common"
	"verif/harness/internal/hx"
)

const (
	tagNo64    = "ext4-create-no64bit-panic"
	tagResize  = "ext4-create-resize-inode-size"
	tagSparse2 = "ext4-create-sparse-super2"
	tagProjQ   = "ext4-create-project-quota"
	tagFewIno  = "ext4-create-few-inodes-underflow"
	tagFlexFit = "ext4-create-flex-meta-overflow"
	tagBmCsum  = "ext4-create-bitmap-csum-small-groups"
	tagIpgMax  = "ext4-create-inodes-per-group-over-bitmap"
	tagGroups  = "ext4-create-group-count-ignores-first-data-block"
	tagJrnlGrp = "ext4-create-noflex-journal-over-group"
	MiB        = int64(1 << 20)
)

func boundary() []x.Config {
	f, t := x.B(false), x.B(true)
	return []x.Config{
		{Size: 16 * MiB}, {Size: 16 * MiB, Start: MiB}, {Size: 16 * MiB, SPB: 2},
		{Size: 16 * MiB, SPB: 4}, {Size: 16 * MiB, SPB: 8}, {Size: 16 * MiB, SPB: 8, Resize: f},
		{Size: 16 * MiB, SPB: 4, Resize: f, Journal: f}, {Size: 16 * MiB, SPB: 1}, {Size: 16 * MiB, SPB: 200},
		{Size: 16 * MiB, Csum: t}, {Size: 16 * MiB, Csum: t, Journal: f}, {Size: 16 * MiB, Journal: f},
		{Size: 16 * MiB, GdtCsum: t}, {Size: 16 * MiB, Bit64: f}, {Size: 16 * MiB, Flex: f}, {Size: 40 * MiB, Flex: f},
		{Size: 40 * MiB, Sparse: 2}, {Size: 16 * MiB, BPG: 1024}, {Size: 16 * MiB, BPG: 4096}, {Size: 16 * MiB, BPG: 100},
		{Size: 16 * MiB, BPG: 8196}, {Size: 16 * MiB, BPG: 16384}, {Size: 16 * MiB, BPG: 2048, Resize: f},
		{Size: 16 * MiB, InodeRatio: 4096}, {Size: 16 * MiB, InodeRatio: 1024}, {Size: 16 * MiB, InodeRatio: 1024, Resize: f, Journal: f},
		{Size: 16 * MiB, InodeRatio: 65536}, {Size: 16 * MiB, InodeCount: 100}, {Size: 16 * MiB, InodeCount: 5000},
		{Size: 16 * MiB, InodeCount: 16}, {Size: 2 * MiB}, {Size: 4 * MiB}, {Size: 8 * MiB}, {Size: 8*MiB + 1000},
		{Size: 9 * MiB, Journal: f}, {Size: 1 * MiB, Journal: f}, {Size: 100 * MiB}, {Size: 100 * MiB, Csum: t},
		{Size: 64 * MiB, LogFlex: 2}, {Size: 64 * MiB, LogFlex: 1}, {Size: 40 * MiB, Resize: f}, {Size: 16 * MiB, ResPct: 1},
		{Size: 16 * MiB, DirIndex: t}, {Size: 16 * MiB, HugeFile: f}, {Size: 16 * MiB, ProjQuota: t}, {Size: 16 * MiB, LargeInodes: t},
		{Size: 17*MiB + 513}, {Size: 16 * MiB, BPG: 2048, Csum: t, Resize: f, Journal: f}, {Size: 64*MiB + 3*1024, Resize: f}, {Size: 33 * MiB, Journal: f}, {Size: 600 * MiB}, {Size: 16 * MiB, Resize: f}, {Size: 24 * MiB, Resize: f, Flex: f},
		// the witness of finding ext4-create-noflex-journal-over-group (fixed by c2ea435: a return is an unlisted failure)
		{Size: 100 * MiB, BPG: 4096, Flex: f, Resize: f},
	}
}

func random(r *hx.Rng) x.Config {
	ob := func(pOff, pOn int) *bool {
		switch y := r.Intn(100); {
		case y < pOff:
			return x.B(false)
		case y < pOff+pOn:
			return x.B(true)
		}
		return nil
	}
	c := x.Config{Size: hx.Pick(r, []int64{9, 12, 16, 16, 17, 20, 24, 33, 40, 64, 100}) * MiB}
	if r.Chance(20) {
		c.Size += int64(r.Intn(4096))
	}
	if r.Chance(25) {
		c.Start = hx.Pick(r, []int64{512, MiB, 3*MiB + 1536})
	}
	c.SPB = hx.Pick(r, []uint8{0, 0, 0, 2, 4, 8})
	if r.Chance(40) {
		c.BPG = hx.Pick(r, []uint32{256, 1024, 2048, 4096, 8192, 8200, 16384, 32768, 100, 65536})
	}
	if r.Chance(40) {
		c.InodeRatio = hx.Pick(r, []int64{1024, 2048, 4096, 16384, 65536, 1 << 20})
	}
	if r.Chance(25) {
		c.InodeCount = hx.Pick(r, []uint32{8, 16, 100, 1000, 5000, 50000})
	}
	if r.Chance(30) {
		c.LogFlex = hx.Pick(r, []int{1, 2, 3, 4, 5})
	}
	if r.Chance(5) {
		c.Sparse = 2
	}
	if r.Chance(15) {
		c.ResPct = uint8(1 + r.Intn(20))
	}
	c.Journal, c.Csum, c.Resize = ob(35, 5), ob(5, 35), ob(45, 5)
	c.Bit64, c.Flex, c.GdtCsum = ob(7, 5), ob(12, 5), ob(3, 12)
	c.ProjQuota, c.DirIndex, c.HugeFile, c.LargeInodes = ob(3, 5), ob(3, 10), ob(8, 3), ob(3, 8)
	return c
}

func Run(c *hx.Ctx) {
	cfgs := boundary()
	n := c.N(26, 1500)
	rr := c.Rng.Fork()
	for i := 0; i < n; i++ {
		cfgs = append(cfgs, random(rr))
	}
	type job struct {
		i   int
		cfg x.Config
	}
	ch := make(chan job)
	var wg sync.WaitGroup
	workers := runtime.NumCPU()
	if workers > 8 {
		workers = 8
	}
	for w := 0; w < workers; w++ {
		wg.Add(1)
		go func(w int) {
			defer wg.Done()
			scratch := filepath.Join(c.Scratch, fmt.Sprintf("m%d", w))
			os.MkdirAll(scratch, 0o755)
			for j := range ch {
				one(c, fmt.Sprintf("mk%d", j.i), j.cfg, scratch)
			}
		}(w)
	}
	for i, cfg := range cfgs {
		id := fmt.Sprintf("mk%d", i)
		if c.Want(id) {
			ch <- job{i, cfg}
		}
	}
	close(ch)
	wg.Wait()
}

func hasSuper(g int) bool {
	if g == 0 || g == 1 {
		return true
	}
	for _, n := range []int{3, 5, 7} {
		for x := n; x <= g; x *= n {
			if x == g {
				return true
			}
		}
	}
	return false
}

// fitsGo: does the metadata of every (flex) group fit behind its owner's superblock copy inside the owner's group?
// (the decidable predicate `Fits` of the Lean mkfs model, recomputed from the image's own numbers)
func fitsGo(v *x.View, flex bool, logFlex int) bool {
	ng := len(v.Groups)
	itb := (uint64(v.IPG)*uint64(v.InodeSize) + uint64(v.BlockSize) - 1) / uint64(v.BlockSize)
	ds := uint64(32)
	if v.Incompat&0x80 != 0 {
		ds = 64
	}
	gdtb := (uint64(ng)*ds + uint64(v.BlockSize) - 1) / uint64(v.BlockSize)
	meta := func(g int) uint64 {
		if hasSuper(g) {
			return 1 + gdtb + uint64(v.ReservedGDT)
		}
		return 0
	}
	fs := 1
	if flex {
		if logFlex == 0 {
			logFlex = 3
		}
		fs = 1 << logFlex
	}
	for g := 0; g < ng; g++ {
		if flex {
			if g%fs != 0 {
				continue
			}
			n := fs
			if ng-g < n {
				n = ng - g
			}
			if meta(g)+uint64(n)*(2+itb) > uint64(v.BlocksInGroup(g)) {
				return false
			}
		} else if meta(g)+2+itb > uint64(v.BlocksInGroup(g)) {
			return false
		}
	}
	return true
}

func b2i(b bool) int {
	if b {
		return 1
	}
	return 0
}

func paramRefusal(err error) bool {
	s := err.Error()
	return strings.Contains(s, "invalid sectors per block") || strings.Contains(s, "invalid number of blocks per group") || strings.Contains(s, "inodes, greater than max")
}

func one(c *hx.Ctx, id string, cfg x.Config, scratch string) {
	cfg.Name = id
	desc := cfg.String()
	d, fs, err, panicked := x.Create(cfg)
	resizeOn, flexOn, bit64 := x.On(cfg.Resize, true), x.On(cfg.Flex, true), x.On(cfg.Bit64, true)
	modelCase := func() {
		c.Case(id, "ext4mkfs.layout", fmt.Sprintf("size=%d", cfg.Size), fmt.Sprintf("spb=%d", cfg.SPB), fmt.Sprintf("bpg=%d", cfg.BPG),
			fmt.Sprintf("iratio=%d", cfg.InodeRatio), fmt.Sprintf("icount=%d", cfg.InodeCount), fmt.Sprintf("logflex=%d", cfg.LogFlex),
			fmt.Sprintf("resize=%d", b2i(resizeOn)), fmt.Sprintf("flex=%d", b2i(flexOn)), fmt.Sprintf("bit64=%d", b2i(bit64)))
	}
	switch {
	case panicked:
		c.Stat("create.panic")
		if !bit64 && strings.Contains(err.Error(), "slice bounds out of range") {
			c.Fail(id, tagNo64, "Create panics: "+err.Error(), desc)
		} else {
			c.Fail(id, "-", "Create panics: "+err.Error(), desc)
		}
		return
	case err != nil:
		c.Stat("create.refused")
		if paramRefusal(err) {
			modelCase()
			c.Impl(id, "refused")
		}
		c.OK(id)
		return
	}
	c.Stat("create.accepted")
	v, verr := x.ParseView(d, cfg.Start)
	if verr != nil {
		c.Fail(id, "-", "Create succeeded but the superblock is unreadable: "+verr.Error(), desc)
		return
	}
	// model correspondence: layout numbers read back from the image
	var bb []string
	for _, g := range v.Groups {
		bb = append(bb, fmt.Sprint(g.BlockBitmap))
		if g.InodeBitmap != g.BlockBitmap+1 || g.InodeTable != g.BlockBitmap+2 {
			bb[len(bb)-1] += "!"
		}
	}
	// no correspondence where a recorded defect corrupts the descriptors themselves: fewer than 11 inodes per
	// group (few-inodes underflow), and sparse_super2, whose backup "block numbers" 1 and groups-1 make
	// writeSuperblock put a superblock copy over block 1 - the primary group descriptor table when the block
	// size is 2 or 4 KiB
	// ... and a block count of k x blocksPerGroup + firstDataBlock, for which Create counts one (empty) group
	// more than the superblock's own numbers describe (finding ext4-create-group-count-ignores-first-data-block)
	ceilDiv := func(a, b uint64) uint64 { return (a + b - 1) / b }
	groupsOff := ceilDiv(v.BlocksCount, uint64(v.BPG)) != ceilDiv(v.BlocksCount-uint64(v.FirstDataBlock), uint64(v.BPG))
	journalOn := x.On(cfg.Journal, true)
	if v.IPG >= 11 && cfg.Sparse != 2 && !groupsOff {
		modelCase()
		c.Impl(id, fmt.Sprintf("bs=%d", v.BlockSize), fmt.Sprintf("nb=%d", v.BlocksCount), fmt.Sprintf("bpg=%d", v.BPG),
			fmt.Sprintf("groups=%d", len(v.Groups)), fmt.Sprintf("ipg=%d", v.IPG), fmt.Sprintf("icount=%d", v.InodesCount),
			fmt.Sprintf("fdb=%d", v.FirstDataBlock), fmt.Sprintf("rsv=%d", v.ReservedGDT), "bb="+strings.Join(bb, ","),
			fmt.Sprintf("fits=%d", b2i(fitsGo(v, flexOn, cfg.LogFlex))))
	}
	classify := func(out string) string {
		switch {
		case v.IPG < 11 && (strings.Contains(out, "Free inodes count wrong for group #0") || strings.Contains(out, "(inodes_per_group =") || strings.Contains(out, "(first_ino =")):
			return tagFewIno
		case v.IPG > 8*v.BlockSize && strings.Contains(out, "superblock is corrupt"):
			return tagIpgMax
		case groupsOff && (strings.Contains(out, "Inode count in superblock is") || strings.Contains(out, "superblock is corrupt")):
			return tagGroups
		case !flexOn && journalOn && uint64(v.BPG)*uint64(v.BlockSize) <= 4<<20 && strings.Contains(out, "Multiply-claimed block(s) in inode 2"):
			return tagJrnlGrp
		case !fitsGo(v, flexOn, cfg.LogFlex) && (strings.Contains(out, "not in group") || strings.Contains(out, "bad block for") || strings.Contains(out, "Group descriptors look bad")):
			return tagFlexFit
		case x.On(cfg.Csum, false) && v.BPG != 8*v.BlockSize && strings.Contains(out, "block bitmap does not match checksum"):
			return tagBmCsum
		case cfg.Sparse == 2:
			return tagSparse2
		case x.On(cfg.ProjQuota, false) && strings.Contains(out, "Inode bitmap differences"):
			return tagProjQ
		case v.ReservedGDT > 0 && (!flexOn || (cfg.LogFlex != 0 && cfg.LogFlex != 3) || v.BPG != 8192 || len(v.Groups) < 8) &&
			(strings.Contains(out, "Inode 7, i_size is") || strings.Contains(out, "Resize inode not valid")) && !strings.Contains(out, "bitmap differences") && !strings.Contains(out, "count wrong"):
			return tagResize
		}
		return "-"
	}
	ok, out := x.FsckDev(d, cfg.Start, cfg.Size, scratch, "img")
	if !ok {
		c.Stat("create.dirty")
		c.Fail(id, classify(out), "Create accepted the parameters but e2fsck -f -n rejects the image: "+x.FsckSummary(out), desc)
		return
	}
	if acc, m := v.Acct().Consistent(); !acc {
		c.Fail(id, "-", "counters and bitmaps disagree after Create: "+m, desc)
		return
	}
	// a few operations on every accepted configuration
	step := func(what string, f func() error) bool {
		var err error
		func() {
			defer func() {
				if e := recover(); e != nil {
					err = fmt.Errorf("panic: %v", e)
				}
			}()
			err = f()
		}()
		if err != nil && strings.HasPrefix(err.Error(), "panic") {
			c.Fail(id, "-", what+": "+err.Error(), desc)
			return false
		}
		ok, out := x.FsckDev(d, cfg.Start, cfg.Size, scratch, "img")
		if !ok {
			c.Fail(id, "-", fmt.Sprintf("after %s (err=%v): %s", what, err, x.FsckSummary(out)), desc)
			return false
		}
		return true
	}
	if !step("Mkdir(a/b)", func() error { return fs.Mkdir("a/b") }) {
		return
	}
	if !step("create a/f (5000 bytes)", func() error {
		f, err := fs.OpenFile("a/f", os.O_CREATE|os.O_RDWR)
		if err != nil {
			return err
		}
		_, err = f.Write(make([]byte, 5000))
		return err
	}) {
		return
	}
	if !step("Symlink(a/f, s)", func() error { return fs.Symlink("a/f", "s") }) {
		return
	}
	c.OK(id)
	c.Distinct(fmt.Sprintf("%d|%d|%d|%d|%d|%d|%v", v.BlockSize, v.BlocksCount, v.BPG, v.IPG, v.ReservedGDT, len(v.Groups), desc))
	if strings.HasSuffix(id, "0") {
		c.Sample(desc + fmt.Sprintf(" -> bs=%d groups=%d ipg=%d", v.BlockSize, len(v.Groups), v.IPG))
	}
}
