// Package ext4mkfs is the Create clause of property C05: every parameter set ext4.Create accepts must give an
// image that e2fsck -f -n accepts (and still does after a few operations), a refusal is fine, a panic is not.
// The layout numbers of every accepted image (read back from the superblock and group descriptors by an
// independent parser) are compared with the Lean mkfs arithmetic.
package ext4mkfs

import (
	"encoding/binary"
	"fmt"
	"os"
	"path/filepath"
	"runtime"
	"strings"
	"sync"

	x "verif/harness/engines/ext4common"
	"verif/harness/internal/hx"
	"verif/harness/internal/memdev"
)

const (
	tagNo64    = "ext4-create-no64bit-panic"
	tagResize  = "ext4-create-resize-inode-size"
	tagSparse2 = "ext4-create-sparse-super2"
	tagProjQ   = "ext4-create-project-quota"
	tagFewIno  = "ext4-create-few-inodes-underflow"
	tagFlexFit = "ext4-create-flex-meta-overflow"
	tagBmCsum  = "ext4-create-bitmap-csum-small-groups"
	tagIpgMax  = "ext4-create-inodes-per-group-over-bitmap"
	tagGroups  = "ext4-create-group-count-ignores-first-data-block"
	tagJrnlGrp = "ext4-create-noflex-journal-over-group"
	MiB        = int64(1 << 20)
)

func boundary() []x.Config {
	f, t := x.B(false), x.B(true)
	return []x.Config{
		{Size: 16 * MiB}, {Size: 16 * MiB, Start: MiB}, {Size: 16 * MiB, SPB: 2},
		{Size: 16 * MiB, SPB: 4}, {Size: 16 * MiB, SPB: 8}, {Size: 16 * MiB, SPB: 8, Resize: f},
		{Size: 16 * MiB, SPB: 4, Resize: f, Journal: f}, {Size: 16 * MiB, SPB: 1}, {Size: 16 * MiB, SPB: 200},
		{Size: 16 * MiB, Csum: t}, {Size: 16 * MiB, Csum: t, Journal: f}, {Size: 16 * MiB, Journal: f},
		{Size: 16 * MiB, GdtCsum: t}, {Size: 16 * MiB, Bit64: f}, {Size: 16 * MiB, Flex: f}, {Size: 40 * MiB, Flex: f},
		{Size: 40 * MiB, Sparse: 2}, {Size: 16 * MiB, BPG: 1024}, {Size: 16 * MiB, BPG: 4096}, {Size: 16 * MiB, BPG: 100},
		{Size: 16 * MiB, BPG: 8196}, {Size: 16 * MiB, BPG: 16384}, {Size: 16 * MiB, BPG: 2048, Resize: f},
		{Size: 16 * MiB, InodeRatio: 4096}, {Size: 16 * MiB, InodeRatio: 1024}, {Size: 16 * MiB, InodeRatio: 1024, Resize: f, Journal: f},
		{Size: 16 * MiB, InodeRatio: 65536}, {Size: 16 * MiB, InodeCount: 100}, {Size: 16 * MiB, InodeCount: 5000},
		{Size: 16 * MiB, InodeCount: 16}, {Size: 2 * MiB}, {Size: 4 * MiB}, {Size: 8 * MiB}, {Size: 8*MiB + 1000},
		{Size: 9 * MiB, Journal: f}, {Size: 1 * MiB, Journal: f}, {Size: 100 * MiB}, {Size: 100 * MiB, Csum: t},
		{Size: 64 * MiB, LogFlex: 2}, {Size: 64 * MiB, LogFlex: 1}, {Size: 40 * MiB, Resize: f}, {Size: 16 * MiB, ResPct: 1},
		{Size: 16 * MiB, DirIndex: t}, {Size: 16 * MiB, HugeFile: f}, {Size: 16 * MiB, ProjQuota: t}, {Size: 16 * MiB, LargeInodes: t},
		{Size: 17*MiB + 513}, {Size: 16 * MiB, BPG: 2048, Csum: t, Resize: f, Journal: f}, {Size: 64*MiB + 3*1024, Resize: f}, {Size: 33 * MiB, Journal: f}, {Size: 600 * MiB}, {Size: 16 * MiB, Resize: f}, {Size: 24 * MiB, Resize: f, Flex: f},
		// the witness of finding ext4-create-noflex-journal-over-group (fixed by c2ea435: a return is an unlisted failure)
		{Size: 100 * MiB, BPG: 4096, Flex: f, Resize: f},
	}
}

// ceilRegime: parameter sets that put every ceil-division of Create's geometry on an exact multiple of its divisor
// (and one off on both sides). The group descriptor table of a backup group has ceil(groups*descSize/blockSize)
// blocks: 16 / 32 groups with 1 KiB blocks and 64-byte descriptors, 64 / 128 groups with 4 KiB blocks, x flex_bg
// on/off (flex_bg on leaves the blocks behind a backup's GDT copy free, so one block too many shows there).
// resize_inode is off except on the default geometry (8 groups of 8192 blocks per flex group) and metadata_csum
// stays off with small groups: the recorded findings ext4-create-resize-inode-size and -bitmap-csum-small-groups.
func ceilRegime() []x.Config {
	f := x.B(false)
	var out []x.Config
	for _, flex := range []*bool{nil, f} {
		// 1 KiB blocks, 2 MiB groups: 15, 16, 17, 32 groups
		for _, mib := range []int64{30, 32, 34, 64} {
			out = append(out, x.Config{Size: mib * MiB, BPG: 2048, Resize: f, Journal: f, Flex: flex})
		}
		// 1 KiB blocks, 1 MiB groups: 16, 31, 32, 33 groups
		for _, mib := range []int64{16, 31, 32, 33} {
			out = append(out, x.Config{Size: mib * MiB, BPG: 1024, Resize: f, Journal: f, Flex: flex})
		}
		// 4 KiB blocks, 1 MiB groups (256 blocks): 63, 64, 65, 128 groups
		for _, mib := range []int64{63, 64, 65, 128} {
			out = append(out, x.Config{Size: mib * MiB, SPB: 8, BPG: 256, Resize: f, Journal: f, Flex: flex})
		}
		// with a journal (4 MiB: two or four whole groups) in front of the first backup groups
		out = append(out, x.Config{Size: 32 * MiB, BPG: 2048, Resize: f, Flex: flex},
			x.Config{Size: 64 * MiB, SPB: 8, BPG: 256, Resize: f, Flex: flex})
		// inode table blocks per group = ceil(inodesPerGroup*256/blockSize): only blocks of 4 KiB and more hold
		// more than 8 inodes, so 24 / 40 inodes per group leave a partly used last block, 32 fill it exactly
		for _, ic := range []uint32{4 * 24, 4 * 32, 4 * 40} {
			out = append(out, x.Config{Size: 16 * MiB, SPB: 8, BPG: 1024, InodeCount: ic, Resize: f, Journal: f, Flex: flex})
		}
	}
	out = append(out,
		// the default geometry: 16 and 32 groups of 8192 blocks with reserved GDT blocks, journal, flex_bg
		x.Config{Size: 128 * MiB}, x.Config{Size: 129 * MiB}, x.Config{Size: 256 * MiB},
		x.Config{Size: 128 * MiB, Flex: f, Resize: f},
		// 2 KiB blocks: 32 descriptors per block, 32 and 33 groups of 256 blocks
		x.Config{Size: 16 * MiB, SPB: 4, BPG: 256, Resize: f, Journal: f}, x.Config{Size: 16*MiB + 512*1024, SPB: 4, BPG: 256, Resize: f, Journal: f},
		// inodes per group = ceil(inodeCount/groups) rounded up to a multiple of 8: 2 groups, exact and not
		x.Config{Size: 16 * MiB, InodeCount: 101}, x.Config{Size: 16 * MiB, InodeCount: 128}, x.Config{Size: 16 * MiB, InodeCount: 129},
		// group count = ceil(blocks/blocksPerGroup) with no first-data-block offset: 4 full groups, and one block less
		x.Config{Size: 16 * MiB, SPB: 8, BPG: 1024, Resize: f, Journal: f}, x.Config{Size: 16*MiB - 4096, SPB: 8, BPG: 1024, Resize: f, Journal: f},
		// journal blocks = blocks/32 above 128 MiB: exact (129 MiB above) and not
		x.Config{Size: 200*MiB - 5*1024},
	)
	return out
}

func random(r *hx.Rng) x.Config {
	ob := func(pOff, pOn int) *bool {
		switch y := r.Intn(100); {
		case y < pOff:
			return x.B(false)
		case y < pOff+pOn:
			return x.B(true)
		}
		return nil
	}
	c := x.Config{Size: hx.Pick(r, []int64{9, 12, 16, 16, 17, 20, 24, 33, 40, 64, 100}) * MiB}
	if r.Chance(20) {
		c.Size += int64(r.Intn(4096))
	}
	if r.Chance(25) {
		c.Start = hx.Pick(r, []int64{512, MiB, 3*MiB + 1536})
	}
	c.SPB = hx.Pick(r, []uint8{0, 0, 0, 2, 4, 8})
	if r.Chance(40) {
		c.BPG = hx.Pick(r, []uint32{256, 1024, 2048, 4096, 8192, 8200, 16384, 32768, 100, 65536})
	}
	if r.Chance(40) {
		c.InodeRatio = hx.Pick(r, []int64{1024, 2048, 4096, 16384, 65536, 1 << 20})
	}
	if r.Chance(25) {
		c.InodeCount = hx.Pick(r, []uint32{8, 16, 100, 1000, 5000, 50000})
	}
	if r.Chance(30) {
		c.LogFlex = hx.Pick(r, []int{1, 2, 3, 4, 5})
	}
	if r.Chance(5) {
		c.Sparse = 2
	}
	if r.Chance(15) {
		c.ResPct = uint8(1 + r.Intn(20))
	}
	c.Journal, c.Csum, c.Resize = ob(35, 5), ob(5, 35), ob(45, 5)
	c.Bit64, c.Flex, c.GdtCsum = ob(7, 5), ob(12, 5), ob(3, 12)
	c.ProjQuota, c.DirIndex, c.HugeFile, c.LargeInodes = ob(3, 5), ob(3, 10), ob(8, 3), ob(3, 8)
	return c
}

func Run(c *hx.Ctx) {
	cfgs := append(boundary(), ceilRegime()...)
	n := c.N(26, 1500)
	rr := c.Rng.Fork()
	for i := 0; i < n; i++ {
		cfgs = append(cfgs, random(rr))
	}
	type job struct {
		i   int
		cfg x.Config
	}
	ch := make(chan job)
	var wg sync.WaitGroup
	workers := runtime.NumCPU()
	if workers > 8 {
		workers = 8
	}
	for w := 0; w < workers; w++ {
		wg.Add(1)
		go func(w int) {
			defer wg.Done()
			scratch := filepath.Join(c.Scratch, fmt.Sprintf("m%d", w))
			os.MkdirAll(scratch, 0o755)
			for j := range ch {
				one(c, fmt.Sprintf("mk%d", j.i), j.cfg, scratch)
			}
		}(w)
	}
	for i, cfg := range cfgs {
		id := fmt.Sprintf("mk%d", i)
		if c.Want(id) {
			ch <- job{i, cfg}
		}
	}
	close(ch)
	wg.Wait()
}

func hasSuper(g int) bool {
	if g == 0 || g == 1 {
		return true
	}
	for _, n := range []int{3, 5, 7} {
		for x := n; x <= g; x *= n {
			if x == g {
				return true
			}
		}
	}
	return false
}

// fitsGo: does the metadata of every (flex) group fit behind its owner's superblock copy inside the owner's group?
// (the decidable predicate `Fits` of the Lean mkfs model, recomputed from the image's own numbers)
func fitsGo(v *x.View, flex bool, logFlex int) bool {
	ng := len(v.Groups)
	itb := (uint64(v.IPG)*uint64(v.InodeSize) + uint64(v.BlockSize) - 1) / uint64(v.BlockSize)
	ds := uint64(32)
	if v.Incompat&0x80 != 0 {
		ds = 64
	}
	gdtb := (uint64(ng)*ds + uint64(v.BlockSize) - 1) / uint64(v.BlockSize)
	meta := func(g int) uint64 {
		if hasSuper(g) {
			return 1 + gdtb + uint64(v.ReservedGDT)
		}
		return 0
	}
	fs := 1
	if flex {
		if logFlex == 0 {
			logFlex = 3
		}
		fs = 1 << logFlex
	}
	for g := 0; g < ng; g++ {
		if flex {
			if g%fs != 0 {
				continue
			}
			n := fs
			if ng-g < n {
				n = ng - g
			}
			if meta(g)+uint64(n)*(2+itb) > uint64(v.BlocksInGroup(g)) {
				return false
			}
		} else if meta(g)+2+itb > uint64(v.BlocksInGroup(g)) {
			return false
		}
	}
	return true
}

// ownedBlocks: the blocks Create hands out through allocateExtents AFTER the group bitmaps were built - the journal
// (inode 8) and the root directory (inode 2) with the node blocks of their extent trees, and the resize inode's
// double-indirect block (inode 7, i_block[13]; all its other blocks are reserved GDT blocks) - decoded from the image.
func ownedBlocks(v *x.View, d *memdev.Dev, start int64) (map[uint64]bool, error) {
	le := binary.LittleEndian
	bs := int64(v.BlockSize)
	own := map[uint64]bool{}
	var walk func(node []byte, level int) error
	walk = func(node []byte, level int) error {
		if le.Uint16(node[0:]) != 0xF30A || level > 5 {
			return fmt.Errorf("bad extent node")
		}
		n, depth := int(le.Uint16(node[2:])), le.Uint16(node[6:])
		if 12+12*n > len(node) {
			return fmt.Errorf("extent node with %d entries", n)
		}
		for i := 0; i < n; i++ {
			e := node[12+12*i:]
			if depth == 0 {
				cnt := uint64(le.Uint16(e[4:]))
				if cnt > 32768 {
					cnt -= 32768
				}
				first := uint64(le.Uint16(e[6:]))<<32 | uint64(le.Uint32(e[8:]))
				for k := uint64(0); k < cnt; k++ {
					own[first+k] = true
				}
				continue
			}
			child := uint64(le.Uint32(e[4:])) | uint64(le.Uint16(e[8:]))<<32
			if child >= v.BlocksCount {
				return fmt.Errorf("extent index points at block %d", child)
			}
			own[child] = true
			if err := walk(d.Bytes(start+int64(child)*bs, int(bs)), level+1); err != nil {
				return err
			}
		}
		return nil
	}
	for _, ino := range []uint32{2, 7, 8} {
		g, idx := int((ino-1)/v.IPG), int64((ino-1)%v.IPG)
		if g >= len(v.Groups) {
			continue
		}
		raw := d.Bytes(start+int64(v.Groups[g].InodeTable)*bs+idx*int64(v.InodeSize), 128)
		if le.Uint16(raw[0:]) == 0 { // never written
			continue
		}
		switch {
		case ino == 7:
			if b := uint64(le.Uint32(raw[0x28+13*4:])); b != 0 {
				own[b] = true
			}
		case le.Uint32(raw[0x20:])&0x80000 != 0:
			if err := walk(raw[0x28:0x28+60], 0); err != nil {
				return nil, fmt.Errorf("inode %d: %w", ino, err)
			}
		default:
			return nil, fmt.Errorf("inode %d has no extent tree", ino)
		}
	}
	return own, nil
}

// initialBitmaps: per group the runs of marked bits among the group's real blocks once the blocks of ownedBlocks are
// taken out again, and the free count of the descriptor with them added back: what buildBlockBitmapForGroup and
// buildGroupDescriptorsFromSuperblock produced, as far as the image still shows it.
func initialBitmaps(v *x.View, own map[uint64]bool) (used, free string) {
	perGroup := make([]int, len(v.Groups))
	for b := range own {
		if b >= uint64(v.FirstDataBlock) {
			if g := int((b - uint64(v.FirstDataBlock)) / uint64(v.BPG)); g < len(perGroup) {
				perGroup[g]++
			}
		}
	}
	var us, fs []string
	for g := range v.Groups {
		bm := v.BlockBitmapBytes(g)
		n, first := v.BlocksInGroup(g), v.GroupStart(g)
		var runs []string
		from := -1
		for j := 0; j <= n; j++ {
			set := j < n && bm[j/8]&(1<<(j%8)) != 0 && !own[first+uint64(j)]
			if set && from < 0 {
				from = j
			}
			if !set && from >= 0 {
				runs = append(runs, fmt.Sprintf("%d+%d", from, j-from))
				from = -1
			}
		}
		us = append(us, strings.Join(runs, ","))
		fs = append(fs, fmt.Sprint(int(v.Groups[g].FreeBlocks)+perGroup[g]))
	}
	return strings.Join(us, ";"), strings.Join(fs, ",")
}

// regimeStats: which ceil-divisions of Create's geometry this accepted image puts on an exact multiple of the divisor
func regimeStats(c *hx.Ctx, v *x.View, cfg x.Config, flexOn, journalOn bool) {
	ng := len(v.Groups)
	ds := 32
	if v.Incompat&0x80 != 0 {
		ds = 64
	}
	dpb := int(v.BlockSize) / ds
	fl := map[bool]string{true: "flex", false: "noflex"}[flexOn]
	switch r := ng % dpb; {
	case r == 0:
		c.Stat("groups_multiple_of_desc_per_block")
		c.Stat(fmt.Sprintf("groups_multiple_of_desc_per_block.bs%d.%s", v.BlockSize, fl))
	case r == dpb-1 || (r == 1 && ng > dpb):
		c.Stat("groups_multiple_of_desc_per_block_pm1")
		c.Stat(fmt.Sprintf("groups_multiple_of_desc_per_block_pm1.bs%d.%s", v.BlockSize, fl))
	}
	if uint64(v.IPG)*uint64(v.InodeSize)%uint64(v.BlockSize) == 0 {
		c.Stat("itable_bytes_multiple_of_block")
	} else {
		c.Stat("itable_bytes_not_multiple_of_block")
	}
	if (v.BlocksCount-uint64(v.FirstDataBlock))%uint64(v.BPG) == 0 {
		c.Stat("blocks_multiple_of_group")
	}
	if v.BlocksCount%uint64(v.BPG) == 0 {
		c.Stat("blocks_multiple_of_group_before_first_data_block")
	}
	if v.BPG == 8*v.BlockSize {
		c.Stat("group_fills_bitmap_block")
	} else {
		c.Stat("group_smaller_than_bitmap_block")
	}
	if cfg.InodeCount != 0 {
		if int(cfg.InodeCount)%ng == 0 {
			c.Stat("inode_count_multiple_of_groups")
		} else {
			c.Stat("inode_count_not_multiple_of_groups")
		}
	}
	if journalOn && v.BlocksCount/32*uint64(v.BlockSize) > 4<<20 {
		if v.BlocksCount%32 == 0 {
			c.Stat("journal_blocks_div32_exact")
		} else {
			c.Stat("journal_blocks_div32_inexact")
		}
	}
}

func b2i(b bool) int {
	if b {
		return 1
	}
	return 0
}

func paramRefusal(err error) bool {
	s := err.Error()
	return strings.Contains(s, "invalid sectors per block") || strings.Contains(s, "invalid number of blocks per group") || strings.Contains(s, "inodes, greater than max")
}

func one(c *hx.Ctx, id string, cfg x.Config, scratch string) {
	cfg.Name = id
	desc := cfg.String()
	d, fs, err, panicked := x.Create(cfg)
	resizeOn, flexOn, bit64 := x.On(cfg.Resize, true), x.On(cfg.Flex, true), x.On(cfg.Bit64, true)
	modelCase := func() {
		c.Case(id, "ext4mkfs.layout", fmt.Sprintf("size=%d", cfg.Size), fmt.Sprintf("spb=%d", cfg.SPB), fmt.Sprintf("bpg=%d", cfg.BPG),
			fmt.Sprintf("iratio=%d", cfg.InodeRatio), fmt.Sprintf("icount=%d", cfg.InodeCount), fmt.Sprintf("logflex=%d", cfg.LogFlex),
			fmt.Sprintf("resize=%d", b2i(resizeOn)), fmt.Sprintf("flex=%d", b2i(flexOn)), fmt.Sprintf("bit64=%d", b2i(bit64)))
	}
	switch {
	case panicked:
		c.Stat("create.panic")
		if !bit64 && strings.Contains(err.Error(), "slice bounds out of range") {
			c.Fail(id, tagNo64, "Create panics: "+err.Error(), desc)
		} else {
			c.Fail(id, "-", "Create panics: "+err.Error(), desc)
		}
		return
	case err != nil:
		c.Stat("create.refused")
		if paramRefusal(err) {
			modelCase()
			c.Impl(id, "refused")
		}
		c.OK(id)
		return
	}
	c.Stat("create.accepted")
	v, verr := x.ParseView(d, cfg.Start)
	if verr != nil {
		c.Fail(id, "-", "Create succeeded but the superblock is unreadable: "+verr.Error(), desc)
		return
	}
	// model correspondence: layout numbers read back from the image
	var bb []string
	for _, g := range v.Groups {
		bb = append(bb, fmt.Sprint(g.BlockBitmap))
		if g.InodeBitmap != g.BlockBitmap+1 || g.InodeTable != g.BlockBitmap+2 {
			bb[len(bb)-1] += "!"
		}
	}
	// no correspondence where a recorded defect corrupts the descriptors themselves: fewer than 11 inodes per
	// group (few-inodes underflow), and sparse_super2, whose backup "block numbers" 1 and groups-1 make
	// writeSuperblock put a superblock copy over block 1 - the primary group descriptor table when the block
	// size is 2 or 4 KiB
	// ... and a block count of k x blocksPerGroup + firstDataBlock, for which Create counts one (empty) group
	// more than the superblock's own numbers describe (finding ext4-create-group-count-ignores-first-data-block)
	ceilDiv := func(a, b uint64) uint64 { return (a + b - 1) / b }
	groupsOff := ceilDiv(v.BlocksCount, uint64(v.BPG)) != ceilDiv(v.BlocksCount-uint64(v.FirstDataBlock), uint64(v.BPG))
	journalOn := x.On(cfg.Journal, true)
	regimeStats(c, v, cfg, flexOn, journalOn)
	if v.IPG >= 11 && cfg.Sparse != 2 && !groupsOff {
		// the block bitmap of every group as Create built it (Lean: mkBitmaps) and the free counts of the descriptors
		// (initialFree), compared where the metadata fits its groups (Fits)
		fits := fitsGo(v, flexOn, cfg.LogFlex)
		used, free := "-", "-"
		if fits {
			own, oerr := ownedBlocks(v, d, cfg.Start)
			if oerr != nil {
				c.Fail(id, "-", "Create succeeded but "+oerr.Error(), desc)
				return
			}
			used, free = initialBitmaps(v, own)
			c.Stat("bitmaps_compared")
		}
		modelCase()
		c.Impl(id, fmt.Sprintf("bs=%d", v.BlockSize), fmt.Sprintf("nb=%d", v.BlocksCount), fmt.Sprintf("bpg=%d", v.BPG),
			fmt.Sprintf("groups=%d", len(v.Groups)), fmt.Sprintf("ipg=%d", v.IPG), fmt.Sprintf("icount=%d", v.InodesCount),
			fmt.Sprintf("fdb=%d", v.FirstDataBlock), fmt.Sprintf("rsv=%d", v.ReservedGDT), "bb="+strings.Join(bb, ","),
			fmt.Sprintf("fits=%d", b2i(fits)), "used="+used, "free="+free)
	}
	classify := func(out string) string {
		switch {
		case v.IPG < 11 && (strings.Contains(out, "Free inodes count wrong for group #0") || strings.Contains(out, "(inodes_per_group =") || strings.Contains(out, "(first_ino =")):
			return tagFewIno
		case v.IPG > 8*v.BlockSize && strings.Contains(out, "superblock is corrupt"):
			return tagIpgMax
		case groupsOff && (strings.Contains(out, "Inode count in superblock is") || strings.Contains(out, "superblock is corrupt")):
			return tagGroups
		case !flexOn && journalOn && uint64(v.BPG)*uint64(v.BlockSize) <= 4<<20 && strings.Contains(out, "Multiply-claimed block(s) in inode 2"):
			return tagJrnlGrp
		case !fitsGo(v, flexOn, cfg.LogFlex) && (strings.Contains(out, "not in group") || strings.Contains(out, "bad block for") || strings.Contains(out, "Group descriptors look bad")):
			return tagFlexFit
		case x.On(cfg.Csum, false) && v.BPG != 8*v.BlockSize && strings.Contains(out, "block bitmap does not match checksum"):
			return tagBmCsum
		case cfg.Sparse == 2:
			return tagSparse2
		case x.On(cfg.ProjQuota, false) && strings.Contains(out, "Inode bitmap differences"):
			return tagProjQ
		case v.ReservedGDT > 0 && (!flexOn || (cfg.LogFlex != 0 && cfg.LogFlex != 3) || v.BPG != 8192 || len(v.Groups) < 8) &&
			(strings.Contains(out, "Inode 7, i_size is") || strings.Contains(out, "Resize inode not valid")) && !strings.Contains(out, "bitmap differences") && !strings.Contains(out, "count wrong"):
			return tagResize
		}
		return "-"
	}
	ok, out := x.FsckDev(d, cfg.Start, cfg.Size, scratch, "img")
	if !ok {
		c.Stat("create.dirty")
		c.Fail(id, classify(out), "Create accepted the parameters but e2fsck -f -n rejects the image: "+x.FsckSummary(out), desc)
		return
	}
	if acc, m := v.Acct().Consistent(); !acc {
		c.Fail(id, "-", "counters and bitmaps disagree after Create: "+m, desc)
		return
	}
	// a few operations on every accepted configuration
	step := func(what string, f func() error) bool {
		var err error
		func() {
			defer func() {
				if e := recover(); e != nil {
					err = fmt.Errorf("panic: %v", e)
				}
			}()
			err = f()
		}()
		if err != nil && strings.HasPrefix(err.Error(), "panic") {
			c.Fail(id, "-", what+": "+err.Error(), desc)
			return false
		}
		ok, out := x.FsckDev(d, cfg.Start, cfg.Size, scratch, "img")
		if !ok {
			c.Fail(id, "-", fmt.Sprintf("after %s (err=%v): %s", what, err, x.FsckSummary(out)), desc)
			return false
		}
		return true
	}
	if !step("Mkdir(a/b)", func() error { return fs.Mkdir("a/b") }) {
		return
	}
	if !step("create a/f (5000 bytes)", func() error {
		f, err := fs.OpenFile("a/f", os.O_CREATE|os.O_RDWR)
		if err != nil {
			return err
		}
		_, err = f.Write(make([]byte, 5000))
		return err
	}) {
		return
	}
	if !step("Symlink(a/f, s)", func() error { return fs.Symlink("a/f", "s") }) {
		return
	}
	c.OK(id)
	c.Distinct(fmt.Sprintf("%d|%d|%d|%d|%d|%d|%v", v.BlockSize, v.BlocksCount, v.BPG, v.IPG, v.ReservedGDT, len(v.Groups), desc))
	if strings.HasSuffix(id, "0") {
		c.Sample(desc + fmt.Sprintf(" -> bs=%d groups=%d ipg=%d", v.BlockSize, len(v.Groups), v.IPG))
	}
}
