// Package gptcrash is the C09 engine: repartitioning a GPT disk is atomic across power loss.
// It records the WriteAt/Sync sequence of a real Table.Write, rebuilds every crash state
// (every prefix of the synced writes x a family of sector subsets of the writes in flight)
// and calls the real gpt.Read / partition.Read on each.
package gptcrash

import (
	"encoding/hex"
	"fmt"
	"hash/crc32"
	"strings"

	"github.com/diskfs/go-diskfs/disk"
	"github.com/diskfs/go-diskfs/partition"
	"github.com/diskfs/go-diskfs/partition/gpt"
	"github.com/diskfs/go-diskfs/partition/mbr"

	gc "verif/harness/engines/gptcommon"
	"verif/harness/internal/hx"
	"verif/harness/internal/memdev"
)

// Family lists the sector subsets used to tear n sectors: all 2^n when n <= 12, otherwise
// none, all, each single sector, first-k, last-k (0<k<n), even, odd.  (Same order as the Lean driver.)
func Family(n int) []func(i int) bool {
	var fs []func(int) bool
	if n <= 12 {
		for m := 0; m < 1<<uint(n); m++ {
			m := m
			fs = append(fs, func(i int) bool { return (m>>uint(i))&1 == 1 })
		}
		return fs
	}
	fs = append(fs, func(int) bool { return false }, func(int) bool { return true })
	for j := 0; j < n; j++ {
		j := j
		fs = append(fs, func(i int) bool { return i == j })
	}
	for k := 0; k < n-1; k++ {
		k := k
		fs = append(fs, func(i int) bool { return i < k+1 })
	}
	for k := 0; k < n-1; k++ {
		k := k
		fs = append(fs, func(i int) bool { return i >= n-(k+1) })
	}
	fs = append(fs, func(i int) bool { return i%2 == 0 }, func(i int) bool { return i%2 == 1 })
	return fs
}

type piece struct {
	off  int64
	data []byte
}

// group is a maximal run of writes not separated by a Sync: all of them are in flight together.
type group struct {
	writes []memdev.Event
	pieces []piece // sector-sized pieces, in write order
}

func split(log []memdev.Event, lss int) (groups []group, unsyncedTail bool) {
	var cur group
	for _, e := range log {
		if e.Sync {
			if len(cur.writes) > 0 {
				groups = append(groups, cur)
				cur = group{}
			}
			continue
		}
		cur.writes = append(cur.writes, e)
		// pieces follow the device's sector grid
		off, data := e.Off, e.Data
		for len(data) > 0 {
			n := lss - int(off%int64(lss))
			if n > len(data) {
				n = len(data)
			}
			cur.pieces = append(cur.pieces, piece{off, data[:n]})
			off += int64(n)
			data = data[n:]
		}
	}
	if len(cur.writes) > 0 {
		groups = append(groups, cur)
		unsyncedTail = true
	}
	return
}

func readClass(d *memdev.Dev, lss int, oldParts, newParts string, haveOld bool) (byte, string) {
	var t *gpt.Table
	var err error
	var pan any
	func() {
		defer func() {
			if e := recover(); e != nil {
				pan = e
			}
		}()
		t, err = gpt.Read(d, lss, lss)
	}()
	if pan != nil {
		return 'P', fmt.Sprint(pan)
	}
	if err != nil {
		return 'E', err.Error()
	}
	return classOf(t, oldParts, newParts, haveOld), ""
}

func classOf(t *gpt.Table, oldParts, newParts string, haveOld bool) byte {
	s := gc.LibPartsStr(t.Partitions)
	var c byte = 'X'
	if s == newParts {
		c = 'N'
	} else if haveOld && s == oldParts {
		c = 'O'
	}
	if t.RecoveredFromBackup {
		c += 'a' - 'A'
	}
	return c
}

func partClass(d *memdev.Dev, lss int, oldParts, newParts string, haveOld bool, oldMbr string, haveMbr bool) (byte, string) {
	var t partition.Table
	var err error
	var pan any
	func() {
		defer func() {
			if e := recover(); e != nil {
				pan = e
			}
		}()
		t, err = partition.Read(d, lss, lss)
	}()
	if pan != nil {
		return 'P', fmt.Sprint(pan)
	}
	if err != nil {
		return 'E', err.Error()
	}
	switch x := t.(type) {
	case *gpt.Table:
		return classOf(x, oldParts, newParts, haveOld), ""
	case *mbr.Table:
		s := gc.MbrPartsStr(x.Partitions)
		if haveMbr && s == oldMbr {
			return 'M', ""
		}
		return 'Y', "MBR table: " + s
	}
	return 'X', "unknown table type"
}

type pairSpec struct {
	id       string
	lss      int
	size     int64
	oldKind  string // gpt | none | mbr
	old, new gc.TableSpec
	oldMbr   []*mbr.Partition
	base     []byte // random prior content of the whole (small) device, or nil
	desc     string
	// regime extensions (regimes.go); the zero value is the plain pair of before
	baseExt  []piece                   // prior content given as pieces (big disks: inside the model's windows only)
	win      [2]int64                  // model image windows (head bytes, tail bytes); 0,0 = flat image of the whole device
	rawBuild func(d *memdev.Dev) error // oldKind "raw": builds the old state on the device (part of dev=)
	pre      *preSpec                  // the old state is a crash state of an earlier interrupted Write of pre.table
	rmw      bool                      // the new table is what gpt.Read returns on the old state, modified (read-modify-write)
	rmwEdit  func(t *gpt.Table)        // the modification
	nguid    bool                      // rmwEdit changed the disk GUID
	repair   bool                      // Table.Repair(size) before the write
	viaDisk  bool                      // write through disk.Disk.Partition instead of Table.Write
	noRec    bool                      // foreign geometry: leave out the record-level classification of the 16 KiB-at-LBA-2 reader
	geo      bool                      // ask the model for the ANY-GEOMETRY record-level classification too (toDiskG + flatReaderG; fields rg=, qg=)
	notWF    bool                      // the new table's geometry does not satisfy GeomWF on this device (model field wf=)
	degraded bool                      // the old state may read from the backup only while new != pre.table: trigger of gpt-rewrite-over-degraded-primary (cleared when the old state reads from its primary)
	finding  string                    // the pair lies on the trigger of this listed finding: no case/impl lines, failures explained by it carry its tag
	okStages map[int]bool              // the synced writes during which that finding explains a state that reads as an error
	regimes  []string                  // stat keys
}

type preSpec struct {
	table gc.TableSpec
	k, fi int
}

func tableArgs(pre string, t *gc.TableSpec) []string {
	pm := "0"
	if t.PMBR {
		pm = "1"
	}
	return []string{pre + "pmbr=" + pm, pre + "guid=" + hex.EncodeToString(t.GUID[:]), pre + "parts=" + gc.SpecPartsStr(t.Parts)}
}

// Run is the engine entry point.
func Run(c *hx.Ctx) {
	cfg, _ := gc.ProbeCfg()
	c.Note("model cfg=%s", cfg)
	firstWriteWitness(c)
	grownDiskWitness(c)
	degradedPrimaryWitness(c)
	overlapWitness(c)
	r := c.Rng.Fork()
	n := c.N(36, 1500)
	for i := 0; i < n; i++ {
		id := fmt.Sprintf("k%d", i)
		p := pairSpec{id: id, lss: []int{512, 4096}[i%2]}
		minSec := int64(2*(16384/p.lss) + 3)
		p.size = (minSec + int64(r.Intn(200))) * int64(p.lss)
		if i%7 == 0 {
			p.size = minSec * int64(p.lss)
		}
		if r.Chance(20) {
			p.size += int64(r.Intn(p.lss)) // not a multiple of the sector size
		}
		switch {
		case i%6 == 4:
			p.oldKind = "none"
		case i%6 == 5:
			p.oldKind = "mbr"
			p.oldMbr = []*mbr.Partition{{Index: 1, Bootable: r.Bool(), Type: mbr.Linux, Start: uint32(40 + r.Intn(100)), Size: uint32(1 + r.Intn(50))},
				{Index: 2, Type: mbr.Fat32LBA, Start: uint32(200 + r.Intn(100)), Size: uint32(1 + r.Intn(50))}}
		default:
			p.oldKind = "gpt"
		}
		o := gc.GenOpts{LSS: p.lss, Size: p.size, NParts: -1}
		p.old, _, _, _ = gc.GenTable(r, o)
		p.new, _, _, _ = gc.GenTable(r, o)
		p.old.PMBR, p.new.PMBR = true, !r.Chance(15)
		// how new differs from old
		how := r.Intn(6)
		switch how {
		case 0: // same partitions, new disk GUID
			p.new.Parts = append([]gc.PartSpec(nil), p.old.Parts...)
		case 1: // names only
			p.new.Parts = append([]gc.PartSpec(nil), p.old.Parts...)
			for k := range p.new.Parts {
				p.new.Parts[k].Name = gc.GenName(r, false, false)
			}
			p.new.GUID = p.old.GUID
		case 2: // one partition more or fewer
			p.new.Parts = append([]gc.PartSpec(nil), p.old.Parts...)
			if len(p.new.Parts) > 0 && r.Bool() {
				p.new.Parts = p.new.Parts[:len(p.new.Parts)-1]
			}
			p.new.GUID = p.old.GUID
		case 3: // identical
			p.new = p.old
		}
		if p.oldKind != "gpt" {
			p.old = gc.TableSpec{}
		}
		if r.Chance(25) {
			p.base = r.Bytes(int(p.size))
		}
		p.desc = fmt.Sprintf("pair lss=%d size=%d old=%s(%d parts) new=%d parts how=%d randomBase=%v", p.lss, p.size, p.oldKind, len(p.old.Parts), len(p.new.Parts), how, p.base != nil)
		if !c.Want(id) {
			continue
		}
		p.regimes = plainRegimes(&p, how)
		runPair(c, cfg, p)
	}
	regimeFamilies(c, cfg, c.Rng.Fork())
}

func runPair(c *hx.Ctx, cfg gc.Cfg, p pairSpec) {
	defer func() {
		if e := recover(); e != nil {
			c.Fail(p.id, "-", fmt.Sprintf("panic in harness/library: %v", e), p.desc)
		}
	}()
	lss, size := p.lss, p.size
	d1 := memdev.New(size)
	if p.base != nil {
		d1.RawWrite(p.base, 0)
	}
	for _, pc := range p.baseExt {
		d1.RawWrite(pc.data, pc.off)
	}
	if p.rawBuild != nil {
		if err := p.rawBuild(d1); err != nil {
			c.Fail(p.id, "-", "cannot build the old state: "+err.Error(), p.desc)
			return
		}
	}
	baseStr := gc.DevStr(d1)
	haveOld, haveMbr := false, false
	oldParts, oldMbr := "", ""
	switch p.oldKind {
	case "gpt":
		if err := p.old.ToTable().Write(d1, size); err != nil {
			c.Fail(p.id, "-", "cannot write the old table: "+err.Error(), p.desc)
			return
		}
		t, err := gpt.Read(d1, lss, lss)
		if err != nil || t.RecoveredFromBackup {
			c.Fail(p.id, "-", fmt.Sprintf("old table does not read back from the primary: %v", err), p.desc)
			return
		}
		oldParts, haveOld = gc.LibPartsStr(t.Partitions), true
	case "mbr":
		mt := &mbr.Table{LogicalSectorSize: lss, PhysicalSectorSize: lss, Partitions: p.oldMbr}
		if err := mt.Write(d1, size); err != nil {
			c.Fail(p.id, "-", "cannot write the old MBR: "+err.Error(), p.desc)
			return
		}
		t, err := mbr.Read(d1, lss, lss)
		if err != nil {
			c.Fail(p.id, "-", "old MBR does not read back: "+err.Error(), p.desc)
			return
		}
		oldMbr, haveMbr = gc.MbrPartsStr(t.Partitions), true
	case "raw":
		t, err := gpt.Read(d1, lss, lss)
		if err != nil {
			c.Fail(p.id, "-", fmt.Sprintf("the hand-built old table does not read: %v", err), p.desc)
			return
		}
		oldParts, haveOld = gc.LibPartsStr(t.Partitions), true
	}
	staleParts, haveStale := oldParts, haveOld // the table on the disk BEFORE the interrupted write: its primary header may survive as a stale, still valid header
	if p.pre != nil {
		// an earlier Write of pre.table was cut at (k, subset fi): that crash state is the old disk
		dp := d1.Clone()
		dp.ResetLog()
		if err := p.pre.table.ToTable().Write(dp, size); err != nil {
			c.Fail(p.id, "-", "Write of the interrupted table failed: "+err.Error(), p.desc)
			return
		}
		pg, _ := split(dp.Log, lss)
		for gi := 0; gi < p.pre.k && gi < len(pg); gi++ {
			for _, e := range pg[gi].writes {
				d1.RawWrite(e.Data, e.Off)
			}
		}
		if p.pre.k < len(pg) {
			g := pg[p.pre.k]
			fam := Family(len(g.pieces))
			if p.pre.fi < len(fam) {
				for i, pc := range g.pieces {
					if fam[p.pre.fi](i) {
						d1.RawWrite(pc.data, pc.off)
					}
				}
			}
		}
		t, err := gpt.Read(d1, lss, lss)
		if err != nil {
			c.Fail(p.id, "-", fmt.Sprintf("the crash state taken as the old disk does not read: %v", err), p.desc)
			return
		}
		oldParts, haveOld = gc.LibPartsStr(t.Partitions), true
		if t.RecoveredFromBackup {
			c.Stat("regime.old=crash-state.read-from-backup")
		} else {
			c.Stat("regime.old=crash-state.read-from-primary")
		}
		if p.degraded && !t.RecoveredFromBackup {
			p.degraded = false
		}
		if p.degraded {
			p.finding, p.okStages = "gpt-rewrite-over-degraded-primary", map[int]bool{0: true, 1: true}
		}
	}
	// the old state itself, through both readers
	if cls, _ := readClass(d1, lss, oldParts, "\x00", haveOld); haveOld && cls != 'O' && !(p.pre != nil && cls == 'o') {
		c.Fail(p.id, "-", "old state does not read as old", p.desc)
		return
	}
	// record the real Write
	dn := d1.Clone()
	dn.ResetLog()
	newTable := p.new.ToTable()
	var extra []string
	if p.rmw {
		t, err := gpt.Read(dn, lss, lss)
		if err != nil {
			c.Fail(p.id, "-", "read-modify-write: the old state does not read: "+err.Error(), p.desc)
			return
		}
		if p.rmwEdit != nil {
			p.rmwEdit(t)
		}
		if p.repair {
			if err := t.Repair(uint64(size)); err != nil {
				c.Fail(p.id, "-", "Table.Repair failed: "+err.Error(), p.desc)
				return
			}
			extra = append(extra, "repair=1")
		}
		newTable = t
		extra = append(extra, "rmw=1", "nparts="+gc.LibPartsStr(t.Partitions))
		if p.nguid {
			g, _ := gc.ParseGUID(t.GUID)
			extra = append(extra, "nguid="+hex.EncodeToString(g[:]))
		}
	}
	var werr error
	if p.viaDisk {
		dk := &disk.Disk{Backend: dn, Size: size, LogicalBlocksize: int64(lss), PhysicalBlocksize: int64(lss)}
		werr = dk.Partition(newTable)
	} else {
		werr = newTable.Write(dn, size)
	}
	if werr != nil {
		c.Fail(p.id, "-", "Write of the new table failed: "+werr.Error(), p.desc)
		return
	}
	log := dn.Log
	tn, err := gpt.Read(dn, lss, lss)
	if err != nil {
		c.Fail(p.id+"/complete", "-", "a completed Write does not read back: "+err.Error(), p.desc)
		return
	}
	newParts := gc.LibPartsStr(tn.Partitions)
	if tn.RecoveredFromBackup {
		c.Fail(p.id+"/complete", "-", "a completed Write reads back from the backup copy", p.desc)
	} else {
		c.OK(p.id + "/complete")
	}
	groups, tail := split(log, lss)
	if tail {
		c.Fail(p.id+"/sync", "-", "the last write of Table.Write is not followed by a Sync: it may never become durable", p.desc)
	}
	// model input
	args := []string{"cfg=" + cfg.String(), fmt.Sprintf("size=%d", size), fmt.Sprintf("lss=%d", lss), "dev=" + baseStr, "old=" + p.oldKind}
	if p.oldKind == "gpt" {
		args = append(args, tableArgs("o", &p.old)...)
	}
	if p.oldKind == "mbr" {
		args = append(args, "ombr="+gc.MbrPartsStr(p.oldMbr))
	}
	if !p.rmw {
		args = append(args, tableArgs("n", &p.new)...)
	}
	args = append(args, extra...)
	if p.pre != nil {
		args = append(args, fmt.Sprintf("pre=%d:%d", p.pre.k, p.pre.fi))
		args = append(args, tableArgs("p", &p.pre.table)...)
	}
	if p.win != [2]int64{} {
		args = append(args, fmt.Sprintf("win=%d,%d", p.win[0], p.win[1]))
	}
	if p.noRec {
		args = append(args, "rec=0")
	}
	if p.geo {
		args = append(args, "geo=1")
	}
	if p.finding == "" {
		c.Case(p.id, "gptcrash.pair", args...)
	}

	var gAll, pAll []string
	states, bad, unexplained := 0, 0, 0
	firstBad := ""
	curStage := 0
	pmbrWindow := 0
	collChecked, collBad := 0, 0
	cur := d1.Clone() // all groups before the current one applied
	for gi := 0; gi <= len(groups); gi++ {
		var gs, ps []byte
		evalState := func(d *memdev.Dev, what string) {
			g, gmsg := readClass(d, lss, oldParts, newParts, haveOld)
			q, qmsg := partClass(d, lss, oldParts, newParts, haveOld, oldMbr, haveMbr)
			gs = append(gs, g)
			ps = append(ps, q)
			states++
			okG := g == 'N' || g == 'n' || (haveOld && (g == 'O' || g == 'o')) || (!haveOld && g == 'E')
			okP := q == 'N' || q == 'n' || (haveOld && (q == 'O' || q == 'o')) || (!haveOld && !haveMbr && q == 'E') || (haveMbr && q == 'M')
			// gpt-rewrite-over-degraded-primary, second face: with the primary array in flight the stale primary header (of the
			// table that was there before the interrupted write) validates again when the persisted sectors of the new array equal
			// that table's: the disk reads, from the primary, as that third table (theorem degraded_other_table_resurrects_stale_primary)
			resurrected := false
			if !okG && g == 'X' && p.degraded && curStage == 2 && haveStale && p.pre != nil {
				if t, err := gpt.Read(d, lss, lss); err == nil && !t.RecoveredFromBackup && gc.LibPartsStr(t.Partitions) == staleParts {
					resurrected = true
				}
			}
			if !okG {
				bad++
				if !(p.okStages[curStage] && g == 'E') && !resurrected {
					unexplained++
				}
				if firstBad == "" {
					firstBad = fmt.Sprintf("%s: gpt.Read gives class %c (%s)", what, g, gmsg)
				}
			}
			if !okP {
				if !haveOld && q == 'Y' && okG {
					pmbrWindow++
				} else {
					bad++
					if !(p.okStages[curStage] && !okG && g == 'E') && !resurrected {
						unexplained++
					}
					if firstBad == "" {
						firstBad = fmt.Sprintf("%s: partition.Read gives class %c (%s)", what, q, qmsg)
					}
				}
			}
		}
		curStage = gi
		if gi == len(groups) {
			evalState(cur, "after the complete write")
		} else {
			g := groups[gi]
			n := len(g.pieces)
			for fi, keep := range Family(n) {
				d := cur.Clone()
				for i, pc := range g.pieces {
					if keep(i) {
						d.RawWrite(pc.data, pc.off)
					}
				}
				evalState(d, fmt.Sprintf("crash in synced write #%d (%d bytes at %d), subset #%d of its %d sectors", gi, g.writes[0].Len, g.writes[0].Off, fi, n))
			}
			// hypothesis NoCrcCollision, checked on the real bytes: a torn 16 KiB array has the old or new CRC only if it is the old or new array
			if len(g.writes) == 1 && g.writes[0].Len > lss && haveOld {
				w := g.writes[0]
				oldArr := cur.Bytes(w.Off, w.Len)
				co, cn := crc32.ChecksumIEEE(oldArr), crc32.ChecksumIEEE(w.Data)
				for _, keep := range Family(n) {
					mix := append([]byte(nil), oldArr...)
					for i, pc := range g.pieces {
						if keep(i) {
							copy(mix[pc.off-w.Off:], pc.data)
						}
					}
					cm := crc32.ChecksumIEEE(mix)
					collChecked++
					if (cm == co && string(mix) != string(oldArr)) || (cm == cn && string(mix) != string(w.Data)) {
						collBad++
					}
				}
			}
			for _, e := range g.writes {
				cur.RawWrite(e.Data, e.Off)
			}
		}
		gAll = append(gAll, string(gs))
		pAll = append(pAll, string(ps))
	}
	// r= : the model driver classifies every state a second time through the RECORD-level reader of the C09
	// theorems (toDisk + flatReader, Proofs/GptRefine.lean); it must agree with the real gpt.Read as well;
	// q= : the same for partition.Read through the record-level partRead (mbrViewFlat); no from-backup flag there
	rAll, qAll := strings.Join(gAll, ","), strings.ToUpper(strings.Join(pAll, ","))
	if p.noRec {
		rAll, qAll = "-", "-"
	}
	// rg= / qg= : the same two classifications through the record-level readers of the ANY-GEOMETRY theorems (toDiskG +
	// flatReaderG for the geometry the new table carries; Proofs/GptGeomCrash.lean); wf= : the model's verdict on GeomWF
	rgAll, qgAll, wf := "-", "-", "1"
	if p.geo {
		rgAll, qgAll = strings.Join(gAll, ","), strings.ToUpper(strings.Join(pAll, ","))
	}
	if p.notWF {
		wf = "0"
	}
	if p.finding == "" {
		c.Impl(p.id, "res=ok", fmt.Sprintf("n=%d", len(groups)), "g="+strings.Join(gAll, ","), "p="+strings.Join(pAll, ","), "r="+rAll, "q="+qAll,
			"rg="+rgAll, "qg="+qgAll, "wf="+wf)
		if p.geo {
			c.Stat("record-level.any-geometry-reader")
		}
	}
	for _, k := range p.regimes {
		c.Stat(k)
	}
	exhaustive := false
	for _, g := range groups {
		if len(g.pieces) > 1 && len(g.pieces) <= 12 {
			exhaustive = true
		}
	}
	if exhaustive {
		c.Stat("inflight.array=exhaustive-subsets")
	} else {
		c.Stat("inflight.array=generating-family")
	}
	c.StatN("crash-states", states)
	c.StatN("hyp.nocrccollision.checked", collChecked)
	if collBad > 0 {
		c.StatN("hyp.nocrccollision.violated", collBad)
	}
	c.Stat("old=" + p.oldKind)
	c.Stat(fmt.Sprintf("lss=%d", lss))
	switch {
	case p.finding != "" && bad > 0 && unexplained == 0:
		c.Fail(p.id, p.finding, fmt.Sprintf("%d of %d crash states read as an error (or, through a stale primary header that validates again, as the table before the interrupted write) instead of old or new; first: %s", bad, states, firstBad), p.desc)
	case bad > 0 && collBad > 0:
		c.Note("%s: %d crash states fail but the pair violates the NoCrcCollision hypothesis (%d mixtures collide); not counted", p.id, bad, collBad)
		c.OK(p.id)
	case bad > 0:
		c.Fail(p.id, "-", fmt.Sprintf("%d of %d crash states read as neither old nor new; first: %s", bad, states, firstBad), p.desc)
	default:
		c.OK(p.id)
	}
	if pmbrWindow > 0 {
		c.Fail(p.id+"/pmbr-window", "gpt-first-write-pmbr-window",
			fmt.Sprintf("%d crash states of a first-ever GPT write read through partition.Read as an MBR table with one 0xEE partition (old = %s, new = GPT): neither old nor new", pmbrWindow, p.oldKind), p.desc)
	}
	c.Distinct(p.desc + newParts)
	c.Sample(p.desc + " g=" + strings.Join(gAll, ","))
}

// firstWriteWitness replays the recorded witness of gpt-first-write-pmbr-window: blank disk, crash right after the protective MBR.
func firstWriteWitness(c *hx.Ctx) {
	size := int64(1 << 20)
	d := memdev.New(size)
	t := &gpt.Table{LogicalSectorSize: 512, PhysicalSectorSize: 512, ProtectiveMBR: true, GUID: "5CA3360B-5DE6-4FCF-B4CE-419CEE433B51",
		Partitions: []*gpt.Partition{{Index: 1, Start: 2048, End: 2049, Type: gpt.LinuxFilesystem, GUID: "7F8AF2A9-1B1E-4A5E-9D4E-3C0E0A9B8F11", Name: "x"}}}
	rec := memdev.New(size)
	if err := t.Write(rec, size); err != nil {
		c.Known("gpt-first-write-pmbr-window", false, "write failed: "+err.Error())
		return
	}
	var first *memdev.Event
	for i := range rec.Log {
		if !rec.Log[i].Sync {
			first = &rec.Log[i]
			break
		}
	}
	if first == nil || first.Off != 446 {
		c.Known("gpt-first-write-pmbr-window", false, "the protective MBR is no longer the first write")
		return
	}
	d.RawWrite(first.Data, first.Off)
	pt, err := partition.Read(d, 512, 512)
	if err != nil {
		c.Known("gpt-first-write-pmbr-window", false, "after the protective MBR alone partition.Read fails (reads as no table): "+err.Error())
		return
	}
	c.Known("gpt-first-write-pmbr-window", true, fmt.Sprintf("blank disk, crash after the first synced write (protective MBR at byte 446): partition.Read returns a %s table with a 0xEE partition instead of failing as before or returning the new GPT", pt.Type()))
}
