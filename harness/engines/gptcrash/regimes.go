package gptcrash

// Regime families of the C09 engine (see /verif/regimes/C09.md): every family is small, deterministic
// from the seed, and leaves a stat key in the evidence that shows the regime was reached.
//
//	big      disks whose backup copy lies beyond 4 GiB (byte offsets > 2^32) and beyond LBA 2^32
//	         (protective-MBR clamp, 64-bit LBA fields), partitions placed up there
//	lssx     logical sector sizes other than 512 / 4096 (1024, 2048, 8192)
//	rmw      read-modify-write: the table gpt.Read returned, edited, written back (initialized table,
//	         geometry taken from the disk), also through disk.Disk.Partition
//	retry    the old disk is itself a crash state of an earlier interrupted Write; the same table is
//	         written again (a retry) or, when the old state still reads from its primary, another one
//	stale    stale bytes of a GPT made for the other sector size; a disk that grew after it was partitioned
//	foreign  old tables not laid out by this library (entry count != 128, array not at LBA 2, first usable
//	         LBA 2048): read, edited and written back
//	deg      (observation only) the old disk reads only from its backup copy and a different table is written

import (
	"encoding/binary"
	"fmt"
	"hash/crc32"
	"strings"
	"unicode/utf16"

	"github.com/diskfs/go-diskfs/partition/gpt"
	"github.com/diskfs/go-diskfs/partition/mbr"

	gc "verif/harness/engines/gptcommon"
	"verif/harness/internal/hx"
	"verif/harness/internal/memdev"
)

// plainRegimes names the regimes a pair of the original family reaches.
func plainRegimes(p *pairSpec, how int) []string {
	k := []string{"new-vs-old=" + []string{"guid-only", "names-only", "count", "identical", "everything", "everything"}[how]}
	minSec := int64(2*(16384/p.lss) + 3)
	if p.size/int64(p.lss) == minSec {
		k = append(k, "disk=minimum-size")
	}
	if p.size%int64(p.lss) != 0 {
		k = append(k, "disk=size-not-sector-multiple")
	}
	if p.base != nil {
		k = append(k, "disk=random-prior-content")
	}
	if !p.new.PMBR {
		k = append(k, "new=no-protective-mbr")
	}
	for _, t := range []*gc.TableSpec{&p.old, &p.new} {
		switch n := len(t.Parts); {
		case n == 0:
			k = append(k, "table.parts=0")
		case n == 128:
			k = append(k, "table.parts=128")
		}
		for _, q := range t.Parts {
			if q.Index > 124 {
				k = append(k, "table.entry-in-last-array-sector")
				break
			}
		}
	}
	return k
}

// ---- an independent GPT writer (UEFI 2.10 section 5.3; shares no code with go-diskfs) ---------------

type rawEntry struct {
	index      int
	typ, guid  [16]byte // RFC order
	start, end uint64
	attrs      uint64
	name       string
}

func guidToDisk(g [16]byte) []byte {
	return []byte{g[3], g[2], g[1], g[0], g[5], g[4], g[7], g[6], g[8], g[9], g[10], g[11], g[12], g[13], g[14], g[15]}
}

type rawGeom struct {
	count       uint32 // number of entries (entry size is 128)
	arrLBA      uint64 // primary array LBA
	firstUsable uint64
	sectors     uint64 // the disk size the table was made for (backup header at sectors-1)
}

func rawHeader(lss int, my, alt, first, last uint64, guid [16]byte, arrLBA uint64, count uint32, arrCRC uint32) []byte {
	b := make([]byte, lss)
	copy(b, "EFI PART")
	binary.LittleEndian.PutUint32(b[8:], 0x00010000)
	binary.LittleEndian.PutUint32(b[12:], 92)
	binary.LittleEndian.PutUint64(b[24:], my)
	binary.LittleEndian.PutUint64(b[32:], alt)
	binary.LittleEndian.PutUint64(b[40:], first)
	binary.LittleEndian.PutUint64(b[48:], last)
	copy(b[56:], guidToDisk(guid))
	binary.LittleEndian.PutUint64(b[72:], arrLBA)
	binary.LittleEndian.PutUint32(b[80:], count)
	binary.LittleEndian.PutUint32(b[84:], 128)
	binary.LittleEndian.PutUint32(b[88:], arrCRC)
	binary.LittleEndian.PutUint32(b[16:], crc32.ChecksumIEEE(b[:92]))
	return b
}

// rawGPT writes a complete GPT (protective MBR, both headers, both arrays) of the given geometry.
func rawGPT(d *memdev.Dev, lss int, g rawGeom, guid [16]byte, ents []rawEntry) error {
	arrBytes := int(g.count) * 128
	arrSec := uint64((arrBytes + lss - 1) / lss)
	last := g.sectors - 1
	bArr := last - arrSec
	lastUsable := bArr - 1
	if g.arrLBA+arrSec > g.firstUsable || g.firstUsable > lastUsable {
		return fmt.Errorf("geometry does not fit: %+v", g)
	}
	arr := make([]byte, arrBytes)
	for _, e := range ents {
		if e.index < 1 || e.index > int(g.count) {
			return fmt.Errorf("entry index %d", e.index)
		}
		b := arr[(e.index-1)*128:]
		copy(b[0:], guidToDisk(e.typ))
		copy(b[16:], guidToDisk(e.guid))
		binary.LittleEndian.PutUint64(b[32:], e.start)
		binary.LittleEndian.PutUint64(b[40:], e.end)
		binary.LittleEndian.PutUint64(b[48:], e.attrs)
		for i, u := range utf16.Encode([]rune(e.name)) {
			if i >= 36 {
				break
			}
			binary.LittleEndian.PutUint16(b[56+2*i:], u)
		}
	}
	crc := crc32.ChecksumIEEE(arr)
	m := make([]byte, 66)
	m[4] = 0xEE
	binary.LittleEndian.PutUint32(m[8:], 1)
	sz := last
	if sz > 0xFFFFFFFF {
		sz = 0xFFFFFFFF
	}
	binary.LittleEndian.PutUint32(m[12:], uint32(sz))
	m[64], m[65] = 0x55, 0xAA
	d.RawWrite(m, 446)
	d.RawWrite(rawHeader(lss, 1, last, g.firstUsable, lastUsable, guid, g.arrLBA, g.count, crc), int64(lss))
	d.RawWrite(arr, int64(g.arrLBA)*int64(lss))
	d.RawWrite(arr, int64(bArr)*int64(lss))
	d.RawWrite(rawHeader(lss, last, 1, g.firstUsable, lastUsable, guid, bArr, g.count, crc), int64(last)*int64(lss))
	return nil
}

func genRawEntries(r *hx.Rng, n int, count uint32, first, last uint64) []rawEntry {
	var out []rawEntry
	cur := first
	for i := 0; i < n && cur+8 < last; i++ {
		e := rawEntry{index: i + 1, typ: gc.RandGUID(r), guid: gc.RandGUID(r), attrs: r.U64() & 7, name: gc.GenName(r, false, false)}
		if i == n-1 && int(count) > n {
			e.index = int(count) // the last slot of the array
		}
		e.start = cur + uint64(r.Intn(4))
		e.end = e.start + uint64(r.Intn(6))
		if e.end > last {
			e.end = last
		}
		cur = e.end + 1
		out = append(out, e)
	}
	return out
}

// ---- edits of a table that was read from the disk -----------------------------------------------------

// rmwEdits returns the edit number `how` (and whether it changes the disk GUID).
func rmwEdit(r *hx.Rng, how int) (func(t *gpt.Table), bool, string) {
	name := gc.GenName(r, false, false)
	guid := gc.GUIDString(gc.RandGUID(r))
	pg := gc.GUIDString(gc.RandGUID(r))
	switch how % 5 {
	case 0:
		return func(t *gpt.Table) {}, false, "nothing"
	case 1:
		return func(t *gpt.Table) {
			if len(t.Partitions) > 0 {
				t.Partitions = t.Partitions[:len(t.Partitions)-1]
			}
		}, false, "drop-last"
	case 2:
		return func(t *gpt.Table) {
			for _, p := range t.Partitions {
				p.Name = name
			}
		}, false, "rename-all"
	case 3:
		return func(t *gpt.Table) {
			used := map[int]bool{}
			var hi uint64
			for _, p := range t.Partitions {
				used[p.Index] = true
				if p.End > hi {
					hi = p.End
				}
			}
			for i := 1; i <= 128; i++ {
				if !used[i] {
					// a partition right behind the highest one (the usable range is not checked by Write)
					t.Partitions = append(t.Partitions, &gpt.Partition{Index: i, Start: hi + 1, End: hi + 3, Type: gpt.LinuxFilesystem, GUID: pg, Name: name})
					return
				}
			}
		}, false, "add-one"
	default:
		return func(t *gpt.Table) { t.GUID = guid }, true, "new-disk-guid"
	}
}

// ---- the families -----------------------------------------------------------------------------------------

func winFor(size int64, lss int) [2]int64 {
	p := int64(16384 / lss)
	h := (p + 4) * int64(lss)
	return [2]int64{h, h + size%int64(lss)}
}

func regimeFamilies(c *hx.Ctx, cfg gc.Cfg, r *hx.Rng) {
	genPair := func(id string, lss int, size int64, nparts int) pairSpec {
		p := pairSpec{id: id, lss: lss, size: size, oldKind: "gpt"}
		o := gc.GenOpts{LSS: lss, Size: size, NParts: nparts}
		p.old, _, _, _ = gc.GenTable(r, o)
		p.new, _, _, _ = gc.GenTable(r, o)
		p.old.PMBR, p.new.PMBR = true, true
		return p
	}
	run := func(p pairSpec) {
		if c.Want(p.id) {
			runPair(c, cfg, p)
		}
	}
	// every regime family is also classified through the any-geometry record-level reader (rg=, qg=), except old tables
	// whose array is not at LBA 2 (outside the premise OldOkFlatG of the geometry theorems)
	geoRun := func(p pairSpec) {
		// quick tier: the families lssx / rmw / stale / foreign; thorough tier: big and retry as well (cost of the model run)
		p.geo = c.Thorough() || !(strings.HasPrefix(p.id, "big") || strings.HasPrefix(p.id, "retry"))
		run(p)
	}
	smallSize := func(lss int) int64 { return (int64(2*(16384/lss)+3) + int64(r.Intn(60))) * int64(lss) }

	// -- big: the backup copy beyond 4 GiB / beyond LBA 2^32 ------------------------------------------------
	type bigT struct {
		lss  int
		size int64
		keys []string
	}
	bigs := []bigT{
		{512, 5<<30 + 7*512, []string{"regime.disk.backup-beyond-4GiB"}},
		{4096, 9<<30 + 4096, []string{"regime.disk.backup-beyond-4GiB"}},
		{512, 1<<41 + 1<<20, []string{"regime.disk.backup-beyond-4GiB", "regime.disk.last-lba>=2^32"}},
		{4096, 1<<44 + 3*4096 + 100, []string{"regime.disk.backup-beyond-4GiB", "regime.disk.last-lba>=2^32", "disk=size-not-sector-multiple"}},
		{4096, 1<<62 + 4096, []string{"regime.disk.backup-beyond-4GiB", "regime.disk.last-lba>=2^32", "regime.disk.size>=2^62"}},
		{512, 1<<32 + 512, []string{"regime.disk.backup-at-4GiB-boundary"}},
	}
	nb := c.N(6, 60)
	for i := 0; i < nb; i++ {
		b := bigs[i%len(bigs)]
		p := genPair(fmt.Sprintf("big%d", i), b.lss, b.size, 1+r.Intn(6))
		p.win = winFor(b.size, b.lss)
		p.regimes = append([]string{}, b.keys...)
		sectors := uint64(b.size) / uint64(b.lss)
		lastUsable := sectors - uint64(16384/b.lss) - 2
		// one partition of each table up at the end of the disk
		for _, t := range []*gc.TableSpec{&p.old, &p.new} {
			if n := len(t.Parts); n > 0 {
				q := &t.Parts[n-1]
				q.End = lastUsable - uint64(r.Intn(50))
				q.Start = q.End - uint64(r.Intn(1<<20))
				q.Size = 0
				if q.Start >= 1<<32 {
					p.regimes = append(p.regimes, "regime.partition.lba>=2^32")
				}
			}
		}
		switch i % 3 {
		case 1:
			p.oldKind, p.old = "none", gc.TableSpec{}
			if i%2 == 1 {
				// random prior content where the tables go
				p.baseExt = []piece{{0, r.Bytes(int(p.win[0]))}, {b.size - p.win[1], r.Bytes(int(p.win[1]))}}
				p.regimes = append(p.regimes, "disk=random-prior-content")
			}
		case 2:
			p.oldKind, p.old = "mbr", gc.TableSpec{}
			p.oldMbr = []*mbr.Partition{{Index: 1, Type: mbr.Linux, Start: 2048, Size: 0xFFFFF800}}
		}
		p.desc = fmt.Sprintf("big disk lss=%d size=%d old=%s new=%d parts", p.lss, p.size, p.oldKind, len(p.new.Parts))
		geoRun(p)
	}

	// -- lssx: other logical sector sizes ----------------------------------------------------------------------
	for i, lss := range []int{1024, 2048, 8192} {
		if i >= c.N(3, 3) {
			break
		}
		p := genPair(fmt.Sprintf("lssx%d", i), lss, smallSize(lss), -1)
		p.regimes = []string{fmt.Sprintf("regime.lss=%d", lss)}
		p.desc = fmt.Sprintf("sector size %d size=%d old=%d parts new=%d parts", lss, p.size, len(p.old.Parts), len(p.new.Parts))
		geoRun(p)
	}

	// -- rmw: read, edit, write back -----------------------------------------------------------------------------
	nr := c.N(6, 100)
	for i := 0; i < nr; i++ {
		lss := []int{4096, 512, 4096, 4096}[i%4]
		p := genPair(fmt.Sprintf("rmw%d", i), lss, smallSize(lss), 2+r.Intn(5))
		var what string
		p.rmw = true
		p.rmwEdit, p.nguid, what = rmwEdit(r, i)
		p.viaDisk = i%2 == 1
		p.regimes = []string{"regime.new=read-modify-write", "regime.rmw.edit=" + what}
		if p.viaDisk {
			p.regimes = append(p.regimes, "regime.write-through=disk.Partition")
		}
		p.desc = fmt.Sprintf("read-modify-write lss=%d size=%d old=%d parts edit=%s viaDisk=%v", lss, p.size, len(p.old.Parts), what, p.viaDisk)
		geoRun(p)
	}

	// -- retry: the old disk is a crash state of an interrupted write ----------------------------------------
	nt := c.N(8, 120)
	for i := 0; i < nt; i++ {
		lss := []int{4096, 4096, 512}[i%3]
		p := genPair(fmt.Sprintf("retry%d", i), lss, smallSize(lss), 1+r.Intn(5))
		pre := &preSpec{table: p.new, k: i % 5}
		nsec := 1
		if pre.k == 0 || pre.k == 2 {
			nsec = 16384 / lss
		}
		pre.fi = r.Intn(len(Family(nsec)))
		p.pre = pre
		p.regimes = []string{"regime.old=crash-state-of-interrupted-write", fmt.Sprintf("regime.old=crash-state.stage%d", pre.k)}
		if i%2 == 0 {
			// the interrupted call is simply repeated
			p.regimes = append(p.regimes, "regime.retry-same-table")
		} else {
			// another table; judged when the old state still reads from its primary, observed otherwise
			p.new, _, _, _ = gc.GenTable(r, gc.GenOpts{LSS: lss, Size: p.size, NParts: 1 + r.Intn(5)})
			p.new.PMBR = true
			p.degraded = true // cleared by runPair when the old state reads from its primary
			p.regimes = append(p.regimes, "regime.third-table-over-crash-state")
		}
		p.desc = fmt.Sprintf("old = crash state (stage %d, subset %d) of an interrupted write; lss=%d size=%d retry=%v", pre.k, pre.fi, lss, p.size, i%2 == 0)
		geoRun(p)
	}

	// -- stale: a GPT for the other sector size underneath; a disk that grew ------------------------------------
	ns := c.N(4, 40)
	for i := 0; i < ns; i++ {
		lss := []int{4096, 512}[i%2]
		other := 4096 + 512 - lss
		switch i % 4 {
		case 0, 1:
			p := genPair(fmt.Sprintf("stale%d", i), lss, smallSize(4096), 1+r.Intn(5))
			st, _, _, _ := gc.GenTable(r, gc.GenOpts{LSS: other, Size: p.size, NParts: 3})
			st.PMBR = false // keeps sector 0 blank: through partition.Read the old disk has no table
			p.oldKind, p.old = "none", gc.TableSpec{}
			size := p.size
			p.rawBuild = func(d *memdev.Dev) error { return st.ToTable().Write(d, size) }
			p.regimes = []string{fmt.Sprintf("regime.stale-gpt-of-sector-size-%d-under-%d", other, lss)}
			p.desc = fmt.Sprintf("stale GPT made for %d-byte sectors, new table for %d-byte sectors, size=%d", other, lss, p.size)
			geoRun(p)
		default:
			// the table was made when the disk was smaller: its backup copy is not at the end any more
			p := genPair(fmt.Sprintf("stale%d", i), lss, smallSize(lss)+int64(40+r.Intn(100))*int64(lss), 1+r.Intn(5))
			oldSize := p.size - int64(20+r.Intn(15))*int64(lss)
			old := p.old
			p.oldKind, p.old = "raw", gc.TableSpec{}
			p.rawBuild = func(d *memdev.Dev) error { return old.ToTable().Write(d, oldSize) }
			p.regimes = []string{"regime.old=disk-grown-since-partitioned"}
			if i%4 == 3 {
				p.rmw, p.repair = true, true
				p.rmwEdit, p.nguid, _ = rmwEdit(r, 1+i)
				p.regimes = append(p.regimes, "regime.new=read-modify-write", "regime.rmw.after-Table.Repair")
			}
			p.desc = fmt.Sprintf("disk grew from %d to %d bytes since it was partitioned; lss=%d rmw+Repair=%v", oldSize, p.size, lss, p.rmw)
			geoRun(p)
		}
	}

	// -- grown: the table gpt.Read returned on a disk that has grown, written back WITHOUT Table.Repair: the trigger of
	//    gpt-rewrite-grown-disk-no-fallback when the entry array changes (the backup stays at the old AlternateLBA)
	ng := c.N(3, 24)
	for i := 0; i < ng; i++ {
		lss := []int{4096, 512, 4096}[i%3]
		p := genPair(fmt.Sprintf("grown%d", i), lss, smallSize(lss)+int64(40+r.Intn(100))*int64(lss), 1+r.Intn(5))
		oldSize := p.size - int64(20+r.Intn(15))*int64(lss)
		old := p.old
		p.oldKind, p.old = "raw", gc.TableSpec{}
		p.rawBuild = func(d *memdev.Dev) error { return old.ToTable().Write(d, oldSize) }
		p.rmw = true
		var what string
		p.rmwEdit, p.nguid, what = rmwEdit(r, []int{1, 4, 3}[i%3])
		p.regimes = []string{"regime.old=disk-grown-since-partitioned", "regime.new=read-modify-write", "regime.rmw.without-Table.Repair", "regime.rmw.edit=" + what}
		// oracle only (no model case): when the array changes the pair is on the trigger of the listed finding; with a
		// GUID-only edit every state has to read as old or new (the array writes change nothing, a header is one sector)
		p.finding, p.okStages = "gpt-rewrite-grown-disk-no-fallback", map[int]bool{2: true, 3: true}
		if p.nguid {
			p.okStages = nil
		}
		p.desc = fmt.Sprintf("disk grew from %d to %d bytes; the table gpt.Read returned is edited (%s) and written back without Repair; lss=%d", oldSize, p.size, what, lss)
		run(p)
	}

	// -- foreign: tables of another geometry, read, edited, written back -------------------------------------
	type fg struct {
		lss     int
		count   uint32
		arrLBA  uint64
		firstLB uint64 // 0: right behind the array
	}
	fgs := []fg{{512, 128, 2, 2048}, {4096, 128, 2, 256}, {4096, 256, 2, 0}, {4096, 64, 2, 0}, {512, 128, 4, 2048}, {512, 32, 2, 34},
		{4096, 4, 2, 6}, {512, 30, 2, 34}, // the array does not end on a sector boundary (was the trigger of gpt-backup-array-overlaps-header)
		{512, 256, 2, 0}, {512, 4, 2, 34}}
	nf := c.N(8, 50)
	for i := 0; i < nf; i++ {
		g := fgs[i%len(fgs)]
		arrSec := (uint64(g.count)*128 + uint64(g.lss) - 1) / uint64(g.lss)
		first := g.firstLB
		if first == 0 {
			first = g.arrLBA + arrSec
		}
		sectors := first + arrSec + 40 + uint64(r.Intn(60))
		p := pairSpec{id: fmt.Sprintf("foreign%d", i), lss: g.lss, size: int64(sectors) * int64(g.lss), oldKind: "raw", noRec: true, rmw: true}
		geom := rawGeom{count: g.count, arrLBA: g.arrLBA, firstUsable: first, sectors: sectors}
		ents := genRawEntries(r, 1+r.Intn(4), g.count, first, sectors-arrSec-2)
		dg := gc.RandGUID(r)
		lss := g.lss
		p.rawBuild = func(d *memdev.Dev) error { return rawGPT(d, lss, geom, dg, ents) }
		var what string
		p.rmwEdit, p.nguid, what = rmwEdit(r, 1+i)
		p.viaDisk = i%2 == 0
		p.regimes = []string{"regime.old=foreign-geometry", fmt.Sprintf("regime.foreign.entries=%d", g.count), "regime.new=read-modify-write"}
		if g.arrLBA != 2 {
			p.regimes = append(p.regimes, "regime.foreign.array-not-at-lba2")
		}
		if first != g.arrLBA+arrSec {
			p.regimes = append(p.regimes, "regime.foreign.first-usable-lba-aligned")
		}
		if (uint64(g.count)*128)%uint64(g.lss) != 0 {
			// finding gpt-backup-array-overlaps-header is repaired (b8755c1: array sectors rounded up) and the model
			// (Model/GptGeom.lean writeUp) rounds up too: these pairs are two-sided model cases like the others; a
			// Write that rounds down again shows as a correspondence mismatch and as crash states that do not read
			p.regimes = append(p.regimes, "regime.foreign.array-not-sector-multiple")
		}
		p.desc = fmt.Sprintf("foreign GPT (%d entries, array at LBA %d, first usable %d, lss=%d, %d sectors) read, edit=%s, written back", g.count, g.arrLBA, first, g.lss, sectors, what)
		p.geo = g.arrLBA == 2
		run(p)
	}
}

// crashAt applies the first k synced writes of a recorded log in full and of the next one only the sectors keep selects.
func crashAt(d *memdev.Dev, log []memdev.Event, lss, k int, keep func(i int) bool) {
	groups, _ := split(log, lss)
	for gi := 0; gi < k && gi < len(groups); gi++ {
		for _, e := range groups[gi].writes {
			d.RawWrite(e.Data, e.Off)
		}
	}
	if k < len(groups) {
		for i, pc := range groups[k].pieces {
			if keep(i) {
				d.RawWrite(pc.data, pc.off)
			}
		}
	}
}

func witnessTable(n int) *gpt.Table {
	t := &gpt.Table{LogicalSectorSize: 512, PhysicalSectorSize: 512, ProtectiveMBR: true, GUID: "5CA3360B-5DE6-4FCF-B4CE-419CEE433B51"}
	for i := 0; i < n; i++ {
		t.Partitions = append(t.Partitions, &gpt.Partition{Index: i + 1, Start: uint64(64 + 8*i), End: uint64(64 + 8*i + 3), Type: gpt.LinuxFilesystem,
			GUID: fmt.Sprintf("7F8AF2A9-1B1E-4A5E-9D4E-3C0E0A9B8F%02X", 0x11+i), Name: fmt.Sprintf("p%d", i+1)})
	}
	return t
}

// grownDiskWitness replays the witness of gpt-rewrite-grown-disk-no-fallback: a GPT with one partition made for a 1 MiB
// device, the device now 2 MiB, gpt.Read + one more partition + Write, crash with only the first sector of the
// primary array persisted.
// overlapWitness replays the witness of gpt-backup-array-overlaps-header: a valid GPT with 4 entries on 4096-byte sectors
// (the 512-byte array is smaller than a sector), read, one partition renamed, written back: the backup array lands on the
// backup header's sector; a crash with the primary array rewritten and the old primary header still in place does not read.
func overlapWitness(c *hx.Ctx) {
	const tag = "gpt-backup-array-overlaps-header"
	defer func() {
		if e := recover(); e != nil {
			c.Known(tag, false, fmt.Sprintf("witness panicked: %v", e))
		}
	}()
	const lss, sectors = 4096, 64
	d := memdev.New(lss * sectors)
	var ty, g1, dg [16]byte
	ty[0], g1[0], dg[0] = 0xAF, 1, 2
	if err := rawGPT(d, lss, rawGeom{count: 4, arrLBA: 2, firstUsable: 6, sectors: sectors}, dg, []rawEntry{{index: 1, typ: ty, guid: g1, start: 8, end: 9, name: "a"}}); err != nil {
		c.Known(tag, false, "cannot build the old table: "+err.Error())
		return
	}
	t, err := gpt.Read(d, lss, lss)
	if err != nil || len(t.Partitions) != 1 {
		c.Known(tag, false, fmt.Sprintf("the hand-built 4-entry table does not read: %v", err))
		return
	}
	t.Partitions[0].Name = "b"
	rec := d.Clone()
	rec.ResetLog()
	if err := t.Write(rec, lss*sectors); err != nil {
		c.Known(tag, false, "Write failed: "+err.Error())
		return
	}
	crashAt(d, rec.Log, lss, 3, func(int) bool { return false })
	if _, err := gpt.Read(d, lss, lss); err != nil {
		c.Known(tag, true, "valid GPT with 4 entries on 4096-byte sectors, gpt.Read + rename + Write, crash after the primary array and before the primary header: gpt.Read fails: "+err.Error())
		return
	}
	c.Known(tag, false, "the crash state reads (old or new table)")
}

func grownDiskWitness(c *hx.Ctx) {
	const tag = "gpt-rewrite-grown-disk-no-fallback"
	defer func() {
		if e := recover(); e != nil {
			c.Known(tag, false, fmt.Sprintf("witness panicked: %v", e))
		}
	}()
	d := memdev.New(2 << 20)
	if err := witnessTable(1).Write(d, 1<<20); err != nil {
		c.Known(tag, false, "cannot write the old table: "+err.Error())
		return
	}
	t, err := gpt.Read(d, 512, 512)
	if err != nil {
		c.Known(tag, false, "the old table does not read on the grown device: "+err.Error())
		return
	}
	t.Partitions = append(t.Partitions, witnessTable(2).Partitions[1])
	rec := d.Clone()
	rec.ResetLog()
	if err := t.Write(rec, 2<<20); err != nil {
		c.Known(tag, false, "Write failed: "+err.Error())
		return
	}
	crashAt(d, rec.Log, 512, 2, func(i int) bool { return i == 0 })
	if _, err := gpt.Read(d, 512, 512); err != nil {
		c.Known(tag, true, "1 MiB GPT on a 2 MiB device, gpt.Read + one more partition + Write, crash with only the first sector of the primary array persisted: gpt.Read fails: "+err.Error())
		return
	}
	c.Known(tag, false, "the crash state reads (old or new table)")
}

// degradedPrimaryWitness replays the witness of gpt-rewrite-over-degraded-primary: a Write of table B over table A is cut
// while the primary array is in flight (the disk now reads as B from its backup copy, RecoveredFromBackup); a Write
// of table C over that disk is cut while the backup array is in flight: no valid copy is left.
func degradedPrimaryWitness(c *hx.Ctx) {
	const tag = "gpt-rewrite-over-degraded-primary"
	defer func() {
		if e := recover(); e != nil {
			c.Known(tag, false, fmt.Sprintf("witness panicked: %v", e))
		}
	}()
	size := int64(1 << 20)
	d := memdev.New(size)
	if err := witnessTable(1).Write(d, size); err != nil {
		c.Known(tag, false, "cannot write table A: "+err.Error())
		return
	}
	rec := d.Clone()
	rec.ResetLog()
	if err := witnessTable(2).Write(rec, size); err != nil {
		c.Known(tag, false, "Write of table B failed: "+err.Error())
		return
	}
	crashAt(d, rec.Log, 512, 2, func(i int) bool { return i == 0 })
	t, err := gpt.Read(d, 512, 512)
	if err != nil || !t.RecoveredFromBackup || len(t.Partitions) != 2 {
		c.Known(tag, false, fmt.Sprintf("the first crash state does not read as table B from the backup copy: %v", err))
		return
	}
	// the caller does what the documentation of Read asks for: rewrite, here with one partition dropped
	t.Partitions = t.Partitions[:1]
	t.Partitions[0].Name = "only"
	rec = d.Clone()
	rec.ResetLog()
	if err := t.Write(rec, size); err != nil {
		c.Known(tag, false, "Write of table C failed: "+err.Error())
		return
	}
	crashAt(d, rec.Log, 512, 0, func(i int) bool { return i == 0 })
	if _, err := gpt.Read(d, 512, 512); err != nil {
		c.Known(tag, true, "table B readable only from the backup copy (interrupted write), rewritten as table C, crash with only the first sector of the backup array persisted: gpt.Read fails: "+err.Error())
		return
	}
	c.Known(tag, false, "the crash state reads (old or new table)")
}
