package ranges

// FAT write log vs the Lean write-logging model (Model/Fat/Emit.lean, theorem
// fat_writes_in_range in Props/C03.lean): the WriteAt log of Create and of a call history on the
// root directory of a real FAT12/16 volume (Create only for FAT32) is compared, offset by offset
// and length by length, with the write list the model emits for the same calls; the model's
// acceptance verdicts are compared with the library's as well. Public API only.

import (
	"fmt"
	"io"
	"os"
	"strings"

	"github.com/diskfs/go-diskfs/filesystem"

	"verif/harness/internal/hx"
	"verif/harness/internal/memdev"
)

func fatPayload(seed, n int) []byte {
	b := make([]byte, n)
	for i := range b {
		b[i] = byte((seed+i*13)%251 + 1)
	}
	return b
}

func logStr(ev []memdev.Event) string {
	var out []string
	for _, e := range ev {
		if e.Sync || e.Len == 0 {
			continue
		}
		out = append(out, fmt.Sprintf("%d:%d", e.Off, e.Len))
	}
	if len(out) == 0 {
		return "-"
	}
	return strings.Join(out, ",")
}

func foldEq(a, b string) bool { return strings.EqualFold(a, b) }

// fat32 sectors-per-FAT formula in the tree (as found: one FAT sector for a 161-sector volume)
func fat32Fixed() int {
	d := memdev.New(82432)
	d.KeepData = false
	if _, err := create(fsCase{kind: "fat32", size: 82432, bs: 512}, d); err != nil {
		return 1
	}
	bs := d.Bytes(0, 512)
	spf := int(bs[36]) | int(bs[37])<<8 | int(bs[38])<<16 | int(bs[39])<<24
	if spf >= 2 {
		return 1
	}
	return 0
}

func fatLog(c *hx.Ctx) {
	r := c.Rng.Fork()
	names := []string{"A.TXT", "b.txt", "Long name one.dat", "C", "readme.md"}
	type cfg struct {
		kind     string
		size, bs int64
	}
	cfgs := []cfg{
		{"fat12", 40 << 10, 512}, {"fat12", 1474560, 512}, {"fat12", 3<<20 + 1536, 512}, {"fat12", 5632, 512},
		{"fat16", 5 << 20, 512}, {"fat16", 20<<20 + 1536, 512}, {"fat16", 33<<20 + 512, 512},
		{"fat32", 34<<20 + 1536, 512}, {"fat32", 64 << 20, 4096}, {"fat32", 82432, 512}, {"fat32", 300<<20 + 512, 512},
	}
	fix32 := fat32Fixed()
	n := c.N(44, 900)
	for i := 0; i < n; i++ {
		id := fmt.Sprintf("fl%d", i)
		k := cfgs[i%len(cfgs)]
		start := starts[(i/len(cfgs))%len(starts)]
		if i >= 4*len(cfgs) {
			start = starts[r.Intn(len(starts))]
			if r.Chance(30) {
				k.size += int64(r.Intn(9)) * 512
			}
		}
		if !c.Want(id) {
			continue
		}
		func() {
			defer func() {
				if x := recover(); x != nil {
					c.Fail(id, "-", fmt.Sprintf("panic in FAT history: %v", x), fmt.Sprintf("%v start=%d", k, start))
				}
			}()
			d := memdev.New(start + k.size + guard)
			d.KeepData = false
			d.Allowed = []memdev.Range{{Lo: start, Hi: start + k.size}}
			fsys, err := create(fsCase{kind: k.kind, size: k.size, start: start, bs: k.bs}, d)
			kindN := strings.TrimPrefix(k.kind, "fat")
			if err != nil {
				c.Case(id, "ranges.fat", "kind="+kindN, fmt.Sprint("size=", k.size), fmt.Sprint("start=", start), fmt.Sprint("bs=", k.bs), fmt.Sprint("fix32=", fix32), "ops=-")
				c.Impl(id, "err")
				c.Stat("fatlog.create-refused")
				return
			}
			createLog := logStr(d.Log)
			d.ResetLog()
			var ops, acc []string
			if k.kind != "fat32" {
				sizes := map[string]int{}
				steps := 3 + r.Intn(14)
				for j := 0; j < steps; j++ {
					nm := hx.Pick(r, names)
					var tok string
					var err error
					switch x := r.Intn(10); {
					case x < 2:
						tok = "c:" + nm
						var f filesystem.File
						f, err = fsys.OpenFile(nm, os.O_CREATE|os.O_RDWR)
						if err == nil {
							f.Close()
						}
					case x < 6:
						if _, ok := sizes[nm]; !ok {
							continue
						}
						off := r.Intn(sizes[nm] + 1)
						if r.Chance(20) {
							off = sizes[nm] + 1 + r.Intn(3000)
						}
						ln := 1 + r.Intn(6000)
						if k.size < 64<<10 && r.Chance(15) {
							ln = int(k.size) // cannot fit: refused, nothing may be written
						}
						seed := r.Intn(251)
						tok = fmt.Sprintf("w:%s:%d:%d:%d", nm, off, ln, seed)
						f, e2 := fsys.OpenFile(nm, os.O_RDWR)
						if e2 != nil {
							err = e2
							break
						}
						_, _ = f.Seek(int64(off), io.SeekStart)
						_, err = f.Write(fatPayload(seed, ln))
						f.Close()
					case x < 7:
						tok = "t:" + nm
						f, e2 := fsys.OpenFile(nm, os.O_RDWR|os.O_TRUNC)
						if e2 != nil {
							err = e2
							break
						}
						f.Close()
					case x < 9:
						tok = "d:" + nm
						err = fsys.Remove(nm)
					default:
						nm2 := hx.Pick(r, names)
						if foldEq(nm, nm2) {
							continue
						}
						tok = "r:" + nm + ":" + nm2
						err = fsys.Rename(nm, nm2)
					}
					ops = append(ops, tok)
					if err == nil {
						acc = append(acc, "1")
					} else {
						acc = append(acc, "0")
					}
					sizes = map[string]int{}
					if des, e3 := fsys.ReadDir("."); e3 == nil {
						for _, de := range des {
							if info, e4 := de.Info(); e4 == nil {
								sizes[de.Name()] = int(info.Size())
							}
						}
					}
				}
			}
			opsS, accS := "-", "-"
			if len(ops) > 0 {
				opsS, accS = strings.Join(ops, ","), strings.Join(acc, ",")
			}
			histLog := logStr(d.Log)
			c.Case(id, "ranges.fat", "kind="+kindN, fmt.Sprint("size=", k.size), fmt.Sprint("start=", start), fmt.Sprint("bs=", k.bs), fmt.Sprint("fix32=", fix32), "ops="+opsS)
			c.Impl(id, "create="+createLog, "acc="+accS, "ws="+histLog, "inside=1")
			c.Stat("fatlog." + k.kind)
			c.Stat(fmt.Sprintf("fatlog.start=%d", start))
			c.Distinct(fmt.Sprintf("fatlog|%s|%d|%d|%d|%s", k.kind, k.size, k.bs, start, opsS))
			if len(d.OutOfRange) > 0 {
				c.Fail(id, "-", fmt.Sprintf("FAT write outside [start,start+size): %v", d.OutOfRange[0]), fmt.Sprintf("%v start=%d ops=%s", k, start, opsS))
			} else {
				c.OK(id)
			}
		}()
	}
}
