package ranges

import (
	"bytes"
	"fmt"
	"strings"

	"github.com/diskfs/go-diskfs/disk"
	"github.com/diskfs/go-diskfs/filesystem"
	"github.com/diskfs/go-diskfs/partition"
	"github.com/diskfs/go-diskfs/partition/gpt"
	"github.com/diskfs/go-diskfs/partition/mbr"

	"verif/harness/internal/hx"
	"verif/harness/internal/memdev"
)

func wlog(d *memdev.Dev) string {
	var sb strings.Builder
	first := true
	for _, e := range d.Log {
		if e.Sync {
			continue
		}
		if !first {
			sb.WriteByte(',')
		}
		first = false
		fmt.Fprintf(&sb, "%d:%d", e.Off, e.Len)
	}
	if first {
		return "-"
	}
	return sb.String()
}

// tables: writing a partition table changes only the table's own sectors.
func tables(c *hx.Ctx) {
	r := c.Rng
	n := c.N(120, 3000)
	for i := 0; i < n; i++ {
		id := fmt.Sprintf("tb%d", i)
		kind := hx.Pick(r, []string{"gpt", "gpt", "mbr"})
		lss := hx.Pick(r, []int{512, 512, 4096})
		var sectors int64
		switch r.Intn(5) {
		case 0:
			sectors = 80 + int64(r.Intn(200)) // near the minimum
		case 1:
			sectors = (int64(1)<<32)/int64(lss)*int64(lss)/int64(lss) + int64(r.Intn(1000)) // byte offsets >= 2^32... (sector count around 2^32/lss)
		case 2:
			sectors = int64(1)<<32 + int64(r.Intn(100000)) // > 2^32 sectors (> 2 TiB at 512)
		default:
			sectors = 2048 + int64(r.Intn(1<<22))
		}
		size := sectors * int64(lss)
		if !c.Want(id) {
			continue
		}
		desc := fmt.Sprintf("table kind=%s lss=%d sectors=%d", kind, lss, sectors)
		func() {
			defer func() {
				if e := recover(); e != nil {
					c.Fail(id, "-", fmt.Sprintf("panic: %v", e), desc)
				}
			}()
			d := memdev.New(size)
			// boot code, old partition data near the front, data near the end: must survive
			d.RawWrite(r.Bytes(64*1024), 0)
			tail := int64(96 * 1024)
			if tail > size {
				tail = size
			}
			d.RawWrite(r.Bytes(int(tail)), size-tail)
			mid := size / 2
			mid -= mid % int64(lss)
			d.RawWrite(r.Bytes(8192), mid)
			before := d.Clone()
			L := int64(lss)
			var tbl partition.Table
			np := r.Intn(5)
			switch kind {
			case "gpt":
				arr := int64(16384)
				arrSec := arr / L
				d.Allowed = []memdev.Range{{Lo: 446, Hi: 512}, {Lo: L, Hi: 2 * L}, {Lo: 2 * L, Hi: 2*L + arr},
					{Lo: (sectors - 1 - arrSec) * L, Hi: (sectors - 1) * L}, {Lo: (sectors - 1) * L, Hi: sectors * L}}
				t := &gpt.Table{LogicalSectorSize: lss, PhysicalSectorSize: lss, ProtectiveMBR: r.Chance(80),
					GUID: "5CA3360B-5DE6-4FCF-B4CE-419CEE433B51"}
				first := uint64(2 + arrSec)
				for j := 0; j < np; j++ {
					s := first + uint64(j)*8
					t.Partitions = append(t.Partitions, &gpt.Partition{Index: 1 + j*3, Start: s, End: s + 7, Type: gpt.LinuxFilesystem,
						GUID: fmt.Sprintf("7F8AF2A9-1B1E-4A5E-9D4E-3C0E0A9B8F%02X", j), Name: fmt.Sprintf("part%d", j)})
				}
				tbl = t
				pm := 0
				if t.ProtectiveMBR {
					pm = 1
				}
				c.Case(id, "ranges.gpt", fmt.Sprintf("lss=%d", lss), fmt.Sprintf("size=%d", size), fmt.Sprintf("pmbr=%d", pm))
			default:
				d.Allowed = []memdev.Range{{Lo: 446, Hi: 512}}
				t := &mbr.Table{LogicalSectorSize: lss, PhysicalSectorSize: lss}
				if np > 4 {
					np = 4
				}
				for j := 0; j < np; j++ {
					t.Partitions = append(t.Partitions, &mbr.Partition{Index: j + 1, Type: mbr.Linux, Start: uint32(2048 + j*100), Size: 100, Bootable: j == 0})
				}
				tbl = t
				c.Case(id, "ranges.mbr")
			}
			var err error
			if r.Bool() {
				dk := &disk.Disk{Backend: d, Size: size, LogicalBlocksize: L, PhysicalBlocksize: L}
				err = dk.Partition(tbl)
				c.Stat("via=disk.Partition")
			} else {
				err = tbl.Write(d, size)
				c.Stat("via=Table.Write")
			}
			okS := "1"
			if err != nil {
				okS = "0"
			}
			c.Impl(id, "ws="+wlog(d), "ok="+okS)
			var problems []string
			if err != nil {
				problems = append(problems, "write failed: "+err.Error())
			}
			if len(d.OutOfRange) > 0 {
				problems = append(problems, fmt.Sprintf("WriteAt outside the table's own sectors: %v", d.OutOfRange))
			}
			// bytes outside the allowed regions must be unchanged: check the three pre-filled areas
			for _, reg := range [][2]int64{{0, 64 * 1024}, {size - tail, size}, {mid, mid + 8192}} {
				a, b := before.Bytes(reg[0], int(reg[1]-reg[0])), d.Bytes(reg[0], int(reg[1]-reg[0]))
				for x := range a {
					off := reg[0] + int64(x)
					if a[x] != b[x] && !inAllowed(d.Allowed, off) {
						problems = append(problems, fmt.Sprintf("byte %d outside the table sectors changed", off))
						break
					}
				}
			}
			if len(problems) > 0 {
				c.Fail(id, "-", strings.Join(problems, "; "), desc)
			} else {
				c.OK(id)
			}
			c.Stat("table=" + kind)
			c.Distinct(desc)
			if i < 3 {
				c.Sample(desc + " writes=" + wlog(d))
			}
		}()
	}
	partitionFS(c)
}

func inAllowed(rs []memdev.Range, off int64) bool {
	for _, r := range rs {
		if off >= r.Lo && off < r.Hi {
			return true
		}
	}
	return false
}

// partitionFS: a filesystem created through Disk.CreateFilesystem in a partition stays inside the partition.
func partitionFS(c *hx.Ctx) {
	r := c.Rng
	n := c.N(12, 120)
	for i := 0; i < n; i++ {
		id := fmt.Sprintf("pf%d", i)
		kind := hx.Pick(r, []string{"gpt", "mbr"})
		fst := hx.Pick(r, []filesystem.Type{filesystem.TypeFat32, filesystem.TypeFat16, filesystem.TypeFat12, filesystem.TypeExt4})
		var psec uint64
		switch fst {
		case filesystem.TypeFat12:
			psec = 2880 + uint64(r.Intn(64))
		case filesystem.TypeFat16:
			psec = 17*2048 + uint64(r.Intn(64))
		case filesystem.TypeFat32:
			psec = 3*2048 + uint64(r.Intn(64))
		default:
			psec = 12*2048 + uint64(r.Intn(8))
		}
		startSec := uint64(2048 + r.Intn(4096))
		if r.Chance(30) {
			startSec = (1<<32)/512 + uint64(r.Intn(4096))
		}
		if !c.Want(id) {
			continue
		}
		desc := fmt.Sprintf("partition-fs table=%s fstype=%d startSec=%d sizeSec=%d", kind, fst, startSec, psec)
		func() {
			defer func() {
				if e := recover(); e != nil {
					c.Fail(id, "-", fmt.Sprintf("panic: %v", e), desc)
				}
			}()
			size := int64(startSec+psec+4096) * 512
			d := memdev.New(size)
			d.KeepData = false
			dk := &disk.Disk{Backend: d, Size: size, LogicalBlocksize: 512, PhysicalBlocksize: 512}
			var tbl partition.Table
			if kind == "gpt" {
				tbl = &gpt.Table{LogicalSectorSize: 512, PhysicalSectorSize: 512, ProtectiveMBR: true, GUID: "5CA3360B-5DE6-4FCF-B4CE-419CEE433B51",
					Partitions: []*gpt.Partition{{Index: 1, Start: startSec, End: startSec + psec - 1, Type: gpt.LinuxFilesystem, GUID: "7F8AF2A9-1B1E-4A5E-9D4E-3C0E0A9B8F11", Name: "p"}}}
			} else {
				tbl = &mbr.Table{LogicalSectorSize: 512, PhysicalSectorSize: 512,
					Partitions: []*mbr.Partition{{Index: 1, Type: mbr.Linux, Start: uint32(startSec), Size: uint32(psec)}}}
			}
			if err := dk.Partition(tbl); err != nil {
				c.Fail(id, "-", "Partition: "+err.Error(), desc)
				return
			}
			if _, err := dk.GetPartitionTable(); err != nil {
				c.Fail(id, "-", "GetPartitionTable: "+err.Error(), desc)
				return
			}
			lo, hi := int64(startSec)*512, int64(startSec+psec)*512
			d.RawWrite(r.Bytes(guard), lo-guard)
			d.RawWrite(r.Bytes(guard), hi)
			before := d.Clone()
			d.ResetLog()
			d.Allowed = []memdev.Range{{Lo: lo, Hi: hi}}
			// the clause "writing partition contents changes only bytes of that partition": a stream that fills the
			// partition (or stops short / runs over: refused, and still nothing outside) through the Disk entry point
			{
				n := int(hi - lo)
				switch r.Intn(4) {
				case 0:
					n -= 1 + r.Intn(5000)
				case 1:
					n += 1 + r.Intn(5000)
				}
				_, werr := dk.WritePartitionContents(1, bytes.NewReader(r.Bytes(n)))
				note := ""
				if werr != nil {
					note = "WritePartitionContents refused: " + werr.Error()
				}
				checkRange(c, id+"/contents", fsCase{kind: "partition-contents-" + kind, size: hi - lo, start: lo, bs: 512, script: "stream"}, d, before, note)
				c.Stat("partition-contents")
				d.ResetLog()
			}
			fsys, err := dk.CreateFilesystem(disk.FilesystemSpec{Partition: 1, FSType: fst, VolumeLabel: "VERIF", Reproducible: true})
			k := fsCase{kind: fmt.Sprintf("fstype%d", fst), size: hi - lo, start: lo, bs: 512, script: "fill"}
			if fst != filesystem.TypeExt4 {
				k.kind = "fat-in-partition"
			}
			if err != nil {
				checkRange(c, id, k, d, before, "create refused: "+err.Error())
				return
			}
			func() {
				defer func() {
					if e := recover(); e != nil {
						c.Stat("library-panic/partition-fs")
					}
				}()
				ops, _ := runScript(c, r.Fork(), fsCase{script: hx.Pick(r, []string{"fill", "dirgrow", "churn"})}, fsys, deadlineIn(c))
				c.StatN("ops", ops)
			}()
			checkRange(c, id, k, d, before, "")
			c.Stat("partition-fs")
			c.Distinct(desc)
		}()
	}
}
