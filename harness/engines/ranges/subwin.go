package ranges

// subwin: backend.Sub as it is (backend/substorage.go) against the Lean model `subAbs` / `subSeek`
// (Model/Ranges.lean): nests of one to three windows over the device, calls that are in bounds, that straddle
// the window end, that lie behind it and that start at a negative offset; ReadAt and WriteAt through the Storage
// and through Writable(), Seek with the three whence values.  Compared per call: the offset and length the
// device sees (or the refusal), the value Seek returns.  Oracle: an in-bounds call through properly nested
// windows reaches the device inside every window of the nest.

import (
	"fmt"
	"io"
	"strings"

	"github.com/diskfs/go-diskfs/backend"

	"verif/harness/internal/hx"
	"verif/harness/internal/memdev"
)

type swin struct{ off, size int64 }

func subWin(c *hx.Ctx, r *hx.Rng) {
	n := c.N(60, 2000)
	for i := 0; i < n; i++ {
		id := fmt.Sprintf("sub/%d", i)
		rr := r.Fork()
		if !c.Want(id) {
			continue
		}
		func() {
			defer func() {
				if e := recover(); e != nil {
					c.Fail(id, "-", fmt.Sprintf("panic: %v", e), id)
				}
			}()
			r := rr
			devSize := int64(1<<20) + int64(r.Intn(1<<20))
			d := memdev.New(devSize)
			d.KeepData = false
			var lastRead *[2]int64
			d.ReadHook = func(off int64, n int) { lastRead = &[2]int64{off, int64(n)} }
			depth := 1 + r.Intn(3)
			var wins []swin // device-closest first
			var st backend.Storage = d
			cur := devSize
			nested := true
			for k := 0; k < depth; k++ {
				off := r.Int63n(cur/2 + 1)
				size := 1 + r.Int63n(cur-off)
				if r.Chance(8) { // a window that sticks out of the one around it
					size = cur - off + 1 + int64(r.Intn(5000))
					nested = false
				}
				st = backend.Sub(st, off, size)
				wins = append(wins, swin{off, size})
				cur = size
			}
			w, err := st.Writable()
			if err != nil {
				c.Fail(id, "-", "Writable: "+err.Error(), id)
				return
			}
			fsw := wins[len(wins)-1] // the window the caller holds
			var sum int64
			for _, x := range wins {
				sum += x.off
			}
			var ops, res []string
			bad := ""
			inb := 0
			for k := 0; k < 14; k++ {
				switch x := r.Intn(10); {
				case x < 6: // WriteAt / ReadAt
					var off, ln int64
					switch r.Intn(6) {
					case 0: // straddles the end
						ln = 1 + int64(r.Intn(4096))
						off = fsw.size - int64(r.Intn(int(ln))) - 0
						if off < 0 {
							off = 0
						}
					case 1: // behind the end
						ln = 1 + int64(r.Intn(4096))
						off = fsw.size + int64(r.Intn(100000))
					case 2: // negative
						ln = 1 + int64(r.Intn(4096))
						off = -1 - int64(r.Intn(int(sum+5000)))
					default: // in bounds
						ln = int64(r.Intn(int(min64i(fsw.size, 8192)) + 1))
						off = r.Int63n(fsw.size - ln + 1)
					}
					isW := x < 4
					buf := make([]byte, ln)
					tok := "r"
					var gotOff, gotLen int64
					var cerr error
					if isW {
						tok = "w"
						before := len(d.Log)
						if r.Bool() {
							_, cerr = w.WriteAt(buf, off)
						} else {
							w2, _ := st.Writable()
							_, cerr = w2.WriteAt(buf, off)
						}
						if len(d.Log) > before {
							gotOff, gotLen = d.Log[len(d.Log)-1].Off, int64(d.Log[len(d.Log)-1].Len)
						} else if cerr == nil {
							cerr = fmt.Errorf("no write reached the device")
						}
					} else {
						lastRead = nil
						if r.Bool() {
							_, cerr = st.ReadAt(buf, off)
						} else {
							_, cerr = w.ReadAt(buf, off)
						}
						if lastRead != nil {
							gotOff, gotLen = lastRead[0], lastRead[1]
							cerr = nil // EOF / short reads are the device's business
						} else if cerr == nil {
							cerr = fmt.Errorf("no read reached the device")
						}
					}
					ops = append(ops, fmt.Sprintf("%s:%d:%d", tok, off, ln))
					if cerr != nil {
						res = append(res, "err")
					} else {
						res = append(res, fmt.Sprintf("%d:%d", gotOff, gotLen))
						if nested && off >= 0 && off+ln <= fsw.size {
							inb++
							// inside every window of the nest
							var base int64
							for j, x := range wins {
								base += x.off
								_ = j
								// device range of window j: offsets of windows 0..j summed
								if gotOff < base || gotOff+gotLen > base+x.size {
									bad = fmt.Sprintf("in-bounds %s at %d+%d through %v reached the device at [%d,%d), outside the window [%d,%d)", tok, off, ln, wins, gotOff, gotOff+gotLen, base, base+x.size)
								}
							}
						}
					}
				default: // Seek
					wh := r.Intn(3)
					var off int64
					switch wh {
					case io.SeekStart:
						off = int64(r.Intn(int(fsw.size)+2000)) - 500
					case io.SeekCurrent:
						off = int64(r.Intn(20000)) - 10000
					default:
						off = -int64(r.Intn(int(fsw.size)+2000)) + 500
					}
					var pos int64
					var serr error
					if r.Bool() {
						pos, serr = st.Seek(off, wh)
					} else {
						pos, serr = w.Seek(off, wh)
					}
					ops = append(ops, fmt.Sprintf("s:%d:%d", wh, off))
					if serr != nil {
						res = append(res, "err")
					} else {
						res = append(res, fmt.Sprint(pos))
					}
				}
			}
			var ws []string
			for j := len(wins) - 1; j >= 0; j-- { // the window the caller holds first
				ws = append(ws, fmt.Sprintf("%d:%d", wins[j].off, wins[j].size))
			}
			c.Case(id, "ranges.sub", fmt.Sprintf("dev=%d", devSize), "wins="+strings.Join(ws, ";"), "ops="+strings.Join(ops, ","))
			c.Impl(id, "res="+strings.Join(res, ","))
			c.Stat(fmt.Sprintf("sub.depth=%d", depth))
			c.StatN("sub.in-bounds-calls", inb)
			if !nested {
				c.Stat("sub.not-nested")
			}
			c.Distinct("sub|" + strings.Join(ws, ";") + "|" + strings.Join(ops, ","))
			if bad != "" {
				c.Fail(id, "-", bad, id)
				return
			}
			c.OK(id)
		}()
	}
}

func min64i(a, b int64) int64 {
	if a < b {
		return a
	}
	return b
}
