// Package ranges is the C03 engine: every component that was given a byte
// range of a device writes only inside it. The device is pre-filled with a
// pattern, every WriteAt is range-checked by memdev (Allowed/OutOfRange) and
// the guard regions are compared before/after.
package ranges

import (
	"errors"
	"fmt"
	"os"
	"strings"
	"sync"
	"time"

	"github.com/diskfs/go-diskfs/backend"
	"github.com/diskfs/go-diskfs/filesystem"
	"github.com/diskfs/go-diskfs/filesystem/ext4"
	"github.com/diskfs/go-diskfs/filesystem/fat12"
	"github.com/diskfs/go-diskfs/filesystem/fat16"
	"github.com/diskfs/go-diskfs/filesystem/fat32"
	"github.com/diskfs/go-diskfs/filesystem/iso9660"
	"github.com/diskfs/go-diskfs/filesystem/squashfs"

	"verif/harness/internal/hx"
	"verif/harness/internal/memdev"
)

const guard = 64 * 1024

type fsCase struct {
	kind   string
	size   int64
	start  int64
	bs     int64
	script string // fill | dirgrow | churn
	opt    string
}

func (k fsCase) String() string {
	return fmt.Sprintf("fs=%s size=%d start=%d bs=%d script=%s opt=%s", k.kind, k.size, k.start, k.bs, k.script, k.opt)
}

var starts = []int64{0, 512, 1 << 20, 4<<30 + 4096}

// sizes per kind: a mix of aligned and unaligned (not a multiple of cluster / block size)
func sizesFor(kind string, r *hx.Rng, thorough bool) []int64 {
	switch kind {
	case "fat12":
		return []int64{1474560, 3<<20 + 1536, 700*1024 + 512}
	case "fat16":
		return []int64{17 << 20, 20<<20 + 7*512}
	case "fat32":
		s := []int64{1<<20 + 1536, 34<<20 + 3*512, 3 << 20}
		if thorough {
			s = append(s, 270<<20+512)
		}
		return s
	case "ext4":
		s := []int64{12 << 20, 10<<20 + 1536}
		if thorough {
			s = append(s, 40<<20+512)
		}
		return s
	case "iso9660":
		return []int64{4 << 20, 2<<20 + 2048}
	default: // squashfs
		return []int64{4 << 20, 2<<20 + 4096}
	}
}

func create(k fsCase, d *memdev.Dev) (filesystem.FileSystem, error) {
	switch k.kind {
	case "fat12":
		return fat12.Create(d, k.size, k.start, k.bs, "VERIF", true)
	case "fat16":
		return fat16.Create(d, k.size, k.start, k.bs, "VERIF", true)
	case "fat32":
		return fat32.Create(d, k.size, k.start, k.bs, "VERIF", true)
	case "ext4":
		return ext4.Create(d, k.size, k.start, k.bs, &ext4.Params{})
	case "iso9660":
		return iso9660.Create(d, k.size, k.start, k.bs, "")
	case "squashfs":
		return squashfs.Create(d, k.size, k.start, k.bs)
	}
	return nil, errors.New("unknown kind")
}

func writeFile(fsys filesystem.FileSystem, name string, data []byte) error {
	f, err := fsys.OpenFile(name, os.O_CREATE|os.O_RDWR)
	if err != nil {
		return err
	}
	defer f.Close()
	for len(data) > 0 {
		n := len(data)
		if n > 256*1024 {
			n = 256 * 1024
		}
		w, err := f.Write(data[:n])
		if err != nil {
			return err
		}
		if w == 0 {
			return errors.New("short write")
		}
		data = data[w:]
	}
	return nil
}

// runScript drives a writable filesystem; errors from the library are expected (ENOSPC etc.)
func runScript(c *hx.Ctx, r *hx.Rng, k fsCase, fsys filesystem.FileSystem, deadline time.Time) (ops int, sawErr bool) {
	pfx := ""
	switch k.script {
	case "fill":
		// files of assorted sizes until the filesystem refuses, then delete some and refill
		for round := 0; round < 2; round++ {
			for i := 0; i < 4000 && time.Now().Before(deadline); i++ {
				sz := []int{0, 1, 511, 512, 513, 4095, 4096, 4097, 70000, 300000, 1 << 20}[r.Intn(11)]
				name := fmt.Sprintf("%sf%d_%d.bin", pfx, round, i)
				ops++
				if err := writeFile(fsys, name, r.Bytes(sz)); err != nil {
					sawErr = true
					if i > 3 {
						break
					}
				}
			}
			// top up with one-block files so that the very last free cluster / block is handed out too
			misses := 0
			for i := 0; i < 20000 && misses < 3 && time.Now().Before(deadline); i++ {
				ops++
				if err := writeFile(fsys, fmt.Sprintf("%st%d_%d.bin", pfx, round, i), r.Bytes(600)); err != nil {
					sawErr = true
					misses++
				} else {
					misses = 0
				}
			}
			for i := 0; i < 40; i += 2 {
				ops++
				_ = fsys.Remove(fmt.Sprintf("%sf%d_%d.bin", pfx, round, i))
			}
		}
	case "dirgrow":
		// many entries with long names in nested directories (directory growth), until refusal
		_ = fsys.Mkdir("dira")
		_ = fsys.Mkdir("dira/sub")
		for i := 0; i < 1500 && time.Now().Before(deadline); i++ {
			name := fmt.Sprintf("dira/sub/a-rather-long-file-name-to-make-entries-big-%04d.txt", i)
			ops++
			if err := writeFile(fsys, name, r.Bytes(r.Intn(3)*700)); err != nil {
				sawErr = true
				break
			}
		}
		for i := 0; i < 200; i += 3 {
			ops++
			_ = fsys.Remove(fmt.Sprintf("dira/sub/a-rather-long-file-name-to-make-entries-big-%04d.txt", i))
		}
		for i := 0; i < 60; i++ {
			ops++
			if err := fsys.Mkdir(fmt.Sprintf("dira/d%03d", i)); err != nil {
				sawErr = true
			}
		}
	default: // churn: overwrite, extend at offsets, truncate-open, rename
		for i := 0; i < 300 && time.Now().Before(deadline); i++ {
			name := fmt.Sprintf("c%d.dat", r.Intn(12))
			ops++
			switch r.Intn(5) {
			case 0:
				if err := writeFile(fsys, name, r.Bytes(r.Intn(200000))); err != nil {
					sawErr = true
				}
			case 1:
				f, err := fsys.OpenFile(name, os.O_CREATE|os.O_RDWR)
				if err == nil {
					_, _ = f.Seek(int64(r.Intn(400000)), 0)
					if _, err := f.Write(r.Bytes(r.Intn(9000))); err != nil {
						sawErr = true
					}
					f.Close()
				}
			case 2:
				f, err := fsys.OpenFile(name, os.O_CREATE|os.O_RDWR|os.O_TRUNC)
				if err == nil {
					f.Close()
				}
			case 3:
				_ = fsys.Rename(name, fmt.Sprintf("c%d.dat", r.Intn(12)))
			default:
				_ = fsys.Remove(name)
			}
		}
	}
	return ops, sawErr
}

func populateWorkspace(r *hx.Rng, fsys filesystem.FileSystem, budget int64) int {
	ops := 0
	_ = fsys.Mkdir("d1")
	_ = fsys.Mkdir("d1/d2")
	var used int64
	for i := 0; used < budget && i < 200; i++ {
		sz := []int{0, 1, 2047, 2048, 2049, 4096, 10000, 131072, 200000}[r.Intn(9)]
		dir := []string{"", "d1/", "d1/d2/"}[r.Intn(3)]
		name := fmt.Sprintf("%sfile%03d.dat", dir, i)
		data := r.Bytes(sz)
		if r.Bool() { // compressible
			for j := range data {
				data[j] = byte(j / 64)
			}
		}
		if err := writeFile(fsys, name, data); err != nil {
			break
		}
		used += int64(sz)
		ops++
	}
	return ops
}

func oneFS(c *hx.Ctx, id string, k fsCase, r *hx.Rng) {
	devSize := k.start + k.size + guard
	d := memdev.New(devSize)
	d.KeepData = false
	// guard pattern on both sides of the range (and a little stale data inside)
	lo := k.start - guard
	if lo < 0 {
		lo = 0
	}
	if k.start > 0 {
		d.RawWrite(r.Bytes(int(k.start-lo)), lo)
	}
	d.RawWrite(r.Bytes(guard), k.start+k.size)
	before := d.Clone()
	d.Allowed = []memdev.Range{{Lo: k.start, Hi: k.start + k.size}}
	fsys, err := create(k, d)
	if err != nil {
		// a refusal is fine, but it must not have written outside either
		c.Stat("create-refused/" + k.kind)
		checkRange(c, id, k, d, before, "create refused: "+err.Error())
		return
	}
	deadline := time.Now().Add(time.Duration(c.N(5, 60)) * time.Second)
	ops := 0
	sawErr := false
	var ferr error
	switch k.kind {
	case "iso9660":
		ops = populateWorkspace(r, fsys, k.size/3)
		o := iso9660.FinalizeOptions{VolumeIdentifier: "VERIF"}
		switch k.opt {
		case "rr":
			o.RockRidge = true
		case "joliet":
			o.Joliet = true
		case "both":
			o.RockRidge, o.Joliet = true, true
		}
		ferr = safely(func() error { return fsys.(*iso9660.FileSystem).Finalize(o) })
	case "squashfs":
		ops = populateWorkspace(r, fsys, k.size/3)
		o := squashfs.FinalizeOptions{}
		switch k.opt {
		case "nocomp":
			o.NoCompressData, o.NoCompressFragments, o.NoCompressInodes = true, true, true
		case "nofrag":
			o.NoFragments = true
		case "nopad":
			o.NoPad = true
		}
		ferr = safely(func() error { return fsys.(*squashfs.FileSystem).Finalize(o) })
		_ = fsys.Close()
	default:
		func() {
			// a panic inside the library is not a C03 matter (C04/C01 own it); the range check below still applies
			defer func() {
				if e := recover(); e != nil {
					c.Stat("library-panic/" + k.kind)
					c.Note("library panic during %s: %v", k, e)
				}
			}()
			ops, sawErr = runScript(c, r, k, fsys, deadline)
		}()
	}
	if sawErr {
		c.Stat("hit-enospc-or-refusal/" + k.kind)
	}
	c.StatN("ops", ops)
	note := ""
	if ferr != nil {
		note = "finalize error: " + ferr.Error()
		c.Stat("finalize-error/" + k.kind)
	}
	checkRange(c, id, k, d, before, note)
	c.Distinct(k.String())
	c.Sample(fmt.Sprintf("%s ops=%d writes=%d", k, ops, len(d.Log)))
}

// tagFor classifies an out-of-range write against the listed findings (specific trigger + specific symptom).
func tagFor(k fsCase, d *memdev.Dev) string {
	if len(d.OutOfRange) == 0 {
		return "-"
	}
	if k.kind == "iso9660" && k.start > 0 {
		// iso-start-ignored: every stray write lies in [0, size) i.e. the image was laid out at offset 0
		all := true
		for _, o := range d.OutOfRange {
			if o.Hi > k.size+2*k.bs {
				all = false
			}
		}
		if all {
			return "iso-start-ignored"
		}
	}
	return "-"
}

func checkRange(c *hx.Ctx, id string, k fsCase, d *memdev.Dev, before *memdev.Dev, note string) {
	var problems []string
	if len(d.OutOfRange) > 0 {
		o := d.OutOfRange
		show := o
		if len(show) > 4 {
			show = show[:4]
		}
		problems = append(problems, fmt.Sprintf("%d WriteAt(s) outside [%d,%d): first %v", len(o), k.start, k.start+k.size, show))
	}
	if off := memdev.DiffOutside(before, d, k.start, k.start+k.size); off >= 0 {
		problems = append(problems, fmt.Sprintf("guard byte at %d changed", off))
	}
	if len(problems) > 0 {
		c.Fail(id, tagFor(k, d), strings.Join(problems, "; ")+" "+note, k.String())
		return
	}
	c.OK(id)
}

var _ backend.Storage = (*memdev.Dev)(nil)

func Run(c *hx.Ctx) {
	r := c.Rng
	e4rng := r.Fork()
	subrng := r.Fork()
	n := 0
	type job struct {
		id string
		k  fsCase
		r  *hx.Rng
	}
	var jobs []job
	kinds := []string{"fat12", "fat16", "fat32", "ext4", "iso9660", "squashfs"}
	for _, kind := range kinds {
		sizes := sizesFor(kind, r, c.Thorough())
		for si, size := range sizes {
			for sti, start := range starts {
				scripts := []string{"fill", "dirgrow", "churn"}
				opts := []string{""}
				switch kind {
				case "iso9660":
					scripts = []string{"finalize"}
					opts = []string{"plain", "rr", "joliet", "both"}
				case "squashfs":
					scripts = []string{"finalize"}
					opts = []string{"default", "nocomp", "nofrag", "nopad"}
				}
				for sci, script := range scripts {
					for oi, opt := range opts {
						// quick tier: a fixed, seed-rotated third of the matrix; thorough: everything
						if !c.Thorough() && (si+sti+sci+oi+int(c.Seed))%3 != 0 {
							continue
						}
						bs := int64(512)
						switch kind {
						case "iso9660":
							bs = 2048
						case "squashfs":
							bs = 131072
							if r.Bool() {
								bs = 4096
							}
						case "fat32":
							if r.Chance(25) && size%4096 == 0 {
								bs = 4096
							}
						}
						k := fsCase{kind: kind, size: size, start: start, bs: bs, script: script, opt: opt}
						id := fmt.Sprintf("fs%d", n)
						n++
						if !c.Want(id) {
							continue
						}
						c.Stat("kind=" + kind)
						c.Stat(fmt.Sprintf("start=%d", start))
						jobs = append(jobs, job{id, k, r.Fork()})
					}
				}
			}
		}
	}
	var wg sync.WaitGroup
	sem := make(chan struct{}, 12)
	// the ext4 write-log classification runs beside the matrix
	wg.Add(1)
	go func() {
		defer wg.Done()
		ext4Cls(c, e4rng)
	}()
	for _, j := range jobs {
		wg.Add(1)
		sem <- struct{}{}
		go func(j job) {
			defer wg.Done()
			defer func() { <-sem }()
			oneFS(c, j.id, j.k, j.r)
		}(j)
	}
	wg.Wait()
	tables(c)
	fatLog(c)
	subWin(c, subrng)
	// partition values handed directly to WriteContents / ReadContents; own random stream (derived from the seed) so
	// that the families above keep their inputs
	partSpell(c, hx.NewRng(c.Seed*1000003+0x9a57))
	// workspaces that do not fit the range given to iso9660 / squashfs Create (own stream as well)
	overFamily(c, hx.NewRng(c.Seed*1000003+0x0e7))
	// gap writes on the file that owns the last data cluster of a full FAT volume (own stream as well)
	gapAtLastCluster(c, hx.NewRng(c.Seed*1000003+0x6a9))
}

func safely(f func() error) (err error) {
	defer func() {
		if e := recover(); e != nil {
			err = fmt.Errorf("panic: %v", e)
		}
	}()
	return f()
}

func deadlineIn(c *hx.Ctx) time.Time { return time.Now().Add(time.Duration(c.N(6, 40)) * time.Second) }
