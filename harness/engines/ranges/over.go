package ranges

// The "over" family: a workspace that needs MORE than the range the filesystem was created with
// (iso9660 and squashfs, at start 0 and at a non-zero start). The bytes behind the range are
// pre-filled and compared, every WriteAt is range-checked. The only correct outcome is a refusal by
// Finalize with nothing written outside [start, start+size); an image laid out regardless is the
// recorded finding iso-finalize-exceeds-size / sqfs-finalize-exceeds-size (witness replay: c.Known).
//
// Per (kind, start) three cases over ONE list of files:
//   big    size = 2 MiB, about 3 MiB of files                      -> must be refused
//   exact  size = exactly what the image takes (learned from a run
//          with size 0 = unlimited on a scratch device)            -> must be written, in range
//   tight  size = one block (iso9660) / one byte (squashfs) less    -> must be refused
// so a repair that compares with the wrong quantity (off by a block, start added twice, ...) fails here.

import (
	"fmt"

	"github.com/diskfs/go-diskfs/filesystem"
	"github.com/diskfs/go-diskfs/filesystem/iso9660"
	"github.com/diskfs/go-diskfs/filesystem/squashfs"

	"verif/harness/internal/hx"
	"verif/harness/internal/memdev"
)

type overFile struct {
	name string
	data []byte
}

const overTail = 4 << 20 // pre-filled neighbour region behind the range (holds everything the witness spills)

func overTag(kind string) string {
	if kind == "iso9660" {
		return "iso-finalize-exceeds-size"
	}
	return "sqfs-finalize-exceeds-size"
}

func overFiles(r *hx.Rng, total int) []overFile {
	var fl []overFile
	used := 0
	for i := 0; used < total; i++ {
		sz := []int{1, 700, 2048, 5000, 70000, 131072, 200000, 300001}[r.Intn(8)]
		dir := []string{"", "d1/", "d1/d2/"}[r.Intn(3)]
		fl = append(fl, overFile{fmt.Sprintf("%sover%03d.dat", dir, i), r.Bytes(sz)}) // incompressible
		used += sz
	}
	return fl
}

// overRun creates the filesystem with (size, start) on a device whose neighbourhood of the range is
// pre-filled, writes the files into the workspace and finalizes. It returns the device, its state
// before, and the error of Finalize (a Create refusal is returned as cerr).
func overRun(kind string, size, start, bs int64, files []overFile, fill *hx.Rng) (d, before *memdev.Dev, cerr, ferr error) {
	span := size
	if span == 0 {
		span = 8 << 20
	}
	d = memdev.New(start + span + overTail)
	d.KeepData = false
	if start > 0 {
		lo := start - guard
		if lo < 0 {
			lo = 0
		}
		d.RawWrite(fill.Bytes(int(start-lo)), lo)
	}
	if size > 0 {
		d.RawWrite(fill.Bytes(overTail), start+size)
		d.Allowed = []memdev.Range{{Lo: start, Hi: start + size}}
	}
	before = d.Clone()
	var fsys filesystem.FileSystem
	k := fsCase{kind: kind, size: size, start: start, bs: bs}
	cerr = safely(func() error {
		var err error
		fsys, err = create(k, d)
		return err
	})
	if cerr != nil {
		return d, before, cerr, nil
	}
	_ = fsys.Mkdir("d1")
	_ = fsys.Mkdir("d1/d2")
	for _, f := range files {
		if err := writeFile(fsys, f.name, f.data); err != nil {
			_ = fsys.Close()
			return d, before, fmt.Errorf("workspace: %v", err), nil
		}
	}
	switch kind {
	case "iso9660":
		ferr = safely(func() error {
			return fsys.(*iso9660.FileSystem).Finalize(iso9660.FinalizeOptions{VolumeIdentifier: "VERIF"})
		})
	default:
		ferr = safely(func() error { return fsys.(*squashfs.FileSystem).Finalize(squashfs.FinalizeOptions{}) })
	}
	_ = fsys.Close() // a refused Finalize keeps the workspace; Close removes it
	return d, before, nil, ferr
}

func logEnd(d *memdev.Dev) int64 {
	var hi int64
	for _, e := range d.Log {
		if !e.Sync && e.Off+int64(e.Len) > hi {
			hi = e.Off + int64(e.Len)
		}
	}
	return hi
}

// overJudge: expectFit=false -> Finalize must refuse and nothing outside the range may change;
// expectFit=true -> Finalize must succeed, in range. Returns whether the recorded defect showed.
func overJudge(c *hx.Ctx, id, kind string, size, start, bs int64, d, before *memdev.Dev, cerr, ferr error, expectFit bool, need int64) (defect bool, msg string) {
	repro := fmt.Sprintf("fs=%s size=%d start=%d bs=%d script=finalize over-family needs=%d (./check C03 quick --only %s)", kind, size, start, bs, need, id)
	if cerr != nil {
		c.Fail(id, "-", "the witness could not be set up: "+cerr.Error(), repro)
		return false, "set-up failed: " + cerr.Error()
	}
	var outside []string
	if n := len(d.OutOfRange); n > 0 {
		outside = append(outside, fmt.Sprintf("%d WriteAt(s) outside [%d,%d), first [%d,%d)", n, start, start+size, d.OutOfRange[0].Lo, d.OutOfRange[0].Hi))
	}
	if off := memdev.DiffOutside(before, d, start, start+size); off >= 0 {
		outside = append(outside, fmt.Sprintf("neighbour byte at %d changed", off))
	}
	fe := "nil"
	if ferr != nil {
		fe = ferr.Error()
	}
	if expectFit {
		switch {
		case len(outside) > 0:
			c.Fail(id, "-", fmt.Sprintf("an image of %d bytes that fits the size: %v; Finalize: %s", need, outside, fe), repro)
		case ferr != nil:
			c.Fail(id, "-", fmt.Sprintf("an image of exactly %d bytes is refused although it fits size=%d: %s", need, size, fe), repro)
		case logEnd(d) != start+need:
			c.Fail(id, "-", fmt.Sprintf("the image ends at %d, expected start+%d as on the unlimited run", logEnd(d), need), repro)
		default:
			c.OK(id)
		}
		return false, ""
	}
	// the image does not fit
	if len(outside) > 0 {
		// trigger (image larger than the range) AND symptom (writes behind start+size): the recorded finding
		allBehind := true
		for _, o := range d.OutOfRange {
			if o.Lo < start+size {
				allBehind = false
			}
		}
		tag := "-"
		if allBehind && need > size {
			tag = overTag(kind)
		}
		msg = fmt.Sprintf("the image needs at least %d bytes, the range holds %d: %v; Finalize: %s", need, size, outside, fe)
		c.Fail(id, tag, msg, repro)
		return tag != "-", msg
	}
	if ferr == nil {
		c.Fail(id, "-", fmt.Sprintf("Finalize reports success for an image of %d bytes in a range of %d although nothing was written outside", need, size), repro)
		return false, "unexpected success"
	}
	c.Stat("over.refused/" + kind)
	if len(d.Log) == 0 {
		c.Stat("over.refused-before-any-write/" + kind)
	}
	c.OK(id)
	return false, fmt.Sprintf("refused, %d write(s), all inside the range: %s", len(d.Log), fe)
}

func overFamily(c *hx.Ctx, r *hx.Rng) {
	type cfg struct {
		kind      string
		start, bs int64
	}
	cfgs := []cfg{
		{"iso9660", 0, 2048}, {"iso9660", 512, 2048},
		{"squashfs", 0, 4096}, {"squashfs", 1 << 20, 4096},
	}
	if c.Thorough() {
		cfgs = append(cfgs, cfg{"iso9660", 4<<30 + 4096, 2048}, cfg{"squashfs", 4<<30 + 4096, 131072})
	}
	shown := map[string]bool{}
	detail := map[string]string{}
	ran := map[string]bool{}
	for _, g := range cfgs {
		base := fmt.Sprintf("over/%s/%d", g.kind, g.start)
		if !c.Want(base+"/big") && !c.Want(base+"/exact") && !c.Want(base+"/tight") {
			continue
		}
		tag := overTag(g.kind)
		ran[tag] = true
		fr := r.Fork()
		fill := r.Fork()
		// big: 2 MiB range, about 3 MiB of files
		const size = int64(2 << 20)
		big := overFiles(fr, 3<<20)
		if id := base + "/big"; c.Want(id) {
			c.Stat("over.case/" + g.kind + "/big")
			d, before, cerr, ferr := overRun(g.kind, size, g.start, g.bs, big, fill)
			def, msg := overJudge(c, id, g.kind, size, g.start, g.bs, d, before, cerr, ferr, false, 3<<20)
			if def {
				shown[tag] = true
			}
			detail[tag] += fmt.Sprintf("[%s: %s] ", id, msg)
			c.Distinct(id)
		}
		// exact / tight: learn what a smaller workspace takes from an unlimited run
		small := overFiles(fr, 600000+fr.Intn(500000))
		du, _, cerr, ferr := overRun(g.kind, 0, g.start, g.bs, small, fill)
		if cerr != nil || ferr != nil {
			c.Fail(base+"/exact", "-", fmt.Sprintf("the unlimited run failed: %v %v", cerr, ferr), base)
			continue
		}
		need := logEnd(du) - g.start
		unit := int64(1)
		if g.kind == "iso9660" {
			unit = g.bs
		}
		if id := base + "/exact"; c.Want(id) {
			c.Stat("over.case/" + g.kind + "/exact")
			d, before, cerr, ferr := overRun(g.kind, need, g.start, g.bs, small, fill)
			overJudge(c, id, g.kind, need, g.start, g.bs, d, before, cerr, ferr, true, need)
			c.Distinct(id)
		}
		if id := base + "/tight"; c.Want(id) {
			c.Stat("over.case/" + g.kind + "/tight")
			d, before, cerr, ferr := overRun(g.kind, need-unit, g.start, g.bs, small, fill)
			def, msg := overJudge(c, id, g.kind, need-unit, g.start, g.bs, d, before, cerr, ferr, false, need)
			if def {
				shown[tag] = true
			}
			detail[tag] += fmt.Sprintf("[%s: %s] ", id, msg)
			c.Distinct(id)
		}
		c.Sample(fmt.Sprintf("over %s start=%d: big 3 MiB in 2 MiB; exact/tight around %d bytes", g.kind, g.start, need))
	}
	for _, tag := range []string{"iso-finalize-exceeds-size", "sqfs-finalize-exceeds-size"} {
		if ran[tag] {
			c.Known(tag, shown[tag], detail[tag])
		}
	}
}
