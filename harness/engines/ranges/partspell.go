package ranges

// partspell: the clause "writing partition contents changes only bytes of that partition" for partition VALUES
// handed DIRECTLY to Partition.WriteContents / ReadContents (no Disk, no table lookup, nothing has reconciled the
// fields beforehand): gpt.Partition in the three spellings the package accepts - Start+End (Size 0), Start+Size
// (End 0), all three fields - hand-built (512-byte defaults) or as gpt.Read returns it (stamped with 512 / 4096) and
// then re-spelled, and mbr.Partition.  The reader supplies fewer bytes than the partition holds, exactly as many,
// or MORE (by less than one chunk, by several chunks).
// Oracle: every WriteAt of the log lies inside [start, start+size) (memdev.Allowed: at any time, not only in the
// final state), no byte outside changes, an error is returned iff supplied != size, ReadContents writes nothing.

import (
	"bytes"
	"fmt"
	"io"
	"strings"

	"github.com/diskfs/go-diskfs/partition/gpt"
	"github.com/diskfs/go-diskfs/partition/mbr"
	"github.com/diskfs/go-diskfs/partition/part"

	"verif/harness/internal/hx"
	"verif/harness/internal/memdev"
)

// piecewise hands data out in pieces of the given sizes (then in whatever the caller asks for).
type piecewise struct {
	data   []byte
	pieces []int
	i      int
	eofNow bool // return io.EOF together with the last bytes
}

func (p *piecewise) Read(b []byte) (int, error) {
	if len(p.data) == 0 {
		return 0, io.EOF
	}
	n := len(b)
	if p.i < len(p.pieces) {
		if p.pieces[p.i] < n {
			n = p.pieces[p.i]
		}
		p.i++
	}
	if n > len(p.data) {
		n = len(p.data)
	}
	copy(b, p.data[:n])
	p.data = p.data[n:]
	if len(p.data) == 0 && p.eofNow {
		return n, io.EOF
	}
	return n, nil
}

func partSpell(c *hx.Ctx, r *hx.Rng) {
	n := c.N(240, 8000)
	for i := 0; i < n; i++ {
		id := fmt.Sprintf("ps%d", i)
		rr := r.Fork()
		if !c.Want(id) {
			continue
		}
		onePartSpell(c, id, rr)
	}
}

func onePartSpell(c *hx.Ctx, id string, r *hx.Rng) {
	desc := id
	defer func() {
		if e := recover(); e != nil {
			c.Fail(id, "-", fmt.Sprintf("panic: %v", e), desc)
		}
	}()
	kind := "gpt"
	if r.Chance(20) {
		kind = "mbr"
	}
	stamped := r.Chance(40)
	lss, pss := 512, 512
	if stamped {
		lss, pss = hx.Pick(r, []int{512, 4096}), hx.Pick(r, []int{512, 4096})
	}
	boundary := uint64(1<<32) / uint64(lss)
	var startSec uint64
	switch r.Intn(5) {
	case 0:
		startSec = boundary - uint64(1+r.Intn(12))
	case 1:
		startSec = boundary*uint64(1+r.Intn(3)) + uint64(r.Intn(5000))
	default:
		startSec = 64 + uint64(r.Intn(4000))
	}
	sizeSec := uint64(1 + r.Intn(32))
	lo := int64(startSec) * int64(lss)
	size := int64(sizeSec) * int64(lss)
	hi := lo + size
	devSize := hi + 64*int64(lss) + 1<<20
	devSize -= devSize % int64(lss)
	d := memdev.New(devSize)
	d.KeepData = false

	var p part.Partition
	if stamped {
		// the value as the library reads it back from a table (all three fields, sector sizes stamped)
		switch kind {
		case "gpt":
			t := &gpt.Table{LogicalSectorSize: lss, PhysicalSectorSize: pss, ProtectiveMBR: true, GUID: "5CA3360B-5DE6-4FCF-B4CE-419CEE433B51",
				Partitions: []*gpt.Partition{{Index: 1, Start: startSec, End: startSec + sizeSec - 1, Type: gpt.LinuxFilesystem,
					GUID: "7F8AF2A9-1B1E-4A5E-9D4E-3C0E0A9B8F11", Name: "p"}}}
			if err := t.Write(d, devSize); err != nil {
				c.Fail(id, "-", "cannot set up the table: "+err.Error(), desc)
				return
			}
			rt, err := gpt.Read(d, lss, pss)
			if err != nil || len(rt.Partitions) != 1 {
				c.Fail(id, "-", fmt.Sprintf("cannot read the table back: %v", err), desc)
				return
			}
			p = rt.Partitions[0]
		default:
			t := &mbr.Table{LogicalSectorSize: lss, PhysicalSectorSize: pss,
				Partitions: []*mbr.Partition{{Index: 1, Type: mbr.Linux, Start: uint32(startSec), Size: uint32(sizeSec)}}}
			if err := t.Write(d, devSize); err != nil {
				c.Fail(id, "-", "cannot set up the table: "+err.Error(), desc)
				return
			}
			rt, err := mbr.Read(d, lss, pss)
			if err != nil {
				c.Fail(id, "-", "cannot read the table back: "+err.Error(), desc)
				return
			}
			p = rt.Partitions[0]
		}
	} else if kind == "gpt" {
		p = &gpt.Partition{Index: 1 + r.Intn(128), Start: startSec, End: startSec + sizeSec - 1, Size: uint64(size), Type: gpt.LinuxFilesystem, Name: "hand"}
	} else {
		p = &mbr.Partition{Index: 1 + r.Intn(4), Type: mbr.Linux, Start: uint32(startSec), Size: uint32(sizeSec)}
	}
	spelling := "mbr"
	if q, ok := p.(*gpt.Partition); ok {
		switch r.Intn(9) {
		case 0, 1, 2:
			spelling = "start+end"
			q.Size = 0
		case 3, 4, 5, 6:
			spelling = "start+size"
			q.End = 0
		default:
			spelling = "all"
		}
	}
	var supplied int64
	supply := ""
	switch r.Intn(8) {
	case 0, 1:
		supply, supplied = "under", r.Int63n(size)
	case 2, 3:
		supply, supplied = "over.small", size+1+r.Int63n(int64(pss)-1)
	case 4, 5:
		supply, supplied = "over.multi", size+int64(2+r.Intn(6))*int64(pss)+r.Int63n(int64(pss))
	default:
		supply, supplied = "exact", size
	}
	np := r.Intn(8)
	pieces := make([]int, np)
	for j := range pieces {
		if r.Bool() {
			pieces[j] = 1 + r.Intn(9)
		} else {
			pieces[j] = 1 + r.Intn(pss)
		}
	}
	rd := &piecewise{data: r.Bytes(int(supplied)), pieces: pieces, eofNow: r.Bool()}
	sent := append([]byte(nil), rd.data...)
	desc = fmt.Sprintf("partition-value kind=%s stamped=%v lss=%d pss=%d spelling=%s startSec=%d sizeSec=%d range=[%d,%d) supplied=%d (%s) pieces=%v eofWithData=%v",
		kind, stamped, lss, pss, spelling, startSec, sizeSec, lo, hi, supplied, supply, pieces, rd.eofNow)

	const g = 16384
	glo := lo - g
	if glo < 0 {
		glo = 0
	}
	d.RawWrite(r.Bytes(int(lo-glo)), glo)
	d.RawWrite(r.Bytes(g+8*pss), hi)
	d.RawWrite(r.Bytes(int(size)), lo)
	before := d.Clone()
	d.ResetLog()
	d.Allowed = []memdev.Range{{Lo: lo, Hi: hi}}

	var problems []string
	// ReadContents on the value as handed (a GPT value whose Size was never set reads one chunk: only "writes nothing" is judged)
	sizeSet := true
	if q, ok := p.(*gpt.Partition); ok && q.Size == 0 {
		sizeSet = false
	}
	{
		var out bytes.Buffer
		rn, rerr := p.ReadContents(d, &out)
		if len(d.Log) != 0 {
			problems = append(problems, "ReadContents wrote to the device")
		}
		if sizeSet && (rerr != nil || rn != size || !bytes.Equal(out.Bytes(), before.Bytes(lo, int(size)))) {
			problems = append(problems, fmt.Sprintf("ReadContents returned n=%d len=%d err=%v, want exactly the %d bytes at %d", rn, out.Len(), rerr, size, lo))
		}
	}
	wn, werr := p.WriteContents(d, rd)
	if (werr == nil) != (supplied == size) {
		problems = append(problems, fmt.Sprintf("WriteContents err=%v but supplied=%d size=%d", werr, supplied, size))
	}
	if len(d.OutOfRange) > 0 {
		show := d.OutOfRange
		if len(show) > 4 {
			show = show[:4]
		}
		problems = append(problems, fmt.Sprintf("%d WriteAt(s) outside [%d,%d): first %v", len(d.OutOfRange), lo, hi, show))
	}
	if off := memdev.DiffOutside(before, d, lo, hi); off >= 0 {
		problems = append(problems, fmt.Sprintf("guard byte at %d changed", off))
	}
	if werr == nil && (int64(wn) != size || !bytes.Equal(d.Bytes(lo, int(size)), sent)) {
		problems = append(problems, fmt.Sprintf("WriteContents reported %d bytes for a partition of %d, or the partition's bytes differ from the supplied ones", wn, size))
	}
	if int64(wn) > size {
		problems = append(problems, fmt.Sprintf("WriteContents reported %d bytes written into a partition of %d", wn, size))
	}
	// after an accepted call the value is reconciled: ReadContents returns exactly the partition
	{
		nlog := len(d.Log)
		var out bytes.Buffer
		rn, rerr := p.ReadContents(d, &out)
		if len(d.Log) != nlog {
			problems = append(problems, "ReadContents wrote to the device")
		}
		if rerr != nil || rn != size || !bytes.Equal(out.Bytes(), d.Bytes(lo, int(size))) {
			problems = append(problems, fmt.Sprintf("after WriteContents: ReadContents returned n=%d len=%d err=%v, want exactly the %d bytes at %d", rn, out.Len(), rerr, size, lo))
		}
	}
	if len(problems) > 0 {
		c.Fail(id, "-", strings.Join(problems, "; "), desc)
	} else {
		c.OK(id)
	}
	c.Stat("partition-value")
	c.Stat("spelling=" + spelling)
	c.Stat("supply=" + strings.SplitN(supply, ".", 2)[0])
	c.Stat("partspell.supply=" + supply)
	if stamped {
		c.Stat(fmt.Sprintf("partspell.stamped/lss%d", lss))
	} else {
		c.Stat("partspell.hand-built")
	}
	if lo >= 1<<32 {
		c.Stat("partspell.start>=4GiB")
	}
	c.Distinct(desc)
	if spelling == "start+size" && strings.HasPrefix(supply, "over") {
		c.Sample(desc)
	}
}
