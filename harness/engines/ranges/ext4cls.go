package ranges

// ext4cls: the two-sided tie of the ext4 range theorems (Props/C03.lean, ext4 clause).  Real ext4 volumes are
// created with a spread of parameters, driven by the fill / dirgrow / churn scripts (fill until ENOSPC, top-up
// with one-block files), and EVERY WriteAt of the whole history is classified twice:
//   * here, against the image's own superblock and group descriptors (ext4common.ParseView: an independent
//     parser of what the real code put on the device): boot area / superblock copy / descriptor table copy /
//     reserved GDT block / block bitmap / inode bitmap / inode table / inode slot / data block run;
//   * by the Lean driver (`ranges.ext4`), against the layout the mkfs model computes from the parameters alone
//     (Model/RangesExt4.lean `classify` over Model/Ext4/Mkfs.lean `mkLayout`).
// The per-class counts, the number of writes ending at or below numBlocks*blockSize and the two layout
// predicates (`Fits`, `BackupsFit`) must agree; a write neither side can place (`out`) is an oracle failure.
// The oracle also replays the block bitmaps from the log: a data-class write must go to blocks that are marked
// in the bitmap as last written at that moment (ownership: `EvOk` of a `span` event).

import (
	"fmt"
	"sort"
	"strings"
	"sync"
	"time"

	"github.com/diskfs/go-diskfs/filesystem/ext4"

	x "verif/harness/engines/ext4common"
	"verif/harness/internal/hx"
	"verif/harness/internal/memdev"
)

const tagBackupGdt = "ext4-backup-gdt-past-end"
const tagJournalZero = "ext4-journal-zeroing-ignores-extents"

type e4case struct {
	cfg    x.Config
	script string
}

func e4cases(c *hx.Ctx) []e4case {
	f := x.B(false)
	const MiB = int64(1 << 20)
	all := []e4case{
		{x.Config{Size: 6 * MiB, Resize: f}, "fill"},
		{x.Config{Size: 10*MiB + 1536, Start: MiB}, "fill"},
		{x.Config{Size: 12 * MiB, Start: 512}, "dirgrow"},
		{x.Config{Size: 16 * MiB, SPB: 8, Resize: f, Start: 4<<30 + 4096}, "fill"},
		{x.Config{Size: 9 * MiB, Journal: f}, "churn"},
		{x.Config{Size: 24 * MiB, Resize: f, Flex: f, Start: 512}, "fill"},
		{x.Config{Size: 16 * MiB, BPG: 2048, Resize: f, Start: MiB}, "fill"},
		{x.Config{Size: 20*MiB + 3000, LogFlex: 1, Resize: f}, "churn"},
		{x.Config{Size: 16 * MiB, SPB: 4, Resize: f, Journal: f, Start: 512}, "dirgrow"},
		{x.Config{Size: 8*MiB + 1000, Start: MiB}, "fill"},
		{x.Config{Size: 17*MiB + 513, Start: 512}, "churn"},
		{x.Config{Size: 33 * MiB, Journal: f, Start: MiB}, "fill"},
		{x.Config{Size: 40*MiB + 512, Resize: f}, "fill"},
		{x.Config{Size: 16 * MiB, InodeRatio: 4096, Start: 512}, "fill"},
		{x.Config{Size: 16 * MiB, BPG: 4096, Resize: f, Flex: f, Journal: f, Start: MiB}, "fill"},
	}
	if c.Thorough() {
		return all
	}
	// quick: a seed-rotated third, always with the first (smallest) one
	var out []e4case
	for i, k := range all {
		if i == 0 || (i+int(c.Seed))%3 == 0 {
			out = append(out, k)
		}
	}
	return out
}

func e4hasSuper(g int) bool {
	if g == 0 || g == 1 {
		return true
	}
	for _, n := range []int{3, 5, 7} {
		for p := n; p <= g; p *= n {
			if p == g {
				return true
			}
		}
	}
	return false
}

// e4lay is the Go-side layout, read back from the image
type e4lay struct {
	v          *x.View
	bs, ds     int64
	gdtb, itb  int64
	ng         int
	flex       bool
	logFlex    int
	metaBlocks map[int64]bool
}

func newE4lay(v *x.View, flex bool, logFlex int) *e4lay {
	l := &e4lay{v: v, bs: int64(v.BlockSize), ds: 32, ng: len(v.Groups), flex: flex, logFlex: logFlex, metaBlocks: map[int64]bool{}}
	if v.Incompat&0x80 != 0 {
		l.ds = 64
	}
	l.gdtb = (int64(l.ng)*l.ds + l.bs - 1) / l.bs
	l.itb = (int64(v.IPG)*int64(v.InodeSize) + l.bs - 1) / l.bs
	for g := 0; g < l.ng; g++ {
		gs := int64(v.GroupStart(g))
		for b := gs; b < gs+l.meta(g); b++ {
			l.metaBlocks[b] = true
		}
		l.metaBlocks[int64(v.Groups[g].BlockBitmap)] = true
		l.metaBlocks[int64(v.Groups[g].InodeBitmap)] = true
		for b := int64(v.Groups[g].InodeTable); b < int64(v.Groups[g].InodeTable)+l.itb; b++ {
			l.metaBlocks[b] = true
		}
	}
	return l
}

func (l *e4lay) meta(g int) int64 {
	if e4hasSuper(g) {
		return 1 + l.gdtb + int64(l.v.ReservedGDT)
	}
	return 0
}

func (l *e4lay) blocksInGroup(g int) int64 {
	gs := int64(l.v.GroupStart(g))
	rem := int64(l.v.BlocksCount) - gs
	if rem < 0 {
		rem = 0
	}
	if rem > int64(l.v.BPG) {
		rem = int64(l.v.BPG)
	}
	return rem
}

// fits / backupsFit: the two layout predicates of the Lean model, recomputed from the image's own numbers
func (l *e4lay) fits() bool {
	fsz := 1
	if l.flex {
		lf := l.logFlex
		if lf == 0 {
			lf = 3
		}
		fsz = 1 << lf
	}
	for g := 0; g < l.ng; g++ {
		if l.flex {
			if g%fsz != 0 {
				continue
			}
			n := fsz
			if l.ng-g < n {
				n = l.ng - g
			}
			if l.meta(g)+int64(n)*(2+l.itb) > l.blocksInGroup(g) {
				return false
			}
		} else if l.meta(g)+2+l.itb > l.blocksInGroup(g) {
			return false
		}
	}
	return true
}

func (l *e4lay) backupsFit() bool {
	for g := 0; g < l.ng; g++ {
		if e4hasSuper(g) && 1+l.gdtb > l.blocksInGroup(g) {
			return false
		}
	}
	return true
}

// classify one WriteAt (offset relative to the filesystem start); the order of the tests is the model's
func (l *e4lay) classify(off, ln int64) string {
	v := l.v
	switch {
	case ln == 0:
		return "zero"
	case off+ln <= 1024:
		return "boot"
	}
	for g := 0; g < l.ng; g++ {
		if !e4hasSuper(g) {
			continue
		}
		so := int64(v.GroupStart(g)) * l.bs
		if g == 0 {
			so = 1024
		}
		if off == so && ln == 1024 {
			return "sb"
		}
	}
	for g := 0; g < l.ng; g++ {
		if e4hasSuper(g) && off == (int64(v.GroupStart(g))+1)*l.bs && ln == int64(l.ng)*l.ds {
			return "gdt"
		}
	}
	for g := 0; g < l.ng; g++ {
		if off == int64(v.Groups[g].BlockBitmap)*l.bs && ln == l.bs {
			return "bbm"
		}
	}
	for g := 0; g < l.ng; g++ {
		if off == int64(v.Groups[g].InodeBitmap)*l.bs && (ln == int64(v.IPG)/8 || ln == l.bs) {
			return "ibm"
		}
	}
	for g := 0; g < l.ng; g++ {
		if off == int64(v.Groups[g].InodeTable)*l.bs && ln == l.itb*l.bs {
			return "itab"
		}
	}
	if ln == int64(v.InodeSize) {
		for g := 0; g < l.ng; g++ {
			t := int64(v.Groups[g].InodeTable) * l.bs
			if t <= off && off+ln <= t+int64(v.IPG)*int64(v.InodeSize) && (off-t)%int64(v.InodeSize) == 0 {
				return "inode"
			}
		}
	}
	rs := int64(v.GroupStart(0)) + 1 + l.gdtb
	if ln == l.bs && off%l.bs == 0 && rs <= off/l.bs && off/l.bs < rs+int64(v.ReservedGDT) {
		return "rsv"
	}
	b0, b1 := off/l.bs, (off+ln-1)/l.bs
	if b1 >= int64(v.BlocksCount) {
		return "out"
	}
	for b := b0; b <= b1; b++ {
		if l.metaBlocks[b] {
			return "out"
		}
	}
	return "data"
}

var e4classes = []string{"zero", "boot", "sb", "gdt", "rsv", "bbm", "ibm", "itab", "inode", "data", "out"}

func e4createOn(d *memdev.Dev, cfg x.Config) (fs *ext4.FileSystem, err error) {
	defer func() {
		if e := recover(); e != nil {
			err = fmt.Errorf("panic: %v", e)
		}
	}()
	return ext4.Create(d, cfg.Size, cfg.Start, 512, cfg.Params())
}

func e4modelArgs(cfg x.Config) []string {
	b2i := func(b bool) int {
		if b {
			return 1
		}
		return 0
	}
	return []string{fmt.Sprintf("size=%d", cfg.Size), fmt.Sprintf("spb=%d", cfg.SPB), fmt.Sprintf("bpg=%d", cfg.BPG),
		fmt.Sprintf("iratio=%d", cfg.InodeRatio), fmt.Sprintf("icount=%d", cfg.InodeCount), fmt.Sprintf("logflex=%d", cfg.LogFlex),
		fmt.Sprintf("resize=%d", b2i(x.On(cfg.Resize, true))), fmt.Sprintf("flex=%d", b2i(x.On(cfg.Flex, true))), fmt.Sprintf("bit64=%d", b2i(x.On(cfg.Bit64, true)))}
}

type e4pair struct{ off, ln int64 }

// e4tie emits the correspondence case for the write log of d and returns the Go-side classes per log entry
func e4tie(c *hx.Ctx, id string, cfg x.Config, d *memdev.Dev, l *e4lay) map[string]int {
	counts := map[string]int{}
	multi := map[e4pair]int{}
	var order []e4pair
	inside := 0
	limit := int64(l.v.BlocksCount) * l.bs
	for _, e := range d.Log {
		if e.Sync {
			continue
		}
		p := e4pair{e.Off - cfg.Start, int64(e.Len)}
		if multi[p] == 0 {
			order = append(order, p)
		}
		multi[p]++
	}
	// the case line carries at most 6000 distinct (offset, length) pairs: the first ones in log order
	if len(order) > 6000 {
		c.Stat("ext4cls.truncated")
		order = order[:6000]
	}
	var ws []string
	for _, p := range order {
		n := multi[p]
		counts[l.classify(p.off, p.ln)] += n
		if p.off >= 0 && p.off+p.ln <= limit {
			inside += n
		}
		ws = append(ws, fmt.Sprintf("%d:%d:%d", p.off, p.ln, n))
	}
	args := append(e4modelArgs(cfg), "ws="+strings.Join(ws, ","))
	c.Case(id, "ranges.ext4", args...)
	var res []string
	for _, k := range e4classes {
		res = append(res, fmt.Sprintf("%s=%d", k, counts[k]))
	}
	b2i := func(b bool) int {
		if b {
			return 1
		}
		return 0
	}
	res = append(res, fmt.Sprintf("inside=%d", inside), fmt.Sprintf("fits=%d", b2i(l.fits())), fmt.Sprintf("bfit=%d", b2i(l.backupsFit())))
	c.Impl(id, res...)
	return counts
}

// e4ownership replays the block bitmaps from the log: a data-class write must go to blocks marked in the
// bitmap of their group as it was last written
func e4ownership(cfg x.Config, d *memdev.Dev, l *e4lay) (bad []string, checked int) {
	v := l.v
	bitmaps := map[int][]byte{}
	bbmAt := map[int64]int{}
	for g := 0; g < l.ng; g++ {
		bbmAt[int64(v.Groups[g].BlockBitmap)*l.bs] = g
	}
	for _, e := range d.Log {
		if e.Sync || e.Len == 0 {
			continue
		}
		off, ln := e.Off-cfg.Start, int64(e.Len)
		switch l.classify(off, ln) {
		case "bbm":
			bitmaps[bbmAt[off]] = e.Data
		case "data":
			for b := off / l.bs; b <= (off+ln-1)/l.bs; b++ {
				rel := b - int64(v.FirstDataBlock)
				g, bit := int(rel/int64(v.BPG)), rel%int64(v.BPG)
				bm, ok := bitmaps[g]
				if !ok || int(bit/8) >= len(bm) {
					continue
				}
				checked++
				if bm[bit/8]&(1<<(uint(bit)%8)) == 0 && len(bad) < 5 {
					bad = append(bad, fmt.Sprintf("WriteAt [%d,%d) touches block %d (group %d bit %d) which the block bitmap as last written does not mark", off, off+ln, b, g, bit))
				}
			}
		}
	}
	return bad, checked
}

func ext4Cls(c *hx.Ctx, rng *hx.Rng) {
	var wg sync.WaitGroup
	sem := make(chan struct{}, 4)
	for i, k := range e4cases(c) {
		id := fmt.Sprintf("e4/%d", i)
		r := rng.Fork()
		if !c.Want(id) {
			continue
		}
		wg.Add(1)
		sem <- struct{}{}
		go func(id string, k e4case, r *hx.Rng) {
			defer wg.Done()
			defer func() { <-sem }()
			cfg := k.cfg
			desc := fmt.Sprintf("ext4cls %s script=%s", cfg.String(), k.script)
			defer func() {
				if e := recover(); e != nil {
					c.Fail(id, "-", fmt.Sprintf("harness/library panic: %v", e), desc)
				}
			}()
			d := memdev.New(cfg.Start + cfg.Size + guard)
			d.KeepData = true
			d.RawWrite(r.Bytes(guard), cfg.Start+cfg.Size)
			before := d.Clone()
			d.Allowed = []memdev.Range{{Lo: cfg.Start, Hi: cfg.Start + cfg.Size}}
			fsys, err := e4createOn(d, cfg)
			if err != nil {
				c.Stat("ext4cls.create-refused")
				c.Note("ext4cls: Create refused %s: %v", cfg.String(), err)
				checkRange(c, id, fsCase{kind: "ext4", size: cfg.Size, start: cfg.Start, bs: 512, script: k.script}, d, before, "create refused: "+err.Error())
				return
			}
			createLen := len(d.Log)
			deadline := time.Now().Add(time.Duration(c.N(6, 45)) * time.Second)
			ops := 0
			func() {
				defer func() {
					if e := recover(); e != nil {
						c.Stat("library-panic/ext4cls")
						c.Note("library panic during %s: %v", desc, e)
					}
				}()
				ops, _ = runScript(c, r, fsCase{kind: "ext4", script: k.script}, fsys, deadline)
			}()
			v, verr := x.ParseView(d, cfg.Start)
			if verr != nil {
				c.Fail(id, "-", "superblock unreadable after the history: "+verr.Error(), desc)
				return
			}
			l := newE4lay(v, x.On(cfg.Flex, true), cfg.LogFlex)
			counts := e4tie(c, id, cfg, d, l)
			c.StatN("ext4cls.writes", len(d.Log))
			c.StatN("ext4cls.ops", ops)
			for _, kcls := range e4classes {
				if counts[kcls] > 0 {
					c.StatN("ext4cls.class="+kcls, counts[kcls])
				}
			}
			c.Stat("ext4cls.script=" + k.script)
			c.Distinct("ext4cls|" + cfg.String() + "|" + k.script)
			c.Sample(fmt.Sprintf("%s ops=%d writes=%d data=%d inode=%d bbm=%d", desc, ops, len(d.Log), counts["data"], counts["inode"], counts["bbm"]))
			var problems []string
			tag := ""
			if counts["out"] > 0 {
				var ex []string
				journalZero := x.On(cfg.Journal, true)
				for i, e := range d.Log {
					if e.Sync || l.classify(e.Off-cfg.Start, int64(e.Len)) != "out" {
						continue
					}
					if len(ex) < 4 {
						ex = append(ex, fmt.Sprintf("[%d,%d)", e.Off-cfg.Start, e.Off-cfg.Start+int64(e.Len)))
					}
					// finding ext4-journal-zeroing-ignores-extents: a chunk of zeros of at most 1 MiB written by Create (initJournal),
					// inside the volume, running over blocks that are not the journal's
					if !(i < createLen && e.Len <= 1<<20 && e.Off-cfg.Start+int64(e.Len) <= int64(v.BlocksCount)*l.bs && allZero(e.Data)) {
						journalZero = false
					}
				}
				if journalZero {
					tag = tagJournalZero
				}
				problems = append(problems, fmt.Sprintf("%d WriteAt(s) belong to no structure of the volume (not a superblock/GDT copy, bitmap, inode table slot or a run of data blocks below the block count: they run over metadata blocks): %v", counts["out"], ex))
			}
			bad, checked := e4ownership(cfg, d, l)
			c.StatN("ext4cls.owned-blocks-checked", checked)
			problems = append(problems, bad...)
			if len(d.OutOfRange) > 0 {
				problems = append(problems, fmt.Sprintf("%d WriteAt(s) outside [start,start+size): first %v", len(d.OutOfRange), d.OutOfRange[0]))
			}
			if off := memdev.DiffOutside(before, d, cfg.Start, cfg.Start+cfg.Size); off >= 0 {
				problems = append(problems, fmt.Sprintf("guard byte at %d changed", off))
			}
			if len(problems) > 0 {
				if t := e4tag(cfg, d, l); t != "-" || tag == "" || len(problems) > 1 {
					tag = t
				}
				c.Fail(id, tag, strings.Join(problems, "; "), desc)
				return
			}
			c.OK(id)
		}(id, k, r)
	}
	wg.Wait()
	e4gdtReplay(c)
}

// e4tag: ext4-backup-gdt-past-end applies when some backup group cannot hold its superblock + GDT copy and every
// stray write is exactly such a GDT copy
func e4tag(cfg x.Config, d *memdev.Dev, l *e4lay) string {
	if len(d.OutOfRange) == 0 || l.backupsFit() {
		return "-"
	}
	okOff := map[int64]bool{}
	sbOff := map[int64]bool{}
	for g := 0; g < l.ng; g++ {
		if e4hasSuper(g) && 1+l.gdtb > l.blocksInGroup(g) {
			okOff[(int64(l.v.GroupStart(g))+1)*l.bs] = true
			sbOff[int64(l.v.GroupStart(g))*l.bs] = true
		}
	}
	limit := cfg.Start + int64(l.v.BlocksCount)*l.bs
	for _, e := range d.Log {
		if e.Sync || e.Off+int64(e.Len) <= limit {
			continue
		}
		if sbOff[e.Off-cfg.Start] && e.Len == 1024 { // the superblock copy of a backup group of no blocks
			continue
		}
		if !okOff[e.Off-cfg.Start] || int64(e.Len) != int64(l.ng)*l.ds {
			return "-"
		}
	}
	return tagBackupGdt
}

// e4gdtReplay: the witness of ext4-backup-gdt-past-end — 73730 blocks of 1 KiB: ten groups, group 9 (3*3, a backup
// group) has one block; writeGDT puts its descriptor-table copy at block 73730, the first byte behind the volume
func e4gdtReplay(c *hx.Ctx) {
	if !c.Want("e4/gdt") {
		return
	}
	cfg := x.Config{Size: 73730 * 1024, Start: 512}
	d := memdev.New(cfg.Start + cfg.Size + guard)
	d.KeepData = false
	d.Allowed = []memdev.Range{{Lo: cfg.Start, Hi: cfg.Start + cfg.Size}}
	fsys, err := e4createOn(d, cfg)
	if err == nil {
		err = safely(func() error { return fsys.Mkdir("a") })
	}
	v, verr := x.ParseView(d, cfg.Start)
	if verr != nil {
		c.Known(tagBackupGdt, false, fmt.Sprintf("witness volume not created: %v / %v", err, verr))
		return
	}
	l := newE4lay(v, true, 0)
	stray := 0
	var first memdev.Range
	for _, o := range d.OutOfRange {
		if stray == 0 {
			first = o
		}
		stray++
	}
	reproduced := stray > 0 && e4tag(cfg, d, l) == tagBackupGdt
	c.Known(tagBackupGdt, reproduced, fmt.Sprintf("ext4.Create(size=73730 KiB, start=512)+Mkdir: %d WriteAt(s) beyond start+size, first [%d,%d) = volume-relative [%d,%d) with numBlocks*bs=%d (err=%v)",
		stray, first.Lo, first.Hi, first.Lo-cfg.Start, first.Hi-cfg.Start, int64(v.BlocksCount)*l.bs, err))
	// the correspondence holds on the witness too: the model places the same writes behind the volume
	id := "e4/gdt"
	counts := e4tie(c, id, cfg, d, l)
	_ = counts
	c.Stat("ext4cls.gdt-witness")
	c.OK(id)
}

var _ = sort.Ints

func allZero(b []byte) bool {
	if b == nil {
		return false
	}
	for _, x := range b {
		if x != 0 {
			return false
		}
	}
	return true
}
