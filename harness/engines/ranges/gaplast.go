package ranges

// Gap writes on the file that owns the LAST data cluster of a full FAT volume (oracle only, no model
// line). A Write that starts past the end of a file zero-fills the gap (fat12 File.zeroRange); when the
// old end of file lies inside the last data cluster of the volume and nothing follows the data area (FAT32
// with one-sector clusters: the data area ends where the volume ends), a zero-fill chunk that is longer
// than the rest of its cluster leaves [start,start+size). The matrix scripts never get there: their gap
// writes ("churn") run on nearly empty volumes, their full volumes ("fill") are never written at a gap.
//
// Per volume: one big file written until the library refuses, then one-cluster files of odd sizes until
// it refuses again; the file whose content landed highest on the device (and the last one that was
// accepted, if another) then gets: a gap write inside its cluster (no allocation needed: accepted), a gap
// write far past its cluster (no space: refused) and, after one other file was removed, the same again
// (accepted: the zero-fill runs from the old end through the tail of the last cluster into the freed
// one). Every WriteAt must stay inside [start,start+size) whatever the verdicts. FAT12/FAT16 volumes,
// where sectors follow the last whole cluster, run the same script and must stay quiet too.
// Stat keys fat.gap_write_at_last_cluster[.<detail>].

import (
	"fmt"
	"io"
	"os"

	"verif/harness/internal/hx"
	"verif/harness/internal/memdev"
)

func gapAtLastCluster(c *hx.Ctx, r *hx.Rng) {
	type cfg struct {
		kind     string
		size, bs int64
	}
	cfgs := []cfg{
		{"fat32", 1<<20 + 1536, 512}, {"fat32", 3 << 20, 512}, {"fat32", 2<<20 + 512, 512},
		{"fat12", 700*1024 + 512, 512}, {"fat16", 20<<20 + 7*512, 512}, {"fat12", 3<<20 + 1536, 512},
	}
	if c.Thorough() {
		cfgs = append(cfgs, cfg{"fat32", 34<<20 + 3*512, 512}, cfg{"fat32", 5<<20 + 2560, 512}, cfg{"fat16", 17 << 20, 512}, cfg{"fat12", 1474560, 512}, cfg{"fat32", 40 << 20, 4096})
	}
	n := 0
	for ci, k := range cfgs {
		for si, start := range starts {
			// quick: every FAT32 volume at two starts (seed-rotated), the FAT12/16 ones at one
			if !c.Thorough() {
				if k.kind == "fat32" && (ci+si+int(c.Seed))%2 != 0 {
					continue
				}
				if k.kind != "fat32" && (ci+si+int(c.Seed))%4 != 0 {
					continue
				}
			}
			id := fmt.Sprintf("gl%d", n)
			n++
			if !c.Want(id) {
				continue
			}
			gapOne(c, id, fsCase{kind: k.kind, size: k.size, start: start, bs: k.bs, script: "gap-at-last-cluster"}, r.Fork())
		}
	}
}

func gapOne(c *hx.Ctx, id string, k fsCase, r *hx.Rng) {
	d := memdev.New(k.start + k.size + guard)
	d.KeepData = false
	d.RawWrite(r.Bytes(guard), k.start+k.size)
	lo := k.start - guard
	if lo < 0 {
		lo = 0
	}
	if k.start > 0 {
		d.RawWrite(r.Bytes(int(k.start-lo)), lo)
	}
	before := d.Clone()
	d.Allowed = []memdev.Range{{Lo: k.start, Hi: k.start + k.size}}
	var steps []string
	defer func() {
		if x := recover(); x != nil {
			// a panic is another property's matter; the range check still applies
			c.Stat("library-panic/" + k.kind)
			c.Note("library panic during %s after %v: %v", k, steps, x)
			checkRange(c, id, k, d, before, fmt.Sprintf("steps=%v (panic: %v)", steps, x))
		}
	}()
	fsys, err := create(k, d)
	if err != nil {
		c.Stat("create-refused/" + k.kind)
		checkRange(c, id, k, d, before, "create refused: "+err.Error())
		return
	}
	bsec := d.Bytes(k.start, 512)
	bpc := (int64(bsec[11]) | int64(bsec[12])<<8) * int64(bsec[13])
	if bpc < 16 {
		c.Fail(id, "-", fmt.Sprintf("boot sector announces %d bytes per cluster", bpc), k.String())
		return
	}
	// 1. one big file that leaves about 48 clusters free (fewer if the library refuses earlier)
	u16 := func(o int) int64 { return int64(bsec[o]) | int64(bsec[o+1])<<8 }
	u32 := func(o int) int64 { return u16(o) | u16(o+2)<<16 }
	spf, total := u16(22), u16(19)
	if spf == 0 {
		spf = u32(36)
	}
	if total == 0 {
		total = u32(32)
	}
	dataOff := (u16(14)+int64(bsec[16])*spf)*u16(11) + (u16(17)*32+u16(11)-1)/u16(11)*u16(11)
	clusters := (total*u16(11) - dataOff) / bpc
	if f, err := fsys.OpenFile("BIG.BIN", os.O_CREATE|os.O_RDWR); err == nil {
		chunk := make([]byte, 16*bpc)
		for left := (clusters - 48) * bpc; left > 0; left -= int64(len(chunk)) {
			if left < int64(len(chunk)) {
				chunk = chunk[:left]
			}
			if _, err := f.Write(chunk); err != nil {
				break
			}
		}
		f.Close()
	}
	// 2. one-cluster files of odd sizes until the library refuses three times in a row
	type small struct {
		name string
		size int64
		at   int64 // device offset of its content
	}
	var files []small
	misses := 0
	for i := 0; i < 4000 && misses < 3; i++ {
		sz := 1 + int64(r.Intn(int(bpc-8)))
		if sz%512 == 0 {
			sz++
		}
		name := fmt.Sprintf("S%04d.BIN", i)
		mark := len(d.Log)
		if err := writeFile(fsys, name, r.Bytes(int(sz))); err != nil {
			misses++
			if os.Getenv("VERIF_C03_DEBUG") != "" {
				fmt.Fprintf(os.Stderr, "gap: %s small file %s (%d bytes) refused: %v\n", k, name, sz, err)
			}
			_ = fsys.Remove(name) // an entry without content may have been left
			continue
		}
		misses = 0
		at := int64(-1)
		for _, e := range d.Log[mark:] {
			if !e.Sync && int64(e.Len) == sz {
				at = e.Off
			}
		}
		files = append(files, small{name, sz, at})
	}
	if len(files) < 3 {
		c.Stat("fat.gap_write_at_last_cluster.volume-not-filled")
		checkRange(c, id, k, d, before, "fewer than three small files fitted")
		return
	}
	top := len(files) - 1
	for i, f := range files {
		if f.at > files[top].at {
			top = i
		}
	}
	targets := []int{top}
	if top != len(files)-1 {
		targets = append(targets, len(files)-1)
		c.Stat("fat.gap_write_at_last_cluster.last-accepted-is-not-highest")
	}
	end := files[top].at + bpc // end of the cluster that holds the highest content
	switch {
	case files[top].at < 0:
		c.Stat("fat.gap_write_at_last_cluster.content-write-not-seen")
	case end == k.start+k.size:
		c.Stat("fat.gap_write_at_last_cluster.volume-ends-with-the-cluster/" + k.kind)
	case end > k.start+k.size:
		c.Stat("fat.gap_write_at_last_cluster.cluster-past-volume-end/" + k.kind)
	default:
		c.Stat("fat.gap_write_at_last_cluster.slack-behind/" + k.kind)
	}
	gapWrite := func(f small, off int64, n int) (int64, error) {
		h, err := fsys.OpenFile(f.name, os.O_RDWR)
		if err != nil {
			return f.size, err
		}
		defer h.Close()
		if _, err := h.Seek(off, io.SeekStart); err != nil {
			return f.size, err
		}
		_, err = h.Write(r.Bytes(n))
		if fi, e2 := fsys.Stat(f.name); e2 == nil {
			return fi.Size(), err
		}
		return f.size, err
	}
	verdict := func(what string, err error) {
		v := "accepted"
		if err != nil {
			v = "refused"
		}
		steps = append(steps, what+"="+v)
		c.Stat("fat.gap_write_at_last_cluster." + what + "." + v)
	}
	removed := false
	for ti, t := range targets {
		f := files[t]
		// inside the cluster: old EOF unaligned, the gap and the data end before the cluster does
		room := bpc - f.size
		if room >= 3 {
			gap := 1 + int64(r.Intn(int(room-2)))
			sz, err := gapWrite(f, f.size+gap, 1+r.Intn(int(room-gap-1)))
			verdict("gap-inside-cluster", err)
			f.size = sz
		}
		// far past the cluster on the full volume
		sz, err := gapWrite(f, f.size+3*bpc+int64(r.Intn(700)), 1+r.Intn(900))
		verdict("gap-past-cluster-full", err)
		f.size = sz
		// one other file removed: the extension finds a cluster, the zero-fill crosses the cluster end
		if !removed {
			for j := range files {
				if j != top && j != len(files)-1 {
					if fsys.Remove(files[j].name) == nil {
						removed = true
						break
					}
				}
			}
		}
		if removed && ti == 0 {
			sz, err = gapWrite(f, f.size+bpc/2+int64(r.Intn(int(bpc/4))), 1+r.Intn(20))
			verdict("gap-into-freed-cluster", err)
			f.size = sz
		}
		files[t] = f
	}
	c.Stat("fat.gap_write_at_last_cluster")
	c.Stat("kind=" + k.kind)
	checkRange(c, id, k, d, before, fmt.Sprintf("target %s content at %d, cluster %d bytes, volume ends at %d; steps=%v", files[top].name, files[top].at, bpc, k.start+k.size, steps))
	c.Distinct(k.String())
	c.Sample(fmt.Sprintf("%s small-files=%d steps=%v", k, len(files), steps))
}
