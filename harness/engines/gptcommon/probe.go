package gptcommon

import (
	"encoding/binary"
	"fmt"
	"hash/crc32"
	"strings"

	"github.com/diskfs/go-diskfs/partition/gpt"
	"github.com/diskfs/go-diskfs/partition/mbr"

	"verif/harness/internal/memdev"
)

// Cfg says which known defects the code under test no longer exhibits (true = repaired). It is
// passed to the Lean model (`cfg=abcd`) so that the model is compared bit for bit with the code as it is.
type Cfg struct {
	NameUnitCheck, PMBRClamp, MinDiskCheck, ArrayBounded, PMBRLast bool
}

func (c Cfg) String() string {
	b := func(x bool) byte {
		if x {
			return '1'
		}
		return '0'
	}
	return string([]byte{b(c.NameUnitCheck), b(c.PMBRClamp), b(c.MinDiskCheck), b(c.ArrayBounded), b(c.PMBRLast)})
}

const guidA = "5CA3360B-5DE6-4FCF-B4CE-419CEE433B51"
const guidB = "7F8AF2A9-1B1E-4A5E-9D4E-3C0E0A9B8F11"

// Probe is the outcome of replaying one finding's witness on the real code.
type Probe struct {
	Reproduced bool
	Msg        string
}

func safely(f func() error) (err error, panicked any) {
	defer func() {
		if e := recover(); e != nil {
			panicked = e
		}
	}()
	return f(), nil
}

// ProbeNameOverflow: 19 runes outside the BMP are 38 UTF-16 units; toBytes checks the rune count only.
func ProbeNameOverflow() Probe {
	name := strings.Repeat("\U0001F600", 19)
	d := memdev.New(1 << 20)
	t := &gpt.Table{LogicalSectorSize: 512, PhysicalSectorSize: 512, ProtectiveMBR: true, GUID: guidA,
		Partitions: []*gpt.Partition{{Index: 1, Start: 2048, End: 2049, Type: gpt.LinuxFilesystem, GUID: guidB, Name: name}}}
	err, p := safely(func() error { return t.Write(d, 1<<20) })
	switch {
	case p != nil:
		return Probe{true, fmt.Sprintf("Table.Write with a name of 19 non-BMP runes (38 UTF-16 units) panics: %v", p)}
	case err != nil:
		return Probe{false, "Write refuses the over-long name: " + err.Error()}
	default:
		return Probe{true, "Table.Write accepted a name of 38 UTF-16 units without error"}
	}
}

// ProbePMBRSize: on a disk of more than 2^32 sectors the protective MBR's size field must be 0xFFFFFFFF.
func ProbePMBRSize() Probe {
	size := int64(3) << 40 // 3 TiB, 512-byte sectors: 6442450944 sectors
	d := memdev.New(size)
	t := &gpt.Table{LogicalSectorSize: 512, PhysicalSectorSize: 512, ProtectiveMBR: true, GUID: guidA}
	err, p := safely(func() error { return t.Write(d, size) })
	if p != nil || err != nil {
		return Probe{false, fmt.Sprintf("write on a 3 TiB disk failed: %v %v", err, p)}
	}
	got := binary.LittleEndian.Uint32(d.Bytes(446+12, 4))
	if got == 0xFFFFFFFF {
		return Probe{false, "size field is 0xFFFFFFFF"}
	}
	return Probe{true, fmt.Sprintf("3 TiB disk (6442450944 sectors): protective MBR SizeInLBA=%d (uint32 truncation of the last LBA), UEFI requires 0xFFFFFFFF", got)}
}

// ProbeMinDisk: a 40-sector disk cannot hold two 32-sector entry arrays; Write must refuse it.
func ProbeMinDisk() Probe {
	size := int64(40 * 512)
	d := memdev.New(size)
	t := &gpt.Table{LogicalSectorSize: 512, PhysicalSectorSize: 512, ProtectiveMBR: true, GUID: guidA,
		Partitions: []*gpt.Partition{{Index: 1, Start: 34, End: 34, Type: gpt.LinuxFilesystem, GUID: guidB, Name: "x"}}}
	err, p := safely(func() error { return t.Write(d, size) })
	if p != nil {
		return Probe{true, fmt.Sprintf("write on a 40-sector disk panicked: %v", p)}
	}
	if err != nil {
		return Probe{false, "Write refuses the disk: " + err.Error()}
	}
	_, bad := ValidateGPT(d, size, 512, true)
	if len(bad) == 0 {
		return Probe{false, "a 40-sector disk was accepted and is valid"}
	}
	return Probe{true, "Write accepted a 40-sector disk (needs 67); independent validation: " + strings.Join(bad, "; ")}
}

// PatchHeader overwrites a little-endian field of the GPT header in sector lba and optionally recomputes the header CRC.
func PatchHeader(d *memdev.Dev, lss int, lba int64, off, width int, val uint64, fixCRC bool) {
	sec := d.Bytes(lba*int64(lss), lss)
	switch width {
	case 4:
		binary.LittleEndian.PutUint32(sec[off:], uint32(val))
	case 8:
		binary.LittleEndian.PutUint64(sec[off:], val)
	case 1:
		sec[off] = byte(val)
	}
	if fixCRC {
		copy(sec[16:20], []byte{0, 0, 0, 0})
		binary.LittleEndian.PutUint32(sec[16:20], crc32.ChecksumIEEE(sec[0:92]))
	}
	d.RawWrite(sec, lba*int64(lss))
}

// SmallValidImage writes a valid two-partition GPT to a fresh device.
func SmallValidImage(size int64, lss int) (*memdev.Dev, error) {
	d := memdev.New(size)
	first := uint64(2 + 16384/lss)
	t := &gpt.Table{LogicalSectorSize: lss, PhysicalSectorSize: lss, ProtectiveMBR: true, GUID: guidA,
		Partitions: []*gpt.Partition{
			{Index: 1, Start: first, End: first + 3, Type: gpt.LinuxFilesystem, GUID: guidB, Name: "one"},
			{Index: 2, Start: first + 4, End: first + 9, Type: gpt.EFISystemPartition, GUID: "7F8AF2A9-1B1E-4A5E-9D4E-3C0E0A9B8F12", Name: "two"}}}
	if err := t.Write(d, size); err != nil {
		return nil, err
	}
	d.ResetLog()
	return d, nil
}

// ProbeArrayBound (in-process part): entry count and entry size 0xFFFFFFFF with a matching header CRC make
// count*size negative as an int; as found `make` panics (recoverable), repaired the header is refused.
func ProbeArrayBound() Probe {
	d, err := SmallValidImage(1<<20, 512)
	if err != nil {
		return Probe{false, "cannot build image: " + err.Error()}
	}
	PatchHeader(d, 512, 1, 80, 4, 0xFFFFFFFF, false)
	PatchHeader(d, 512, 1, 84, 4, 0xFFFFFFFF, true)
	var rerr error
	_, p := safely(func() error { _, e := gpt.Read(d, 512, 512); rerr = e; return e })
	if p != nil {
		return Probe{true, fmt.Sprintf("header with entry count = entry size = 0xFFFFFFFF and a valid CRC: gpt.Read panics: %v", p)}
	}
	_ = rerr
	return Probe{false, "gpt.Read returned without panic"}
}

// ProbeMBRIndex: slots are filled by position in the slice, not by Partition.Index.
func ProbeMBRIndex() Probe {
	d := memdev.New(1 << 20)
	t := &mbr.Table{LogicalSectorSize: 512, PhysicalSectorSize: 512,
		Partitions: []*mbr.Partition{{Index: 3, Type: mbr.Linux, Start: 256, Size: 16}}}
	if err := t.Write(d, 1<<20); err != nil {
		return Probe{false, "write failed: " + err.Error()}
	}
	rt, err := mbr.Read(d, 512, 512)
	if err != nil {
		return Probe{false, "read failed: " + err.Error()}
	}
	for _, p := range rt.Partitions {
		if p.Start == 256 && p.Size == 16 {
			if p.Index == 3 {
				return Probe{false, "partition reads back with index 3"}
			}
			return Probe{true, fmt.Sprintf("a partition written with Index 3 reads back as index %d (slots are filled by slice position)", p.Index)}
		}
	}
	return Probe{true, "the partition written with Index 3 is not found when reading back"}
}

// ProbeMBRExtra: a fifth partition is dropped without an error.
func ProbeMBRExtra() Probe {
	d := memdev.New(1 << 20)
	var ps []*mbr.Partition
	for i := 0; i < 5; i++ {
		ps = append(ps, &mbr.Partition{Index: i + 1, Type: mbr.Linux, Start: uint32(64 + 32*i), Size: 32})
	}
	t := &mbr.Table{LogicalSectorSize: 512, PhysicalSectorSize: 512, Partitions: ps}
	err, p := safely(func() error { return t.Write(d, 1<<20) })
	if p != nil {
		return Probe{true, fmt.Sprintf("write of 5 partitions panicked: %v", p)}
	}
	if err != nil {
		return Probe{false, "Write refuses five partitions: " + err.Error()}
	}
	return Probe{true, "Write accepted a table with 5 partitions and returned nil; the fifth (start 192) is not on disk"}
}

// ProbePMBROrder reports whether Table.Write makes the protective MBR durable before the GPT copies (as found)
// or after them.
func ProbePMBROrder() (pmbrLast bool, msg string) {
	d := memdev.New(1 << 20)
	t := &gpt.Table{LogicalSectorSize: 512, PhysicalSectorSize: 512, ProtectiveMBR: true, GUID: guidA}
	if err, p := safely(func() error { return t.Write(d, 1<<20) }); err != nil || p != nil {
		return false, fmt.Sprintf("write failed: %v %v", err, p)
	}
	var offs []int64
	for _, e := range d.Log {
		if !e.Sync {
			offs = append(offs, e.Off)
		}
	}
	if len(offs) > 0 && offs[len(offs)-1] == 446 {
		return true, "the protective MBR is the last write"
	}
	return false, fmt.Sprintf("write offsets in order: %v", offs)
}

// ProbeCfg determines the defect switches for the model from the four GPT probes.
func ProbeCfg() (Cfg, map[string]Probe) {
	ps := map[string]Probe{
		"gpt-name-utf16-overflow":  ProbeNameOverflow(),
		"gpt-pmbr-size-truncated":  ProbePMBRSize(),
		"gpt-no-min-disk-size":     ProbeMinDisk(),
		"gpt-array-size-unbounded": ProbeArrayBound(),
	}
	return Cfg{
		NameUnitCheck: !ps["gpt-name-utf16-overflow"].Reproduced,
		PMBRClamp:     !ps["gpt-pmbr-size-truncated"].Reproduced,
		MinDiskCheck:  !ps["gpt-no-min-disk-size"].Reproduced,
		ArrayBounded:  !ps["gpt-array-size-unbounded"].Reproduced,
		PMBRLast:      func() bool { l, _ := ProbePMBROrder(); return l }(),
	}, ps
}
