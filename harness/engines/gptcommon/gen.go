package gptcommon

import (
	"strings"
	"unicode/utf16"

	"verif/harness/internal/hx"
)

// Expect is a partition as it has to read back.
type Expect struct {
	Index            int
	Start, End, Size uint64
	Type, GUID       [16]byte
	AnyGUID          bool // GUID was left blank: any non-zero GUID is fine
	Attrs            uint64
	Name             string
}

var knownTypes = []string{
	"C12A7328-F81F-11D2-BA4B-00A0C93EC93B", "0FC63DAF-8483-4772-8E79-3D69D8477DE4", "EBD0A0A2-B9E5-4433-87C0-68B6B72699C7",
	"0657FD6D-A4AB-43C4-84E5-0933C84B4F4F", "21686148-6449-6E6F-744E-656564454649", "E6D6D379-F507-44C2-A23C-238F2A3DF928",
}

// UTF16Len is the number of UTF-16 code units of a name.
func UTF16Len(s string) int { return len(utf16.Encode([]rune(s))) }

// GenName draws a partition name. units is its UTF-16 length; classes: empty, ASCII, BMP, outside the BMP, mixed,
// exactly 36 units, (if over) more than 36 units with at most 36 runes, (if tooLong) 37 runes.
func GenName(r *hx.Rng, over, tooLong bool) string {
	ascii := func() rune { return rune(0x20 + r.Intn(0x5f)) }
	bmp := func() rune {
		for {
			x := rune(0xA0 + r.Intn(0xFFFD-0xA0))
			if x < 0xD800 || x > 0xDFFF {
				return x
			}
		}
	}
	astral := func() rune { return rune(0x10000 + r.Intn(0x100000)) }
	pick := func() rune {
		switch r.Intn(4) {
		case 0:
			return bmp()
		case 1:
			return astral()
		default:
			return ascii()
		}
	}
	var rs []rune
	switch cls := r.Intn(10); {
	case tooLong:
		for len(rs) < 37+r.Intn(4) {
			rs = append(rs, ascii())
		}
	case over:
		// ≤ 36 runes, > 36 units
		n := 19 + r.Intn(18)
		for i := 0; i < n; i++ {
			rs = append(rs, astral())
		}
	case cls == 0:
	case cls == 1:
		for len(rs) < 36 {
			rs = append(rs, ascii())
		}
	case cls == 2:
		for len(rs) < 36 {
			rs = append(rs, bmp())
		}
	case cls == 3:
		for len(rs) < 18 {
			rs = append(rs, astral())
		}
	case cls == 4:
		// mixed, filled to exactly 36 units
		u := 0
		for u < 36 {
			x := pick()
			w := 1
			if x >= 0x10000 {
				w = 2
			}
			if u+w > 36 {
				x, w = ascii(), 1
			}
			rs = append(rs, x)
			u += w
		}
	default:
		n := 1 + r.Intn(16)
		for i := 0; i < n; i++ {
			rs = append(rs, pick())
		}
	}
	return string(rs)
}

// GenOpts steers GenTable.
type GenOpts struct {
	LSS        int
	Size       int64
	NParts     int  // -1: draw a class
	Errors     bool // allow tables Write has to refuse (bad spelling, duplicate / out-of-range index, 37-rune name)
	Overflow   bool // allow names of more than 36 UTF-16 units in at most 36 runes
	Wild       bool // allow geometry outside the usable range / overlapping
	BlankGUIDs bool
}

// GenTable draws a table and, when it is well formed, what has to read back (sorted by index).
// wellFormed=false means at least one deliberate error was planted.
func GenTable(r *hx.Rng, o GenOpts) (spec TableSpec, exp []Expect, wellFormed bool, overflow bool) {
	lss := uint64(o.LSS)
	spec = TableSpec{LSS: o.LSS, GUID: RandGUID(r), PMBR: !r.Chance(12)}
	if o.BlankGUIDs && r.Chance(20) {
		spec.BlankGUID = true
	}
	n := o.NParts
	if n < 0 {
		switch r.Intn(8) {
		case 0:
			n = 0
		case 1:
			n = 1
		case 2:
			n = 128
		case 3:
			n = 20 + r.Intn(108)
		default:
			n = 2 + r.Intn(7)
		}
	}
	// indices: distinct, sparse, unordered
	perm := make([]int, 128)
	for i := range perm {
		perm[i] = i + 1
	}
	for i := 127; i > 0; i-- {
		j := r.Intn(i + 1)
		perm[i], perm[j] = perm[j], perm[i]
	}
	idx := perm[:n]
	if r.Chance(25) {
		// dense 1..n in order
		for i := range idx {
			idx[i] = i + 1
		}
	}
	sectors := uint64(o.Size) / lss
	arrSec := uint64(16384) / lss
	first := 2 + arrSec
	var last uint64
	if sectors > 2*arrSec+3 {
		last = sectors - arrSec - 2
	} else {
		last = first + 100
	}
	wellFormed = true
	cur := first
	errAt, ovfAt, errKind := -1, -1, 0
	if o.Errors && n > 0 {
		errAt, errKind = r.Intn(n), r.Intn(9)
	}
	if o.Overflow && n > 0 {
		ovfAt = r.Intn(n)
	}
	for i := 0; i < n; i++ {
		p := PartSpec{Index: idx[i], Attrs: r.U64(), GUID: RandGUID(r)}
		switch r.Intn(6) {
		case 0:
			p.Attrs = 0
		case 1:
			p.Attrs = 1 << 63
		case 2:
			p.Attrs = ^uint64(0)
		case 3:
			p.Attrs = uint64(1) << uint(r.Intn(64))
		}
		if o.BlankGUIDs && r.Chance(20) {
			p.BlankGUID = true
		}
		if r.Chance(70) {
			ts := hx.Pick(r, knownTypes)
			p.Type, _ = ParseGUID(ts)
			if r.Chance(30) {
				p.TypeStr = strings.ToLower(ts)
			}
		} else {
			p.Type = RandGUID(r)
		}
		unused := r.Chance(4) && i != errAt && i != ovfAt
		if unused {
			p.Type = [16]byte{}
			p.TypeStr = ""
		}
		// geometry: true start / end
		var start, end uint64
		length := uint64(1 + r.Intn(64))
		if r.Chance(15) {
			length = uint64(1 + r.Intn(1<<20))
		}
		gap := uint64(r.Intn(8))
		if o.Wild && r.Chance(12) {
			switch r.Intn(4) {
			case 0:
				start = 1 + uint64(r.Intn(40)) // inside the table area
			case 1:
				start = sectors + uint64(r.Intn(1000)) // beyond the disk
			case 2:
				start = 1<<32 - 2 + uint64(r.Intn(4))
			default:
				start = r.U64()>>2 | 1
			}
			if r.Chance(50) {
				length = 1 + r.U64()>>14 // up to 2^50 sectors
			}
			end = start + length - 1
		} else {
			start = cur + gap
			end = start + length - 1
			if end > last && last > start {
				end = last
			}
			cur = end + 1
		}
		size := (end - start + 1) * lss
		ovf := false
		if i == ovfAt {
			ovf = true
			overflow = true
		}
		tooLong := i == errAt && errKind == 5
		p.Name = GenName(r, ovf, tooLong)
		if tooLong {
			wellFormed = false
		}
		// spelling
		switch r.Intn(3) {
		case 0:
			p.Start, p.End, p.Size = start, end, 0
		case 1:
			p.Start, p.End, p.Size = start, 0, size
		default:
			p.Start, p.End, p.Size = start, end, size
		}
		if i == errAt && errKind < 5 {
			wellFormed = false
			switch errKind {
			case 0:
				p.Start = 0
			case 1:
				p.Start, p.End, p.Size = start, end, size+1
			case 2:
				p.Start, p.End, p.Size = start+length+3, start, 0 // end < start
			case 3:
				p.Start, p.End, p.Size = start, 0, size+1+uint64(r.Intn(int(lss)-1)) // not a multiple
			default:
				p.Start, p.End, p.Size = start, 0, 0 // neither
				if start == 0 {
					p.Start = 1
				}
			}
		}
		spec.Parts = append(spec.Parts, p)
		if !unused {
			exp = append(exp, Expect{Index: p.Index, Start: start, End: end, Size: size, Type: p.Type, GUID: p.GUID,
				AnyGUID: p.BlankGUID, Attrs: p.Attrs, Name: p.Name})
		}
	}
	if errAt >= 0 && errKind > 5 {
		wellFormed = false
		k := errAt
		switch errKind - 6 {
		case 0:
			spec.Parts[k].Index = 0
		case 1:
			spec.Parts[k].Index = 129 + r.Intn(5)
		default:
			if n > 1 {
				spec.Parts[k].Index = spec.Parts[(k+1)%n].Index
			} else {
				spec.Parts[k].Index = 0
			}
		}
	}
	// sort expectations by index
	for i := 1; i < len(exp); i++ {
		for j := i; j > 0 && exp[j-1].Index > exp[j].Index; j-- {
			exp[j-1], exp[j] = exp[j], exp[j-1]
		}
	}
	return
}
