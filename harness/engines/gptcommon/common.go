// Package gptcommon is shared by the engines gpt (C02), gptcrash (C09) and tblrobust (C15):
// model-level table descriptions, canonical strings of the line protocol, an independent
// GPT/MBR parser + validator written from the UEFI specification (it shares no code with
// go-diskfs), and the probes that decide which defect switches the Lean model runs with.
package gptcommon

import (
	"encoding/binary"
	"encoding/hex"
	"fmt"
	"hash/crc32"
	"reflect"
	"strings"
	"unicode/utf16"

	"github.com/diskfs/go-diskfs/partition/gpt"
	"github.com/diskfs/go-diskfs/partition/mbr"
	"github.com/google/uuid"

	"verif/harness/internal/hx"
	"verif/harness/internal/memdev"
)

// PartSpec is one GPT partition as the model sees it (GUIDs as 16 bytes in RFC order).
type PartSpec struct {
	Index            int
	Start, End, Size uint64
	Type, GUID       [16]byte
	TypeStr          string // spelling handed to the library (may be lower case)
	BlankGUID        bool
	Attrs            uint64
	Name             string
}

// TableSpec is a GPT table to write.
type TableSpec struct {
	Parts     []PartSpec
	LSS       int
	GUID      [16]byte
	BlankGUID bool
	PMBR      bool
}

func GUIDString(b [16]byte) string { return strings.ToUpper(uuid.UUID(b).String()) }

func ParseGUID(s string) ([16]byte, error) {
	u, err := uuid.Parse(s)
	return [16]byte(u), err
}

func RandGUID(r *hx.Rng) [16]byte {
	var g [16]byte
	copy(g[:], r.Bytes(16))
	// never all zero
	g[0] |= 1
	return g
}

// ToTable builds a fresh library table from the description.
func (t *TableSpec) ToTable() *gpt.Table {
	tb := &gpt.Table{LogicalSectorSize: t.LSS, PhysicalSectorSize: t.LSS, ProtectiveMBR: t.PMBR}
	if !t.BlankGUID {
		tb.GUID = GUIDString(t.GUID)
	}
	for _, p := range t.Parts {
		gp := &gpt.Partition{Index: p.Index, Start: p.Start, End: p.End, Size: p.Size, Attributes: p.Attrs, Name: p.Name}
		if p.TypeStr != "" {
			gp.Type = gpt.Type(p.TypeStr)
		} else {
			gp.Type = gpt.Type(GUIDString(p.Type))
		}
		if !p.BlankGUID {
			gp.GUID = GUIDString(p.GUID)
		}
		tb.Partitions = append(tb.Partitions, gp)
	}
	return tb
}

func runesStr(s string) string {
	rs := []rune(s)
	if len(rs) == 0 {
		return "-"
	}
	out := make([]string, len(rs))
	for i, r := range rs {
		out[i] = fmt.Sprint(int(r))
	}
	return strings.Join(out, ".")
}

// PartStr is the canonical `index,start,end,size,type,guid,attrs,name` form.
func PartStr(index int, start, end, size uint64, typ, guid [16]byte, attrs uint64, name string) string {
	return fmt.Sprintf("%d,%d,%d,%d,%s,%s,%d,%s", index, start, end, size, hex.EncodeToString(typ[:]), hex.EncodeToString(guid[:]), attrs, runesStr(name))
}

func (p *PartSpec) Str() string {
	return PartStr(p.Index, p.Start, p.End, p.Size, p.Type, p.GUID, p.Attrs, p.Name)
}

func SpecPartsStr(ps []PartSpec) string {
	if len(ps) == 0 {
		return "-"
	}
	s := make([]string, len(ps))
	for i := range ps {
		s[i] = ps[i].Str()
	}
	return strings.Join(s, ";")
}

// LibPartStr renders a library partition; ok=false if a GUID string does not parse.
func LibPartStr(p *gpt.Partition) (string, bool) {
	ty, e1 := ParseGUID(string(p.Type))
	gu, e2 := ParseGUID(p.GUID)
	return PartStr(p.Index, p.Start, p.End, p.Size, ty, gu, p.Attributes, p.Name), e1 == nil && e2 == nil
}

func LibPartsStr(ps []*gpt.Partition) string {
	if len(ps) == 0 {
		return "-"
	}
	s := make([]string, len(ps))
	for i, p := range ps {
		s[i], _ = LibPartStr(p)
	}
	return strings.Join(s, ";")
}

// field reads an unexported integer field of a library struct (read-only reflection, no hook needed).
func field(v any, name string) uint64 {
	rv := reflect.ValueOf(v)
	for rv.Kind() == reflect.Pointer {
		rv = rv.Elem()
	}
	f := rv.FieldByName(name)
	switch f.Kind() {
	case reflect.Int, reflect.Int64, reflect.Int32:
		return uint64(f.Int())
	case reflect.Uint64, reflect.Uint32, reflect.Uint:
		return f.Uint()
	}
	return 0
}

// LibTableStr renders a table returned by gpt.Read exactly as the Lean driver's tableStr does.
func LibTableStr(t *gpt.Table) string {
	g, _ := ParseGUID(t.GUID)
	b2 := func(b bool) int {
		if b {
			return 1
		}
		return 0
	}
	return fmt.Sprintf("backup=%d\tpmbr=%d\tguid=%s\tgeo=%d,%d,%d,%d,%d,%d,%d\tparts=%s", b2(t.RecoveredFromBackup), b2(t.ProtectiveMBR),
		hex.EncodeToString(g[:]), field(t, "primaryHeader"), field(t, "secondaryHeader"), field(t, "firstDataSector"), field(t, "lastDataSector"),
		field(t, "partitionFirstLBA"), field(t, "partitionArraySize"), field(t, "partitionEntrySize"), LibPartsStr(t.Partitions))
}

func LibRangesStr(t *gpt.Table) string {
	if len(t.Partitions) == 0 {
		return "-"
	}
	s := make([]string, len(t.Partitions))
	for i, p := range t.Partitions {
		s[i] = fmt.Sprintf("%d:%d:%d", p.Index, p.GetStart(), p.GetSize())
	}
	return strings.Join(s, ";")
}

// MbrPartStr is `index,boot,type,start,size,chs`.
func MbrPartStr(p *mbr.Partition) string {
	b := 0
	if p.Bootable {
		b = 1
	}
	return fmt.Sprintf("%d,%d,%d,%d,%d,%s", p.Index, b, byte(p.Type), p.Start, p.Size,
		hex.EncodeToString([]byte{p.StartHead, p.StartSector, p.StartCylinder, p.EndHead, p.EndSector, p.EndCylinder}))
}

func MbrPartsStr(ps []*mbr.Partition) string {
	if len(ps) == 0 {
		return "-"
	}
	s := make([]string, len(ps))
	for i, p := range ps {
		s[i] = MbrPartStr(p)
	}
	return strings.Join(s, ";")
}

// DevStr renders the non-zero content of a device as `off:hex;…` (64-byte granularity).
func DevStr(d *memdev.Dev) string {
	ex := d.Extents(64)
	if len(ex) == 0 {
		return "-"
	}
	var sb strings.Builder
	for i, e := range ex {
		if i > 0 {
			sb.WriteByte(';')
		}
		fmt.Fprintf(&sb, "%d:%s", e.Off, hex.EncodeToString(e.Data))
	}
	return sb.String()
}

// WriteLogStr fingerprints the WriteAt log like the driver's wrsFinger.
func WriteLogStr(d *memdev.Dev) string {
	var parts []string
	for _, e := range d.Log {
		if e.Sync {
			continue
		}
		if e.Len <= 128 {
			parts = append(parts, fmt.Sprintf("%d:%d:h%s", e.Off, e.Len, hex.EncodeToString(e.Data)))
		} else {
			parts = append(parts, fmt.Sprintf("%d:%d:c%d", e.Off, e.Len, crc32.ChecksumIEEE(e.Data)))
		}
	}
	if len(parts) == 0 {
		return "-"
	}
	return strings.Join(parts, ";")
}

// ---------------------------------------------------------------------------------------------
// Independent parser / validator, written from the UEFI specification (section 5.3), not from
// go-diskfs.  It only uses encoding/binary, hash/crc32 and unicode/utf16.

// RawPart is one used GPT entry as an independent parser sees it.
type RawPart struct {
	Index      int
	Type, GUID [16]byte // RFC order
	Start, End uint64
	Attrs      uint64
	Name       string
}

// guidFromDisk converts the on-disk mixed-endian form (first three groups little endian) to RFC order.
func guidFromDisk(b []byte) [16]byte {
	var g [16]byte
	g[0], g[1], g[2], g[3] = b[3], b[2], b[1], b[0]
	g[4], g[5] = b[5], b[4]
	g[6], g[7] = b[7], b[6]
	copy(g[8:], b[8:16])
	return g
}

type rawHeader struct {
	my, alt, first, last, arrLBA uint64
	guid                         [16]byte
	count, entSize, arrCRC       uint32
}

func parseHeader(sec []byte, what string) (*rawHeader, []string) {
	var bad []string
	if string(sec[0:8]) != "EFI PART" {
		return nil, []string{what + ": signature is not \"EFI PART\""}
	}
	if binary.LittleEndian.Uint32(sec[8:12]) != 0x00010000 {
		bad = append(bad, what+": revision is not 1.0")
	}
	hs := binary.LittleEndian.Uint32(sec[12:16])
	if hs < 92 || int(hs) > len(sec) {
		return nil, append(bad, fmt.Sprintf("%s: header size %d", what, hs))
	}
	tmp := append([]byte(nil), sec[:hs]...)
	stored := binary.LittleEndian.Uint32(tmp[16:20])
	copy(tmp[16:20], []byte{0, 0, 0, 0})
	if c := crc32.ChecksumIEEE(tmp); c != stored {
		bad = append(bad, fmt.Sprintf("%s: header CRC32 stored %08x computed %08x", what, stored, c))
	}
	if binary.LittleEndian.Uint32(sec[20:24]) != 0 {
		bad = append(bad, what+": reserved field not zero")
	}
	for _, x := range sec[hs:] {
		if x != 0 {
			bad = append(bad, what+": bytes after the header are not zero")
			break
		}
	}
	h := &rawHeader{
		my: binary.LittleEndian.Uint64(sec[24:32]), alt: binary.LittleEndian.Uint64(sec[32:40]),
		first: binary.LittleEndian.Uint64(sec[40:48]), last: binary.LittleEndian.Uint64(sec[48:56]),
		guid: guidFromDisk(sec[56:72]), arrLBA: binary.LittleEndian.Uint64(sec[72:80]),
		count: binary.LittleEndian.Uint32(sec[80:84]), entSize: binary.LittleEndian.Uint32(sec[84:88]),
		arrCRC: binary.LittleEndian.Uint32(sec[88:92]),
	}
	return h, bad
}

// GPTView is what the independent parser extracts.
type GPTView struct {
	DiskGUID [16]byte
	Parts    []RawPart
}

// ValidateGPT checks the device against the UEFI rules the property names: both header CRCs, both
// array CRCs, backup header at the last LBA mirroring the primary with my/alternate/array LBA
// swapped, regions inside the disk and not overlapping, protective MBR (if wantPMBR) with one 0xEE
// record from LBA 1 of size min(sectors-1, 0xFFFFFFFF).  It returns the parsed view and the problems.
func ValidateGPT(d *memdev.Dev, size int64, lss int, wantPMBR bool) (*GPTView, []string) {
	var bad []string
	sectors := uint64(size) / uint64(lss)
	if sectors < 3 {
		return nil, []string{"disk has fewer than 3 sectors"}
	}
	last := sectors - 1
	if wantPMBR {
		m := d.Bytes(0, 512)
		if m[510] != 0x55 || m[511] != 0xAA {
			bad = append(bad, "protective MBR: signature 55AA missing at byte 510")
		}
		r0 := m[446:462]
		want := last
		if want > 0xFFFFFFFF {
			want = 0xFFFFFFFF
		}
		if r0[0] != 0 || r0[4] != 0xEE || binary.LittleEndian.Uint32(r0[8:12]) != 1 {
			bad = append(bad, fmt.Sprintf("protective MBR: record 0 is not a non-bootable 0xEE record starting at LBA 1 (%x)", r0))
		} else if got := uint64(binary.LittleEndian.Uint32(r0[12:16])); got != want {
			bad = append(bad, fmt.Sprintf("protective MBR does not cover the disk: SizeInLBA=%d, want min(sectors-1,0xFFFFFFFF)=%d", got, want))
		}
		for _, x := range m[462:510] {
			if x != 0 {
				bad = append(bad, "protective MBR: records 1-3 not zero")
				break
			}
		}
	}
	ph, b1 := parseHeader(d.Bytes(int64(lss), lss), "primary header")
	bad = append(bad, b1...)
	bh, b2 := parseHeader(d.Bytes(int64(last)*int64(lss), lss), "backup header (last LBA)")
	bad = append(bad, b2...)
	if ph == nil || bh == nil {
		return nil, bad
	}
	if ph.my != 1 || ph.alt != last {
		bad = append(bad, fmt.Sprintf("primary header: MyLBA=%d AlternateLBA=%d, want 1 and %d", ph.my, ph.alt, last))
	}
	if bh.my != last || bh.alt != 1 {
		bad = append(bad, fmt.Sprintf("backup header: MyLBA=%d AlternateLBA=%d, want %d and 1", bh.my, bh.alt, last))
	}
	if ph.first != bh.first || ph.last != bh.last || ph.guid != bh.guid || ph.count != bh.count || ph.entSize != bh.entSize || ph.arrCRC != bh.arrCRC {
		bad = append(bad, "backup header does not mirror the primary (usable range / disk GUID / entry count / entry size / array CRC differ)")
	}
	if ph.entSize < 128 || ph.entSize&(ph.entSize-1) != 0 {
		bad = append(bad, fmt.Sprintf("entry size %d is not 128*2^n", ph.entSize))
		return nil, bad
	}
	arrBytes := uint64(ph.count) * uint64(ph.entSize)
	arrSectors := (arrBytes + uint64(lss) - 1) / uint64(lss)
	if arrBytes > 1<<24 {
		bad = append(bad, fmt.Sprintf("entry array of %d bytes", arrBytes))
		return nil, bad
	}
	// layout: LBA0 | hdr(1) | primary array [pa, pa+as) | usable [first,last] | backup array [ba, ba+as) | hdr(last)
	if ph.arrLBA < 2 || ph.arrLBA+arrSectors > ph.first {
		bad = append(bad, fmt.Sprintf("primary entry array [%d,+%d) not between the header and FirstUsableLBA=%d", ph.arrLBA, arrSectors, ph.first))
	}
	if bh.arrLBA <= ph.last || bh.arrLBA+arrSectors > last {
		bad = append(bad, fmt.Sprintf("backup entry array [%d,+%d) not between LastUsableLBA=%d and the backup header at %d", bh.arrLBA, arrSectors, ph.last, last))
	}
	if ph.first > ph.last+1 {
		bad = append(bad, fmt.Sprintf("FirstUsableLBA=%d > LastUsableLBA+1=%d", ph.first, ph.last+1))
	}
	if ph.arrLBA+arrSectors > bh.arrLBA {
		bad = append(bad, "primary and backup entry arrays overlap")
	}
	if ph.arrLBA+arrSectors > sectors || bh.arrLBA+arrSectors > sectors {
		bad = append(bad, "entry array beyond the end of the disk")
		return nil, bad
	}
	pa := d.Bytes(int64(ph.arrLBA)*int64(lss), int(arrBytes))
	ba := d.Bytes(int64(bh.arrLBA)*int64(lss), int(arrBytes))
	if c := crc32.ChecksumIEEE(pa); c != ph.arrCRC {
		bad = append(bad, fmt.Sprintf("primary entry array CRC32 stored %08x computed %08x", ph.arrCRC, c))
	}
	if c := crc32.ChecksumIEEE(ba); c != bh.arrCRC {
		bad = append(bad, fmt.Sprintf("backup entry array CRC32 stored %08x computed %08x", bh.arrCRC, c))
	}
	v := &GPTView{DiskGUID: ph.guid}
	for i := 0; i < int(ph.count); i++ {
		e := pa[i*int(ph.entSize) : (i+1)*int(ph.entSize)]
		allz := true
		for _, x := range e[0:16] {
			if x != 0 {
				allz = false
				break
			}
		}
		if allz {
			continue
		}
		u := make([]uint16, 0, 36)
		for j := 56; j+1 < 128; j += 2 {
			c := binary.LittleEndian.Uint16(e[j : j+2])
			if c == 0 {
				break
			}
			u = append(u, c)
		}
		v.Parts = append(v.Parts, RawPart{Index: i + 1, Type: guidFromDisk(e[0:16]), GUID: guidFromDisk(e[16:32]),
			Start: binary.LittleEndian.Uint64(e[32:40]), End: binary.LittleEndian.Uint64(e[40:48]),
			Attrs: binary.LittleEndian.Uint64(e[48:56]), Name: string(utf16.Decode(u))})
	}
	return v, bad
}

// RawMBRSlot is one slot of an MBR for an independent parser.
type RawMBRSlot struct {
	Boot, Type  byte
	Start, Size uint32
	CHS         [6]byte
}

// ParseMBR is the independent MBR parser: signature and four slots.
func ParseMBR(d *memdev.Dev) ([4]RawMBRSlot, []string) {
	var out [4]RawMBRSlot
	m := d.Bytes(0, 512)
	var bad []string
	if m[510] != 0x55 || m[511] != 0xAA {
		bad = append(bad, "MBR signature 55AA missing at byte 510")
	}
	for i := 0; i < 4; i++ {
		e := m[446+16*i : 446+16*i+16]
		out[i] = RawMBRSlot{Boot: e[0], Type: e[4], Start: binary.LittleEndian.Uint32(e[8:12]), Size: binary.LittleEndian.Uint32(e[12:16]),
			CHS: [6]byte{e[1], e[2], e[3], e[5], e[6], e[7]}}
	}
	return out, bad
}
