package sqfs

// The two-level lookup tables (fragment table: 512 entries of 16 bytes per metadata block; id table:
// 2048 ids of 4 bytes; export table: 1024 references of 8 bytes) driven on their own through the
// hooks of zz_verif_hooks_C07d.go, at and around the counts where a metadata block fills up:
//   - oracle: what readFragmentTable / readUidsGids return for a table writeFragmentTable /
//     writeIDTable wrote must be exactly the entries written;
//   - correspondence (sqfs.lookup): the bytes written (length, index location, CRC, number of blocks)
//     and the reader's result against the Lean model (metaChunks / metaTable / lookupIndex,
//     readFragTable / readIdTable of Model/Sqfs/ImageRd.lean) — the reader's count of index entries
//     is part of both (theorem lookup_table_block_counts).
// Something that is not an index entry follows the index on the device (as the next table does in an
// image), so a reader that takes one entry too many reads it.
// Also here: one whole image with exactly 512 fragment blocks, through the ordinary oracle.

import (
	"fmt"
	"hash/crc32"
	"strings"

	"github.com/diskfs/go-diskfs/filesystem/squashfs"

	"verif/harness/internal/hx"
	"verif/harness/internal/memdev"
)

const tagIDWrap = "sqfs-idtable-uint16-blockcount"

var afterIndex = []byte{0x04, 0x80, 0xaa, 0xbb, 0xcc, 0xdd, 0x01, 0x02, 0x03, 0x04, 0x05, 0x06, 0x07, 0x08, 0x09, 0x0a}

func u32list(xs []uint32) string {
	if len(xs) == 0 {
		return "-"
	}
	s := make([]string, len(xs))
	for i, x := range xs {
		s[i] = fmt.Sprint(x)
	}
	return strings.Join(s, ",")
}

func lookupTables(c *hx.Ctx) {
	r := hx.NewRng(c.Seed*15485863 + 9)
	fragNs := []int{1, 2, 511, 512, 513, 1023, 1024, 1025}
	idNs := []int{1, 2, 2047, 2048, 2049, 4096, 4097, 16384, 16385} // 16385: the uint16 block count of the code before fix 0ff62c2 wrapped here
	expNs := []int{1, 1023, 1024, 1025, 2048, 2049}
	for k := 0; k < c.N(2, 30); k++ {
		fragNs = append(fragNs, 1+r.Intn(1600))
		idNs = append(idNs, 1+r.Intn(6000))
		expNs = append(expNs, 1+r.Intn(3000))
	}
	// ---- fragment table ------------------------------------------------------------------------------
	for i, n := range fragNs {
		id := fmt.Sprintf("d/lookup/frag/%d-%d", i, n)
		rr := r.Fork()
		if !c.Want(id) {
			continue
		}
		loc := int64(96 + rr.Intn(40000))
		locs := make([]int64, n)
		sizes := make([]uint32, n)
		comps := make([]bool, n)
		pos := int64(96)
		ents := make([]string, n)
		for j := 0; j < n; j++ {
			locs[j] = pos
			sizes[j] = uint32(1 + rr.Intn(1<<17))
			comps[j] = rr.Chance(50)
			pos += int64(sizes[j])
			ents[j] = fmt.Sprintf("%d:%d:%d", locs[j], sizes[j], b2i(comps[j]))
		}
		dev := memdev.New(8 << 20)
		var written int
		var idx uint64
		var gl []uint64
		var gs []uint32
		var gc []bool
		err, _ := safely(func() error {
			w, e := dev.Writable()
			if e != nil {
				return e
			}
			written, idx, e = squashfs.VerifWriteFragmentTable(w, locs, sizes, comps, loc)
			return e
		})
		if err != nil {
			c.Fail(id, tagNone, "writeFragmentTable: "+err.Error(), fmt.Sprintf("n=%d", n))
			continue
		}
		dev.RawWrite(afterIndex, loc+int64(written))
		rerr, _ := safely(func() error {
			var e error
			gl, gs, gc, e = squashfs.VerifReadFragmentTable(dev, uint32(n), idx)
			return e
		})
		res := "err"
		if rerr == nil {
			got := make([]string, len(gl))
			for j := range gl {
				got[j] = fmt.Sprintf("%d:%d:%d", gl[j], gs[j], b2i(gc[j]))
			}
			res = fmt.Sprintf("%d:%d", len(gl), crc32.ChecksumIEEE([]byte(strings.Join(got, ";"))))
			if strings.Join(got, ";") == strings.Join(ents, ";") {
				c.OK(id)
			} else {
				c.Fail(id, tagNone, fmt.Sprintf("readFragmentTable returned %d entries that differ from the %d written", len(gl), n), fmt.Sprintf("fragment table n=%d", n))
			}
		} else {
			c.Fail(id, tagNone, "readFragmentTable on a table writeFragmentTable wrote: "+rerr.Error(), fmt.Sprintf("fragment table n=%d", n))
		}
		blocks := (n*16 + 8191) / 8192
		c.Case(id, "sqfs.lookup", "kind=frag", fmt.Sprintf("loc=%d", loc), fmt.Sprintf("n=%d", n), fmt.Sprintf("after=%x", afterIndex), "ents="+strings.Join(ents, ","))
		c.Impl(id, fmt.Sprintf("w=%d", written), fmt.Sprintf("idx=%d", idx), fmt.Sprintf("crc=%d", crc32.ChecksumIEEE(dev.Bytes(loc, written))),
			fmt.Sprintf("blocks=%d", (int64(written)-(int64(idx)-loc))/8), "r="+res)
		c.Stat("corr.lookup.frag")
		if n%512 == 0 {
			c.Stat("frag_count_multiple_of_512")
		}
		if n == 512 {
			c.Stat("frag_count_eq_512")
		}
		if blocks > 1 {
			c.Stat("fragtable_blocks_gt1")
		}
		c.Distinct(fmt.Sprintf("lookup|frag|n=%d", n))
	}
	// ---- id table ------------------------------------------------------------------------------------
	for i, n := range idNs {
		id := fmt.Sprintf("d/lookup/id/%d-%d", i, n)
		rr := r.Fork()
		if !c.Want(id) {
			continue
		}
		loc := int64(96 + rr.Intn(40000))
		ids := make([]uint32, n)
		next := uint32(rr.Intn(1 << 30))
		for j := range ids {
			ids[j] = next // strictly increasing: distinct
			next += uint32(1 + rr.Intn(3))
		}
		dev := memdev.New(8 << 20)
		var written int
		var idx uint64
		var got []uint32
		err, _ := safely(func() error {
			w, e := dev.Writable()
			if e != nil {
				return e
			}
			written, idx, e = squashfs.VerifWriteIDTable(w, ids, loc)
			return e
		})
		if err != nil {
			c.Fail(id, tagNone, "writeIDTable: "+err.Error(), fmt.Sprintf("n=%d", n))
			continue
		}
		dev.RawWrite(afterIndex, loc+int64(written))
		rerr, _ := safely(func() error {
			var e error
			got, e = squashfs.VerifReadIDTable(dev, uint16(n), idx)
			return e
		})
		res := "err"
		if rerr == nil {
			res = fmt.Sprintf("%d:%d", len(got), crc32.ChecksumIEEE([]byte(u32list(got))))
			if u32list(got) == u32list(ids) {
				c.OK(id)
			} else {
				c.Fail(id, tagNone, fmt.Sprintf("readUidsGids returned %d ids that differ from the %d written", len(got), n), fmt.Sprintf("id table n=%d", n))
			}
		} else {
			c.Fail(id, tagNone, "readUidsGids on a table writeIDTable wrote: "+rerr.Error(), fmt.Sprintf("id table n=%d", n))
		}
		c.Case(id, "sqfs.lookup", "kind=id", fmt.Sprintf("loc=%d", loc), fmt.Sprintf("n=%d", n), fmt.Sprintf("after=%x", afterIndex), "ids="+u32list(ids))
		c.Impl(id, fmt.Sprintf("w=%d", written), fmt.Sprintf("idx=%d", idx), fmt.Sprintf("crc=%d", crc32.ChecksumIEEE(dev.Bytes(loc, written))),
			fmt.Sprintf("blocks=%d", (int64(written)-(int64(idx)-loc))/8), "r="+res)
		c.Stat("corr.lookup.id")
		if n > 2048 {
			c.Stat("idtable_blocks_gt1")
		}
		if n%2048 == 0 {
			c.Stat("id_count_multiple_of_2048")
		}
		c.Distinct(fmt.Sprintf("lookup|id|n=%d", n))
	}
	// ---- export table (the library has no reader for it: the bytes only) --------------------------------
	for i, n := range expNs {
		id := fmt.Sprintf("d/lookup/export/%d-%d", i, n)
		rr := r.Fork()
		if !c.Want(id) {
			continue
		}
		loc := int64(96 + rr.Intn(40000))
		blks := make([]uint32, n)
		offs := make([]uint16, n)
		refs := make([]string, n)
		for j := range blks {
			blks[j] = uint32(rr.Intn(1 << 20))
			offs[j] = uint16(rr.Intn(8192))
			refs[j] = fmt.Sprintf("%d:%d", blks[j], offs[j])
		}
		dev := memdev.New(8 << 20)
		var written int
		var idx uint64
		err, _ := safely(func() error {
			w, e := dev.Writable()
			if e != nil {
				return e
			}
			written, idx, e = squashfs.VerifWriteExportTable(w, blks, offs, loc)
			return e
		})
		if err != nil {
			c.Fail(id, tagNone, "writeExportTable: "+err.Error(), fmt.Sprintf("n=%d", n))
			continue
		}
		c.OK(id)
		c.Case(id, "sqfs.lookup", "kind=export", fmt.Sprintf("loc=%d", loc), fmt.Sprintf("n=%d", n), "after=-", "refs="+strings.Join(refs, ","))
		c.Impl(id, fmt.Sprintf("w=%d", written), fmt.Sprintf("idx=%d", idx), fmt.Sprintf("crc=%d", crc32.ChecksumIEEE(dev.Bytes(loc, written))),
			fmt.Sprintf("blocks=%d", (int64(written)-(int64(idx)-loc))/8), "r=-")
		c.Stat("corr.lookup.export")
		if n > 1024 {
			c.Stat("exporttable_blocks_gt1")
		}
		c.Distinct(fmt.Sprintf("lookup|export|n=%d", n))
	}
	// ---- recorded finding (fixed by 0ff62c2): the id table's block count was computed in uint16 ----------
	if id := "w/idtable-16385"; c.Want(id) {
		n := 16385
		ids := make([]uint32, n)
		for j := range ids {
			ids[j] = uint32(1000 + j)
		}
		dev := memdev.New(8 << 20)
		var got []uint32
		err, _ := safely(func() error {
			w, e := dev.Writable()
			if e != nil {
				return e
			}
			_, idx, e := squashfs.VerifWriteIDTable(w, ids, 4096)
			if e != nil {
				return e
			}
			got, e = squashfs.VerifReadIDTable(dev, uint16(n), idx)
			return e
		})
		switch {
		case err == nil && u32list(got) == u32list(ids):
			c.Known(tagIDWrap, false, "16385 ids read back")
			c.OK(id)
		case err == nil && len(got) == 2048:
			c.Known(tagIDWrap, true, fmt.Sprintf("writeIDTable wrote %d ids in 9 metadata blocks, readUidsGids returned %d: idCount*4 is computed in uint16 and wraps to 4", n, len(got)))
		default:
			c.Fail(id, tagNone, fmt.Sprintf("id table of %d ids: err=%v len=%d", n, err, len(got)), "id table n=16385")
		}
	}
}

// frag512Image: one whole image whose fragment table holds exactly 512 entries (512 files whose tails
// cannot share a fragment block), through the ordinary oracle: Read must open it and show the tree.
func frag512Image(c *hx.Ctx) {
	id := "w/frag512"
	if !c.Want(id) && !c.Want(id+"/build") && !c.Want(id+"/view") && !c.Want(id+"/sb") && !c.Want(id+"/regions") {
		return
	}
	r := hx.NewRng(c.Seed*31 + 512)
	root := mkdir(".")
	for k := 0; k < 512; k++ {
		root.add(file(r, fmt.Sprintf("%03d", k), "rand", 4095))
	}
	out := checkCase(c, id, root, cfg{comp: "none", bs: 4096, cache: -1, cwdWS: true})
	if out != nil && out.b.err == nil {
		sb := parseSB(out.b.dev.Bytes(0, 96))
		if sb.frags == 512 {
			c.Stat("image_frag_count_eq_512")
		} else {
			c.Stat(fmt.Sprintf("image_frag_count_%d", sb.frags))
		}
	}
}
