package sqfs

// Correspondence cases for the Lean model driver vd-sqfs: real File.Read call sequences against
// readS, real block-size lists / fragment references against the packing model, the real
// updateInodeLocations / translateInodeLocations against the reference arithmetic, and the real
// superblock codec.

import (
	"encoding/hex"
	"fmt"
	"hash/crc32"
	"io"
	"os"
	"path/filepath"
	"sort"
	"strings"

	"github.com/diskfs/go-diskfs/filesystem/squashfs"

	"verif/harness/internal/hx"
)

func correspondence(c *hx.Ctx) {
	defer func() {
		if p := recover(); p != nil {
			c.Fail("d/panic", tagNone, fmt.Sprintf("panic in the library during the correspondence run: %v", p), "")
		}
	}()
	r := c.Rng.Fork()
	comps := []string{"none", "gzip", "lz4", "zstd", "xz"}
	// ---- read sequences on real images (any compressor) vs readS (identity codec) ------------------
	n := c.N(8, 300)
	for i := 0; i < n; i++ {
		rr := r.Fork()
		bs := hx.Pick(rr, []int64{4096, 4096, 8192})
		cf := cfg{comp: comps[i%len(comps)], bs: bs, cache: hx.Pick(rr, []int{-1, 0, int(bs)}), noFrag: rr.Chance(30), noData: rr.Chance(20), cwdWS: true}
		if cf.comp == "xz" && !c.Thorough() && i > 5 {
			cf.comp = "gzip"
		}
		root := mkdir(".")
		sizes := []int{0, 1, int(bs) - 1, int(bs), int(bs) + 1, 2 * int(bs), 2*int(bs) + 100, 3*int(bs) + int(bs)/2, rr.Intn(4 * int(bs))}
		for j, sz := range sizes {
			root.add(file(rr, fmt.Sprintf("f%02d", j), hx.Pick(rr, []string{"zero", "rep", "rand", "mixed"}), sz))
		}
		if !c.Want(fmt.Sprintf("d/read/%d", i)) && !c.Want(fmt.Sprintf("d/layout/%d", i)) {
			continue
		}
		b := build(root, cf)
		if b.err != nil {
			continue
		}
		regionCase(c, fmt.Sprintf("d/read/%d", i), root, cf, b.dev)
		var fsys *squashfs.FileSystem
		err, _ := safely(func() error {
			var e error
			fsys, e = squashfs.Read(b.dev, b.size, cf.start, cf.bs)
			return e
		})
		if err != nil {
			continue
		}
		if cf.cache >= 0 {
			fsys.SetCacheSize(cf.cache)
		}
		// layout of every file, in the order the builder walks them (lexical)
		kids := append([]*node(nil), root.kids...)
		sort.Slice(kids, func(a, b int) bool { return kids[a].name < kids[b].name })
		var szs, lay []string
		okLayout := true
		for _, k := range kids {
			_, stored, _, fi, fo, fsz, err := squashfs.VerifFileLayout(fsys, k.name)
			if err != nil || fsz != int64(len(k.data)) {
				okLayout = false
				break
			}
			szs = append(szs, fmt.Sprint(len(k.data)))
			// extended file inodes leave the fragment index 0 (not 0xffffffff) when there is no tail; the
			// reader never looks at it then
			if fi == 0xffffffff || fsz%bs == 0 {
				lay = append(lay, fmt.Sprintf("%d:-:0", len(stored)))
			} else {
				lay = append(lay, fmt.Sprintf("%d:%d:%d", len(stored), fi, fo))
			}
		}
		if id := fmt.Sprintf("d/layout/%d", i); okLayout && c.Want(id) {
			c.Case(id, "sqfs.layout", fmt.Sprintf("bs=%d", bs), "sizes="+strings.Join(szs, ","))
			c.Impl(id, "l="+strings.Join(lay, ","))
			c.Stat("corr.layout")
		}
		for j, k := range kids {
			id := fmt.Sprintf("d/read/%d/%d", i, j)
			if !c.Want(id) || len(k.data) > 9000 {
				continue
			}
			f, err := fsys.OpenFile(k.name, 0)
			if err != nil {
				continue
			}
			var calls, outs []string
			bad := false
			for q := 0; q < 6; q++ {
				var off int
				switch rr.Intn(4) {
				case 0:
					off = rr.Intn(len(k.data) + 10)
				case 1:
					off = (rr.Intn(4)) * int(bs)
				case 2:
					off = len(k.data) - rr.Intn(5)
					if off < 0 {
						off = 0
					}
				default:
					off = rr.Intn(int(bs) + 1)
				}
				nb := hx.Pick(rr, []int{1, 7, int(bs), int(bs) + 1, 3 * int(bs), 100, 5000})
				if _, err := f.Seek(int64(off), io.SeekStart); err != nil {
					bad = true
					break
				}
				buf := make([]byte, nb)
				var got int
				var rerr error
				if perr, panicked := safely(func() error { got, rerr = f.Read(buf); return nil }); panicked {
					c.Fail(id, tagNone, fmt.Sprintf("Read(%d bytes at %d) of %s: %v", nb, off, k.name, perr), cf.String())
					bad = true
					break
				}
				if rerr != nil && rerr != io.EOF {
					bad = true
					break
				}
				eof := 0
				if rerr == io.EOF {
					eof = 1
				}
				calls = append(calls, fmt.Sprintf("%d:%d", off, nb))
				outs = append(outs, fmt.Sprintf("%d:%d:%d", got, crc32.ChecksumIEEE(buf[:got]), eof))
			}
			f.Close()
			if bad {
				c.Fail(id+"/err", tagNone, "Seek/Read returned an error or panicked inside the file "+k.name, cf.String())
				continue
			}
			c.Case(id, "sqfs.read", fmt.Sprintf("bs=%d", bs), "data="+hx.Hex(k.data), "calls="+strings.Join(calls, ","))
			c.Impl(id, "r="+strings.Join(outs, ","))
			c.Stat("corr.read")
			c.Distinct(fmt.Sprintf("read|%s|%d|%v", cf.comp, len(k.data), calls))
		}
	}
	// ---- the Lean squashfs reader on real uncompressed images (S) ---------------------------------------
	n = c.N(10, 200)
	for i := 0; i < n; i++ {
		id := fmt.Sprintf("d/image/%d", i)
		rr := r.Fork()
		if !c.Want(id) {
			continue
		}
		bs := hx.Pick(rr, []int64{4096, 4096, 8192, 16384})
		cf := cfg{comp: "none", bs: bs, cache: -1, cwdWS: true, noFrag: rr.Chance(30), noData: rr.Chance(30), noInodes: rr.Chance(30), noFragC: rr.Chance(30), nonExport: rr.Chance(30)}
		if rr.Chance(40) {
			cf.start = int64(1+rr.Intn(16)) * 4096
		}
		var root *node
		switch i {
		case 0:
			root = mkdir(".")
		case 1:
			root = baseTree(rr, int(bs))
		default:
			root = randTree(rr, int(bs), 40)
		}
		if root.dirTableBytes() > 7000 || root.maxKids() > 200 {
			continue
		}
		_, _, _, total := root.count()
		if total > 1<<20 {
			continue
		}
		b := build(root, cf)
		if b.err != nil {
			continue
		}
		regionCase(c, id, root, cf, b.dev)
		sb := parseSB(b.dev.Bytes(cf.start, 96))
		if sb.magic != 0x73717368 || sb.bytesUsed > 4<<20 {
			continue
		}
		p := filepath.Join(c.Scratch, fmt.Sprintf("img-%d.sqfs", i))
		if err := os.WriteFile(p, b.dev.Bytes(0, int(cf.start)+int(sb.bytesUsed)), 0o644); err != nil {
			continue
		}
		exp := expectedView(root)
		keys := make([]string, 0, len(exp))
		for k := range exp {
			keys = append(keys, k)
		}
		sort.Strings(keys)
		byPath := map[string]*node{}
		var rec func(nd *node, pp string)
		rec = func(nd *node, pp string) {
			for _, k := range nd.kids {
				byPath[join(pp, k.name)] = k
				if k.dir {
					rec(k, join(pp, k.name))
				}
			}
		}
		rec(root, ".")
		var vs []string
		for _, k := range keys {
			e := exp[k]
			switch e.kind {
			case "dir":
				vs = append(vs, k+"|d")
			case "link":
				vs = append(vs, k+"|l|"+e.sum)
			default:
				vs = append(vs, fmt.Sprintf("%s|f|%d|%d", k, e.size, crc32.ChecksumIEEE(byPath[k].data)))
			}
		}
		d, f, l, _ := root.count()
		c.Case(id, "sqfs.image", "path="+p, fmt.Sprintf("base=%d", cf.start))
		c.Impl(id, fmt.Sprintf("bs=%d", bs), fmt.Sprintf("inodes=%d", d+f+l+1), fmt.Sprintf("used=%d", sb.bytesUsed), "v="+strings.Join(vs, ";"))
		c.Stat("corr.leanreader")
		c.Distinct("image|" + cf.String() + "|" + root.describe())
		imgRdCases(c, id, cf, b.dev, b.size, sb, p, rr) // reading side over image bytes (imgrd.go)
	}
	codecCases(c, r.Fork()) // inode and directory-table codecs against the real encoders / decoders
	// ---- inode reference arithmetic -------------------------------------------------------------------
	n = c.N(200, 3000)
	for i := 0; i < n; i++ {
		id := fmt.Sprintf("d/refs/%d", i)
		rr := r.Fork()
		if !c.Want(id) {
			continue
		}
		k := 1 + rr.Intn(400)
		sizes := make([]int, k)
		total := 0
		for j := range sizes {
			sizes[j] = hx.Pick(rr, []int{32, 40, 56, 60, 25 + rr.Intn(200), 56 + 4*rr.Intn(300)})
			total += sizes[j]
		}
		nblocks := total/8192 + 1
		stored := make([]int, nblocks)
		offs := make([]int64, nblocks)
		pos := int64(0)
		for j := range stored {
			stored[j] = 1 + rr.Intn(8192)
			offs[j] = pos
			pos += int64(stored[j]) + 2
		}
		lo, of, tr := squashfs.VerifInodeRefs(sizes, offs)
		ls := make([]string, len(lo))
		ts := make([]string, len(tr))
		for j := range lo {
			ls[j] = fmt.Sprintf("%d:%d", lo[j], of[j])
			ts[j] = fmt.Sprint(tr[j])
		}
		c.Case(id, "sqfs.refs", "sizes="+ints(sizes), "stored="+ints(stored))
		c.Impl(id, "lo="+strings.Join(ls, ","), "tr="+strings.Join(ts, ","))
		c.Stat("corr.refs")
	}
	// ---- superblock codec ------------------------------------------------------------------------------
	n = c.N(100, 1500)
	for i := 0; i < n; i++ {
		id := fmt.Sprintf("d/sb/%d", i)
		rr := r.Fork()
		if !c.Want(id) {
			continue
		}
		bs := uint32(1) << (12 + rr.Intn(9))
		u32 := func() uint32 {
			if rr.Chance(20) {
				return 0xffffffff
			}
			return uint32(rr.U64())
		}
		u64 := func() uint64 {
			if rr.Chance(20) {
				return 0xffffffffffffffff
			}
			return rr.U64() >> uint(rr.Intn(40))
		}
		inodes, mt, frags := u32(), u32(), u32()
		comp, ids, flags := uint16(1+rr.Intn(6)), uint16(rr.U64()), uint16(rr.U64())&0x0ffb
		rb, ro := u32(), uint16(rr.U64())
		used, idS, xS, inS, dS, fS, eS := u64(), u64(), u64(), u64(), u64(), u64(), u64()
		b := squashfs.VerifSuperblock(inodes, mt, bs, frags, comp, ids, flags, rb, ro, used, idS, xS, inS, dS, fS, eS)
		root := uint64(rb)<<16 | uint64(ro)
		args := []string{fmt.Sprintf("inodes=%d", inodes), fmt.Sprintf("mtime=%d", mt), fmt.Sprintf("bs=%d", bs), fmt.Sprintf("frags=%d", frags),
			fmt.Sprintf("comp=%d", comp), fmt.Sprintf("flags=%d", flags), fmt.Sprintf("ids=%d", ids), fmt.Sprintf("root=%d", root), fmt.Sprintf("used=%d", used),
			fmt.Sprintf("idS=%d", idS), fmt.Sprintf("xS=%d", xS), fmt.Sprintf("inS=%d", inS), fmt.Sprintf("dS=%d", dS), fmt.Sprintf("fS=%d", fS), fmt.Sprintf("eS=%d", eS)}
		c.Case(id, "sqfs.sb", args...)
		c.Impl(id, "b="+hex.EncodeToString(b))
		if f, err := squashfs.VerifSuperblockParse(b); err == nil {
			id2 := id + "p"
			c.Case(id2, "sqfs.sbparse", "b="+hex.EncodeToString(b))
			c.Impl(id2, fmt.Sprintf("inodes=%d", f[0]), fmt.Sprintf("mtime=%d", f[1]), fmt.Sprintf("bs=%d", f[2]), fmt.Sprintf("frags=%d", f[3]),
				fmt.Sprintf("comp=%d", f[4]), fmt.Sprintf("flags=%d", f[6]), fmt.Sprintf("ids=%d", f[5]), fmt.Sprintf("root=%d", f[7]<<16|f[8]), fmt.Sprintf("used=%d", f[9]),
				fmt.Sprintf("idS=%d", f[10]), fmt.Sprintf("xS=%d", f[11]), fmt.Sprintf("inS=%d", f[12]), fmt.Sprintf("dS=%d", f[13]), fmt.Sprintf("fS=%d", f[14]), fmt.Sprintf("eS=%d", f[15]))
		}
		c.Stat("corr.sb")
	}
}

func ints(xs []int) string {
	if len(xs) == 0 {
		return "-"
	}
	s := make([]string, len(xs))
	for i, x := range xs {
		s[i] = fmt.Sprint(x)
	}
	return strings.Join(s, ",")
}
