package sqfs

// Correspondence for the reading side over image bytes (Lean Model/Sqfs/ImageRd.lean): the real
// readMetadata / getInode / getDirectory (hooks VerifReadMetadata, VerifGetInode, VerifGetDirectory of
// zz_verif_hooks_C07c.go), the fragment and id tables Read loads, and the whole walk with owners
// and file bytes (ReadDir / Info().Sys() / ReadFile / Readlink) against readMetadata, getInodeM,
// getDirM, readFragTable, readIdTable, imgWalk run by the Lean driver on the SAME image file.
// The driver has no compressor (the model is proved for every Codec): only images on which
// nothing is compressed are fed.

import (
	"fmt"
	"hash/crc32"
	iofs "io/fs"
	"os"
	"path/filepath"
	"sort"
	"strings"

	"github.com/diskfs/go-diskfs/filesystem/squashfs"

	"verif/harness/internal/hx"
	"verif/harness/internal/memdev"
)

// imgRdCases feeds one real image (written to path) through the reading-side ops.
func imgRdCases(c *hx.Ctx, id string, cf cfg, dev *memdev.Dev, size int64, sb sblock, path string, r *hx.Rng) {
	if cf.metaCompressed() || cf.comp != "none" {
		return
	}
	var fsys *squashfs.FileSystem
	err, _ := safely(func() error {
		var e error
		fsys, e = squashfs.Read(dev, size, cf.start, cf.bs)
		return e
	})
	if err != nil {
		return
	}
	base := fmt.Sprintf("base=%d", cf.start)
	// ---- the whole walk --------------------------------------------------------------------------
	type row struct{ path, text string }
	var rows []row
	var refs []string      // blk:off:typ of every directory entry (for sqfs.getinode)
	var wantIno []string   // what the real getInode returns for them
	var dirRefs []string   // blk:off:size of every directory inode's listing (for sqfs.getdir)
	var wantDir []string
	walkOK := true
	rootBlk, rootOff := uint32(sb.root>>16), uint16(sb.root&0xffff)
	var rec func(p string, blk uint32, off uint16, typ uint16, depth int)
	rec = func(p string, blk uint32, off uint16, typ uint16, depth int) {
		if depth > 60 || !walkOK {
			walkOK = false
			return
		}
		v, err := fsys.VerifGetInode(blk, off, typ)
		if err != nil {
			walkOK = false
			return
		}
		var lblk uint32
		var loff uint16
		var lsize int
		switch v.Type {
		case 1:
			lblk, lsize, loff = uint32(v.F[0]), int(v.F[2])-3, uint16(v.F[3])
		case 8:
			lblk, lsize, loff = uint32(v.F[2]), int(v.F[1])-3, uint16(v.F[4])
		default:
			return
		}
		if lsize < 0 {
			walkOK = false
			return
		}
		es, err := fsys.VerifGetDirectory(lblk, loff, lsize)
		dirRefs = append(dirRefs, fmt.Sprintf("%d:%d:%d", lblk, loff, lsize))
		if err != nil {
			wantDir = append(wantDir, "err")
			walkOK = false
			return
		}
		wantDir = append(wantDir, fmt.Sprint(crc32.ChecksumIEEE([]byte(dentStr(es)))))
		for _, e := range es {
			refs = append(refs, fmt.Sprintf("%d:%d:%d", e.StartBlock, e.Offset, e.Type))
			kv, err := fsys.VerifGetInode(e.StartBlock, e.Offset, e.Type)
			if err != nil {
				wantIno = append(wantIno, "err")
				walkOK = false
				return
			}
			wantIno = append(wantIno, fmt.Sprint(crc32.ChecksumIEEE([]byte(strings.Join(inodeFields(kv), "\t")))))
			rec(join(p, e.Name), e.StartBlock, e.Offset, e.Type, depth+1)
		}
	}
	rec(".", rootBlk, rootOff, 1, 0)
	// the library's own public walk: names, kinds, owners, inode numbers, contents
	var pub func(p string, depth int)
	pub = func(p string, depth int) {
		if depth > 60 || !walkOK {
			walkOK = false
			return
		}
		var des []iofs.DirEntry
		err, _ := safely(func() error {
			var e error
			des, e = fsys.ReadDir(p)
			return e
		})
		if err != nil {
			walkOK = false
			return
		}
		for _, de := range des {
			kp := join(p, de.Name())
			info, err := de.Info()
			if err != nil {
				walkOK = false
				return
			}
			st, ok := info.Sys().(*squashfs.StatT)
			if !ok {
				walkOK = false
				return
			}
			tail := fmt.Sprintf("%d|%d|%d", st.UID, st.GID, st.Inode)
			switch {
			case de.IsDir():
				rows = append(rows, row{kp, fmt.Sprintf("%s|d|%s", kp, tail)})
				pub(kp, depth+1)
			case de.Type()&iofs.ModeSymlink != 0:
				rows = append(rows, row{kp, fmt.Sprintf("%s|l|%s|%s", kp, st.LinkTarget, tail)})
			default:
				var data []byte
				err, _ := safely(func() error {
					var e error
					data, e = fsys.ReadFile(kp)
					return e
				})
				if err != nil {
					walkOK = false
					return
				}
				rows = append(rows, row{kp, fmt.Sprintf("%s|f|%d|%d|%s", kp, len(data), crc32.ChecksumIEEE(data), tail)})
			}
		}
	}
	pub(".", 0)
	if !walkOK {
		c.Stat("corr.imgrd.skipped")
		return
	}
	sort.Slice(rows, func(i, j int) bool { return rows[i].path < rows[j].path })
	vs := make([]string, len(rows))
	for i, rw := range rows {
		vs[i] = rw.text
	}
	starts, sizes, comps := squashfs.VerifFragments(fsys)
	fr := make([]string, len(starts))
	for i := range starts {
		cc := 0
		if comps[i] {
			cc = 1
		}
		fr[i] = fmt.Sprintf("%d:%d:%d", starts[i], sizes[i], cc)
	}
	frs := "-"
	if len(fr) > 0 {
		frs = strings.Join(fr, ";")
	}
	rootV, err := fsys.VerifGetInode(rootBlk, rootOff, 1)
	if err != nil {
		return
	}
	if cid := id + "/imgrd"; c.Want(cid) {
		c.Case(cid, "sqfs.imgrd", "path="+path, base)
		c.Impl(cid, fmt.Sprintf("bs=%d", cf.bs), fmt.Sprintf("root=%d", rootV.Index), "frags="+frs, "ids="+u32s(fsys.VerifIDs()),
			fmt.Sprintf("n=%d", len(rows)), "v="+strings.Join(vs, ";"))
		c.Stat("corr.imgrd")
		c.Distinct(fmt.Sprintf("imgrd|%s|n=%d|inoblocks=%d", cf.String(), len(rows), (int(sb.dirStart)-int(sb.inodeStart))/8194+1))
	}
	// ---- getInode / getDirectory at every reference of the image ---------------------------------------
	if cid := id + "/getinode"; c.Want(cid) && len(refs) > 0 {
		c.Case(cid, "sqfs.getinode", "path="+path, base, fmt.Sprintf("tbl=%d", sb.inodeStart), fmt.Sprintf("bs=%d", cf.bs), "refs="+strings.Join(refs, ","))
		c.Impl(cid, "r="+strings.Join(wantIno, ","))
		c.Stat("corr.getinode")
	}
	// the same references announced as every other type: getInode must still find the inode (re-read path)
	if cid := id + "/getinode-anytype"; c.Want(cid) && len(refs) > 0 {
		var rs, want []string
		for k := 0; k < 24 && k < len(refs); k++ {
			var blk, off, typ int
			fmt.Sscanf(refs[r.Intn(len(refs))], "%d:%d:%d", &blk, &off, &typ)
			t2 := 1 + r.Intn(14)
			rs = append(rs, fmt.Sprintf("%d:%d:%d", blk, off, t2))
			kv, err := fsys.VerifGetInode(uint32(blk), uint16(off), uint16(t2))
			if err != nil {
				want = append(want, "err")
			} else {
				want = append(want, fmt.Sprint(crc32.ChecksumIEEE([]byte(strings.Join(inodeFields(kv), "\t")))))
			}
		}
		c.Case(cid, "sqfs.getinode", "path="+path, base, fmt.Sprintf("tbl=%d", sb.inodeStart), fmt.Sprintf("bs=%d", cf.bs), "refs="+strings.Join(rs, ","))
		c.Impl(cid, "r="+strings.Join(want, ","))
		c.Stat("corr.getinode.anytype")
	}
	if cid := id + "/getdir"; c.Want(cid) && len(dirRefs) > 0 {
		c.Case(cid, "sqfs.getdir", "path="+path, base, fmt.Sprintf("tbl=%d", sb.dirStart), "refs="+strings.Join(dirRefs, ","))
		c.Impl(cid, "r="+strings.Join(wantDir, ","))
		c.Stat("corr.getdir")
	}
	// ---- readMetadata at block starts found by walking the headers, any offset, sizes that cross blocks ------
	for _, tb := range []struct {
		name  string
		dir   bool
		start uint64
		end   uint64
	}{{"ino", false, sb.inodeStart, sb.dirStart}, {"dir", true, sb.dirStart, sb.fragStart}} {
		cid := id + "/readmeta-" + tb.name
		if !c.Want(cid) || tb.end <= tb.start {
			continue
		}
		// block offsets inside the table (headers are uncompressed sizes | 0x8000 here)
		var offs, lens []int
		for pos := int64(tb.start); pos+2 <= int64(tb.end); {
			h := dev.Bytes(cf.start+pos, 2)
			n := int(h[0]) | int(h[1]&0x7f)<<8
			offs = append(offs, int(pos-int64(tb.start)))
			lens = append(lens, n)
			pos += int64(n) + 2
		}
		if len(offs) == 0 {
			continue
		}
		total := 0
		for _, n := range lens {
			total += n
		}
		var reqs, want []string
		for k := 0; k < 40; k++ {
			bi := r.Intn(len(offs))
			rest := 0
			for _, n := range lens[bi:] {
				rest += n
			}
			off := r.Intn(lens[bi] + 1)
			if r.Chance(10) {
				off = lens[bi] + 1 + r.Intn(50) // beyond the block: an error in both
			}
			var size int
			switch r.Intn(4) {
			case 0:
				size = r.Intn(64)
			case 1:
				size = lens[bi] - off + r.Intn(200) // just across the block end
			default:
				size = r.Intn(rest - min(off, rest) + 1)
			}
			if size < 0 {
				size = 0
			}
			if size > rest-min(off, rest) {
				size = rest - min(off, rest) // stay inside the table: what follows it is another table
			}
			reqs = append(reqs, fmt.Sprintf("%d:%d:%d", offs[bi], off, size))
			var got []byte
			err, _ := safely(func() error {
				var e error
				got, e = fsys.VerifReadMetadata(tb.dir, uint32(offs[bi]), uint16(off), size)
				return e
			})
			if err != nil {
				want = append(want, "err")
			} else {
				want = append(want, fmt.Sprintf("%d:%d", len(got), crc32.ChecksumIEEE(got)))
			}
		}
		c.Case(cid, "sqfs.readmeta", "path="+path, base, fmt.Sprintf("first=%d", tb.start), "reqs="+strings.Join(reqs, ","))
		c.Impl(cid, "r="+strings.Join(want, ","))
		c.Stat("corr.readmeta")
		if len(offs) > 1 {
			c.Stat("corr.readmeta.multiblock")
		}
	}
}

// imgRdFamilies: images built for the reading-side correspondence — many small files so that the
// inode table spans several metadata blocks while the directory table stays inside one (listings
// beyond the first directory-table block are the recorded finding sqfs-dir-startblock-index),
// files with full blocks and tails sharing fragment blocks, symlinks, nested directories.
func imgRdFamilies(c *hx.Ctx) {
	r := hx.NewRng(c.Seed*7919 + 77)
	n := c.N(4, 40)
	for i := 0; i < n; i++ {
		id := fmt.Sprintf("d/imgrd/%d", i)
		rr := r.Fork()
		if !c.Want(id) && !c.Want(id+"/imgrd") && !c.Want(id+"/getinode") && !c.Want(id+"/getinode-anytype") && !c.Want(id+"/getdir") &&
			!c.Want(id+"/readmeta-ino") && !c.Want(id+"/readmeta-dir") {
			continue
		}
		bs := hx.Pick(rr, []int64{4096, 4096, 8192})
		cf := cfg{comp: "none", bs: bs, cache: -1, cwdWS: true, nonExport: rr.Chance(30)}
		if rr.Chance(40) {
			cf.start = int64(1+rr.Intn(16)) * 4096
		}
		root := mkdir(".")
		nfiles := 0
		switch i % 4 {
		case 0:
			nfiles = 270 + rr.Intn(120) // inode table of two blocks
		case 1:
			nfiles = 520 + rr.Intn(60) // three blocks
		case 2:
			nfiles = 20 + rr.Intn(60)
		default:
			nfiles = 256 + rr.Intn(8) // around the 256-entry header limit
		}
		dirs := []*node{root}
		for k := 0; k < 1+rr.Intn(4); k++ {
			d := hx.Pick(rr, dirs).add(mkdir(fmt.Sprintf("d%d", k)))
			dirs = append(dirs, d)
		}
		budget := 48 << 10
		for k := 0; k < nfiles; k++ {
			d := hx.Pick(rr, dirs)
			name := fmt.Sprintf("%d", k)
			switch {
			case rr.Chance(6):
				d.add(mklink("l"+name, hx.Pick(rr, []string{"d0", "0", "../x", "./" + strings.Repeat("y", 1+rr.Intn(40))})))
			case rr.Chance(12) && budget > 0:
				sz := hx.Pick(rr, []int{int(bs), int(bs) + 1 + rr.Intn(300), 2*int(bs) - 1, 1 + rr.Intn(int(bs) - 1), int(bs) - 1})
				budget -= sz
				d.add(file(rr, name, hx.Pick(rr, []string{"rand", "mixed", "zero"}), sz))
			default:
				d.add(file(rr, name, "rand", rr.Intn(40)))
			}
		}
		if root.dirTableBytes() > 7800 {
			c.Stat("corr.imgrd.dirtable-too-big")
			continue
		}
		b := build(root, cf)
		if b.err != nil {
			continue
		}
		sb := parseSB(b.dev.Bytes(cf.start, 96))
		if sb.magic != 0x73717368 || sb.bytesUsed > 4<<20 {
			continue
		}
		p := filepath.Join(c.Scratch, fmt.Sprintf("imgrd-%d.sqfs", i))
		if err := os.WriteFile(p, b.dev.Bytes(0, int(cf.start)+int(sb.bytesUsed)), 0o644); err != nil {
			continue
		}
		imgRdCases(c, id, cf, b.dev, b.size, sb, p, rr)
	}
}
