package sqfs

// Correspondence for the inode and directory-table codecs (Lean Model/Sqfs/Inode.lean):
//   * generated inodes / listings through the real encoders and decoders (hooks VerifInodeBytes,
//     VerifInodeParse, VerifDirBytes, VerifDirParse) against encodeInode / decodeInode /
//     encodeListing / decodeDir;
//   * the inode table and the directory table of real images with uncompressed metadata: the model
//     decodes the whole streams, re-encodes them to the same bytes, and the writers' chunking of
//     those streams into 8 KiB blocks (chunkGT over the inode sizes / listing sizes) must give the
//     block sizes seen in the write log.

import (
	"encoding/hex"
	"fmt"
	"hash/crc32"
	"sort"
	"strings"

	"github.com/diskfs/go-diskfs/filesystem/squashfs"

	"verif/harness/internal/hx"
	"verif/harness/internal/memdev"
)

func u64s(xs []uint64) string {
	if len(xs) == 0 {
		return "-"
	}
	s := make([]string, len(xs))
	for i, x := range xs {
		s[i] = fmt.Sprint(x)
	}
	return strings.Join(s, ",")
}

func u32s(xs []uint32) string {
	if len(xs) == 0 {
		return "-"
	}
	s := make([]string, len(xs))
	for i, x := range xs {
		s[i] = fmt.Sprint(x)
	}
	return strings.Join(s, ",")
}

// inodeFields renders an inode the way the Lean driver does (fields the model has).
func inodeFields(v squashfs.VerifInode) []string {
	f := v.F
	if v.Type == 8 && len(f) == 7 {
		f = f[:6] // the index count is not a field of the model (it must be 0)
	}
	return []string{fmt.Sprintf("t=%d", v.Type), fmt.Sprintf("h=%d,%d,%d,%d,%d", v.Mode, v.UID, v.GID, v.MTime, v.Index), "f=" + u64s(f), "bl=" + u32s(v.Blocks),
		"tg=" + hex.EncodeToString([]byte(v.Target))}
}

func inodeArgs(v squashfs.VerifInode) []string { return inodeFields(v) }

func randInode(r *hx.Rng, bs int) squashfs.VerifInode {
	u32 := func() uint64 {
		switch r.Intn(6) {
		case 0:
			return 0
		case 1:
			return 0xffffffff
		case 2:
			return uint64(r.Intn(70000))
		}
		return r.U64() & 0xffffffff
	}
	u16 := func() uint64 { return u32() & 0xffff }
	v := squashfs.VerifInode{Type: hx.Pick(r, []uint16{1, 2, 3, 8, 9}), Mode: uint16(r.Intn(0o1000)), UID: uint16(u16()), GID: uint16(u16()), MTime: uint32(u32()), Index: uint32(u32())}
	blocks := func(size uint64, frag uint64) []uint32 {
		n := int(size / uint64(bs))
		if size%uint64(bs) > 0 && frag == 0xffffffff {
			n++
		}
		out := make([]uint32, n)
		for i := range out {
			sz := uint32(r.Intn(bs + 1))
			if r.Chance(50) {
				sz |= 1 << 24
			}
			out[i] = sz
		}
		return out
	}
	fileSize := func() uint64 {
		switch r.Intn(5) {
		case 0:
			return 0
		case 1:
			return uint64(bs * (1 + r.Intn(4)))
		case 2:
			return uint64(bs*r.Intn(40) + 1 + r.Intn(bs-1))
		}
		return uint64(r.Intn(3 * bs))
	}
	switch v.Type {
	case 1:
		v.F = []uint64{u32(), u32(), u16(), u16(), u32()}
	case 8:
		v.F = []uint64{u32(), u32(), u32(), u32(), u16(), u32()}
	case 2:
		fs := fileSize()
		frag := hx.Pick(r, []uint64{0xffffffff, 0, 3, u32()})
		v.F = []uint64{u32(), frag, u32(), fs}
		v.Blocks = blocks(fs, frag)
	case 9:
		fs := fileSize()
		frag := hx.Pick(r, []uint64{0xffffffff, 0, 3, u32()})
		v.F = []uint64{r.U64() >> uint(r.Intn(40)), fs, r.U64() >> uint(r.Intn(64)), u32(), frag, u32(), u32()}
		v.Blocks = blocks(fs, frag)
	case 3:
		v.F = []uint64{u32()}
		v.Target = strings.Repeat("../", r.Intn(4)) + hx.Pick(r, []string{"t", "target.txt", "dir/sub/leaf", "ü-ñ", strings.Repeat("x", 1+r.Intn(300))})
	}
	return v
}

func dentStr(es []squashfs.VerifDirEntry) string {
	if len(es) == 0 {
		return "-"
	}
	s := make([]string, len(es))
	for i, e := range es {
		s[i] = fmt.Sprintf("%d:%d:%d:%s:%d", e.Offset, e.InodeNumber, e.Type, hex.EncodeToString([]byte(e.Name)), e.StartBlock)
	}
	return strings.Join(s, ";")
}

func codecCases(c *hx.Ctx, r *hx.Rng) {
	n := c.N(150, 3000)
	for i := 0; i < n; i++ {
		id := fmt.Sprintf("d/inode/%d", i)
		rr := r.Fork()
		if !c.Want(id) && !c.Want(id+"p") {
			continue
		}
		bs := hx.Pick(rr, []int{4096, 8192, 131072})
		v := randInode(rr, bs)
		b, err := squashfs.VerifInodeBytes(v)
		if err != nil {
			continue
		}
		if c.Want(id) {
			c.Case(id, "sqfs.inode", inodeArgs(v)...)
			c.Impl(id, "b="+hex.EncodeToString(b), fmt.Sprintf("n=%d", len(b)))
			c.Stat("corr.inode")
		}
		junk := rr.Bytes(rr.Intn(20))
		stream := append(append([]byte(nil), b...), junk...)
		pv, used, perr := squashfs.VerifInodeParse(stream, bs)
		if perr == nil && c.Want(id+"p") {
			c.Case(id+"p", "sqfs.inodeparse", "b="+hex.EncodeToString(stream), fmt.Sprintf("bs=%d", bs))
			c.Impl(id+"p", append(inodeFields(pv), fmt.Sprintf("used=%d", used))...)
			c.Stat("corr.inodeparse")
		}
	}
	n = c.N(60, 1200)
	for i := 0; i < n; i++ {
		id := fmt.Sprintf("d/dir/%d", i)
		rr := r.Fork()
		if !c.Want(id) && !c.Want(id+"p") {
			continue
		}
		base := uint32(0)
		if rr.Chance(50) {
			base = uint32(rr.Intn(100000))
		}
		k := hx.Pick(rr, []int{0, 1, 2, 5, 40, 256, 257, 300, 600})
		if k > 40 && !c.Thorough() && i%6 != 0 {
			k = rr.Intn(12)
		}
		var es []squashfs.VerifDirEntry
		sb := uint32(rr.Intn(3)) * 8100
		ino := base + uint32(rr.Intn(20))
		for j := 0; j < k; j++ {
			if rr.Chance(3) {
				sb += uint32(1 + rr.Intn(8194))
			}
			ino += uint32(1 + rr.Intn(3))
			if ino >= base+65536 {
				ino = base + 65535
			}
			name := fmt.Sprintf("%s%d", hx.Pick(rr, []string{"f", "file-", "Long_Name_With_Many_Characters_", "ü"}), j)
			if rr.Chance(2) {
				name = strings.Repeat("n", 256)
			}
			es = append(es, squashfs.VerifDirEntry{Offset: uint16(rr.Intn(8192)), InodeNumber: ino, Type: hx.Pick(rr, []uint16{1, 2, 3}), Name: name, StartBlock: sb})
		}
		b := squashfs.VerifDirBytes(base, es)
		if c.Want(id) {
			c.Case(id, "sqfs.dir", fmt.Sprintf("base=%d", base), "es="+dentStr(es))
			c.Impl(id, "b="+hex.EncodeToString(b))
			c.Stat("corr.dir")
		}
		if pes, err := squashfs.VerifDirParse(b); err == nil && c.Want(id+"p") {
			c.Case(id+"p", "sqfs.dirparse", "b="+hex.EncodeToString(b))
			c.Impl(id+"p", "es="+dentStr(pes))
			c.Stat("corr.dirparse")
		}
	}
}

// tableCases: the inode table and the directory table of a real image whose metadata blocks are
// stored uncompressed. inoPay / dirPay are the payload sizes of the blocks as cut from the write log.
func tableCases(c *hx.Ctx, id string, root *node, cf cfg, dev *memdev.Dev, sb sblock, inoPay, dirPay []int) {
	stream := func(start uint64, pays []int) []byte {
		var out []byte
		pos := int64(start)
		for _, p := range pays {
			out = append(out, dev.Bytes(cf.start+pos+2, p)...)
			pos += int64(p) + 2
		}
		return out
	}
	is := stream(sb.inodeStart, inoPay)
	ds := stream(sb.dirStart, dirPay)
	if len(is) > 60000 || len(ds) > 60000 {
		return
	}
	var sizes, listing []int
	var lines []string
	var dirs []squashfs.VerifInode
	for pos := 0; pos < len(is); {
		v, used, err := squashfs.VerifInodeParse(is[pos:], int(cf.bs))
		if err != nil || used == 0 {
			c.Fail(id+"/inodetable", tagNone, fmt.Sprintf("the real decoder cannot walk the inode table at byte %d: %v", pos, err), cf.String())
			return
		}
		if v.Type == 8 && len(v.F) == 7 && v.F[6] != 0 {
			return // directory index entries are not modelled (Finalize never writes them)
		}
		sizes = append(sizes, used)
		lines = append(lines, strings.Join(inodeFields(v), "\t"))
		if v.Type == 1 {
			listing = append(listing, int(v.F[2])-3)
			dirs = append(dirs, v)
		}
		if v.Type == 8 {
			listing = append(listing, int(v.F[1])-3)
			dirs = append(dirs, v)
		}
		pos += used
	}
	if cid := id + "/inodetable"; c.Want(cid) {
		c.Case(cid, "sqfs.inodetable", "b="+hex.EncodeToString(is), fmt.Sprintf("bs=%d", cf.bs))
		c.Impl(cid, fmt.Sprintf("n=%d", len(sizes)), "sizes="+joinInts(sizes), fmt.Sprintf("crc=%d", crc32.ChecksumIEEE([]byte(strings.Join(lines, "\n")))), "re=1")
		c.Stat("corr.inodetable")
	}
	if cid := id + "/chunks-ino"; c.Want(cid) {
		c.Case(cid, "sqfs.chunks", "gt="+joinInts(sizes))
		c.Impl(cid, "c="+joinInts(inoPay))
		c.Stat("corr.chunks")
	}
	if cid := id + "/chunks-dir"; c.Want(cid) {
		c.Case(cid, "sqfs.chunks", "gt="+joinInts(listing))
		c.Impl(cid, "c="+joinInts(dirPay))
		c.Stat("corr.chunks")
	}
	if cid := id + "/dirtable"; c.Want(cid) {
		if es, err := squashfs.VerifDirParse(ds); err == nil {
			c.Case(cid, "sqfs.dirparse", "b="+hex.EncodeToString(ds))
			c.Impl(cid, "es="+dentStr(es))
			c.Stat("corr.dirtable")
		}
	}
	// single listings: the model's encoder must reproduce the bytes Finalize wrote (header grouping included)
	pos, shown := 0, 0
	for k, l := range listing {
		if l < 0 || pos+l > len(ds) {
			break
		}
		cid := fmt.Sprintf("%s/listing-%d", id, k)
		if l > 0 && shown < 4 && c.Want(cid) {
			if es, err := squashfs.VerifDirParse(ds[pos : pos+l]); err == nil {
				c.Case(cid, "sqfs.dir", "base=0", "es="+dentStr(es))
				c.Impl(cid, "b="+hex.EncodeToString(ds[pos:pos+l]))
				c.Stat("corr.listing")
				shown++
			}
		}
		pos += l
	}
	_ = dirs
	// the pure tree reader of the model over the two streams must show the workspace tree
	if cid := id + "/walkp"; c.Want(cid) {
		exp := expectedView(root)
		keys := make([]string, 0, len(exp))
		for k := range exp {
			keys = append(keys, k)
		}
		sort.Strings(keys)
		vs := make([]string, 0, len(keys))
		for _, k := range keys {
			e := exp[k]
			switch e.kind {
			case "dir":
				vs = append(vs, k+"|d")
			case "link":
				vs = append(vs, k+"|l|"+e.sum)
			default:
				vs = append(vs, fmt.Sprintf("%s|f|%d", k, e.size))
			}
		}
		c.Case(cid, "sqfs.walkp", "i="+hex.EncodeToString(is), "d="+hex.EncodeToString(ds), fmt.Sprintf("bs=%d", cf.bs),
			fmt.Sprintf("rblk=%d", sb.root>>16), fmt.Sprintf("roff=%d", sb.root&0xffff))
		c.Impl(cid, fmt.Sprintf("n=%d", len(keys)), "v="+strings.Join(vs, ";"))
		c.Stat("corr.purewalk")
	}
}
