package sqfs

// Correspondence for the region model (Lean Model/Sqfs/Regions.lean): every generated image's
// real WriteAt log and real superblock fields against `finalize` run on the sizes of the pieces.
//
// The pieces are cut from the log by COUNTS that do not come from the log or from the table
// starts: the number of data blocks from the tree, the number of fragment blocks / inodes / ids
// from the superblock counters, the number of metadata blocks of the fragment / export / id tables
// from the writers' chunking rule, the number of inode-table blocks by walking the block headers
// in the image; the directory table gets the rest.  The model then computes every offset, the
// index lengths, the table starts and bytes_used from the lengths alone.

import (
	"encoding/binary"
	"fmt"
	"strings"

	"verif/harness/internal/hx"
	"verif/harness/internal/memdev"
)

func (c cfg) optLen() int {
	switch c.comp {
	case "gzip", "gzip0", "xz", "lz4":
		return 8
	case "zstd":
		return 4
	}
	return 0
}

// metaCompressed: the metadata tables go through the data compressor (NoCompressData switches it off;
// NoCompressInodes is not consulted by Finalize).
func (c cfg) metaCompressed() bool { return c.comp != "none" && !c.noData }

func (n *node) dataBlocks(bs int64) int {
	t := 0
	for _, k := range n.kids {
		switch {
		case k.dir:
			t += k.dataBlocks(bs)
		case k.isLink:
		default:
			t += int(int64(len(k.data)) / bs)
		}
	}
	return t
}

func ceilDiv(a, b int) int { return (a + b - 1) / b }

func joinInts(xs []int) string {
	if len(xs) == 0 {
		return "-"
	}
	s := make([]string, len(xs))
	for i, x := range xs {
		s[i] = fmt.Sprint(x)
	}
	return strings.Join(s, ",")
}

func regionCase(c *hx.Ctx, id string, root *node, cf cfg, dev *memdev.Dev) {
	id += "/regions"
	if !c.Want(id) {
		return
	}
	sb := parseSB(dev.Bytes(cf.start, 96))
	if sb.magic != 0x73717368 {
		return
	}
	type wr struct{ off, n int }
	var log []wr
	for _, e := range dev.Log {
		if e.Sync {
			continue
		}
		log = append(log, wr{int(e.Off - cf.start), e.Len})
	}
	if len(log) == 0 {
		return
	}
	body := log[:len(log)-1]
	take := func(k int) ([]int, bool) {
		if k < 0 || k > len(body) {
			return nil, false
		}
		out := make([]int, k)
		for i := 0; i < k; i++ {
			out[i] = body[i].n
		}
		body = body[k:]
		return out, true
	}
	payload := func(xs []int) ([]int, bool) {
		out := make([]int, len(xs))
		for i, x := range xs {
			if x < 2 {
				return nil, false
			}
			out[i] = x - 2
		}
		return out, true
	}
	fail := func(msg string) {
		c.Fail(id, tagNone, "write log cannot be cut into the regions of Finalize: "+msg, cf.String())
	}
	opt := cf.optLen()
	if opt > 0 {
		if o, ok := take(1); !ok || o[0] != opt {
			fail(fmt.Sprintf("first write is not the %d compressor option bytes", opt))
			return
		}
	}
	nData := root.dataBlocks(cf.bs)
	data, ok1 := take(nData)
	frags, ok2 := take(int(sb.frags))
	if !ok1 || !ok2 {
		fail("fewer writes than data and fragment blocks")
		return
	}
	// inode table blocks: walk the headers in the image
	nIno := 0
	for pos := sb.inodeStart; pos < sb.dirStart; nIno++ {
		h := binary.LittleEndian.Uint16(dev.Bytes(cf.start+int64(pos), 2))
		pos += 2 + uint64(h&0x7fff)
		if nIno > 1<<20 {
			break
		}
	}
	inoW, ok := take(nIno)
	if !ok {
		fail("fewer writes than inode table blocks")
		return
	}
	nFT := ceilDiv(int(sb.frags)*16, 8192)
	nEx := 0
	if !cf.nonExport {
		nEx = ceilDiv(int(sb.inodes)*8, 8192) + 1
	}
	nID := ceilDiv(int(sb.idCount)*4, 8192)
	nDir := len(body) - (nFT + 1) - nEx - (nID + 1)
	dirW, ok := take(nDir)
	if !ok {
		fail("no writes left for the directory table")
		return
	}
	ftW, _ := take(nFT)
	ftIdx, _ := take(1)
	var exW, exIdx []int
	if !cf.nonExport {
		exW, _ = take(nEx - 1)
		exIdx, _ = take(1)
	}
	idW, _ := take(nID)
	idIdx, ok := take(1)
	if !ok || len(body) != 0 {
		fail("counts do not add up")
		return
	}
	ino, k1 := payload(inoW)
	dir, k2 := payload(dirW)
	ft, k3 := payload(ftW)
	ex, k4 := payload(exW)
	idp, k5 := payload(idW)
	if !(k1 && k2 && k3 && k4 && k5) {
		fail("a metadata block write shorter than its header")
		return
	}
	_, _, _ = ftIdx, exIdx, idIdx // the index lengths are computed by the model and compared through w=
	exArg := "none"
	if !cf.nonExport {
		exArg = joinInts(ex)
	}
	c.Case(id, "sqfs.regions", fmt.Sprintf("opt=%d", opt), "data="+joinInts(data), "frags="+joinInts(frags), "ino="+joinInts(ino),
		"dir="+joinInts(dir), "ft="+joinInts(ft), "ex="+exArg, "id="+joinInts(idp))
	ws := make([]string, len(log))
	for i, w := range log {
		ws[i] = fmt.Sprintf("%d:%d", w.off, w.n)
	}
	c.Impl(id, "w="+strings.Join(ws, ","), fmt.Sprintf("inS=%d", sb.inodeStart), fmt.Sprintf("dS=%d", sb.dirStart), fmt.Sprintf("fS=%d", sb.fragStart),
		fmt.Sprintf("eS=%d", sb.exportStart), fmt.Sprintf("idS=%d", sb.idStart), fmt.Sprintf("xS=%d", sb.xattrStart), fmt.Sprintf("used=%d", sb.bytesUsed))
	c.Stat("corr.regions")
	// the chunking rule of the three lookup tables, where the stored sizes are the payload sizes
	if !cf.metaCompressed() {
		tableCases(c, id, root, cf, dev, sb, ino, dir)
		for _, t := range []struct {
			name string
			e, n int
			real []int
			on   bool
		}{{"ft", 16, int(sb.frags), ft, true}, {"ex", 8, int(sb.inodes), ex, !cf.nonExport}, {"id", 4, int(sb.idCount), idp, true}} {
			if !t.on {
				continue
			}
			cid := id + "/chunks-" + t.name
			c.Case(cid, "sqfs.chunks", fmt.Sprintf("e=%d", t.e), fmt.Sprintf("n=%d", t.n))
			c.Impl(cid, "c="+joinInts(t.real))
			c.Stat("corr.chunks")
		}
	}
}
