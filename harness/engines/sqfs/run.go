package sqfs

import (
	"fmt"
	"os"
	"sort"
	"strings"
	"syscall"

	"github.com/diskfs/go-diskfs/filesystem/squashfs"

	"verif/harness/internal/hx"
)

// Run is the engine entry point.
func Run(c *hx.Ctx) {
	var rl syscall.Rlimit
	if syscall.Getrlimit(syscall.RLIMIT_NOFILE, &rl) == nil && rl.Cur < rl.Max {
		rl.Cur = rl.Max
		_ = syscall.Setrlimit(syscall.RLIMIT_NOFILE, &rl)
	}
	witnesses(c)
	families(c)
	straddle(c)
	random(c)
	correspondence(c)
	imgRdFamilies(c) // reading side over image bytes (imgrd.go)
	imgWrFamilies(c) // writing side down to the bytes (imgwr.go)
	lookupTables(c)  // fragment / id / export tables at the block boundaries (lookup.go)
	frag512Image(c)  // one image with exactly 512 fragment blocks (lookup.go)
}

type caseOut struct {
	v   view
	b   built
	fs  *squashfs.FileSystem
	bad bool
}

// dirTableBytes estimates the uncompressed size of the directory table (12-byte header per
// directory with entries + 8 + len(name) per entry): the recorded defect sqfs-dir-startblock-index
// needs more than one 8 KiB metadata block of listings.
func (n *node) dirTableBytes() int {
	t := 0
	if len(n.kids) > 0 {
		t += 12
	}
	for _, k := range n.kids {
		t += 8 + len(k.name)
		if k.dir {
			t += k.dirTableBytes()
		}
	}
	return t
}

func (n *node) maxKids() int {
	m := len(n.kids)
	for _, k := range n.kids {
		if k.dir {
			if x := k.maxKids(); x > m {
				m = x
			}
		}
	}
	return m
}

// hasDangling: some symlink has an absolute target (never resolvable inside the workspace).
func (n *node) hasDangling() bool {
	for _, k := range n.kids {
		if (k.isLink && strings.HasPrefix(k.link, "/")) || (k.dir && k.hasDangling()) {
			return true
		}
	}
	return false
}

func (n *node) hasLink() bool {
	for _, k := range n.kids {
		if k.isLink || (k.dir && k.hasLink()) {
			return true
		}
	}
	return false
}

func checkCase(c *hx.Ctx, id string, root *node, cf cfg) *caseOut {
	repro := fmt.Sprintf("%s tree{%s}", cf, root.describe())
	c.Stat("cfg.comp=" + cf.comp)
	c.Stat(fmt.Sprintf("cfg.bs=%d", cf.bs))
	if cf.start != 0 {
		c.Stat("cfg.start=nonzero")
	}
	if cf.cache >= 0 {
		c.Stat(fmt.Sprintf("cfg.cache=%d", cf.cache))
	}
	b := build(root, cf)
	if b.err != nil {
		tag := tagNone
		if root.hasLink() && !cf.cwdWS && strings.Contains(b.err.Error(), "unable to read target for symlink") {
			tag = tagSymlink
		}
		if root.hasDangling() && strings.Contains(b.err.Error(), "unable to list xattrs for") && strings.Contains(b.err.Error(), "no such file or directory") {
			tag = tagDangling
		}
		c.Fail(id+"/build", tag, b.err.Error(), repro)
		return nil
	}
	c.OK(id + "/build")
	d, f, l, _ := root.count()
	exp := expectedView(root)

	// ---- superblock clause -----------------------------------------------------------------------
	_, sberr, sbtag := checkSuperblock(b.dev, cf, d+f+l+1)
	regionCase(c, id, root, cf, b.dev) // model-vs-impl: write log and table starts against the Lean region model

	// ---- view clause -----------------------------------------------------------------------------
	var fsys *squashfs.FileSystem
	err, _ := safely(func() error {
		var e error
		fsys, e = squashfs.Read(b.dev, b.size, cf.start, cf.bs)
		return e
	})
	if err != nil {
		c.Fail(id+"/view", tagNone, "Read: "+err.Error(), repro)
		if sberr != nil {
			c.Fail(id+"/sb", tagNone, sberr.Error(), repro)
		}
		return &caseOut{b: b, bad: true}
	}
	if sberr != nil {
		tag := tagNone
		if sbtag == "gap?" {
			// every hole must be the unused rest of a fragment block's slot
			starts, sizes, _ := squashfs.VerifFragments(fsys)
			slot := map[int64]int64{}
			for i := range starts {
				slot[int64(starts[i])+int64(sizes[i])] = int64(starts[i]) + cf.bs
			}
			w := written(b.dev, cf.start)
			ok := len(starts) > 0
			for i := 0; i+1 < len(w); i++ {
				if hi, is := slot[w[i].hi]; !is || hi != w[i+1].lo {
					ok = false
				}
			}
			if ok {
				tag = tagGap
			}
		}
		c.Fail(id+"/sb", tag, sberr.Error(), repro)
	} else {
		c.OK(id + "/sb")
	}
	if cf.cache >= 0 {
		fsys.SetCacheSize(cf.cache)
	}
	lv, dirErr := libWalk(fsys)
	verr, vtag := func() (error, string) {
		cmp := cmpViews(exp, lv)
		if cmp == nil && len(dirErr) == 0 {
			return nil, ""
		}
		first := cmp
		keys := make([]string, 0, len(dirErr))
		for k := range dirErr {
			keys = append(keys, k)
		}
		sort.Strings(keys)
		if len(keys) > 0 {
			first = fmt.Errorf("ReadDir %q: %v", keys[0], dirErr[keys[0]])
		}
		// recorded defect: directory inodes carry the index of the 8 KiB metadata block, not its byte offset
		if root.dirTableBytes() > 8192 && len(dirErr) > 0 {
			return fmt.Errorf("%v [directory table of about %d bytes spans several metadata blocks]", first, root.dirTableBytes()), tagDirIdx
		}
		if root.maxKids() > 256 && len(dirErr) > 0 {
			for _, e := range dirErr {
				if strings.Contains(e.Error(), "instead of max 256") {
					return fmt.Errorf("%v [a directory header counts more than 256 entries]", first), tagBig
				}
			}
		}
		return first, tagNone
	}()
	if verr != nil {
		c.Fail(id+"/view", vtag, "library view differs from the workspace: "+verr.Error(), repro)
		return &caseOut{v: lv, b: b, fs: fsys, bad: true}
	}
	wv, werr := fsWalkDir(fsys)
	if werr != nil {
		c.Fail(id+"/view", tagNone, werr.Error(), repro)
		return &caseOut{v: lv, b: b, fs: fsys, bad: true}
	}
	for k, e := range lv {
		w, ok := wv[k]
		if !ok || w.kind != e.kind || (e.kind == "file" && w != e) {
			c.Fail(id+"/view", tagNone, fmt.Sprintf("fs.WalkDir + chunked Read disagree with ReadFile at %q: %v vs %v", k, w, e), repro)
			return &caseOut{v: lv, b: b, fs: fsys, bad: true}
		}
	}
	c.OK(id + "/view")
	c.Distinct(fmt.Sprintf("%s|%s", cf, root.describe()))
	return &caseOut{v: lv, b: b, fs: fsys}
}

// ---- data patterns ------------------------------------------------------------------------------

func pattern(r *hx.Rng, kind string, n int) []byte {
	b := make([]byte, n)
	switch kind {
	case "zero":
	case "rep":
		for i := range b {
			b[i] = "squashfs-verif "[i%15]
		}
	case "rand":
		copy(b, r.Bytes(n))
	case "mixed": // zero runs of whole blocks between random stretches
		copy(b, r.Bytes(n))
		for i := 0; i+4096 <= n; i += 8192 {
			for j := i; j < i+4096; j++ {
				b[j] = 0
			}
		}
	}
	return b
}

func file(r *hx.Rng, name, kind string, n int) *node {
	return &node{name: name, data: pattern(r, kind, n)}
}

func baseTree(r *hx.Rng, bs int) *node {
	root := mkdir(".")
	root.add(mkdir("emptydir"))
	root.add(file(r, "empty", "zero", 0))
	root.add(file(r, "one", "rand", 1))
	root.add(file(r, "sub-block.txt", "rep", bs-1))
	root.add(file(r, "exact1", "rand", bs))
	root.add(file(r, "exact2z", "zero", 2*bs))
	root.add(file(r, "tail", "rand", 2*bs+77))
	root.add(file(r, "tailrep", "rep", bs+bs/2))
	root.add(file(r, "mixed", "mixed", 3*bs+5))
	d := root.add(mkdir("dir"))
	d.add(file(r, "inner.txt", "rep", 100))
	d.add(mkdir("deeper")).add(file(r, "leaf", "rand", 300))
	d.add(mklink("link-rel", "inner.txt"))
	d.add(mklink("link-up", "../one"))
	root.add(mklink("link-into", "dir/deeper/leaf"))
	root.add(mklink("link-dir", "dir"))
	return root
}

func witnesses(c *hx.Ctx) {
	// symlink with the process working directory elsewhere
	if id := "w/symlink-cwd"; c.Want(id) {
		r := hx.NewRng(c.Seed + 11)
		root := mkdir(".")
		root.add(file(r, "target.txt", "rep", 10))
		root.add(mklink("ln", "target.txt"))
		checkCase(c, id, root, cfg{comp: "none", bs: 4096, cache: -1})
	}
	// a symlink whose target does not exist (any absolute target, for instance)
	if id := "w/symlink-dangling"; c.Want(id) {
		root := mkdir(".")
		root.add(mklink("abs", "/etc/no-such-file-anywhere"))
		checkCase(c, id, root, cfg{comp: "none", bs: 4096, cache: -1, cwdWS: true})
	}
	// listings larger than one metadata block
	for _, n := range []int{200, 700} {
		if n == 700 && !c.Thorough() {
			continue
		}
		if id := fmt.Sprintf("w/dirtable-%d", n); c.Want(id) {
			r := hx.NewRng(c.Seed + 12)
			root := mkdir(".")
			for i := 0; i < n; i++ {
				d := root.add(mkdir(fmt.Sprintf("directory-with-a-long-name-%04d", i)))
				d.add(file(r, "f", "rand", 3))
			}
			checkCase(c, id, root, cfg{comp: "none", bs: 4096, cache: -1})
			checkCase(c, id+"-gz", root, cfg{comp: "gzip", bs: 4096, cache: -1})
		}
	}
	// one directory with more than 256 small entries
	if id := "w/bigdir-symlinks"; c.Want(id) {
		root := mkdir(".")
		for i := 0; i < 300; i++ {
			root.add(mklink(fmt.Sprintf("l%03d", i), "."))
		}
		checkCase(c, id, root, cfg{comp: "none", bs: 4096, cache: -1, cwdWS: true})
	}
	if id := "w/bigdir-files"; c.Want(id) {
		r := hx.NewRng(c.Seed + 13)
		root := mkdir(".")
		d := root.add(mkdir("many"))
		for i := 0; i < 400; i++ {
			d.add(file(r, fmt.Sprintf("f%03d", i), "rand", i%5))
		}
		checkCase(c, id, root, cfg{comp: "none", bs: 4096, cache: -1})
		checkCase(c, id+"-zstd", root, cfg{comp: "zstd", bs: 4096, cache: -1})
	}
}

func families(c *hx.Ctx) {
	comps := []string{"none", "gzip", "gzip0", "xz", "lz4", "zstd"}
	bss := []int64{4096, 8192, 65536, 131072, 1 << 20}
	if !c.Thorough() {
		bss = []int64{4096, 131072}
	}
	// the family tree is the same for every member so that all views can be compared; block-size
	// relative file sizes are taken from the smallest block size and a few files hit the larger ones
	r := hx.NewRng(c.Seed*7919 + 3)
	root := baseTree(r, 4096)
	root.add(file(r, "big-exact", "mixed", 131072*2))
	root.add(file(r, "big-tail", "rand", 131072+4097))
	if c.Thorough() {
		root.add(file(r, "huge", "mixed", 1<<20+12345))
		root.add(file(r, "huge-exact", "rep", 2<<20))
	}
	exp := expectedView(root)
	var ref view
	n := 0
	for _, comp := range comps {
		for _, bs := range bss {
			for _, start := range []int64{0, 1 << 20} {
				for opt := 0; opt < 6; opt++ {
					cf := cfg{comp: comp, bs: bs, start: start, cache: -1, cwdWS: true}
					switch opt {
					case 1:
						cf.noFrag = true
					case 2:
						cf.noData, cf.noFragC = true, true
					case 3:
						cf.noInodes, cf.noPad = true, true
					case 4:
						cf.cache = 0
					case 5:
						cf.cache = int(bs)
						cf.nonExport = true
					}
					if !c.Thorough() {
						// quick: every compressor at 4 KiB blocks; the option sweep for gzip; 128 KiB blocks for
						// three compressors; a non-zero start for two; the thorough tier runs the whole product
						keep := false
						switch {
						case bs == 4096 && start == 0 && opt == 0:
							keep = true
						case comp == "gzip" && bs == 4096 && start == 0:
							keep = true
						case bs == 131072 && start == 0 && opt == 0 && (comp == "none" || comp == "gzip" || comp == "zstd"):
							keep = true
						case bs == 4096 && start != 0 && opt <= 1 && (comp == "none" || comp == "gzip"):
							keep = true
						case comp == "none" && bs == 4096 && start == 0 && opt <= 3:
							keep = true
						}
						if !keep {
							continue
						}
					}
					id := fmt.Sprintf("f/%s-bs%d-s%d-o%d", comp, bs, start, opt)
					if !c.Want(id) {
						continue
					}
					out := checkCase(c, id, root, cf)
					n++
					if out == nil || out.bad {
						continue
					}
					if ref == nil {
						ref = out.v
					} else if err := cmpViews(ref, out.v); err != nil {
						c.Fail(id+"/same", tagNone, "view differs from the first member of the family: "+err.Error(), cf.String())
						continue
					}
					c.OK(id + "/same")
				}
			}
		}
	}
	_ = exp
	c.Sample(fmt.Sprintf("family of %d configurations over tree{%s}", n, root.describe()))
}

func randTree(r *hx.Rng, bs int, budget int) *node {
	root := mkdir(".")
	serial := 0
	var fill func(n *node, depth int)
	fill = func(n *node, depth int) {
		k := r.Intn(8)
		if r.Chance(5) {
			k = 30 + r.Intn(60)
		}
		for i := 0; i < k && serial < budget; i++ {
			serial++
			name := fmt.Sprintf("%s%d", hx.Pick(r, []string{"f", "file-", "x", "Long_Name_With_Many_Characters_", "ü"}), serial)
			switch r.Intn(10) {
			case 0, 1:
				if depth < 6 {
					fill(n.add(mkdir(name)), depth+1)
				}
			case 2:
				// only links that resolve inside the workspace (see the sqfs-dangling-symlink witness)
				var prev []string
				for _, k := range n.kids {
					if !k.isLink {
						prev = append(prev, k.name)
					}
				}
				if len(prev) > 0 {
					t := hx.Pick(r, prev)
					if r.Chance(30) {
						t = "./" + strings.Repeat("./", r.Intn(40)) + t
					}
					n.add(mklink(name, t))
				}
			default:
				var sz int
				switch r.Intn(7) {
				case 0:
					sz = 0
				case 1:
					sz = bs * (1 + r.Intn(3))
				case 2:
					sz = bs*(1+r.Intn(3)) + 1 + r.Intn(bs-1)
				case 3:
					sz = bs - 1
				default:
					sz = r.Intn(2 * bs)
				}
				n.add(file(r, name, hx.Pick(r, []string{"zero", "rep", "rand", "mixed"}), sz))
			}
		}
	}
	fill(root, 0)
	return root
}

func random(c *hx.Ctx) {
	n := c.N(16, 250)
	comps := []string{"none", "gzip", "gzip0", "xz", "lz4", "zstd"}
	for i := 0; i < n; i++ {
		id := fmt.Sprintf("r/%d", i)
		r := c.Rng.Fork()
		if !c.Want(id) {
			continue
		}
		bs := hx.Pick(r, []int64{4096, 4096, 8192, 16384, 131072})
		if c.Thorough() && r.Chance(5) {
			bs = 1 << 20
		}
		cf := cfg{comp: hx.Pick(r, comps), bs: bs, cache: -1, cwdWS: true,
			noFrag: r.Chance(25), noData: r.Chance(20), noFragC: r.Chance(20), noInodes: r.Chance(20), noPad: r.Chance(30), nonExport: r.Chance(20)}
		if r.Chance(30) {
			cf.start = int64(1+r.Intn(64)) * 4096
		}
		if r.Chance(40) {
			cf.cache = hx.Pick(r, []int{0, int(bs), int(bs) * 3, 1})
		}
		budget := 60
		if bs >= 131072 {
			budget = 15
		}
		root := randTree(r, int(bs), budget)
		// keep the random trees clear of the recorded directory-table defect; it has its own witnesses
		if root.dirTableBytes() > 7000 {
			continue
		}
		c.Stat("shape.random")
		checkCase(c, id, root, cf)
	}
	_ = os.Getpid
}

// straddle: inode tables of more than one 8 KiB metadata block. n small files come first in the walk order, then a
// file with a long block list, so that the big file's inode — its fixed part, or some part of its block list —
// lies across a metadata block boundary; n sweeps the boundary (the other shapes keep the inode table within one
// metadata block). The directory table stays below the recorded sqfs-dir-startblock-index trigger (short names).
func straddle(c *hx.Ctx) {
	r := hx.NewRng(c.Seed*104729 + 11)
	type shape struct {
		bs     int64
		blocks int
		lo, hi int // range of n
	}
	shapes := []shape{{4096, 300, 100, 160}, {4096, 40, 130, 270}, {8192, 150, 120, 270}}
	for si, sh := range shapes {
		var ns []int
		if c.Thorough() {
			for n := sh.lo; n <= sh.hi; n++ {
				ns = append(ns, n)
			}
		} else {
			for k := 0; k < 8; k++ {
				ns = append(ns, sh.lo+r.Intn(sh.hi-sh.lo+1))
			}
		}
		for _, n := range ns {
			id := fmt.Sprintf("st/%d-%d", si, n)
			comp := hx.Pick(r, []string{"none", "gzip", "gzip"})
			kind := hx.Pick(r, []string{"rep", "mixed", "zero"})
			tail := r.Intn(int(sh.bs))
			if !c.Want(id) {
				continue
			}
			root := mkdir(".")
			for i := 0; i < n; i++ {
				root.add(file(r, fmt.Sprintf("a%03d", i), "rep", i%23))
			}
			root.add(file(r, "zbig", kind, sh.blocks*int(sh.bs)+tail))
			root.add(file(r, "zc", "rand", 10))
			root.add(file(r, "zd", "rep", 3*int(sh.bs)+1))
			if root.dirTableBytes() > 7000 {
				continue
			}
			c.Stat("shape.inode-straddle")
			checkCase(c, id, root, cfg{comp: comp, bs: sh.bs, cache: -1, cwdWS: true, noFrag: r.Chance(30)})
		}
	}
}
