// Package sqfs is the C07 engine: generated workspace trees are written into a squashfs image by
// the real library (Create + Mkdir/OpenFile/Write (+ symlinks in the workspace) + Finalize) on an
// in-memory device, read back through Read + ReadDir/ReadFile/Stat/Readlink and compared with the
// tree; the same tree is built under a family of compressors / options / block sizes / cache sizes
// and all views must coincide; the superblock's size fields are compared with the write log.
package sqfs

import (
	"crypto/sha256"
	"encoding/binary"
	"encoding/hex"
	"fmt"
	"io"
	iofs "io/fs"
	"os"
	"path/filepath"
	"sort"

	"github.com/diskfs/go-diskfs/filesystem/squashfs"

	"verif/harness/internal/memdev"
)

type node struct {
	name   string
	dir    bool
	link   string // symlink target when non-empty
	data   []byte
	kids   []*node
	isLink bool
}

func (n *node) add(k *node) *node { n.kids = append(n.kids, k); return k }
func mkdir(name string) *node     { return &node{name: name, dir: true} }
func mklink(name, target string) *node {
	return &node{name: name, link: target, isLink: true}
}

func join(p, n string) string {
	if p == "." {
		return n
	}
	return p + "/" + n
}

func sum(b []byte) string {
	h := sha256.Sum256(b)
	return hex.EncodeToString(h[:8])
}

type vEnt struct {
	kind string // dir | file | link
	size int64
	sum  string // content hash, or link target
}

func (v vEnt) String() string { return fmt.Sprintf("%s(%d,%s)", v.kind, v.size, v.sum) }

type view map[string]vEnt

func expectedView(root *node) view {
	v := view{}
	var rec func(n *node, p string)
	rec = func(n *node, p string) {
		for _, k := range n.kids {
			kp := join(p, k.name)
			switch {
			case k.dir:
				v[kp] = vEnt{kind: "dir"}
				rec(k, kp)
			case k.isLink:
				v[kp] = vEnt{kind: "link", sum: k.link}
			default:
				v[kp] = vEnt{kind: "file", size: int64(len(k.data)), sum: sum(k.data)}
			}
		}
	}
	rec(root, ".")
	return v
}

func cmpViews(exp, got view) error {
	keys := make([]string, 0, len(exp))
	for k := range exp {
		keys = append(keys, k)
	}
	sort.Strings(keys)
	for _, k := range keys {
		g, ok := got[k]
		if !ok {
			return fmt.Errorf("%q (%v) is missing", k, exp[k])
		}
		if g != exp[k] {
			return fmt.Errorf("%q is %v, expected %v", k, g, exp[k])
		}
	}
	gk := make([]string, 0, len(got))
	for k := range got {
		gk = append(gk, k)
	}
	sort.Strings(gk)
	for _, k := range gk {
		if _, ok := exp[k]; !ok {
			return fmt.Errorf("unexpected entry %q (%v)", k, got[k])
		}
	}
	return nil
}

func (n *node) count() (dirs, files, links int, bytes int64) {
	for _, k := range n.kids {
		switch {
		case k.dir:
			d, f, l, b := k.count()
			dirs += 1 + d
			files += f
			links += l
			bytes += b
		case k.isLink:
			links++
		default:
			files++
			bytes += int64(len(k.data))
		}
	}
	return
}

func (n *node) describe() string {
	d, f, l, b := n.count()
	return fmt.Sprintf("dirs=%d files=%d links=%d bytes=%d", d, f, l, b)
}

// ---- configurations ---------------------------------------------------------------------------

type cfg struct {
	comp      string // none gzip gzip0 xz lz4 zstd
	bs        int64
	start     int64
	noFrag    bool
	noData    bool // NoCompressData
	noInodes  bool
	noFragC   bool // NoCompressFragments
	noPad     bool
	nonExport bool
	cache     int // -1 default, otherwise SetCacheSize(cache)
	cwdWS     bool
}

func (c cfg) String() string {
	return fmt.Sprintf("comp=%s bs=%d start=%d nofrag=%v nodata=%v noinodes=%v nofragc=%v nopad=%v nonexp=%v cache=%d",
		c.comp, c.bs, c.start, c.noFrag, c.noData, c.noInodes, c.noFragC, c.noPad, c.nonExport, c.cache)
}

func (c cfg) compressor() squashfs.Compressor {
	switch c.comp {
	case "gzip":
		return &squashfs.CompressorGzip{CompressionLevel: 9}
	case "gzip0":
		return &squashfs.CompressorGzip{}
	case "xz":
		return &squashfs.CompressorXz{}
	case "lz4":
		return &squashfs.CompressorLz4{}
	case "zstd":
		return &squashfs.CompressorZstd{}
	}
	return nil
}

func (c cfg) options() squashfs.FinalizeOptions {
	return squashfs.FinalizeOptions{Compression: c.compressor(), NoFragments: c.noFrag, NoCompressData: c.noData,
		NoCompressInodes: c.noInodes, NoCompressFragments: c.noFragC, NoPad: c.noPad, NonExportable: c.nonExport}
}

const (
	tagNone     = "-"
	tagSymlink  = "sqfs-symlink-relative-readlink"
	tagDirIdx   = "sqfs-dir-startblock-index"
	tagGap      = "sqfs-fragment-gap"
	tagBig      = "sqfs-dir-header-over-256"
	tagDangling = "sqfs-dangling-symlink"
)

func safely(f func() error) (err error, panicked bool) {
	defer func() {
		if r := recover(); r != nil {
			err = fmt.Errorf("panic: %v", r)
			panicked = true
		}
	}()
	return f(), false
}

type built struct {
	dev  *memdev.Dev
	size int64
	err  error
}

func populate(fsys *squashfs.FileSystem, n *node, p string) error {
	for _, k := range n.kids {
		kp := join(p, k.name)
		switch {
		case k.dir:
			if err := fsys.Mkdir(kp); err != nil {
				return fmt.Errorf("Mkdir %q: %v", kp, err)
			}
			if err := populate(fsys, k, kp); err != nil {
				return err
			}
		case k.isLink:
			// the API has no Symlink: the documented way is to put it into the workspace
			if err := os.Symlink(k.link, filepath.Join(fsys.Workspace(), filepath.FromSlash(kp))); err != nil {
				return fmt.Errorf("symlink %q: %v", kp, err)
			}
		default:
			f, err := fsys.OpenFile(kp, os.O_CREATE|os.O_RDWR)
			if err != nil {
				return fmt.Errorf("OpenFile %q: %v", kp, err)
			}
			for off := 0; off < len(k.data); {
				m := len(k.data) - off
				if m > 1<<20 {
					m = 1 << 20
				}
				w, err := f.Write(k.data[off : off+m])
				if err != nil {
					f.Close()
					return fmt.Errorf("Write %q: %v", kp, err)
				}
				off += w
			}
			if err := f.Close(); err != nil {
				return err
			}
		}
	}
	return nil
}

func build(root *node, c cfg) built {
	_, f, _, bytes := root.count()
	size := bytes*2 + int64(f+16)*(c.bs+4096) + 8<<20
	dev := memdev.New(c.start + size + 1<<20)
	b := built{dev: dev, size: size}
	b.err, _ = safely(func() error {
		fsys, err := squashfs.Create(dev, size, c.start, c.bs)
		if err != nil {
			return fmt.Errorf("Create: %v", err)
		}
		defer fsys.Close()
		if err := populate(fsys, root, "."); err != nil {
			return err
		}
		if c.cwdWS {
			old, _ := os.Getwd()
			if err := os.Chdir(fsys.Workspace()); err != nil {
				return err
			}
			defer os.Chdir(old)
		}
		if err := fsys.Finalize(c.options()); err != nil {
			return fmt.Errorf("Finalize: %v", err)
		}
		return nil
	})
	return b
}

// libWalk: ReadDir recursively, ReadFile for contents, Readlink for links, Stat for sizes.
func libWalk(fsys *squashfs.FileSystem) (v view, dirErr map[string]error) {
	v = view{}
	dirErr = map[string]error{}
	var rec func(p string, depth int)
	rec = func(p string, depth int) {
		if depth > 64 {
			dirErr[p] = fmt.Errorf("nesting deeper than 64")
			return
		}
		var des []iofs.DirEntry
		err, _ := safely(func() error {
			var e error
			des, e = fsys.ReadDir(p)
			return e
		})
		if err != nil {
			dirErr[p] = err
			return
		}
		for _, de := range des {
			kp := join(p, de.Name())
			if _, dup := v[kp]; dup {
				dirErr[p] = fmt.Errorf("name %q listed twice", de.Name())
				continue
			}
			switch {
			case de.IsDir():
				v[kp] = vEnt{kind: "dir"}
				rec(kp, depth+1)
			case de.Type()&iofs.ModeSymlink != 0:
				rl, ok := de.(interface{ Readlink() (string, error) })
				if !ok {
					v[kp] = vEnt{kind: "link", sum: "<no Readlink method>"}
					continue
				}
				t, err := rl.Readlink()
				if err != nil {
					t = "<Readlink: " + err.Error() + ">"
				}
				v[kp] = vEnt{kind: "link", sum: t}
			default:
				var data []byte
				err, _ := safely(func() error {
					var e error
					data, e = fsys.ReadFile(kp)
					return e
				})
				if err != nil {
					v[kp] = vEnt{kind: "file", size: -1, sum: "ReadFile: " + err.Error()}
					continue
				}
				var st iofs.FileInfo
				err, _ = safely(func() error {
					var e error
					st, e = fsys.Stat(kp)
					return e
				})
				if err != nil {
					v[kp] = vEnt{kind: "file", size: -1, sum: "Stat: " + err.Error()}
					continue
				}
				if st.Size() != int64(len(data)) {
					v[kp] = vEnt{kind: "file", size: -1, sum: fmt.Sprintf("Stat size %d but %d bytes read", st.Size(), len(data))}
					continue
				}
				v[kp] = vEnt{kind: "file", size: int64(len(data)), sum: sum(data)}
			}
		}
	}
	rec(".", 0)
	return
}

func fsWalkDir(fsys *squashfs.FileSystem) (view, error) {
	v := view{}
	var werr error
	err, _ := safely(func() error {
		return iofs.WalkDir(fsys, ".", func(p string, d iofs.DirEntry, err error) error {
			if err != nil {
				werr = fmt.Errorf("WalkDir at %q: %v", p, err)
				return err
			}
			if p == "." {
				return nil
			}
			switch {
			case d.IsDir():
				v[p] = vEnt{kind: "dir"}
			case d.Type()&iofs.ModeSymlink != 0:
				v[p] = vEnt{kind: "link"}
			default:
				f, err := fsys.Open(p)
				if err != nil {
					werr = fmt.Errorf("Open %q: %v", p, err)
					return err
				}
				// odd-sized reads so that block and fragment boundaries are crossed mid-buffer
				var data []byte
				buf := make([]byte, 3001)
				for {
					n, err := f.Read(buf)
					data = append(data, buf[:n]...)
					if err == io.EOF {
						break
					}
					if err != nil {
						f.Close()
						werr = fmt.Errorf("Read %q: %v", p, err)
						return err
					}
					if n == 0 {
						f.Close()
						werr = fmt.Errorf("Read %q returned 0, nil", p)
						return werr
					}
				}
				f.Close()
				v[p] = vEnt{kind: "file", size: int64(len(data)), sum: sum(data)}
			}
			return nil
		})
	})
	if werr != nil {
		return v, werr
	}
	return v, err
}

// ---- superblock, parsed independently --------------------------------------------------------

type sblock struct {
	magic, inodes, blocksize, frags  uint32
	comp, blockLog, flags, idCount   uint16
	major, minor                     uint16
	root, bytesUsed                  uint64
	idStart, xattrStart, inodeStart  uint64
	dirStart, fragStart, exportStart uint64
}

func parseSB(b []byte) sblock {
	le := binary.LittleEndian
	return sblock{magic: le.Uint32(b[0:]), inodes: le.Uint32(b[4:]), blocksize: le.Uint32(b[12:]), frags: le.Uint32(b[16:]),
		comp: le.Uint16(b[20:]), blockLog: le.Uint16(b[22:]), flags: le.Uint16(b[24:]), idCount: le.Uint16(b[26:]),
		major: le.Uint16(b[28:]), minor: le.Uint16(b[30:]), root: le.Uint64(b[32:]), bytesUsed: le.Uint64(b[40:]),
		idStart: le.Uint64(b[48:]), xattrStart: le.Uint64(b[56:]), inodeStart: le.Uint64(b[64:]), dirStart: le.Uint64(b[72:]),
		fragStart: le.Uint64(b[80:]), exportStart: le.Uint64(b[88:])}
}

type span struct{ lo, hi int64 }

// written returns the merged write extents relative to base.
func written(dev *memdev.Dev, base int64) []span {
	var s []span
	for _, e := range dev.Log {
		if e.Sync || e.Len == 0 {
			continue
		}
		s = append(s, span{e.Off - base, e.Off - base + int64(e.Len)})
	}
	sort.Slice(s, func(i, j int) bool { return s[i].lo < s[j].lo })
	var m []span
	for _, x := range s {
		if len(m) > 0 && x.lo <= m[len(m)-1].hi {
			if x.hi > m[len(m)-1].hi {
				m[len(m)-1].hi = x.hi
			}
			continue
		}
		m = append(m, x)
	}
	return m
}

// checkSuperblock: the size fields describe exactly the bytes written.
func checkSuperblock(dev *memdev.Dev, c cfg, nInodes int) (sblock, error, string) {
	sb := parseSB(dev.Bytes(c.start, 96))
	if sb.magic != 0x73717368 {
		return sb, fmt.Errorf("no squashfs magic at byte %d (found %#x)", c.start, sb.magic), tagNone
	}
	if sb.major != 4 || sb.minor != 0 {
		return sb, fmt.Errorf("version %d.%d", sb.major, sb.minor), tagNone
	}
	if int64(sb.blocksize) != c.bs || 1<<sb.blockLog != sb.blocksize {
		return sb, fmt.Errorf("block size %d log %d, created with %d", sb.blocksize, sb.blockLog, c.bs), tagNone
	}
	if int(sb.inodes) != nInodes {
		return sb, fmt.Errorf("inode count %d, tree has %d", sb.inodes, nInodes), tagNone
	}
	// table starts: ordered and inside
	type ts struct {
		name string
		off  uint64
	}
	tabs := []ts{{"inode table", sb.inodeStart}, {"directory table", sb.dirStart}, {"fragment table", sb.fragStart}}
	if !c.nonExport {
		tabs = append(tabs, ts{"export table", sb.exportStart})
	}
	tabs = append(tabs, ts{"id table", sb.idStart})
	prev := uint64(96)
	for _, t := range tabs {
		if t.off < prev || t.off > sb.bytesUsed {
			return sb, fmt.Errorf("%s starts at %d: not in order / not inside [%d,%d]", t.name, t.off, prev, sb.bytesUsed), tagNone
		}
		prev = t.off
	}
	if sb.xattrStart != 0xffffffffffffffff {
		return sb, fmt.Errorf("xattr table start %#x although no xattrs were stored", sb.xattrStart), tagNone
	}
	w := written(dev, c.start)
	if len(w) == 0 || w[0].lo != 0 {
		return sb, fmt.Errorf("nothing written at the start of the image"), tagNone
	}
	end := w[len(w)-1].hi
	if w[0].lo < 0 {
		return sb, fmt.Errorf("write before the image start"), tagNone
	}
	if int64(sb.bytesUsed) != end {
		return sb, fmt.Errorf("bytes_used is %d but the last byte written is at %d", sb.bytesUsed, end), tagNone
	}
	if len(w) > 1 {
		// holes inside [0, bytes_used): recorded defect when each hole is the unwritten rest of a fragment block slot
		return sb, fmt.Errorf("bytes_used %d counts %d hole(s) never written, first [%d,%d)", sb.bytesUsed, len(w)-1, w[0].hi, w[1].lo), "gap?"
	}
	return sb, nil, ""
}
