package sqfs

// Correspondence for the writing side down to the bytes (Lean Model/Sqfs/ImageWr.lean): the real
// Finalize writes a workspace into an image; the Lean driver gets the SAME flat file list walkTree
// sees (names, kinds, unix mode bits, owners, mtimes, link counts, contents, children — collected here
// from the workspace with Lstat before Finalize runs) and lays out the whole image with `buildImage`.
// The two images must be equal byte for byte: length, CRC of everything in [start, start+bytes_used)
// and of its five parts cut at the superblock's table starts.  The driver also reports that the
// region model (`finalize` over the sizes of the pieces) describes the model's image (reg=1) and that
// the model's reader run on the model's image returns the expected walk (rt=1), and that the file list
// is inside the limits under which theorem writer_reader_roundtrip is proved (lim=1): all are demanded.
// The driver has no compressor: nothing is compressed in these images.

import (
	"encoding/binary"
	"encoding/hex"
	"fmt"
	"hash/crc32"
	iofs "io/fs"
	"os"
	"path"
	"path/filepath"
	"strings"
	"syscall"

	"github.com/diskfs/go-diskfs/filesystem/squashfs"

	"verif/harness/internal/hx"
	"verif/harness/internal/memdev"
)

type flEnt struct {
	name                  string
	kind                  int
	mode, uid, gid, links uint32
	mtime                 int64
	data                  []byte
	kids                  []int
}

// walkWorkspace: the file list in filepath.WalkDir order with the properties Finalize records.
func walkWorkspace(ws string) ([]flEnt, error) {
	var fl []flEnt
	idx := map[string]int{}
	err := filepath.WalkDir(ws, func(p string, d iofs.DirEntry, err error) error {
		if err != nil {
			return err
		}
		rel := strings.TrimPrefix(strings.TrimPrefix(p, ws), string(filepath.Separator))
		if rel == "" {
			rel = "."
		} else {
			rel = filepath.ToSlash(rel)
		}
		fi, err := os.Lstat(p)
		if err != nil {
			return err
		}
		m := fi.Mode()
		e := flEnt{name: d.Name(), mtime: fi.ModTime().Unix()}
		bits := uint32(m.Perm())
		if m&os.ModeSetuid != 0 {
			bits |= 0o4000
		}
		if m&os.ModeSetgid != 0 {
			bits |= 0o2000
		}
		if m&os.ModeSticky != 0 {
			bits |= 0o1000
		}
		e.mode = bits
		if st, ok := fi.Sys().(*syscall.Stat_t); ok {
			e.links, e.uid, e.gid = uint32(st.Nlink), st.Uid, st.Gid
		}
		switch {
		case m&os.ModeSymlink != 0:
			e.kind = 2
			t, err := os.Readlink(p)
			if err != nil {
				return err
			}
			e.data = []byte(t)
		case m.IsDir():
			e.kind = 1
		case m.IsRegular():
			e.kind = 0
			b, err := os.ReadFile(p)
			if err != nil {
				return err
			}
			e.data = b
		default:
			return fmt.Errorf("unexpected file type at %s", rel)
		}
		idx[rel] = len(fl)
		if rel != "." {
			pi, ok := idx[path.Dir(rel)]
			if !ok {
				return fmt.Errorf("parent of %s not seen", rel)
			}
			fl[pi].kids = append(fl[pi].kids, len(fl))
		}
		fl = append(fl, e)
		return nil
	})
	return fl, err
}

func hexOr(b []byte) string {
	if len(b) == 0 {
		return "-"
	}
	return hex.EncodeToString(b)
}

func flString(fl []flEnt) string {
	es := make([]string, len(fl))
	for i, e := range fl {
		ks := "-"
		if len(e.kids) > 0 {
			s := make([]string, len(e.kids))
			for j, k := range e.kids {
				s[j] = fmt.Sprint(k)
			}
			ks = strings.Join(s, "+")
		}
		es[i] = fmt.Sprintf("%s:%d:%d:%d:%d:%d:%d:%s:%s", hexOr([]byte(e.name)), e.kind, e.mode, e.uid, e.gid, uint32(e.mtime), e.links, hexOr(e.data), ks)
	}
	return strings.Join(es, ";")
}

func imgWrFamilies(c *hx.Ctx) {
	r := hx.NewRng(c.Seed*104729 + 5)
	n := c.N(8, 24)
	for i := 0; i < n; i++ {
		id := fmt.Sprintf("d/imgwr/%d", i)
		rr := r.Fork()
		if !c.Want(id) {
			continue
		}
		bs := int64(4096)
		cf := cfg{comp: "none", bs: bs, cache: -1, nonExport: rr.Chance(35)}
		if rr.Chance(40) {
			cf.start = int64(1+rr.Intn(16)) * 4096
		}
		root := mkdir(".")
		dirs := []*node{root}
		nd := rr.Intn(5)
		if i%4 == 3 {
			nd = 1 + rr.Intn(3)
		}
		for k := 0; k < nd; k++ {
			d := hx.Pick(rr, dirs).add(mkdir(fmt.Sprintf("d%d", k)))
			dirs = append(dirs, d)
		}
		nfiles := 0
		switch i % 4 {
		case 0:
			nfiles = 1 + rr.Intn(6)
		case 1:
			nfiles = 8 + rr.Intn(30)
		case 2:
			nfiles = 150 + rr.Intn(40) // inode table of two metadata blocks, directory table inside one
		default:
			nfiles = 3 + rr.Intn(10)
		}
		budget := 40 << 10
		for k := 0; k < nfiles; k++ {
			d := hx.Pick(rr, dirs)
			if k == 0 {
				d = root // the root is never empty
			}
			name := fmt.Sprintf("%d", k)
			switch {
			case rr.Chance(12):
				d.add(mklink("l"+name, hx.Pick(rr, []string{"d0", "0", "../x", "./" + strings.Repeat("y", 1+rr.Intn(40))})))
			case rr.Chance(25) && budget > 0 && i%4 != 2:
				sz := hx.Pick(rr, []int{int(bs), int(bs) + 1 + rr.Intn(300), 2*int(bs) - 1, 1 + rr.Intn(int(bs)-1), int(bs) - 1, 2 * int(bs)})
				budget -= sz
				d.add(file(rr, name, hx.Pick(rr, []string{"rand", "mixed", "zero"}), sz))
			default:
				d.add(file(rr, name, "rand", rr.Intn(40)))
			}
		}
		if root.dirTableBytes() > 7800 {
			c.Stat("corr.imgwr.dirtable-too-big")
			continue
		}
		_, f, _, bytes := root.count()
		size := bytes*2 + int64(f+16)*(bs+4096) + 8<<20
		dev := memdev.New(cf.start + size + 1<<20)
		var fl []flEnt
		err, _ := safely(func() error {
			fsys, err := squashfs.Create(dev, size, cf.start, bs)
			if err != nil {
				return err
			}
			defer fsys.Close()
			if err := populate(fsys, root, "."); err != nil {
				return err
			}
			// a few mode / mtime variations in the workspace
			ws := fsys.Workspace()
			if fl, err = walkWorkspace(ws); err != nil {
				return err
			}
			return fsys.Finalize(cf.options())
		})
		if err != nil || len(fl) == 0 {
			c.Stat("corr.imgwr.skipped")
			continue
		}
		raw := dev.Bytes(cf.start, 96)
		sb := parseSB(raw)
		if sb.magic != 0x73717368 || sb.bytesUsed > 1<<20 || sb.bytesUsed < 96 {
			c.Stat("corr.imgwr.skipped")
			continue
		}
		img := dev.Bytes(cf.start, int(sb.bytesUsed))
		crcR := func(lo, hi uint64) uint32 {
			if lo > hi || hi > uint64(len(img)) {
				return 0
			}
			return crc32.ChecksumIEEE(img[lo:hi])
		}
		depth := 2
		var dep func(n *node, d int)
		dep = func(n *node, d int) {
			if d > depth {
				depth = d
			}
			for _, k := range n.kids {
				if k.dir {
					dep(k, d+1)
				}
			}
		}
		dep(root, 1)
		c.Case(id, "sqfs.mkimg", fmt.Sprintf("bs=%d", bs), fmt.Sprintf("exp=%d", b2i(!cf.nonExport)), fmt.Sprintf("mtime=%d", binary.LittleEndian.Uint32(raw[8:])),
			fmt.Sprintf("comp=%d", sb.comp), fmt.Sprintf("flags=%d", sb.flags), "opt=-", fmt.Sprintf("fuel=%d", depth+1), "fl="+flString(fl))
		c.Impl(id, fmt.Sprintf("n=%d", len(img)), fmt.Sprintf("crc=%d", crc32.ChecksumIEEE(img)), fmt.Sprintf("c0=%d", crcR(0, 96)),
			fmt.Sprintf("c1=%d", crcR(96, sb.inodeStart)), fmt.Sprintf("c2=%d", crcR(sb.inodeStart, sb.dirStart)),
			fmt.Sprintf("c3=%d", crcR(sb.dirStart, sb.fragStart)), fmt.Sprintf("c4=%d", crcR(sb.fragStart, sb.bytesUsed)), "reg=1", "rt=1", "lim=1")
		c.Stat("corr.imgwr")
		if (int(sb.dirStart) - int(sb.inodeStart)) > 8194 {
			c.Stat("corr.imgwr.multiblock-inodes")
		}
		c.Distinct(fmt.Sprintf("imgwr|%s|n=%d|inoblocks=%d|frags=%d", cf.String(), len(fl), (int(sb.dirStart)-int(sb.inodeStart))/8194+1, sb.frags))
	}
}

func b2i(b bool) int {
	if b {
		return 1
	}
	return 0
}
