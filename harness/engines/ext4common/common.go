// Package ext4common is shared by the ext4 write-side engines (ext4ops, ext4mkfs):
// volume configurations, an independent little parser of the on-disk superblock /
// group descriptors / bitmaps (the observation point for accounting), and the
// e2fsck / debugfs runners (the reference checker and reader of property C05).
package ext4common

import (
	"bytes"
	"encoding/binary"
	"fmt"
	"math/bits"
	"os"
	"os/exec"
	"path/filepath"
	"sort"
	"strings"

	"github.com/diskfs/go-diskfs/filesystem/ext4"

	"verif/harness/internal/memdev"
)

const (
	E2fsck  = "/usr/sbin/e2fsck"
	Debugfs = "/usr/sbin/debugfs"
)

// Config describes one volume configuration handed to ext4.Create.
type Config struct {
	Name        string
	Size, Start int64
	SPB         uint8 // sectors per block (0 = library picks)
	BPG         uint32
	InodeRatio  int64
	InodeCount  uint32
	Sparse      uint8
	LogFlex     int
	ResPct      uint8
	// feature switches: nil = library default
	Journal, Csum, Resize, Bit64, Flex, GdtCsum, ProjQuota, DirIndex, HugeFile, LargeInodes *bool
}

func B(v bool) *bool { return &v }

func (c Config) Params() *ext4.Params {
	p := &ext4.Params{SectorsPerBlock: c.SPB, BlocksPerGroup: c.BPG, InodeRatio: c.InodeRatio, InodeCount: c.InodeCount,
		SparseSuperVersion: c.Sparse, LogFlexBlockGroups: c.LogFlex, ReservedBlocksPercent: c.ResPct}
	add := func(v *bool, f func(bool) ext4.FeatureOpt) {
		if v != nil {
			p.Features = append(p.Features, f(*v))
		}
	}
	add(c.Journal, ext4.WithFeatureHasJournal)
	add(c.Csum, ext4.WithFeatureMetadataChecksums)
	add(c.Resize, ext4.WithFeatureReservedGDTBlocksForExpansion)
	add(c.Bit64, ext4.WithFeatureFS64Bit)
	add(c.Flex, ext4.WithFeatureFlexBlockGroups)
	add(c.GdtCsum, ext4.WithFeatureGDTChecksum)
	add(c.ProjQuota, ext4.WithFeatureProjectQuotas)
	add(c.DirIndex, ext4.WithFeatureDirectoryIndices)
	add(c.HugeFile, ext4.WithFeatureHugeFile)
	add(c.LargeInodes, ext4.WithFeatureLargeInodes)
	return p
}

func bs(v *bool) string {
	if v == nil {
		return "d"
	}
	if *v {
		return "1"
	}
	return "0"
}

func (c Config) String() string {
	return fmt.Sprintf("size=%d start=%d spb=%d bpg=%d iratio=%d icount=%d sparse=%d logflex=%d respct=%d journal=%s csum=%s resize=%s 64bit=%s flex=%s gdtcsum=%s projquota=%s dirindex=%s hugefile=%s largeinodes=%s",
		c.Size, c.Start, c.SPB, c.BPG, c.InodeRatio, c.InodeCount, c.Sparse, c.LogFlex, c.ResPct,
		bs(c.Journal), bs(c.Csum), bs(c.Resize), bs(c.Bit64), bs(c.Flex), bs(c.GdtCsum), bs(c.ProjQuota), bs(c.DirIndex), bs(c.HugeFile), bs(c.LargeInodes))
}

// On reports whether a feature switch is on given the library default.
func On(v *bool, def bool) bool {
	if v == nil {
		return def
	}
	return *v
}

// Create runs ext4.Create on a fresh device; a panic is returned as an error with Panicked=true.
func Create(c Config) (d *memdev.Dev, fs *ext4.FileSystem, err error, panicked bool) {
	d = memdev.New(c.Start + c.Size + 8192)
	d.KeepData = false
	func() {
		defer func() {
			if e := recover(); e != nil {
				err = fmt.Errorf("panic: %v", e)
				panicked = true
			}
		}()
		fs, err = ext4.Create(d, c.Size, c.Start, 512, c.Params())
	}()
	return
}

// ---- independent on-disk view ------------------------------------------------

type Group struct {
	BlockBitmap, InodeBitmap, InodeTable uint64
	FreeBlocks, FreeInodes, UsedDirs     uint32
	Flags                                uint16
	ItableUnused                         uint32
}

type View struct {
	InodesCount, FirstDataBlock, BlockSize, BPG, IPG uint32
	BlocksCount, FreeBlocks, ReservedBlocks          uint64
	FreeInodes                                       uint32
	Compat, Incompat, RoCompat                       uint32
	DescSize                                         uint16
	ReservedGDT                                      uint16
	InodeSize                                        uint16
	LogGroupsPerFlex                                 uint8
	JournalInum                                      uint32
	Groups                                           []Group
	dev                                              *memdev.Dev
	start                                            int64
}

func (v *View) GroupCount() int { return len(v.Groups) }

// ParseView decodes superblock and the primary group descriptor table at byte offset start of d.
func ParseView(d *memdev.Dev, start int64) (*View, error) {
	sb := d.Bytes(start+1024, 1024)
	le := binary.LittleEndian
	if le.Uint16(sb[0x38:]) != 0xEF53 {
		return nil, fmt.Errorf("bad superblock magic %#x", le.Uint16(sb[0x38:]))
	}
	v := &View{dev: d, start: start}
	v.InodesCount = le.Uint32(sb[0x0:])
	v.BlocksCount = uint64(le.Uint32(sb[0x4:]))
	v.ReservedBlocks = uint64(le.Uint32(sb[0x8:]))
	v.FreeBlocks = uint64(le.Uint32(sb[0xC:]))
	v.FreeInodes = le.Uint32(sb[0x10:])
	v.FirstDataBlock = le.Uint32(sb[0x14:])
	logbs := le.Uint32(sb[0x18:])
	if logbs > 6 {
		return nil, fmt.Errorf("bad log block size %d", logbs)
	}
	v.BlockSize = 1024 << logbs
	v.BPG = le.Uint32(sb[0x20:])
	v.IPG = le.Uint32(sb[0x28:])
	v.InodeSize = le.Uint16(sb[0x58:])
	v.Compat = le.Uint32(sb[0x5C:])
	v.Incompat = le.Uint32(sb[0x60:])
	v.RoCompat = le.Uint32(sb[0x64:])
	v.ReservedGDT = le.Uint16(sb[0xCE:])
	v.JournalInum = le.Uint32(sb[0xE0:])
	v.DescSize = le.Uint16(sb[0xFE:])
	v.LogGroupsPerFlex = sb[0x174]
	is64 := v.Incompat&0x80 != 0
	if is64 {
		v.BlocksCount |= uint64(le.Uint32(sb[0x150:])) << 32
		v.ReservedBlocks |= uint64(le.Uint32(sb[0x154:])) << 32
		v.FreeBlocks |= uint64(le.Uint32(sb[0x158:])) << 32
	}
	ds := int(v.DescSize)
	if !is64 || ds < 32 {
		ds = 32
	}
	if v.BPG == 0 || v.IPG == 0 {
		return nil, fmt.Errorf("zero blocks/inodes per group")
	}
	ng := int((v.BlocksCount - uint64(v.FirstDataBlock) + uint64(v.BPG) - 1) / uint64(v.BPG))
	gdtOff := start + int64(v.FirstDataBlock+1)*int64(v.BlockSize)
	gdt := d.Bytes(gdtOff, ng*ds)
	for g := 0; g < ng; g++ {
		b := gdt[g*ds : (g+1)*ds]
		var G Group
		G.BlockBitmap = uint64(le.Uint32(b[0x0:]))
		G.InodeBitmap = uint64(le.Uint32(b[0x4:]))
		G.InodeTable = uint64(le.Uint32(b[0x8:]))
		G.FreeBlocks = uint32(le.Uint16(b[0xC:]))
		G.FreeInodes = uint32(le.Uint16(b[0xE:]))
		G.UsedDirs = uint32(le.Uint16(b[0x10:]))
		G.Flags = le.Uint16(b[0x12:])
		G.ItableUnused = uint32(le.Uint16(b[0x1C:]))
		if ds >= 64 {
			G.BlockBitmap |= uint64(le.Uint32(b[0x20:])) << 32
			G.InodeBitmap |= uint64(le.Uint32(b[0x24:])) << 32
			G.InodeTable |= uint64(le.Uint32(b[0x28:])) << 32
			G.FreeBlocks |= uint32(le.Uint16(b[0x2C:])) << 16
			G.FreeInodes |= uint32(le.Uint16(b[0x2E:])) << 16
			G.UsedDirs |= uint32(le.Uint16(b[0x30:])) << 16
			G.ItableUnused |= uint32(le.Uint16(b[0x32:])) << 16
		}
		v.Groups = append(v.Groups, G)
	}
	return v, nil
}

// BlocksInGroup is the number of real blocks of group g.
func (v *View) BlocksInGroup(g int) int {
	first := uint64(v.FirstDataBlock) + uint64(g)*uint64(v.BPG)
	rem := v.BlocksCount - first
	if rem > uint64(v.BPG) {
		rem = uint64(v.BPG)
	}
	return int(rem)
}

func (v *View) GroupStart(g int) uint64 { return uint64(v.FirstDataBlock) + uint64(g)*uint64(v.BPG) }

func (v *View) BlockBitmapBytes(g int) []byte {
	return v.dev.Bytes(v.start+int64(v.Groups[g].BlockBitmap)*int64(v.BlockSize), int(v.BlockSize))
}

func (v *View) InodeBitmapBytes(g int) []byte {
	return v.dev.Bytes(v.start+int64(v.Groups[g].InodeBitmap)*int64(v.BlockSize), int(v.IPG+7)/8)
}

// ZeroBits counts clear bits among the first n bits of b.
func ZeroBits(b []byte, n int) int {
	z := 0
	full := n / 8
	for i := 0; i < full && i < len(b); i++ {
		z += 8 - bits.OnesCount8(b[i])
	}
	for j := full * 8; j < n && j/8 < len(b); j++ {
		if b[j/8]&(1<<(j%8)) == 0 {
			z++
		}
	}
	return z
}

// Run is a maximal run of clear bits.
type Run struct{ Pos, Count int }

// FreeRuns lists the maximal runs of clear bits among the first n bits (independent of util/bitmap).
func FreeRuns(b []byte, n int) []Run {
	var out []Run
	start := -1
	for i := 0; i < n; i++ {
		clear := b[i/8]&(1<<(i%8)) == 0
		if clear && start < 0 {
			start = i
		}
		if !clear && start >= 0 {
			out = append(out, Run{start, i - start})
			start = -1
		}
	}
	if start >= 0 {
		out = append(out, Run{start, n - start})
	}
	return out
}

// Acct is the accounting summary of an image: counters as stored and as counted from the bitmaps.
type Acct struct {
	SbFreeBlocks uint64
	SbFreeInodes uint32
	GdFreeBlocks []uint32
	GdFreeInodes []uint32
	GdUsedDirs   []uint32
	BmFreeBlocks []int // zero bits in the block bitmap over the group's real blocks
	BmFreeInodes []int
	PadOK        bool // padding bits past the group's last block / inode are all set
}

func (v *View) Acct() Acct {
	a := Acct{SbFreeBlocks: v.FreeBlocks, SbFreeInodes: v.FreeInodes, PadOK: true}
	for g := range v.Groups {
		a.GdFreeBlocks = append(a.GdFreeBlocks, v.Groups[g].FreeBlocks)
		a.GdFreeInodes = append(a.GdFreeInodes, v.Groups[g].FreeInodes)
		a.GdUsedDirs = append(a.GdUsedDirs, v.Groups[g].UsedDirs)
		bb := v.BlockBitmapBytes(g)
		nb := v.BlocksInGroup(g)
		a.BmFreeBlocks = append(a.BmFreeBlocks, ZeroBits(bb, nb))
		if ZeroBits(bb, int(v.BPG))-ZeroBits(bb, nb) != 0 {
			a.PadOK = false
		}
		ib := v.InodeBitmapBytes(g)
		a.BmFreeInodes = append(a.BmFreeInodes, ZeroBits(ib, int(v.IPG)))
	}
	return a
}

// Consistent reports whether stored counters equal the bitmap counts (the invariant AccInv of the Lean model).
func (a Acct) Consistent() (bool, string) {
	var sb uint64
	var si uint32
	for g := range a.GdFreeBlocks {
		if int(a.GdFreeBlocks[g]) != a.BmFreeBlocks[g] {
			return false, fmt.Sprintf("group %d: gd.freeBlocks=%d bitmap zeros=%d", g, a.GdFreeBlocks[g], a.BmFreeBlocks[g])
		}
		if int(a.GdFreeInodes[g]) != a.BmFreeInodes[g] {
			return false, fmt.Sprintf("group %d: gd.freeInodes=%d bitmap zeros=%d", g, a.GdFreeInodes[g], a.BmFreeInodes[g])
		}
		sb += uint64(a.GdFreeBlocks[g])
		si += a.GdFreeInodes[g]
	}
	if sb != a.SbFreeBlocks {
		return false, fmt.Sprintf("sb.freeBlocks=%d sum of groups=%d", a.SbFreeBlocks, sb)
	}
	if si != a.SbFreeInodes {
		return false, fmt.Sprintf("sb.freeInodes=%d sum of groups=%d", a.SbFreeInodes, si)
	}
	if !a.PadOK {
		return false, "block bitmap padding bits not all set"
	}
	return true, ""
}

func U32s(xs []uint32) string {
	s := make([]string, len(xs))
	for i, x := range xs {
		s[i] = fmt.Sprint(x)
	}
	if len(s) == 0 {
		return "-"
	}
	return strings.Join(s, ",")
}

func Ints(xs []int) string {
	s := make([]string, len(xs))
	for i, x := range xs {
		s[i] = fmt.Sprint(x)
	}
	if len(s) == 0 {
		return "-"
	}
	return strings.Join(s, ",")
}

// ---- e2fsprogs -----------------------------------------------------------------

// WriteImage dumps [start,start+size) of d to path as a sparse file (all-zero 64 KiB chunks are skipped).
func WriteImage(d *memdev.Dev, start, size int64, path string) error {
	f, err := os.Create(path)
	if err != nil {
		return err
	}
	defer f.Close()
	var werr error
	d.ForEachPage(start, start+size, func(off int64, data []byte) {
		if werr == nil {
			_, werr = f.WriteAt(data, off-start)
		}
	})
	if werr != nil {
		return werr
	}
	return f.Truncate(size)
}

// Fsck runs `e2fsck -f -n` on an image file; clean means exit status 0.
func Fsck(path string) (clean bool, out string) {
	o, err := exec.Command(E2fsck, "-f", "-n", path).CombinedOutput()
	return err == nil, string(o)
}

// FsckDev writes the volume to a scratch file and checks it.
func FsckDev(d *memdev.Dev, start, size int64, scratch, name string) (bool, string) {
	p := filepath.Join(scratch, name+".img")
	if err := WriteImage(d, start, size, p); err != nil {
		return false, "cannot write image: " + err.Error()
	}
	defer os.Remove(p)
	return Fsck(p)
}

// FsckSummary compresses e2fsck output to its complaint lines.
func FsckSummary(out string) string {
	var keep []string
	for _, l := range strings.Split(out, "\n") {
		l = strings.TrimSpace(l)
		if l == "" || strings.HasPrefix(l, "Pass ") || strings.HasPrefix(l, "e2fsck ") || strings.HasSuffix(l, "? no") && len(l) < 12 {
			continue
		}
		keep = append(keep, l)
		if len(keep) >= 14 {
			break
		}
	}
	return strings.Join(keep, " | ")
}

// DebugfsDump extracts regular files with e2fsprogs' debugfs (`dump`); paths are io/fs style.
func DebugfsDump(img, scratch string, paths []string) (map[string][]byte, error) {
	sort.Strings(paths)
	var cmds bytes.Buffer
	outs := map[string]string{}
	for i, p := range paths {
		o := filepath.Join(scratch, fmt.Sprintf("dump-%d.bin", i))
		outs[p] = o
		fmt.Fprintf(&cmds, "dump \"/%s\" %s\n", p, o)
	}
	cf := filepath.Join(scratch, "debugfs.cmds")
	if err := os.WriteFile(cf, cmds.Bytes(), 0o644); err != nil {
		return nil, err
	}
	defer os.Remove(cf)
	o, err := exec.Command(Debugfs, "-f", cf, img).CombinedOutput()
	if err != nil {
		return nil, fmt.Errorf("debugfs: %v: %s", err, o)
	}
	res := map[string][]byte{}
	for p, of := range outs {
		b, err := os.ReadFile(of)
		if err != nil {
			res[p] = nil
			continue
		}
		res[p] = b
		os.Remove(of)
	}
	return res, nil
}

// DebugfsLs lists a directory's names with debugfs (`ls -p`), excluding . and ..
func DebugfsLs(img, dir string) ([]string, error) {
	o, err := exec.Command(Debugfs, "-R", "ls -p \"/"+dir+"\"", img).CombinedOutput()
	if err != nil {
		return nil, fmt.Errorf("debugfs ls: %v: %s", err, o)
	}
	var names []string
	for _, l := range strings.Split(string(o), "\n") {
		// /<ino>/<mode>/<uid>/<gid>/<name>/<size>/
		f := strings.Split(l, "/")
		if len(f) < 7 || f[1] == "0" {
			continue
		}
		name := strings.Join(f[5:len(f)-2], "/")
		if name == "." || name == ".." {
			continue
		}
		names = append(names, name)
	}
	sort.Strings(names)
	return names, nil
}
