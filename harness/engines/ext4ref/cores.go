package ext4ref

import (
	"encoding/binary"
	"encoding/hex"
	"fmt"
	"hash/crc32"
	"os"
	"path/filepath"
	"sort"
	"strings"

	"github.com/diskfs/go-diskfs/filesystem/ext4"

	"verif/harness/internal/hx"
	"verif/harness/internal/memdev"
)

// Correspondence cases: the reader's cores (extent tree flattening, directory block parsing,
// xattr entry parsing, superblock halves, feature gate) are run through hooks on data taken from
// the reference images and on synthetic inputs; the Lean driver answers the same `case` lines.

const maxCaseBytes = 96 * 1024

func bitLen(n int) int {
	k := 0
	for n > 0 {
		k++
		n >>= 1
	}
	return k
}

func (x *imgCtx) rawInode(n *node) []byte {
	if n.ref == nil {
		return nil
	}
	var raw []byte
	res := guard(func() error { var e error; raw, e = x.fsys.VerifInodeRaw(n.ref.ino); return e })
	if res.bad() || len(raw) < 128 {
		return nil
	}
	return raw
}

// extentInfo: number of flattened extents and the first unmapped block below EOF (-1 if none), as the library sees them.
func (x *imgCtx) extentInfo(n *node) (int, int) {
	fallback := -1
	if n.holes {
		fallback = 0
	}
	raw := x.rawInode(n)
	if raw == nil {
		return 0, fallback
	}
	flags := binary.LittleEndian.Uint32(raw[0x20:0x24])
	if flags&0x80000 == 0 {
		return 0, fallback
	}
	var ex []ext4.VerifExtent
	res := guard(func() error {
		var e error
		ex, e = x.fsys.VerifFlatten(append([]byte(nil), raw[0x28:0x64]...), binary.LittleEndian.Uint32(raw[0x1c:0x20]))
		return e
	})
	if res.bad() {
		return 0, fallback
	}
	bs := uint64(x.o.bs)
	need := (uint64(len(n.content)) + bs - 1) / bs
	var next uint64
	hole := -1
	for _, e := range ex {
		if uint64(e.FileBlock) > next && hole < 0 {
			hole = int(next)
		}
		next = uint64(e.FileBlock) + uint64(e.Count)
	}
	if next < need && hole < 0 {
		hole = int(next)
	}
	return len(ex), hole
}

func badStr(r result) string {
	if r.panic != "" {
		return "panic"
	}
	return "err"
}

func extStr(ex []ext4.VerifExtent) string {
	if len(ex) == 0 {
		return "-"
	}
	s := make([]string, len(ex))
	for i, e := range ex {
		s[i] = fmt.Sprintf("%d:%d:%d", e.FileBlock, e.Start, e.Count)
	}
	return strings.Join(s, ",")
}

// collectTree walks the on-disk extent tree independently of the library and returns the node blocks.
func collectTree(read func(blk uint64) []byte, node []byte, depthLimit int, out map[uint64][]byte) bool {
	if len(node) < 12 || binary.LittleEndian.Uint16(node[0:2]) != 0xf30a {
		return false
	}
	entries := int(binary.LittleEndian.Uint16(node[2:4]))
	depth := int(binary.LittleEndian.Uint16(node[6:8]))
	if depth == 0 {
		return true
	}
	if depthLimit == 0 || 12+12*entries > len(node) {
		return false
	}
	for i := 0; i < entries; i++ {
		o := 12 + 12*i
		blk := uint64(binary.LittleEndian.Uint32(node[o+4:o+8])) | uint64(binary.LittleEndian.Uint16(node[o+8:o+10]))<<32
		b := read(blk)
		if b == nil {
			return false
		}
		out[blk] = b
		if !collectTree(read, b, depthLimit-1, out) {
			return false
		}
	}
	return true
}

func blocksArg(m map[uint64][]byte) string {
	if len(m) == 0 {
		return "-"
	}
	keys := make([]uint64, 0, len(m))
	for k := range m {
		keys = append(keys, k)
	}
	sort.Slice(keys, func(i, j int) bool { return keys[i] < keys[j] })
	s := make([]string, len(keys))
	for i, k := range keys {
		s[i] = fmt.Sprintf("%d:%s", k, hex.EncodeToString(m[k]))
	}
	return strings.Join(s, ";")
}

func (x *imgCtx) readBlock(blk uint64) []byte {
	var b []byte
	res := guard(func() error {
		var e error
		b, e = x.fsys.VerifFileBytes([]ext4.VerifExtent{{FileBlock: 0, Start: blk, Count: 1}}, uint64(x.o.bs))
		return e
	})
	if res.bad() {
		return nil
	}
	return b
}

// extentCase: flatten the real file's extent tree in the model and compare with the library's flattening.
func (x *imgCtx) extentCase(nid string, n *node) {
	id := x.id + "/" + nid + "/flatten"
	if !x.c.Want(id) {
		return
	}
	raw := x.rawInode(n)
	if raw == nil || binary.LittleEndian.Uint32(raw[0x20:0x24])&0x80000 == 0 {
		return
	}
	root := append([]byte(nil), raw[0x28:0x64]...)
	x.flattenCase(id, x.fsys, x.readBlock, root, binary.LittleEndian.Uint32(raw[0x1c:0x20]))
}

func (x *imgCtx) flattenCase(id string, fsys *ext4.FileSystem, read func(uint64) []byte, root []byte, blocks uint32) {
	c := x.c
	nodes := map[uint64][]byte{}
	if !collectTree(read, root, 5, nodes) {
		return
	}
	total := 0
	for _, b := range nodes {
		total += len(b)
	}
	if total > maxCaseBytes && !c.Thorough() {
		c.Stat("flatten-case-too-large")
		return
	}
	var ex []ext4.VerifExtent
	res := guard(func() error { var e error; ex, e = fsys.VerifFlatten(append([]byte(nil), root...), blocks); return e })
	c.Case(id, "ext4ref.flatten", "root="+hex.EncodeToString(root), "blocks="+blocksArg(nodes))
	if res.bad() {
		c.Impl(id, badStr(res))
	} else {
		c.Impl(id, "ok", "ex="+extStr(ex))
	}
	depth := binary.LittleEndian.Uint16(root[6:8])
	c.Stat(fmt.Sprintf("flatten-depth%d", depth))
}

func entStr(es []ext4.VerifDirEntry) string {
	if len(es) == 0 {
		return "-"
	}
	s := make([]string, len(es))
	for i, e := range es {
		s[i] = fmt.Sprintf("%d:%d:%s", e.Inode, e.FileType, hx.Hex([]byte(e.Name)))
	}
	return strings.Join(s, ",")
}

// dirCase: parse the real directory's bytes in the model (linear walk or hash tree) and compare.
func (x *imgCtx) dirCase(d string) {
	id := x.id + "/dirparse/" + d
	c := x.c
	n := x.t.nodes[d]
	if !c.Want(id) || n == nil {
		return
	}
	raw := x.rawInode(n)
	if raw == nil {
		return
	}
	flags := binary.LittleEndian.Uint32(raw[0x20:0x24])
	if flags&0x80000 == 0 {
		return
	}
	size := uint64(binary.LittleEndian.Uint32(raw[0x4:0x8]))
	limit := uint64(maxCaseBytes)
	if flags&0x1000 != 0 {
		limit = 3 * maxCaseBytes // hash-indexed directories with an interior level must be in the quick tier too
	}
	if size > limit && !c.Thorough() {
		c.Stat("dir-case-too-large")
		// still exercise the reader, without a model case
		return
	}
	var data []byte
	res := guard(func() error {
		ex, e := x.fsys.VerifFlatten(append([]byte(nil), raw[0x28:0x64]...), binary.LittleEndian.Uint32(raw[0x1c:0x20]))
		if e != nil {
			return e
		}
		data, e = x.fsys.VerifFileBytes(ex, size)
		return e
	})
	if res.bad() || len(data) == 0 {
		return
	}
	gen := binary.LittleEndian.Uint32(raw[0x64:0x68])
	if flags&0x1000 != 0 && len(data) > 0x1f {
		// dx_root.info.indirect_levels: 0 = the root points at the leaves, 1 = one interior level, …
		c.Stat(fmt.Sprintf("htree-indirect-levels=%d", data[0x1e]))
		c.Stat(fmt.Sprintf("htree-blocks<=%d", 1<<uint(bitLen(len(data)/int(x.geo.BlockSize)))))
		// the hypothesis of Props/C20 htree_equals_spec_linear on the reference images: every block behind the root
		// is a well-formed leaf (LeafOK) or an interior dx node (one record without an inode spanning the block)
		bs := int(x.geo.BlockSize)
		for k := 1; (k+1)*bs <= len(data); k++ {
			blk := data[k*bs : (k+1)*bs]
			body, tailOK := blk, true
			if x.geo.MetadataCsum {
				body = blk[:bs-12]
				t := blk[bs-12:]
				tailOK = binary.LittleEndian.Uint32(t[0:]) == 0 && binary.LittleEndian.Uint16(t[4:]) == 12 && t[6] == 0
			}
			rl := int(binary.LittleEndian.Uint16(blk[4:]))
			switch {
			case binary.LittleEndian.Uint32(blk[0:]) == 0 && rl == bs && blk[6] == 0 && data[0x1e] > 0 &&
				binary.LittleEndian.Uint16(blk[0xa:]) >= 1 && binary.LittleEndian.Uint16(blk[0x8:]) >= binary.LittleEndian.Uint16(blk[0xa:]):
				c.Stat("htree-interior-node")
			case tailOK && tilesStrict(body):
				c.Stat("htree-leaf-wellformed")
			default:
				c.Stat("htree-leaf-NOT-wellformed")
			}
		}
	}
	x.dirBlockCases(d, data)
	x.dirCsumCases(d, data, flags&0x1000 != 0, n.ref.ino, gen)
	x.dirParseCase(id, data, flags&0x1000 != 0, n.ref.ino, gen)
}

func (x *imgCtx) dirParseCase(id string, data []byte, hashed bool, ino, gen uint32) {
	c := x.c
	g := x.geo
	b2i := func(b bool) int {
		if b {
			return 1
		}
		return 0
	}
	if hashed {
		var es []ext4.VerifDirEntry
		var depth uint8
		res := guard(func() error {
			var e error
			depth, es, e = ext4.VerifParseDirHashed(data, g.LargeDir, g.MetadataCsum, uint32(g.BlockSize), ino, gen, g.ChecksumSeed)
			return e
		})
		c.Case(id, "ext4ref.dirhashed", fmt.Sprintf("bs=%d", g.BlockSize), fmt.Sprintf("csum=%d", b2i(g.MetadataCsum)), fmt.Sprintf("largedir=%d", b2i(g.LargeDir)), "data="+hex.EncodeToString(data))
		if res.bad() {
			c.Impl(id, badStr(res))
		} else {
			c.Impl(id, "ok", fmt.Sprintf("depth=%d", depth), "es="+entStr(es))
			c.Stat(fmt.Sprintf("dirparse-hashed-depth%d", depth))
		}
		return
	}
	var es []ext4.VerifDirEntry
	res := guard(func() error {
		var e error
		es, e = ext4.VerifParseDirLinear(data, g.MetadataCsum, uint32(g.BlockSize), ino, gen, g.ChecksumSeed)
		return e
	})
	c.Case(id, "ext4ref.dirlinear", fmt.Sprintf("bs=%d", g.BlockSize), fmt.Sprintf("csum=%d", b2i(g.MetadataCsum)), "data="+hex.EncodeToString(data))
	if res.bad() {
		c.Impl(id, badStr(res))
	} else {
		c.Impl(id, "ok", "es="+entStr(es))
		c.Stat("dirparse-linear")
	}
}

func xaStr(m map[string][]byte) string {
	if len(m) == 0 {
		return "-"
	}
	keys := make([]string, 0, len(m))
	for k := range m {
		keys = append(keys, k)
	}
	sort.Strings(keys)
	s := make([]string, len(keys))
	for i, k := range keys {
		s[i] = hex.EncodeToString([]byte(k)) + "=" + hx.Hex(m[k])
	}
	return strings.Join(s, ",")
}

func xattrParseCase(c *hx.Ctx, id string, entries, values []byte) {
	var m map[string][]byte
	res := guard(func() error { var e error; m, e = ext4.VerifParseXattrs(entries, values); return e })
	c.Case(id, "ext4ref.xattr", "entries="+hx.Hex(entries), "values="+hx.Hex(values))
	if res.bad() {
		c.Impl(id, badStr(res))
	} else {
		c.Impl(id, "ok", "xa="+xaStr(m))
	}
}

// xattrCase: in-inode region and xattr block of a real inode through the entry parser.
func (x *imgCtx) xattrCase(nid string, n *node) {
	c := x.c
	raw := x.rawInode(n)
	if raw == nil || len(n.xattrs) == 0 {
		return
	}
	if len(raw) > 132 {
		extra := int(binary.LittleEndian.Uint16(raw[128:130]))
		st := 128 + extra
		if st+4 <= len(raw) && binary.LittleEndian.Uint32(raw[st:st+4]) == 0xEA020000 {
			id := x.id + "/" + nid + "/xattr-ibody"
			if c.Want(id) {
				d := raw[st+4:]
				xattrParseCase(c, id, d, d)
				c.Stat("xattrparse-ibody")
			}
		}
	}
	if n.ref.fileACL != 0 {
		id := x.id + "/" + nid + "/xattr-block"
		if b := x.readBlock(n.ref.fileACL); b != nil && c.Want(id) && binary.LittleEndian.Uint32(b[0:4]) == 0xEA020000 {
			xattrParseCase(c, id, b[32:], b)
			c.Stat("xattrparse-block")
		}
	}
}

// xattrRegimeStat records where the reference tool put the attributes of a node that was read back correctly:
// inode kind x (in-inode / external block / both) x inode size.
func (x *imgCtx) xattrRegimeStat(n *node) {
	c := x.c
	ibody := false
	if raw := x.rawInode(n); len(raw) > 132 {
		st := 128 + int(binary.LittleEndian.Uint16(raw[128:130]))
		// the magic alone does not count: the reference tool writes it in front of an empty table as well
		ibody = st+8 <= len(raw) && binary.LittleEndian.Uint32(raw[st:st+4]) == 0xEA020000 && binary.LittleEndian.Uint32(raw[st+4:st+8]) != 0
	}
	block := n.ref != nil && n.ref.fileACL != 0
	where := "none"
	switch {
	case ibody && block:
		where = "both"
	case block:
		where = "block"
	case ibody:
		where = "ibody"
	}
	k := n.kind.String()
	if n.kind == kSymlink {
		if len(n.target) < 60 {
			k = "symlink-fast"
		} else {
			k = "symlink-slow"
		}
	}
	c.Stat(fmt.Sprintf("xattr-regime:%s:%s:isz%d", k, where, x.o.inodeSize))
	if block {
		c.Stat(k + "_with_xattr_block")
		if n.kind == kSymlink && len(n.target) < 60 {
			c.Stat("symlink_with_xattr_block") // a fast symlink whose i_blocks is not zero
		}
	}
}

var castagnoli = crc32.MakeTable(crc32.Castagnoli)

// gateCase: the superblock decoder (64-bit halves, acceptance) and the open decision on the feature words.
func (x *imgCtx) gateCase(img []byte, opened bool, why string) {
	c := x.c
	sb := img[1024:2048]
	sbCase(c, x.id+"/sb", sb)
	ok, _, _, _ := ext4.VerifSuperblockDecode(sb)
	id := x.id + "/gate"
	if !ok || !c.Want(id) {
		return
	}
	if !opened && strings.Contains(why, "Group Descriptor") {
		// refused later, while reading the group descriptor table: not a decision on the feature words
		c.Stat("refused-at-gdt")
		return
	}
	compat := binary.LittleEndian.Uint32(sb[0x5c:0x60])
	incompat := binary.LittleEndian.Uint32(sb[0x60:0x64])
	ro := binary.LittleEndian.Uint32(sb[0x64:0x68])
	c.Case(id, "ext4ref.gate", fmt.Sprintf("compat=%d", compat), fmt.Sprintf("incompat=%d", incompat), fmt.Sprintf("rocompat=%d", ro))
	acc := 0
	if opened {
		acc = 1
	}
	c.Impl(id, fmt.Sprintf("accept=%d", acc))
	c.Stat(fmt.Sprintf("gate-accept=%d", acc))
}

func sbCase(c *hx.Ctx, id string, sb []byte) {
	if !c.Want(id) {
		return
	}
	// crc32c as the library computes it (seed 0xffffffff, no final inversion)
	crc := ^crc32.Update(0, castagnoli, sb[:0x3fc])
	csumOK := 0
	if crc == binary.LittleEndian.Uint32(sb[0x3fc:0x400]) {
		csumOK = 1
	}
	var ok bool
	var bc uint64
	var gds uint16
	res := guard(func() error { ok, bc, gds, _ = ext4.VerifSuperblockDecode(sb); return nil })
	c.Case(id, "ext4ref.sb", fmt.Sprintf("csumok=%d", csumOK), "sb="+hex.EncodeToString(sb[:0x180]))
	switch {
	case res.bad():
		c.Impl(id, "panic")
	case !ok:
		c.Impl(id, "refuse")
	default:
		c.Impl(id, "ok", fmt.Sprintf("blocks=%d", bc), fmt.Sprintf("gdsize=%d", gds))
	}
}

// ---- synthetic inputs --------------------------------------------------------------------------

func putExtHeader(b []byte, entries, max, depth int) {
	binary.LittleEndian.PutUint16(b[0:2], 0xf30a)
	binary.LittleEndian.PutUint16(b[2:4], uint16(entries))
	binary.LittleEndian.PutUint16(b[4:6], uint16(max))
	binary.LittleEndian.PutUint16(b[6:8], uint16(depth))
}

type synthTree struct {
	r      *hx.Rng
	bs     int
	dev    *memdev.Dev
	next   uint64 // next free block for tree nodes
	nextFB uint32
}

// build returns node bytes (size bytes) for a subtree of the given depth, advancing nextFB.
func (s *synthTree) build(size, depth int, maxEntries int) []byte {
	b := make([]byte, size)
	r := s.r
	n := 1 + r.Intn(maxEntries)
	if r.Chance(8) {
		n = 0
	}
	putExtHeader(b, n, (size-12)/12, depth)
	for i := 0; i < n; i++ {
		o := 12 + 12*i
		if depth == 0 {
			if r.Chance(40) {
				s.nextFB += uint32(r.Intn(5)) // hole
			}
			cnt := 1 + r.Intn(40)
			if r.Chance(5) {
				cnt = 32768 + r.Intn(100) // uninitialised-extent style length
			}
			start := uint64(r.Intn(1<<20)) | uint64(r.Intn(3))<<32
			binary.LittleEndian.PutUint32(b[o:o+4], s.nextFB)
			binary.LittleEndian.PutUint16(b[o+4:o+6], uint16(cnt))
			binary.LittleEndian.PutUint16(b[o+6:o+8], uint16(start>>32))
			binary.LittleEndian.PutUint32(b[o+8:o+12], uint32(start))
			s.nextFB += uint32(cnt)
		} else {
			blk := s.next
			s.next++
			binary.LittleEndian.PutUint32(b[o:o+4], s.nextFB)
			binary.LittleEndian.PutUint32(b[o+4:o+8], uint32(blk))
			binary.LittleEndian.PutUint16(b[o+8:o+10], uint16(blk>>32))
			child := s.build(s.bs, depth-1, 1+s.r.Intn(6))
			s.dev.RawWrite(child, int64(blk)*int64(s.bs))
		}
	}
	return b
}

func synthDirBlock(r *hx.Rng, bs int, csum bool) []byte {
	b := make([]byte, bs)
	limit := bs
	if csum {
		limit = bs - 12
		b[bs-12+4] = 12
		b[bs-12+7] = 0xde
	}
	off := 0
	for off < limit {
		nl := 1 + r.Intn(40)
		if r.Chance(5) {
			nl = 255
		}
		rec := (8 + nl + 3) &^ 3
		if r.Chance(30) {
			rec += 4 * r.Intn(8) // slack left by a deleted neighbour
		}
		if off+rec > limit || limit-(off+rec) < 12 {
			rec = limit - off
			if 8+nl > rec {
				nl = rec - 8
			}
		}
		ino := uint32(11 + r.Intn(5000))
		if r.Chance(10) {
			ino = 0 // deleted entry
		}
		binary.LittleEndian.PutUint32(b[off:off+4], ino)
		binary.LittleEndian.PutUint16(b[off+4:off+6], uint16(rec))
		b[off+6] = byte(nl)
		b[off+7] = byte(hx.Pick(r, []int{0, 1, 2, 7, 1, 1}))
		copy(b[off+8:off+8+nl], []byte(genName(r, nl, nl)))
		off += rec
	}
	return b
}

func synthXattr(r *hx.Rng, size int, hdr int) (entries, values []byte) {
	values = make([]byte, size)
	pos := hdr
	vend := size
	n := r.Intn(7)
	for i := 0; i < n; i++ {
		nl := r.Intn(20)
		idx := hx.Pick(r, []int{1, 1, 4, 6, 7, 2, 3, 0, 5, 9})
		if idx == 0 && nl == 0 {
			nl = 1
		}
		if idx == 2 || idx == 3 {
			nl = 0
		}
		vs := r.Intn(50)
		if r.Chance(15) {
			vs = 0
		}
		esz := (16 + nl + 3) &^ 3
		vpad := (vs + 3) &^ 3
		if pos+esz+4 > vend-vpad {
			break
		}
		vend -= vpad
		values[pos] = byte(nl)
		values[pos+1] = byte(idx)
		binary.LittleEndian.PutUint16(values[pos+2:pos+4], uint16(vend))
		if r.Chance(3) {
			binary.LittleEndian.PutUint32(values[pos+4:pos+8], 77) // value in an EA inode
		}
		binary.LittleEndian.PutUint32(values[pos+8:pos+12], uint32(vs))
		copy(values[pos+16:], []byte(genName(r, nl, nl))[:nl])
		copy(values[vend:vend+vs], r.Bytes(vs))
		pos += esz
	}
	return values[hdr:], values
}

// synthCores: inputs beyond what the reference tools happen to produce.
func synthCores(c *hx.Ctx, r *hx.Rng) {
	if c.Only != "" && !strings.HasPrefix(c.Only, "syn") {
		return
	}
	dir := filepath.Join(c.Scratch, "syn")
	os.MkdirAll(dir, 0o755)
	defer os.RemoveAll(dir)
	for _, bs := range []int{1024, 4096} {
		o := imgOpts{name: "syn", fstype: "ext4", bs: bs, inodeSize: 256, sizeKB: 8192}
		t := &tree{root: filepath.Join(dir, fmt.Sprintf("t%d", bs)), nodes: map[string]*node{}}
		os.MkdirAll(t.root, 0o755)
		sub := filepath.Join(dir, fmt.Sprintf("b%d", bs))
		os.MkdirAll(sub, 0o755)
		img, _, err := buildImage(sub, o, t)
		if err != nil {
			c.Note("syn: %v", err)
			continue
		}
		data, _ := os.ReadFile(img)
		dev := memdev.New(int64(len(data)))
		dev.KeepData = false
		dev.RawWrite(data, 0)
		var fsys *ext4.FileSystem
		if res := guard(func() error { var e error; fsys, e = ext4.Read(dev, int64(len(data)), 0, 512); return e }); res.bad() {
			c.Note("syn: cannot open base image: %s", res)
			continue
		}
		x := &imgCtx{c: c, id: fmt.Sprintf("syn%d", bs), o: o, fsys: fsys, geo: fsys.VerifGeometry()}
		read := func(blk uint64) []byte {
			if int64(blk+1)*int64(bs) > dev.Size() {
				return nil
			}
			return dev.Bytes(int64(blk)*int64(bs), bs)
		}
		// extent trees of depth 0..3
		nt := c.N(120, 3000)
		for i := 0; i < nt; i++ {
			s := &synthTree{r: r, bs: bs, dev: dev, next: uint64(len(data)/bs) - 600}
			depth := i % 4
			root := s.build(60, depth, 4)
			x.flattenCase(fmt.Sprintf("syn%d/flat%d", bs, i), fsys, read, root, uint32(r.Intn(1<<20)))
		}
		// directory blocks
		nd := c.N(80, 2000)
		for i := 0; i < nd; i++ {
			csum := r.Bool()
			nb := 1 + r.Intn(3)
			var dd []byte
			for j := 0; j < nb; j++ {
				dd = append(dd, synthDirBlock(r, bs, csum)...)
			}
			id := fmt.Sprintf("syn%d/dir%d", bs, i)
			if !c.Want(id) {
				continue
			}
			var es []ext4.VerifDirEntry
			// checksums are not what the model is about: parse without verification
			b2 := dd
			res := guard(func() error {
				var e error
				es, e = ext4.VerifParseDirLinear(b2, false, uint32(bs), 2, 0, 0)
				return e
			})
			c.Case(id, "ext4ref.dirlinear", fmt.Sprintf("bs=%d", bs), "csum=0", "data="+hex.EncodeToString(dd))
			if res.bad() {
				c.Impl(id, badStr(res))
			} else {
				c.Impl(id, "ok", "es="+entStr(es))
			}
			c.Stat("dirparse-synthetic")
		}
		// xattr regions
		nx := c.N(120, 3000)
		for i := 0; i < nx; i++ {
			id := fmt.Sprintf("syn%d/xa%d", bs, i)
			if !c.Want(id) {
				continue
			}
			var e, v []byte
			if r.Bool() {
				e, v = synthXattr(r, 96+r.Intn(160), 0) // in-inode region: offsets relative to the first entry
			} else {
				e, v = synthXattr(r, bs, 32)
			}
			xattrParseCase(c, id, e, v)
			c.Stat("xattrparse-synthetic")
		}
		// superblock halves: real superblock with the high words and feature bits varied
		ns := c.N(60, 1500)
		for i := 0; i < ns; i++ {
			sb := append([]byte(nil), data[1024:2048]...)
			ro := binary.LittleEndian.Uint32(sb[0x64:0x68])
			if r.Chance(70) {
				ro &^= 0x400 // no metadata_csum: no superblock checksum to maintain
			}
			binary.LittleEndian.PutUint32(sb[0x64:0x68], ro)
			inc := binary.LittleEndian.Uint32(sb[0x60:0x64])
			if r.Bool() {
				inc ^= 0x80 // toggle 64bit
			}
			binary.LittleEndian.PutUint32(sb[0x60:0x64], inc)
			binary.LittleEndian.PutUint32(sb[0x4:0x8], uint32(r.U64()))
			binary.LittleEndian.PutUint32(sb[0x150:0x154], uint32(r.Intn(1<<16)))
			binary.LittleEndian.PutUint16(sb[0xfe:0x100], uint16(hx.Pick(r, []int{32, 64, 64, 0, 128})))
			if r.Chance(10) {
				sb[0x175] = byte(r.Intn(3))
			}
			if r.Chance(5) {
				sb[0x38] ^= 0xff
			}
			sbCase(c, fmt.Sprintf("syn%d/sb%d", bs, i), sb)
			c.Stat("sb-synthetic")
		}
	}
}

func knownReplays(c *hx.Ctx) {}
