package ext4ref

import (
	"encoding/binary"
	"encoding/hex"
	"fmt"
	"hash/crc32"
	"sort"
	"strings"
	"sync/atomic"

	"github.com/diskfs/go-diskfs/filesystem/ext4"

	"verif/harness/internal/hx"
	"verif/harness/internal/memdev"
)

// Inode decoding correspondence (Model/Ext4/InodeDecode.lean: goDecode, goCsumOk, goFast — the mirror of
// inodeFromBytes that Props/C20 mirror_inode_* compare with the SPEC decoder):
//
//	ext4ref.inodedec raw=HEX isz=N huge=0|1 seed=N n=N fmask=N
//	    -> short | exterr | csum | ok + every number inodeFromBytes takes from the record
//
// on the raw inode of tree nodes of every opened reference image (the image's seed and inode numbers) and on
// synthetic records: inode sizes 128..1024, every i_extra_isize class (0, 4, .., 32, beyond the inode), random
// bytes in every field, fast / slow symlinks, huge_file on and off, checksum right / wrong, short and long input.

func inodeDecImpl(raw []byte, isz int, huge bool, seed, num, fmask uint32) []string {
	var a ext4.VerifInodeAll
	res := guard(func() error {
		var e error
		a, e = ext4.VerifInodeDecodeAll(raw, uint16(isz), huge, seed, num)
		return e
	})
	switch {
	case res.panic != "" || res.hang:
		return []string{"panic"}
	case res.err != nil:
		s := res.err.Error()
		switch {
		case strings.Contains(s, "too short"):
			return []string{"short"}
		case strings.Contains(s, "checksum mismatch"):
			return []string{"csum"}
		case strings.Contains(s, "error parsing extent tree"):
			return []string{"exterr"}
		}
		return []string{"err:" + s}
	}
	fast := a.Mode&0xF000 == 0xA000 && a.Size < 60
	tgt := "-"
	if fast && len(a.LinkTarget) > 0 {
		tgt = hex.EncodeToString([]byte(a.LinkTarget))
	}
	b2i := func(b bool) int {
		if b {
			return 1
		}
		return 0
	}
	return []string{"ok", fmt.Sprintf("mode=%d", a.Mode), fmt.Sprintf("uid=%d", a.UID), fmt.Sprintf("gid=%d", a.GID),
		fmt.Sprintf("size=%d", a.Size), fmt.Sprintf("links=%d", a.Links), fmt.Sprintf("flags=%d", a.Flags&fmask),
		fmt.Sprintf("blocks=%d", a.Blocks), fmt.Sprintf("fsb=%d", b2i(a.FilesystemBlocks)), fmt.Sprintf("gen=%d", a.Generation),
		fmt.Sprintf("acl=%d", a.FileACL), fmt.Sprintf("ver=%d", a.Version), fmt.Sprintf("extra=%d", a.ExtraIsize),
		fmt.Sprintf("dtime=%d", a.Dtime), fmt.Sprintf("proj=%d", a.Project),
		"at=" + tsStr(a.Atime), "ct=" + tsStr(a.Ctime), "mt=" + tsStr(a.Mtime), "cr=" + tsStr(a.Crtim),
		fmt.Sprintf("fast=%d", b2i(fast)), "tgt=" + tgt}
}

func inodeDecCase(c *hx.Ctx, id string, raw []byte, isz int, huge bool, seed, num, fmask uint32) {
	if !c.Want(id) {
		return
	}
	h := 0
	if huge {
		h = 1
	}
	c.Case(id, "ext4ref.inodedec", "raw="+hexOrDash(raw), fmt.Sprintf("isz=%d", isz), fmt.Sprintf("huge=%d", h),
		fmt.Sprintf("seed=%d", seed), fmt.Sprintf("n=%d", num), fmt.Sprintf("fmask=%d", fmask))
	c.Impl(id, inodeDecImpl(raw, isz, huge, seed, num, fmask)...)
	c.Stat("inodedec")
}

// inodeDecCases: the raw inodes of the image's own tree.
func (x *imgCtx) inodeDecCases() {
	c := x.c
	fmask := ext4.VerifInodeFlagsMask()
	paths := make([]string, 0, len(x.t.nodes))
	for p := range x.t.nodes {
		paths = append(paths, p)
	}
	sort.Strings(paths)
	limit := c.N(40, 160)
	done, bigs := 0, 0
	for _, p := range paths {
		n := x.t.nodes[p]
		if n.ref == nil {
			continue
		}
		if strings.HasPrefix(p, "big/") || strings.HasPrefix(p, "fill/") {
			bigs++
			if bigs%37 != 0 {
				continue
			}
		}
		if done >= limit {
			break
		}
		raw := x.rawInode(n)
		if raw == nil {
			continue
		}
		done++
		inodeDecCase(c, x.id+"/inodedec/"+p, raw, int(x.geo.InodeSize), x.geo.HugeFile, x.geo.ChecksumSeed, n.ref.ino, fmask)
		c.Stat("inodedec-image-" + n.kind.String())
		if len(raw) > 0x82 {
			c.Stat(fmt.Sprintf("inodedec-image-extra=%d", binary.LittleEndian.Uint16(raw[0x80:0x82])))
		}
	}
}

// synthInodeDec: synthetic records.
func synthInodeDec(c *hx.Ctx, r *hx.Rng) {
	fmask := ext4.VerifInodeFlagsMask()
	total := c.N(500, 8000)
	for k := 0; k < total; k++ {
		id := fmt.Sprintf("isyn/%d", k)
		isz := hx.Pick(r, []int{128, 128, 256, 256, 256, 256, 512, 1024})
		raw := r.Bytes(isz)
		// mode: a real type nibble most of the time
		typ := hx.Pick(r, []uint16{0x1000, 0x2000, 0x4000, 0x6000, 0x8000, 0x8000, 0xA000, 0xA000, 0xA000, 0xC000})
		if r.Chance(10) {
			typ = uint16(r.Intn(16)) << 12
		}
		binary.LittleEndian.PutUint16(raw[0:], typ|uint16(r.Intn(4096)))
		// size: small numbers (symlink rule around 60), block-ish numbers, both halves
		switch r.Intn(5) {
		case 0:
			binary.LittleEndian.PutUint32(raw[4:], uint32(r.Intn(64)))
			binary.LittleEndian.PutUint32(raw[0x6c:], 0)
		case 1:
			binary.LittleEndian.PutUint32(raw[4:], uint32(58+r.Intn(5)))
			binary.LittleEndian.PutUint32(raw[0x6c:], 0)
		case 2:
			binary.LittleEndian.PutUint32(raw[0x6c:], uint32(r.Intn(3)))
		}
		// flags: only bits the Go struct keeps; the extents flag with a parsable root or not at all
		fl := binary.LittleEndian.Uint32(raw[0x20:]) & fmask &^ 0x80000
		if r.Chance(50) {
			fl |= 0x80000
			for i := 0x28; i < 0x64; i++ {
				raw[i] = 0
			}
			binary.LittleEndian.PutUint16(raw[0x28:], 0xf30a)
			binary.LittleEndian.PutUint16(raw[0x28+2:], uint16(r.Intn(5)))
			binary.LittleEndian.PutUint16(raw[0x28+4:], 4)
			if r.Chance(5) {
				binary.LittleEndian.PutUint16(raw[0x28:], 0xf30b) // bad magic: the extent root does not parse
				c.Stat("inodedec-bad-extent-root")
			}
		}
		binary.LittleEndian.PutUint32(raw[0x20:], fl)
		// i_extra_isize classes
		extra := -1
		if isz > 128 {
			extra = hx.Pick(r, []int{0, 4, 8, 12, 16, 20, 24, 28, 32, 32, 32, 32, 36, isz - 128, isz, 0xfffc, int(r.Intn(65536))})
			binary.LittleEndian.PutUint16(raw[0x80:], uint16(extra))
			if r.Chance(20) { // an unused extra area
				for i := 0x84; i < 0xa0 && i < isz; i++ {
					raw[i] = 0
				}
			}
		}
		if r.Chance(30) { // seconds near the 32-bit edges
			for _, o := range []int{0x8, 0xc, 0x10} {
				binary.LittleEndian.PutUint32(raw[o:], hx.Pick(r, []uint32{0, 1, 0x7fffffff, 0x80000000, 0xffffffff, uint32(r.U64())}))
			}
		}
		huge := r.Bool()
		seed := uint32(r.U64())
		num := uint32(1 + r.Intn(1<<20))
		sum := ext4.VerifInodeChecksum(raw, uint16(isz), seed, num)
		good := !r.Chance(12)
		if !good {
			sum ^= 1 << uint(r.Intn(32))
			if isz < 0x84 {
				sum ^= 1 << uint(r.Intn(16))
			}
		}
		binary.LittleEndian.PutUint16(raw[0x7c:], uint16(sum))
		if isz >= 0x84 {
			binary.LittleEndian.PutUint16(raw[0x82:], uint16(sum>>16))
		}
		in := raw
		switch {
		case r.Chance(4):
			in = raw[:r.Intn(isz)]
			c.Stat("inodedec-short-input")
		case r.Chance(6):
			in = append(append([]byte(nil), raw...), r.Bytes(1+r.Intn(64))...)
			c.Stat("inodedec-long-input")
		}
		inodeDecCase(c, id, in, isz, huge, seed, num, fmask)
		c.Stat(fmt.Sprintf("inodedec-isz=%d", isz))
		switch {
		case extra < 0:
			c.Stat("inodedec-extra:none")
		case extra < 24:
			c.Stat("inodedec-extra:below-timestamps")
		case extra <= isz-128:
			c.Stat("inodedec-extra:covers-timestamps")
		default:
			c.Stat("inodedec-extra:beyond-inode")
		}
		if typ == 0xA000 {
			c.Stat("inodedec-symlink")
		}
		if !good {
			c.Stat("inodedec-bad-checksum")
		}
	}
}

// ---- one directory block: mirror of parseDirEntriesLinear's loop (as it is now) and the SPEC rec_len walk ----
//
//	ext4ref.dirblock data=HEX bs=N -> err | ok es=<every record> live=<records in use>
//
// (Model/Ext4/DirNow.lean parseEntriesNow, ImageSpec.dirWalk; Props/C20 mirror_dir_block_eq_spec)

func dirEntStr(es []ext4.VerifDirEntry, liveOnly bool) string {
	var parts []string
	for _, e := range es {
		if liveOnly && e.Inode == 0 {
			continue
		}
		parts = append(parts, fmt.Sprintf("%d:%d:%s", e.Inode, e.FileType, hexOrDash([]byte(e.Name))))
	}
	if len(parts) == 0 {
		return "-"
	}
	return strings.Join(parts, ",")
}

// tilesStrict: the block's rec_len chain tiles it the way the SPEC walk demands (multiples of 4).
func tilesStrict(b []byte) bool {
	for i := 0; i < len(b); {
		if i+12 > len(b) {
			return false
		}
		rl := int(binary.LittleEndian.Uint16(b[i+4:]))
		if rl < 12 || rl%4 != 0 || i+rl > len(b) || 8+int(b[i+6]) > rl {
			return false
		}
		i += rl
	}
	return true
}

func dirBlockCase(c *hx.Ctx, id string, blk []byte, bs int) {
	if !c.Want(id) {
		return
	}
	var es []ext4.VerifDirEntry
	res := guard(func() error {
		var e error
		es, e = ext4.VerifParseDirLinear(blk, false, uint32(bs), 0, 0, 0)
		return e
	})
	c.Case(id, "ext4ref.dirblock", fmt.Sprintf("bs=%d", bs), "data="+hex.EncodeToString(blk))
	switch {
	case res.panic != "" || res.hang:
		c.Impl(id, "panic")
	case res.err != nil:
		c.Impl(id, "err")
		c.Stat("dirblock-refused")
	default:
		live := "!"
		if len(blk) == bs && tilesStrict(blk) { // the SPEC walk is over a whole block of the block size
			live = dirEntStr(es, true)
		}
		c.Impl(id, "ok", "es="+dirEntStr(es, false), "live="+live)
		c.Stat("dirblock")
	}
}

// dirBlockCases: the first blocks of every directory of the image (dx root and interior blocks included: to a
// linear reader they are records without an inode).
func (x *imgCtx) dirBlockCases(d string, data []byte) {
	bs := int(x.geo.BlockSize)
	limit := x.c.N(3, 12)
	for k := 0; k < limit && (k+1)*bs <= len(data); k++ {
		dirBlockCase(x.c, fmt.Sprintf("%s/dirblock/%s/%d", x.id, d, k), data[k*bs:(k+1)*bs], bs)
	}
	if n := len(data) / bs; n > limit { // and the last block
		dirBlockCase(x.c, fmt.Sprintf("%s/dirblock/%s/%d", x.id, d, n-1), data[(n-1)*bs:n*bs], bs)
	}
}

func synthDirBlocks(c *hx.Ctx, r *hx.Rng) {
	total := c.N(150, 2500)
	for k := 0; k < total; k++ {
		bs := hx.Pick(r, []int{1024, 1024, 2048, 4096})
		blk := synthDirBlock(r, bs, r.Bool())
		if len(blk) > bs {
			blk = blk[:bs]
		}
		switch r.Intn(10) {
		case 0: // a rec_len of the chain damaged
			if len(blk) > 16 {
				binary.LittleEndian.PutUint16(blk[4:], uint16(r.Intn(2*bs)))
			}
			c.Stat("dirblock-synth-damaged-reclen")
		case 1: // cut short
			blk = blk[:r.Intn(len(blk)+1)]
			c.Stat("dirblock-synth-cut")
		case 2: // a name length beyond its record
			if len(blk) > 16 {
				blk[6] = byte(200 + r.Intn(56))
			}
			c.Stat("dirblock-synth-long-name")
		}
		dirBlockCase(c, fmt.Sprintf("dbsyn/%d", k), blk, bs)
	}
}

// ---- the feature gate as a decision table (Model/Ext4/FeatureGate.lean gateAcceptsAll) ----
//
//	ext4ref.gatetbl compat=N incompat=N rocompat=N -> accept=0|1
//
// One reference image (the first that opens): each of the 96 feature bits toggled in turn in its superblock
// (checksum recomputed), ext4.Read called on the result.  A refusal that is not the gate's (descriptor checksums
// after toggling 64bit or csum_seed, the superblock decoder refusing a checksum type) is not a decision on the
// feature words and gives no case.

var gateSweepDone int32

func (x *imgCtx) gateSweep(img []byte) {
	c := x.c
	if len(img) < 4096 || x.o.name != "default-1k" || !atomic.CompareAndSwapInt32(&gateSweepDone, 0, 1) {
		return
	}
	head := len(img)
	if head > 1<<20 {
		head = 1 << 20
	}
	words := []struct {
		name string
		off  int
	}{{"compat", 0x5c}, {"incompat", 0x60}, {"rocompat", 0x64}}
	for _, w := range words {
		for k := 0; k < 32; k++ {
			id := fmt.Sprintf("%s/gatesweep/%s/%d", x.id, w.name, k)
			if !c.Want(id) {
				continue
			}
			buf := append([]byte(nil), img[:head]...)
			sb := buf[1024:2048]
			v := binary.LittleEndian.Uint32(sb[w.off:]) ^ (1 << uint(k))
			binary.LittleEndian.PutUint32(sb[w.off:], v)
			binary.LittleEndian.PutUint32(sb[0x3fc:], ^crc32.Update(0, castagnoli, sb[:0x3fc]))
			dev := memdev.New(int64(len(img)))
			dev.KeepData = false
			dev.RawWrite(buf, 0)
			dev.ReadOnly = true
			res := guard(func() error { _, e := ext4.Read(dev, int64(len(img)), 0, 512); return e })
			acc := -1
			switch {
			case res.panic != "" || res.hang:
				x.fail("gatesweep/"+w.name+fmt.Sprint(k), "-", "ext4.Read: "+res.String())
				continue
			case res.err == nil:
				acc = 1
			case strings.Contains(res.err.Error(), "not supported"):
				acc = 0
			}
			if acc < 0 {
				c.Stat(fmt.Sprintf("gatesweep-refused-elsewhere:%s:%d", w.name, k))
				continue
			}
			c.Case(id, "ext4ref.gatetbl", fmt.Sprintf("compat=%d", binary.LittleEndian.Uint32(sb[0x5c:])),
				fmt.Sprintf("incompat=%d", binary.LittleEndian.Uint32(sb[0x60:])), fmt.Sprintf("rocompat=%d", binary.LittleEndian.Uint32(sb[0x64:])))
			c.Impl(id, fmt.Sprintf("accept=%d", acc))
			c.Stat(fmt.Sprintf("gatesweep-accept=%d", acc))
		}
	}
}

// ---- checksum verification decisions (Model/Ext4/CsumMirror.lean goSbCsumOk / goSeed / goGdCsumOk / goDirCsumOk) ----
//
//	ext4ref.csumdec kind=sb|seed|gd|dir …  -> ok=0|1 (seed=N)
//
// on the superblock, every group descriptor and directory leaf blocks of the opened images, as the reference tool
// wrote them and with one byte damaged; plus synthetic descriptors with group numbers beyond 16 bits.

func csumVerdict(err error) (int, bool) {
	switch {
	case err == nil:
		return 1, true
	case strings.Contains(err.Error(), "checksum mismatch") || strings.Contains(err.Error(), "invalid superblock checksum"):
		return 0, true
	}
	return 0, false // refused for another reason: not a checksum decision
}

func csumCase(c *hx.Ctx, id string, err error, args ...string) {
	if !c.Want(id) {
		return
	}
	v, ok := csumVerdict(err)
	if !ok {
		c.Stat("csumdec-other-error")
		return
	}
	c.Case(id, "ext4ref.csumdec", args...)
	c.Impl(id, fmt.Sprintf("ok=%d", v))
	c.Stat(fmt.Sprintf("csumdec-%s-ok=%d", strings.TrimPrefix(args[0], "kind="), v))
}

func damage(r *hx.Rng, b []byte, lo, hi int) []byte {
	d := append([]byte(nil), b...)
	if hi > len(d) {
		hi = len(d)
	}
	if hi > lo {
		d[lo+r.Intn(hi-lo)] ^= byte(1 << uint(r.Intn(8)))
	}
	return d
}

func (x *imgCtx) csumCases(img []byte) {
	c, g := x.c, x.geo
	if !g.MetadataCsum || len(img) < 4096 {
		return
	}
	sb := img[1024:2048]
	// superblock: as written, and with a byte damaged behind the feature words / in front of the checksum
	for k, b := range [][]byte{sb, damage(x.rng, sb, 0x180, 0x3fc), damage(x.rng, sb, 0x3fc, 0x400), damage(x.rng, sb, 0x78, 0xfe)} {
		_, err := ext4.VerifSuperblockSeed(b)
		csumCase(c, fmt.Sprintf("%s/csumdec/sb/%d", x.id, k), err, "kind=sb", "data="+hex.EncodeToString(b))
	}
	if id := x.id + "/csumdec/seed"; c.Want(id) {
		if s, err := ext4.VerifSuperblockSeed(sb); err == nil {
			c.Case(id, "ext4ref.csumdec", "kind=seed", "data="+hex.EncodeToString(sb))
			c.Impl(id, fmt.Sprintf("seed=%d", s))
			c.Stat("csumdec-seed")
		}
	}
	// group descriptors
	gds := int(g.GroupDescriptorSize)
	gdt := int(g.BlockSize)
	if g.BlockSize == 1024 {
		gdt = 2048
	}
	for grp := 0; grp < int(g.GroupCount) && grp < c.N(6, 64) && gdt+(grp+1)*gds <= len(img); grp++ {
		raw := img[gdt+grp*gds : gdt+(grp+1)*gds]
		for k, b := range [][]byte{raw, damage(x.rng, raw, 0, gds)} {
			err := ext4.VerifGroupDescriptorCsum(b, uint16(gds), grp, g.ChecksumSeed)
			csumCase(c, fmt.Sprintf("%s/csumdec/gd/%d/%d", x.id, grp, k), err, "kind=gd", "data="+hex.EncodeToString(b),
				fmt.Sprintf("seed=%d", g.ChecksumSeed), fmt.Sprintf("grp=%d", grp), fmt.Sprintf("gds=%d", gds))
		}
	}
}

// dirCsumCases: leaf blocks of a directory (not the dx root / interior nodes: they carry a dx tail, not a leaf tail).
func (x *imgCtx) dirCsumCases(d string, data []byte, hashed bool, ino, gen uint32) {
	c, g := x.c, x.geo
	if !g.MetadataCsum {
		return
	}
	bs := int(g.BlockSize)
	done := 0
	for k := 0; (k+1)*bs <= len(data) && done < c.N(2, 8); k++ {
		blk := data[k*bs : (k+1)*bs]
		t := blk[bs-12:]
		if binary.LittleEndian.Uint32(t) != 0 || binary.LittleEndian.Uint16(t[4:]) != 12 || t[7] != 0xde {
			continue // no leaf tail
		}
		if hashed && k == 0 {
			continue
		}
		done++
		for v, b := range [][]byte{blk, damage(x.rng, blk, 0, bs)} {
			_, err := ext4.VerifParseDirLinear(b, true, uint32(bs), ino, gen, g.ChecksumSeed)
			csumCase(c, fmt.Sprintf("%s/csumdec/dir/%s/%d/%d", x.id, d, k, v), err, "kind=dir", "data="+hex.EncodeToString(b),
				fmt.Sprintf("seed=%d", g.ChecksumSeed), fmt.Sprintf("ino=%d", ino), fmt.Sprintf("gen=%d", gen), fmt.Sprintf("bs=%d", bs))
		}
	}
}

func synthCsum(c *hx.Ctx, r *hx.Rng) {
	total := c.N(120, 2000)
	for k := 0; k < total; k++ {
		gds := hx.Pick(r, []int{32, 64, 64, 128})
		raw := r.Bytes(gds)
		grp := hx.Pick(r, []int{0, 1, 255, 256, 65535, 65536, 65537, 1 << 20, int(r.Intn(1 << 24))})
		seed := uint32(r.U64())
		// make the checksum right for the 16-bit group number the library uses, or for the full one, or leave it random
		err := ext4.VerifGroupDescriptorCsum(raw, uint16(gds), grp, seed)
		csumCase(c, fmt.Sprintf("csyn/gd/%d", k), err, "kind=gd", "data="+hex.EncodeToString(raw),
			fmt.Sprintf("seed=%d", seed), fmt.Sprintf("grp=%d", grp), fmt.Sprintf("gds=%d", gds))
	}
}
