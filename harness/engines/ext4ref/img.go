package ext4ref

import (
	"encoding/hex"
	"fmt"
	iofs "io/fs"
	"os"
	"path/filepath"
	"sort"
	"strings"
	"sync/atomic"
	"time"

	"github.com/diskfs/go-diskfs/filesystem/ext4"
)

// Whole-image correspondence (Model/Ext4/ImageSpec.lean, the SPEC reader of ext4 in Lean):
//
//	ext4ref.imgwalk  the reference image is kept on disk and handed to the Lean driver by path; the driver opens it
//	                 with the spec reader (superblock, descriptors, inode addressing and decoding, extent tree search,
//	                 linear directory walk, symlinks, all metadata checksums) and walks it from inode 2.  Compared with
//	                 the library's own walk of the same image (ReadDir recursion + DirEntry.Info): number of paths and a
//	                 digest of the sorted records path|kind|dirent kind|inode|mode|uid|gid|size|links|atime|mtime|ctime|
//	                 crtime|target.  Every checksum of the reference tool must verify in the spec reader
//	                 (openbad=0, inodesbad=0, tailsbad=0): a wrong seed, field order or zeroed range shows at once.
//	ext4ref.imgfile  one path: the spec reader resolves it from the root and reports kind, metadata, digest of the
//	                 contents (holes as zeros), link target and extended attributes (in-inode + block, sorted);
//	                 compared with Stat / Open+Read / ReadLink / GetXattr of the library.
//
// The metadata the library reports is separately compared with debugfs' dump by the oracle (checkNode), so on these
// images model = library = reference tool.

var keptBytes int64

const keepLimit = 6 << 30 // apparent size of kept images (they are sparse files)

func tsStr(t time.Time) string { return fmt.Sprintf("%d.%d", t.Unix(), t.Nanosecond()) }

func kindLetter(m iofs.FileMode) string {
	switch {
	case m.IsDir():
		return "d"
	case m&iofs.ModeSymlink != 0:
		return "l"
	case m.Type() == 0:
		return "f"
	}
	return "o"
}

func metaStr(fi iofs.FileInfo) (string, *ext4.StatT, bool) {
	st, ok := fi.Sys().(*ext4.StatT)
	if !ok || st == nil {
		return "", nil, false
	}
	return fmt.Sprintf("%d|%d|%d|%d|%d|%d|%s|%s|%s|%s", st.Ino, modeBits(fi.Mode()), st.UID, st.GID, fi.Size(), st.Nlink,
		tsStr(st.AccessTime), tsStr(fi.ModTime()), tsStr(st.ChangeTime), tsStr(st.CreateTime)), st, true
}

func hexOrDash(b []byte) string {
	if len(b) == 0 {
		return "-"
	}
	return hex.EncodeToString(b)
}

func fnvString(s string) uint32 { return fnv([]byte(s)) }

// keepImage moves the image out of the per-image scratch directory so that it outlives runImage (the Lean driver
// runs after the engine); returns "" when the budget is used up.
func (x *imgCtx) keepImage(img string) string {
	fi, err := os.Stat(img)
	if err != nil {
		return ""
	}
	if atomic.AddInt64(&keptBytes, fi.Size()) > keepLimit {
		return ""
	}
	dir := filepath.Join(x.c.Scratch, "keep")
	os.MkdirAll(dir, 0o755)
	dst := filepath.Join(dir, x.id+".img")
	if err := os.Rename(img, dst); err != nil {
		return ""
	}
	return dst
}

// imgCases emits the whole-image cases for an opened image.
func (x *imgCtx) imgCases(imgPath string) {
	c, fsys := x.c, x.fsys
	if imgPath == "" || x.tolerated {
		return
	}
	if contains(x.o.feats, "meta_bg") {
		// the SPEC reader refuses meta_bg (descriptor blocks are spread over the meta groups); the library reads the
		// one-meta-group image through the plain layout, which coincides with it there: judged by the oracle alone
		c.Stat("imgwalk-skipped-meta-bg")
		return
	}
	type ent struct {
		path string
		de   iofs.DirEntry
	}
	var all []ent
	failed := false
	var walk func(d string, depth int)
	walk = func(d string, depth int) {
		if failed || depth > 60 {
			failed = true
			return
		}
		var des []iofs.DirEntry
		if res := guard(func() error { var e error; des, e = fsys.ReadDir(d); return e }); res.bad() {
			failed = true
			return
		}
		for _, e := range des {
			p := e.Name()
			if d != "." {
				p = d + "/" + e.Name()
			}
			all = append(all, ent{p, e})
			if e.IsDir() {
				walk(p, depth+1)
			}
		}
	}
	walk(".", 0)
	if failed {
		c.Stat("imgwalk-skipped-library-error")
		return
	}
	dtype := map[string]string{".": "d"}
	lines := make([]string, 0, len(all))
	// oracle: the mode DirEntry.Info() reports is the mode that was put in (reference tool's dump), as Stat's is
	var modeProbs []string
	modeChecked, modeWrong, permsDropped := 0, 0, 0
	for _, e := range all {
		var fi iofs.FileInfo
		if res := guard(func() error { var err error; fi, err = e.de.Info(); return err }); res.bad() {
			c.Stat("imgwalk-skipped-library-error")
			return
		}
		ms, st, ok := metaStr(fi)
		if !ok {
			c.Stat("imgwalk-skipped-library-error")
			return
		}
		tgt := "-"
		if fi.Mode()&iofs.ModeSymlink != 0 {
			tgt = fmt.Sprintf("%d:%d", len(st.LinkTarget), fnvString(st.LinkTarget))
		}
		if n := x.t.nodes[e.path]; n != nil && n.ref != nil {
			modeChecked++
			if got := modeBits(fi.Mode()); got != n.ref.mode {
				modeWrong++
				if got == 0 && kindLetter(fi.Mode()) == kindLetter(e.de.Type()) {
					permsDropped++ // type bits only: the permission bits of the inode are missing
				}
				if len(modeProbs) < 4 {
					modeProbs = append(modeProbs, fmt.Sprintf("%s: DirEntry.Info().Mode() has %04o, want %04o", clip(e.path), got, n.ref.mode))
				}
			}
		}
		dt := kindLetter(e.de.Type())
		dtype[e.path] = dt
		lines = append(lines, fmt.Sprintf("%s|%s|%s|%s|%s", hex.EncodeToString([]byte(e.path)), kindLetter(fi.Mode()), dt, ms, tgt))
	}
	if id := "dirinfo-mode"; c.Want(x.id + "/" + id) {
		switch {
		case len(modeProbs) == 0:
			x.ok(id)
		default:
			tag := "-"
			if permsDropped > 0 && permsDropped == modeWrong {
				tag = "ext4-direntry-info-mode-drops-permissions"
			}
			x.fail(id, tag, fmt.Sprintf("%d of %d entries (%d with type bits only): %s", modeWrong, modeChecked, permsDropped, strings.Join(modeProbs, "; ")))
		}
	}
	sort.Strings(lines)
	if os.Getenv("VERIF_IMGDUMP") == x.id {
		os.WriteFile(filepath.Join(x.c.Scratch, x.id+".recs"), []byte(strings.Join(lines, "\n")+"\n"), 0o644)
	}
	h := uint32(7)
	for _, l := range lines {
		h = fnvString(l) + h*31
	}
	b2i := func(b bool) int {
		if b {
			return 1
		}
		return 0
	}
	g := x.geo
	gdChecked := uint64(0)
	if g.MetadataCsum {
		gdChecked = g.GroupCount
	}
	if id := x.id + "/imgwalk"; c.Want(id) {
		c.Case(id, "ext4ref.imgwalk", "path="+imgPath)
		c.Impl(id, "ok", fmt.Sprintf("bs=%d", g.BlockSize), fmt.Sprintf("isz=%d", g.InodeSize), fmt.Sprintf("groups=%d", g.GroupCount),
			fmt.Sprintf("csum=%d", b2i(g.MetadataCsum)), fmt.Sprintf("gdchecked=%d", gdChecked), "openbad=0",
			fmt.Sprintf("n=%d", len(lines)), fmt.Sprintf("inodes=%d", len(lines)+1), "inodesbad=0",
			fmt.Sprintf("tails=%d", b2i(g.MetadataCsum)), "tailsbad=0", fmt.Sprintf("h=%d", h))
		c.Stat("imgwalk")
		c.StatN("imgwalk-paths", len(lines))
	}
	// ---- single paths: everything with attributes, every symlink, every sparse / fragmented file, the directories,
	// a sample of the plain files
	paths := make([]string, 0, len(x.t.nodes))
	for p := range x.t.nodes {
		paths = append(paths, p)
	}
	sort.Strings(paths)
	plain, bigs := 0, 0
	for _, p := range paths {
		n := x.t.nodes[p]
		if _, ok := dtype[p]; !ok {
			continue
		}
		special := n.xattrs != nil || n.kind == kSymlink || n.holes || n.frag || n.kind == kDir
		if strings.HasPrefix(p, "big/") || strings.HasPrefix(p, "fill/") {
			bigs++
			if n.xattrs == nil && bigs%41 != 0 {
				continue
			}
		} else if !special {
			plain++
			if plain > 10 && plain%4 != 0 {
				continue
			}
		}
		x.imgFileCase(imgPath, p, n, dtype[p])
	}
}

func (x *imgCtx) imgFileCase(imgPath, p string, n *node, dt string) {
	c, fsys := x.c, x.fsys
	id := x.id + "/imgfile/" + p
	if !c.Want(id) {
		return
	}
	var fi iofs.FileInfo
	if res := guard(func() error { var e error; fi, e = fsys.Stat(p); return e }); res.bad() {
		return
	}
	ms, _, ok := metaStr(fi)
	if !ok {
		return
	}
	data := "-"
	if fi.Mode().Type() == 0 {
		var got []byte
		res := guard(func() error {
			f, e := fsys.Open(p)
			if e != nil {
				return e
			}
			defer guard(func() error { return f.Close() })
			got, e = readAllLike(f)
			return e
		})
		if res.bad() {
			if len(n.unwritten) > 0 {
				c.Stat("imgfile-skipped-unwritten-refused")
			}
			return // judged by the oracle (checkNode), not a correspondence matter
		}
		data = fmt.Sprintf("%d:%d", len(got), fnv(got))
	}
	tgt := "-"
	if fi.Mode()&iofs.ModeSymlink != 0 {
		var got string
		if res := guard(func() error { var e error; got, e = fsys.ReadLink(p); return e }); res.bad() {
			return
		}
		tgt = hexOrDash([]byte(got))
	}
	var xa map[string][]byte
	if res := guard(func() error { var e error; xa, e = fsys.GetXattr(p); return e }); res.bad() {
		return
	}
	if len(n.xattrs) > 0 && !mapsEqual(n.xattrs, xa) && xattrIndexUnknownExplains(n.xattrs, xa) {
		// the trigger of finding ext4-xattr-name-index-unknown fires on this file (judged by checkNode): the SPEC reader
		// names indices 8 and 10 as the reference tools do, the comparison would only repeat the finding
		c.Stat("imgfile-skipped-xattr-name-index")
		return
	}
	hp := "-"
	if p != "." {
		hp = hex.EncodeToString([]byte(p))
	}
	c.Case(id, "ext4ref.imgfile", "path="+imgPath, "p="+hp)
	c.Impl(id, "ok", "k="+kindLetter(fi.Mode()), "dt="+dt, "meta="+ms, "csum=1", "data="+data, "tgt="+tgt, "xa="+xaStr(xa), "xabad=0")
	c.Stat("imgfile")
	c.Stat("imgfile-" + n.kind.String())
	if len(xa) > 0 {
		c.Stat("imgfile-with-xattrs")
	}
	if n.holes {
		c.Stat("imgfile-sparse")
	}
}
