package ext4ref

import (
	"bytes"
	"errors"
	"fmt"
	"io"
	iofs "io/fs"
	"os"
	"path"
	"path/filepath"
	"sort"
	"strings"
	"sync"
	"time"

	"github.com/diskfs/go-diskfs/filesystem/ext4"

	"verif/harness/internal/hx"
	"verif/harness/internal/memdev"
)

func timeChoice(r *hx.Rng) time.Time {
	switch r.Intn(5) {
	case 0:
		return time.Unix(0, 0)
	case 1:
		return time.Unix(1<<31-1-r.Int63n(1000), r.Int63n(1e9))
	case 2:
		return time.Unix(1<<31+r.Int63n(1<<30), r.Int63n(1e9)) // after 2038 (host permitting)
	default:
		return time.Unix(r.Int63n(1<<31), r.Int63n(1e9))
	}
}

// matrix returns the option points for this tier: boundary classes first.
func matrix(c *hx.Ctx) []imgOpts {
	base := func(name string, bs, isz int, feats ...string) imgOpts {
		return imgOpts{name: name, fstype: "ext4", bs: bs, inodeSize: isz, feats: feats, sizeKB: 16 * 1024, bigDir: 150}
	}
	with := func(o imgOpts, f func(*imgOpts)) imgOpts { f(&o); return o }
	m := []imgOpts{
		with(base("default-1k", 1024, 256), func(o *imgOpts) { o.deepFrag = true; o.bigDir = 260; o.sizeKB = 24 * 1024 }),
		with(base("default-4k", 4096, 256), func(o *imgOpts) { o.bigDir = 420; o.sizeKB = 48 * 1024; o.extra = []string{"-g", "4096"} }),
		with(base("default-2k", 2048, 256), func(o *imgOpts) { o.deepFrag = true; o.sizeKB = 32 * 1024 }),
		base("inode128-1k", 1024, 128),
		base("inode128-4k", 4096, 128),
		base("no64bit-1k", 1024, 256, "^64bit"),
		with(base("no64bit-4k", 4096, 256, "^64bit"), func(o *imgOpts) { o.sizeKB = 32 * 1024; o.extra = []string{"-g", "2048"} }),
		base("noflex-1k", 1024, 256, "^flex_bg"),
		with(base("noflex-2k-multigroup", 2048, 256, "^flex_bg"), func(o *imgOpts) { o.extra = []string{"-g", "2048", "-N", "1024"}; o.sizeKB = 20 * 1024 }),
		base("nodirindex-1k", 1024, 256, "^dir_index"),
		base("nohugefile-2k", 2048, 256, "^huge_file"),
		base("sparsesuper2-1k", 1024, 256, "sparse_super2"),
		base("nojournal-4k", 4096, 256, "^has_journal"),
		base("nojournal-1k-smallgroups", 1024, 256, "^has_journal"),
		base("csumseed-1k", 1024, 256, "metadata_csum_seed"),
		base("largedir-1k", 1024, 256, "large_dir"),
		with(base("inode512-4k", 4096, 512), func(o *imgOpts) {}),
		// 1 KiB blocks and a block count of one above a multiple of the group size: the volume has two groups
		// (the groups start at first_data_block = 1), superblock.blockGroupCount computes three and ext4.Read
		// refuses the image over the checksum of a descriptor that does not exist (Props/C20 cex_groups_go_one_more);
		// a refusal satisfies the property, it is counted in the distribution
		with(base("oddblocks-1k", 1024, 256), func(o *imgOpts) { o.sizeKB = 16385 }),
		// images the library is expected to refuse or to fail on without wrong data
		base("nocsum-4k", 4096, 256, "^metadata_csum"),
		base("nocsum-uninitbg-1k", 1024, 256, "^metadata_csum", "uninit_bg"),
		with(base("ext3-1k", 1024, 256), func(o *imgOpts) { o.fstype = "ext3" }),
		with(base("ext2-4k", 4096, 128), func(o *imgOpts) { o.fstype = "ext2" }),
		with(base("noextents-csum-1k", 1024, 256, "^extents", "^64bit"), func(o *imgOpts) { o.unsupported = "noextents" }),
		with(base("ext3-csum-4k", 4096, 256, "metadata_csum"), func(o *imgOpts) { o.fstype = "ext3"; o.unsupported = "noextents" }),
		with(base("inlinedata-1k", 1024, 256, "inline_data"), func(o *imgOpts) { o.unsupported = "inline_data" }),
		with(base("eainode-4k", 4096, 256, "ea_inode"), func(o *imgOpts) { o.unsupported = "ea_inode" }),
		with(base("bigalloc-4k", 4096, 256, "bigalloc"), func(o *imgOpts) { o.extra = []string{"-C", "16384"}; o.sizeKB = 64 * 1024 }),
		// features the gate of ext4.Read lets pass without the reader implementing them (Props/C20 gate_current_uncovered):
		// the reads must be right all the same, or fail with an error. meta_bg with one meta group keeps the descriptors
		// where a plain volume has them; with several, the table the library reads is not a descriptor table (refused
		// over the checksums). encrypt / casefold set by mke2fs alone change nothing on disk.
		with(base("metabg-1k", 1024, 256, "meta_bg", "^resize_inode"), func(o *imgOpts) { o.bigDir = 60; o.sizeKB = 12 * 1024 }),
		with(base("metabg-multi-1k", 1024, 256, "meta_bg", "^resize_inode"), func(o *imgOpts) { o.bigDir = 60; o.sizeKB = 12 * 1024; o.extra = []string{"-g", "256"} }),
		with(base("casefold-1k", 1024, 256, "casefold"), func(o *imgOpts) { o.bigDir = 60; o.sizeKB = 12 * 1024 }),
		with(base("encrypt-4k", 4096, 256, "encrypt"), func(o *imgOpts) { o.bigDir = 60; o.sizeKB = 16 * 1024 }),
		// inodes with i_extra_isize 4, 24, 28 (finding ext4-inode-extra-isize-ignored)
		with(base("smallextra-1k", 1024, 256), func(o *imgOpts) { o.smallExtra = true; o.bigDir = 60; o.sizeKB = 12 * 1024 }),
	}
	if c.Thorough() {
		r := c.Rng
		all := []string{"^64bit", "^flex_bg", "^dir_index", "^huge_file", "sparse_super2", "^has_journal", "metadata_csum_seed", "large_dir", "^resize_inode", "^sparse_super", "^large_file", "^dir_nlink", "^extra_isize", "quota", "project"}
		for i := 0; i < 140; i++ {
			bs := hx.Pick(r, []int{1024, 2048, 4096})
			isz := hx.Pick(r, []int{256, 256, 256, 128, 512, 1024})
			var fs []string
			for _, f := range all {
				if r.Chance(25) {
					fs = append(fs, f)
				}
			}
			o := base(fmt.Sprintf("rand%d-%d-%d", i, bs, isz), bs, isz, fs...)
			if isz == 128 {
				o.feats = append(o.feats, "^extra_isize")
			}
			if contains(o.feats, "^sparse_super") && !contains(o.feats, "^resize_inode") {
				// mke2fs: "reserved online resize blocks not supported on non-sparse filesystem"
				o.feats = append(o.feats, "^resize_inode")
			}
			o.sizeKB = (16 + r.Intn(48)) * 1024
			o.bigDir = 50 + r.Intn(600)
			o.deepFrag = r.Chance(40)
			if r.Chance(40) {
				o.extra = []string{"-g", fmt.Sprint(hx.Pick(r, []int{2048, 4096, 8192}))}
				if o.bs == 1024 && o.extra[1] != "8192" && !contains(o.feats, "^flex_bg") {
					// fine: several groups
				}
			}
			m = append(m, o)
		}
		// one image per further feature mke2fs 1.47 can set (COMPAT / RO_COMPAT bits and mmp: nothing the reader looks at)
		for _, f := range []string{"mmp", "quota", "project", "stable_inodes", "orphan_file", "^orphan_file", "fast_commit", "verity",
			"uninit_bg", "^dir_nlink", "^extra_isize", "^large_file", "^sparse_super,^resize_inode", "quota,project"} {
			bs := hx.Pick(r, []int{1024, 2048, 4096})
			o := base("feat-"+strings.NewReplacer("^", "no-", ",", "+").Replace(f)+fmt.Sprintf("-%dk", bs/1024), bs, 256, strings.Split(f, ",")...)
			o.bigDir = 80
			m = append(m, o)
		}
		// a directory big enough for a two-level hash tree at 1 KiB blocks
		m = append(m, with(base("hugedir-1k", 1024, 256), func(o *imgOpts) { o.bigDir = 4000; o.sizeKB = 48 * 1024; o.extra = []string{"-N", "8192"} }))
	} else {
		m = append(m, with(base("hugedir-1k", 1024, 256), func(o *imgOpts) { o.bigDir = 2800; o.sizeKB = 32 * 1024; o.extra = []string{"-N", "4096"} }))
	}
	return m
}

func contains(xs []string, s string) bool {
	for _, x := range xs {
		if x == s {
			return true
		}
	}
	return false
}

// Run is the engine entry point.
func Run(c *hx.Ctx) {
	ms := matrix(c)
	type job struct {
		k   int
		o   imgOpts
		rng *hx.Rng
	}
	jobs := make([]job, len(ms))
	for k, o := range ms {
		jobs[k] = job{k, o, c.Rng.Fork()}
	}
	coreRng := c.Rng.Fork()
	workers := 6
	var wg sync.WaitGroup
	ch := make(chan job)
	for w := 0; w < workers; w++ {
		wg.Add(1)
		go func() {
			defer wg.Done()
			for j := range ch {
				id := fmt.Sprintf("i%d", j.k)
				if c.Only != "" && c.Only != id && !strings.HasPrefix(c.Only, id+"/") {
					continue
				}
				runImage(c, id, j.o, j.rng)
			}
		}()
	}
	for _, j := range jobs {
		ch <- j
	}
	close(ch)
	wg.Wait()
	synthCores(c, coreRng)
	deepSynth(c, coreRng.Fork())
	synthInodeDec(c, coreRng.Fork())
	synthDirBlocks(c, coreRng.Fork())
	synthCsum(c, coreRng.Fork())
	knownReplays(c)
}

type result struct {
	err   error
	panic string
	hang  bool
}

func (r result) bad() bool { return r.err != nil || r.panic != "" || r.hang }
func (r result) String() string {
	switch {
	case r.panic != "":
		return "panic: " + r.panic
	case r.hang:
		return "hang: Read keeps returning (0, nil); io.ReadAll would never return"
	case r.err != nil:
		return "error: " + r.err.Error()
	}
	return "ok"
}

// guard runs f, converting a panic into a result.
func guard(f func() error) (res result) {
	defer func() {
		if e := recover(); e != nil {
			res.panic = fmt.Sprint(e)
		}
	}()
	res.err = f()
	if errors.Is(res.err, errHang) {
		res.hang = true
		res.err = nil
	}
	return
}

var errHang = errors.New("hang")

// readAllLike is io.ReadAll with a guard against a reader that returns (0, nil) for ever.
func readAllLike(r io.Reader) ([]byte, error) {
	b := make([]byte, 0, 512)
	zeros := 0
	for {
		n, err := r.Read(b[len(b):cap(b)])
		b = b[:len(b)+n]
		if err != nil {
			if err == io.EOF {
				err = nil
			}
			return b, err
		}
		if n == 0 {
			zeros++
			if zeros > 64 {
				return b, errHang
			}
		} else {
			zeros = 0
		}
		if len(b) == cap(b) {
			b = append(b, 0)[:len(b)]
		}
	}
}

// readAligned reads with a buffer that is a multiple of the block size from offset 0.
func readAligned(r io.Reader, chunk int) ([]byte, error) {
	var out []byte
	buf := make([]byte, chunk)
	zeros := 0
	for {
		n, err := r.Read(buf)
		out = append(out, buf[:n]...)
		if err != nil {
			if err == io.EOF {
				err = nil
			}
			return out, err
		}
		if n == 0 {
			zeros++
			if zeros > 64 {
				return out, errHang
			}
		} else {
			zeros = 0
		}
	}
}

func firstDiff(a, b []byte) int {
	n := len(a)
	if len(b) < n {
		n = len(b)
	}
	for i := 0; i < n; i++ {
		if a[i] != b[i] {
			return i
		}
	}
	if len(a) != len(b) {
		return n
	}
	return -1
}

func modeBits(m iofs.FileMode) uint32 {
	v := uint32(m.Perm())
	if m&iofs.ModeSetuid != 0 {
		v |= 0o4000
	}
	if m&iofs.ModeSetgid != 0 {
		v |= 0o2000
	}
	if m&iofs.ModeSticky != 0 {
		v |= 0o1000
	}
	return v
}

func kindOfMode(m iofs.FileMode) string {
	switch {
	case m.IsDir():
		return "dir"
	case m&iofs.ModeSymlink != 0:
		return "symlink"
	case m.IsRegular():
		return "file"
	}
	return "other(" + m.String() + ")"
}

type imgCtx struct {
	c    *hx.Ctx
	id   string
	o    imgOpts
	t    *tree
	fsys *ext4.FileSystem
	geo  ext4.VerifGeometry
	desc string
	// tolerated: errors are acceptable on this image (unsupported feature in use)
	tolerated bool
	// the image's device and a private generator for the deeper correspondence cases (deep.go)
	dev *memdev.Dev
	rng *hx.Rng
	// extraIsizeHit: the oracle saw finding ext4-inode-extra-isize-ignored on this image; the whole-image cases of
	// the SPEC reader (which follows the format) are then not emitted for it
	extraIsizeHit bool
}

// verdict helpers --------------------------------------------------------------------------

func (x *imgCtx) fail(sub, tag, msg string) {
	x.c.Fail(x.id+"/"+sub, tag, msg, x.desc)
}
func (x *imgCtx) ok(sub string) { x.c.OK(x.id + "/" + sub) }

func runImage(c *hx.Ctx, id string, o imgOpts, r *hx.Rng) {
	dir := filepath.Join(c.Scratch, id)
	os.MkdirAll(dir, 0o755)
	defer os.RemoveAll(dir)
	desc := o.String()
	t, err := genTree(r, dir, o)
	if err != nil {
		c.Note("%s: generator: cannot build host tree: %v", id, err)
		c.Stat("generator-skipped")
		return
	}
	img, log, err := buildImage(dir, o, t)
	if err != nil {
		c.Note("%s %s: reference tools did not produce a clean image, skipped: %v | %s", id, o.name, err, tail(log, 1200))
		c.Stat("generator-skipped")
		return
	}
	if err := refStat(dir, img, t); err != nil {
		c.Note("%s %s: %v", id, o.name, err)
		c.Stat("generator-skipped")
		return
	}
	data, err := os.ReadFile(img)
	if err != nil {
		c.Note("%s: %v", id, err)
		return
	}
	dev := memdev.New(int64(len(data)))
	dev.KeepData = false
	dev.RawWrite(data, 0)
	dev.ReadOnly = true
	c.Stat("images")
	c.Stat("bs=" + fmt.Sprint(o.bs))
	c.Stat("inodesize=" + fmt.Sprint(o.inodeSize))
	x := &imgCtx{c: c, id: id, o: o, t: t, desc: desc, tolerated: o.unsupported != "", dev: dev, rng: r.Fork()}

	var fsys *ext4.FileSystem
	res := guard(func() error {
		var e error
		fsys, e = ext4.Read(dev, int64(len(data)), 0, 512)
		return e
	})
	if c.Want(id + "/open") {
		switch {
		case res.panic != "" || res.hang:
			x.fail("open", "-", "ext4.Read: "+res.String())
		default:
			x.ok("open")
		}
	}
	x.gateCase(data, !res.bad(), res.String())
	if res.bad() {
		// refused: allowed by the property (never wrong data); recorded in the distribution
		c.Stat("refused")
		c.Stat("refused:" + o.name)
		c.Note("%s %s refused: %s", id, o.name, res.String())
		return
	}
	c.Stat("opened")
	x.fsys = fsys
	x.geo = fsys.VerifGeometry()
	x.checkTree()
	x.inodeLocCases()
	x.inodeDecCases()
	x.gateSweep(data)
	x.csumCases(data)
	if x.extraIsizeHit {
		c.Stat("imgwalk-skipped-known-extra-isize")
	} else {
		x.imgCases(x.keepImage(img))
	}
	if len(dev.Log) != 0 {
		x.fail("nowrite", "-", "reading wrote to the device")
	}
	c.Distinct(desc)
	c.Sample(desc + fmt.Sprintf(" nodes=%d", len(t.nodes)))
}

// classify maps a failure of one aspect to a finding tag (or "-").
func (x *imgCtx) classify(aspect string, n *node, res result, nExtents int) string {
	s := res.String()
	switch {
	case x.o.inodeSize == 128 && strings.Contains(s, "inode data too short"):
		return "ext4-inode128"
	case x.o.inodeSize == 128 && res.err != nil && (strings.Contains(s, "could not read directory entries") || strings.Contains(s, "error reading directory")):
		return "ext4-inode128"
	case (x.o.unsupported == "noextents" || x.o.unsupported == "inline_data") && strings.Contains(res.panic, "nil pointer dereference"):
		return "ext4-nil-extents-panic"
	case aspect == "data" && nExtents >= 2 && strings.Contains(res.panic, "makeslice: len out of range"):
		return "ext4-extent-skip-lt"
	}
	return "-"
}

func (x *imgCtx) checkTree() {
	c, t, fsys := x.c, x.t, x.fsys
	// expected children per directory
	children := map[string][]string{}
	for p := range t.nodes {
		if p == "." {
			continue
		}
		d := path.Dir(p)
		children[d] = append(children[d], path.Base(p))
	}
	// --- own guarded walk (one ReadDir per directory), so that one unreadable directory does not hide the rest
	seen := map[string]iofs.DirEntry{}
	type dirProblem struct {
		dir string
		res result
	}
	var dirProblems []dirProblem
	var walk func(d string)
	walk = func(d string) {
		var des []iofs.DirEntry
		res := guard(func() error { var e error; des, e = fsys.ReadDir(d); return e })
		if res.bad() {
			dirProblems = append(dirProblems, dirProblem{d, res})
			return
		}
		for _, e := range des {
			p := e.Name()
			if d != "." {
				p = d + "/" + e.Name()
			}
			if p == "lost+found" {
				seen[p] = e
				continue
			}
			seen[p] = e
			if e.IsDir() && t.nodes[p] != nil && t.nodes[p].kind == kDir {
				walk(p)
			}
		}
	}
	walk(".")
	if rootRes := guard(func() error { _, e := fsys.Stat("."); return e }); !rootRes.bad() {
		seen["."] = nil
	}
	var probs []string
	treeTag := ""
	wrongData := false
	hard := false
	for _, dp := range dirProblems {
		tag := x.classify("dir", t.nodes[dp.dir], dp.res, 0)
		if tag == "-" && x.hasLongName(dp.dir, children) && strings.Contains(dp.res.panic, "slice bounds out of range [8:") {
			tag = "ext4-long-name-panic"
		}
		if treeTag == "" || treeTag == tag {
			treeTag = tag
		} else {
			treeTag = "-"
		}
		if dp.res.panic != "" || dp.res.hang {
			hard = true
		}
		probs = append(probs, fmt.Sprintf("ReadDir(%q): %s", clip(dp.dir), dp.res))
	}
	unread := func(p string) bool {
		for _, dp := range dirProblems {
			if dp.dir == "." || p == dp.dir || strings.HasPrefix(p, dp.dir+"/") {
				return p != dp.dir || dp.dir == "."
			}
		}
		return false
	}
	for p, n := range t.nodes {
		d, ok := seen[p]
		if !ok {
			if !unread(p) {
				probs = append(probs, "missing: "+clip(p))
				wrongData = true
			}
			continue
		}
		if d == nil {
			continue
		}
		if gotKind := kindOfMode(d.Type()); gotKind != n.kind.String() {
			probs = append(probs, fmt.Sprintf("%s: listed as %s, want %s", clip(p), gotKind, n.kind))
			wrongData = true
		}
		if d.IsDir() != (n.kind == kDir) {
			probs = append(probs, fmt.Sprintf("%s: IsDir=%v", clip(p), d.IsDir()))
			wrongData = true
		}
	}
	for p := range seen {
		if t.nodes[p] == nil {
			probs = append(probs, "unexpected entry: "+clip(p))
			wrongData = true
		}
	}
	if wrongData || treeTag == "" {
		treeTag = "-"
	}
	if c.Want(x.id + "/tree") {
		switch {
		case len(probs) == 0:
			x.ok("tree")
		case x.tolerated && !wrongData && !hard:
			x.ok("tree") // errors only, on an image using an unsupported feature
			c.Stat("tolerated-error")
		default:
			sort.Strings(probs)
			if len(probs) > 6 {
				probs = append(probs[:6], fmt.Sprintf("... %d more", len(probs)-6))
			}
			x.fail("tree", treeTag, strings.Join(probs, "; "))
		}
	}
	// --- fs.WalkDir over the whole image must visit exactly the same paths
	if c.Want(x.id + "/walkdir") {
		var visited []string
		var werrs []string
		wres := guard(func() error {
			return iofs.WalkDir(fsys, ".", func(p string, d iofs.DirEntry, err error) error {
				if err != nil {
					werrs = append(werrs, fmt.Sprintf("%s: %v", clip(p), err))
					if d != nil && d.IsDir() {
						return iofs.SkipDir
					}
					return nil
				}
				if !strings.HasPrefix(p, "lost+found/") {
					visited = append(visited, p)
				}
				return nil
			})
		})
		switch {
		case wres.bad():
			tag := "-"
			if treeTag != "-" && len(dirProblems) > 0 {
				tag = treeTag // the same unreadable directory
			}
			if x.tolerated && wres.err != nil {
				x.ok("walkdir")
			} else {
				x.fail("walkdir", tag, "fs.WalkDir: "+wres.String())
			}
		case len(werrs) > 0:
			if x.tolerated {
				x.ok("walkdir")
			} else {
				tag := "-"
				if treeTag != "-" && len(dirProblems) > 0 {
					tag = treeTag
				}
				x.fail("walkdir", tag, fmt.Sprintf("fs.WalkDir reported %d errors, first: %s", len(werrs), werrs[0]))
			}
		default:
			sort.Strings(visited)
			own := make([]string, 0, len(seen))
			for p := range seen {
				own = append(own, p)
			}
			sort.Strings(own)
			if strings.Join(visited, "\x00") != strings.Join(own, "\x00") {
				x.fail("walkdir", "-", fmt.Sprintf("fs.WalkDir visited %d paths, ReadDir recursion %d: %s", len(visited), len(own), firstNameDiff(visited, own)))
			} else {
				x.ok("walkdir")
			}
		}
	}
	// --- per directory: ReadDir name set
	for d, want := range children {
		if t.nodes[d] == nil || !c.Want(x.id+"/dir/"+d) {
			continue
		}
		if _, ok := seen[d]; !ok && d != "." {
			continue
		}
		sort.Strings(want)
		var got []string
		res := guard(func() error {
			des, err := fsys.ReadDir(d)
			for _, e := range des {
				got = append(got, e.Name())
			}
			return err
		})
		sort.Strings(got)
		sub := "dir/" + d
		switch {
		case res.bad():
			if x.tolerated && res.err != nil {
				x.ok(sub)
				c.Stat("tolerated-error")
			} else {
				tag := x.classify("dir", t.nodes[d], res, 0)
				if tag == "-" && x.hasLongName(d, children) && strings.Contains(res.panic, "slice bounds out of range [8:") {
					tag = "ext4-long-name-panic"
				}
				x.fail(sub, tag, "ReadDir: "+res.String())
			}
		case strings.Join(got, "\x00") != strings.Join(want, "\x00"):
			x.fail(sub, "-", fmt.Sprintf("ReadDir returned %d names, want %d; first difference: %s", len(got), len(want), firstNameDiff(got, want)))
		default:
			x.ok(sub)
			if len(want) > 100 {
				c.Stat("bigdir-listed")
			}
		}
		x.dirCase(d)
	}
	// --- per node: metadata, data, link target, xattrs
	paths := make([]string, 0, len(t.nodes))
	for p := range t.nodes {
		paths = append(paths, p)
	}
	sort.Strings(paths)
	bigSeen := 0
	for i, p := range paths {
		n := t.nodes[p]
		if _, ok := seen[p]; !ok {
			continue
		}
		if strings.HasPrefix(p, "big/") {
			bigSeen++
			if bigSeen > 40 && n.xattrs == nil && bigSeen%29 != 0 {
				continue
			}
		}
		x.checkNode(fmt.Sprintf("n%d", i), n)
	}
}

func (x *imgCtx) hasLongName(d string, children map[string][]string) bool {
	for _, n := range children[d] {
		if len(n) >= 248 {
			return true
		}
	}
	return false
}

func firstNameDiff(got, want []string) string {
	g := map[string]bool{}
	for _, s := range got {
		g[s] = true
	}
	for _, s := range want {
		if !g[s] {
			return "missing " + s
		}
	}
	w := map[string]bool{}
	for _, s := range want {
		w[s] = true
	}
	for _, s := range got {
		if !w[s] {
			return "extra " + s
		}
	}
	return "duplicates"
}

func tstr(sec, nsec int64) string { return fmt.Sprintf("%d.%09d", sec, nsec) }

func (x *imgCtx) checkNode(nid string, n *node) {
	c, fsys := x.c, x.fsys
	p := n.path
	label := fmt.Sprintf("%s %q", n.kind, p)
	tolerate := func(sub string, res result) bool {
		if x.tolerated && res.err != nil && res.panic == "" && !res.hang {
			x.ok(sub)
			c.Stat("tolerated-error")
			return true
		}
		return false
	}
	// ---- metadata through Stat
	if c.Want(x.id + "/" + nid + "/meta") {
		sub := nid + "/meta"
		var fi iofs.FileInfo
		res := guard(func() error { var e error; fi, e = fsys.Stat(p); return e })
		if res.bad() {
			if !tolerate(sub, res) {
				x.fail(sub, x.classify("meta", n, res, 0), label+": Stat: "+res.String())
			}
		} else {
			var probs []string
			ref := n.ref
			if k := kindOfMode(fi.Mode()); k != n.kind.String() {
				probs = append(probs, fmt.Sprintf("kind %s want %s", k, n.kind))
			}
			if fi.IsDir() != (n.kind == kDir) {
				probs = append(probs, fmt.Sprintf("IsDir=%v", fi.IsDir()))
			}
			if p != "." && fi.Name() != path.Base(p) {
				probs = append(probs, fmt.Sprintf("Name %q", fi.Name()))
			}
			if got := modeBits(fi.Mode()); got != ref.mode {
				probs = append(probs, fmt.Sprintf("mode %04o want %04o", got, ref.mode))
			}
			if n.kind != kDir && uint64(fi.Size()) != ref.size {
				probs = append(probs, fmt.Sprintf("size %d want %d", fi.Size(), ref.size))
			}
			if n.kind == kFile && ref.size != uint64(len(n.content)) {
				c.Note("%s: generator: reference size %d differs from host size %d for %s", x.id, ref.size, len(n.content), p)
			}
			if got := fi.ModTime(); got.Unix() != ref.mtime[0] || int64(got.Nanosecond()) != ref.mtime[1] {
				probs = append(probs, fmt.Sprintf("mtime %s want %s", tstr(got.Unix(), int64(got.Nanosecond())), tstr(ref.mtime[0], ref.mtime[1])))
			}
			st, ok := fi.Sys().(*ext4.StatT)
			if !ok || st == nil {
				probs = append(probs, "Sys() is not *ext4.StatT")
			} else {
				if st.UID != ref.uid || st.GID != ref.gid {
					probs = append(probs, fmt.Sprintf("owner %d:%d want %d:%d", st.UID, st.GID, ref.uid, ref.gid))
				}
				if uint32(st.Nlink) != ref.links {
					probs = append(probs, fmt.Sprintf("nlink %d want %d", st.Nlink, ref.links))
				}
				if st.Ino != ref.ino {
					probs = append(probs, fmt.Sprintf("ino %d want %d", st.Ino, ref.ino))
				}
				cmpT := func(name string, got time.Time, want [2]int64) {
					if got.Unix() != want[0] || int64(got.Nanosecond()) != want[1] {
						probs = append(probs, fmt.Sprintf("%s %s want %s", name, tstr(got.Unix(), int64(got.Nanosecond())), tstr(want[0], want[1])))
					}
				}
				cmpT("atime", st.AccessTime, ref.atime)
				cmpT("ctime", st.ChangeTime, ref.ctime)
				if ref.hasCr {
					cmpT("crtime", st.CreateTime, ref.crtim)
				}
				if n.kind == kSymlink && st.LinkTarget != n.target {
					probs = append(probs, fmt.Sprintf("Sys().LinkTarget has %d bytes, want %d", len(st.LinkTarget), len(n.target)))
				}
			}
			if ref.mtime[0] < 0 || ref.atime[0] < 0 || ref.ctime[0] < 0 {
				c.Stat("time<1970")
			}
			if ref.mtime[0] >= 1<<31 || ref.atime[0] >= 1<<31 || ref.ctime[0] >= 1<<31 {
				c.Stat("time>=2038")
			}
			if ref.mtime[1] != 0 {
				c.Stat("time-nsec")
			}
			if ref.uid > 65535 || ref.gid > 65535 {
				c.Stat("id>16bit")
			}
			if ref.mode&0o7000 != 0 {
				c.Stat("mode-special-bits")
			}
			if len(probs) > 0 {
				tag := "-"
				if n.smallExtra > 0 && n.smallExtra < 24 && x.o.inodeSize >= 256 {
					// the words of the extra area that i_extra_isize does not reach were read all the same
					onlyTimes := true
					for _, pr := range probs {
						if !(strings.HasPrefix(pr, "mtime ") || strings.HasPrefix(pr, "atime ") || strings.HasPrefix(pr, "ctime ") || strings.HasPrefix(pr, "crtime ")) {
							onlyTimes = false
						}
					}
					if onlyTimes {
						tag = "ext4-inode-extra-isize-ignored"
						x.extraIsizeHit = true
					}
				}
				x.fail(sub, tag, label+": "+strings.Join(probs, "; "))
			} else {
				x.ok(sub)
			}
		}
	}
	// ---- symlink target
	if n.kind == kSymlink && c.Want(x.id+"/"+nid+"/link") {
		sub := nid + "/link"
		var got string
		res := guard(func() error { var e error; got, e = fsys.ReadLink(p); return e })
		switch {
		case res.bad():
			if !tolerate(sub, res) {
				x.fail(sub, x.classify("link", n, res, 0), label+": ReadLink: "+res.String())
			}
		case got != n.target:
			x.fail(sub, "-", fmt.Sprintf("%s: ReadLink returned %d bytes %q, want %d bytes %q", label, len(got), clip(got), len(n.target), clip(n.target)))
		default:
			x.ok(sub)
			switch {
			case len(n.target) < 60:
				c.Stat("symlink-fast")
			default:
				c.Stat("symlink-slow")
			}
		}
	}
	// ---- contents
	if n.kind == kFile {
		nExt, firstHole := x.extentInfo(n)
		x.extentCase(nid, n)
		if c.Want(x.id + "/" + nid + "/data") {
			sub := nid + "/data"
			var got []byte
			res := guard(func() error {
				f, e := fsys.Open(p)
				if e != nil {
					return e
				}
				defer guard(func() error { return f.Close() })
				got, e = readAllLike(f)
				return e
			})
			x.dataVerdict(sub, "ReadFile", label, n, res, got, nExt, firstHole, true, tolerate)
		}
		if c.Want(x.id + "/" + nid + "/dataAligned") {
			// the same file read with block-aligned requests (does not reach the multi-extent skip defect)
			sub := nid + "/dataAligned"
			var got []byte
			res := guard(func() error {
				f, e := fsys.Open(p)
				if e != nil {
					return e
				}
				defer guard(func() error { return f.Close() })
				got, e = readAligned(f, 4*x.o.bs)
				return e
			})
			x.dataVerdict(sub, "aligned Read", label, n, res, got, nExt, firstHole, false, tolerate)
		}
		x.sparseReadCase(nid, n, nExt, firstHole >= 0)
	}
	// ---- xattrs
	if (n.xattrs != nil || n.kind != kDir || strings.Count(p, "/") < 2) && c.Want(x.id+"/"+nid+"/xattr") {
		sub := nid + "/xattr"
		var got map[string][]byte
		res := guard(func() error { var e error; got, e = fsys.GetXattr(p); return e })
		if res.bad() {
			if !tolerate(sub, res) {
				x.fail(sub, x.classify("xattr", n, res, 0), label+": GetXattr: "+res.String())
			}
		} else {
			var probs []string
			onlyEmptyMissing := true
			for k, v := range n.xattrs {
				g, ok := got[k]
				switch {
				case !ok:
					probs = append(probs, fmt.Sprintf("missing %s (%d bytes)", k, len(v)))
					if len(v) != 0 {
						onlyEmptyMissing = false
					}
				case !bytes.Equal(g, v):
					probs = append(probs, fmt.Sprintf("value of %s differs (%d bytes, want %d)", k, len(g), len(v)))
					onlyEmptyMissing = false
				}
			}
			for k := range got {
				if _, ok := n.xattrs[k]; !ok {
					probs = append(probs, "unexpected "+k)
					onlyEmptyMissing = false
				}
			}
			if len(probs) > 0 {
				tag := "-"
				if onlyEmptyMissing {
					tag = "ext4-xattr-empty-value-dropped"
				} else if xattrIndexUnknownExplains(n.xattrs, got) {
					tag = tagXattrIndex
				}
				sort.Strings(probs)
				x.fail(sub, tag, label+": GetXattr: "+strings.Join(probs, "; "))
			} else {
				x.ok(sub)
				if len(n.xattrs) > 0 {
					c.Stat("xattr-files-ok")
					if n.ref.fileACL != 0 {
						c.Stat("xattr-block")
					}
					x.xattrRegimeStat(n)
				}
			}
		}
		x.xattrCase(nid, n)
	}
}

// inUnwritten: does byte d of the file lie in a preallocated (unwritten) range?
func (x *imgCtx) inUnwritten(n *node, d int) bool {
	for _, u := range n.unwritten {
		if d >= u[0]*x.o.bs && d < (u[1]+1)*x.o.bs {
			return true
		}
	}
	return false
}

func clip(s string) string {
	if len(s) > 80 {
		return s[:80] + "..."
	}
	return s
}

func (x *imgCtx) dataVerdict(sub, how, label string, n *node, res result, got []byte, nExt, firstHole int, unaligned bool, tolerate func(string, result) bool) {
	c := x.c
	hasHole := firstHole >= 0
	if len(n.unwritten) > 0 && res.err != nil && res.panic == "" && !res.hang {
		// a file with unwritten extents may be refused with an error (never wrong data)
		x.ok(sub)
		c.Stat("unwritten-refused")
		return
	}
	if res.bad() {
		if tolerate(sub, res) {
			return
		}
		tag := "-"
		if unaligned {
			tag = x.classify("data", n, res, nExt)
		} else {
			tag = x.classify("dataAligned", n, res, nExt)
		}
		if tag == "-" && hasHole && (res.panic != "" || res.hang) {
			tag = "ext4-hole-not-zero"
		}
		x.fail(sub, tag, fmt.Sprintf("%s: %s: %s (extents=%d firstHoleBlock=%d size=%d)", label, how, res.String(), nExt, firstHole, len(n.content)))
		return
	}
	if d := firstDiff(got, n.content); d >= 0 {
		tag := "-"
		if hasHole && d >= firstHole*x.o.bs {
			tag = "ext4-hole-not-zero" // wrong bytes start in or after the first unmapped block
		}
		if x.inUnwritten(n, d) {
			tag = "ext4-unwritten-extent-read-as-data" // wrong bytes start inside a preallocated range
		}
		x.fail(sub, tag, fmt.Sprintf("%s: %s returned %d bytes, want %d; first difference at byte %d (block %d; first unmapped block %d)", label, how, len(got), len(n.content), d, d/x.o.bs, firstHole))
		return
	}
	x.ok(sub)
	switch {
	case hasHole:
		c.Stat("data-ok-sparse")
	case nExt > 4:
		c.Stat("data-ok-interior-extent-nodes")
	case nExt > 1:
		c.Stat("data-ok-multi-extent")
	default:
		c.Stat("data-ok-single-extent")
	}
}

const tagXattrIndex = "ext4-xattr-name-index-unknown"

// xattrHighIndex: the name as the reference tools store it under name index 8 or 10, and the name a reader without
// these two table entries makes of it ("unknown_<index>." + the stored rest)
func xattrHighIndex(name string) (invented string, ok bool) {
	switch {
	case name == "system.richacl":
		return "unknown_8.", true
	case strings.HasPrefix(name, "gnu."):
		return "unknown_10." + strings.TrimPrefix(name, "gnu."), true
	}
	return "", false
}

// xattrIndexUnknownExplains: trigger and symptom of finding ext4-xattr-name-index-unknown - the attributes differ
// from what was set only in that every attribute stored under index 8 / 10 appears under the invented name, with
// the right value; everything else is as set.
func xattrIndexUnknownExplains(want, got map[string][]byte) bool {
	renamed := 0
	expect := map[string][]byte{}
	for k, v := range want {
		if inv, ok := xattrHighIndex(k); ok {
			if _, right := got[k]; right {
				return false
			}
			expect[inv] = v
			renamed++
		} else {
			expect[k] = v
		}
	}
	if renamed == 0 || len(expect) != len(got) {
		return false
	}
	for k, v := range expect {
		if g, ok := got[k]; !ok || !bytes.Equal(g, v) {
			return false
		}
	}
	return true
}

func mapsEqual(a, b map[string][]byte) bool {
	if len(a) != len(b) {
		return false
	}
	for k, v := range a {
		if w, ok := b[k]; !ok || !bytes.Equal(v, w) {
			return false
		}
	}
	return true
}
