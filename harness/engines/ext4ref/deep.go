package ext4ref

import (
	"encoding/binary"
	"encoding/hex"
	"fmt"
	"io"
	"os"
	"strings"

	"github.com/diskfs/go-diskfs/filesystem"
	"github.com/diskfs/go-diskfs/filesystem/ext4"

	"verif/harness/internal/hx"
	"verif/harness/internal/memdev"
)

// Correspondence cases for the deeper mirrors (Model/Ext4/SparseRead.lean, Model/Ext4/InodeLoc.lean):
//   ext4ref.sread    File.Read call sequences on real handles of the reference images' files (sparse, fragmented,
//                    plain) and on synthetic extent lists (sorted with holes, and malformed ones): per call
//                    n / EOF / hash of the bytes / the backend ReadAt list, and the final offset
//   ext4ref.gd       groupDescriptorFromBytes on every descriptor of the images and on random bytes
//   ext4ref.inoloc   readInodeRaw's ReadAt offset and length from the raw descriptor table of the image
//   ext4ref.inoloct  readInodeRaw on synthetic geometries and table lists (uint32 / uint64 wrap included)

func fnv(b []byte) uint32 {
	h := uint32(2166136261)
	for _, x := range b {
		h = (h ^ uint32(x)) * 16777619
	}
	return h
}

func patByte(i int64) byte { return byte((i*7 + i/256*13 + 5) % 251) }

func v04ExtStr(ex []ext4.V04Extent) string {
	if len(ex) == 0 {
		return "-"
	}
	s := make([]string, len(ex))
	for i, e := range ex {
		s[i] = fmt.Sprintf("%d:%d:%d", e.FileBlock, e.Start, e.Count)
	}
	return strings.Join(s, ",")
}

func natsStr(ns []int) string {
	if len(ns) == 0 {
		return "-"
	}
	s := make([]string, len(ns))
	for i, n := range ns {
		s[i] = fmt.Sprint(n)
	}
	return strings.Join(s, ",")
}

// readPlan picks a start offset and a sequence of buffer lengths around the interesting places of a file.
func readPlan(r *hx.Rng, bs int, size int64, ex []ext4.V04Extent) (int64, []int) {
	var marks []int64
	for _, e := range ex {
		marks = append(marks, int64(e.FileBlock)*int64(bs), (int64(e.FileBlock)+int64(e.Count))*int64(bs))
	}
	marks = append(marks, 0, size)
	var off int64
	switch r.Intn(6) {
	case 0:
		off = 0
	case 1:
		off = hx.Pick(r, marks) + int64(r.Intn(5)) - 2
	case 2:
		off = size - int64(r.Intn(3))
	case 3:
		off = size + int64(r.Intn(10))
	default:
		if size > 0 {
			off = r.Int63n(size)
		}
	}
	if off < 0 {
		off = 0
	}
	n := 1 + r.Intn(10)
	ns := make([]int, n)
	for i := range ns {
		switch r.Intn(9) {
		case 0:
			ns[i] = 0
		case 1:
			ns[i] = 1
		case 2:
			ns[i] = bs - 1
		case 3:
			ns[i] = bs
		case 4:
			ns[i] = bs + 1
		case 5:
			ns[i] = 2*bs + 3
		case 6:
			ns[i] = 1 + r.Intn(4*bs)
		case 7:
			ns[i] = 1 + r.Intn(64)
		default:
			ns[i] = 8*bs + r.Intn(8*bs)
		}
	}
	if r.Chance(30) && size < 1<<26 {
		// make sure the sequence reaches the end of the file
		ns = append(ns, int(size)+7, 3)
	}
	return off, ns
}

// runReads performs the Read calls on a handle whose device is dev; returns the per-call strings, the joined data, and the end offset.
func runReads(dev *memdev.Dev, fl *ext4.File, ns []int) (calls []string, data []byte, end int64) {
	var ios []string
	dev.ReadHook = func(off int64, n int) { ios = append(ios, fmt.Sprintf("%d+%d", off, n)) }
	defer func() { dev.ReadHook = nil }()
	for _, n := range ns {
		buf := make([]byte, n)
		for i := range buf {
			buf[i] = 0xAA // a hole must be cleared by Read itself
		}
		ios = ios[:0]
		var k int
		var err error
		res := guard(func() error { k, err = fl.Read(buf); return nil })
		if res.panic != "" {
			calls = append(calls, "panic")
			break
		}
		if err != nil && err != io.EOF {
			calls = append(calls, fmt.Sprintf("err:%d", k))
			break
		}
		eof := 0
		if err == io.EOF {
			eof = 1
		}
		if k < 0 || k > n {
			calls = append(calls, fmt.Sprintf("bad-n:%d", k))
			break
		}
		io := "-"
		if len(ios) > 0 {
			io = strings.Join(ios, ".")
		}
		calls = append(calls, fmt.Sprintf("%d:%d:%d:%s", k, eof, fnv(buf[:k]), io))
		data = append(data, buf[:k]...)
	}
	end = fl.V04Offset()
	return
}

func callsStr(calls []string) string {
	if len(calls) == 0 {
		return "-"
	}
	return strings.Join(calls, "|")
}

// sparseReadCase: a Read call sequence on the real handle of a file of the image.
func (x *imgCtx) sparseReadCase(nid string, n *node, nExt int, hasHole bool) {
	c := x.c
	id := x.id + "/" + nid + "/sread"
	if !c.Want(id) || x.dev == nil || x.rng == nil {
		return
	}
	if !hasHole && nExt < 2 && !x.rng.Chance(25) {
		return
	}
	var f filesystem.File
	if res := guard(func() error { var e error; f, e = x.fsys.OpenFile(n.path, os.O_RDONLY); return e }); res.bad() {
		return
	}
	fl, ok := f.(*ext4.File)
	if !ok {
		return
	}
	defer guard(func() error { return fl.Close() })
	ex := fl.V04Extents()
	size := int64(fl.V04Size())
	bs := x.o.bs
	total := 0
	for _, e := range ex {
		total += int(e.Count) * bs
	}
	if total > maxCaseBytes && !c.Thorough() {
		c.Stat("sread-case-too-large")
		return
	}
	var segs []string
	for _, e := range ex {
		o := int64(e.Start) * int64(bs)
		l := int(e.Count) * bs
		if o+int64(l) > x.dev.Size() {
			continue
		}
		segs = append(segs, fmt.Sprintf("%d:%s", o, hex.EncodeToString(x.dev.Bytes(o, l))))
	}
	segArg := "-"
	if len(segs) > 0 {
		segArg = strings.Join(segs, ";")
	}
	off, ns := readPlan(x.rng, bs, size, ex)
	if res := guard(func() error { _, e := fl.Seek(off, io.SeekStart); return e }); res.bad() {
		return
	}
	calls, data, end := runReads(x.dev, fl, ns)
	c.Case(id, "ext4ref.sread", fmt.Sprintf("bs=%d", bs), fmt.Sprintf("size=%d", size), fmt.Sprintf("off=%d", off),
		fmt.Sprintf("devsize=%d", x.dev.Size()), "ex="+v04ExtStr(ex), "ns="+natsStr(ns), "segs="+segArg)
	c.Impl(id, "calls="+callsStr(calls), fmt.Sprintf("end=%d", end))
	// the property itself on these calls: the bytes returned are the file's bytes at the offset
	oid := x.id + "/" + nid + "/sreadData"
	want := []byte{}
	if off < int64(len(n.content)) {
		hi := off
		for _, k := range ns {
			hi += int64(k)
		}
		if hi > int64(len(n.content)) {
			hi = int64(len(n.content))
		}
		want = n.content[off:hi]
	}
	bad := false
	for _, s := range calls {
		if s == "panic" || strings.HasPrefix(s, "err:") || strings.HasPrefix(s, "bad-n:") {
			bad = true
		}
	}
	switch {
	case bad && x.tolerated:
		c.OK(oid)
	case bad:
		c.Fail(oid, "-", fmt.Sprintf("file %q: Read sequence from offset %d with buffers %v: %s", n.path, off, ns, callsStr(calls)), x.desc)
	case firstDiff(data, want) >= 0 && x.inUnwritten(n, int(off)+firstDiff(data, want)):
		c.Fail(oid, "ext4-unwritten-extent-read-as-data", fmt.Sprintf("file %q: Read sequence from offset %d with buffers %v: wrong bytes inside a preallocated range, first at +%d", n.path, off, ns, firstDiff(data, want)), x.desc)
	case firstDiff(data, want) >= 0:
		c.Fail(oid, "-", fmt.Sprintf("file %q: Read sequence from offset %d with buffers %v returned %d bytes, want %d; first difference at +%d", n.path, off, ns, len(data), len(want), firstDiff(data, want)), x.desc)
	default:
		c.OK(oid)
	}
	switch {
	case hasHole:
		c.Stat("sread-real-sparse")
	case nExt > 1:
		c.Stat("sread-real-multi-extent")
	default:
		c.Stat("sread-real-single-extent")
	}
	// The same handle again after seeking back: whatever Read keeps between calls (a cursor into the
	// extent list, a cached block) must not survive a Seek. Drain the handle to EOF in block-sized
	// chunks (a file with a trailing hole then has had a Read that starts behind its last extent),
	// seek to 0 and read the whole file. Uses no random draws, so the cases above are unchanged.
	if !bad && len(n.content) > 0 && len(n.content) <= 1<<22 {
		bid := x.id + "/" + nid + "/sreadBack"
		var got []byte
		rerr := ""
		res := guard(func() error {
			buf := make([]byte, 4096)
			for i := 0; i < len(n.content)/4096+8; i++ {
				k, err := fl.Read(buf)
				if err != nil || k == 0 {
					break
				}
			}
			if _, err := fl.Seek(0, io.SeekStart); err != nil {
				rerr = "Seek(0): " + err.Error()
				return nil
			}
			got = make([]byte, 0, len(n.content))
			for len(got) <= len(n.content) {
				k, err := fl.Read(buf)
				if k < 0 || k > len(buf) {
					rerr = fmt.Sprintf("Read returned n=%d", k)
					break
				}
				got = append(got, buf[:k]...)
				if err != nil {
					if err != io.EOF {
						rerr = err.Error()
					}
					break
				}
				if k == 0 {
					rerr = "Read returned (0, nil)"
					break
				}
			}
			return nil
		})
		trailing := len(ex) > 0 && (int64(ex[len(ex)-1].FileBlock)+int64(ex[len(ex)-1].Count))*int64(bs) < size
		if trailing || len(ex) == 0 {
			c.Stat("sread-back-trailing-hole")
		}
		c.Stat("sread-back")
		d := firstDiff(got, n.content)
		switch {
		case (res.panic != "" || rerr != "") && x.tolerated:
			c.OK(bid)
		case res.panic != "":
			c.Fail(bid, "-", fmt.Sprintf("file %q: panic while re-reading the handle after Seek(0): %s", n.path, res.panic), x.desc)
		case rerr != "":
			c.Fail(bid, "-", fmt.Sprintf("file %q: re-reading the handle after draining it and Seek(0): %s", n.path, rerr), x.desc)
		case d >= 0 && x.inUnwritten(n, d):
			c.OK(bid) // judged under ext4-unwritten-extent-read-as-data by the sequence above
		case d >= 0:
			c.Fail(bid, "-", fmt.Sprintf("file %q (%d bytes, %d extents, trailing hole %v): after draining the handle to EOF and Seek(0) the handle returns %d bytes, first difference at +%d", n.path, len(n.content), len(ex), trailing, len(got), d), x.desc)
		default:
			c.OK(bid)
		}
	}
}

func gdImplStr(d ext4.VerifGroupDescriptor) []string {
	return []string{fmt.Sprintf("bb=%d", d.BlockBitmap), fmt.Sprintf("ib=%d", d.InodeBitmap), fmt.Sprintf("it=%d", d.InodeTable),
		fmt.Sprintf("fb=%d", d.FreeBlocks), fmt.Sprintf("fi=%d", d.FreeInodes), fmt.Sprintf("ud=%d", d.UsedDirs),
		fmt.Sprintf("ui=%d", d.UnusedInodes), fmt.Sprintf("ex=%d", d.ExclusionBitmap), fmt.Sprintf("bc=%d", d.BlockBitmapChecksum),
		fmt.Sprintf("ic=%d", d.InodeBitmapChecksum), fmt.Sprintf("fl=%d", d.Flags)}
}

func gdCase(c *hx.Ctx, id string, b []byte, gdSize int) {
	if !c.Want(id) {
		return
	}
	var d ext4.VerifGroupDescriptor
	res := guard(func() error {
		var e error
		d, e = ext4.VerifGroupDescriptorAll(append([]byte(nil), b...), uint16(gdSize))
		return e
	})
	c.Case(id, "ext4ref.gd", fmt.Sprintf("gdsize=%d", gdSize), "d="+hex.EncodeToString(b))
	if res.bad() {
		c.Impl(id, badStr(res))
		return
	}
	c.Impl(id, gdImplStr(d)...)
}

// inodeLocCases: the raw descriptor table of the image through the model, against the ReadAt readInodeRaw issues.
func (x *imgCtx) inodeLocCases() {
	c := x.c
	if x.dev == nil || x.rng == nil {
		return
	}
	g := x.geo
	bs := int64(g.BlockSize)
	gdtBlock := int64(1)
	if bs == 1024 {
		gdtBlock = 2
	}
	gdSize := int(g.GroupDescriptorSize)
	glen := int(g.GroupCount) * gdSize
	if gdSize < 32 || glen <= 0 || gdtBlock*bs+int64(glen) > x.dev.Size() || glen > maxCaseBytes {
		return
	}
	gdt := x.dev.Bytes(gdtBlock*bs, glen)
	// every descriptor through the field decoder
	for i := 0; i < int(g.GroupCount) && i < 6; i++ {
		gdCase(c, fmt.Sprintf("%s/gd%d", x.id, i), gdt[i*gdSize:(i+1)*gdSize], gdSize)
		c.Stat(fmt.Sprintf("gd-real-size%d", gdSize))
	}
	// the whole table as groupDescriptorsFromBytes splits it must be what the open filesystem holds
	tabs, err := ext4.VerifGroupDescriptorTables(append([]byte(nil), gdt...), uint16(gdSize))
	held := x.fsys.VerifInodeTables()
	if err != nil || fmt.Sprint(tabs) != fmt.Sprint(held) {
		c.Note("%s: descriptor table decoded without checksums differs from the one held: %v %v %v", x.id, err, tabs, held)
		return
	}
	ipg := g.InodesPerGroup
	total := g.GroupCount * ipg
	cands := []uint64{0, 1, 2, 11, 12, ipg - 1, ipg, ipg + 1, g.InodeCount, g.InodeCount + 1, total - 1, total, total + 1, total + ipg, 1<<32 - 1}
	for i := 0; i < 6; i++ {
		cands = append(cands, 1+uint64(x.rng.Int63n(int64(total))))
	}
	k := 0
	for _, n := range x.t.nodes {
		if n.ref != nil && k < 10 {
			cands = append(cands, uint64(n.ref.ino))
			k++
		}
	}
	seen := map[uint64]bool{}
	for _, n := range cands {
		if n > 1<<32-1 || seen[n] {
			continue
		}
		seen[n] = true
		id := fmt.Sprintf("%s/inoloc%d", x.id, n)
		if !c.Want(id) {
			continue
		}
		var ios []string
		x.dev.ReadHook = func(off int64, l int) { ios = append(ios, fmt.Sprintf("off=%d\tlen=%d", off, l)) }
		res := guard(func() error { _, e := x.fsys.VerifInodeRaw(uint32(n)); return e })
		x.dev.ReadHook = nil
		c.Case(id, "ext4ref.inoloc", fmt.Sprintf("bs=%d", bs), fmt.Sprintf("isz=%d", g.InodeSize), fmt.Sprintf("ipg=%d", ipg),
			fmt.Sprintf("gdsize=%d", gdSize), fmt.Sprintf("devsize=%d", x.dev.Size()), fmt.Sprintf("n=%d", n), "gdt="+hex.EncodeToString(gdt))
		switch {
		case res.panic != "":
			c.Impl(id, "panic")
		case res.bad() || len(ios) != 1:
			c.Impl(id, "err")
		default:
			c.Impl(id, strings.Split(ios[0], "\t")...)
		}
		c.Stat("inoloc-real")
	}
}

// deepSynth: synthetic inputs for the deeper mirrors (no image needed).
func deepSynth(c *hx.Ctx, r *hx.Rng) {
	if c.Only != "" && !strings.HasPrefix(c.Only, "dsyn") {
		return
	}
	const devSize = 1 << 20
	dev := memdev.New(devSize)
	dev.KeepData = false
	pat := make([]byte, devSize)
	for i := range pat {
		pat[i] = patByte(int64(i))
	}
	dev.RawWrite(pat, 0)
	dev.ReadOnly = true
	// ---- File.Read over synthetic extent lists
	ns := c.N(400, 12000)
	for i := 0; i < ns; i++ {
		id := fmt.Sprintf("dsyn/sread%d", i)
		bs := hx.Pick(r, []int{64, 512, 1024, 4096})
		devBlocks := devSize / bs
		malformed := r.Chance(15)
		var ex []ext4.V04Extent
		fb := 0
		if r.Chance(50) {
			fb = r.Intn(6) // leading hole
		}
		nx := r.Intn(7)
		for j := 0; j < nx; j++ {
			cnt := 1 + r.Intn(5)
			if bs <= 512 && r.Chance(20) {
				cnt = 1 + r.Intn(40)
			}
			start := r.Intn(devBlocks - cnt)
			e := ext4.V04Extent{FileBlock: uint32(fb), Start: uint64(start), Count: uint16(cnt)}
			if malformed {
				switch r.Intn(6) {
				case 0:
					e.Count = 0
				case 1:
					e.Start = uint64(devBlocks - r.Intn(cnt+1)) // reaches beyond the device
				case 2:
					if fb > 2 {
						e.FileBlock = uint32(fb - 1 - r.Intn(2)) // overlaps / out of order
					}
				case 3:
					e.Start = uint64(devBlocks + r.Intn(4))
				case 4:
					if fb > 3 {
						// ends before the previous extent does: the offset is already past it (make panics)
						e.FileBlock = uint32(fb - 2 - r.Intn(2))
						e.Count = 1
					}
				}
			}
			ex = append(ex, e)
			fb += cnt
			if r.Chance(45) {
				fb += 1 + r.Intn(4) // hole behind this extent
			}
		}
		if malformed && len(ex) > 0 && r.Chance(35) {
			// an extent that ends before its predecessor does: the offset is already past its end (make panics)
			if last := ex[len(ex)-1]; last.Count >= 3 {
				ex = append(ex, ext4.V04Extent{FileBlock: last.FileBlock, Start: uint64(r.Intn(devBlocks - 1)), Count: 1})
			}
		}
		far := false
		if len(ex) > 0 && r.Chance(14) {
			// far extents: everything from extent j0 on moves to logical offsets around and beyond 4 GiB
			// (fileBlock*blockSize no longer fits 32 bits), behind a giant hole
			far = true
			j0 := r.Intn(len(ex))
			var base uint32
			switch r.Intn(4) {
			case 0:
				base = uint32((int64(1)<<32)/int64(bs)) - uint32(fb) + uint32(r.Intn(6)) - 3 // straddles 4 GiB
			case 1:
				base = uint32((int64(1) << 32) / int64(bs))
			case 2:
				base = uint32((int64(1)<<32)/int64(bs))*uint32(1+r.Intn(3)) + uint32(r.Intn(1000))
			default:
				base = ^uint32(0) - uint32(fb) - uint32(r.Intn(50)) - 64
			}
			for j := j0; j < len(ex); j++ {
				ex[j].FileBlock += base
			}
			fb += int(base)
		}
		var size int64
		switch r.Intn(4) {
		case 0:
			size = int64(fb)*int64(bs) + int64(r.Intn(3*bs)) // trailing hole
		case 1:
			size = int64(fb) * int64(bs)
		default:
			size = int64(fb)*int64(bs) - int64(r.Intn(2*bs+1))
		}
		if size < 0 {
			size = 0
		}
		off, lens := readPlan(r, bs, size, ex)
		if !c.Want(id) {
			continue
		}
		fl := ext4.V04SyntheticFile(dev, uint32(bs), ex, uint64(size), 0, off, 0)
		calls, data, end := runReads(dev, fl, lens)
		c.Case(id, "ext4ref.sread", fmt.Sprintf("bs=%d", bs), fmt.Sprintf("size=%d", size), fmt.Sprintf("off=%d", off),
			fmt.Sprintf("devsize=%d", devSize), "pat=1", "ex="+v04ExtStr(ex), "ns="+natsStr(lens))
		c.Impl(id, "calls="+callsStr(calls), fmt.Sprintf("end=%d", end))
		if !malformed {
			// the property itself, stated on the pattern device: byte p of the file is the device byte its extent maps
			// it to, or zero in a hole; never more than remain
			oid := id + "/spec"
			if msg := synthReadSpec(bs, size, off, ex, data, end); msg != "" {
				c.Fail(oid, "-", msg, fmt.Sprintf("ext4ref.sread bs=%d size=%d off=%d ex=%s ns=%s", bs, size, off, v04ExtStr(ex), natsStr(lens)))
			} else {
				c.OK(oid)
			}
		}
		if far {
			c.Stat("sread-synthetic-far-4GiB")
		}
		if malformed {
			c.Stat("sread-synthetic-malformed")
		} else {
			c.Stat("sread-synthetic-sorted")
		}
	}
	// ---- descriptor decoding on random bytes
	ng := c.N(150, 4000)
	for i := 0; i < ng; i++ {
		gdSize := hx.Pick(r, []int{32, 64, 64, 128})
		b := r.Bytes(gdSize)
		if r.Chance(30) {
			for j := 32; j < len(b); j++ {
				b[j] = 0
			}
		}
		gdCase(c, fmt.Sprintf("dsyn/gd%d", i), b, gdSize)
		c.Stat(fmt.Sprintf("gd-synthetic-size%d", gdSize))
	}
	// ---- readInodeRaw on synthetic geometries
	ni := c.N(300, 8000)
	for i := 0; i < ni; i++ {
		id := fmt.Sprintf("dsyn/inoloc%d", i)
		bs := hx.Pick(r, []int{1024, 2048, 4096, 65536})
		isz := hx.Pick(r, []int{128, 256, 512, 1024})
		ipg := 1 + r.Intn(64)
		ng := 1 + r.Intn(5)
		tables := make([]uint64, ng)
		for j := range tables {
			tables[j] = uint64(r.Intn(devSize/bs + 2))
		}
		if r.Chance(12) {
			// extremes: 32-bit wrap of the slot offset, 64-bit wrap of the table offset
			switch r.Intn(3) {
			case 0:
				ipg = 1<<24 + r.Intn(1<<24)
				isz = hx.Pick(r, []int{256, 1024, 65535})
			case 1:
				tables[r.Intn(ng)] = uint64(1)<<63/uint64(bs) + uint64(r.Intn(3))
			default:
				tables[r.Intn(ng)] = (^uint64(0))/uint64(bs) - uint64(r.Intn(2))
			}
		}
		total := uint64(ng) * uint64(ipg)
		var n uint64
		switch r.Intn(6) {
		case 0:
			n = 0
		case 1:
			n = total
		case 2:
			n = total + 1
		case 3:
			n = 1 + uint64(r.Intn(ng))*uint64(ipg) // first inode of a group
		default:
			n = 1 + uint64(r.Int63n(int64(total)))
		}
		if n > 1<<32-1 {
			n = 1<<32 - 1
		}
		if !c.Want(id) {
			continue
		}
		var ios []string
		dev.ReadHook = func(off int64, l int) { ios = append(ios, fmt.Sprintf("off=%d\tlen=%d", off, l)) }
		res := guard(func() error {
			_, e := ext4.VerifSyntheticInodeRaw(dev, uint32(bs), uint16(isz), uint32(ipg), tables, uint32(n))
			return e
		})
		dev.ReadHook = nil
		ts := make([]string, ng)
		for j, t := range tables {
			ts[j] = fmt.Sprint(t)
		}
		c.Case(id, "ext4ref.inoloct", fmt.Sprintf("bs=%d", bs), fmt.Sprintf("isz=%d", isz), fmt.Sprintf("ipg=%d", ipg),
			fmt.Sprintf("devsize=%d", devSize), fmt.Sprintf("n=%d", n), "tables="+strings.Join(ts, ","))
		switch {
		case res.panic != "":
			c.Impl(id, "panic")
		case res.bad() || len(ios) != 1:
			c.Impl(id, "err")
		default:
			c.Impl(id, strings.Split(ios[0], "\t")...)
		}
		c.Stat("inoloc-synthetic")
	}
	_ = binary.LittleEndian
}

// synthReadSpec compares what a Read sequence starting at off returned (data, final offset end) with the plain
// meaning of a well-formed extent list on the pattern device.
func synthReadSpec(bs int, size, off int64, ex []ext4.V04Extent, data []byte, end int64) string {
	if off > size {
		if len(data) != 0 {
			return fmt.Sprintf("%d bytes returned from offset %d beyond the size %d", len(data), off, size)
		}
		return ""
	}
	if int64(len(data)) > size-off {
		return fmt.Sprintf("%d bytes returned from offset %d of a %d-byte file: more than remain", len(data), off, size)
	}
	if end != off+int64(len(data)) {
		return fmt.Sprintf("offset after the reads is %d, want %d", end, off+int64(len(data)))
	}
	for i, b := range data {
		p := off + int64(i)
		want := byte(0)
		for _, e := range ex {
			lo := int64(e.FileBlock) * int64(bs)
			hi := lo + int64(e.Count)*int64(bs)
			if p >= lo && p < hi {
				want = patByte(int64(e.Start)*int64(bs) + (p - lo))
				break
			}
		}
		if b != want {
			return fmt.Sprintf("byte at file offset %d is %#x, want %#x (extent map / hole)", p, b, want)
		}
	}
	return ""
}
