// Package ext4ref is the C20 engine: ext4 images populated by the reference tools
// (mke2fs -d, debugfs, e2fsck -D) from a generated host tree are opened with the real
// library on an in-memory device; what the library reports (tree, contents, sizes, modes,
// owners, times, link targets, xattrs) must equal what was put in.
package ext4ref

import (
	"bytes"
	"fmt"
	"os"
	"os/exec"
	"path/filepath"
	"sort"
	"strconv"
	"strings"

	"verif/harness/internal/hx"
)

const (
	mke2fs  = "/usr/sbin/mke2fs"
	debugfs = "/usr/sbin/debugfs"
	e2fsck  = "/usr/sbin/e2fsck"
)

// imgOpts is one point of the mke2fs option matrix.
type imgOpts struct {
	name      string
	fstype    string // ext4 | ext3 | ext2
	bs        int
	inodeSize int
	feats     []string // -O arguments
	extra     []string // further mke2fs arguments
	sizeKB    int
	// unsupported: the image uses something the library is not expected to read (errors are acceptable, wrong data / panics are not)
	unsupported string
	bigDir      int  // entries of the big directory
	deepFrag    bool // many-extent files (interior extent nodes)
	// smallExtra: some inodes get an i_extra_isize below 32 (debugfs sif), so that words of the extra area do
	// not exist for them and in-inode attributes start earlier (finding ext4-inode-extra-isize-ignored)
	smallExtra bool
}

func (o imgOpts) String() string {
	return fmt.Sprintf("%s: -t %s -b %d -I %d -O %s %s size=%dK bigdir=%d", o.name, o.fstype, o.bs, o.inodeSize,
		strings.Join(o.feats, ","), strings.Join(o.extra, " "), o.sizeKB, o.bigDir)
}

type kind int

const (
	kDir kind = iota
	kFile
	kSymlink
)

func (k kind) String() string { return [...]string{"dir", "file", "symlink"}[k] }

// node is what was put into the image for one path.
type node struct {
	path    string // io/fs style, "." is the root
	kind    kind
	content []byte // logical contents (holes as zeros) for files
	target  string
	xattrs  map[string][]byte
	holes   bool // the file was punched / has unmapped blocks
	// unwritten: [first,last] file blocks preallocated with debugfs fallocate (an unwritten extent: reads as zeros);
	// a library that does not support them may refuse the file with an error
	unwritten [][2]int
	frag      bool // written into fragmented free space (many extents, no holes)
	// smallExtra: the i_extra_isize debugfs gave this inode (0 = untouched, 32)
	smallExtra int
	// metadata as the reference tool reports it (debugfs stat), filled by refStat
	ref *refMeta
}

type refMeta struct {
	ino                        uint32
	typ                        string
	mode                       uint32 // 12 bits
	flags                      uint32
	uid, gid                   uint32
	size                       uint64
	links                      uint32
	hasExtra                   bool
	atime, mtime, ctime, crtim [2]int64 // sec, nsec
	hasCr                      bool
	fileACL                    uint64
}

type tree struct {
	root  string // host directory
	nodes map[string]*node
	// debugfs commands to run after mke2fs (in order)
	cmds []string
	// files with unwritten extents: buildImage fills their reserved blocks with a pattern (stale bytes)
	prealloc []string
	hostTmp  string // host files written with debugfs `write`
}

var nameAlphabet = []string{"a", "b", "c", "d", "e", "f", "g", "x", "y", "z", "A", "Q", "Z", "0", "1", "7", "9", "_", "-", ".", "+", "=", ",", "@", "%", "~", "é", "日", "ß"}

func genName(r *hx.Rng, minLen, maxLen int) string {
	n := minLen + r.Intn(maxLen-minLen+1)
	var sb strings.Builder
	for sb.Len() < n {
		s := hx.Pick(r, nameAlphabet)
		if sb.Len() == 0 && (s == "-" || s == "." || s == "~" || s == "+") {
			s = "n"
		}
		if sb.Len()+len(s) > n {
			s = "k"
		}
		sb.WriteString(s)
	}
	return sb.String()
}

func (t *tree) add(n *node) *node { t.nodes[n.path] = n; return n }

func (t *tree) host(p string) string { return filepath.Join(t.root, filepath.FromSlash(p)) }

var uidChoices = []uint32{0, 1, 1000, 65534, 65535, 65536, 65537, 100000, 1 << 31, 1<<32 - 2}

func setMeta(r *hx.Rng, hostPath string, k kind) error {
	uid, gid := hx.Pick(r, uidChoices), hx.Pick(r, uidChoices)
	if r.Chance(30) {
		uid, gid = uint32(r.U64()%(1<<32-1)), uint32(r.U64()%(1<<32-1))
	}
	if err := os.Lchown(hostPath, int(uid), int(gid)); err != nil {
		return err
	}
	if k == kSymlink {
		return nil
	}
	var mode uint32
	switch r.Intn(4) {
	case 0:
		mode = uint32(r.Intn(1 << 12))
	case 1:
		mode = hx.Pick(r, []uint32{0o644, 0o755, 0o600, 0o4755, 0o2755, 0o1777, 0o7777, 0, 0o111, 0o6000})
	default:
		mode = uint32(r.Intn(1 << 9))
	}
	if k == kDir {
		mode |= 0o700 // the generator itself must be able to enter the directory
	}
	fm := os.FileMode(mode & 0o777)
	if mode&0o4000 != 0 {
		fm |= os.ModeSetuid
	}
	if mode&0o2000 != 0 {
		fm |= os.ModeSetgid
	}
	if mode&0o1000 != 0 {
		fm |= os.ModeSticky
	}
	return os.Chmod(hostPath, fm)
}

// genTree writes the host tree and the list of debugfs commands.
func genTree(r *hx.Rng, dir string, o imgOpts) (*tree, error) {
	t := &tree{root: filepath.Join(dir, "tree"), nodes: map[string]*node{}, hostTmp: filepath.Join(dir, "hosttmp")}
	if err := os.MkdirAll(t.root, 0o755); err != nil {
		return nil, err
	}
	if err := os.MkdirAll(t.hostTmp, 0o755); err != nil {
		return nil, err
	}
	bs := o.bs
	t.add(&node{path: ".", kind: kDir})
	t.add(&node{path: "lost+found", kind: kDir})
	mkdir := func(p string) error {
		t.add(&node{path: p, kind: kDir})
		return os.Mkdir(t.host(p), 0o755)
	}
	mkfile := func(p string, data []byte) (*node, error) {
		n := t.add(&node{path: p, kind: kFile, content: data})
		return n, os.WriteFile(t.host(p), data, 0o644)
	}
	mklink := func(p, target string) error {
		t.add(&node{path: p, kind: kSymlink, target: target})
		return os.Symlink(target, t.host(p))
	}
	// --- plain files at size boundaries
	sizes := []int{0, 1, 59, 60, 61, bs - 1, bs, bs + 1, 2 * bs, 3*bs + 17, 12*bs + 5, 13 * bs}
	for i, sz := range sizes {
		if _, err := mkfile(fmt.Sprintf("f%02d_%d", i, sz), r.Bytes(sz)); err != nil {
			return nil, err
		}
	}
	// --- nested directories with random names and files
	cur := ""
	depth := 2 + r.Intn(4)
	for d := 0; d < depth; d++ {
		name := genName(r, 1, 40)
		if d == 1 {
			name = genName(r, 247, 247) // long, but below the 248-byte boundary (see longnames/)
		}
		p := name
		if cur != "" {
			p = cur + "/" + name
		}
		if len(t.host(p)) > 3900 {
			break
		}
		if err := mkdir(p); err != nil {
			return nil, err
		}
		cur = p
		for j := 0; j < 1+r.Intn(3); j++ {
			fn := cur + "/" + genName(r, 1, 30)
			if t.nodes[fn] != nil {
				continue
			}
			if _, err := mkfile(fn, r.Bytes(r.Intn(3*bs))); err != nil {
				return nil, err
			}
		}
	}
	if err := mkdir("emptydir"); err != nil {
		return nil, err
	}
	// --- names at the upper length boundary (255 is the longest legal name)
	if err := mkdir("longnames"); err != nil {
		return nil, err
	}
	for _, ln := range []int{246, 247, 248, 254, 255} {
		if _, err := mkfile("longnames/"+genName(r, ln, ln), r.Bytes(ln)); err != nil {
			return nil, err
		}
	}
	// --- a directory large enough to span several blocks (hash-indexed after e2fsck -D when dir_index is on)
	if err := mkdir("big"); err != nil {
		return nil, err
	}
	for i := 0; i < o.bigDir; i++ {
		nm := fmt.Sprintf("big/%s_%d", genName(r, 1, 70), i)
		switch {
		case i%97 == 5:
			if err := mkdir(nm); err != nil {
				return nil, err
			}
		case i%53 == 7:
			if err := mklink(nm, "../f00_0"); err != nil {
				return nil, err
			}
		default:
			if _, err := mkfile(nm, []byte(strconv.Itoa(i))); err != nil {
				return nil, err
			}
		}
	}
	// --- symlinks: fast / boundary / slow, relative and absolute
	maxT := bs - 1
	if maxT > 4095 {
		maxT = 4095
	}
	mkTarget := func(n int, abs bool) string {
		var sb strings.Builder
		if abs {
			sb.WriteByte('/')
		}
		for sb.Len() < n {
			seg := genName(r, 1, 20)
			if sb.Len()+len(seg)+1 > n {
				seg = strings.Repeat("s", n-sb.Len())
			} else {
				seg += "/"
			}
			sb.WriteString(seg)
		}
		s := sb.String()[:n]
		if strings.HasSuffix(s, "/") && n > 1 {
			s = s[:n-1] + "t"
		}
		return s
	}
	for i, ln := range []int{1, 2, 58, 59, 60, 61, 255, maxT - 1, maxT, 5 + r.Intn(50), 60 + r.Intn(maxT-60)} {
		if ln < 1 {
			ln = 1
		}
		if err := mklink(fmt.Sprintf("l%02d_%d", i, ln), mkTarget(ln, i%3 == 1)); err != nil {
			return nil, err
		}
	}
	if err := mklink("l_tofile", "f01_1"); err != nil {
		return nil, err
	}
	// --- sparse files: holes made on the host (trailing hole) and by debugfs punch
	{
		data := r.Bytes(2*bs + 100)
		full := make([]byte, 9*bs+33)
		copy(full, data)
		n, err := mkfile("sp_tailhole", full)
		if err != nil {
			return nil, err
		}
		n.holes = true
		// rewrite sparsely: data then truncate up
		f, _ := os.Create(t.host("sp_tailhole"))
		f.Write(data)
		f.Truncate(int64(len(full)))
		f.Close()
	}
	if o.fstype == "ext4" && !contains(o.feats, "^extents") && !contains(o.feats, "bigalloc") {
		// data, one unmapped block, five preallocated (unwritten) blocks, one unmapped block at the end
		data := r.Bytes(3*bs + 17)
		full := make([]byte, 11*bs)
		copy(full, data)
		n, err := mkfile("sp_prealloc", full)
		if err != nil {
			return nil, err
		}
		n.holes = true
		n.unwritten = [][2]int{{5, 9}}
		f, _ := os.Create(t.host("sp_prealloc"))
		f.Write(data)
		f.Truncate(int64(len(full)))
		f.Close()
		t.cmds = append(t.cmds, "fallocate sp_prealloc 5 9")
		t.prealloc = append(t.prealloc, "sp_prealloc")
	}
	punch := func(p string, nblocks int, holes [][2]int) error {
		data := r.Bytes(nblocks*bs - r.Intn(bs))
		n, err := mkfile(p, append([]byte(nil), data...))
		if err != nil {
			return err
		}
		n.holes = true
		for _, h := range holes {
			t.cmds = append(t.cmds, fmt.Sprintf("punch %s %d %d", p, h[0], h[1]))
			for b := h[0]; b <= h[1]; b++ {
				for j := b * bs; j < (b+1)*bs && j < len(n.content); j++ {
					n.content[j] = 0
				}
			}
		}
		return nil
	}
	if err := punch("sp_head", 8, [][2]int{{0, 2}}); err != nil {
		return nil, err
	}
	if err := punch("sp_mid", 10, [][2]int{{3, 5}}); err != nil {
		return nil, err
	}
	{
		nb := 24
		if o.deepFrag {
			nb = 1400 // every other block punched: ~700 extents, interior nodes (two levels at 1 KiB blocks)
		}
		var hs [][2]int
		for b := 1; b < nb-1; b += 2 {
			hs = append(hs, [2]int{b, b})
		}
		if err := punch("sp_alt", nb, hs); err != nil {
			return nil, err
		}
	}
	{
		// one data block in sixteen: few allocated blocks spread over a long logical range, more than
		// four extents (so the tree has an interior node whose last index entry starts far beyond the
		// number of allocated blocks)
		nb := 16 * 24
		var hs [][2]int
		for b := 0; b+15 < nb; b += 16 {
			hs = append(hs, [2]int{b + 1, b + 15})
		}
		if err := punch("sp_wide", nb, hs); err != nil {
			return nil, err
		}
		// a leading hole much larger than what stays allocated, followed by alternating blocks
		nb = 300
		hs = [][2]int{{0, 283}}
		for b := 285; b < nb-1; b += 2 {
			hs = append(hs, [2]int{b, b})
		}
		if err := punch("sp_lead", nb, hs); err != nil {
			return nil, err
		}
	}
	// --- fragmented file without holes: fillers, remove every other one, then write into the gaps
	if err := mkdir("fill"); err != nil {
		return nil, err
	}
	nfill := 40
	if o.deepFrag {
		nfill = 700
	}
	for i := 0; i < nfill; i++ {
		if _, err := mkfile(fmt.Sprintf("fill/p%04d", i), r.Bytes(bs)); err != nil {
			return nil, err
		}
	}
	for i := 0; i < nfill; i += 2 {
		p := fmt.Sprintf("fill/p%04d", i)
		t.cmds = append(t.cmds, "rm "+p)
		delete(t.nodes, p)
	}
	{
		data := r.Bytes((nfill/2+6)*bs + 77)
		hp := filepath.Join(t.hostTmp, "frag.bin")
		if err := os.WriteFile(hp, data, 0o644); err != nil {
			return nil, err
		}
		t.cmds = append(t.cmds, "write "+hp+" fragfile")
		t.add(&node{path: "fragfile", kind: kFile, content: data, frag: true})
	}
	// --- metadata on everything created on the host
	paths := make([]string, 0, len(t.nodes))
	for p, n := range t.nodes {
		if p == "." || p == "lost+found" || n.frag {
			continue
		}
		paths = append(paths, p)
	}
	sort.Slice(paths, func(i, j int) bool {
		return len(paths[i]) > len(paths[j]) || (len(paths[i]) == len(paths[j]) && paths[i] < paths[j])
	}) // children before parents
	for _, p := range paths {
		n := t.nodes[p]
		if strings.HasPrefix(p, "big/") && r.Chance(70) {
			continue
		}
		if err := setMeta(r, t.host(p), n.kind); err != nil {
			return nil, fmt.Errorf("setMeta %s: %w", p, err)
		}
		if n.kind != kSymlink {
			at := timeChoice(r)
			mt := timeChoice(r)
			if err := os.Chtimes(t.host(p), at, mt); err != nil {
				return nil, err
			}
		}
	}
	// --- times outside 1970..2038 and nanoseconds through debugfs set_inode_field
	exotic := [][2]string{{"f00_0", "mtime"}, {"f01_1", "atime"}, {"f02_59", "ctime"}, {"f03_60", "crtime"}, {"emptydir", "mtime"}, {"l_tofile", "mtime"}}
	for i, e := range exotic {
		if e[1] == "crtime" && o.inodeSize < 256 {
			continue
		}
		var sec int64
		switch i % 6 {
		case 0:
			sec = -1 - r.Int63n(1<<31-1) // before 1970
		case 1:
			sec = 1<<31 + r.Int63n(1<<31) // after 2038
		case 2:
			sec = 1<<32 + r.Int63n(1<<32) // epoch bits
		case 3:
			sec = -(1 << 31)
		case 4:
			sec = 1<<31 - 1
		default:
			sec = 3*(1<<32) + r.Int63n(1<<31-10) // near the end of the 34-bit range
		}
		if o.inodeSize < 256 {
			sec = int64(int32(sec)) // 128-byte inodes have no extra bits
		}
		t.cmds = append(t.cmds, fmt.Sprintf("sif %s %s @%d", e[0], e[1], sec))
		if o.inodeSize >= 256 && r.Bool() {
			// extra = nsec<<2 | epoch bits: set the nanoseconds, keep the epoch bits debugfs just wrote
			// (set via the raw field after reading is not possible in one batch; write the full extra word)
			low := int64(int32(sec))
			epoch := ((sec - low) >> 32) & 3
			nsec := r.Int63n(1000000000)
			t.cmds = append(t.cmds, fmt.Sprintf("sif %s %s_extra %d", e[0], e[1], nsec<<2|epoch))
		}
	}
	// --- extended attributes
	xa := func(p, name string, val []byte) {
		n := t.nodes[p]
		if n.xattrs == nil {
			n.xattrs = map[string][]byte{}
		}
		n.xattrs[name] = val
		vf := filepath.Join(t.hostTmp, fmt.Sprintf("xv%d", len(t.cmds)))
		os.WriteFile(vf, val, 0o644)
		t.cmds = append(t.cmds, fmt.Sprintf("ea_set -f %s %s %s", vf, p, name))
	}
	xa("f01_1", "user.a", []byte("1"))
	xa("f01_1", "user.comment", r.Bytes(20))
	xa("f02_59", "trusted.overlay.opaque", []byte("y"))
	xa("f02_59", "security.selinux", []byte("system_u:object_r:etc_t:s0\x00"))
	xa("f03_60", "user.big", r.Bytes(bs/2)) // cannot fit in the inode: xattr block
	xa("f03_60", "user.small", r.Bytes(8))  // in-inode next to a block
	xa("emptydir", "user.ondir", r.Bytes(33))
	xa("f04_61", "user.empty", []byte{})
	xa("f04_61", "user.nonempty", []byte("v"))
	for i := 0; i < 6; i++ { // several in one inode / block
		xa("f05_"+strconv.Itoa(bs-1), fmt.Sprintf("user.k%d_%s", i, genName(r, 1, 40)), r.Bytes(1+r.Intn(60)))
	}
	if o.unsupported == "ea_inode" {
		xa("f06_"+strconv.Itoa(bs), "user.huge", r.Bytes(bs+500)) // goes to an EA inode
	}
	// name indices beyond 7 in the reference tools' table (e2fsprogs lib/ext2fs/ext_attr.c): 10 = "gnu." and
	// 8 = "system.richacl" (the whole name, like the POSIX ACL indices 2 and 3); index 7 with and without a rest.
	// Fixed values: the random stream of everything generated afterwards stays what it was.
	// Finding ext4-xattr-name-index-unknown: a reader whose table ends at 7 reports them under invented names.
	f07 := "f07_" + strconv.Itoa(bs+1)
	xa(f07, "gnu.translator", []byte("/hurd/symlink\x00target\x00"))
	xa(f07, "system.richacl", []byte{0, 0, 0, 0, 1, 0, 0, 0, 0xff, 0xff, 0xff, 0xff, 0, 0, 0, 0})
	xa(f07, "system.verif", []byte("d")) // not "system.data": that name is the inline-data attribute and debugfs refuses it
	xa(f07, "user.gnu.translator", []byte("not the gnu. index"))
	// --- inode kind x xattr placement: every kind (file, directory, fast symlink, slow symlink) with attributes
	// in the inode only, in an external block only, and in both. `big` never fits the in-inode space of a
	// 256/512-byte inode; with 128-byte inodes everything goes to the external block (which i_blocks counts:
	// a fast symlink then has i_blocks != 0 while its target still sits in i_block).
	if o.unsupported == "inline_data" {
		// debugfs ea_set corrupts inodes that keep their data in the system.data attribute (e2fsck then finds a bad
		// attribute block); the library refuses these images at open anyway
		return t, nil
	}
	big := func() []byte { return r.Bytes(bs/2 + r.Intn(bs/8)) }
	small := func() []byte { return r.Bytes(1 + r.Intn(24)) }
	linkName := func(i int) string {
		for p, n := range t.nodes {
			if n.kind == kSymlink && strings.HasPrefix(p, fmt.Sprintf("l%02d_", i)) {
				return p
			}
		}
		return ""
	}
	place := func(p string, withBig, withSmall bool) {
		if p == "" || t.nodes[p] == nil {
			return
		}
		ns := "user."
		if t.nodes[p].kind == kSymlink {
			ns = "trusted." // the kernel allows no user.* attributes on symbolic links
		}
		if withBig {
			xa(p, ns+"big_"+genName(r, 1, 12), big())
		}
		if withSmall {
			xa(p, ns+"s_"+genName(r, 1, 12), small())
		}
	}
	place(linkName(0), true, false)  // fast symlink (1 byte), external block only
	place(linkName(1), false, true)  // fast symlink, in-inode only (block with 128-byte inodes)
	place(linkName(3), true, true)   // fast symlink at the 59-byte boundary, both
	place(linkName(4), true, false)  // slow symlink (60 bytes), external block only
	place(linkName(6), false, true)  // slow symlink (255 bytes), in-inode only
	place(linkName(8), true, true)   // slow symlink of blocksize-1 bytes, both
	place("longnames", true, false)  // directory, external block only
	place("fill", true, true)        // directory (linear, several blocks), both
	place("big", false, true)        // hash-indexed directory, in-inode only
	if o.unsupported != "ea_inode" { // (f06 carries the EA-inode value there)
		place("f06_"+strconv.Itoa(bs), true, false) // file, external block only
	}
	place("sp_mid", true, true)    // sparse file, both
	place("fragfile", true, false) // file written by debugfs, many extents, external block only
	// --- small i_extra_isize: legal (e2fsck accepts 4..inode size-128 in steps of 4), written by older kernels and
	// tools. A field of the extra area that i_extra_isize does not reach does not exist (the reference tool prints
	// the timestamp without its extra word, no crtime), and in-inode attributes start right behind the shorter area.
	if o.smallExtra && o.inodeSize >= 256 {
		var cand []string
		for p, n := range t.nodes {
			if p == "." || n.xattrs != nil || strings.HasPrefix(p, "big/") || strings.HasPrefix(p, "fill/") || strings.ContainsAny(p, " \"") {
				continue
			}
			cand = append(cand, p)
		}
		sort.Strings(cand)
		// 4: no word of the extra area exists; 24, 28: all timestamp words exist. The sizes between are left to the
		// synthetic records of ext4ref.inodedec: debugfs prints the extra words all or none (i_extra_isize >= 24),
		// so it is no reference for an inode in which only some of them exist
		sizes := []int{4, 4, 24, 4, 28}
		for i, p := range cand {
			if i >= 28 {
				break
			}
			n := t.nodes[p]
			n.smallExtra = sizes[i%len(sizes)]
			t.cmds = append(t.cmds, fmt.Sprintf("sif %s extra_isize %d", p, n.smallExtra))
			if i%3 == 0 { // an attribute right behind the shortened extra area
				ns := "user."
				if n.kind == kSymlink {
					ns = "trusted."
				}
				xa(p, ns+"sx", []byte("value-behind-the-extra-area"))
			}
		}
	}
	return t, nil
}

// buildImage runs the reference tools; returns the image path.
func buildImage(dir string, o imgOpts, t *tree) (string, string, error) {
	img := filepath.Join(dir, "img")
	args := []string{"-q", "-F", "-t", o.fstype, "-b", strconv.Itoa(o.bs), "-I", strconv.Itoa(o.inodeSize),
		"-U", "11111111-2222-3333-4444-555555555555", "-E", "hash_seed=aaaaaaaa-bbbb-cccc-dddd-eeeeeeeeeeee,lazy_itable_init=1,nodiscard",
		"-d", t.root}
	if len(o.feats) > 0 {
		args = append(args, "-O", strings.Join(o.feats, ","))
	}
	args = append(args, o.extra...)
	args = append(args, img, strconv.Itoa(o.sizeKB)+"K")
	var log strings.Builder
	run := func(name string, a ...string) (string, error) {
		cmd := exec.Command(name, a...)
		cmd.Env = append(os.Environ(), "DEBUGFS_PAGER=__none__", "PAGER=cat", "E2FSPROGS_FAKE_TIME=1700000000")
		out, err := cmd.CombinedOutput()
		fmt.Fprintf(&log, "$ %s %s\n%s\n", filepath.Base(name), strings.Join(a, " "), tail(string(out), 600))
		return string(out), err
	}
	if _, err := run(mke2fs, args...); err != nil {
		return "", log.String(), fmt.Errorf("mke2fs: %w", err)
	}
	if len(t.cmds) > 0 {
		cf := filepath.Join(dir, "cmds")
		os.WriteFile(cf, []byte(strings.Join(t.cmds, "\n")+"\n"), 0o644)
		out, err := run(debugfs, "-w", "-f", cf, img)
		if err != nil {
			return "", log.String(), fmt.Errorf("debugfs: %w", err)
		}
		for _, l := range strings.Split(out, "\n") {
			if l == "" || strings.HasPrefix(l, "debugfs") || strings.HasPrefix(l, "Allocated inode") {
				continue
			}
			return "", log.String(), fmt.Errorf("debugfs complained: %s", l)
		}
	}
	// the reserved blocks of unwritten extents hold whatever was there before: make that visible
	for _, p := range t.prealloc {
		out, err := run(debugfs, "-R", "ex "+p, img)
		if err != nil {
			return "", log.String(), fmt.Errorf("debugfs ex: %w", err)
		}
		var zap []string
		for _, l := range strings.Split(out, "\n") {
			f := strings.Fields(l)
			// " 0/ 0   3/  3     8 -    15    89 -    96      8 Uninit"
			if len(f) < 10 || f[len(f)-1] != "Uninit" {
				continue
			}
			lo, e1 := strconv.Atoi(f[len(f)-5])
			hi, e2 := strconv.Atoi(f[len(f)-3])
			if e1 != nil || e2 != nil || hi < lo || hi-lo > 64 {
				continue
			}
			for b := lo; b <= hi; b++ {
				zap = append(zap, fmt.Sprintf("zap_block -p 0x5a %d", b))
			}
		}
		if len(zap) == 0 {
			return "", log.String(), fmt.Errorf("no unwritten extent found in %s: %s", p, tail(out, 300))
		}
		zf := filepath.Join(dir, "zapcmds")
		os.WriteFile(zf, []byte(strings.Join(zap, "\n")+"\n"), 0o644)
		if _, err := run(debugfs, "-w", "-f", zf, img); err != nil {
			return "", log.String(), fmt.Errorf("debugfs zap_block: %w", err)
		}
	}
	// index the directories (reference tool), then require a clean image
	if out, err := run(e2fsck, "-f", "-y", "-D", img); err != nil {
		if ee, ok := err.(*exec.ExitError); !ok || ee.ExitCode() > 1 {
			return "", log.String(), fmt.Errorf("e2fsck -D: %v: %s", err, tail(out, 300))
		}
	}
	if out, err := run(e2fsck, "-f", "-n", img); err != nil {
		return "", log.String(), fmt.Errorf("image not clean after generation: %v: %s", err, tail(out, 300))
	}
	return img, log.String(), nil
}

func tail(s string, n int) string {
	if len(s) > n {
		return "..." + s[len(s)-n:]
	}
	return s
}

// refStat fills node.ref from one batched `debugfs stat` run.
func refStat(dir, img string, t *tree) error {
	paths := make([]string, 0, len(t.nodes))
	for p := range t.nodes {
		paths = append(paths, p)
	}
	sort.Strings(paths)
	var cmds strings.Builder
	for _, p := range paths {
		q := p
		if p == "." {
			q = "/"
		}
		fmt.Fprintf(&cmds, "stat %s\n", q)
	}
	cf := filepath.Join(dir, "statcmds")
	os.WriteFile(cf, []byte(cmds.String()), 0o644)
	cmd := exec.Command(debugfs, "-f", cf, img)
	cmd.Env = append(os.Environ(), "DEBUGFS_PAGER=__none__", "PAGER=cat")
	out, err := cmd.Output()
	if err != nil {
		return fmt.Errorf("debugfs stat: %w", err)
	}
	chunks := bytes.Split(out, []byte("\ndebugfs: stat "))
	if len(chunks) > 0 {
		chunks[0] = bytes.TrimPrefix(chunks[0], []byte("debugfs: stat "))
	}
	if len(chunks) != len(paths) {
		return fmt.Errorf("debugfs stat: %d chunks for %d paths", len(chunks), len(paths))
	}
	for i, ch := range chunks {
		m, err := parseStat(string(ch))
		if err != nil {
			return fmt.Errorf("debugfs stat %s: %w", paths[i], err)
		}
		t.nodes[paths[i]].ref = m
	}
	return nil
}

func field(s, key string) string {
	i := strings.Index(s, key)
	if i < 0 {
		return ""
	}
	rest := strings.TrimLeft(s[i+len(key):], " ")
	j := strings.IndexAny(rest, " \n")
	if j < 0 {
		return rest
	}
	return rest[:j]
}

func parseStat(s string) (*refMeta, error) {
	m := &refMeta{}
	u := func(key string, base int) (uint64, error) {
		f := field(s, key)
		if f == "" {
			return 0, fmt.Errorf("no field %q", key)
		}
		if strings.HasPrefix(f, "-") { // debugfs prints 32-bit ids with %d
			v, err := strconv.ParseInt(f, base, 64)
			return uint64(uint32(v)), err
		}
		return strconv.ParseUint(strings.TrimPrefix(f, "0x"), base, 64)
	}
	v, err := u("Inode:", 10)
	if err != nil {
		return nil, err
	}
	m.ino = uint32(v)
	m.typ = field(s, "Type:")
	if v, err = u("Mode:", 8); err != nil {
		return nil, err
	}
	m.mode = uint32(v)
	if v, err = u("Flags:", 16); err != nil {
		return nil, err
	}
	m.flags = uint32(v)
	if v, err = u("User:", 10); err != nil {
		return nil, err
	}
	m.uid = uint32(v)
	if v, err = u("Group:", 10); err != nil {
		return nil, err
	}
	m.gid = uint32(v)
	if v, err = u("Size:", 10); err != nil {
		return nil, err
	}
	m.size = v
	if v, err = u("Links:", 10); err != nil {
		return nil, err
	}
	m.links = uint32(v)
	if v, err = u("File ACL:", 10); err == nil {
		m.fileACL = v
	}
	tm := func(key string) ([2]int64, bool, bool) {
		i := strings.Index(s, "\n"+key)
		if i < 0 {
			i = strings.Index(s, " "+key)
			if i < 0 {
				return [2]int64{}, false, false
			}
		}
		rest := strings.TrimLeft(s[i+1+len(key):], " ")
		j := strings.Index(rest, " ")
		w := rest[:j]
		parts := strings.Split(w, ":")
		lo, _ := strconv.ParseUint(strings.TrimPrefix(parts[0], "0x"), 16, 64)
		sec := int64(int32(uint32(lo)))
		if len(parts) == 2 {
			ex, _ := strconv.ParseUint(parts[1], 16, 64)
			sec += int64(ex&3) << 32
			return [2]int64{sec, int64(ex >> 2)}, true, true
		}
		return [2]int64{sec, 0}, true, false
	}
	var ok bool
	if m.ctime, ok, m.hasExtra = tm("ctime:"); !ok {
		return nil, fmt.Errorf("no ctime")
	}
	m.atime, _, _ = tm("atime:")
	m.mtime, _, _ = tm("mtime:")
	m.crtim, m.hasCr, _ = tm("crtime:")
	return m, nil
}
