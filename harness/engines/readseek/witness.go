package readseek

import (
	"fmt"
	"io"
	"strings"
)

func findTarget(ts []*target, label string) *target {
	for _, t := range ts {
		if t.label == label {
			return t
		}
	}
	return nil
}

func findFile(t *target, size int) (fileSpec, bool) {
	for _, f := range t.files {
		if len(f.content) == size {
			return f, true
		}
	}
	return fileSpec{}, false
}

// probeWitnesses replays the witness of every recorded defect on the code under test, reports
// each as reproduced / absent, and sets the as-found switches handed to the Lean model.
func (e *engine) probeWitnesses(ts []*target) {
	c := e.c
	// repaired behaviour is the default; a switch goes to "defective" only when its witness fails as recorded
	e.flags = defectFlags{fatClamp: true, sqEndAdd: true, e4Closed: true, e4SkipLe: true, sqEmptyOK: true}

	// fat-read-past-eof: 700-byte file, Seek(600, SeekStart), Read into a 4 KiB buffer -> 424 bytes instead of 100
	fatRepro, fatSeen := 0, 0
	var fatMsg string
	for _, k := range []string{"fat12", "fat16", "fat32"} {
		t := findTarget(ts, k)
		if t == nil {
			continue
		}
		f, ok := findFile(t, 700)
		if !ok {
			continue
		}
		h, err := t.open(f.name)
		if err != nil {
			continue
		}
		fatSeen++
		doSeek(h, 600, io.SeekStart)
		r := doRead(h, make([]byte, 4096))
		rem := 600 % t.unit
		wrong := t.unit - rem
		if wrong > 4096 {
			wrong = 4096
		}
		if !r.panicked && wrong > 100 && r.n == wrong {
			fatRepro++
			fatMsg = fmt.Sprintf("%s: 700-byte file, Seek(600, SeekStart), Read(4096-byte buffer) returned n=%d (cluster size %d), 100 bytes remain", k, r.n, t.unit)
		}
	}
	if fatSeen > 0 {
		if fatRepro > 0 {
			e.flags.fatClamp = false
			c.Known("fat-read-past-eof", true, fatMsg)
		} else {
			c.Known("fat-read-past-eof", false, "FAT File.Read clamps the partial-cluster read to the remaining bytes")
		}
	}

	// sqfs-seekend-sign: Seek(-10, SeekEnd) on a 10000-byte file returns 10010
	if t := findTarget(ts, "squashfs-gzip-frag"); t != nil {
		if f, ok := findFile(t, 10000); ok {
			if h, err := t.open(f.name); err == nil {
				r := doSeek(h, -10, io.SeekEnd)
				switch {
				case !r.panicked && r.err == nil && r.ret == 10010:
					e.flags.sqEndAdd = false
					c.Known("sqfs-seekend-sign", true, "squashfs: Seek(-10, SeekEnd) on a 10000-byte file returned 10010 (offset subtracted from the size)")
				default:
					c.Known("sqfs-seekend-sign", false, fmt.Sprintf("Seek(-10, SeekEnd) on a 10000-byte file returned %d err=%v", r.ret, r.err))
				}
				// sqfs-read-empty-buffer: Read with an empty buffer in the middle of a file returns an error
				doSeek(h, 5, io.SeekStart)
				rr := doRead(h, nil)
				if !rr.panicked && rr.n == 0 && rr.err != nil && rr.err != io.EOF && strings.Contains(rr.err.Error(), "read no bytes") {
					e.flags.sqEmptyOK = false
					c.Known("sqfs-read-empty-buffer", true, fmt.Sprintf("squashfs: Read(empty buffer) at offset 5 of a 10000-byte file returned error %q instead of (0, nil)", rr.err))
				} else {
					c.Known("sqfs-read-empty-buffer", false, fmt.Sprintf("Read(empty buffer) returned n=%d err=%v", rr.n, rr.err))
				}
			}
		}
	}

	// ext4-close-nil-deref: Read after Close panics with a nil dereference
	if t := findTarget(ts, "ext4"); t != nil {
		if f, ok := findFile(t, 700); ok {
			if h, err := t.open(f.name); err == nil {
				doClose(h)
				r := doRead(h, make([]byte, 16))
				if r.panicked && strings.Contains(r.pmsg, "nil pointer") {
					e.flags.e4Closed = false
					c.Known("ext4-close-nil-deref", true, "ext4: Read on a handle after Close panicked: "+r.pmsg)
				} else {
					c.Known("ext4-close-nil-deref", false, fmt.Sprintf("Read after Close returned n=%d err=%v panic=%v", r.n, r.err, r.panicked))
				}
			}
		}
	}

	// ext4-extent-skip-lt (owner C04): a Read that starts, unaligned, in the block following the end of a
	// non-final extent keeps that extent and asks make() for a negative length
	if t := findTarget(ts, "ext4-interleaved"); t != nil {
		for _, f := range t.files {
			h, err := t.open(f.name)
			if err != nil {
				continue
			}
			lay, err := t.layout(h, len(f.content))
			if err != nil {
				continue
			}
			var at int64 = -1
			for p := int64(0); p < int64(len(f.content)); p += int64(t.unit) {
				if e4SkipTrigger(lay, p+5, int64(t.unit)) && p+5 < int64(len(f.content)) {
					at = p + 5
					break
				}
			}
			if at < 0 {
				continue
			}
			e.flags.e4SkipKnown = true
			doSeek(h, at, io.SeekStart)
			r := doRead(h, make([]byte, 16))
			if r.panicked && strings.Contains(r.pmsg, "makeslice") {
				e.flags.e4SkipLe = false
				c.Known("ext4-extent-skip-lt", true, fmt.Sprintf("ext4: %s (%s): Seek(%d, SeekStart) then Read(16) panicked: %s", f.name, strings.Join(lay, " "), at, r.pmsg))
			} else {
				c.Known("ext4-extent-skip-lt", false, fmt.Sprintf("Read at %d returned n=%d err=%v panic=%v", at, r.n, r.err, r.panicked))
			}
			break
		}
	}
	c.Note("as-found switches: %s", e.flags.String())
}
