// Package readseek is the C10 engine: call sequences (Read / Seek / Close) on real file
// handles of files of known content on all six filesystem types, judged against the
// io.Reader / io.Seeker contract with bytes.Reader semantics as the executable specification.
package readseek

import (
	"bytes"
	"errors"
	"fmt"
	"hash/fnv"
	"io"
	"os"
	"strings"

	"github.com/diskfs/go-diskfs/filesystem"
	"github.com/diskfs/go-diskfs/filesystem/squashfs"

	"verif/harness/internal/hx"
)

// Run is the engine entry point.
func Run(c *hx.Ctx) {
	e := &engine{c: c, dist: map[string]int{}, sampled: map[string]bool{}}
	e.run()
	for k, v := range e.dist {
		c.StatN(k, v)
	}
}

type engine struct {
	c       *hx.Ctx
	flags   defectFlags
	dist    map[string]int // input distribution, flushed into the evidence at the end
	sampled map[string]bool
}

func (e *engine) count(k string) { e.dist[k]++ }

// defectFlags: which of the recorded defects the code under test exhibits right now
// (established by replaying each witness; handed to the Lean model as its as-found switches,
// so the correspondence is exact on every input in both states of the code).
type defectFlags struct {
	fatClamp    bool // true = FAT Read clamps the partial-cluster read to what remains (repaired)
	sqEndAdd    bool // true = squashfs SeekEnd adds the offset (repaired)
	e4Closed    bool // true = ext4 Read/Seek after Close return an error (repaired)
	e4SkipLe    bool // true = ext4 Read skips an extent that ends exactly at the start block (repaired)
	sqEmptyOK   bool // true = squashfs Read with an empty buffer returns (0, nil) (repaired)
	e4SkipKnown bool // whether a multi-extent witness could be built at all
}

func b01(b bool) string {
	if b {
		return "1"
	}
	return "0"
}

func (f defectFlags) String() string {
	return "clamp" + b01(f.fatClamp) + ",sqend" + b01(f.sqEndAdd) + ",e4closed" + b01(f.e4Closed) + ",e4skip" + b01(f.e4SkipLe) + ",sqempty" + b01(f.sqEmptyOK)
}

// ---- operations -------------------------------------------------------------------

type op struct {
	kind   byte // 'r' read, 's' seek, 'c' close
	n      int  // read: buffer size
	off    int64
	whence int
}

func (o op) String() string {
	switch o.kind {
	case 'r':
		return fmt.Sprintf("r%d", o.n)
	case 's':
		return fmt.Sprintf("s%d:%d", o.whence, o.off)
	}
	return "c"
}

func opsString(ops []op) string {
	s := make([]string, len(ops))
	for i, o := range ops {
		s[i] = o.String()
	}
	return strings.Join(s, ",")
}

const (
	eNil    = 0
	eEOF    = 1
	eClosed = 2
	eOther  = 3
)

func classify(err error) int {
	switch {
	case err == nil:
		return eNil
	case err == io.EOF:
		return eEOF
	case errors.Is(err, os.ErrClosed):
		return eClosed
	}
	return eOther
}

type readRes struct {
	n        int
	err      error
	panicked bool
	pmsg     string
}

func doRead(h filesystem.File, b []byte) (r readRes) {
	defer func() {
		if rec := recover(); rec != nil {
			r.panicked, r.pmsg = true, fmt.Sprint(rec)
		}
	}()
	r.n, r.err = h.Read(b)
	return
}

type seekRes struct {
	ret      int64
	err      error
	panicked bool
	pmsg     string
}

func doSeek(h filesystem.File, off int64, whence int) (r seekRes) {
	defer func() {
		if rec := recover(); rec != nil {
			r.panicked, r.pmsg = true, fmt.Sprint(rec)
		}
	}()
	r.ret, r.err = h.Seek(off, whence)
	return
}

func doClose(h filesystem.File) (pmsg string) {
	defer func() {
		if rec := recover(); rec != nil {
			pmsg = fmt.Sprint(rec)
		}
	}()
	_ = h.Close()
	return ""
}

// ---- one call sequence ----------------------------------------------------------------

type failure struct {
	step int
	tag  string
	msg  string
}

const sentinel = 0xA5

// runSeq runs ops on a fresh handle of file f of target t, evaluates the property on every call
// and emits the case/impl pair for the Lean model. It returns the failures (at most one per tag).
func (e *engine) runSeq(t *target, f fileSpec, id string, ops []op) {
	c := e.c
	if !c.Want(id) {
		return
	}
	// how the handle is obtained: a function of the case id, so that a replay takes the same way
	modes := t.openModes()
	hsum := fnv.New32a()
	hsum.Write([]byte(id))
	mode := modes[int(hsum.Sum32()%uint32(len(modes)))]
	h, err := t.openVia(f.name, mode)
	if err != nil {
		c.Fail(id, "-", fmt.Sprintf("cannot open %s on %s through %s: %v", f.name, t.label, mode, err), id)
		return
	}
	e.count("open.via=" + mode)
	for _, k := range t.regimes {
		e.count(k)
	}
	size := int64(len(f.content))
	lay, err := t.layout(h, len(f.content))
	if err != nil {
		c.Fail(id, "-", fmt.Sprintf("layout of %s on %s: %v", f.name, t.label, err), id)
		return
	}
	pos, closed := int64(0), false
	impl := make([]string, 0, len(ops))
	var fails []failure
	seenTag := map[string]bool{}
	addFail := func(k int, tag, msg string) {
		if seenTag[tag] {
			return
		}
		seenTag[tag] = true
		fails = append(fails, failure{k, tag, msg})
	}
	unit := int64(t.unit)
	for k, o := range ops {
		e.classifyOp(o, pos, size, unit, closed)
		switch o.kind {
		case 'r':
			buf := bytes.Repeat([]byte{sentinel}, o.n)
			r := doRead(h, buf)
			if closed {
				switch {
				case r.panicked:
					impl = append(impl, "rP")
					tag := "-"
					if t.kind == "ext4" && strings.Contains(r.pmsg, "nil pointer") {
						tag = "ext4-close-nil-deref"
					}
					addFail(k, tag, fmt.Sprintf("Read after Close panicked: %s", r.pmsg))
				default:
					impl = append(impl, fmt.Sprintf("r%d/%d/-", r.n, classify(r.err)))
					if r.err == nil || r.n != 0 {
						addFail(k, "-", fmt.Sprintf("Read after Close returned n=%d err=%v (must fail without data)", r.n, r.err))
					} else if !allSentinel(buf) {
						addFail(k, "-", "Read after Close failed but wrote data into the buffer")
					}
				}
				continue
			}
			if r.panicked {
				impl = append(impl, "rP")
				tag := "-"
				if t.kind == "ext4" && e4SkipTrigger(lay, pos, unit) && strings.Contains(r.pmsg, "makeslice") {
					tag = "ext4-extent-skip-lt"
				}
				addFail(k, tag, fmt.Sprintf("Read(len %d) at %d of %d panicked: %s", o.n, pos, size, r.pmsg))
				continue // position unknown to the contract; the handle is still where it was in all four implementations
			}
			after, ok := observe(h)
			ps := "?"
			if ok {
				ps = fmt.Sprint(after)
			}
			// canonical error field: where the property allows both nil and io.EOF (the last bytes were
			// just delivered, or an empty buffer at the end) the two are not distinguished
			es := fmt.Sprint(classify(r.err))
			if ok && after >= size && (r.err == nil || r.err == io.EOF) && (r.n > 0 || o.n == 0) {
				es = "E"
			}
			impl = append(impl, fmt.Sprintf("r%d/%s/%s", r.n, es, ps))
			if pos < 0 {
				// only reachable when a Seek before the start was accepted (already reported for that call)
				addFail(k, "-", fmt.Sprintf("Read(len %d) with the cursor at %d, before the start of the file: n=%d err=%v", o.n, pos, r.n, r.err))
				if ok {
					pos = after
				}
				continue
			}
			remain := size - pos
			if remain < 0 {
				remain = 0
			}
			want := int64(o.n)
			if want > remain {
				want = remain
			}
			ec := classify(r.err)
			var msg string
			switch {
			case r.n < 0 || r.n > o.n:
				msg = fmt.Sprintf("Read(len %d) at %d of %d returned n=%d, outside 0..len(b)", o.n, pos, size, r.n)
			case int64(r.n) > remain:
				msg = fmt.Sprintf("Read(len %d) at %d of %d returned n=%d, more than the %d bytes that remain", o.n, pos, size, r.n, remain)
			case int64(r.n) != want:
				msg = fmt.Sprintf("Read(len %d) at %d of %d returned n=%d, specification (bytes.Reader) returns %d", o.n, pos, size, r.n, want)
			case r.n > 0 && !bytes.Equal(buf[:r.n], f.content[pos:pos+int64(r.n)]):
				msg = fmt.Sprintf("Read(len %d) at %d of %d returned n=%d bytes that differ from the file content at that position (first difference at +%d)", o.n, pos, size, r.n, firstDiff(buf[:r.n], f.content[pos:pos+int64(r.n)]))
			case ec != eNil && ec != eEOF:
				msg = fmt.Sprintf("Read(len %d) at %d of %d returned error %v", o.n, pos, size, r.err)
			case ec == eEOF && pos+int64(r.n) < size:
				msg = fmt.Sprintf("Read(len %d) at %d of %d returned io.EOF after n=%d although %d bytes remain (EOF too early)", o.n, pos, size, r.n, size-pos-int64(r.n))
			case ec == eNil && remain == 0 && o.n > 0:
				msg = fmt.Sprintf("Read(len %d) at %d of %d returned (0, nil) with nothing left (EOF never reported)", o.n, pos, size)
			case ok && after != pos+int64(r.n):
				msg = fmt.Sprintf("Read(len %d) at %d of %d returned n=%d but the cursor moved to %d", o.n, pos, size, r.n, after)
			case !ok:
				msg = fmt.Sprintf("Seek(0, SeekCurrent) after Read failed")
			}
			if msg != "" {
				tag := "-"
				rem := pos % unit
				switch {
				case r.n < 0 || r.n > o.n:
				case strings.HasPrefix(t.kind, "fat") && pos < size && rem != 0 && unit-rem > size-pos && int64(o.n) > size-pos &&
					int64(r.n) == min64(unit-rem, int64(o.n)) && bytes.Equal(buf[:size-pos], f.content[pos:]):
					// trigger: partial first cluster reaches past EOF and the buffer is larger than what remains;
					// explained failure: exactly min(cluster remainder, len(b)) bytes, the leading ones correct
					tag = "fat-read-past-eof"
				case t.kind == "squashfs" && o.n == 0 && pos < size && r.n == 0 && ec == eOther && strings.Contains(r.err.Error(), "read no bytes"):
					tag = "sqfs-read-empty-buffer"
				}
				addFail(k, tag, msg)
			}
			// continue from where the handle says it is (so one listed defect does not hide later calls)
			if ok {
				pos = after
			} else {
				pos += int64(r.n)
			}
		case 's':
			r := doSeek(h, o.off, o.whence)
			if closed {
				switch {
				case r.panicked:
					impl = append(impl, "sP")
					tag := "-"
					if t.kind == "ext4" && strings.Contains(r.pmsg, "nil pointer") {
						tag = "ext4-close-nil-deref"
					}
					addFail(k, tag, fmt.Sprintf("Seek after Close panicked: %s", r.pmsg))
				case r.err != nil:
					impl = append(impl, "sE/-")
				default:
					impl = append(impl, "sok/-") // the property is silent about Seek on a closed handle
				}
				continue
			}
			if r.panicked {
				impl = append(impl, "sP")
				addFail(k, "-", fmt.Sprintf("Seek(%d, %d) at %d of %d panicked: %s", o.off, o.whence, pos, size, r.pmsg))
				continue
			}
			after, ok := observe(h)
			ps := "?"
			if ok {
				ps = fmt.Sprint(after)
			}
			if r.err != nil {
				impl = append(impl, "sE/"+ps)
			} else {
				impl = append(impl, fmt.Sprintf("s%d/%s", r.ret, ps))
			}
			var base int64
			switch o.whence {
			case io.SeekStart:
				base = 0
			case io.SeekCurrent:
				base = pos
			case io.SeekEnd:
				base = size
			}
			target := base + o.off
			var msg string
			switch {
			case target < 0 && r.err == nil:
				msg = fmt.Sprintf("Seek(%d, %s) at %d of %d returned (%d, nil); a position before the start must be an error", o.off, whenceName(o.whence), pos, size, r.ret)
			case target < 0 && ok && after != pos:
				msg = fmt.Sprintf("Seek(%d, %s) at %d of %d failed but moved the cursor to %d", o.off, whenceName(o.whence), pos, size, after)
			case target >= 0 && r.err != nil:
				msg = fmt.Sprintf("Seek(%d, %s) at %d of %d returned error %v; io.Seeker puts the cursor at %d", o.off, whenceName(o.whence), pos, size, r.err, target)
			case target >= 0 && r.ret != target:
				msg = fmt.Sprintf("Seek(%d, %s) at %d of %d returned %d; io.Seeker says %d", o.off, whenceName(o.whence), pos, size, r.ret, target)
			case target >= 0 && ok && after != target:
				msg = fmt.Sprintf("Seek(%d, %s) at %d of %d returned %d but the cursor is at %d", o.off, whenceName(o.whence), pos, size, r.ret, after)
			case !ok:
				msg = "Seek(0, SeekCurrent) after Seek failed"
			}
			if msg != "" {
				tag := "-"
				if t.kind == "squashfs" && o.whence == io.SeekEnd && o.off != 0 &&
					((size-o.off >= 0 && r.err == nil && r.ret == size-o.off) || (size-o.off < 0 && r.err != nil)) {
					tag = "sqfs-seekend-sign" // explained: the offset was subtracted from the size
				}
				addFail(k, tag, msg)
			}
			if ok {
				pos = after
			} else if target >= 0 {
				pos = target
			}
		case 'c':
			if pm := doClose(h); pm != "" {
				addFail(k, "-", "Close panicked: "+pm)
			}
			impl = append(impl, "c")
			closed = true
		}
	}
	c.Case(id, "rw.seq", append(lay, "cfg="+e.flags.String(), "ops="+opsString(ops))...)
	// "wf1": the model driver confirms the file's layout lies in the domain of the C10 theorems
	c.Impl(id, "wf1,"+strings.Join(impl, ","))
	repro := fmt.Sprintf("fs=%s file=%s size=%d unit=%d open=%s ops=%s", t.label, f.name, size, t.unit, mode, opsString(ops))
	if len(fails) == 0 {
		c.OK(id)
	}
	for i, fl := range fails {
		fid := id
		if i > 0 {
			fid = fmt.Sprintf("%s#%d", id, i)
		}
		c.Fail(fid, fl.tag, fmt.Sprintf("step %d (%s): %s", fl.step, ops[fl.step], fl.msg), repro)
	}
	// evidence
	e.dist["ops"] += len(ops)
	e.count("seq." + t.label)
	e.count("filesize." + sizeClass(size, unit))
	// written-out samples: one per kind of sequence and filesystem family, not the first eight
	kindOf := id[strings.LastIndex(id, "/")+1:]
	if i := strings.IndexAny(kindOf, "0123456789-"); i > 0 {
		kindOf = kindOf[:i]
	}
	sk := t.kind + "/" + kindOf
	if !e.sampled[sk] && len(ops) <= 12 && (size > unit || kindOf == "whole") && len(e.sampled) < 8 && (len(e.sampled)%2 == 0 || kindOf != "x") {
		e.sampled[sk] = true
		c.Sample(repro + " -> " + strings.Join(impl, ","))
	}
	if len(ops) > 1 {
		c.Distinct(t.label + "|" + fmt.Sprint(size) + "|" + opsString(ops))
	}
}

func sizeClass(size, unit int64) string {
	switch {
	case size == 0:
		return "empty"
	case size < unit:
		return "below-unit"
	case size%unit == 0:
		return "unit-multiple"
	case size%unit == 1:
		return "unit-multiple+1"
	case size%unit == unit-1:
		return "unit-multiple-1"
	}
	return "other"
}

// classifyOp feeds the input distribution of the evidence.
func (e *engine) classifyOp(o op, pos, size, unit int64, closed bool) {
	if closed {
		e.count("op.on-closed-handle")
	}
	switch o.kind {
	case 'c':
		e.count("op.close")
	case 'r':
		n := int64(o.n)
		switch {
		case n == 0:
			e.count("op.read.len0")
		case n == 1:
			e.count("op.read.len1")
		case n == unit-1 || n == unit || n == unit+1:
			e.count("op.read.unit-1..unit+1")
		case n > size:
			e.count("op.read.larger-than-file")
		case n < unit:
			e.count("op.read.below-unit")
		default:
			e.count("op.read.above-unit")
		}
		if !closed {
			if pos > 1<<32 {
				e.count("read.cursor-beyond-2^32")
			} else if pos > 1<<31 {
				e.count("read.cursor-beyond-2^31")
			}
			switch {
			case pos >= size:
				e.count("read.at-or-past-eof")
			case pos+n >= size:
				e.count("read.reaches-eof")
			case pos%unit != 0:
				e.count("read.unaligned-inside")
			default:
				e.count("read.aligned-inside")
			}
		}
	case 's':
		w := whenceName(o.whence)
		switch {
		case o.off < 0:
			e.count("op.seek." + w + ".negative")
		case o.off == 0:
			e.count("op.seek." + w + ".zero")
		default:
			e.count("op.seek." + w + ".positive")
		}
		if !closed {
			base := int64(0)
			if o.whence == io.SeekCurrent {
				base = pos
			} else if o.whence == io.SeekEnd {
				base = size
			}
			if t := base + o.off; t > 1<<32 {
				e.count("seek.target-beyond-2^32")
			} else if t > 1<<31 {
				e.count("seek.target-beyond-2^31")
			}
			switch t := base + o.off; {
			case t < 0:
				e.count("seek.target-before-start")
			case t > size:
				e.count("seek.target-past-eof")
			case t == size:
				e.count("seek.target-at-eof")
			default:
				e.count("seek.target-inside")
			}
		}
	}
}

func min64(a, b int64) int64 {
	if a < b {
		return a
	}
	return b
}

func allSentinel(b []byte) bool {
	for _, x := range b {
		if x != sentinel {
			return false
		}
	}
	return true
}

func firstDiff(a, b []byte) int {
	for i := range a {
		if i >= len(b) || a[i] != b[i] {
			return i
		}
	}
	return len(a)
}

func whenceName(w int) string {
	switch w {
	case io.SeekStart:
		return "SeekStart"
	case io.SeekCurrent:
		return "SeekCurrent"
	case io.SeekEnd:
		return "SeekEnd"
	}
	return fmt.Sprint(w)
}

// observe reads the cursor with Seek(0, SeekCurrent), which leaves it where it is in every
// implementation (offset = offset + 0).
func observe(h filesystem.File) (int64, bool) {
	r := doSeek(h, 0, io.SeekCurrent)
	if r.panicked || r.err != nil {
		return 0, false
	}
	return r.ret, true
}

// e4SkipTrigger: the position lies in the block that follows the end of a non-final extent and is
// not block aligned (the `<` skip test keeps that extent and computes a negative length).
func e4SkipTrigger(lay []string, pos, unit int64) bool {
	for _, kv := range lay {
		if !strings.HasPrefix(kv, "exts=") {
			continue
		}
		for _, e := range strings.Split(strings.TrimPrefix(kv, "exts="), ",") {
			var fb, cnt int64
			if _, err := fmt.Sscanf(e, "%d:%d", &fb, &cnt); err != nil {
				continue
			}
			if pos/unit == fb+cnt && pos%unit != 0 {
				return true
			}
		}
	}
	return false
}

// ---- generators ---------------------------------------------------------------------

// alphabet of calls for a file of size s on a filesystem with unit u (boundary classes of the
// property's quantifier).
func alphabet(s, u int64, full bool) []op {
	rd := []int64{0, 1, 7, u - 1, u, u + 1, s + 4096}
	type sk struct {
		w   int
		off int64
	}
	seeks := []sk{
		{io.SeekStart, 0}, {io.SeekStart, 1}, {io.SeekStart, s - 1}, {io.SeekStart, s}, {io.SeekStart, s + 5}, {io.SeekStart, -1}, {io.SeekStart, u}, {io.SeekStart, 600},
		{io.SeekCurrent, 0}, {io.SeekCurrent, 3}, {io.SeekCurrent, -3}, {io.SeekCurrent, u}, {io.SeekCurrent, -u}, {io.SeekCurrent, -(s + 10)},
		{io.SeekEnd, 0}, {io.SeekEnd, -1}, {io.SeekEnd, -10}, {io.SeekEnd, -s}, {io.SeekEnd, -(s + 1)}, {io.SeekEnd, 7}, {io.SeekEnd, -u},
		// cursors beyond 2^31 and 2^32 (a narrowed cursor or size computation shows only up there)
		{io.SeekStart, 1<<32 + 1}, {io.SeekCurrent, 1 << 31},
	}
	if !full {
		rd = []int64{0, 7, u, s + 4096}
		seeks = []sk{
			{io.SeekStart, 1}, {io.SeekStart, s}, {io.SeekStart, u + 88}, {io.SeekStart, -1},
			{io.SeekCurrent, -3}, {io.SeekCurrent, u},
			{io.SeekEnd, -10}, {io.SeekEnd, 7}, {io.SeekEnd, -(s + 1)},
			{io.SeekCurrent, 1 << 32},
		}
	}
	var out []op
	seen := map[string]bool{}
	for _, n := range rd {
		if n < 0 {
			continue
		}
		o := op{kind: 'r', n: int(n)}
		if !seen[o.String()] {
			seen[o.String()] = true
			out = append(out, o)
		}
	}
	for _, k := range seeks {
		o := op{kind: 's', off: k.off, whence: k.w}
		if !seen[o.String()] {
			seen[o.String()] = true
			out = append(out, o)
		}
	}
	return out
}

// tail appended to every enumerated sequence: a probing read, Close, a read and a seek on the closed handle.
func tail() []op {
	return []op{{kind: 'r', n: 7}, {kind: 'c'}, {kind: 'r', n: 8}, {kind: 's', off: 0, whence: io.SeekStart}, {kind: 's', off: 0, whence: io.SeekEnd}, {kind: 'r', n: 0}}
}

func randomOps(r *hx.Rng, s, u int64, n int) []op {
	al := alphabet(s, u, true)
	ops := make([]op, 0, n+4)
	closedAt := -1
	if r.Chance(30) {
		closedAt = r.Intn(n + 1)
	}
	for i := 0; i < n; i++ {
		if i == closedAt {
			ops = append(ops, op{kind: 'c'})
		}
		switch x := r.Intn(10); {
		case x < 4:
			ops = append(ops, hx.Pick(r, al))
		case x < 7:
			// random read size: small, around the unit, or large
			var sz int64
			switch r.Intn(4) {
			case 0:
				sz = r.Int63n(16)
			case 1:
				sz = u - 2 + r.Int63n(5)
			case 2:
				sz = r.Int63n(3*u + 1)
			default:
				sz = s + r.Int63n(70000)
			}
			if sz < 0 {
				sz = 0
			}
			ops = append(ops, op{kind: 'r', n: int(sz)})
		default:
			w := r.Intn(3)
			var off int64
			switch r.Intn(4) {
			case 0:
				off = r.Int63n(s+2*u+1) - (s+2*u)/2
			case 1:
				off = -r.Int63n(s + u + 1)
			case 2:
				off = r.Int63n(s + u + 1)
			default:
				off = (r.Int63n(5) - 2) * u
				if r.Bool() {
					off += r.Int63n(7) - 3
				}
			}
			ops = append(ops, op{kind: 's', off: off, whence: w})
		}
	}
	if closedAt == n || r.Chance(50) {
		ops = append(ops, op{kind: 'c'}, op{kind: 'r', n: 1 + r.Intn(9)})
	}
	return ops
}

// ---- the run ---------------------------------------------------------------------------

func (e *engine) run() {
	c := e.c
	thorough := c.Thorough()
	var targets []*target
	add := func(t *target, err error, what string) {
		if err != nil {
			c.Fail("build/"+what, "-", fmt.Sprintf("cannot build the %s test volume through the library: %v", what, err), what)
			return
		}
		targets = append(targets, t)
	}
	for _, k := range []string{"fat12", "fat16", "fat32"} {
		t, err := buildFat(k, c.Rng.Fork(), thorough)
		add(t, err, k)
	}
	t, err := buildExt4(c.Rng.Fork(), thorough, false)
	add(t, err, "ext4")
	ti, erri := buildExt4(c.Rng.Fork(), thorough, true)
	if erri != nil {
		// growing two files alternately is itself a recorded ext4 defect (owner C04); it only means
		// this engine cannot obtain multi-extent handles from the library's own writer
		c.Note("ext4 interleaved volume not available: %v", erri)
		c.Stat("ext4.interleaved_unavailable")
	} else {
		targets = append(targets, ti)
	}
	t, err = buildIso(c.Scratch, c.Rng.Fork(), thorough)
	add(t, err, "iso9660")
	t, err = buildSqfs(c.Scratch, c.Rng.Fork(), thorough, 4096, squashfs.FinalizeOptions{}, "squashfs-gzip-frag")
	add(t, err, "squashfs-gzip-frag")
	t, err = buildSqfs(c.Scratch, c.Rng.Fork(), thorough, 8192, squashfs.FinalizeOptions{NoFragments: true, NoCompressData: true}, "squashfs-raw-nofrag")
	add(t, err, "squashfs-raw-nofrag")
	t, err = buildSqfs(c.Scratch, c.Rng.Fork(), thorough, 4096, squashfs.FinalizeOptions{Compression: &squashfs.CompressorGzip{CompressionLevel: 6}}, "squashfs-zlib-mixed")
	add(t, err, "squashfs-zlib-mixed")

	// regime targets (regimes/C10.md): volumes inside a partition (non-zero start, one beyond 4 GiB of device offset),
	// cluster chains that are not runs of consecutive clusters, ext4 with 4 KiB blocks and with an extent index level,
	// squashfs with its default 128 KiB blocks inside a partition
	addRegime := func(t *target, err error, what string) {
		if err != nil {
			c.Note("regime target %s not available: %v", what, err)
			c.Stat("regime-target-unavailable." + what)
			return
		}
		targets = append(targets, t)
	}
	for _, k := range []string{"fat12", "fat16", "fat32"} {
		t, err := buildFatAt(k, c.Rng.Fork(), 0, true, k+"-frag")
		addRegime(t, err, k+"-frag")
	}
	t, err = buildFatAt("fat16", c.Rng.Fork(), 1<<20, false, "fat16-start1M")
	addRegime(t, err, "fat16-start1M")
	t, err = buildFatAt("fat32", c.Rng.Fork(), 1<<32+1<<20+512, true, "fat32-start4G-frag")
	addRegime(t, err, "fat32-start4G-frag")
	t, err = buildExt4Regime(c.Rng.Fork(), 1<<20, 8, 0, "ext4-4k-start1M")
	addRegime(t, err, "ext4-4k-start1M")
	t, err = buildExt4Regime(c.Rng.Fork(), 0, 0, 1, "ext4-interleaved1")
	addRegime(t, err, "ext4-interleaved1")
	t, err = buildSqfsAt(c.Scratch, c.Rng.Fork(), thorough, 131072, squashfs.FinalizeOptions{Compression: &squashfs.CompressorGzip{CompressionLevel: 6}}, "squashfs-128k-start1M", 1<<20, true)
	addRegime(t, err, "squashfs-128k-start1M")

	e.probeWitnesses(targets)

	// 1. sanity: sequential whole-file reads with a fixed odd buffer (the plainest history)
	for _, t := range targets {
		for _, f := range t.files {
			id := fmt.Sprintf("%s/%s/whole", t.label, f.name)
			n := len(f.content)/37 + 3
			ops := make([]op, 0, 40)
			for i := 0; i < 39; i++ {
				ops = append(ops, op{kind: 'r', n: n})
			}
			e.runSeq(t, f, id, ops)
		}
	}
	// 2. bounded-exhaustive: every sequence of length <= L over the boundary alphabet, then the tail
	for _, t := range targets {
		for fi, f := range t.files {
			s, u := int64(len(f.content)), int64(t.unit)
			_ = fi
			al := alphabet(s, u, !t.lite)
			for i, a := range al {
				e.runSeq(t, f, fmt.Sprintf("%s/%s/x1-%d", t.label, f.name, i), append([]op{a}, tail()...))
				for j, b := range al {
					e.runSeq(t, f, fmt.Sprintf("%s/%s/x2-%d-%d", t.label, f.name, i, j), append([]op{a, b}, tail()...))
				}
			}
			if thorough && !t.lite {
				small := alphabet(s, u, false)
				for i, a := range small {
					for j, b := range small {
						for k, d := range small {
							e.runSeq(t, f, fmt.Sprintf("%s/%s/x3-%d-%d-%d", t.label, f.name, i, j, k), append([]op{a, b, d}, tail()...))
						}
					}
				}
			}
		}
	}
	// 3. random histories up to length 60
	nr := c.N(60, 2500)
	for _, t := range targets {
		for _, f := range t.files {
			for k := 0; k < nr; k++ {
				ln := 1 + c.Rng.Intn(60)
				ops := randomOps(c.Rng, int64(len(f.content)), int64(t.unit), ln)
				e.runSeq(t, f, fmt.Sprintf("%s/%s/r%d", t.label, f.name, k), ops)
			}
		}
	}
}
