package readseek

import (
	"fmt"
	"os"
	"path/filepath"
	"sort"
	"strings"

	"github.com/diskfs/go-diskfs/filesystem"
	"github.com/diskfs/go-diskfs/filesystem/ext4"
	"github.com/diskfs/go-diskfs/filesystem/fat12"
	"github.com/diskfs/go-diskfs/filesystem/fat16"
	"github.com/diskfs/go-diskfs/filesystem/fat32"
	"github.com/diskfs/go-diskfs/filesystem/iso9660"
	"github.com/diskfs/go-diskfs/filesystem/squashfs"

	"verif/harness/internal/hx"
	"verif/harness/internal/memdev"
)

// fileSpec is a file of known content.
type fileSpec struct {
	name    string
	content []byte
}

// target is one filesystem instance holding files of known content.
type target struct {
	kind  string // fat12 fat16 fat32 ext4 iso9660 squashfs
	label string // kind + variant, used in case ids
	unit  int    // cluster / block size: the boundary the Read arithmetic cares about
	fs    filesystem.FileSystem
	files []fileSpec
	// layout returns the parameters the Lean model of this filesystem's handle arithmetic takes
	// ("k=v" fields for the case line) for an open handle.
	layout func(f filesystem.File, size int) ([]string, error)
	lite    bool     // regime target: reduced alphabet for the enumeration
	regimes []string // stat keys that say which regimes this target reaches (counted once per sequence)
}

func (t *target) open(name string) (f filesystem.File, err error) {
	return t.openVia(name, "OpenFile")
}

// openModes lists the ways a read handle can be obtained on this target (OBSERVE AT: OpenFile / Open):
// OpenFile(O_RDONLY), the io/fs style Open, OpenFile(O_RDWR) where the filesystem is writable, and on
// squashfs the Open method of a directory entry returned by ReadDir.
func (t *target) openModes() []string {
	switch {
	case strings.HasPrefix(t.kind, "fat"), t.kind == "ext4":
		return []string{"OpenFile", "Open", "OpenFile-RDWR"}
	case t.kind == "squashfs":
		return []string{"OpenFile", "Open", "DirEntry.Open"}
	}
	return []string{"OpenFile", "Open"}
}

func (t *target) openVia(name, mode string) (f filesystem.File, err error) {
	defer func() {
		if r := recover(); r != nil {
			err = fmt.Errorf("panic in %s: %v", mode, r)
		}
	}()
	switch mode {
	case "Open":
		h, e := t.fs.Open(name)
		if e != nil {
			return nil, e
		}
		ff, ok := h.(filesystem.File)
		if !ok {
			return nil, fmt.Errorf("Open returned %T, not a filesystem.File", h)
		}
		return ff, nil
	case "OpenFile-RDWR":
		return t.fs.OpenFile(name, os.O_RDWR)
	case "DirEntry.Open":
		ents, e := t.fs.ReadDir(".")
		if e != nil {
			return nil, e
		}
		for _, de := range ents {
			if de.Name() != name {
				continue
			}
			var o any = de
			if _, ok := o.(interface {
				Open() (filesystem.File, error)
			}); !ok {
				if fi, e := de.Info(); e == nil {
					o = fi
				}
			}
			op, ok := o.(interface {
				Open() (filesystem.File, error)
			})
			if !ok {
				return nil, fmt.Errorf("directory entry %T has no Open method", de)
			}
			return op.Open()
		}
		return nil, fmt.Errorf("%s not listed by ReadDir", name)
	}
	return t.fs.OpenFile(name, os.O_RDONLY)
}

// content makes seeded bytes; some files get a run of zeros covering whole units (squashfs stores
// such blocks as sparse) so that the sparse-block path of Read is exercised as well.
func content(r *hx.Rng, n, unit int, zeroRun bool) []byte {
	b := r.Bytes(n)
	for i := range b {
		if b[i] == 0 {
			b[i] = 1 // keep random parts free of accidental long zero runs
		}
	}
	if zeroRun && n > 2*unit {
		for i := unit; i < 2*unit; i++ {
			b[i] = 0
		}
	}
	return b
}

// sizes around the boundaries of unit, plus the sizes of the recorded witnesses.
func boundarySizes(unit int, thorough bool) []int {
	s := []int{0, 1, unit - 1, unit, unit + 1, 2*unit - 1, 2 * unit, 2*unit + 1, 700, 10000, 3*unit + 77, 6*unit + 33}
	if thorough {
		s = append(s, 2, unit/2, 4*unit, 5*unit+123, 7*unit-1, 8*unit+1)
	}
	seen := map[int]bool{}
	var out []int
	for _, x := range s {
		if x >= 0 && !seen[x] {
			seen[x] = true
			out = append(out, x)
		}
	}
	sort.Ints(out)
	return out
}

func mkFiles(r *hx.Rng, unit int, thorough bool) []fileSpec {
	var fs []fileSpec
	for i, n := range boundarySizes(unit, thorough) {
		fs = append(fs, fileSpec{name: fmt.Sprintf("f%02d_%d.bin", i, n), content: content(r, n, unit, i%3 == 2)})
	}
	return fs
}

// writeAll creates the files through the library's own write path.
func writeAll(fsys filesystem.FileSystem, files []fileSpec, pieces func(n int) []int) error {
	for _, f := range files {
		h, err := fsys.OpenFile(f.name, os.O_CREATE|os.O_RDWR)
		if err != nil {
			return fmt.Errorf("create %s: %w", f.name, err)
		}
		off := 0
		for _, p := range pieces(len(f.content)) {
			n, err := h.Write(f.content[off : off+p])
			if err != nil || n != p {
				return fmt.Errorf("write %s at %d len %d: n=%d err=%v", f.name, off, p, n, err)
			}
			off += p
		}
		if err := h.Close(); err != nil {
			return fmt.Errorf("close %s: %w", f.name, err)
		}
	}
	return nil
}

func onePiece(n int) []int {
	if n == 0 {
		return nil
	}
	return []int{n}
}

func fatLayout(bpc int) func(f filesystem.File, size int) ([]string, error) {
	return func(f filesystem.File, size int) ([]string, error) {
		ff, ok := f.(*fat12.File)
		if !ok {
			return nil, fmt.Errorf("not a FAT handle: %T", f)
		}
		ncl := 0
		if size > 0 { // an empty file has no chain; Read returns before it looks at it
			ch, err := ff.GetClusterChain()
			if err != nil {
				return nil, err
			}
			ncl = len(ch)
		}
		return []string{"fs=fat", fmt.Sprintf("unit=%d", bpc), fmt.Sprintf("size=%d", size), fmt.Sprintf("ncl=%d", ncl)}, nil
	}
}

// liteFiles: the files of a regime target (sizes around the unit, one of several units).
func liteFiles(r *hx.Rng, unit int) []fileSpec {
	var fs []fileSpec
	for i, n := range []int{unit - 1, unit + 1, 2 * unit, 5*unit + 77} {
		fs = append(fs, fileSpec{name: fmt.Sprintf("g%02d_%d.bin", i, n), content: content(r, n, unit, false)})
	}
	return fs
}

// buildFatAt is buildFat for a volume that begins `start` bytes into the device (a partition); frag makes the
// files grow alternately one cluster at a time, so that no chain is a run of consecutive clusters.
func buildFatAt(kind string, r *hx.Rng, start int64, frag bool, label string) (t *target, err error) {
	defer func() {
		if rec := recover(); rec != nil {
			err = fmt.Errorf("panic building %s: %v", label, rec)
		}
	}()
	var size int64
	switch kind {
	case "fat12":
		size = 1474560
	case "fat16":
		size = 32 << 20
	default:
		size = 64 << 20
	}
	dev := memdev.New(start + size + 4096)
	if start > 0 {
		dev.RawWrite([]byte("bytes in front of the partition"), start-64) // never part of any file
	}
	var fsys filesystem.FileSystem
	var bpc int
	switch kind {
	case "fat12":
		f, e := fat12.Create(dev, size, start, 512, "C10", true)
		if e != nil {
			return nil, e
		}
		fsys, bpc = f, f.BytesPerCluster()
	case "fat16":
		f, e := fat16.Create(dev, size, start, 512, "C10", true)
		if e != nil {
			return nil, e
		}
		fsys, bpc = f, f.BytesPerCluster()
	default:
		f, e := fat32.Create(dev, size, start, 512, "C10", true)
		if e != nil {
			return nil, e
		}
		fsys, bpc = f, f.BytesPerCluster()
	}
	files := liteFiles(r, bpc)
	var regimes []string
	if frag {
		files = []fileSpec{
			{name: "a.bin", content: content(r, 5*bpc+100, bpc, false)},
			{name: "b.bin", content: content(r, 4*bpc, bpc, false)},
			{name: "c.bin", content: content(r, 3*bpc+1, bpc, false)},
		}
		if err := writeInterleaved(fsys, files, bpc, false); err != nil {
			return nil, err
		}
	} else if err := writeAll(fsys, files, onePiece); err != nil {
		return nil, err
	}
	switch kind {
	case "fat12":
		fsys, err = fat12.Read(dev, size, start, 512)
	case "fat16":
		fsys, err = fat16.Read(dev, size, start, 512)
	default:
		fsys, err = fat32.Read(dev, size, start, 512)
	}
	if err != nil {
		return nil, fmt.Errorf("re-reading the %s image: %w", label, err)
	}
	t = &target{kind: kind, label: label, unit: bpc, fs: fsys, files: files, layout: fatLayout(bpc), lite: true}
	if start > 0 {
		regimes = append(regimes, "regime.start-nonzero."+kind)
		if start >= 1<<32 {
			regimes = append(regimes, "regime.device-offset-beyond-4GiB."+kind)
		}
	}
	if frag {
		// evidence that the chains really are fragmented
		for _, f := range files {
			h, e := t.open(f.name)
			if e != nil {
				return nil, e
			}
			ch, e := h.(*fat12.File).GetClusterChain()
			if e != nil {
				return nil, e
			}
			jumps := 0
			for i := 1; i < len(ch); i++ {
				if ch[i] != ch[i-1]+1 {
					jumps++
				}
			}
			if jumps == 0 && len(ch) > 1 {
				return nil, fmt.Errorf("%s: chain of %s is contiguous (%v): the fragmentation regime is not reached", label, f.name, ch)
			}
		}
		regimes = append(regimes, "regime.fat.chain-not-contiguous."+kind)
	}
	t.regimes = regimes
	return t, nil
}

// writeInterleaved grows the files alternately, piece bytes at a time. keepOpen: through handles that stay open
// (ext4); otherwise each piece through a fresh handle positioned at the end (FAT handles rewrite their parent
// directory from a private snapshot - finding fat-stale-parent-snapshot - so they must not overlap in time).
func writeInterleaved(fsys filesystem.FileSystem, files []fileSpec, piece int, keepOpen bool) error {
	hs := make([]filesystem.File, len(files))
	for i, f := range files {
		h, e := fsys.OpenFile(f.name, os.O_CREATE|os.O_RDWR)
		if e != nil {
			return fmt.Errorf("create %s: %w", f.name, e)
		}
		hs[i] = h
		if !keepOpen {
			if e := h.Close(); e != nil {
				return e
			}
		}
	}
	offs := make([]int, len(files))
	for progress := true; progress; {
		progress = false
		for i, f := range files {
			if offs[i] >= len(f.content) {
				continue
			}
			p := piece
			if p > len(f.content)-offs[i] {
				p = len(f.content) - offs[i]
			}
			h := hs[i]
			if !keepOpen {
				var e error
				if h, e = fsys.OpenFile(f.name, os.O_RDWR); e != nil {
					return fmt.Errorf("reopen %s: %w", f.name, e)
				}
				if _, e = h.Seek(0, 2); e != nil {
					return fmt.Errorf("seek to the end of %s: %w", f.name, e)
				}
			}
			n, e := h.Write(f.content[offs[i] : offs[i]+p])
			if e != nil || n != p {
				return fmt.Errorf("interleaved write %s at %d: n=%d err=%v", f.name, offs[i], n, e)
			}
			if !keepOpen {
				if e := h.Close(); e != nil {
					return e
				}
			}
			offs[i] += p
			progress = true
		}
	}
	if keepOpen {
		for _, h := range hs {
			_ = h.Close()
		}
	}
	return nil
}

func buildFat(kind string, r *hx.Rng, thorough bool) (t *target, err error) {
	defer func() {
		if rec := recover(); rec != nil {
			err = fmt.Errorf("panic building %s: %v", kind, rec)
		}
	}()
	var fsys filesystem.FileSystem
	var bpc int
	var dev *memdev.Dev
	switch kind {
	case "fat12":
		dev = memdev.New(1474560) // 1.44 MB floppy
		f, e := fat12.Create(dev, dev.Size(), 0, 512, "C10", true)
		if e != nil {
			return nil, e
		}
		fsys, bpc = f, f.BytesPerCluster()
	case "fat16":
		dev = memdev.New(32 << 20)
		f, e := fat16.Create(dev, dev.Size(), 0, 512, "C10", true)
		if e != nil {
			return nil, e
		}
		fsys, bpc = f, f.BytesPerCluster()
	default:
		dev = memdev.New(64 << 20)
		f, e := fat32.Create(dev, dev.Size(), 0, 512, "C10", true)
		if e != nil {
			return nil, e
		}
		fsys, bpc = f, f.BytesPerCluster()
	}
	files := mkFiles(r, bpc, thorough)
	if err := writeAll(fsys, files, onePiece); err != nil {
		return nil, err
	}
	// hand out handles from a filesystem freshly read from the image, as a user of the image would
	switch kind {
	case "fat12":
		fsys, err = fat12.Read(dev, dev.Size(), 0, 512)
	case "fat16":
		fsys, err = fat16.Read(dev, dev.Size(), 0, 512)
	default:
		fsys, err = fat32.Read(dev, dev.Size(), 0, 512)
	}
	if err != nil {
		return nil, fmt.Errorf("re-reading the %s image: %w", kind, err)
	}
	return &target{kind: kind, label: kind, unit: bpc, fs: fsys, files: files, layout: fatLayout(bpc)}, nil
}

func ext4Layout(f filesystem.File, size int) ([]string, error) {
	bs, sz, exts, ok := ext4.VerifC10Layout(f)
	if !ok {
		return nil, fmt.Errorf("not an open ext4 handle: %T", f)
	}
	if int(sz) != size {
		return nil, fmt.Errorf("ext4 inode size %d, expected %d", sz, size)
	}
	es := "-"
	for i, e := range exts {
		if i == 0 {
			es = ""
		} else {
			es += ","
		}
		es += fmt.Sprintf("%d:%d", e[0], e[1])
	}
	return []string{"fs=ext4", fmt.Sprintf("unit=%d", bs), fmt.Sprintf("size=%d", size), "exts=" + es}, nil
}

// buildExt4 creates an ext4 volume through the library. interleave makes the files grow
// alternately in block-sized pieces, which is what yields handles with more than one extent.
func buildExt4(r *hx.Rng, thorough, interleave bool) (t *target, err error) {
	defer func() {
		if rec := recover(); rec != nil {
			err = fmt.Errorf("panic building ext4: %v", rec)
		}
	}()
	d := memdev.New(32 << 20)
	fsys, e := ext4.Create(d, d.Size(), 0, 512, &ext4.Params{})
	if e != nil {
		return nil, e
	}
	probe, e := fsys.OpenFile("probe.bin", os.O_CREATE|os.O_RDWR)
	if e != nil {
		return nil, e
	}
	if _, e = probe.Write([]byte{1}); e != nil {
		return nil, e
	}
	bs, _, _, ok := ext4.VerifC10Layout(probe)
	if !ok {
		return nil, fmt.Errorf("ext4 layout hook failed")
	}
	_ = probe.Close()
	unit := int(bs)
	files := mkFiles(r, unit, thorough)
	label := "ext4"
	if !interleave {
		if err := writeAll(fsys, files, onePiece); err != nil {
			return nil, err
		}
	} else {
		label = "ext4-interleaved"
		// two files grown alternately, 3 blocks at a time
		files = []fileSpec{
			{name: "a.bin", content: content(r, 9*unit+100, unit, false)},
			{name: "b.bin", content: content(r, 6*unit+1, unit, false)},
		}
		hs := make([]filesystem.File, len(files))
		for i, f := range files {
			h, e := fsys.OpenFile(f.name, os.O_CREATE|os.O_RDWR)
			if e != nil {
				return nil, e
			}
			hs[i] = h
		}
		offs := make([]int, len(files))
		for progress := true; progress; {
			progress = false
			for i, f := range files {
				if offs[i] >= len(f.content) {
					continue
				}
				p := 3 * unit
				if p > len(f.content)-offs[i] {
					p = len(f.content) - offs[i]
				}
				n, e := hs[i].Write(f.content[offs[i] : offs[i]+p])
				if e != nil || n != p {
					return nil, fmt.Errorf("interleaved write %s at %d: n=%d err=%v", f.name, offs[i], n, e)
				}
				offs[i] += p
				progress = true
			}
		}
		for _, h := range hs {
			_ = h.Close()
		}
	}
	rd, e := ext4.Read(d, d.Size(), 0, 512)
	if e != nil {
		return nil, fmt.Errorf("re-reading the ext4 image: %w", e)
	}
	return &target{kind: "ext4", label: label, unit: unit, fs: rd, files: files, layout: ext4Layout}, nil
}

// buildExt4Regime: an ext4 volume that begins `start` bytes into the device, with spb 512-byte sectors per block
// (0 = the library's choice); piece > 0 grows two files alternately piece blocks at a time (piece 1: more than
// four extents per file, i.e. an extent tree with an index level).
func buildExt4Regime(r *hx.Rng, start int64, spb uint8, piece int, label string) (t *target, err error) {
	defer func() {
		if rec := recover(); rec != nil {
			err = fmt.Errorf("panic building %s: %v", label, rec)
		}
	}()
	size := int64(32 << 20)
	if spb >= 8 {
		size = 288 << 20 // three block groups of 4 KiB blocks (Create needs a backup group for the resize inode)
	}
	d := memdev.New(start + size + 4096)
	fsys, e := ext4.Create(d, size, start, 512, &ext4.Params{SectorsPerBlock: spb})
	if e != nil {
		return nil, e
	}
	probe, e := fsys.OpenFile("probe.bin", os.O_CREATE|os.O_RDWR)
	if e != nil {
		return nil, e
	}
	if _, e = probe.Write([]byte{1}); e != nil {
		return nil, e
	}
	bs, _, _, ok := ext4.VerifC10Layout(probe)
	if !ok {
		return nil, fmt.Errorf("ext4 layout hook failed")
	}
	_ = probe.Close()
	unit := int(bs)
	var files []fileSpec
	if piece > 0 {
		files = []fileSpec{
			{name: "a.bin", content: content(r, 13*unit+100, unit, false)},
			{name: "b.bin", content: content(r, 9*unit+1, unit, false)},
		}
		if err := writeInterleaved(fsys, files, piece*unit, true); err != nil {
			return nil, err
		}
	} else {
		files = liteFiles(r, unit)
		if err := writeAll(fsys, files, onePiece); err != nil {
			return nil, err
		}
	}
	rd, e := ext4.Read(d, size, start, 512)
	if e != nil {
		return nil, fmt.Errorf("re-reading the %s image: %w", label, e)
	}
	t = &target{kind: "ext4", label: label, unit: unit, fs: rd, files: files, layout: ext4Layout, lite: true}
	if start > 0 {
		t.regimes = append(t.regimes, "regime.start-nonzero.ext4")
	}
	t.regimes = append(t.regimes, fmt.Sprintf("regime.ext4.blocksize=%d", unit))
	if piece > 0 {
		maxExt := 0
		for _, f := range files {
			h, e := t.open(f.name)
			if e != nil {
				return nil, e
			}
			_, _, exts, _ := ext4.VerifC10Layout(h)
			if len(exts) > maxExt {
				maxExt = len(exts)
			}
		}
		if maxExt > 4 {
			t.regimes = append(t.regimes, "regime.ext4.extents>4-index-level")
		} else {
			t.regimes = append(t.regimes, fmt.Sprintf("regime.ext4.extents=%d", maxExt))
		}
	}
	return t, nil
}

func isoLayout(f filesystem.File, size int) ([]string, error) {
	if _, ok := f.(*iso9660.File); !ok {
		return nil, fmt.Errorf("not an iso9660 handle: %T", f)
	}
	return []string{"fs=iso", "unit=2048", fmt.Sprintf("size=%d", size)}, nil
}

func populateWorkspace(ws string, files []fileSpec) error {
	for _, f := range files {
		if err := os.WriteFile(filepath.Join(ws, f.name), f.content, 0o644); err != nil {
			return err
		}
	}
	return nil
}

func buildIso(scratch string, r *hx.Rng, thorough bool) (t *target, err error) {
	defer func() {
		if rec := recover(); rec != nil {
			err = fmt.Errorf("panic building iso9660: %v", rec)
		}
	}()
	d := memdev.New(16 << 20)
	ws, e := os.MkdirTemp(scratch, "isows")
	if e != nil {
		return nil, e
	}
	defer os.RemoveAll(ws)
	w, e := iso9660.Create(d, d.Size(), 0, 2048, ws)
	if e != nil {
		return nil, e
	}
	files := mkFiles(r, 2048, thorough)
	// 8.3 names so the plain ISO9660 tree carries them unchanged (upper-cased)
	for i := range files {
		files[i].name = fmt.Sprintf("F%02d.BIN", i)
	}
	if e := populateWorkspace(w.Workspace(), files); e != nil {
		return nil, e
	}
	if e := w.Finalize(iso9660.FinalizeOptions{}); e != nil {
		return nil, e
	}
	rd, e := iso9660.Read(d, d.Size(), 0, 2048)
	if e != nil {
		return nil, e
	}
	return &target{kind: "iso9660", label: "iso9660", unit: 2048, fs: rd, files: files, layout: isoLayout}, nil
}

func sqfsLayout(f filesystem.File, size int) ([]string, error) {
	bs, sz, nb, frag, ok := squashfs.VerifC10Layout(f)
	if !ok {
		return nil, fmt.Errorf("not an open squashfs handle: %T", f)
	}
	if int(sz) != size {
		return nil, fmt.Errorf("squashfs inode size %d, expected %d", sz, size)
	}
	fr := 0
	if frag {
		fr = 1
	}
	return []string{"fs=sqfs", fmt.Sprintf("unit=%d", bs), fmt.Sprintf("size=%d", size), fmt.Sprintf("nblocks=%d", nb), fmt.Sprintf("frag=%d", fr)}, nil
}

func buildSqfs(scratch string, r *hx.Rng, thorough bool, blocksize int64, opts squashfs.FinalizeOptions, label string) (t *target, err error) {
	return buildSqfsAt(scratch, r, thorough, blocksize, opts, label, 0, false)
}

// buildSqfsAt: start > 0 puts the image into a partition (the library then goes through backend.Sub);
// lite selects the small file set of the regime targets.
func buildSqfsAt(scratch string, r *hx.Rng, thorough bool, blocksize int64, opts squashfs.FinalizeOptions, label string, start int64, lite bool) (t *target, err error) {
	defer func() {
		if rec := recover(); rec != nil {
			err = fmt.Errorf("panic building squashfs: %v", rec)
		}
	}()
	size := int64(32 << 20)
	d := memdev.New(start + size)
	w, e := squashfs.Create(d, size, start, blocksize)
	if e != nil {
		return nil, e
	}
	defer w.Close() // removes the workspace
	files := mkFiles(r, int(blocksize), thorough)
	if lite {
		files = liteFiles(r, int(blocksize))
	}
	if opts.Compression != nil {
		// a real compressor is in use: make the content of whole blocks alternate between
		// incompressible (random) and compressible (patterned), so that one file mixes stored
		// and compressed blocks in every order, and add files that start with each kind
		for fi := range files {
			c := files[fi].content
			for blk := 0; blk*int(blocksize) < len(c); blk++ {
				if (blk+fi)%2 == 0 {
					continue // keep random
				}
				end := (blk + 1) * int(blocksize)
				if end > len(c) {
					end = len(c)
				}
				for i := blk * int(blocksize); i < end; i++ {
					c[i] = byte('a' + (i/64)%7)
				}
			}
		}
	}
	if e := populateWorkspace(w.Workspace(), files); e != nil {
		return nil, e
	}
	if e := w.Finalize(opts); e != nil {
		return nil, e
	}
	rd, e := squashfs.Read(d, size, start, blocksize)
	if e != nil {
		return nil, e
	}
	t = &target{kind: "squashfs", label: label, unit: int(blocksize), fs: rd, files: files, layout: sqfsLayout, lite: lite}
	if start > 0 {
		t.regimes = append(t.regimes, "regime.start-nonzero.squashfs")
	}
	if lite {
		t.regimes = append(t.regimes, fmt.Sprintf("regime.squashfs.blocksize=%d", blocksize))
	}
	return t, nil
}
