package main

import (
	"os"

	"verif/harness/engines/tblrobust"
	"verif/harness/internal/hx"
)

func main() {
	if len(os.Args) > 1 && os.Args[1] == "tblrobust-child" {
		tblrobust.ChildMain()
		return
	}
	hx.Main("tblrobust", tblrobust.Run)
}
