package main

import (
	"verif/harness/engines/syncfs"
	"verif/harness/internal/hx"
)

func main() { hx.Main("syncfs", syncfs.Run) }
