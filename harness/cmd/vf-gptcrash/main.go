package main

import (
	"verif/harness/facts/gptfacts"
	"verif/harness/internal/fx"
)

func main() { fx.Main(gptfacts.ExtractCrash) }
