package main

import (
	"verif/harness/facts/fat"
	"verif/harness/internal/fx"
)

func main() { fx.Main(fat.Extract) }
