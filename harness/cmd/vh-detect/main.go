package main

import (
	"verif/harness/engines/detect"
	"verif/harness/internal/hx"
)

func main() { hx.Main("detect", detect.Run) }
