package main

import (
	"verif/harness/engines/ext4ref"
	"verif/harness/internal/hx"
)

func main() { hx.Main("ext4ref", ext4ref.Run) }
