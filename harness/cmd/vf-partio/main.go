package main

import (
	"verif/harness/facts/partio"
	"verif/harness/internal/fx"
)

func main() { fx.Main(partio.Extract) }
