// vh-lrurace is the same engine as vh-lru, meant to be built with `go build -race`
// (vh-lru builds it into its scratch directory and runs it as a child with race=1).
package main

import (
	"verif/harness/engines/lru"
	"verif/harness/internal/hx"
)

func main() { hx.Main("lrurace", lru.Run) }
