package main

import (
	"verif/harness/engines/meta"
	"verif/harness/internal/hx"
)

func main() { hx.Main("meta", meta.Run) }
