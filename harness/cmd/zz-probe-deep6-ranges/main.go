package main

import (
	"fmt"
	"os"
	"strconv"

	"github.com/diskfs/go-diskfs/filesystem/ext4"
	"verif/harness/internal/memdev"
)

func main() {
	size, _ := strconv.ParseInt(os.Args[1], 10, 64)
	start, _ := strconv.ParseInt(os.Args[2], 10, 64)
	d := memdev.New(start + size + 1<<20)
	d.KeepData = false
	d.Allowed = []memdev.Range{{Lo: start, Hi: start + size}}
	func() {
		defer func() {
			if e := recover(); e != nil {
				fmt.Println("panic", e)
			}
		}()
		fs, err := ext4.Create(d, size, start, 512, &ext4.Params{})
		fmt.Println("create err:", err)
		if err == nil {
			err = fs.Mkdir("a")
			fmt.Println("mkdir err:", err)
		}
	}()
	fmt.Println("writes", len(d.Log), "out of range", len(d.OutOfRange))
	for i, o := range d.OutOfRange {
		if i < 8 {
			fmt.Printf("  [%d,%d) rel [%d,%d)\n", o.Lo, o.Hi, o.Lo-start, o.Hi-start)
		}
	}
}
