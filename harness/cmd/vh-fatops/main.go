package main

import (
	"verif/harness/engines/fatops"
	"verif/harness/internal/hx"
)

func main() { hx.Main("fatops", fatops.Run) }
