package main

import (
	"verif/harness/engines/gpt"
	"verif/harness/internal/hx"
)

func main() { hx.Main("gpt", gpt.Run) }
