package main

import (
	"verif/harness/facts/readseek"
	"verif/harness/internal/fx"
)

func main() { fx.Main(readseek.Extract) }
