package main

import (
	"verif/harness/facts/readonly"
	"verif/harness/internal/fx"
)

func main() { fx.Main(readonly.Extract) }
