package main

import (
	"verif/harness/engines/parsers"
	"verif/harness/internal/hx"
)

func main() { hx.Main("parsers", parsers.Run) }
