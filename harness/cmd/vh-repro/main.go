package main

import (
	"verif/harness/engines/repro"
	"verif/harness/internal/hx"
)

func main() { hx.Main("repro", repro.Run) }
