package main

import (
	"verif/harness/facts/iso"
	"verif/harness/internal/fx"
)

func main() { fx.Main(iso.Extract) }
