package main

import (
	"os"

	"verif/harness/engines/damage"
	"verif/harness/internal/hx"
)

func main() {
	if len(os.Args) > 1 && os.Args[1] == "--child" {
		damage.ChildMain(os.Args[2:])
		return
	}
	hx.Main("damage", damage.Run)
}
