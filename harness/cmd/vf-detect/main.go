package main

import (
	"verif/harness/facts/detect"
	"verif/harness/internal/fx"
)

func main() { fx.Main(detect.Extract) }
