package main

import (
	"verif/harness/engines/ext4mkfs"
	"verif/harness/internal/hx"
)

func main() { hx.Main("ext4mkfs", ext4mkfs.Run) }
