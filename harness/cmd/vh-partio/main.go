package main

import (
	"verif/harness/engines/partio"
	"verif/harness/internal/hx"
)

func main() { hx.Main("partio", partio.Run) }
