package main

import (
	"verif/harness/engines/ranges"
	"verif/harness/internal/hx"
)

func main() { hx.Main("ranges", ranges.Run) }
