package main

import (
	"verif/harness/engines/fatwalk"
	"verif/harness/internal/hx"
)

func main() { hx.Main("fatwalk", fatwalk.Run) }
