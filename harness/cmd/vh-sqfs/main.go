package main

import (
	"verif/harness/engines/sqfs"
	"verif/harness/internal/hx"
)

func main() { hx.Main("sqfs", sqfs.Run) }
