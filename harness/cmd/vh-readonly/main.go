package main

import (
	"verif/harness/engines/readonly"
	"verif/harness/internal/hx"
)

func main() { hx.Main("readonly", readonly.Run) }
