package main

import (
	"verif/harness/facts/sqfs"
	"verif/harness/internal/fx"
)

func main() { fx.Main(sqfs.Extract) }
