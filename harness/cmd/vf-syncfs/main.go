package main

import (
	"verif/harness/facts/syncfs"
	"verif/harness/internal/fx"
)

func main() { fx.Main(syncfs.Extract) }
