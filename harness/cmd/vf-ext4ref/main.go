package main

import (
	"verif/harness/facts/ext4ref"
	"verif/harness/internal/fx"
)

func main() { fx.Main(ext4ref.Extract) }
