package main

import (
	"verif/harness/facts/ranges"
	"verif/harness/internal/fx"
)

func main() { fx.Main(ranges.Extract) }
