package main

func init() { extractors = append(extractors, factsPartIO) }

// PartIO: arithmetic width of the byte offset / size computations in the four streaming loops.
func factsPartIO() *group {
	g := newGroup("PartIO")
	for _, pk := range []string{"mbr", "gpt"} {
		f := parse("partition/" + pk + "/partition.go")
		for _, fn := range []string{"WriteContents", "ReadContents"} {
			fd := findFunc(f, "Partition", fn)
			for _, v := range []string{"start", "size"} {
				name := pk + fn + "_" + v
				e := assignRHS(fd, v)
				if e == nil {
					if pk == "gpt" && v == "size" && fn == "WriteContents" {
						continue // gpt WriteContents uses p.Size directly
					}
					g.missing(name)
					continue
				}
				g.str(name+"_expr", src(e))
				g.nat(name+"_width", convWidth(e))
			}
		}
	}
	return g
}
