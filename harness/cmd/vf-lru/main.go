package main

import (
	"verif/harness/facts/lru"
	"verif/harness/internal/fx"
)

func main() { fx.Main(lru.Extract) }
