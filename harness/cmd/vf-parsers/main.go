package main

import (
	"verif/harness/facts/parsers"
	"verif/harness/internal/fx"
)

func main() { fx.Main(parsers.Extract) }
