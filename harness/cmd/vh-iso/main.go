package main

import (
	"verif/harness/engines/iso"
	"verif/harness/internal/hx"
)

func main() { hx.Main("iso", iso.Run) }
