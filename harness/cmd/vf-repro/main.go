package main

import (
	"verif/harness/facts/repro"
	"verif/harness/internal/fx"
)

func main() { fx.Main(repro.Extract) }
