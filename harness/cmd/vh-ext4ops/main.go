package main

import (
	"verif/harness/engines/ext4ops"
	"verif/harness/internal/hx"
)

func main() { hx.Main("ext4ops", ext4ops.Run) }
