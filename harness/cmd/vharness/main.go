// vharness runs the real go-diskfs code in-process for one engine and speaks
// the line protocol of DESIGN.md Appendix B on stdout.
package main

import (
	"flag"
	"fmt"
	"os"
	"strings"

	"verif/harness/internal/hx"
)

func main() {
	seed := flag.Uint64("seed", 1, "PRNG seed")
	tier := flag.String("tier", "quick", "quick|thorough")
	only := flag.String("only", "", "run only this case id")
	scratch := flag.String("scratch", "", "scratch directory")
	list := flag.Bool("list", false, "list engines")
	flag.Parse()
	if *list {
		fmt.Println(strings.Join(hx.Names(), "\n"))
		return
	}
	if flag.NArg() < 1 {
		fmt.Fprintln(os.Stderr, "usage: vharness [flags] <engine> [k=v ...]")
		os.Exit(2)
	}
	args := map[string]string{}
	for _, a := range flag.Args()[1:] {
		if k, v, ok := strings.Cut(a, "="); ok {
			args[k] = v
		}
	}
	if *scratch == "" {
		d, err := os.MkdirTemp("", "vharness")
		if err != nil {
			panic(err)
		}
		defer os.RemoveAll(d)
		*scratch = d
	}
	os.Setenv("TMPDIR", *scratch)
	if err := hx.Run(flag.Arg(0), *seed, *tier, *only, *scratch, args); err != nil {
		fmt.Fprintln(os.Stderr, err)
		os.Exit(2)
	}
}
