package main

import _ "verif/harness/engines"
