package main

import (
	"verif/harness/engines/readseek"
	"verif/harness/internal/hx"
)

func main() { hx.Main("readseek", readseek.Run) }
