package main

import (
	"verif/harness/facts/robust"
	"verif/harness/internal/fx"
)

func main() { fx.Main(robust.Extract) }
