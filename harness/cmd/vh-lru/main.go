package main

import (
	"verif/harness/engines/lru"
	"verif/harness/internal/hx"
)

func main() { hx.Main("lru", lru.Run) }
