package main

import (
	"verif/harness/facts/meta"
	"verif/harness/internal/fx"
)

func main() { fx.Main(meta.Extract) }
