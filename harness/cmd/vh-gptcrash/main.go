package main

import (
	"verif/harness/engines/gptcrash"
	"verif/harness/internal/hx"
)

func main() { hx.Main("gptcrash", gptcrash.Run) }
