// Package ext4ref extracts the facts the C20 model is defined over / pinned to:
// the xattr prefix table, feature-bit constants, which feature bits ext4.Read refuses,
// the minimum inode length inodeFromBytes accepts, the arithmetic width of the directory
// entry name bound, and whether empty xattr values are kept.
package ext4ref

import (
	"go/ast"
	"go/token"
	"strconv"
	"strings"

	"verif/harness/internal/fx"
)

// consts collects integer constants of a file (ident -> value), resolving simple sums of earlier constants.
func consts(f *ast.File, into map[string]int64) {
	if f == nil {
		return
	}
	for _, d := range f.Decls {
		gd, ok := d.(*ast.GenDecl)
		if !ok || gd.Tok != token.CONST {
			continue
		}
		for _, s := range gd.Specs {
			vs := s.(*ast.ValueSpec)
			for i, n := range vs.Names {
				if i < len(vs.Values) {
					if v, ok := eval(vs.Values[i], into); ok {
						into[n.Name] = v
					}
				}
			}
		}
	}
}

func eval(e ast.Expr, env map[string]int64) (int64, bool) {
	switch x := e.(type) {
	case *ast.BasicLit:
		if x.Kind == token.INT {
			v, err := strconv.ParseInt(x.Value, 0, 64)
			return v, err == nil
		}
	case *ast.Ident:
		v, ok := env[x.Name]
		return v, ok
	case *ast.ParenExpr:
		return eval(x.X, env)
	case *ast.CallExpr: // conversion T(x)
		if len(x.Args) == 1 {
			return eval(x.Args[0], env)
		}
	case *ast.BinaryExpr:
		a, ok1 := eval(x.X, env)
		b, ok2 := eval(x.Y, env)
		if ok1 && ok2 {
			switch x.Op {
			case token.ADD:
				return a + b, true
			case token.SUB:
				return a - b, true
			case token.MUL:
				return a * b, true
			}
		}
	}
	return 0, false
}

// refusesOn: does fn contain an if statement whose condition mentions `needle` and whose body returns a non-nil error?
func refusesOn(fn *ast.FuncDecl, needle string) bool {
	if fn == nil {
		return false
	}
	found := false
	ast.Inspect(fn.Body, func(n ast.Node) bool {
		is, ok := n.(*ast.IfStmt)
		if !ok || !strings.Contains(fx.Src(is.Cond), needle) {
			return true
		}
		for _, st := range is.Body.List {
			if r, ok := st.(*ast.ReturnStmt); ok && len(r.Results) > 0 {
				last := fx.Src(r.Results[len(r.Results)-1])
				if last != "nil" {
					found = true
				}
			}
		}
		return true
	})
	return found
}

func Extract() *fx.Group {
	g := fx.NewGroup("Ext4Ref")
	env := map[string]int64{}
	xf := fx.Parse("filesystem/ext4/xattr.go")
	sf := fx.Parse("filesystem/ext4/superblock.go")
	inf := fx.Parse("filesystem/ext4/inode.go")
	df := fx.Parse("filesystem/ext4/directoryentry.go")
	ef := fx.Parse("filesystem/ext4/ext4.go")
	for _, f := range []*ast.File{xf, sf, inf} {
		consts(f, env)
	}
	// --- xattr prefix table (parameter)
	var idx []int64
	var strs []string
	okTbl := false
	if xf != nil {
		for _, d := range xf.Decls {
			gd, ok := d.(*ast.GenDecl)
			if !ok || gd.Tok != token.VAR {
				continue
			}
			for _, s := range gd.Specs {
				vs := s.(*ast.ValueSpec)
				if len(vs.Names) != 1 || vs.Names[0].Name != "xattrPrefixes" || len(vs.Values) != 1 {
					continue
				}
				cl, ok := vs.Values[0].(*ast.CompositeLit)
				if !ok {
					continue
				}
				okTbl = true
				for _, el := range cl.Elts {
					kv, ok := el.(*ast.KeyValueExpr)
					if !ok {
						okTbl = false
						continue
					}
					k, ok1 := eval(kv.Key, env)
					lit, ok2 := kv.Value.(*ast.BasicLit)
					if !ok1 || !ok2 || lit.Kind != token.STRING {
						okTbl = false
						continue
					}
					sv, _ := strconv.Unquote(lit.Value)
					idx = append(idx, k)
					strs = append(strs, sv)
				}
			}
		}
	}
	if okTbl {
		g.Nats("xattrPrefixIdx", idx)
		g.Strs("xattrPrefixStr", strs)
	} else {
		g.Missing("xattrPrefixes")
		g.Nats("xattrPrefixIdx", nil)
		g.Strs("xattrPrefixStr", nil)
	}
	// --- constants the model repeats (pins)
	for _, c := range []string{"incompatFeatureExtents", "incompatFeature64Bit", "incompatFeatureDataInInode", "roCompatFeatureMetadataChecksums",
		"superblockSignature", "extentHeaderSignature", "xattrMagic", "xattrHeaderSize", "xattrEntrySize", "checkSumTypeCRC32c", "ext2InodeSize"} {
		if c == "extentHeaderSignature" {
			consts(fx.Parse("filesystem/ext4/extent.go"), env)
		}
		if v, ok := env[c]; ok {
			g.Nat(c, v)
		} else {
			g.Missing(c)
			g.Nat(c, 0)
		}
	}
	// --- which feature bits ext4.Read refuses
	rd := fx.FindFunc(ef, "", "Read")
	if rd == nil {
		g.Missing("Read")
	}
	sbf := fx.FindFunc(sf, "", "superblockFromBytes")
	g.Bool("gateRequiresExtents", refusesOn(rd, "features.extents") || refusesOn(sbf, "features.extents"))
	g.Bool("gateRefusesInlineData", refusesOn(rd, "features.dataInInode") || refusesOn(sbf, "features.dataInInode"))
	// --- the feature gate as a decision table: every feature bit parseFeatureFlags names (features.go), and which of
	// them ext4.Read refuses when set (`if sb.features.f { return nil, err }`) or requires (`if !sb.features.f {…}`)
	gateTable(g, fx.Parse("filesystem/ext4/features.go"), rd, sbf, env)
	// --- minimum inode length accepted by inodeFromBytes: `if len(b) < int(X)`
	ifb := fx.FindFunc(inf, "", "inodeFromBytes")
	minLen := int64(-1)
	if ifb != nil {
		ast.Inspect(ifb.Body, func(n ast.Node) bool {
			if minLen >= 0 {
				return false
			}
			is, ok := n.(*ast.IfStmt)
			if !ok {
				return true
			}
			// the first `len(b) < K` comparison inside the condition
			ast.Inspect(is.Cond, func(m ast.Node) bool {
				be, ok := m.(*ast.BinaryExpr)
				if !ok || minLen >= 0 {
					return minLen < 0
				}
				if be.Op == token.LSS && fx.Src(be.X) == "len(b)" {
					if v, ok := eval(be.Y, env); ok {
						minLen = v
						return false
					}
				}
				return true
			})
			return true
		})
	}
	if minLen < 0 {
		g.Missing("inodeMinLen")
		minLen = 0
	}
	g.Nat("inodeMinLen", minLen)
	// --- does inodeFromBytes take the words of the extra area (the extra timestamp words, the creation time)
	// straight from the record, whatever i_extra_isize says?
	unguarded := true
	if ifb != nil {
		for _, v := range []string{"accessTimeExtra", "changeTimeExtra", "modifyTimeExtra", "createTimeExtra", "createTimeSeconds"} {
			rhs := fx.AssignRHS(ifb, v)
			if rhs == nil {
				g.Missing("inodeFromBytes " + v)
				continue
			}
			if !strings.Contains(fx.Src(rhs), "binary.LittleEndian.Uint32(b[") {
				unguarded = false
			}
		}
	}
	g.Bool("inodeExtraWordsUnguarded", unguarded)
	// --- directoryEntryFromBytes: is the end of the name computed wider than uint8?
	dfb := fx.FindFunc(df, "", "directoryEntryFromBytes")
	wide, foundName := false, false
	if dfb != nil {
		ast.Inspect(dfb.Body, func(n ast.Node) bool {
			se, ok := n.(*ast.SliceExpr)
			if !ok || se.High == nil || !strings.Contains(fx.Src(se.High), "nameLength") {
				return true
			}
			foundName = true
			h := fx.Src(se.High)
			g.Str("dirNameHighExpr", h)
			wide = strings.Contains(h, "int(") || strings.Contains(h, "int64(") || strings.Contains(h, "uint16(") || strings.Contains(h, "uint32(")
			return false
		})
	}
	if !foundName {
		g.Missing("dirNameHighExpr")
	}
	g.Bool("dirNameLenWide", wide)
	// --- parseXattrEntries: are empty values stored?
	pxe := fx.FindFunc(xf, "", "parseXattrEntries")
	assigns, guarded := 0, 0
	if pxe == nil {
		g.Missing("parseXattrEntries")
	} else {
		var walk func(n ast.Node, underGuard bool)
		walk = func(n ast.Node, underGuard bool) {
			ast.Inspect(n, func(m ast.Node) bool {
				switch x := m.(type) {
				case *ast.IfStmt:
					if m == n {
						return true
					}
					isGuard := strings.Contains(fx.Src(x.Cond), "valueSize > 0") && x.Else == nil
					walk(x.Body, underGuard || isGuard)
					if x.Else != nil {
						walk(x.Else, underGuard)
					}
					return false
				case *ast.AssignStmt:
					for _, l := range x.Lhs {
						if strings.HasPrefix(fx.Src(l), "result[") {
							assigns++
							if underGuard {
								guarded++
							}
						}
					}
				}
				return true
			})
		}
		walk(pxe.Body, false)
	}
	g.Nat("xattrAssigns", int64(assigns))
	g.Bool("xattrKeepEmpty", assigns > 0 && guarded < assigns)
	deepFacts(g, ef)
	specFacts(g, ef)
	return g
}

// specFacts: pins for the SPEC reader (Model/Ext4/SpecGeom.lean, ImageSpec.lean).
//
//	readChecks                 the conditions under which ext4.Read refuses a decoded superblock as invalid, in source
//	                           order (Spec.readAccepts is their mirror; the addressing theorems assume them)
//	dirEntryInfoModeFromType   does DirEntry.Info() build its mode from the directory entry's type alone (as found:
//	                           permission bits are missing), or from the inode?
func specFacts(g *fx.Group, ef *ast.File) {
	rd := fx.FindFunc(ef, "", "Read")
	var checks []string
	if rd == nil {
		g.Missing("ext4.Read")
	} else {
		ast.Inspect(rd.Body, func(n ast.Node) bool {
			is, ok := n.(*ast.IfStmt)
			if !ok {
				return true
			}
			body := fx.Src(is.Body)
			if strings.Contains(body, "invalid superblock") || strings.Contains(body, "Group Descriptor Table size is zero") {
				checks = append(checks, strings.Join(strings.Fields(fx.Src(is.Cond)), " "))
			}
			return true
		})
	}
	g.Strs("readChecks", checks)
	df := fx.Parse("filesystem/ext4/directoryentry.go")
	info := fx.FindFunc(df, "directoryEntryInfo", "Info")
	fromType := false
	if info == nil {
		g.Missing("directoryEntryInfo.Info")
	} else {
		// the value of the `mode:` field of the returned FileInfo, resolved through one local variable
		var modeExpr ast.Expr
		ast.Inspect(info.Body, func(n ast.Node) bool {
			if kv, ok := n.(*ast.KeyValueExpr); ok && fx.Src(kv.Key) == "mode" {
				modeExpr = kv.Value
			}
			return true
		})
		if id, ok := modeExpr.(*ast.Ident); ok {
			if rhs := fx.AssignRHS(info, id.Name); rhs != nil {
				modeExpr = rhs
			}
		}
		if modeExpr == nil {
			g.Missing("directoryEntryInfo.Info mode")
		} else {
			src := fx.Src(modeExpr)
			fromType = strings.Contains(src, "Type()") && !strings.Contains(src, "permissionsToMode")
		}
	}
	g.Bool("dirEntryInfoModeFromType", fromType)
}

// deepFacts: pins for the mirrors of File.Read (file.go), groupDescriptorFromBytes and readInodeRaw.
func deepFacts(g *fx.Group, ef *ast.File) {
	ff := fx.Parse("filesystem/ext4/file.go")
	gf := fx.Parse("filesystem/ext4/groupdescriptors.go")
	// --- File.Read: the skip test in front of the extent loop uses <=, and holes are cleared in two places
	rd := fx.FindFunc(ff, "File", "Read")
	skipLe, foundSkip := false, false
	clears := 0
	if rd == nil {
		g.Missing("File.Read")
	} else {
		ast.Inspect(rd.Body, func(n ast.Node) bool {
			switch x := n.(type) {
			case *ast.IfStmt:
				if len(x.Body.List) == 1 {
					if br, ok := x.Body.List[0].(*ast.BranchStmt); ok && br.Tok == token.CONTINUE && !foundSkip {
						if be, ok := x.Cond.(*ast.BinaryExpr); ok {
							foundSkip = true
							skipLe = be.Op == token.LEQ
						}
					}
				}
			case *ast.CallExpr:
				if id, ok := x.Fun.(*ast.Ident); ok && id.Name == "clear" {
					clears++
				}
			}
			return true
		})
		if !foundSkip {
			g.Missing("File.Read skip test")
		}
	}
	g.Bool("readSkipLe", skipLe)
	g.Nat("readClears", int64(clears))
	// --- File.Read passes over an extent that lies wholly before the offset reached: `if leftInExtent < 0 { continue }`
	skipsBefore := false
	if rd != nil {
		ast.Inspect(rd.Body, func(n ast.Node) bool {
			is, ok := n.(*ast.IfStmt)
			if !ok || is.Init != nil {
				return true
			}
			be, ok := is.Cond.(*ast.BinaryExpr)
			if !ok || be.Op != token.LSS || fx.Src(be.X) != "leftInExtent" || fx.Src(be.Y) != "0" {
				return true
			}
			for _, st := range is.Body.List {
				if br, ok := st.(*ast.BranchStmt); ok && br.Tok == token.CONTINUE {
					skipsBefore = true
				}
			}
			return true
		})
	}
	g.Bool("readSkipsExtentBefore", skipsBefore)
	// --- groupDescriptorFromBytes: the descriptor size at which the high halves are read
	gfb := fx.FindFunc(gf, "", "groupDescriptorFromBytes")
	wide := int64(-1)
	if gfb != nil {
		ast.Inspect(gfb.Body, func(n ast.Node) bool {
			is, ok := n.(*ast.IfStmt)
			if !ok || wide >= 0 {
				return wide < 0
			}
			if be, ok := is.Cond.(*ast.BinaryExpr); ok && be.Op == token.EQL && fx.Src(be.X) == "gdSize" {
				if v, ok := eval(be.Y, map[string]int64{}); ok {
					wide = v
				}
			}
			return true
		})
	}
	if wide < 0 {
		g.Missing("groupDescriptorFromBytes wide size")
		wide = 0
	}
	g.Nat("gdWideSize", wide)
	// --- readInodeRaw: group by division, slot by remainder of (inodeNumber - 1), 32-bit slot offset
	rir := fx.FindFunc(ef, "FileSystem", "readInodeRaw")
	if rir == nil {
		g.Missing("readInodeRaw")
	}
	bg := fx.AssignRHS(rir, "bg")
	oi := fx.AssignRHS(rir, "offsetInode")
	of := fx.AssignRHS(rir, "offset")
	isOp := func(e ast.Expr, op token.Token) bool {
		be, ok := e.(*ast.BinaryExpr)
		return ok && be.Op == op && strings.Contains(fx.Src(be.X), "inodeNumber - 1") && fx.Src(be.Y) == "inodesPerGroup"
	}
	g.Bool("inodeGroupByDiv", bg != nil && isOp(bg, token.QUO))
	g.Bool("inodeSlotByMod", oi != nil && isOp(oi, token.REM))
	w := int64(0)
	if of != nil {
		if be, ok := of.(*ast.BinaryExpr); ok && be.Op == token.MUL {
			w = fx.ConvWidth(be.Y)
		}
	}
	g.Nat("inodeSlotOffsetWidth", w)
	// --- extentLeafNode.blocks: does it refuse unwritten extents (an error return inside a loop over the extents)?
	xf := fx.Parse("filesystem/ext4/extent.go")
	lb := fx.FindFunc(xf, "extentLeafNode", "blocks")
	refuses := false
	if lb == nil {
		g.Missing("extentLeafNode.blocks")
	} else {
		refuses = refusesOn(lb, "count")
	}
	g.Bool("extentRefusesUnwritten", refuses)
}

// gateTable: names and values of the feature bits, and the open decision on them.
func gateTable(g *fx.Group, ff *ast.File, rd, sbf *ast.FuncDecl, env map[string]int64) {
	type bit struct {
		field string
		value int64
	}
	words := map[string][]bit{}
	pf := fx.FindFunc(ff, "", "parseFeatureFlags")
	if pf == nil {
		g.Missing("parseFeatureFlags")
	} else {
		ast.Inspect(pf.Body, func(n ast.Node) bool {
			kv, ok := n.(*ast.KeyValueExpr)
			if !ok {
				return true
			}
			call, ok := kv.Value.(*ast.CallExpr)
			if !ok || len(call.Args) != 1 {
				return true
			}
			sel, ok := call.Fun.(*ast.SelectorExpr)
			if !ok || sel.Sel.Name != "included" {
				return true
			}
			v, ok := eval(sel.X, env)
			if !ok {
				g.Missing("feature constant " + fx.Src(sel.X))
				return true
			}
			w := fx.Src(call.Args[0])
			words[w] = append(words[w], bit{fx.Src(kv.Key), v})
			return true
		})
	}
	cond := func(fn *ast.FuncDecl, want string) bool {
		if fn == nil {
			return false
		}
		found := false
		ast.Inspect(fn.Body, func(n ast.Node) bool {
			is, ok := n.(*ast.IfStmt)
			if !ok || is.Init != nil || fx.Src(is.Cond) != want {
				return true
			}
			for _, st := range is.Body.List {
				if r, ok := st.(*ast.ReturnStmt); ok && len(r.Results) > 0 && fx.Src(r.Results[len(r.Results)-1]) != "nil" {
					found = true
				}
			}
			return true
		})
		return found
	}
	for _, w := range [][2]string{{"incompatFlags", "Incompat"}, {"roCompatFlags", "RoCompat"}, {"compatFlags", "Compat"}} {
		var names []string
		var vals, refused, required []int64
		for _, b := range words[w[0]] {
			names = append(names, b.field)
			vals = append(vals, b.value)
			if cond(rd, "sb.features."+b.field) || cond(sbf, "features."+b.field) {
				refused = append(refused, b.value)
			}
			if cond(rd, "!sb.features."+b.field) || cond(sbf, "!features."+b.field) {
				required = append(required, b.value)
			}
		}
		g.Strs("feat"+w[1]+"Names", names)
		g.Nats("feat"+w[1]+"Bits", vals)
		g.Nats("gate"+w[1]+"Refused", refused)
		g.Nats("gate"+w[1]+"Required", required)
	}
}
