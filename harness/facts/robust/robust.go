// Package robust extracts the C18 pins: the FAT chain walk carries a length bound, and every FAT
// Read validates the BPB geometry (a CheckGeometry call) before the first division.
package robust

import (
	"go/ast"
	"go/token"
	"strings"

	"verif/harness/internal/fx"
)

func Extract() *fx.Group {
	g := fx.NewGroup("Robust")
	// 1. getClusterList: a comparison whose one side is len(clusterList) (any operator, any bound expression)
	f := fx.Parse("filesystem/fat12/fat12.go")
	fd := fx.FindFunc(f, "FileSystem", "getClusterList")
	if fd == nil {
		g.Missing("fatWalkBounded")
	} else {
		bounded := false
		ast.Inspect(fd.Body, func(n ast.Node) bool {
			be, ok := n.(*ast.BinaryExpr)
			if !ok {
				return true
			}
			switch be.Op {
			case token.GTR, token.GEQ, token.LSS, token.LEQ:
				s := fx.Src(be.X) + " " + fx.Src(be.Y)
				if strings.Contains(s, "len(") && strings.Contains(s, "MaxCluster") {
					bounded = true
				}
			}
			return true
		})
		g.Bool("fatWalkBounded", bounded)
	}
	// 2. each Read: a call to CheckGeometry precedes the first division / remainder
	for _, pk := range []string{"fat12", "fat16", "fat32"} {
		f := fx.Parse("filesystem/" + pk + "/" + pk + ".go")
		fd := fx.FindFunc(f, "", "Read")
		name := pk + "ReadChecked"
		if fd == nil {
			g.Missing(name)
			continue
		}
		var checkPos, divPos token.Pos
		ast.Inspect(fd.Body, func(n ast.Node) bool {
			switch x := n.(type) {
			case *ast.CallExpr:
				if strings.HasSuffix(fx.Src(x.Fun), "CheckGeometry") && checkPos == 0 {
					checkPos = x.Pos()
				}
			case *ast.BinaryExpr:
				if (x.Op == token.QUO || x.Op == token.REM) && divPos == 0 {
					divPos = x.Pos()
				}
			}
			return true
		})
		g.Bool(name, checkPos != 0 && (divPos == 0 || checkPos < divPos))
	}
	return g
}
