// Package lru extracts the facts of property C17 from filesystem/squashfs/lru.go:
// the ordered skeleton (lock/unlock/fetch/list/map operations with their branch
// structure) of get, setMaxBlocks, add, trim, pop, push, unlink, in a normalised
// vocabulary so that renaming a local or a parameter does not change a fact while
// moving l.mu.Unlock() in front of block.mu.Lock() does.
//
// Normalised names: method receiver -> l; the variable assigned from the map lookup,
// from l.pop(), from l.root.prev, or the *lruBlock parameter -> block; the lookup's
// second result -> found; get's parameters -> pos, fetch; get's named results ->
// data, size, err; the int parameter of trim/setMaxBlocks -> maxBlocks; the variable
// assigned from l.root.next -> oldHead.
package lru

import (
	"go/ast"
	"go/token"
	"sort"
	"strconv"

	"verif/harness/internal/fx"
)

const file = "filesystem/squashfs/lru.go"

type fn struct {
	fd              *ast.FuncDecl
	recv            string
	stores          []string
	slack           int64
	slackOK         bool
	nilGuardFetches bool
}

func rename(id *ast.Ident, to string) {
	if id == nil || id.Name == "_" {
		return
	}
	obj := id.Obj
	id.Name = to
	if obj == nil {
		return
	}
	obj.Name = to
}

// apply renames to every identifier of the body that resolves to a renamed object
func applyObjNames(fd *ast.FuncDecl) {
	ast.Inspect(fd, func(n ast.Node) bool {
		if id, ok := n.(*ast.Ident); ok && id.Obj != nil && id.Obj.Kind == ast.Var {
			id.Name = id.Obj.Name
		}
		return true
	})
}

func isSel(e ast.Expr, path ...string) bool {
	// isSel(e, "l", "root", "prev") matches l.root.prev
	for i := len(path) - 1; i >= 1; i-- {
		s, ok := e.(*ast.SelectorExpr)
		if !ok || s.Sel.Name != path[i] {
			return false
		}
		e = s.X
	}
	id, ok := e.(*ast.Ident)
	return ok && id.Name == path[0]
}

func normalise(fd *ast.FuncDecl) {
	if fd.Recv != nil && len(fd.Recv.List) > 0 && len(fd.Recv.List[0].Names) > 0 {
		rename(fd.Recv.List[0].Names[0], "l")
	}
	var params []*ast.Field
	if fd.Type.Params != nil {
		params = fd.Type.Params.List
	}
	pi := 0
	for _, p := range params {
		for _, nm := range p.Names {
			tsrc := fx.Src(p.Type)
			switch {
			case tsrc == "*lruBlock":
				rename(nm, "block")
			case tsrc == "int":
				rename(nm, "maxBlocks")
			case fd.Name.Name == "get" && pi == 0:
				rename(nm, "pos")
			case fd.Name.Name == "get" && pi == 1:
				rename(nm, "fetch")
			}
			pi++
		}
	}
	if fd.Name.Name == "get" && fd.Type.Results != nil {
		want := []string{"data", "size", "err"}
		ri := 0
		for _, r := range fd.Type.Results.List {
			for _, nm := range r.Names {
				if ri < len(want) {
					rename(nm, want[ri])
				}
				ri++
			}
		}
	}
	applyObjNames(fd)
	// locals, by what they are assigned from
	ast.Inspect(fd.Body, func(n ast.Node) bool {
		as, ok := n.(*ast.AssignStmt)
		if !ok || len(as.Rhs) != 1 {
			return true
		}
		lhs0, _ := as.Lhs[0].(*ast.Ident)
		switch r := as.Rhs[0].(type) {
		case *ast.IndexExpr:
			if isSel(r.X, "l", "cache") && lhs0 != nil {
				rename(lhs0, "block")
				if len(as.Lhs) == 2 {
					if id, ok := as.Lhs[1].(*ast.Ident); ok {
						rename(id, "found")
					}
				}
			}
		case *ast.CallExpr:
			if isSel(r.Fun, "l", "pop") && lhs0 != nil {
				rename(lhs0, "block")
			}
		case *ast.SelectorExpr:
			if isSel(r, "l", "root", "prev") && lhs0 != nil {
				rename(lhs0, "block")
			}
			if isSel(r, "l", "root", "next") && lhs0 != nil {
				rename(lhs0, "oldHead")
			}
		}
		applyObjNames(fd)
		return true
	})
	applyObjNames(fd)
}

func callName(e ast.Expr) (recv, name string) {
	switch f := e.(type) {
	case *ast.Ident:
		return "", f.Name
	case *ast.SelectorExpr:
		return fx.Src(f.X), f.Sel.Name
	}
	return "", ""
}

// label of a tracked call, "" if the call is not tracked
func (f *fn) callLabel(ce *ast.CallExpr) string {
	recv, name := callName(ce.Fun)
	switch {
	case name == "Lock" || name == "Unlock":
		return recv + "." + name
	case recv == "" && name == "fetch":
		return "fetch()"
	case recv == "" && name == "panic":
		return "panic"
	case recv == "" && name == "delete":
		return fx.Src(ce)
	case recv == "l" && name == "trim" && f.fd.Name.Name == "add":
		// l.trim(l.maxBlocks - k): k is a parameter fact
		if len(ce.Args) == 1 {
			if isSel(ce.Args[0], "l", "maxBlocks") {
				f.slack, f.slackOK = 0, true
				return "l.trim(l.maxBlocks - k)"
			}
			if be, ok := ce.Args[0].(*ast.BinaryExpr); ok && be.Op == token.SUB && isSel(be.X, "l", "maxBlocks") {
				if bl, ok := be.Y.(*ast.BasicLit); ok && bl.Kind == token.INT {
					if v, err := strconv.ParseInt(bl.Value, 0, 64); err == nil && v >= 0 {
						f.slack, f.slackOK = v, true
						return "l.trim(l.maxBlocks - k)"
					}
				}
			}
		}
		return fx.Src(ce)
	case recv == "l" && (name == "add" || name == "trim" || name == "pop" || name == "push" || name == "unlink"):
		return fx.Src(ce)
	}
	return ""
}

func (f *fn) stmts(list []ast.Stmt, out *[]string) {
	for _, s := range list {
		f.stmt(s, out)
	}
}

func (f *fn) stmt(s ast.Stmt, out *[]string) {
	emit := func(x string) { *out = append(*out, x) }
	switch st := s.(type) {
	case *ast.ExprStmt:
		if ce, ok := st.X.(*ast.CallExpr); ok {
			if l := f.callLabel(ce); l != "" {
				emit(l)
			}
		}
	case *ast.DeferStmt:
		if l := f.callLabel(st.Call); l != "" {
			emit("defer " + l)
		}
	case *ast.AssignStmt:
		if len(st.Rhs) == 1 {
			switch r := st.Rhs[0].(type) {
			case *ast.IndexExpr:
				if isSel(r.X, "l", "cache") {
					emit("lookup " + fx.Src(r))
					return
				}
			case *ast.CallExpr:
				if l := f.callLabel(r); l != "" {
					if l == "fetch()" {
						emit(l)
					} else {
						emit(fx.Src(st))
					}
					return
				}
			case *ast.UnaryExpr:
				if cl, ok := r.X.(*ast.CompositeLit); ok && r.Op == token.AND && fx.Src(cl.Type) == "lruBlock" {
					emit("new block")
					return
				}
			}
		}
		if len(st.Lhs) == 1 {
			switch l := st.Lhs[0].(type) {
			case *ast.IndexExpr:
				if isSel(l.X, "l", "cache") {
					emit(fx.Src(st))
					return
				}
			case *ast.SelectorExpr:
				if f.fd.Name.Name == "get" {
					if len(f.stores) == 0 {
						emit("store")
					}
					f.stores = append(f.stores, fx.Src(st))
					return
				}
				emit(fx.Src(st))
				return
			case *ast.Ident:
				if _, ok := st.Rhs[0].(*ast.SelectorExpr); ok && (f.fd.Name.Name == "pop" || f.fd.Name.Name == "push") {
					emit(fx.Src(st))
				}
			}
		}
	case *ast.IfStmt:
		if be, ok := st.Cond.(*ast.BinaryExpr); ok && be.Op == token.EQL && fx.Src(be.X) == "l" && fx.Src(be.Y) == "nil" {
			// `if l == nil { return fetch() }`: no cache, no locks; recorded separately
			var inner []string
			f.stmts(st.Body.List, &inner)
			f.nilGuardFetches = len(inner) == 1 && inner[0] == "return fetch()"
			return
		}
		emit("if " + fx.Src(st.Cond))
		f.stmts(st.Body.List, out)
		if st.Else != nil {
			emit("else")
			switch e := st.Else.(type) {
			case *ast.BlockStmt:
				f.stmts(e.List, out)
			default:
				f.stmt(e, out)
			}
		}
		emit("endif")
	case *ast.ForStmt:
		c := ""
		if st.Cond != nil {
			c = fx.Src(st.Cond)
		}
		emit("for " + c)
		f.stmts(st.Body.List, out)
		emit("endfor")
	case *ast.RangeStmt:
		emit("range " + fx.Src(st.X))
		f.stmts(st.Body.List, out)
		emit("endfor")
	case *ast.BlockStmt:
		f.stmts(st.List, out)
	case *ast.ReturnStmt:
		if len(st.Results) == 0 {
			emit("return")
		} else {
			emit("return " + fx.Src(st.Results[0]))
		}
	case *ast.GoStmt:
		emit("go " + fx.Src(st.Call.Fun))
	}
}

func Extract() *fx.Group {
	g := fx.NewGroup("Lru")
	af := fx.Parse(file)
	slackDone := false
	for _, name := range []string{"get", "setMaxBlocks", "add", "trim", "pop", "push", "unlink"} {
		fd := fx.FindFunc(af, "lru", name)
		if fd == nil || fd.Body == nil {
			g.Missing(name + "Skeleton")
			continue
		}
		normalise(fd)
		f := &fn{fd: fd}
		var out []string
		f.stmts(fd.Body.List, &out)
		g.Strs(name+"Skeleton", out)
		if name == "get" {
			sort.Strings(f.stores)
			g.Strs("getStores", f.stores)
			g.Bool("getNilReceiverJustFetches", f.nilGuardFetches)
		}
		if name == "add" {
			slackDone = true
			if f.slackOK {
				g.Nat("addTrimSlack", f.slack)
			} else {
				g.Nat("addTrimSlack", 0)
				g.Missing("addTrimSlack")
			}
		}
	}
	if !slackDone {
		g.Nat("addTrimSlack", 0)
		g.Missing("addTrimSlack")
	}
	// the only places the cache fields are touched outside lru.go's methods: squashfs.go
	// (GetCacheSize reads maxBlocks without the lock — outside the model, see the manifest note)
	sq := fx.Parse("filesystem/squashfs/squashfs.go")
	if fd := fx.FindFunc(sq, "FileSystem", "SetCacheSize"); fd != nil {
		g.Strs("setCacheSizeCalls", fx.CallLabels(fd, map[string]bool{"setMaxBlocks": true}))
	} else {
		g.Missing("setCacheSizeCalls")
	}
	sharedFacts(g)
	return g
}
