package lru

// Facts about what is SHARED between readers of one squashfs image (second half of C17's facts):
//
//	fsFieldWriters        every function of the package that assigns to a field of a FileSystem,
//	                      as "func:field" (the model has no such state besides the LRU)
//	packageVars           package-level variables (none: nothing global to write)
//	syncAndUnsafeUses     sync.X / unsafe.X selectors used anywhere in the package (sync.Mutex only:
//	                      no sync.Pool, no sync.Map, no atomics, no unsafe)
//	handleFieldWriters    the File fields Read / Seek / Close assign: the model's handle state
//	readBlockBuffers      where the slice readBlock returns comes from (fresh allocations only)
//	cachedSliceUses /     def-use scan of every slice that comes out of the cache (first result of
//	cachedSliceWrites     fs.cache.get, readMetaBlock, readFragment, followed through slicing, local
//	                      copies, closures and calls of package functions): how it is used, and the
//	                      uses that are not read-only (must be none)
//
// go/ast only (no type information): a FileSystem is recognised as the receiver or a parameter
// declared `*FileSystem`, a selector ending in `.filesystem` / `.fs`, or a local assigned from one.

import (
	"go/ast"
	"go/token"
	"os"
	"path/filepath"
	"sort"
	"strings"

	"verif/harness/internal/fx"
)

const pkgDir = "filesystem/squashfs"

func pkgFiles() []string {
	ents, err := os.ReadDir(filepath.Join(fx.Repo(), pkgDir))
	if err != nil {
		return nil
	}
	var out []string
	for _, e := range ents {
		n := e.Name()
		if !strings.HasSuffix(n, ".go") || strings.HasSuffix(n, "_test.go") || strings.HasPrefix(n, "zz_verif_") || strings.HasPrefix(n, "zz_mutant") {
			continue
		}
		out = append(out, pkgDir+"/"+n)
	}
	sort.Strings(out)
	return out
}

func uniqSorted(in []string) []string {
	m := map[string]bool{}
	for _, s := range in {
		m[s] = true
	}
	out := make([]string, 0, len(m))
	for s := range m {
		out = append(out, s)
	}
	sort.Strings(out)
	return out
}

func typeIs(e ast.Expr, name string) bool {
	if s, ok := e.(*ast.StarExpr); ok {
		e = s.X
	}
	id, ok := e.(*ast.Ident)
	return ok && id.Name == name
}

func funcName(fd *ast.FuncDecl) string { return fd.Name.Name }

// base returns the selector chain of an lvalue with indexing / dereferences / slicing removed:
// fs.fragments[i].start -> ["fs","fragments","start"]
func chain(e ast.Expr) []string {
	switch x := e.(type) {
	case *ast.Ident:
		return []string{x.Name}
	case *ast.SelectorExpr:
		return append(chain(x.X), x.Sel.Name)
	case *ast.IndexExpr:
		return chain(x.X)
	case *ast.SliceExpr:
		return chain(x.X)
	case *ast.StarExpr:
		return chain(x.X)
	case *ast.ParenExpr:
		return chain(x.X)
	}
	return nil
}

// fsVars: identifiers of fd that denote a *FileSystem
func fsVars(fd *ast.FuncDecl) map[string]bool {
	vars := map[string]bool{}
	add := func(fl *ast.FieldList) {
		if fl == nil {
			return
		}
		for _, f := range fl.List {
			if typeIs(f.Type, "FileSystem") {
				for _, n := range f.Names {
					vars[n.Name] = true
				}
			}
		}
	}
	add(fd.Recv)
	add(fd.Type.Params)
	if fd.Body == nil {
		return vars
	}
	ast.Inspect(fd.Body, func(n ast.Node) bool {
		as, ok := n.(*ast.AssignStmt)
		if !ok || len(as.Lhs) != len(as.Rhs) {
			return true
		}
		for i, r := range as.Rhs {
			id, ok := as.Lhs[i].(*ast.Ident)
			if !ok {
				continue
			}
			ch := chain(r)
			if len(ch) >= 2 && (ch[len(ch)-1] == "filesystem" || ch[len(ch)-1] == "fs") {
				vars[id.Name] = true
			}
			if u, ok := r.(*ast.UnaryExpr); ok && u.Op == token.AND {
				if cl, ok := u.X.(*ast.CompositeLit); ok && typeIs(cl.Type, "FileSystem") {
					vars[id.Name] = true
				}
			}
		}
		return true
	})
	return vars
}

func lhsOf(n ast.Node) []ast.Expr {
	switch s := n.(type) {
	case *ast.AssignStmt:
		if s.Tok == token.DEFINE {
			// a definition creates locals; only its non-identifier targets (none in Go) could write fields
			return nil
		}
		return s.Lhs
	case *ast.IncDecStmt:
		return []ast.Expr{s.X}
	}
	return nil
}

func sharedFacts(g *fx.Group) {
	files := pkgFiles()
	if len(files) == 0 {
		for _, n := range []string{"fsFieldWriters", "packageVars", "syncAndUnsafeUses", "handleFieldWriters", "readBlockBuffers", "cachedSliceUses", "cachedSliceWrites"} {
			g.Missing(n)
		}
		return
	}
	var fsWriters, pkgVars, syncUses, handleWriters []string
	decls := map[string]*ast.FuncDecl{} // plain functions and methods by name (methods: also "Recv.name")
	for _, rel := range files {
		af := fx.Parse(rel)
		if af == nil {
			g.Missing("fsFieldWriters")
			continue
		}
		for _, d := range af.Decls {
			switch dd := d.(type) {
			case *ast.GenDecl:
				if dd.Tok == token.VAR {
					for _, sp := range dd.Specs {
						for _, n := range sp.(*ast.ValueSpec).Names {
							if n.Name != "_" {
								pkgVars = append(pkgVars, n.Name)
							}
						}
					}
				}
			case *ast.FuncDecl:
				decls[dd.Name.Name] = dd
				if dd.Body == nil {
					continue
				}
				vars := fsVars(dd)
				isFileMethod := dd.Recv != nil && len(dd.Recv.List) > 0 && typeIs(dd.Recv.List[0].Type, "File")
				recvName := ""
				if isFileMethod && len(dd.Recv.List[0].Names) > 0 {
					recvName = dd.Recv.List[0].Names[0].Name
				}
				ast.Inspect(dd.Body, func(n ast.Node) bool {
					for _, l := range lhsOf(n) {
						ch := chain(l)
						if len(ch) < 2 {
							continue
						}
						// a FileSystem reached through a variable, or through x.filesystem / x.fs
						for i := 0; i+1 < len(ch); i++ {
							if (i == 0 && vars[ch[0]]) || (i > 0 && (ch[i] == "filesystem" || ch[i] == "fs")) {
								fsWriters = append(fsWriters, funcName(dd)+":"+ch[i+1])
								break
							}
						}
						if isFileMethod && ch[0] == recvName {
							handleWriters = append(handleWriters, funcName(dd)+":"+ch[1])
						}
					}
					return true
				})
			}
		}
		ast.Inspect(af, func(n ast.Node) bool {
			if s, ok := n.(*ast.SelectorExpr); ok {
				if id, ok := s.X.(*ast.Ident); ok && (id.Name == "sync" || id.Name == "unsafe" || id.Name == "atomic") {
					syncUses = append(syncUses, id.Name+"."+s.Sel.Name)
				}
			}
			return true
		})
	}
	g.Strs("fsFieldWriters", uniqSorted(fsWriters))
	g.Strs("packageVars", uniqSorted(pkgVars))
	g.Strs("syncAndUnsafeUses", uniqSorted(syncUses))
	g.Strs("handleFieldWriters", uniqSorted(handleWriters))

	// where readBlock's result comes from
	if fd := decls["readBlock"]; fd != nil && fd.Body != nil {
		var srcs []string
		ret := map[string]bool{}
		ast.Inspect(fd.Body, func(n ast.Node) bool {
			if r, ok := n.(*ast.ReturnStmt); ok && len(r.Results) > 0 {
				switch x := r.Results[0].(type) {
				case *ast.Ident:
					if x.Name != "nil" {
						ret[x.Name] = true
					}
				default:
					srcs = append(srcs, fx.Src(x))
				}
			}
			return true
		})
		ast.Inspect(fd.Body, func(n ast.Node) bool {
			if as, ok := n.(*ast.AssignStmt); ok && len(as.Rhs) >= 1 {
				if id, ok := as.Lhs[0].(*ast.Ident); ok && ret[id.Name] {
					srcs = append(srcs, fx.Src(as.Rhs[0]))
				}
			}
			return true
		})
		g.Strs("readBlockBuffers", uniqSorted(srcs))
	} else {
		g.Missing("readBlockBuffers")
	}

	uses, writes := cachedSliceScan(files, decls)
	g.Strs("cachedSliceUses", uses)
	g.Strs("cachedSliceWrites", writes)
}

// ---- def-use scan of slices that come out of the cache ------------------------------------------

// calls whose first result is a cached slice (or a sub-slice of one)
func isCacheSource(ce *ast.CallExpr) bool {
	s, ok := ce.Fun.(*ast.SelectorExpr)
	if !ok {
		return false
	}
	switch s.Sel.Name {
	case "readMetaBlock", "readFragment":
		return true
	case "get":
		ch := chain(s.X)
		return len(ch) > 0 && ch[len(ch)-1] == "cache"
	}
	return false
}

// functions that only read their byte-slice arguments
var readOnlyCallees = map[string]bool{
	"len": true, "cap": true, "string": true,
	"binary.LittleEndian.Uint16": true, "binary.LittleEndian.Uint32": true, "binary.LittleEndian.Uint64": true,
	"bytes.Equal": true, "bytes.NewReader": true,
}

type scan struct {
	decls  map[string]*ast.FuncDecl
	uses   []string
	writes []string
	done   map[string]bool // function + tainted parameter index already analysed
}

func cachedSliceScan(files []string, decls map[string]*ast.FuncDecl) (uses, writes []string) {
	sc := &scan{decls: decls, done: map[string]bool{}}
	for _, rel := range files {
		if strings.HasSuffix(rel, "/lru.go") {
			continue // the cache itself: the machine of Model/Lru.lean
		}
		af := fx.Parse(rel)
		if af == nil {
			continue
		}
		for _, d := range af.Decls {
			if fd, ok := d.(*ast.FuncDecl); ok && fd.Body != nil {
				sc.body(fd.Name.Name, fd.Body, map[any]bool{})
			}
		}
	}
	return uniqSorted(sc.uses), uniqSorted(sc.writes)
}

// tainted reports whether e evaluates to (a sub-slice of) a cached slice
// objKey identifies a variable: the parser's object (so that two locals of one name in different scopes
// stay apart), the name if it is unresolved
func objKey(id *ast.Ident) any {
	if id.Obj != nil {
		return id.Obj
	}
	return id.Name
}

func (sc *scan) tainted(e ast.Expr, t map[any]bool) bool {
	switch x := e.(type) {
	case *ast.Ident:
		return t[objKey(x)]
	case *ast.SliceExpr:
		return sc.tainted(x.X, t)
	case *ast.ParenExpr:
		return sc.tainted(x.X, t)
	case *ast.CallExpr:
		if isCacheSource(x) {
			return true
		}
		// append(a, …) aliases a; append(fresh, cached...) is a copy
		if id, ok := x.Fun.(*ast.Ident); ok && id.Name == "append" && len(x.Args) > 0 {
			return sc.tainted(x.Args[0], t)
		}
	}
	return false
}

// body analyses one function body (or closure) with the initially tainted identifiers t
func (sc *scan) body(fn string, body *ast.BlockStmt, t map[any]bool) {
	// propagate to a fixed point: locals assigned from tainted expressions
	closures := map[string]*ast.FuncLit{}
	for changed := true; changed; {
		changed = false
		ast.Inspect(body, func(n ast.Node) bool {
			as, ok := n.(*ast.AssignStmt)
			if !ok {
				return true
			}
			if len(as.Rhs) == 1 {
				if fl, ok := as.Rhs[0].(*ast.FuncLit); ok {
					if id, ok := as.Lhs[0].(*ast.Ident); ok {
						closures[id.Name] = fl
					}
				}
				if id, ok := as.Lhs[0].(*ast.Ident); ok && id.Name != "_" && sc.tainted(as.Rhs[0], t) && !t[objKey(id)] {
					t[objKey(id)] = true
					changed = true
				}
				return true
			}
			for i, r := range as.Rhs {
				if i < len(as.Lhs) {
					if id, ok := as.Lhs[i].(*ast.Ident); ok && id.Name != "_" && sc.tainted(r, t) && !t[objKey(id)] {
						t[objKey(id)] = true
						changed = true
					}
				}
			}
			return true
		})
	}
	if len(t) == 0 {
		// still: a direct `return fs.cache.get(…)` hands the slice on
		ast.Inspect(body, func(n ast.Node) bool {
			if r, ok := n.(*ast.ReturnStmt); ok && len(r.Results) > 0 {
				if ce, ok := r.Results[0].(*ast.CallExpr); ok && isCacheSource(ce) {
					sc.uses = append(sc.uses, fn+":returned")
				}
			}
			return true
		})
		return
	}
	use := func(k string) { sc.uses = append(sc.uses, fn+":"+k) }
	write := func(k string) { sc.writes = append(sc.writes, fn+":"+k) }
	var walk func(n ast.Node) bool
	walk = func(n ast.Node) bool {
		switch x := n.(type) {
		case *ast.FuncLit:
			// a closure sees the tainted locals of its function; the fetch closures passed to cache.get
			// create the data and are not readers of it
			return true
		case *ast.AssignStmt:
			for _, l := range x.Lhs {
				switch lx := l.(type) {
				case *ast.IndexExpr:
					if sc.tainted(lx.X, t) {
						write("element assigned: " + fx.Src(x))
					}
				case *ast.SelectorExpr:
					for _, r := range x.Rhs {
						if sc.tainted(r, t) {
							write("stored in a field: " + fx.Src(x))
						}
					}
				}
			}
			for _, r := range x.Rhs {
				if ix, ok := r.(*ast.IndexExpr); ok && sc.tainted(ix.X, t) {
					use("element read")
				}
			}
		case *ast.IncDecStmt:
			if ix, ok := x.X.(*ast.IndexExpr); ok && sc.tainted(ix.X, t) {
				write("element assigned: " + fx.Src(x))
			}
		case *ast.ReturnStmt:
			for _, r := range x.Results {
				if sc.tainted(r, t) {
					if _, ok := r.(*ast.SliceExpr); ok {
						use("sub-slice returned")
					} else {
						use("returned")
					}
				}
			}
		case *ast.RangeStmt:
			if sc.tainted(x.X, t) {
				use("ranged over")
			}
		case *ast.CallExpr:
			name := fx.Src(x.Fun)
			for i, a := range x.Args {
				if !sc.tainted(a, t) {
					if ix, ok := a.(*ast.IndexExpr); ok && sc.tainted(ix.X, t) {
						use("element read")
					}
					continue
				}
				switch {
				case name == "append" && i == 0:
					write("appended to: " + fx.Src(x))
				case name == "append" && x.Ellipsis.IsValid() && i == len(x.Args)-1:
					use("copied from (append source)")
				case name == "copy" && i == 0:
					write("copied into: " + fx.Src(x))
				case name == "copy" && i == 1:
					use("copied from (copy source)")
				case readOnlyCallees[name]:
					use(name)
				default:
					// a closure of this function, or a function of the package: follow the parameter
					if fl, ok := closures[name]; ok {
						sc.param(fn+"/"+name, fl.Type, fl.Body, i)
						use("passed to closure " + name)
					} else if fd := sc.calleeDecl(x.Fun); fd != nil {
						sc.param(fd.Name.Name, fd.Type, fd.Body, i)
						use("passed to " + fd.Name.Name)
					} else {
						write("passed to " + name)
					}
				}
			}
		}
		return true
	}
	ast.Inspect(body, walk)
}

func (sc *scan) calleeDecl(fun ast.Expr) *ast.FuncDecl {
	switch f := fun.(type) {
	case *ast.Ident:
		return sc.decls[f.Name]
	case *ast.SelectorExpr:
		// a method of the package called on some value: by name (the package has no overloaded names that take slices)
		if _, isPkg := f.X.(*ast.Ident); isPkg {
			if id := f.X.(*ast.Ident); id.Name == "binary" || id.Name == "bytes" || id.Name == "fmt" || id.Name == "io" {
				return nil
			}
		}
		return sc.decls[f.Sel.Name]
	}
	return nil
}

// param analyses a callee with its i-th parameter tainted
func (sc *scan) param(name string, ft *ast.FuncType, body *ast.BlockStmt, i int) {
	if body == nil || ft.Params == nil {
		return
	}
	key := name + "#" + string(rune('0'+i))
	if sc.done[key] {
		return
	}
	sc.done[key] = true
	k := 0
	for _, f := range ft.Params.List {
		for _, n := range f.Names {
			if k == i {
				sc.body(name, body, map[any]bool{objKey(n): true})
				return
			}
			k++
		}
	}
}
