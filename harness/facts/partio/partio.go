package partio

import "verif/harness/internal/fx"

// PartIO: arithmetic width of the byte offset / size computations in the four streaming loops.
func Extract() *fx.Group {
	g := fx.NewGroup("PartIO")
	for _, pk := range []string{"mbr", "gpt"} {
		f := fx.Parse("partition/" + pk + "/partition.go")
		for _, fn := range []string{"WriteContents", "ReadContents"} {
			fd := fx.FindFunc(f, "Partition", fn)
			for _, v := range []string{"start", "size"} {
				name := pk + fn + "_" + v
				e := fx.AssignRHS(fd, v)
				if e == nil {
					if pk == "gpt" && v == "size" && fn == "WriteContents" {
						continue // gpt WriteContents uses p.Size directly
					}
					g.Missing(name)
					continue
				}
				g.Str(name+"_expr", fx.Src(e))
				g.Nat(name+"_width", fx.ConvWidth(e))
			}
		}
	}
	return g
}
