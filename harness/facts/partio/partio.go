package partio

import (
	"go/ast"
	"go/token"
	"strconv"

	"verif/harness/internal/fx"
)

// PartIO: arithmetic width of the byte offset / size computations in the four streaming loops.
func Extract() *fx.Group {
	g := fx.NewGroup("PartIO")
	for _, pk := range []string{"mbr", "gpt"} {
		f := fx.Parse("partition/" + pk + "/partition.go")
		for _, fn := range []string{"WriteContents", "ReadContents"} {
			fd := fx.FindFunc(f, "Partition", fn)
			for _, v := range []string{"start", "size"} {
				name := pk + fn + "_" + v
				e := fx.AssignRHS(fd, v)
				if e == nil {
					if pk == "gpt" && v == "size" && fn == "WriteContents" {
						continue // gpt WriteContents uses p.Size directly
					}
					g.Missing(name)
					continue
				}
				g.Str(name+"_expr", fx.Src(e))
				// the width of the ARITHMETIC (operand types of the product), not of an outermost conversion:
				// uint64(p.Size * uint32(lss)) is a 32-bit product
				g.Nat(name+"_width", fx.ArithWidth(e))
			}
		}
	}
	dispatchFacts(g)
	return g
}

// constInt resolves a package-level integer constant (or a literal) of file f; -1 when it cannot.
func constInt(f *ast.File, e ast.Expr) int64 {
	switch x := e.(type) {
	case *ast.BasicLit:
		if x.Kind == token.INT {
			if v, err := strconv.ParseInt(x.Value, 0, 64); err == nil {
				return v
			}
		}
	case *ast.ParenExpr:
		return constInt(f, x.X)
	case *ast.CallExpr: // a conversion such as int(partitionEntriesCount)
		if len(x.Args) == 1 {
			return constInt(f, x.Args[0])
		}
	case *ast.Ident:
		if f == nil {
			return -1
		}
		for _, d := range f.Decls {
			gd, ok := d.(*ast.GenDecl)
			if !ok || gd.Tok != token.CONST {
				continue
			}
			for _, sp := range gd.Specs {
				vs := sp.(*ast.ValueSpec)
				for i, n := range vs.Names {
					if n.Name == x.Name && i < len(vs.Values) {
						return constInt(f, vs.Values[i])
					}
				}
			}
		}
	}
	return -1
}

func hasBreak(b *ast.BlockStmt) bool {
	found := false
	ast.Inspect(b, func(n ast.Node) bool {
		if br, ok := n.(*ast.BranchStmt); ok && br.Tok == token.BREAK {
			found = true
		}
		return true
	})
	return found
}

// dispatchFacts pins the shapes Model/PartDisk.lean and Model/MbrTable.lean rely on:
//   - Disk.GetPartition takes the FIRST partition whose GetIndex() equals the argument (the loop breaks on a match);
//   - mbr.Read allocates mbrSize bytes and stamps each sector size on the table and on every partition exactly
//     when the value handed in is > 0;
//   - mbr.Table.Write refuses a table with more than partitionEntriesCount partitions before anything is written.
func dispatchFacts(g *fx.Group) {
	// Disk.GetPartition
	df := fx.Parse("disk/disk.go")
	first := false
	if fd := fx.FindFunc(df, "Disk", "GetPartition"); fd != nil && fd.Body != nil {
		ast.Inspect(fd.Body, func(n ast.Node) bool {
			rs, ok := n.(*ast.RangeStmt)
			if !ok {
				return true
			}
			for _, st := range rs.Body.List {
				is, ok := st.(*ast.IfStmt)
				if !ok {
					continue
				}
				be, ok := is.Cond.(*ast.BinaryExpr)
				if !ok || be.Op != token.EQL {
					continue
				}
				src := fx.Src(be)
				if (src == "p.GetIndex() == partIndex" || src == "partIndex == p.GetIndex()") && hasBreak(is.Body) {
					first = true
				}
			}
			return true
		})
	} else {
		g.Missing("getPartitionFirstMatch")
	}
	g.Bool("getPartitionFirstMatch", first)

	// mbr.Read
	tf := fx.Parse("partition/mbr/table.go")
	var guards []string
	bufLen := int64(-1)
	if fd := fx.FindFunc(tf, "", "Read"); fd != nil && fd.Body != nil {
		for _, st := range fd.Body.List {
			switch x := st.(type) {
			case *ast.AssignStmt:
				if len(x.Rhs) == 1 {
					if ce, ok := x.Rhs[0].(*ast.CallExpr); ok {
						if id, ok := ce.Fun.(*ast.Ident); ok && id.Name == "make" && len(ce.Args) == 2 && bufLen < 0 {
							bufLen = constInt(tf, ce.Args[1])
						}
					}
				}
			case *ast.IfStmt:
				be, ok := x.Cond.(*ast.BinaryExpr)
				if !ok || be.Op != token.GTR || fx.Src(be.Y) != "0" {
					continue
				}
				// what the body assigns on the table and on the partitions
				var tbl, part string
				ast.Inspect(x.Body, func(n ast.Node) bool {
					if as, ok := n.(*ast.AssignStmt); ok && len(as.Lhs) == 1 && len(as.Rhs) == 1 && fx.Src(as.Rhs[0]) == fx.Src(be.X) {
						l := fx.Src(as.Lhs[0])
						if len(l) > 6 && l[:6] == "table." {
							tbl = l[6:]
						} else if len(l) > 2 && l[:2] == "p." {
							part = l[2:]
						}
					}
					return true
				})
				guards = append(guards, fx.Src(be.X)+">0:"+tbl+":"+part)
			}
		}
	} else {
		g.Missing("mbrReadStamps")
	}
	g.Strs("mbrReadStamps", guards)
	g.Nat("mbrReadBufLen", bufLen)

	// mbr.Table.Write
	maxParts := int64(-1)
	refuseFirst := false
	if fd := fx.FindFunc(tf, "Table", "Write"); fd != nil && fd.Body != nil && len(fd.Body.List) > 0 {
		if is, ok := fd.Body.List[0].(*ast.IfStmt); ok {
			if be, ok := is.Cond.(*ast.BinaryExpr); ok && be.Op == token.GTR && fx.Src(be.X) == "len(t.Partitions)" {
				maxParts = constInt(tf, be.Y)
				if len(is.Body.List) > 0 {
					_, refuseFirst = is.Body.List[len(is.Body.List)-1].(*ast.ReturnStmt)
				}
			}
		}
	} else {
		g.Missing("mbrWriteMaxParts")
	}
	g.Nat("mbrWriteMaxParts", maxParts)
	g.Bool("mbrWriteRefusesFirst", refuseFirst)
}
