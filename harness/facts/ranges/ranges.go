// Package ranges extracts the C03 facts about HOW each filesystem honours its start offset:
//   - which filesystem packages wrap the backend in backend.Sub(b, start, size) (and so never add start
//     themselves), and
//   - for the FAT packages, which add the start offset by hand: the offset argument of EVERY ReadAt / WriteAt
//     call, normalised (conversions and parentheses dropped, local variables replaced by the nearest preceding
//     assignment, sums flattened), contains the filesystem start exactly once (`x.start`, `x.Start()` or the
//     `start` parameter of Create / Read).  A forgotten or doubled start (seeded m05, m62) changes a count.
package ranges

import (
	"go/ast"
	"go/token"
	"os"
	"path/filepath"
	"sort"
	"strings"

	"verif/harness/internal/fx"
)

type site struct {
	desc  string
	count int64
}

func goFiles(rel string) []string {
	ents, err := os.ReadDir(filepath.Join(fx.Repo(), rel))
	if err != nil {
		return nil
	}
	var out []string
	for _, e := range ents {
		n := e.Name()
		if e.IsDir() || !strings.HasSuffix(n, ".go") || strings.HasSuffix(n, "_test.go") || strings.HasPrefix(n, "zz_verif_hooks") {
			continue
		}
		out = append(out, filepath.Join(rel, n))
	}
	sort.Strings(out)
	return out
}

// startCount counts the occurrences of the filesystem start in the (normalised) offset expression e of a call at
// position at inside fn; 100 is added when a start sits under an operator other than + (not a plain summand).
func startCount(fn *ast.FuncDecl, e ast.Expr, at token.Pos, depth int, linear bool) int64 {
	pen := func(n int64) int64 {
		if n > 0 && !linear {
			return n + 100
		}
		return n
	}
	switch x := e.(type) {
	case *ast.ParenExpr:
		return startCount(fn, x.X, at, depth, linear)
	case *ast.BinaryExpr:
		lin := linear && x.Op == token.ADD
		return startCount(fn, x.X, at, depth, lin) + startCount(fn, x.Y, at, depth, lin)
	case *ast.UnaryExpr:
		return startCount(fn, x.X, at, depth, false)
	case *ast.SelectorExpr:
		if x.Sel.Name == "start" {
			return pen(1)
		}
		return 0
	case *ast.CallExpr:
		if sel, ok := x.Fun.(*ast.SelectorExpr); ok && sel.Sel.Name == "Start" && len(x.Args) == 0 {
			return pen(1)
		}
		if len(x.Args) == 1 { // a conversion such as int64(v)
			if id, ok := x.Fun.(*ast.Ident); ok && (strings.HasPrefix(id.Name, "int") || strings.HasPrefix(id.Name, "uint")) {
				return startCount(fn, x.Args[0], at, depth, linear)
			}
		}
		var n int64
		for _, a := range x.Args {
			n += startCount(fn, a, at, depth, false)
		}
		return n
	case *ast.Ident:
		if x.Name == "start" && isParam(fn, "start") && nearestAssign(fn, "start", at) == nil {
			return pen(1)
		}
		if depth <= 0 {
			return 0
		}
		if rhs := nearestAssign(fn, x.Name, at); rhs != nil {
			return startCount(fn, rhs, rhs.Pos(), depth-1, linear)
		}
		return 0
	}
	return 0
}

func isParam(fn *ast.FuncDecl, name string) bool {
	for _, f := range fn.Type.Params.List {
		for _, n := range f.Names {
			if n.Name == name {
				return true
			}
		}
	}
	return false
}

// nearestAssign: the right-hand side of the last assignment (:=, =, single name on the left) to name in fn that
// lies before position at; `x += y` is read as x + y of the assignment before it, conservatively: nil
func nearestAssign(fn *ast.FuncDecl, name string, at token.Pos) ast.Expr {
	var best ast.Expr
	var bestPos token.Pos
	ast.Inspect(fn.Body, func(n ast.Node) bool {
		as, ok := n.(*ast.AssignStmt)
		if !ok || as.Pos() >= at || (as.Tok != token.DEFINE && as.Tok != token.ASSIGN) {
			return true
		}
		for i, l := range as.Lhs {
			if id, ok := l.(*ast.Ident); ok && id.Name == name && len(as.Lhs) == len(as.Rhs) && as.Pos() > bestPos {
				best, bestPos = as.Rhs[i], as.Pos()
			}
		}
		return true
	})
	return best
}

func Extract() *fx.Group {
	g := fx.NewGroup("Ranges")
	// (1) who goes through backend.Sub
	var subUsers []string
	for _, pk := range []string{"ext4", "fat12", "fat16", "fat32", "iso9660", "squashfs"} {
		uses := false
		for _, rel := range goFiles("filesystem/" + pk) {
			f := fx.Parse(rel)
			ast.Inspect(f, func(n ast.Node) bool {
				if c, ok := n.(*ast.CallExpr); ok {
					if sel, ok := c.Fun.(*ast.SelectorExpr); ok && sel.Sel.Name == "Sub" {
						if id, ok := sel.X.(*ast.Ident); ok && id.Name == "backend" && len(c.Args) == 3 {
							uses = true
						}
					}
				}
				return true
			})
		}
		if uses {
			subUsers = append(subUsers, pk)
		}
	}
	g.Strs("sub_users", subUsers)
	// (2) the FAT packages add start by hand: once per ReadAt / WriteAt
	var sites []site
	for _, pk := range []string{"fat12", "fat16", "fat32"} {
		for _, rel := range goFiles("filesystem/" + pk) {
			f := fx.Parse(rel)
			for _, d := range f.Decls {
				fn, ok := d.(*ast.FuncDecl)
				if !ok || fn.Body == nil {
					continue
				}
				ast.Inspect(fn.Body, func(n ast.Node) bool {
					c, ok := n.(*ast.CallExpr)
					if !ok || len(c.Args) != 2 {
						return true
					}
					sel, ok := c.Fun.(*ast.SelectorExpr)
					if !ok || (sel.Sel.Name != "ReadAt" && sel.Sel.Name != "WriteAt") {
						return true
					}
					cnt := startCount(fn, c.Args[1], c.Pos(), 4, true)
					sites = append(sites, site{pk + "/" + filepath.Base(rel) + ":" + fn.Name.Name + ":" + sel.Sel.Name + "(" + fx.Src(c.Args[1]) + ")", cnt})
					return true
				})
			}
		}
	}
	var counts []int64
	var descs []string
	for _, s := range sites {
		counts = append(counts, s.count)
		descs = append(descs, s.desc)
	}
	g.Nats("fat_io_start_counts", counts)
	g.Strs("fat_io_sites", descs)
	return g
}
