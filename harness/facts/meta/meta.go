// Package meta extracts the facts the C19 codec mirrors are pinned to: the FAT attribute bits,
// the ext4 permission masks and type codes, and how the squashfs inode header stores the mode.
package meta

import (
	"go/ast"
	"go/token"
	"strconv"
	"strings"

	"verif/harness/internal/fx"
)

func intConsts(f *ast.File) map[string]int64 {
	env := map[string]int64{}
	if f == nil {
		return env
	}
	for _, d := range f.Decls {
		gd, ok := d.(*ast.GenDecl)
		if !ok || gd.Tok != token.CONST {
			continue
		}
		for _, s := range gd.Specs {
			vs := s.(*ast.ValueSpec)
			for i, n := range vs.Names {
				if i < len(vs.Values) {
					if bl, ok := vs.Values[i].(*ast.BasicLit); ok && bl.Kind == token.INT {
						if v, err := strconv.ParseInt(bl.Value, 0, 64); err == nil {
							env[n.Name] = v
						}
					}
				}
			}
		}
	}
	return env
}

func Extract() *fx.Group {
	g := fx.NewGroup("Meta")
	// --- FAT attribute byte: which bit each flag sets in toBytes
	ff := fx.Parse("filesystem/fat12/directoryentry.go")
	tb := fx.FindFunc(ff, "directoryEntry", "toBytes")
	bits := map[string]int64{}
	if tb != nil {
		ast.Inspect(tb.Body, func(n ast.Node) bool {
			is, ok := n.(*ast.IfStmt)
			if !ok {
				return true
			}
			cond := fx.Src(is.Cond)
			if !strings.HasPrefix(cond, "de.is") {
				return true
			}
			for _, st := range is.Body.List {
				as, ok := st.(*ast.AssignStmt)
				if !ok || as.Tok != token.OR_ASSIGN || fx.Src(as.Lhs[0]) != "dosBytes[11]" {
					continue
				}
				if bl, ok := as.Rhs[0].(*ast.BasicLit); ok {
					if v, err := strconv.ParseInt(bl.Value, 0, 64); err == nil {
						bits[strings.TrimPrefix(cond, "de.")] = v
					}
				}
			}
			return true
		})
	}
	var fat []int64
	for _, k := range []string{"isReadOnly", "isHidden", "isSystem", "isVolumeLabel", "isSubdirectory", "isArchiveDirty"} {
		v, ok := bits[k]
		if !ok {
			g.Missing("fatAttr_" + k)
		}
		fat = append(fat, v)
	}
	g.Nats("fatAttrBits", fat)
	// --- ext4 permission masks and type codes
	env := intConsts(fx.Parse("filesystem/ext4/inode.go"))
	var masks, types []int64
	for _, k := range []string{"filePermissionsOwnerExecute", "filePermissionsOwnerWrite", "filePermissionsOwnerRead",
		"filePermissionsGroupExecute", "filePermissionsGroupWrite", "filePermissionsGroupRead",
		"filePermissionsOtherExecute", "filePermissionsOtherWrite", "filePermissionsOtherRead",
		"filePermissionsSticky", "filePermissionsGroupSetgid", "filePermissionsOwnerSetuid"} {
		v, ok := env[k]
		if !ok {
			g.Missing(k)
		}
		masks = append(masks, v)
	}
	for _, k := range []string{"fileTypeFifo", "fileTypeCharacterDevice", "fileTypeDirectory", "fileTypeBlockDevice",
		"fileTypeRegularFile", "fileTypeSymbolicLink", "fileTypeSocket"} {
		v, ok := env[k]
		if !ok {
			g.Missing(k)
		}
		types = append(types, v)
	}
	g.Nats("ext4PermMasks", masks)
	g.Nats("ext4TypeCodes", types)
	// --- squashfs inode header: is the mode word the raw low 16 bits of os.FileMode?
	sf := fx.Parse("filesystem/squashfs/inode.go")
	htb := fx.FindFunc(sf, "inodeHeader", "toBytes")
	expr := ""
	if htb != nil {
		ast.Inspect(htb.Body, func(n ast.Node) bool {
			ce, ok := n.(*ast.CallExpr)
			if !ok || len(ce.Args) != 2 || !strings.HasSuffix(fx.Src(ce.Fun), "PutUint16") || fx.Src(ce.Args[0]) != "b[2:4]" {
				return true
			}
			expr = fx.Src(ce.Args[1])
			return false
		})
	}
	if expr == "" {
		g.Missing("sqModeExpr")
	}
	g.Str("sqModeExpr", expr)
	g.Bool("sqModeUnixBits", expr != "" && expr != "uint16(i.mode)")
	return g
}
