// Package meta extracts the facts the C19 codec mirrors are pinned to: the FAT attribute bits,
// the ext4 permission masks and type codes, and how the squashfs inode header stores the mode.
package meta

import (
	"go/ast"
	"go/token"
	"os"
	"path/filepath"
	"strconv"
	"strings"

	"verif/harness/internal/fx"
)

// evalInt evaluates a constant integer expression: literals, identifiers bound in env (iota included),
// parentheses, conversions T(x), unary + - ^ and the binary integer operators.
func evalInt(e ast.Expr, env map[string]int64) (int64, bool) {
	switch x := e.(type) {
	case *ast.BasicLit:
		switch x.Kind {
		case token.INT:
			v, err := strconv.ParseInt(strings.ReplaceAll(x.Value, "_", ""), 0, 64)
			if err != nil {
				if u, uerr := strconv.ParseUint(strings.ReplaceAll(x.Value, "_", ""), 0, 64); uerr == nil {
					return int64(u), true
				}
				return 0, false
			}
			return v, true
		case token.CHAR:
			if r, _, _, err := strconv.UnquoteChar(strings.Trim(x.Value, "'"), '\''); err == nil {
				return int64(r), true
			}
		}
		return 0, false
	case *ast.Ident:
		v, ok := env[x.Name]
		return v, ok
	case *ast.ParenExpr:
		return evalInt(x.X, env)
	case *ast.CallExpr: // a conversion such as byte(x), uint16(x), fileType(x)
		if len(x.Args) == 1 && x.Ellipsis == token.NoPos {
			switch x.Fun.(type) {
			case *ast.Ident, *ast.SelectorExpr:
				return evalInt(x.Args[0], env)
			}
		}
		return 0, false
	case *ast.UnaryExpr:
		v, ok := evalInt(x.X, env)
		if !ok {
			return 0, false
		}
		switch x.Op {
		case token.ADD:
			return v, true
		case token.SUB:
			return -v, true
		case token.XOR:
			return ^v, true
		}
		return 0, false
	case *ast.BinaryExpr:
		a, ok1 := evalInt(x.X, env)
		b, ok2 := evalInt(x.Y, env)
		if !ok1 || !ok2 {
			return 0, false
		}
		switch x.Op {
		case token.ADD:
			return a + b, true
		case token.SUB:
			return a - b, true
		case token.MUL:
			return a * b, true
		case token.QUO:
			if b != 0 {
				return a / b, true
			}
		case token.REM:
			if b != 0 {
				return a % b, true
			}
		case token.SHL:
			if b >= 0 && b < 63 {
				return a << uint(b), true
			}
		case token.SHR:
			if b >= 0 && b < 64 {
				return a >> uint(b), true
			}
		case token.OR:
			return a | b, true
		case token.AND:
			return a & b, true
		case token.XOR:
			return a ^ b, true
		case token.AND_NOT:
			return a &^ b, true
		}
		return 0, false
	}
	return 0, false
}

// intConsts evaluates the package-level integer constants of the given files (one package): constant
// expressions over literals and other constants of the package, iota and implicit repetition included.
// Constants may refer to constants declared later or in another file, hence the fixpoint.
func intConsts(files ...*ast.File) map[string]int64 {
	env := map[string]int64{}
	for pass := 0; pass < 8; pass++ {
		added := false
		for _, f := range files {
			if f == nil {
				continue
			}
			for _, d := range f.Decls {
				gd, ok := d.(*ast.GenDecl)
				if !ok || gd.Tok != token.CONST {
					continue
				}
				var last []ast.Expr // implicit repetition of the previous expression list
				for idx, s := range gd.Specs {
					vs := s.(*ast.ValueSpec)
					vals := vs.Values
					if len(vals) == 0 {
						vals = last
					} else {
						last = vals
					}
					for i, n := range vs.Names {
						if i >= len(vals) || n.Name == "_" {
							continue
						}
						if _, done := env[n.Name]; done {
							continue
						}
						_, hadIota := env["iota"]
						env["iota"] = int64(idx)
						v, ok := evalInt(vals[i], env)
						if !hadIota {
							delete(env, "iota")
						}
						if ok {
							env[n.Name] = v
							added = true
						}
					}
				}
			}
		}
		if !added {
			break
		}
	}
	delete(env, "iota")
	return env
}

// pkgFiles parses every non-test Go file of a package directory of the repository (hook files excluded).
func pkgFiles(dir string) []*ast.File {
	var out []*ast.File
	ents, err := os.ReadDir(filepath.Join(fx.Repo(), dir))
	if err != nil {
		return nil
	}
	for _, e := range ents {
		n := e.Name()
		if e.IsDir() || !strings.HasSuffix(n, ".go") || strings.HasSuffix(n, "_test.go") || strings.HasPrefix(n, "zz_verif_hooks") {
			continue
		}
		if f := fx.Parse(filepath.ToSlash(filepath.Join(dir, n))); f != nil {
			out = append(out, f)
		}
	}
	return out
}

func Extract() *fx.Group {
	g := fx.NewGroup("Meta")
	// --- FAT attribute byte: which bit each flag sets in toBytes
	ff := fx.Parse("filesystem/fat12/directoryentry.go")
	tb := fx.FindFunc(ff, "directoryEntry", "toBytes")
	fatEnv := intConsts(pkgFiles("filesystem/fat12")...)
	bits := map[string]int64{}
	if tb != nil {
		ast.Inspect(tb.Body, func(n ast.Node) bool {
			is, ok := n.(*ast.IfStmt)
			if !ok {
				return true
			}
			cond := fx.Src(is.Cond)
			if !strings.HasPrefix(cond, "de.is") {
				return true
			}
			for _, st := range is.Body.List {
				as, ok := st.(*ast.AssignStmt)
				if !ok || as.Tok != token.OR_ASSIGN || fx.Src(as.Lhs[0]) != "dosBytes[11]" {
					continue
				}
				// a literal, or a constant expression over the package's constants (attrHidden, 1 << 1, byte(attrHidden) …)
				if v, ok := evalInt(as.Rhs[0], fatEnv); ok {
					bits[strings.TrimPrefix(cond, "de.")] = v
				}
			}
			return true
		})
	}
	var fat []int64
	for _, k := range []string{"isReadOnly", "isHidden", "isSystem", "isVolumeLabel", "isSubdirectory", "isArchiveDirty"} {
		v, ok := bits[k]
		if !ok {
			g.Missing("fatAttr_" + k)
		}
		fat = append(fat, v)
	}
	g.Nats("fatAttrBits", fat)
	// --- ext4 permission masks and type codes
	env := intConsts(pkgFiles("filesystem/ext4")...)
	var masks, types []int64
	for _, k := range []string{"filePermissionsOwnerExecute", "filePermissionsOwnerWrite", "filePermissionsOwnerRead",
		"filePermissionsGroupExecute", "filePermissionsGroupWrite", "filePermissionsGroupRead",
		"filePermissionsOtherExecute", "filePermissionsOtherWrite", "filePermissionsOtherRead",
		"filePermissionsSticky", "filePermissionsGroupSetgid", "filePermissionsOwnerSetuid"} {
		v, ok := env[k]
		if !ok {
			g.Missing(k)
		}
		masks = append(masks, v)
	}
	for _, k := range []string{"fileTypeFifo", "fileTypeCharacterDevice", "fileTypeDirectory", "fileTypeBlockDevice",
		"fileTypeRegularFile", "fileTypeSymbolicLink", "fileTypeSocket"} {
		v, ok := env[k]
		if !ok {
			g.Missing(k)
		}
		types = append(types, v)
	}
	g.Nats("ext4PermMasks", masks)
	g.Nats("ext4TypeCodes", types)
	// --- squashfs inode header: is the mode word the raw low 16 bits of os.FileMode?
	sf := fx.Parse("filesystem/squashfs/inode.go")
	htb := fx.FindFunc(sf, "inodeHeader", "toBytes")
	expr := ""
	if htb != nil {
		ast.Inspect(htb.Body, func(n ast.Node) bool {
			ce, ok := n.(*ast.CallExpr)
			if !ok || len(ce.Args) != 2 || !strings.HasSuffix(fx.Src(ce.Fun), "PutUint16") || fx.Src(ce.Args[0]) != "b[2:4]" {
				return true
			}
			expr = fx.Src(ce.Args[1])
			return false
		})
	}
	if expr == "" {
		g.Missing("sqModeExpr")
	}
	g.Str("sqModeExpr", expr)
	g.Bool("sqModeUnixBits", expr != "" && expr != "uint16(i.mode)")
	// --- second round: the constants the TF / id table / inode type / write-back mirrors are defined over
	// ext4: the flag bits inodeFlags has a field for (what survives parseInodeFlags -> toInt)
	var known int64
	nflags := 0
	for k, v := range env {
		if strings.HasPrefix(k, "inodeFlag") && k != "inodeFlag" {
			known |= v
			nflags++
		}
	}
	if nflags == 0 {
		g.Missing("inodeFlag*")
	}
	g.Nat("ext4InodeFlagsKnown", known)
	// squashfs: id entry size, metadata block size, inode type codes
	sq := intConsts(pkgFiles("filesystem/squashfs")...)
	one := func(env map[string]int64, k string) int64 {
		v, ok := env[k]
		if !ok {
			g.Missing(k)
		}
		return v
	}
	g.Nat("sqIdEntrySize", one(sq, "idEntrySize"))
	g.Nat("sqMetadataBlockSize", one(sq, "metadataBlockSize"))
	var sqTypes []int64
	for _, k := range []string{"inodeBasicDirectory", "inodeBasicFile", "inodeBasicSymlink", "inodeBasicBlock", "inodeBasicChar", "inodeBasicFifo", "inodeBasicSocket",
		"inodeExtendedDirectory", "inodeExtendedFile", "inodeExtendedSymlink", "inodeExtendedBlock", "inodeExtendedChar", "inodeExtendedFifo", "inodeExtendedSocket"} {
		sqTypes = append(sqTypes, one(sq, k))
	}
	g.Nats("sqInodeTypes", sqTypes)
	// Rock Ridge TF: the flag bit of each stamp kind, in the order parseTimestamps walks them, and the long-form bit
	iso := intConsts(pkgFiles("filesystem/iso9660")...)
	var tf []int64
	for _, k := range []string{"rockRidgeTimestampCreation", "rockRidgeTimestampModify", "rockRidgeTimestampAccess", "rockRidgeTimestampAttribute",
		"rockRidgeTimestampBackup", "rockRidgeTimestampExpiration", "rockRidgeTimestampEffective", "rockRidgeTimestampLongForm"} {
		tf = append(tf, one(iso, k))
	}
	g.Nats("rrTfBits", tf)
	return g
}
