// Package sqfs extracts the facts the C07 model is pinned to from /repo's squashfs sources.
package sqfs

import (
	"go/ast"
	"go/token"
	"strconv"

	"verif/harness/internal/fx"
)

var units = map[string]int64{"KB": 1024, "MB": 1024 * 1024}

// constVal evaluates `name = N` or `name = N * KB` in a const block.
func constVal(f *ast.File, name string) (int64, bool) {
	if f == nil {
		return 0, false
	}
	var eval func(e ast.Expr) (int64, bool)
	eval = func(e ast.Expr) (int64, bool) {
		switch x := e.(type) {
		case *ast.BasicLit:
			v, err := strconv.ParseInt(x.Value, 0, 64)
			return v, err == nil
		case *ast.Ident:
			v, ok := units[x.Name]
			return v, ok
		case *ast.BinaryExpr:
			a, ok1 := eval(x.X)
			b, ok2 := eval(x.Y)
			if ok1 && ok2 && x.Op == token.MUL {
				return a * b, true
			}
		}
		return 0, false
	}
	for _, d := range f.Decls {
		gd, ok := d.(*ast.GenDecl)
		if !ok || gd.Tok != token.CONST {
			continue
		}
		for _, s := range gd.Specs {
			vs := s.(*ast.ValueSpec)
			for i, n := range vs.Names {
				if n.Name == name && i < len(vs.Values) {
					return eval(vs.Values[i])
				}
			}
		}
	}
	return 0, false
}

func Extract() *fx.Group {
	g := fx.NewGroup("Sqfs")
	put := func(name string, v int64, ok bool) {
		if !ok {
			g.Missing(name)
			return
		}
		g.Nat(name, v)
	}
	sq := fx.Parse("filesystem/squashfs/squashfs.go")
	sb := fx.Parse("filesystem/squashfs/superblock.go")
	in := fx.Parse("filesystem/squashfs/inode.go")
	v, ok := constVal(sq, "metadataBlockSize")
	put("metadataBlockSize", v, ok)
	v, ok = constVal(sq, "minBlocksize")
	put("minBlocksize", v, ok)
	v, ok = constVal(sq, "maxBlocksize")
	put("maxBlocksize", v, ok)
	v, ok = constVal(sb, "superblockSize")
	put("superblockSize", v, ok)
	v, ok = constVal(in, "inodeHeaderSize")
	put("inodeHeaderSize", v, ok)
	// the SeekEnd arm is owned by C10; here: how File.Read picks the first block
	fl := fx.Parse("filesystem/squashfs/file.go")
	if e := fx.AssignRHS(fx.FindFunc(fl, "File", "Read"), "startBlock"); e != nil {
		g.Str("read_startBlock_expr", fx.Src(e))
	} else {
		g.Missing("read_startBlock_expr")
	}
	return g
}
