// Package sqfs extracts the facts the C07 model is pinned to from /repo's squashfs sources.
package sqfs

import (
	"go/ast"
	"go/token"
	"sort"
	"strconv"

	"verif/harness/internal/fx"
)

var units = map[string]int64{"KB": 1024, "MB": 1024 * 1024}

// constVal evaluates `name = N` or `name = N * KB` in a const block.
func constVal(f *ast.File, name string) (int64, bool) {
	if f == nil {
		return 0, false
	}
	var eval func(e ast.Expr) (int64, bool)
	eval = func(e ast.Expr) (int64, bool) {
		switch x := e.(type) {
		case *ast.BasicLit:
			v, err := strconv.ParseInt(x.Value, 0, 64)
			return v, err == nil
		case *ast.Ident:
			v, ok := units[x.Name]
			return v, ok
		case *ast.BinaryExpr:
			a, ok1 := eval(x.X)
			b, ok2 := eval(x.Y)
			if ok1 && ok2 && x.Op == token.MUL {
				return a * b, true
			}
		}
		return 0, false
	}
	for _, d := range f.Decls {
		gd, ok := d.(*ast.GenDecl)
		if !ok || gd.Tok != token.CONST {
			continue
		}
		for _, s := range gd.Specs {
			vs := s.(*ast.ValueSpec)
			for i, n := range vs.Names {
				if n.Name == name && i < len(vs.Values) {
					return eval(vs.Values[i])
				}
			}
		}
	}
	return 0, false
}

func Extract() *fx.Group {
	g := fx.NewGroup("Sqfs")
	put := func(name string, v int64, ok bool) {
		if !ok {
			g.Missing(name)
			return
		}
		g.Nat(name, v)
	}
	sq := fx.Parse("filesystem/squashfs/squashfs.go")
	sb := fx.Parse("filesystem/squashfs/superblock.go")
	in := fx.Parse("filesystem/squashfs/inode.go")
	v, ok := constVal(sq, "metadataBlockSize")
	put("metadataBlockSize", v, ok)
	v, ok = constVal(sq, "minBlocksize")
	put("minBlocksize", v, ok)
	v, ok = constVal(sq, "maxBlocksize")
	put("maxBlocksize", v, ok)
	v, ok = constVal(sb, "superblockSize")
	put("superblockSize", v, ok)
	v, ok = constVal(in, "inodeHeaderSize")
	put("inodeHeaderSize", v, ok)
	// the SeekEnd arm is owned by C10; here: how File.Read picks the first block
	fl := fx.Parse("filesystem/squashfs/file.go")
	if e := fx.AssignRHS(fx.FindFunc(fl, "File", "Read"), "startBlock"); e != nil {
		g.Str("read_startBlock_expr", fx.Src(e))
	} else {
		g.Missing("read_startBlock_expr")
	}
	// directory table constants (Model/Sqfs/Inode.lean)
	dr := fx.Parse("filesystem/squashfs/directory.go")
	v, ok = constVal(dr, "maxDirEntries")
	put("maxDirEntries", v, ok)
	v, ok = constVal(dr, "dirHeaderSize")
	put("dirHeaderSize", v, ok)
	v, ok = constVal(dr, "dirNameMaxSize")
	put("dirNameMaxSize", v, ok)
	// ---- region model (Model/Sqfs/Regions.lean) ---------------------------------------------------
	// the order in which Finalize calls its writers, and the FinalizeOptions fields the layout code
	// consults at all (outside the superblockFlags literal and outside assignments to them)
	fz := fx.Parse("filesystem/squashfs/finalize.go")
	if fn := fx.FindFunc(fz, "FileSystem", "Finalize"); fn != nil {
		writers := map[string]bool{"writeDataBlocks": true, "writeFragmentBlocks": true, "writeInodes": true, "writeDirectories": true,
			"writeFragmentTable": true, "writeExportTable": true, "writeIDTable": true, "writeXattrs": true}
		var order []string
		ast.Inspect(fn.Body, func(n ast.Node) bool {
			if ce, ok := n.(*ast.CallExpr); ok {
				if id, ok := ce.Fun.(*ast.Ident); ok && writers[id.Name] {
					order = append(order, id.Name)
				}
			}
			return true
		})
		g.Strs("finalize_writer_order", order)
	} else {
		g.Missing("finalize_writer_order")
	}
	if fz != nil {
		seen := map[string]bool{}
		for _, d := range fz.Decls {
			fd, ok := d.(*ast.FuncDecl)
			if !ok || fd.Body == nil {
				continue
			}
			var visit func(n ast.Node) bool
			visit = func(n ast.Node) bool {
				switch x := n.(type) {
				case *ast.CompositeLit:
					if id, ok := x.Type.(*ast.Ident); ok && id.Name == "superblockFlags" {
						return false
					}
				case *ast.AssignStmt:
					// options.X = true (forcing the flags when there is no compressor): look at the RHS only
					for _, r := range x.Rhs {
						ast.Inspect(r, visit)
					}
					for _, l := range x.Lhs {
						if se, ok := l.(*ast.SelectorExpr); ok {
							if id, ok := se.X.(*ast.Ident); ok && id.Name == "options" {
								continue
							}
						}
						ast.Inspect(l, visit)
					}
					return false
				case *ast.SelectorExpr:
					if id, ok := x.X.(*ast.Ident); ok && id.Name == "options" {
						seen[x.Sel.Name] = true
					}
				}
				return true
			}
			ast.Inspect(fd.Body, visit)
		}
		var names []string
		for k := range seen {
			names = append(names, k)
		}
		sort.Strings(names)
		g.Strs("finalize_options_consulted", names)
	} else {
		g.Missing("finalize_options_consulted")
	}
	return g
}
