package readonly

// The constructor table of C11: for every way the library offers of building a file backend
// (diskfs.Open x OpenModeOption, file.OpenFromPath x readOnly, file.OpenFromPathWithExclusive x
// readOnly x exclusive, file.New x readOnly) the os.OpenFile flags the constructor uses and the
// readOnly field of the rawBackend it returns.
//
// The rows are not read off the text: the constructor's body is EVALUATED (go/ast, a small abstract
// interpreter over booleans, integers, the os.O_* constants, the package-level mode map and calls
// between the constructors) for every concrete flag combination, so that a rewrite which keeps the
// behaviour (a switch instead of nested ifs, a helper function) regenerates the same rows and a
// rewrite which changes the behaviour of one combination changes exactly that row. A construct the
// interpreter does not understand yields ctorTable_missing := true and an empty table, which breaks
// facts_agree_ctor_table in Props/C11.lean.

import (
	"fmt"
	"go/ast"
	"go/token"
	"sort"
	"strconv"
	"strings"

	"verif/harness/internal/fx"
)

// Linux values of the os.O_* constants (os.O_RDONLY = syscall.O_RDONLY ...): the table is about Linux.
var osConst = map[string]int64{
	"os.O_RDONLY": 0, "os.O_WRONLY": 1, "os.O_RDWR": 2, "os.O_APPEND": 0x400, "os.O_CREATE": 0x40,
	"os.O_EXCL": 0x80, "os.O_SYNC": 0x101000, "os.O_TRUNC": 0x200,
}

type val struct {
	k string // "int" | "bool" | "nil" | "struct" | "unk"
	i int64
	b bool
	f map[string]val
}

var unk = val{k: "unk"}

func vint(i int64) val { return val{k: "int", i: i} }
func vbool(b bool) val { return val{k: "bool", b: b} }

type interp struct {
	files   map[string]*ast.File // package key ("file", "diskfs") -> file
	consts  map[string]map[string]int64
	maps    map[string]map[string]map[int64]int64 // pkg -> var -> key -> value
	opened  []int64                              // flags of the os.OpenFile calls executed
	err     string
	depth   int
	curPkg  string
	returns []val
}

func (in *interp) fail(format string, a ...any) {
	if in.err == "" {
		in.err = fmt.Sprintf(format, a...)
	}
}

// iotaConsts reads `const ( A T = iota; B; C )` blocks of f.
func iotaConsts(f *ast.File) map[string]int64 {
	out := map[string]int64{}
	if f == nil {
		return out
	}
	for _, d := range f.Decls {
		gd, ok := d.(*ast.GenDecl)
		if !ok || gd.Tok != token.CONST {
			continue
		}
		isIota := false
		for i, s := range gd.Specs {
			vs := s.(*ast.ValueSpec)
			if len(vs.Values) == 1 {
				if id, ok := vs.Values[0].(*ast.Ident); ok && id.Name == "iota" {
					isIota = true
				} else if bl, ok := vs.Values[0].(*ast.BasicLit); ok && bl.Kind == token.INT {
					isIota = false
					if v, err := strconv.ParseInt(bl.Value, 0, 64); err == nil && len(vs.Names) == 1 {
						out[vs.Names[0].Name] = v
					}
					continue
				} else {
					isIota = false
					continue
				}
			} else if len(vs.Values) != 0 {
				isIota = false
				continue
			}
			if isIota && len(vs.Names) == 1 {
				out[vs.Names[0].Name] = int64(i)
			}
		}
	}
	return out
}

// intMaps reads package-level `var m = map[K]int{ k: expr, ... }` whose keys are constants of the file.
func (in *interp) intMaps(pkg string, f *ast.File) map[string]map[int64]int64 {
	out := map[string]map[int64]int64{}
	if f == nil {
		return out
	}
	for _, d := range f.Decls {
		gd, ok := d.(*ast.GenDecl)
		if !ok || gd.Tok != token.VAR {
			continue
		}
		for _, s := range gd.Specs {
			vs := s.(*ast.ValueSpec)
			if len(vs.Names) != 1 || len(vs.Values) != 1 {
				continue
			}
			cl, ok := vs.Values[0].(*ast.CompositeLit)
			if !ok {
				continue
			}
			if _, isMap := cl.Type.(*ast.MapType); !isMap {
				continue
			}
			m := map[int64]int64{}
			good := true
			for _, e := range cl.Elts {
				kv, ok := e.(*ast.KeyValueExpr)
				if !ok {
					good = false
					break
				}
				save := in.curPkg
				in.curPkg = pkg
				k := in.eval(kv.Key, map[string]val{})
				v := in.eval(kv.Value, map[string]val{})
				in.curPkg = save
				if k.k != "int" || v.k != "int" {
					good = false
					break
				}
				m[k.i] = v.i
			}
			if good {
				out[vs.Names[0].Name] = m
			}
		}
	}
	return out
}

func (in *interp) eval(e ast.Expr, env map[string]val) val {
	switch x := e.(type) {
	case *ast.ParenExpr:
		return in.eval(x.X, env)
	case *ast.BasicLit:
		if x.Kind == token.INT {
			if v, err := strconv.ParseInt(x.Value, 0, 64); err == nil {
				return vint(v)
			}
		}
		return unk
	case *ast.Ident:
		switch x.Name {
		case "true":
			return vbool(true)
		case "false":
			return vbool(false)
		case "nil":
			return val{k: "nil"}
		}
		if v, ok := env[x.Name]; ok {
			return v
		}
		if v, ok := in.consts[in.curPkg][x.Name]; ok {
			return vint(v)
		}
		return unk
	case *ast.SelectorExpr:
		s := fx.Src(x)
		if v, ok := osConst[s]; ok {
			return vint(v)
		}
		if v, ok := env[s]; ok { // a tracked field such as opt.mode
			return v
		}
		return unk
	case *ast.UnaryExpr:
		v := in.eval(x.X, env)
		switch {
		case x.Op == token.NOT && v.k == "bool":
			return vbool(!v.b)
		case x.Op == token.XOR && v.k == "int":
			return vint(^v.i)
		case x.Op == token.SUB && v.k == "int":
			return vint(-v.i)
		case x.Op == token.AND: // &T{...}
			return v
		}
		return unk
	case *ast.BinaryExpr:
		a := in.eval(x.X, env)
		// short circuit on the left operand so that an unknown right operand does not poison a decided result
		if a.k == "bool" {
			if x.Op == token.LAND && !a.b {
				return vbool(false)
			}
			if x.Op == token.LOR && a.b {
				return vbool(true)
			}
		}
		b := in.eval(x.Y, env)
		if a.k == "bool" && b.k == "bool" {
			switch x.Op {
			case token.LAND:
				return vbool(a.b && b.b)
			case token.LOR:
				return vbool(a.b || b.b)
			case token.EQL:
				return vbool(a.b == b.b)
			case token.NEQ:
				return vbool(a.b != b.b)
			}
		}
		if a.k == "int" && b.k == "int" {
			switch x.Op {
			case token.OR:
				return vint(a.i | b.i)
			case token.AND:
				return vint(a.i & b.i)
			case token.AND_NOT:
				return vint(a.i &^ b.i)
			case token.XOR:
				return vint(a.i ^ b.i)
			case token.ADD:
				return vint(a.i + b.i)
			case token.SUB:
				return vint(a.i - b.i)
			case token.EQL:
				return vbool(a.i == b.i)
			case token.NEQ:
				return vbool(a.i != b.i)
			case token.LSS:
				return vbool(a.i < b.i)
			case token.GTR:
				return vbool(a.i > b.i)
			case token.LEQ:
				return vbool(a.i <= b.i)
			case token.GEQ:
				return vbool(a.i >= b.i)
			}
		}
		return unk
	case *ast.CompositeLit:
		st := val{k: "struct", f: map[string]val{}}
		for _, el := range x.Elts {
			if kv, ok := el.(*ast.KeyValueExpr); ok {
				if id, ok := kv.Key.(*ast.Ident); ok {
					st.f[id.Name] = in.eval(kv.Value, env)
				}
			}
		}
		return st
	case *ast.IndexExpr:
		if id, ok := x.X.(*ast.Ident); ok {
			if m, ok := in.maps[in.curPkg][id.Name]; ok {
				k := in.eval(x.Index, env)
				if k.k == "int" {
					return vint(m[k.i]) // zero value when absent, as in Go
				}
			}
		}
		return unk
	case *ast.CallExpr:
		rs := in.call(x, env)
		if len(rs) > 0 {
			return rs[0]
		}
		return unk
	}
	return unk
}

// resolve maps a callee to (package key, function declaration) for the functions the interpreter follows.
func (in *interp) resolve(fun ast.Expr) (string, *ast.FuncDecl) {
	switch f := fun.(type) {
	case *ast.Ident:
		if fd := fx.FindFunc(in.files[in.curPkg], "", f.Name); fd != nil {
			return in.curPkg, fd
		}
	case *ast.SelectorExpr:
		if id, ok := f.X.(*ast.Ident); ok && id.Name == "file" {
			if fd := fx.FindFunc(in.files["file"], "", f.Sel.Name); fd != nil {
				return "file", fd
			}
		}
	}
	return "", nil
}

var intConv = map[string]bool{"int": true, "int64": true, "uint": true, "uint32": true, "int32": true, "uint64": true}

func (in *interp) call(ce *ast.CallExpr, env map[string]val) []val {
	s := fx.Src(ce.Fun)
	if s == "os.OpenFile" && len(ce.Args) == 3 {
		fl := in.eval(ce.Args[1], env)
		if fl.k != "int" {
			in.fail("os.OpenFile flags not evaluable: %s", fx.Src(ce.Args[1]))
			return nil
		}
		in.opened = append(in.opened, fl.i)
		return []val{unk, val{k: "nil"}}
	}
	if id, ok := ce.Fun.(*ast.Ident); ok && intConv[id.Name] && len(ce.Args) == 1 {
		return []val{in.eval(ce.Args[0], env)}
	}
	if s == "initDisk" && len(ce.Args) >= 1 { // hands its first argument on as Disk.Backend
		return []val{in.eval(ce.Args[0], env), val{k: "nil"}}
	}
	pkg, fd := in.resolve(ce.Fun)
	if fd == nil || fd.Body == nil {
		for _, a := range ce.Args { // still evaluate arguments: an os.OpenFile call may hide in one
			in.eval(a, env)
		}
		return nil
	}
	// bind parameters
	nenv := map[string]val{}
	i := 0
	for _, fl := range fd.Type.Params.List {
		for _, n := range fl.Names {
			if i < len(ce.Args) {
				nenv[n.Name] = in.eval(ce.Args[i], env)
			} else {
				nenv[n.Name] = unk
			}
			i++
		}
	}
	return in.run(pkg, fd, nenv)
}

func (in *interp) run(pkg string, fd *ast.FuncDecl, env map[string]val) []val {
	if in.depth > 6 {
		in.fail("call depth")
		return nil
	}
	save := in.curPkg
	in.curPkg = pkg
	in.depth++
	rs, _ := in.block(fd.Body.List, env)
	in.depth--
	in.curPkg = save
	return rs
}

// errorExit: the block's last statement is `return ..., <non-nil>` with every earlier result nil / -1 / zero
func errorExit(b *ast.BlockStmt) bool {
	if b == nil || len(b.List) == 0 {
		return false
	}
	rs, ok := b.List[len(b.List)-1].(*ast.ReturnStmt)
	if !ok || len(rs.Results) == 0 {
		return false
	}
	last := rs.Results[len(rs.Results)-1]
	if id, ok := last.(*ast.Ident); ok && id.Name == "nil" {
		return false
	}
	for _, r := range rs.Results[:len(rs.Results)-1] {
		if id, ok := r.(*ast.Ident); !ok || id.Name != "nil" {
			return false
		}
	}
	return true
}

func assignedNames(n ast.Node) []string {
	var out []string
	ast.Inspect(n, func(n ast.Node) bool {
		switch x := n.(type) {
		case *ast.AssignStmt:
			for _, l := range x.Lhs {
				out = append(out, fx.Src(l))
			}
		case *ast.IncDecStmt:
			out = append(out, fx.Src(x.X))
		}
		return true
	})
	return out
}

// block executes statements; returns (results, true) when a return was executed.
func (in *interp) block(stmts []ast.Stmt, env map[string]val) ([]val, bool) {
	for _, st := range stmts {
		if in.err != "" {
			return nil, true
		}
		switch s := st.(type) {
		case *ast.ReturnStmt:
			var rs []val
			if len(s.Results) == 1 {
				if ce, ok := s.Results[0].(*ast.CallExpr); ok {
					return in.call(ce, env), true
				}
			}
			for _, r := range s.Results {
				rs = append(rs, in.eval(r, env))
			}
			return rs, true
		case *ast.AssignStmt:
			in.assign(s, env)
		case *ast.DeclStmt:
			if gd, ok := s.Decl.(*ast.GenDecl); ok && gd.Tok == token.VAR {
				for _, sp := range gd.Specs {
					vs := sp.(*ast.ValueSpec)
					for i, n := range vs.Names {
						if i < len(vs.Values) {
							env[n.Name] = in.eval(vs.Values[i], env)
						} else {
							env[n.Name] = unk
						}
					}
				}
			}
		case *ast.ExprStmt:
			in.eval(s.X, env)
		case *ast.IfStmt:
			if rs, done := in.ifStmt(s, env); done {
				return rs, true
			}
		case *ast.SwitchStmt:
			if rs, done := in.switchStmt(s, env); done {
				return rs, true
			}
		case *ast.BlockStmt:
			if rs, done := in.block(s.List, env); done {
				return rs, true
			}
		case *ast.RangeStmt, *ast.ForStmt:
			// loops (Open's option loop) are not followed: what they assign becomes unknown, and a loop
			// that can only leave through an error exit is taken as completing
			for _, n := range assignedNames(s) {
				env[n] = unk
			}
			bad := false
			ast.Inspect(s, func(n ast.Node) bool {
				if rs, ok := n.(*ast.ReturnStmt); ok {
					if len(rs.Results) == 0 {
						bad = true
					} else if id, ok := rs.Results[len(rs.Results)-1].(*ast.Ident); ok && id.Name == "nil" {
						bad = true
					}
				}
				if ce, ok := n.(*ast.CallExpr); ok && fx.Src(ce.Fun) == "os.OpenFile" {
					bad = true
				}
				return true
			})
			if bad {
				in.fail("loop with a success return or an open")
			}
		case *ast.DeferStmt, *ast.EmptyStmt:
		default:
			in.fail("statement %T not understood", st)
		}
	}
	return nil, false
}

func (in *interp) assign(s *ast.AssignStmt, env map[string]val) {
	name := func(e ast.Expr) string { return fx.Src(e) }
	if len(s.Lhs) == 1 && len(s.Rhs) == 1 {
		l := name(s.Lhs[0])
		r := in.eval(s.Rhs[0], env)
		switch s.Tok {
		case token.DEFINE, token.ASSIGN:
			env[l] = r
			if r.k == "struct" { // opt := &openOpts{mode: X}: expose the fields as opt.mode
				for k, v := range r.f {
					env[l+"."+k] = v
				}
			}
		default:
			old, ok := env[l]
			if !ok || old.k != "int" || r.k != "int" {
				env[l] = unk
				return
			}
			switch s.Tok {
			case token.OR_ASSIGN:
				env[l] = vint(old.i | r.i)
			case token.AND_ASSIGN:
				env[l] = vint(old.i & r.i)
			case token.AND_NOT_ASSIGN:
				env[l] = vint(old.i &^ r.i)
			case token.XOR_ASSIGN:
				env[l] = vint(old.i ^ r.i)
			case token.ADD_ASSIGN:
				env[l] = vint(old.i + r.i)
			default:
				env[l] = unk
			}
		}
		return
	}
	if len(s.Lhs) == 2 && len(s.Rhs) == 1 {
		// m, ok := table[key]
		if ix, ok := s.Rhs[0].(*ast.IndexExpr); ok {
			if id, ok := ix.X.(*ast.Ident); ok {
				if m, ok := in.maps[in.curPkg][id.Name]; ok {
					k := in.eval(ix.Index, env)
					if k.k == "int" {
						v, present := m[k.i]
						env[name(s.Lhs[0])] = vint(v)
						env[name(s.Lhs[1])] = vbool(present)
						return
					}
				}
			}
		}
		if ce, ok := s.Rhs[0].(*ast.CallExpr); ok {
			rs := in.call(ce, env)
			for i, l := range s.Lhs {
				if i < len(rs) {
					env[name(l)] = rs[i]
				} else {
					env[name(l)] = unk
				}
			}
			return
		}
	}
	if len(s.Lhs) == len(s.Rhs) {
		for i := range s.Lhs {
			env[name(s.Lhs[i])] = in.eval(s.Rhs[i], env)
		}
		return
	}
	for _, l := range s.Lhs {
		env[name(l)] = unk
	}
}

func (in *interp) ifStmt(s *ast.IfStmt, env map[string]val) ([]val, bool) {
	if s.Init != nil {
		if as, ok := s.Init.(*ast.AssignStmt); ok {
			in.assign(as, env)
		}
	}
	c := in.eval(s.Cond, env)
	if c.k == "bool" {
		if c.b {
			return in.block(s.Body.List, env)
		}
		switch e := s.Else.(type) {
		case *ast.BlockStmt:
			return in.block(e.List, env)
		case *ast.IfStmt:
			return in.ifStmt(e, env)
		}
		return nil, false
	}
	// undecided condition: only an argument / OS check that leaves with an error may be skipped
	if s.Else == nil && errorExit(s.Body) {
		return nil, false
	}
	in.fail("condition not evaluable: %s", fx.Src(s.Cond))
	return nil, true
}

func (in *interp) switchStmt(s *ast.SwitchStmt, env map[string]val) ([]val, bool) {
	if s.Init != nil {
		if as, ok := s.Init.(*ast.AssignStmt); ok {
			in.assign(as, env)
		}
	}
	var tag *val
	if s.Tag != nil {
		t := in.eval(s.Tag, env)
		if t.k != "int" && t.k != "bool" {
			in.fail("switch tag not evaluable: %s", fx.Src(s.Tag))
			return nil, true
		}
		tag = &t
	}
	var def *ast.CaseClause
	for _, c := range s.Body.List {
		cc := c.(*ast.CaseClause)
		if cc.List == nil {
			def = cc
			continue
		}
		for _, e := range cc.List {
			v := in.eval(e, env)
			hit := false
			switch {
			case tag == nil && v.k == "bool":
				hit = v.b
			case tag != nil && tag.k == "int" && v.k == "int":
				hit = tag.i == v.i
			case tag != nil && tag.k == "bool" && v.k == "bool":
				hit = tag.b == v.b
			default:
				in.fail("switch case not evaluable: %s", fx.Src(e))
				return nil, true
			}
			if hit {
				return in.caseBody(cc, env)
			}
		}
	}
	if def != nil {
		return in.caseBody(def, env)
	}
	return nil, false
}

func (in *interp) caseBody(cc *ast.CaseClause, env map[string]val) ([]val, bool) {
	for _, st := range cc.Body {
		if br, ok := st.(*ast.BranchStmt); ok && br.Tok == token.FALLTHROUGH {
			in.fail("fallthrough")
			return nil, true
		}
	}
	return in.block(cc.Body, env)
}

// constructor ids of the table (Lean: Diskfs.ReadOnly.CtorRow.ctor)
const (
	ctorOpen          = 0
	ctorFromPath      = 1
	ctorFromPathExcl  = 2
	ctorNew           = 3
	ctorCreateFromPth = 4
)

// one row: ctor, a (Open: the OpenModeOption value; others: readOnly 0/1), b (exclusive 0/1),
// opened (0 = the constructor does not open a file, 1 = it does, 2 = it fails before opening),
// flags, readOnly field (0/1)
func (in *interp) row(pkg string, fd *ast.FuncDecl, env map[string]val, ctor, a, b int64) []int64 {
	in.opened = nil
	in.err = ""
	rs := in.run(pkg, fd, env)
	if in.err != "" {
		return nil
	}
	if len(rs) == 0 {
		in.fail("no result")
		return nil
	}
	bk := rs[0]
	if bk.k == "nil" && len(in.opened) == 0 {
		return []int64{ctor, a, b, 2, 0, 1} // refused: no backend at all
	}
	if bk.k != "struct" {
		in.fail("result is not a backend literal")
		return nil
	}
	ro, ok := bk.f["readOnly"]
	if !ok || ro.k != "bool" {
		in.fail("readOnly field not evaluable")
		return nil
	}
	if len(in.opened) > 1 {
		in.fail("more than one os.OpenFile")
		return nil
	}
	r := []int64{ctor, a, b, int64(len(in.opened)), 0, 0}
	if len(in.opened) == 1 {
		r[4] = in.opened[0]
	}
	if ro.b {
		r[5] = 1
	}
	return r
}

func b2v(b int64) val { return vbool(b == 1) }

// ctorFacts appends the constructor table and the facts around it.
func ctorFacts(g *fx.Group) {
	ff := fx.Parse("backend/file/file.go")
	df := fx.Parse("diskfs.go")
	in := &interp{files: map[string]*ast.File{"file": ff, "diskfs": df}}
	in.consts = map[string]map[string]int64{"file": iotaConsts(ff), "diskfs": iotaConsts(df)}
	in.maps = map[string]map[string]map[int64]int64{}
	in.maps["file"] = in.intMaps("file", ff)
	in.maps["diskfs"] = in.intMaps("diskfs", df)

	var flat []int64
	var why []string
	add := func(r []int64, what string) {
		if r == nil {
			why = append(why, what+": "+in.err)
			return
		}
		flat = append(flat, r...)
	}
	dc := in.consts["diskfs"]
	modes := []string{"ReadOnly", "ReadWriteExclusive", "ReadWrite"}
	for _, m := range modes {
		if _, ok := dc[m]; !ok {
			why = append(why, "OpenModeOption constant "+m+" not found")
		}
	}
	g.Nat("openModeReadOnly", dc["ReadOnly"])
	g.Nat("openModeReadWriteExclusive", dc["ReadWriteExclusive"])
	g.Nat("openModeReadWrite", dc["ReadWrite"])

	// diskfs.Open: the body from the mode lookup on, with opt.mode as the input
	if fd := fx.FindFunc(df, "", "Open"); fd != nil {
		vals := []int64{dc["ReadOnly"], dc["ReadWriteExclusive"], dc["ReadWrite"], 7} // 7: not an OpenModeOption
		for _, m := range vals {
			env := map[string]val{"opt.mode": vint(m)}
			add(in.rowOpen(fd, env, m), fmt.Sprintf("Open(mode=%d)", m))
		}
	} else {
		why = append(why, "diskfs.Open not found")
	}
	// the default mode of Open
	def := int64(-1)
	if fd := fx.FindFunc(df, "", "openOptsDefaults"); fd != nil {
		in.err = ""
		rs := in.run("diskfs", fd, map[string]val{})
		if len(rs) == 1 && rs[0].k == "struct" && rs[0].f["mode"].k == "int" {
			def = rs[0].f["mode"].i
		}
	}
	if def < 0 {
		why = append(why, "default mode of Open not evaluable")
		def = 99
	}
	g.Nat("openDefaultMode", def)

	if fd := fx.FindFunc(ff, "", "OpenFromPath"); fd != nil && len(paramNames(fd)) == 2 {
		p := paramNames(fd)
		for ro := int64(0); ro < 2; ro++ {
			add(in.row("file", fd, map[string]val{p[0]: unk, p[1]: b2v(ro)}, ctorFromPath, ro, 0), fmt.Sprintf("OpenFromPath(ro=%d)", ro))
		}
	} else {
		why = append(why, "file.OpenFromPath(path, readOnly) not found")
	}
	if fd := fx.FindFunc(ff, "", "OpenFromPathWithExclusive"); fd != nil && len(paramNames(fd)) == 3 {
		p := paramNames(fd)
		for ro := int64(0); ro < 2; ro++ {
			for ex := int64(0); ex < 2; ex++ {
				add(in.row("file", fd, map[string]val{p[0]: unk, p[1]: b2v(ro), p[2]: b2v(ex)}, ctorFromPathExcl, ro, ex),
					fmt.Sprintf("OpenFromPathWithExclusive(ro=%d,excl=%d)", ro, ex))
			}
		}
	} else {
		why = append(why, "file.OpenFromPathWithExclusive(path, readOnly, exclusive) not found")
	}
	if fd := fx.FindFunc(ff, "", "New"); fd != nil && len(paramNames(fd)) == 2 {
		p := paramNames(fd)
		for ro := int64(0); ro < 2; ro++ {
			add(in.row("file", fd, map[string]val{p[0]: unk, p[1]: b2v(ro)}, ctorNew, ro, 0), fmt.Sprintf("New(ro=%d)", ro))
		}
	} else {
		why = append(why, "file.New(f, readOnly) not found")
	}
	if fd := fx.FindFunc(ff, "", "CreateFromPath"); fd != nil && len(paramNames(fd)) == 2 {
		p := paramNames(fd)
		add(in.row("file", fd, map[string]val{p[0]: unk, p[1]: unk}, ctorCreateFromPth, 0, 0), "CreateFromPath")
	} else {
		why = append(why, "file.CreateFromPath not found")
	}
	if len(why) > 0 {
		g.Missing("ctorTable")
		g.Strs("ctorTableProblems", why)
		flat = nil
	}
	g.Nats("ctorTable", flat)

	// the exported functions that hand out a backend / a Disk: a new one must get its rows before the tie holds again
	g.Strs("fileCtorNames", exportedReturning(ff, "backend.Storage"))
	g.Strs("diskCtorNames", exportedReturning(df, "*disk.Disk"))

	// as-found switch: does diskfs.OpenBackend act on the mode option it parses (a statement other than the
	// options literal and the options loop reads opt.mode)?
	g.Bool("openBackendHonoursMode", openBackendReadsMode(df))

	// SubStorage.Writable: the first statement asks the underlying storage and a refusal is handed on
	g.Bool("subWritablePropagatesRefusal", subPropagates())
	// rawBackend.Writable has no other input than the readOnly field and the dynamic type of the handle
	g.Bool("fileWritableReadsOnlyReadOnlyField", writableInputs())
}

func paramNames(fd *ast.FuncDecl) []string {
	var out []string
	for _, fl := range fd.Type.Params.List {
		for _, n := range fl.Names {
			out = append(out, n.Name)
		}
	}
	return out
}

// rowOpen evaluates diskfs.Open from the statement that looks the mode up: the statements before it
// (checkDevice, the option loop) only establish opt.mode, which is the row's input.
func (in *interp) rowOpen(fd *ast.FuncDecl, env map[string]val, mode int64) []int64 {
	in.opened = nil
	in.err = ""
	start := -1
	for i, st := range fd.Body.List {
		if strings.Contains(fx.Src(st), "opt.mode") {
			start = i
			break
		}
	}
	if start < 0 {
		in.fail("no statement of Open reads opt.mode")
		return nil
	}
	// nothing before that statement may open a file or return success
	for _, st := range fd.Body.List[:start] {
		bad := false
		ast.Inspect(st, func(n ast.Node) bool {
			if ce, ok := n.(*ast.CallExpr); ok && fx.Src(ce.Fun) == "os.OpenFile" {
				bad = true
			}
			if rs, ok := n.(*ast.ReturnStmt); ok && len(rs.Results) > 0 {
				if id, ok := rs.Results[len(rs.Results)-1].(*ast.Ident); ok && id.Name == "nil" {
					bad = true
				}
			}
			return true
		})
		if bad {
			in.fail("Open opens a file or returns before reading opt.mode")
			return nil
		}
	}
	tail := &ast.FuncDecl{Name: fd.Name, Type: fd.Type, Body: &ast.BlockStmt{List: fd.Body.List[start:]}}
	return in.row("diskfs", tail, env, ctorOpen, mode, 0)
}

func subPropagates() bool {
	fd := fx.FindFunc(fx.Parse("backend/substorage.go"), "SubStorage", "Writable")
	if fd == nil || len(fd.Body.List) < 2 {
		return false
	}
	as, ok := fd.Body.List[0].(*ast.AssignStmt)
	if !ok || len(as.Lhs) != 2 || len(as.Rhs) != 1 || !strings.HasSuffix(fx.Src(as.Rhs[0]), ".underlying.Writable()") {
		return false
	}
	errName := fx.Src(as.Lhs[1])
	is, ok := fd.Body.List[1].(*ast.IfStmt)
	if !ok || fx.Src(is.Cond) != errName+" != nil" || len(is.Body.List) != 1 {
		return false
	}
	rs, ok := is.Body.List[0].(*ast.ReturnStmt)
	return ok && len(rs.Results) == 2 && fx.Src(rs.Results[0]) == "nil" && fx.Src(rs.Results[1]) == errName
}

// writableInputs: every identifier/selector read by rawBackend.Writable's conditions is the receiver's
// readOnly or storage field
func writableInputs() bool {
	fd := fx.FindFunc(fx.Parse("backend/file/file.go"), "rawBackend", "Writable")
	if fd == nil {
		return false
	}
	recv := recvName(fd)
	ok := true
	ast.Inspect(fd.Body, func(n ast.Node) bool {
		is, isIf := n.(*ast.IfStmt)
		if !isIf {
			return true
		}
		ast.Inspect(is.Cond, func(m ast.Node) bool {
			if se, isSel := m.(*ast.SelectorExpr); isSel {
				if id, isId := se.X.(*ast.Ident); isId && id.Name == recv && se.Sel.Name != "readOnly" && se.Sel.Name != "storage" {
					ok = false
				}
			}
			if _, isCall := m.(*ast.CallExpr); isCall {
				ok = false
			}
			return true
		})
		return true
	})
	return ok
}

// exportedReturning lists the exported plain functions of f whose first result has the given type.
func exportedReturning(f *ast.File, typ string) []string {
	var out []string
	if f == nil {
		return out
	}
	for _, d := range f.Decls {
		fd, ok := d.(*ast.FuncDecl)
		if !ok || fd.Recv != nil || !fd.Name.IsExported() || fd.Type.Results == nil || len(fd.Type.Results.List) == 0 {
			continue
		}
		if fx.Src(fd.Type.Results.List[0].Type) == typ {
			out = append(out, fd.Name.Name)
		}
	}
	sort.Strings(out)
	return out
}

func openBackendReadsMode(df *ast.File) bool {
	fd := fx.FindFunc(df, "", "OpenBackend")
	if fd == nil {
		return false
	}
	for _, st := range fd.Body.List {
		switch st.(type) {
		case *ast.RangeStmt, *ast.ForStmt:
			continue
		}
		if as, ok := st.(*ast.AssignStmt); ok && len(as.Rhs) == 1 {
			if _, isLit := as.Rhs[0].(*ast.UnaryExpr); isLit {
				continue // opt := &openOpts{...}
			}
			if _, isLit := as.Rhs[0].(*ast.CompositeLit); isLit {
				continue
			}
		}
		if strings.Contains(fx.Src(st), "opt.mode") {
			return true
		}
	}
	return false
}
