// Package readonly extracts the C11 facts:
//  1. every WriteAt call site in non-test code has a receiver that is a backend.WritableFile
//     obtained from a Writable() call in the same function, or handed in as a parameter / field
//     of that type (the call sites are listed for the evidence);
//  2. type assertions that could turn a read-only storage into something writable exist only
//     in backend/file/file.go;
//  3. for each mutating method of iso9660.FileSystem / squashfs.FileSystem the class of its
//     read-only guard;
//  4. whether OpenFile (FAT, ext4) and Create (iso9660, squashfs) ask for a writer themselves.
package readonly

import (
	"fmt"
	"go/ast"
	"go/token"
	"os"
	"path/filepath"
	"sort"
	"strings"

	"verif/harness/internal/fx"
)

func goFiles() []string {
	var out []string
	root := fx.Repo()
	filepath.Walk(root, func(p string, info os.FileInfo, err error) error {
		if err != nil {
			return nil
		}
		if info.IsDir() {
			n := info.Name()
			if n == ".git" || n == "examples" || n == "testdata" || n == "testhelper" {
				return filepath.SkipDir
			}
			return nil
		}
		if !strings.HasSuffix(p, ".go") || strings.HasSuffix(p, "_test.go") || strings.HasPrefix(info.Name(), "zz_verif_hooks") {
			return nil
		}
		rel, _ := filepath.Rel(root, p)
		out = append(out, filepath.ToSlash(rel))
		return nil
	})
	sort.Strings(out)
	return out
}

func isWritableType(e ast.Expr) bool {
	s := fx.Src(e)
	return s == "backend.WritableFile" || s == "WritableFile"
}

// classify the receiver of a WriteAt call inside fd.
func classify(f *ast.File, fd *ast.FuncDecl, recv ast.Expr) string {
	switch r := recv.(type) {
	case *ast.Ident:
		// parameter of type WritableFile?
		if fd.Type.Params != nil {
			for _, fl := range fd.Type.Params.List {
				for _, n := range fl.Names {
					if n.Name == r.Name && isWritableType(fl.Type) {
						return "param"
					}
				}
			}
		}
		// local assigned from X.Writable() anywhere in the function (also seen from closures)
		found := ""
		ast.Inspect(fd.Body, func(n ast.Node) bool {
			as, ok := n.(*ast.AssignStmt)
			if !ok || found != "" {
				return true
			}
			for i, l := range as.Lhs {
				id, ok := l.(*ast.Ident)
				if !ok || id.Name != r.Name {
					continue
				}
				if len(as.Rhs) == 1 && i == 0 {
					if ce, ok := as.Rhs[0].(*ast.CallExpr); ok {
						if se, ok := ce.Fun.(*ast.SelectorExpr); ok && se.Sel.Name == "Writable" && len(ce.Args) == 0 {
							found = "writable"
						}
					}
				}
			}
			return true
		})
		if found != "" {
			return found
		}
		// closure parameter of type WritableFile
		cl := ""
		ast.Inspect(fd.Body, func(n ast.Node) bool {
			fl, ok := n.(*ast.FuncLit)
			if !ok || fl.Type.Params == nil {
				return true
			}
			for _, p := range fl.Type.Params.List {
				for _, n := range p.Names {
					if n.Name == r.Name && isWritableType(p.Type) {
						cl = "param"
					}
				}
			}
			return true
		})
		if cl != "" {
			return cl
		}
		return "unknown"
	case *ast.SelectorExpr:
		// field of a struct in the same file whose declared type is WritableFile
		for _, d := range f.Decls {
			gd, ok := d.(*ast.GenDecl)
			if !ok || gd.Tok != token.TYPE {
				continue
			}
			for _, s := range gd.Specs {
				ts := s.(*ast.TypeSpec)
				st, ok := ts.Type.(*ast.StructType)
				if !ok {
					continue
				}
				for _, fl := range st.Fields.List {
					for _, n := range fl.Names {
						if n.Name == r.Sel.Name && isWritableType(fl.Type) {
							return "field"
						}
					}
					// an embedded backend.WritableFile is a field of that type too, named WritableFile
					if len(fl.Names) == 0 && r.Sel.Name == "WritableFile" && isWritableType(fl.Type) {
						return "field"
					}
				}
			}
		}
		return "unknown"
	}
	return "unknown"
}

// ---- guards ---------------------------------------------------------------------------------------

var methods = []string{"Mkdir", "Mknod", "Link", "Symlink", "Chmod", "Chown", "Chtimes", "OpenFile", "Rename", "Remove", "SetLabel", "Write"}

func recvName(fd *ast.FuncDecl) string {
	if fd.Recv != nil && len(fd.Recv.List) > 0 && len(fd.Recv.List[0].Names) > 0 {
		return fd.Recv.List[0].Names[0].Name
	}
	return ""
}

// isWorkspaceEmpty: `<recv>.workspace == ""`
func isWorkspaceEmpty(e ast.Expr, recv string) bool {
	be, ok := e.(*ast.BinaryExpr)
	if !ok || be.Op != token.EQL {
		return false
	}
	se, ok := be.X.(*ast.SelectorExpr)
	if !ok || se.Sel.Name != "workspace" {
		return false
	}
	if id, ok := se.X.(*ast.Ident); !ok || id.Name != recv {
		return false
	}
	bl, ok := be.Y.(*ast.BasicLit)
	return ok && bl.Value == `""`
}

// returnsNonNilError: the last result is an expression other than the identifiers nil / err
// (a selector such as filesystem.ErrReadonlyFilesystem, or a call such as fmt.Errorf(...))
func returnsNonNilError(rs *ast.ReturnStmt) bool {
	if len(rs.Results) == 0 {
		return false
	}
	last := rs.Results[len(rs.Results)-1]
	if id, ok := last.(*ast.Ident); ok && (id.Name == "nil" || id.Name == "err") {
		return false
	}
	return true
}

// isValidateIf: `if err := validatePath(x); err != nil { return [nil,] err }`
func isValidateIf(st ast.Stmt) bool {
	is, ok := st.(*ast.IfStmt)
	if !ok || is.Init == nil || is.Else != nil {
		return false
	}
	as, ok := is.Init.(*ast.AssignStmt)
	if !ok || len(as.Rhs) != 1 {
		return false
	}
	ce, ok := as.Rhs[0].(*ast.CallExpr)
	if !ok || fx.Src(ce.Fun) != "validatePath" {
		return false
	}
	return fx.Src(is.Cond) == "err != nil" && len(is.Body.List) == 1
}

var pureCalls = map[string]bool{"validatePath": true, "path.Dir": true, "path.Base": true, "fmt.Errorf": true, "errors.New": true}

// pure: the statement has no call other than the whitelisted pure ones and assigns no field
func pure(st ast.Stmt) bool {
	ok := true
	ast.Inspect(st, func(n ast.Node) bool {
		switch x := n.(type) {
		case *ast.CallExpr:
			if !pureCalls[fx.Src(x.Fun)] {
				ok = false
			}
		case *ast.AssignStmt:
			for _, l := range x.Lhs {
				if _, isSel := l.(*ast.SelectorExpr); isSel {
					ok = false
				}
			}
		case *ast.GoStmt, *ast.DeferStmt, *ast.SendStmt:
			ok = false
		}
		return true
	})
	return ok
}

// guardClass: 0 none, 1 guard-first, 2 const-error, 3 openfile-guard
func guardClass(fd *ast.FuncDecl) int64 {
	if fd == nil || fd.Body == nil {
		return 0
	}
	recv := recvName(fd)
	stmts := fd.Body.List
	// 2: the body is pure and every return carries a non-nil error
	allPure, allErr, nret := true, true, 0
	for _, st := range stmts {
		if !pure(st) {
			allPure = false
		}
	}
	for _, st := range stmts {
		if isValidateIf(st) {
			continue // returns the (non-nil) validation error
		}
		ast.Inspect(st, func(n ast.Node) bool {
			if rs, ok := n.(*ast.ReturnStmt); ok {
				nret++
				if !returnsNonNilError(rs) {
					allErr = false
				}
			}
			return true
		})
	}
	if allPure && allErr && nret > 0 {
		return 2
	}
	for _, st := range stmts {
		if is, ok := st.(*ast.IfStmt); ok && is.Init == nil && isWorkspaceEmpty(is.Cond, recv) {
			// 1: first statement of the branch returns a non-nil error
			if len(is.Body.List) > 0 {
				if rs, ok := is.Body.List[0].(*ast.ReturnStmt); ok && returnsNonNilError(rs) {
					return 1
				}
				// 3: `if writeMode { return nil, Err }` first, and the rest of the branch is call-free of os.* / Writable
				if in, ok := is.Body.List[0].(*ast.IfStmt); ok && len(in.Body.List) > 0 {
					if id, ok := in.Cond.(*ast.Ident); ok && id.Name == "writeMode" {
						if rs, ok := in.Body.List[0].(*ast.ReturnStmt); ok && returnsNonNilError(rs) && writeModeCovers(fd) {
							clean := true
							ast.Inspect(is.Body, func(n ast.Node) bool {
								if ce, ok := n.(*ast.CallExpr); ok {
									s := fx.Src(ce.Fun)
									if strings.HasPrefix(s, "os.") || strings.HasSuffix(s, ".Writable") || strings.HasSuffix(s, ".WriteAt") {
										clean = false
									}
								}
								return true
							})
							if clean {
								return 3
							}
						}
					}
				}
			}
			return 0
		}
		if !pure(st) {
			return 0 // an effect precedes the guard
		}
	}
	return 0
}

// writeModeCovers: writeMode := OR of flag&os.O_X != 0 for X in WRONLY RDWR APPEND CREATE TRUNC
func writeModeCovers(fd *ast.FuncDecl) bool {
	e := fx.AssignRHS(fd, "writeMode")
	if e == nil {
		return false
	}
	s := fx.Src(e)
	for _, f := range []string{"os.O_WRONLY", "os.O_RDWR", "os.O_APPEND", "os.O_CREATE", "os.O_TRUNC"} {
		if !strings.Contains(s, "flag&"+f+" != 0") && !strings.Contains(s, "flag & "+f+" != 0") {
			return false
		}
	}
	return !strings.Contains(s, "&&")
}

func callsWritable(fd *ast.FuncDecl) bool {
	if fd == nil {
		return false
	}
	found := false
	ast.Inspect(fd.Body, func(n ast.Node) bool {
		if ce, ok := n.(*ast.CallExpr); ok {
			if se, ok := ce.Fun.(*ast.SelectorExpr); ok && se.Sel.Name == "Writable" && len(ce.Args) == 0 {
				found = true
			}
		}
		return true
	})
	return found
}

// Extract builds Generated/ReadOnly.lean.
func Extract() *fx.Group {
	g := fx.NewGroup("ReadOnly")
	var sites, unknown, asserts []string
	for _, rel := range goFiles() {
		f := fx.Parse(rel)
		if f == nil {
			continue
		}
		for _, d := range f.Decls {
			fd, ok := d.(*ast.FuncDecl)
			if !ok || fd.Body == nil {
				continue
			}
			ast.Inspect(fd.Body, func(n ast.Node) bool {
				switch x := n.(type) {
				case *ast.CallExpr:
					if se, ok := x.Fun.(*ast.SelectorExpr); ok && se.Sel.Name == "WriteAt" {
						cl := classify(f, fd, se.X)
						s := fmt.Sprintf("%s:%s:%s:%s", rel, fd.Name.Name, fx.Src(se.X), cl)
						sites = append(sites, s)
						if cl == "unknown" {
							unknown = append(unknown, s)
						}
					}
				case *ast.TypeAssertExpr:
					if x.Type != nil {
						t := fx.Src(x.Type)
						if t == "backend.WritableFile" || t == "WritableFile" || t == "io.WriterAt" || t == "io.Writer" || t == "io.ReadWriter" {
							asserts = append(asserts, rel+":"+fd.Name.Name+":"+t)
						}
					}
				}
				return true
			})
		}
	}
	g.Strs("writeAtSites", sites)
	g.Nat("writeAtTotal", int64(len(sites)))
	g.Strs("writeAtUnknownSites", unknown)
	g.Nat("writeAtUnknown", int64(len(unknown)))
	outside := 0
	for _, a := range asserts {
		if !strings.HasPrefix(a, "backend/file/file.go:Writable:") {
			outside++
		}
	}
	g.Strs("writerAssertions", asserts)
	g.Nat("writerAssertionsOutsideBackend", int64(outside))

	// guard classes
	for _, pk := range []string{"iso9660", "squashfs"} {
		var rows [][2]int64
		var names []string
		main := fx.Parse("filesystem/" + pk + "/" + pk + ".go")
		file := fx.Parse("filesystem/" + pk + "/file.go")
		for i, m := range methods {
			var fd *ast.FuncDecl
			if m == "Write" {
				fd = fx.FindFunc(file, "File", "Write")
			} else {
				fd = fx.FindFunc(main, "FileSystem", m)
			}
			c := guardClass(fd)
			rows = append(rows, [2]int64{int64(i), c})
			names = append(names, fmt.Sprintf("%s=%d", m, c))
		}
		g.NatPairs(pk+"Guards", rows)
		g.Strs(pk+"GuardNames", names)
	}
	// as-found switches
	g.Bool("fatOpenFileChecksWritable", callsWritable(fx.FindFunc(fx.Parse("filesystem/fat12/fat12.go"), "FileSystem", "OpenFile")))
	g.Bool("ext4OpenFileChecksWritable", callsWritable(fx.FindFunc(fx.Parse("filesystem/ext4/ext4.go"), "FileSystem", "OpenFile")))
	g.Bool("isoCreateChecksWritable", callsWritable(fx.FindFunc(fx.Parse("filesystem/iso9660/iso9660.go"), "", "Create")))
	g.Bool("sqfsCreateChecksWritable", callsWritable(fx.FindFunc(fx.Parse("filesystem/squashfs/squashfs.go"), "", "Create")))
	// backend/file: Writable refuses when readOnly (the root of the capability)
	g.Bool("fileWritableRefusesReadOnly", writableRefuses())
	g.Bool("openReadOnlyMapsToReadOnlyBackend", openMapsReadOnly())
	// the constructor table (ctor.go): every constructor x flags evaluated to (os.OpenFile flags, readOnly field)
	ctorFacts(g)
	return g
}

// writableRefuses: rawBackend.Writable returns the file only under `!f.readOnly`
func writableRefuses() bool {
	fd := fx.FindFunc(fx.Parse("backend/file/file.go"), "rawBackend", "Writable")
	if fd == nil {
		return false
	}
	ok := false
	ast.Inspect(fd.Body, func(n ast.Node) bool {
		is, isIf := n.(*ast.IfStmt)
		if !isIf {
			return true
		}
		if ue, isU := is.Cond.(*ast.UnaryExpr); isU && ue.Op == token.NOT && strings.HasSuffix(fx.Src(ue.X), ".readOnly") {
			// the only return of a non-nil first result must be inside this if
			for _, st := range is.Body.List {
				if rs, isR := st.(*ast.ReturnStmt); isR && len(rs.Results) == 2 {
					if id, isId := rs.Results[0].(*ast.Ident); isId && id.Name != "nil" {
						ok = true
					}
				}
			}
		}
		return true
	})
	if !ok {
		return false
	}
	// no other return hands out a non-nil writer
	cnt := 0
	ast.Inspect(fd.Body, func(n ast.Node) bool {
		if rs, isR := n.(*ast.ReturnStmt); isR && len(rs.Results) == 2 {
			if id, isId := rs.Results[0].(*ast.Ident); !isId || id.Name != "nil" {
				cnt++
			}
		}
		return true
	})
	return cnt == 1
}

// openMapsReadOnly: diskfs.Open builds its backend with file.New(f, !writableMode(opt.mode)) and
// writableMode answers from the O_RDWR / O_WRONLY bits of the mode table
func openMapsReadOnly() bool {
	f := fx.Parse("diskfs.go")
	fd := fx.FindFunc(f, "", "Open")
	wm := fx.FindFunc(f, "", "writableMode")
	if fd == nil || wm == nil {
		return false
	}
	a := strings.Contains(fx.Src(fd.Body), "file.New(f, !writableMode(opt.mode))")
	b := strings.Contains(fx.Src(wm.Body), "os.O_RDWR") && strings.Contains(fx.Src(wm.Body), "os.O_WRONLY")
	return a && b
}
