// Package syncfs extracts the facts the C16 model is defined over (parameters) or relies on (pins)
// from sync/copy.go and sync/verify.go.
package syncfs

import (
	"go/ast"
	"go/token"
	"sort"
	"strconv"
	"strings"

	"verif/harness/internal/fx"
)

// eval evaluates an integer constant expression made of literals, + - * / << and known constants.
func eval(e ast.Expr, env map[string]int64) (int64, bool) {
	switch x := e.(type) {
	case *ast.BasicLit:
		if x.Kind != token.INT {
			return 0, false
		}
		v, err := strconv.ParseInt(strings.ReplaceAll(x.Value, "_", ""), 0, 64)
		return v, err == nil
	case *ast.ParenExpr:
		return eval(x.X, env)
	case *ast.Ident:
		v, ok := env[x.Name]
		return v, ok
	case *ast.BinaryExpr:
		a, ok1 := eval(x.X, env)
		b, ok2 := eval(x.Y, env)
		if !ok1 || !ok2 {
			return 0, false
		}
		switch x.Op {
		case token.MUL:
			return a * b, true
		case token.ADD:
			return a + b, true
		case token.SUB:
			return a - b, true
		case token.SHL:
			return a << uint(b), true
		case token.QUO:
			if b == 0 {
				return 0, false
			}
			return a / b, true
		}
	}
	return 0, false
}

// constDecl finds `const name = expr` at file level or inside fn.
func constDecl(root ast.Node, name string) ast.Expr {
	var res ast.Expr
	ast.Inspect(root, func(n ast.Node) bool {
		if res != nil {
			return false
		}
		if vs, ok := n.(*ast.ValueSpec); ok {
			for i, id := range vs.Names {
				if id.Name == name && i < len(vs.Values) {
					res = vs.Values[i]
					return false
				}
			}
		}
		return true
	})
	return res
}

func flagIdents(e ast.Expr, out *[]string) bool {
	switch x := e.(type) {
	case *ast.BinaryExpr:
		if x.Op != token.OR {
			return false
		}
		return flagIdents(x.X, out) && flagIdents(x.Y, out)
	case *ast.ParenExpr:
		return flagIdents(x.X, out)
	case *ast.SelectorExpr:
		*out = append(*out, x.Sel.Name)
		return true
	}
	return false
}

// readCalls lists, in source order, the (count variable, buffer variable) of every `n, err := x.Read(buf)` in fn.
func readCalls(fn *ast.FuncDecl) [][2]string {
	var out [][2]string
	if fn == nil {
		return out
	}
	ast.Inspect(fn.Body, func(n ast.Node) bool {
		as, ok := n.(*ast.AssignStmt)
		if !ok || len(as.Lhs) != 2 || len(as.Rhs) != 1 {
			return true
		}
		ce, ok := as.Rhs[0].(*ast.CallExpr)
		if !ok || len(ce.Args) != 1 {
			return true
		}
		se, ok := ce.Fun.(*ast.SelectorExpr)
		if !ok || se.Sel.Name != "Read" {
			return true
		}
		cnt, ok1 := as.Lhs[0].(*ast.Ident)
		buf, ok2 := ce.Args[0].(*ast.Ident)
		if ok1 && ok2 {
			out = append(out, [2]string{cnt.Name, buf.Name})
		}
		return true
	})
	return out
}

// makeSize evaluates N in `name := make([]byte, N)` inside fn (constants of fn and of the file are resolved).
func makeSize(file *ast.File, fn *ast.FuncDecl, name string, env map[string]int64) (int64, bool) {
	e := fx.AssignRHS(fn, name)
	ce, ok := e.(*ast.CallExpr)
	if !ok || len(ce.Args) != 2 {
		return 0, false
	}
	if id, ok := ce.Fun.(*ast.Ident); !ok || id.Name != "make" {
		return 0, false
	}
	local := map[string]int64{}
	for k, v := range env {
		local[k] = v
	}
	ast.Inspect(ce.Args[1], func(n ast.Node) bool {
		if id, ok := n.(*ast.Ident); ok {
			if _, have := local[id.Name]; !have {
				for _, root := range []ast.Node{fn, file} {
					if d := constDecl(root, id.Name); d != nil {
						if v, ok := eval(d, local); ok {
							local[id.Name] = v
							break
						}
					}
				}
			}
		}
		return true
	})
	return eval(ce.Args[1], local)
}

func Extract() *fx.Group {
	g := fx.NewGroup("SyncFs")
	cp := fx.Parse("sync/copy.go")
	vf := fx.Parse("sync/verify.go")

	// ---- parameter: excludedPaths (keys mapped to true), sorted
	if cp != nil {
		var keys []string
		found := false
		if e := constDecl(cp, "excludedPaths"); e != nil {
			if cl, ok := e.(*ast.CompositeLit); ok {
				found = true
				for _, el := range cl.Elts {
					kv, ok := el.(*ast.KeyValueExpr)
					if !ok {
						found = false
						break
					}
					k, ok1 := kv.Key.(*ast.BasicLit)
					v, ok2 := kv.Value.(*ast.Ident)
					if !ok1 || k.Kind != token.STRING || !ok2 {
						found = false
						break
					}
					s, err := strconv.Unquote(k.Value)
					if err != nil {
						found = false
						break
					}
					if v.Name == "true" {
						keys = append(keys, s)
					}
				}
			}
		}
		if found {
			sort.Strings(keys)
			g.Strs("excludedPaths", keys)
		} else {
			g.Missing("excludedPaths")
		}
	} else {
		g.Missing("excludedPaths")
	}

	// ---- parameter: maxCopyAllSize
	env := map[string]int64{}
	if e := constDecl(cp, "maxCopyAllSize"); cp != nil && e != nil {
		if v, ok := eval(e, env); ok {
			g.Nat("maxCopyAllSize", v)
			env["maxCopyAllSize"] = v
		} else {
			g.Missing("maxCopyAllSize")
		}
	} else {
		g.Missing("maxCopyAllSize")
	}

	one := fx.FindFunc(cp, "", "copyOneFile")
	// ---- parameter: streaming buffer size: the buffer handed to in.Read in copyOneFile
	if rc := readCalls(one); len(rc) == 1 {
		if v, ok := makeSize(cp, one, rc[0][1], env); ok {
			g.Nat("copyChunkSize", v)
		} else {
			g.Missing("copyChunkSize")
		}
	} else {
		g.Missing("copyChunkSize")
	}
	// ---- pin: the whole-file path is taken when info.Size() <op> maxCopyAllSize
	// ---- pin: open flags of the destination file; Write of the whole data; Chtimes error ignored
	if one != nil {
		op := ""
		var flags []string
		flagsOK := false
		chtimesIgnored := false
		ast.Inspect(one.Body, func(n ast.Node) bool {
			switch x := n.(type) {
			case *ast.IfStmt:
				if be, ok := x.Cond.(*ast.BinaryExpr); ok {
					if id, ok := be.Y.(*ast.Ident); ok && id.Name == "maxCopyAllSize" && strings.Contains(fx.Src(be.X), "Size()") {
						op = be.Op.String()
					}
				}
				// if err := dst.Chtimes(...); err != nil { return nil }
				if x.Init != nil && strings.Contains(fx.Src(x.Init), ".Chtimes(") && len(x.Body.List) > 0 {
					if rs, ok := x.Body.List[len(x.Body.List)-1].(*ast.ReturnStmt); ok && len(rs.Results) == 1 && fx.Src(rs.Results[0]) == "nil" {
						chtimesIgnored = true
					}
				}
			case *ast.CallExpr:
				if se, ok := x.Fun.(*ast.SelectorExpr); ok && se.Sel.Name == "OpenFile" && len(x.Args) == 2 {
					var ids []string
					if flagIdents(x.Args[1], &ids) {
						sort.Strings(ids)
						flags = ids
						flagsOK = true
					}
				}
			}
			return true
		})
		if op != "" {
			g.Str("copyAllCmpOp", op)
		} else {
			g.Missing("copyAllCmpOp")
		}
		if flagsOK {
			g.Strs("openFlags", flags)
		} else {
			g.Missing("openFlags")
		}
		g.Bool("chtimesErrorIgnored", chtimesIgnored)
	} else {
		g.Missing("copyAllCmpOp")
		g.Missing("openFlags")
		g.Missing("chtimesErrorIgnored")
	}

	// ---- pin: copyDir: exclusion by entry name, order of the branches (symlink, dir, non-regular, file)
	if cd := fx.FindFunc(cp, "", "copyDir"); cd != nil {
		exclByName := false
		var branches []string
		ast.Inspect(cd.Body, func(n ast.Node) bool {
			ifs, ok := n.(*ast.IfStmt)
			if !ok {
				return true
			}
			c := fx.Src(ifs.Cond)
			isExcl := false
			if ix, ok := ifs.Cond.(*ast.IndexExpr); ok && fx.Src(ix.X) == "excludedPaths" {
				isExcl = true
				if id, ok := ix.Index.(*ast.Ident); ok {
					if e := fx.AssignRHS(cd, id.Name); e != nil {
						if ce, ok := e.(*ast.CallExpr); ok && len(ce.Args) == 0 {
							if se, ok := ce.Fun.(*ast.SelectorExpr); ok && se.Sel.Name == "Name" {
								exclByName = true
							}
						}
					}
				}
			}
			isDirCall := false
			if ce, ok := ifs.Cond.(*ast.CallExpr); ok && len(ce.Args) == 0 {
				if se, ok := ce.Fun.(*ast.SelectorExpr); ok && se.Sel.Name == "IsDir" {
					isDirCall = true
				}
			}
			switch {
			case isExcl:
				branches = append(branches, "excluded")
				return false
			case strings.Contains(c, "ModeSymlink"):
				branches = append(branches, "symlink")
				return false
			case isDirCall:
				branches = append(branches, "dir")
				return false
			case strings.Contains(c, "IsRegular()"):
				branches = append(branches, "nonregular")
				return false
			case strings.Contains(fx.Src(ifs), "copyOneFile("):
				branches = append(branches, "file")
				return false
			}
			return true
		})
		g.Bool("copyExcludesByEntryName", exclByName)
		g.Strs("copyDirBranches", branches)
	} else {
		g.Missing("copyExcludesByEntryName")
		g.Missing("copyDirBranches")
	}

	// ---- pins: CompareFS walks the original first and then the target; exclusion by basename in both passes
	if cf := fx.FindFunc(vf, "", "CompareFS"); cf != nil {
		params := map[string]int64{}
		idx := int64(0)
		for _, f := range cf.Type.Params.List {
			for _, nm := range f.Names {
				params[nm.Name] = idx
				idx++
			}
		}
		var order []int64
		byBase := int64(0)
		statTarget := false
		ast.Inspect(cf.Body, func(n ast.Node) bool {
			switch x := n.(type) {
			case *ast.CallExpr:
				if se, ok := x.Fun.(*ast.SelectorExpr); ok && fx.Src(se.X) == "fs" && len(x.Args) >= 2 {
					if id, ok := x.Args[0].(*ast.Ident); ok {
						if se.Sel.Name == "WalkDir" {
							if i, ok := params[id.Name]; ok && fx.Src(x.Args[1]) == `"."` {
								order = append(order, i)
							} else {
								order = append(order, 99)
							}
						}
						if se.Sel.Name == "Stat" {
							if i, ok := params[id.Name]; ok && i == 1 {
								statTarget = true
							}
						}
					}
				}
			case *ast.IndexExpr:
				if ce, ok := x.Index.(*ast.CallExpr); ok && fx.Src(x.X) == "excludedPaths" && fx.Src(ce.Fun) == "path.Base" && len(ce.Args) == 1 {
					if _, ok := ce.Args[0].(*ast.Ident); ok {
						byBase++
					}
				}
			}
			return true
		})
		g.Nats("compareWalkOrder", order)
		g.Nat("compareExcludeByBase", byBase)
		g.Bool("compareStatsTarget", statTarget)
	} else {
		g.Missing("compareWalkOrder")
		g.Missing("compareExcludeByBase")
		g.Missing("compareStatsTarget")
	}

	// ---- compareFileContents: buffer size (parameter) and the mismatch condition (pin)
	if cc := fx.FindFunc(vf, "", "compareFileContents"); cc != nil {
		rc := readCalls(cc)
		bufs := int64(0)
		var bsz int64 = -1
		for _, r := range rc {
			if v, ok := makeSize(vf, cc, r[1], env); ok {
				if bsz < 0 || v == bsz {
					bufs++
				}
				if bsz < 0 {
					bsz = v
				}
			}
		}
		if bsz >= 0 {
			g.Nat("compareBufSize", bsz)
		} else {
			g.Missing("compareBufSize")
		}
		g.Nat("compareBuffersOfBufSize", bufs)
		lenTest, bytesTest, isOr := false, false, false
		condSrc := ""
		if len(rc) == 2 {
			sl := func(i int) string { return rc[i][1] + "[:" + rc[i][0] + "]" }
			ast.Inspect(cc.Body, func(n ast.Node) bool {
				ifs, ok := n.(*ast.IfStmt)
				if !ok {
					return true
				}
				be, ok := ifs.Cond.(*ast.BinaryExpr)
				if !ok || !strings.Contains(fx.Src(ifs.Cond), "bytes.Equal") {
					return true
				}
				condSrc = fx.Src(ifs.Cond)
				isOr = be.Op == token.LOR
				for _, side := range []ast.Expr{be.X, be.Y} {
					if b2, ok := side.(*ast.BinaryExpr); ok && b2.Op == token.NEQ {
						l, r := fx.Src(b2.X), fx.Src(b2.Y)
						if (l == rc[0][0] && r == rc[1][0]) || (l == rc[1][0] && r == rc[0][0]) {
							lenTest = true
						}
					}
					if u, ok := side.(*ast.UnaryExpr); ok && u.Op == token.NOT {
						s := fx.Src(u.X)
						if s == "bytes.Equal("+sl(0)+", "+sl(1)+")" || s == "bytes.Equal("+sl(1)+", "+sl(0)+")" {
							bytesTest = true
						}
					}
				}
				return true
			})
		}
		g.Str("compareCond", condSrc)
		g.Bool("compareCondLenOrBytes", isOr && lenTest && bytesTest)
	} else {
		g.Missing("compareBufSize")
		g.Missing("compareCondLenOrBytes")
		g.Missing("compareBuffersOfBufSize")
	}
	return g
}
